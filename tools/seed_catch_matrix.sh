#!/bin/bash
# usage: tools/seed_catch_matrix.sh "<seeds>" [jobs]  — for every kept seeded change run its OWN property's quick check with each VERIF_SEED
# (no suite, no demo: those are in meta.json) and print "<id> seed=<s> rc=<rc>"; results go to seeded/catch_matrix.txt
SEEDS=${1:-"1 2"}; JOBS=${2:-4}
cd /verif
run() { id=$1; sd=$2; p=${id%%-*}; out=$(VERIF_SEED=$sd tools/run_seeded.sh seeded/$id $p quick --no-suite 2>&1 | grep "^check "); echo "$id seed=$sd ${out#check $p }"; }
export -f run
for d in seeded/C*-*/; do id=$(basename $d); [ -f $d/patch.diff ] || continue; for sd in $SEEDS; do echo "$id $sd"; done; done | xargs -P $JOBS -L 1 bash -c 'run $0 $1'
