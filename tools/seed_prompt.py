#!/usr/bin/env python3
"""Print the prompt given to an independent sub-agent that seeds a breaking change for one property.
The agent sees ONLY the property record and a scratch worktree (nothing from /verif)."""
import json
import sys

pid, n = sys.argv[1], sys.argv[2]
rec = next(json.loads(l) for l in open("/verif/properties.jsonl") if json.loads(l)["id"] == pid)
wt = f"/tmp/seedwork/{pid}_{n}"
print(f"""You are a careful software engineer asked to construct a *realistic regression* in the Python project python-poetry/poetry-core, to test how good a verification tool is. You have your own scratch git worktree of the project at {wt} (create it first with: `git -C /repo worktree add --detach {wt} HEAD`). Work ONLY inside {wt} and /tmp/seedwork; never edit /repo itself and do not read anything under /verif.

THE PROPERTY that your change must break (this is all you are told about it):

  id: {rec['id']}
  title: {rec['title']}
  statement: {rec['statement']}
  quantifier: {rec['quantifier']['text']}
  anchors (where the mechanism lives): {json.dumps(rec['anchors'].get('mechanism', []))}

YOUR TASK: produce ONE small source change (a few lines, in {wt}/src/poetry/core/…) of the kind a developer could plausibly make by mistake or by a well-meant refactoring/optimisation, such that
  (a) the package still imports and the COMPLETE existing test suite still passes: `cd {wt} && PYTHONPATH={wt}/src /venv/bin/python -m pytest -q -p no:cacheprovider tests 2>&1 | tail -3` must report `2592 passed` (the PYTHONPATH is essential: without it pytest silently tests /repo);
  (b) the property above is now violated — but NOT in a way ordinary use exposes at once: it must need something specific to manifest (an unusual but in-domain input, a particular combination of segments/operators, a multi-step sequence of operations, a particular interleaving or call history, a particular file layout, two cooperating sites that each look fine alone …). Stay inside the property's quantified domain;
  (c) you demonstrate it with a small standalone script `{wt}/demo.py` (run as `PYTHONPATH=<tree>/src /venv/bin/python demo.py`; it may use only the standard library, poetry.core from the tree under test, and — in a subprocess with a clean environment, because poetry.core puts its own vendored copy first on sys.path — `/venv/bin/python -c "import packaging…"` for the PEP 440/508 reference if needed) that exits 0 and prints PASS on the unchanged project (`PYTHONPATH=/repo/src`) and exits 1 printing FAIL with the concrete failing input/sequence on your changed tree.
Think about which inputs the existing tests pin (read tests/ for the touched code) and choose a breakage they do not see. Prefer a change different from the obvious "flip one comparison that every test exercises". Do not add or edit tests. Keep the diff minimal.

When done, write `{wt}/patch.diff` (`git -C {wt} diff -- src > {wt}/patch.diff`) and `{wt}/meta.json` with keys: property, summary (one sentence: what was changed), needs (what specific input/sequence/interleaving it takes to manifest), demo_output_changed (the FAIL line), suite (the pytest summary line you observed). Leave the worktree in place (the lead removes it). FINAL REPORT: 5 lines max — the diff in words, what it needs to manifest, the two demo outputs, the pytest summary.""")
