#!/venv/bin/python
"""Translator: regenerates lean/PoetryVerif/Model/Generated.lean from /repo's *current* source.

Only tables and straight-line integer code are translated (DESIGN §2.3a); control logic is
hand-modelled and tied by the correspondence check.  The source is read with `ast` (never
imported), so the output reflects exactly what the working tree says.

Exit status 0 and the file written; on any shape mismatch raises ExtractError (exit 3), which
the check treats like a broken correspondence.
"""
from __future__ import annotations

import ast
import os
import sys
from pathlib import Path

REPO = Path(os.environ.get("VERIF_REPO", "/repo"))
SRC = REPO / "src" / "poetry" / "core"
OUT = Path(os.environ.get("VERIF_LEAN_DIR", str(Path(__file__).resolve().parent.parent / "lean"))) / "PoetryVerif" / "Model" / "Generated.lean"


class ExtractError(Exception):
    pass


def parse(rel: str) -> ast.Module:
    p = SRC / rel
    try:
        return ast.parse(p.read_text(encoding="utf-8"), filename=str(p))
    except (OSError, SyntaxError) as e:  # pragma: no cover
        raise ExtractError(f"cannot parse {p}: {e}") from e


def lean_str(s: str) -> str:
    out = ['"']
    for ch in s:
        if ch == '"':
            out.append('\\"')
        elif ch == "\\":
            out.append("\\\\")
        elif ch == "\n":
            out.append("\\n")
        elif ch == "\t":
            out.append("\\t")
        elif ord(ch) < 32 or ord(ch) > 126:
            out.append("\\u{%x}" % ord(ch))
        else:
            out.append(ch)
    out.append('"')
    return "".join(out)


def module_assigns(mod: ast.Module) -> dict[str, ast.expr]:
    d: dict[str, ast.expr] = {}
    for node in mod.body:
        if isinstance(node, ast.Assign) and len(node.targets) == 1 and isinstance(node.targets[0], ast.Name):
            d[node.targets[0].id] = node.value
        elif isinstance(node, ast.AnnAssign) and isinstance(node.target, ast.Name) and node.value is not None:
            d[node.target.id] = node.value
    return d


def class_def(mod: ast.Module, name: str) -> ast.ClassDef:
    for node in mod.body:
        if isinstance(node, ast.ClassDef) and node.name == name:
            return node
    raise ExtractError(f"class {name} not found")


def func_def(body: list[ast.stmt], name: str) -> ast.FunctionDef:
    for node in body:
        if isinstance(node, ast.FunctionDef) and node.name == name:
            return node
    raise ExtractError(f"function {name} not found")


def class_assigns(cls: ast.ClassDef) -> dict[str, ast.expr]:
    d: dict[str, ast.expr] = {}
    for node in cls.body:
        if isinstance(node, ast.Assign) and len(node.targets) == 1 and isinstance(node.targets[0], ast.Name):
            d[node.targets[0].id] = node.value
        elif isinstance(node, ast.AnnAssign) and isinstance(node.target, ast.Name) and node.value is not None:
            d[node.target.id] = node.value
    return d


def const_eval(node: ast.expr, env: dict[str, object]) -> object:
    """Evaluate literals, names bound in env, sets/dicts/tuples/lists of those."""
    if isinstance(node, ast.Constant):
        return node.value
    if isinstance(node, ast.Name):
        if node.id in env:
            return env[node.id]
        raise ExtractError(f"unbound name {node.id}")
    if isinstance(node, ast.Set):
        return {const_eval(e, env) for e in node.elts}
    if isinstance(node, (ast.Tuple, ast.List)):
        return [const_eval(e, env) for e in node.elts]
    if isinstance(node, ast.Dict):
        return {const_eval(k, env): const_eval(v, env) for k, v in zip(node.keys, node.values)}  # type: ignore[arg-type]
    if isinstance(node, ast.UnaryOp) and isinstance(node.op, ast.USub):
        return -const_eval(node.operand, env)  # type: ignore[operator]
    raise ExtractError(f"unsupported constant expression {ast.dump(node)[:80]}")


# --------------------------------------------------------------------------------------
# version/pep440/segments.py and version.py : phase ids, spellings, sentinels
# --------------------------------------------------------------------------------------

def gen_phases(lines: list[str]) -> None:
    seg = module_assigns(parse("version/pep440/segments.py"))
    env: dict[str, object] = {}
    ids = {}
    for key, lean_name in [
        ("RELEASE_PHASE_ID_ALPHA", "phaseIdAlpha"),
        ("RELEASE_PHASE_ID_BETA", "phaseIdBeta"),
        ("RELEASE_PHASE_ID_RC", "phaseIdRc"),
        ("RELEASE_PHASE_ID_POST", "phaseIdPost"),
        ("RELEASE_PHASE_ID_DEV", "phaseIdDev"),
    ]:
        if key not in seg:
            raise ExtractError(f"{key} missing in segments.py")
        v = const_eval(seg[key], env)
        if not isinstance(v, str):
            raise ExtractError(f"{key} is not a string")
        env[key] = v
        ids[lean_name] = v
    spell = const_eval(seg["RELEASE_PHASE_SPELLINGS"], env)
    if not isinstance(spell, dict):
        raise ExtractError("RELEASE_PHASE_SPELLINGS is not a dict")
    # RELEASE_PHASE_NORMALIZATIONS = {s: id_ for id_, spellings in ....items() for s in spellings}
    norm = seg.get("RELEASE_PHASE_NORMALIZATIONS")
    if not isinstance(norm, ast.DictComp):
        raise ExtractError("RELEASE_PHASE_NORMALIZATIONS is not the expected dict comprehension")
    pairs = sorted((s, i) for i, ss in spell.items() for s in ss)
    for name, v in ids.items():
        lines.append(f"def {name} : String := {lean_str(v)}")
    lines.append("/-- spelling ↦ phase id (RELEASE_PHASE_NORMALIZATIONS), sorted by spelling -/")
    lines.append("def phaseSpellings : List (String × String) := ["
                 + ", ".join(f"({lean_str(s)}, {lean_str(i)})" for s, i in pairs) + "]")

    ver = parse("version/pep440/version.py")
    va = module_assigns(ver)
    for key, lean_name in [("_INF_TAG", "infTagPhase"), ("_NEG_INF_TAG", "negInfTagPhase")]:
        call = va.get(key)
        if not (isinstance(call, ast.Call) and isinstance(call.func, ast.Name) and call.func.id == "ReleaseTag"
                and len(call.args) == 2 and isinstance(call.args[0], ast.Constant)
                and isinstance(call.args[1], ast.Call) and isinstance(call.args[1].func, ast.Name)):
            raise ExtractError(f"{key} has unexpected shape")
        expected_cls = "Infinity" if key == "_INF_TAG" else "NegativeInfinity"
        if call.args[1].func.id != expected_cls:
            raise ExtractError(f"{key} does not use {expected_cls}")
        lines.append(f"def {lean_name} : String := {lean_str(call.args[0].value)}")
    # the ReleaseTag post-init must lower-case then look up the table
    # (only the *shape* is recorded: whether `.lower()` is applied)
    rt = class_def(parse("version/pep440/segments.py"), "ReleaseTag")
    post_init = func_def(rt.body, "__post_init__")
    lowered = any(isinstance(n, ast.Attribute) and n.attr == "lower" for n in ast.walk(post_init))
    lines.append(f"def phaseLookupLowercases : Bool := {'true' if lowered else 'false'}")


# --------------------------------------------------------------------------------------
# constraints/generic/constraint.py : operator tables
# --------------------------------------------------------------------------------------

def gen_generic(lines: list[str]) -> None:
    mod = parse("constraints/generic/constraint.py")
    cls = class_assigns(class_def(mod, "Constraint"))
    env = {"OP_EQ": "eq", "OP_NE": "ne", "OP_IN": "in", "OP_NC": "nc"}
    t = const_eval(cls["_trans_op_str"], env)
    inv = const_eval(cls["_trans_op_inv"], env)
    if not isinstance(t, dict) or not isinstance(inv, dict):
        raise ExtractError("operator tables have unexpected shape")
    lines.append("/-- Constraint._trans_op_str : operator text ↦ semantic operator tag -/")
    lines.append("def genericOpTable : List (String × String) := ["
                 + ", ".join(f"({lean_str(k)}, {lean_str(str(v))})" for k, v in sorted(t.items())) + "]")
    lines.append("def genericOpInv : List (String × String) := ["
                 + ", ".join(f"({lean_str(k)}, {lean_str(str(v))})" for k, v in sorted(inv.items())) + "]")
    mm = parse("constraints/generic/multi_constraint.py")
    for cname, lname in [("MultiConstraint", "multiOperators"), ("ExtraMultiConstraint", "extraMultiOperators")]:
        ops = const_eval(class_assigns(class_def(mm, cname))["OPERATORS"], {})
        lines.append(f"def {lname} : List String := [" + ", ".join(lean_str(o) for o in ops) + "]")  # type: ignore[union-attr]


# --------------------------------------------------------------------------------------
# version/markers.py : aliases, python markers, version-like names, invert operator chain
# --------------------------------------------------------------------------------------

def gen_markers(lines: list[str]) -> None:
    mod = parse("version/markers.py")
    ma = module_assigns(mod)
    aliases = const_eval(ma["ALIASES"], {})
    pvm = const_eval(ma["PYTHON_VERSION_MARKERS"], {})
    if not isinstance(aliases, dict) or not isinstance(pvm, set):
        raise ExtractError("ALIASES / PYTHON_VERSION_MARKERS unexpected shape")
    lines.append("def markerAliases : List (String × String) := ["
                 + ", ".join(f"({lean_str(k)}, {lean_str(v)})" for k, v in sorted(aliases.items())) + "]")
    lines.append("def pythonVersionMarkers : List String := [" + ", ".join(lean_str(s) for s in sorted(pvm)) + "]")
    sm = class_def(mod, "SingleMarker")
    vl = const_eval(class_assigns(sm)["_VERSION_LIKE_MARKER_NAME"], {})
    lines.append("def versionLikeMarkerNames : List String := [" + ", ".join(lean_str(s) for s in sorted(vl)) + "]")  # type: ignore[arg-type]
    # invert(): if/elif chain  `self._operator in (...)` / `== "x"`  ->  operator = "y"
    inv = func_def(sm.body, "invert")
    table: list[tuple[str, str]] = []
    node: ast.stmt | None = inv.body[0]
    while isinstance(node, ast.If):
        test = node.test
        ops: list[str] = []
        if isinstance(test, ast.Compare) and isinstance(test.left, ast.Attribute) and test.left.attr == "_operator":
            comp = test.comparators[0]
            if isinstance(test.ops[0], ast.In):
                ops = [e.value for e in comp.elts]  # type: ignore[attr-defined]
            elif isinstance(test.ops[0], ast.Eq):
                ops = [comp.value]  # type: ignore[attr-defined]
        if not ops:
            raise ExtractError("SingleMarker.invert: unexpected test shape")
        body0 = node.body[0]
        if isinstance(body0, ast.Assign) and isinstance(body0.value, ast.Constant):
            for o in ops:
                table.append((o, body0.value.value))
        else:
            for o in ops:
                table.append((o, "<special>"))
        node = node.orelse[0] if node.orelse and isinstance(node.orelse[0], ast.If) else None
    if not table:
        raise ExtractError("SingleMarker.invert: operator chain not found")
    lines.append("/-- SingleMarker.invert operator chain, in source order -/")
    lines.append("def markerInvertOps : List (String × String) := ["
                 + ", ".join(f"({lean_str(a)}, {lean_str(b)})" for a, b in table) + "]")


# --------------------------------------------------------------------------------------
# masonry/utils/helpers.py : normalize_file_permissions  (straight-line integer code)
# --------------------------------------------------------------------------------------

class IntCode:
    """Translate a tiny subset of Python (int locals, | & ~const, if / if-else, augmented
    assignment, return) statement by statement into a Lean `Id.run do` block over Nat.

    `e & ~c` (clearing the bits of c) is translated to `e ^^^ (e &&& c)`, which is exact on
    naturals (Python ints are unbounded, so there is no width to model)."""

    def __init__(self, fn: ast.FunctionDef):
        self.fn = fn
        if len(fn.args.args) != 1:
            raise ExtractError(f"{fn.name}: expected one argument")
        self.arg = fn.args.args[0].arg
        self.locals: set[str] = set()

    def expr(self, e: ast.expr) -> str:
        if isinstance(e, ast.Constant) and isinstance(e.value, int) and not isinstance(e.value, bool):
            if e.value < 0:
                raise ExtractError("negative constant")
            return str(e.value)
        if isinstance(e, ast.Name) and (e.id == self.arg or e.id in self.locals):
            return e.id
        if isinstance(e, ast.BinOp):
            if isinstance(e.op, ast.BitAnd) and isinstance(e.right, ast.UnaryOp) and isinstance(e.right.op, ast.Invert):
                a = self.expr(e.left)
                c = self.expr(e.right.operand)
                return f"({a} ^^^ ({a} &&& {c}))"
            l, r = self.expr(e.left), self.expr(e.right)
            if isinstance(e.op, ast.BitOr):
                return f"({l} ||| {r})"
            if isinstance(e.op, ast.BitAnd):
                return f"({l} &&& {r})"
        raise ExtractError(f"{self.fn.name}: unsupported expression {ast.dump(e)[:80]}")

    def stmts(self, body: list[ast.stmt], depth: int) -> list[str]:
        ind = "  " * depth
        out: list[str] = []
        for s in body:
            if isinstance(s, ast.Expr) and isinstance(s.value, ast.Constant) and isinstance(s.value.value, str):
                continue  # docstring
            if isinstance(s, ast.Return) and s.value is not None:
                out.append(f"{ind}return {self.expr(s.value)}")
            elif isinstance(s, ast.Assign) and len(s.targets) == 1 and isinstance(s.targets[0], ast.Name):
                name = s.targets[0].id
                if name == self.arg:
                    raise ExtractError("assignment to the argument is not supported")
                rhs = self.expr(s.value)
                if name in self.locals:
                    out.append(f"{ind}{name} := {rhs}")
                else:
                    if depth != 1:
                        raise ExtractError("local first assigned inside a branch")
                    self.locals.add(name)
                    out.append(f"{ind}let mut {name} := {rhs}")
            elif isinstance(s, ast.AugAssign) and isinstance(s.target, ast.Name) and s.target.id in self.locals:
                fake = ast.BinOp(left=ast.Name(id=s.target.id), op=s.op, right=s.value)
                out.append(f"{ind}{s.target.id} := {self.expr(fake)}")
            elif isinstance(s, ast.If):
                out.append(f"{ind}if ({self.expr(s.test)}) != 0 then")
                out += self.stmts(s.body, depth + 1)
                if s.orelse:
                    out.append(f"{ind}else")
                    out += self.stmts(s.orelse, depth + 1)
            else:
                raise ExtractError(f"{self.fn.name}: unsupported statement {ast.dump(s)[:80]}")
        return out

    def lean(self, name: str) -> str:
        body = self.stmts(self.fn.body, 1)
        if not body or not body[-1].lstrip().startswith("return"):
            raise ExtractError(f"{self.fn.name}: does not end in return")
        return f"def {name} ({self.arg} : Nat) : Nat := Id.run do\n" + "\n".join(body)


def gen_permissions(lines: list[str]) -> None:
    mod = parse("masonry/utils/helpers.py")
    fn = func_def(mod.body, "normalize_file_permissions")
    lines.append("/-- masonry/utils/helpers.py:normalize_file_permissions, translated statement by statement -/")
    lines.append(IntCode(fn).lean("normalizeFilePermissions"))


# --------------------------------------------------------------------------------------
# wheel.py / sdist.py timestamps; builder.py header order; helpers PYTHON_VERSION
# --------------------------------------------------------------------------------------

def gen_build_consts(lines: list[str]) -> None:
    wheel = parse("masonry/builders/wheel.py")
    cls = class_def(wheel, "WheelBuilder")
    fn = func_def(cls.body, "_zipfile_date_time")
    tuples = [n for n in ast.walk(fn) if isinstance(n, ast.Tuple) and len(n.elts) == 6
              and all(isinstance(e, ast.Constant) and isinstance(e.value, int) for e in n.elts)]
    if len(tuples) != 1:
        raise ExtractError("_zipfile_date_time: default tuple not found")
    default = [e.value for e in tuples[0].elts]  # type: ignore[attr-defined]
    lines.append("def wheelDefaultDateTime : List Nat := [" + ", ".join(map(str, default)) + "]")
    years = [n.value for n in ast.walk(fn) if isinstance(n, ast.Constant) and isinstance(n.value, int) and 1900 < n.value < 2100]
    lines.append("def wheelMinYear : Nat := " + str(min(years)))
    sd = parse("masonry/builders/sdist.py")
    cls = class_def(sd, "SdistBuilder")
    fn = func_def(cls.body, "_archive_mtime") if any(isinstance(n, ast.FunctionDef) and n.name == "_archive_mtime" for n in cls.body) else None
    if fn is not None:
        consts = [n.value for n in ast.walk(fn) if isinstance(n, ast.Constant) and isinstance(n.value, int) and not isinstance(n.value, bool)]
        lines.append("def sdistDefaultMtime : Nat := " + str(consts[-1] if consts else 0))
    b = parse("masonry/builders/builder.py")
    ba = module_assigns(b)
    base = ba.get("METADATA_BASE")
    if not (isinstance(base, ast.Constant) and isinstance(base.value, str)):
        raise ExtractError("METADATA_BASE not a string literal")
    lines.append("def metadataBase : String := " + lean_str(base.value))
    cls = class_def(b, "Builder")
    fn = func_def(cls.body, "get_metadata_content")
    headers: list[str] = []
    for n in ast.walk(fn):
        if isinstance(n, ast.JoinedStr) and n.values and isinstance(n.values[0], ast.Constant) and isinstance(n.values[0].value, str):
            txt = n.values[0].value
            if ": " in txt and not txt.startswith("\n"):
                headers.append(txt.split(":")[0])
        if isinstance(n, ast.Assign) and isinstance(n.value, ast.Constant) and isinstance(n.value.value, str) and n.value.value.endswith(": "):
            headers.append(n.value.value.split(":")[0])
    # keep source order (ast.walk is BFS; re-sort by line number)
    ordered: list[tuple[int, str]] = []
    for n in ast.walk(fn):
        if isinstance(n, ast.JoinedStr) and n.values and isinstance(n.values[0], ast.Constant) and isinstance(n.values[0].value, str):
            txt = n.values[0].value
            if ": " in txt and not txt.startswith("\n"):
                ordered.append((n.lineno, txt.split(":")[0]))
        if isinstance(n, ast.Assign) and isinstance(n.value, ast.Constant) and isinstance(n.value.value, str) and n.value.value.endswith(": "):
            ordered.append((n.lineno, n.value.value.split(":")[0]))
    seen: list[str] = []
    for _, h in sorted(ordered):
        if h not in seen:
            seen.append(h)
    lines.append("/-- order of the optional headers appended by get_metadata_content -/")
    lines.append("def metadataHeaderOrder : List String := [" + ", ".join(lean_str(h) for h in seen) + "]")
    vh = module_assigns(parse("version/helpers.py"))
    pv = const_eval(vh["PYTHON_VERSION"], {})
    lines.append("def pythonVersionList : List String := [" + ", ".join(lean_str(s) for s in pv) + "]")  # type: ignore[union-attr]


def generate() -> str:
    lines: list[str] = [
        "/- GENERATED by tools/extract.py from /repo's working tree on every check run. DO NOT EDIT. -/",
        "namespace Poetry.Gen",
        "",
    ]
    for g in (gen_phases, gen_generic, gen_markers, gen_permissions, gen_build_consts):
        g(lines)
        lines.append("")
    # plug-ins: tools/extract_parts/*.py, each `def gen(lines: list[str]) -> None` (may `from extract import parse, lean_str, …`)
    import importlib.util
    parts = Path(__file__).resolve().parent / "extract_parts"
    sys.path.insert(0, str(Path(__file__).resolve().parent))
    for f in sorted(parts.glob("*.py")) if parts.is_dir() else []:
        spec = importlib.util.spec_from_file_location("extract_part_" + f.stem, f)
        mod = importlib.util.module_from_spec(spec)  # type: ignore[arg-type]
        try:
            spec.loader.exec_module(mod)  # type: ignore[union-attr]
            mod.gen(lines)
        except ExtractError:
            raise
        except Exception as e:  # shape mismatch in a plug-in = extraction failure
            raise ExtractError(f"{f.name}: {type(e).__name__}: {e}") from e
        lines.append("")
    lines.append("end Poetry.Gen")
    return "\n".join(lines) + "\n"


def main() -> int:
    try:
        text = generate()
    except ExtractError as e:
        print(f"EXTRACT-ERROR: {e}")
        return 3
    old = OUT.read_text() if OUT.exists() else None
    if old != text:
        OUT.parent.mkdir(parents=True, exist_ok=True)
        OUT.write_text(text)
        print("Generated.lean updated")
    else:
        print("Generated.lean unchanged")
    return 0


if __name__ == "__main__":
    sys.exit(main())
