#!/venv/bin/python
"""Regenerate MANIFEST.json from the table below (kept here so the file is always schema-valid)."""
from __future__ import annotations

import json
from pathlib import Path

VERIF = Path(__file__).resolve().parent.parent

# id -> (technique, level text, level note, design ref)
TB = ("Trusted: Lean 4.33 kernel (leanchecker re-check in the thorough tier), axioms propext/Classical.choice/Quot.sound only "
      "(audited per theorem on every run), tools/extract.py, the sampling correspondence model<->code of each run. ")

CLAIMED: dict[str, tuple[str, str, str, str]] = {
    "C01": (
        "Lean 4 theorems about the wheel record/naming model (permission function regenerated from source) + differential correspondence of the logged writer calls and the real .whl against the model, on generated projects x {wheel, editable} x {hook, builder API}",
        "Machine-checked for all operation sequences: members = what the writers wrote; RECORD rows = (path, sha256=digest, size) of every "
        "member in order plus itself hash-less, and a csv reader recovers exactly these rows; each member once under the decidable guard "
        "DistinctTargets; the GENERATED `normalizeFilePermissions` yields 0644/0755 for every mode; file name / dist-info / data folder split "
        "back to (distribution name, version, tag) for every name and every version text without '-'; relative forward-slash paths without "
        "'..'; prepared dist-info files are the wheel's dist-info members. Every run re-reads each real wheel and recomputes all hashes, "
        "modes, paths, name agreement via packaging.parse_wheel_filename, returned name vs directory, prepared vs built dist-info bytes.",
        TB + "Partial: zip/deflate, sha256 (uninterpreted), csv dialect of CPython 3.12 and the file system are trusted; that the builder performs the modelled call sequence is sampled (logged in-process), not proved; each-member-once is an invariant of every wheel that is written (`written_wheel_each_once`, no condition on the configuration: the writers refuse a name already in the archive since repo fix a8f41e9, which the obligation ConfigDistinct exposed); the build succeeds iff its own targets are distinct (`build_succeeds_iff_distinct`; ConfigDistinct is a decidable sufficient condition), otherwise RuntimeError — compared with the real builder at the refusing call; ASCII names; D11 local-version labels with '-' excluded (known finding).",
        "DESIGN.md §4 C01",
    ),
    "C06": (
        "Lean 4 proof over the white-box marker model (hand recogniser of markers.lark, SingleMarker.__init__ rewriting, validate) against a formalised PEP 508 reference semantics + differential correspondence (model vs poetry-core raw tree and parse_marker; spec vs packaging)",
        "Machine-checked: the and/or/parenthesis structure of `_compact_markers` (flattening and de-duplication included) commutes with lazy "
        "`validate` for ALL syntax trees, errors and evaluation order included; leaf agreement with the reference on EVERY leaf shape of the "
        "domain for all strings and numbers: string variables with ==, !=, in/not in (by token) and reversed substring operands; extra; "
        "python_version/python_full_version with ==,!=,<,<=,>,>=,~= and in/not in on literal TEXTS (digit round trip and the X.Y.0 padding "
        "included); composition for every marker text of the domain (`parse_eval_agree_full`); source-tie theorems (regexes, aliases, variable "
        "tables equal the extracted source constants). Counterexample theorems for the two shapes outside the domain (two-component "
        "python_full_version lists and ~=). Open: coherence of `_compact_markers` for every parsed text (proved on the domain). Every run compares raw-tree structure/text/truth vectors model vs code, the simplified parse_marker vs the raw "
        "model, the Lean spec vs packaging, and evaluates the property oracle (parse_marker(t).validate(E) vs reference) on the domain.",
        TB + "lark LALR engine and Python re trusted (recognisers tied by the parse stream); reference = packaging 26.3 with the token reading of in/not in and set-valued extras stated in the property; two known findings (whitespace in string literals; two-component tokens in python_full_version lists).",
        "DESIGN.md §4 C06",
    ),
    "C07": (
        "Lean 4 proof of the white-box simplifier model (mutual fuel recursion with explicit detect_recursion stack): refinement to an abstract leaf semantics, leaf facts discharged per fragment + structural differential correspondence (model vs real intersect/union/invert) + truth oracle on environment grids",
        "Machine-checked: intersect/union/invert, intersection()/union(), MultiMarker.of/MarkerUnion.of incl. the `while old != new` fix-point loop, intersect_simplify/union_simplify, cnf/dnf and the RecursionError fallbacks are truth-preserving for EVERY fuel, stack, operand and environment relative to two leaf facts (marker equality => equal truth; a successful _merge_single_markers is the exact conjunction/disjunction); these facts are DISCHARGED, so that `intersect_union_sound_full`, `invert_sound_full`, `empty_any_full` hold with no unproved hypothesis on the full comparison-operator domain: string variables (==/!= on plain values incl. values such as inotify/interix, and the atomic multi/union leaves merges build), extra, python_version \"X.Y\", python_full_version \"X.Y.Z\" incl. the python_version<->python_full_version pairing under python_version = major.minor, platform_release release numbers; inversion additionally on in/not in lists and reversed operands via agreement with the reference evaluator. The universal statement is proved FALSE on the known finding (`not in` united with `not in` -> Any). The model mirrors markers.py branch by branch and agrees structurally (tree, text, flags, truth vectors, error class) with the real code on every generated pair, incl. the complete python_version x python_version operator/adjacent-value universe.",
        TB + "No unproved hypothesis on: string variables with ==, !=, \"v\" in, \"v\" not in outside the decidable class ncClash (proved exact: notin_union_boundary = the known finding); extra ==/!=; python_version X.Y with the seven operators incl. ~= and in/not in lists of X.Y tokens; python_full_version X.Y.Z with the seven operators and in/not in lists of X.Y (= X.Y.*, poetry's reading) and X.Y.Z tokens; the python_version/python_full_version pairing with lists on either side (`PairCtxM`: a merged list marker is returned as merged since repo fix d9aa4ee); platform_release release numbers; final-release interpreters (`intersect_union_sound_lists_both`, `invert_sound_lists_both`). Outside (listed with one witness per class in the doc comment of C07_leaf_facts_full_statement): other literal shapes, python_full_version list tokens with four+ components, === (one-component python_full_version list tokens `3` = `3.*` and inversion of extra atomic unions with repeated values are now proved: `invert_sound_repeated_extras`). A call-history stream runs respelled / exchanged operands back to back without resetting the memo tables (the other streams reset them per case; C20 owns cache transparency); per-request clocks on both sides (counted, never a verdict).",
        "DESIGN.md §4 C07",
    ),
    "C10": (
        "Lean 4 proof over models of the PEP 508 requirement recogniser, dependency classes and a restricted git-URL grammar + differential correspondence (model vs code) + round-trip oracle with the reference parser",
        "Machine-checked for all inputs: name normalisation idempotent, extras stable (sorted, duplicate-free, canonical), spelling/quote/"
        "leading-blank insensitivity of the recogniser, the git-URL path and suffix inverse on the modelled grammar, and the registry dispatch "
        "of create_from_pep_508 rebuilding name, extras, kind and source from the recogniser's tokens. The recogniser's result on printed text "
        "and the constraint/marker round trips (C15/C13) are hypotheses of `dep_roundtrip_partial`; the whole-URL inverse and between-token "
        "whitespace are tied by correspondence (every run: parse dumps, printed texts, re-parse, reference acceptance, probe versions and "
        "environments on ~5k generated dependencies). Counterexample theorems show where the code itself breaks the statement.",
        TB + "Partial: proved with no hypothesis about recogniser, constraint parser/printer (C15) or marker parser/printer (C13, C07): the recogniser on printed text; the round trip on registry dependencies with `*`, plain ranges and single versions (identical constraint), `!=V` (equivalent constraint) and markers of C13's comparison-operator domain (validate-equal); the round trip on URL dependencies without sub-directory. Since then also: VCS dependencies in the restricted grammar's normal form through the whole-URL inverse `giturl_inverse_full`, URL sub-directory and wheel URLs, wildcard spellings, one extra; for several extras or an extra plus an own marker the printing and setter halves (`toPep508_membership_not_by_text`, `setMarker_records_membership`) — the composition through _compact_markers / convert_markers is open (`dep_roundtrip_in_extras_full_statement`); disjunction constraints are provably not re-parsable (`disjunction_not_reparsable`, outside the domain); side condition NoComment (false without it: known finding). urllib, the git-URL regex cascade beyond the restricted grammar and file-system probes are outside the model (`unmodelled`, counted). A call-history stream renders siblings that differ in one loosely-compared field back to back. Four known findings; three defects fixed in /repo.",
        "DESIGN.md §4 C10",
    ),
    "C11": (
        "Lean 4 theorems over the white-box conversion model (create_nested_marker, normalize_python_version_markers, get_python_constraint_from_marker) against the PEP 508 reference semantics and against poetry-core's own evaluation + structural differential correspondence + oracle on an interpreter grid",
        "Machine-checked for all X, Y, Z : Nat: the create_nested_marker text evaluated by the reference equals allows(X.Y.Z) for ranges, precision-3 versions, unions and the universal range (inclusive/exclusive x precision 1/2/3 x min/max incl. the .0 padding), and the same through poetry-core's own parse_marker + validate (`createNested_poetry`, no leaf-level hypothesis on the full domain; wildcard ranges X.*, X.Y.*, !=X.Y.* relative to the leaf specification); the listed operators land in the domain; normalize_python_version_markers is exact per (op, value) pair and for in/not in lists; the multi-clause constraint text splits soundly (`split_sound`); get_python_constraint_from_marker is exact for single items, an upper bound for every marker and exact on python-only markers (`pyConstraint_upper_validate`, `pyConstraint_exact_validate`, hypothesis-free on the full comparison-operator domain). A proof obligation that would not close (`hne`) exposed a real defect (fixed as 683cb61). Every run compares model vs code on texts and constraints and evaluates ranges/markers on every minor 2.6-4.1 x patch levels by poetry-core and by the reference, incl. the complete python_version pair universe.",
        TB + "Hypothesis-free on the domain with ~= leaves and python_version in/not in lists (any number of list clauses per conjunction: `pair_alternatives_own` is the statement the seeded change C11-3 breaks); `createNested_poetry` needs only the decidable `nestedDomain` (no one-component bound), `createNested_poetry_one_component` covers a second decidable domain (one/two-component bounds, lower ends inclusive, upper exclusive, no a.b / a.(b+1) adjacency: `>=3`, `^3`, `^3.8`, `>=2.7,<3 || >=3.5,<4`); `no_leaf_specification_one_component` proves that no leaf specification can exist once `python_version == \"3\"` is reachable (observed on the real code, outside the property's two-component domain); `createNested_ne_two_component` and `pyRewrite_two_digit` name what the seeded changes C11-4 / C17-4 break. Outside: single versions of precision < 3 (counterexample theorem), the remaining one-component mixes and dev-release bounds (relative to the leaf specification). Known finding single-version-precision-lt-3 as counterexample theorem.",
        "DESIGN.md §4 C11",
    ),
    "C13": (
        "Lean 4 proof: unconditional CNF/DNF shape theorems, character-level print/parse round trip, meaning preservation on the full comparison-operator domain + structural differential correspondence + re-parse by poetry-core and by the reference parser",
        "Machine-checked, unconditional (every fuel, stack, input): cnf/dnf results have the promised shape (non-empty compounds); `_merge_single_markers` yields Any/Empty/leaf; character-level `parseText (text t) = t` for all lexable trees and the token-level round trip; `__str__` is the text of a grammar tree that `_compact_markers` reads back with the same meaning (parenthesisation vs precedence). On the full comparison-operator domain with quotable values (`print_parse_full`, `algebra_print_parse_full`): results of intersect/union print, parse back and rebuild with the same meaning, and cnf/dnf preserve meaning (C07's discharged leaf facts); agreement with Spec.Pep508 through C06. Every run re-parses every result text by poetry-core and by packaging and re-evaluates it on the environment sample.",
        TB + "The domain now includes ~= leaves, the four-operator string fragment and version lists on both python variables (`print_parse_four_operators`, `print_parse_lists_both`), and ==/!= values that hold a double quote or a backslash and no single quote, printed in single quotes (`print_parse_quotes`, `print_parse_chars_quotes`, and for reversed operands `print_parse_quotes_reversed`). Every result text is also EVALUATED by the reference, not only accepted. Outside the domain the meaning theorems stay relative to the leaf facts; listed classes pfv-list-two-component, notin-union-notin-any, empty-literal-misread; a call-history stream runs respelled operands back to back without resetting the memo tables; per-request clocks (counted).",
        "DESIGN.md §4 C13",
    ),
    "C17": (
        "Lean 4 theorems by structural induction over only/exclude/reduce_by_python_constraint, composed with C07's simplifier soundness and C11's conversion exactness + structural differential correspondence + truth oracle",
        "Machine-checked, hypothesis-free on the full comparison-operator domain: `only_mentions` (the result mentions only the requested variables: the simplifier introduces no variable), `only_weakens_validate`, `exclude` on a conjunction of leaves is exactly the conjunction of the others, without_extras = exclude(\"extra\") (rfl), the member list handed to the simplifier is a plain order-keeping filter (`exclude_members_eq_filter`), never mentions the removed variable (`exclude_members_not_mentioned`), is unchanged when the variable is absent, idempotent and commuting across variables (`exclude_members_absent` / `_idempotent` / `_commute`), `reduce_exact_validate` (reduction by a Python range is exact incl. the MarkerUnion shortcut, for ranges whose bounds have two or three components). General forms relative to the leaf specification are kept as `_partial`. Every run compares model vs code on only/exclude/without_extras/reduce results and evaluates the three statements on the environment sample.",
        TB + "only / exclude / reduce are hypothesis-free on the domain FullLeafLLs (comparison operators, ~=, python_version and python_full_version lists); ranges with one-component bounds and markers outside it are covered by the general forms + correspondence.",
        "DESIGN.md §4 C17",
    ),
    "C19": (
        "Lean 4 proof of error classification and printability over executable models of the parsers + differential token-level fuzz against the real code (six grammars + Factory.validate) + regex stress per pattern source",
        "Machine-checked for EVERY string: Version.parse, the string/extra constraint parsers and the version-constraint parser (any number of `,` and `||`, local labels included) fail only with the documented ValueError, and what they return prints (no IndexError/AssertionError anywhere in parse, intersect, VersionUnion.of, `_inverted`, wildcard printing \u2014 the model's walk fuel is proved sufficient); the marker grammar recogniser fails only with the syntax error; marker leaves fail only with ValueError; all 16 functions of the simplifier block can only fail with fuel/recursion or a leaf-merge error, the AttributeError/IndexError/KeyError/TypeError/RuntimeError branches are dead; parse_marker / Requirement / create_from_pep_508 are classified up to one named residue. Front ends (re, lark) are tied to the models by correspondence (accept/reject, error class, normal text on ~46k fuzz strings per quick run; 2M in thorough); every regex constant of the parser modules is pumped for super-linear back-tracking; Factory.validate is covered by the real-code oracle on type- and key-mutated mappings.",
        TB + "The public entry points are classified without residue: parse_marker (parseMarkerTop) fails only with syntax/value errors (plus the model's own fuel/unmodelled), Requirement and create_from_pep_508 likewise (the latter may leak RecursionError from the un-guarded marker setter: allowed by the model, no input known); the simplifier preserves the leaf invariant (python_version leaves are single markers over good constraints), so its AssertionError/AttributeError branches and the assertion of convert_markers are dead. `invert` never raises lark's error on ANY grammar-accepted text (`invert_no_syntax_grammar_all`, no condition — the defect class of repo fixes 3046ca3 / 7b51c5a, whose two former counterexamples are regression theorems); for the simplifier and the public parse_marker / Requirement the same holds hypothesis-free whenever python_version and python_full_version do not both occur in the text (`parse_marker_top_syntax_is_input_not_both`, decidable `SynNotBothPy`), and is reduced to one named hypothesis (`MergeNoSyntax`: the rewritten python_full_version text of the pairing) otherwise; every bound text the version-constraint parser and algebra produce is proved free of quotes, backslashes, newlines and blanks (`VCOpsTotalT`); the rewritten text of the pairing is proved to read back for plain values outside the .0-dropping case (`py_rewrite_text_reparses`); `comment_strip_guard_agrees` / `comment_strip_guard_mismatch_counterexample` name the class of the seeded changes C19-4/5 (guard and extraction of the comment stripping must use one separator). The re-read of printed texts is a counter in this check (it is C13's clause). Eleven defects fixed in /repo; hang-like classes (git URL regexes, 60-level random and/or nesting) and one schema gap are known findings.",
        "DESIGN.md §4 C19",
    ),
    "C08": (
        "Lean 4 theorems about description-level determinism (sorted iteration over a total order, metadata scrubbing, SOURCE_DATE_EPOCH semantics incl. the 1980 boundary) + rebuilds of perturbed trees compared bytes-vs-bytes and real-description-vs-model",
        "Machine-checked for all trees, permutations and metadata: wheel and sdist descriptions are invariant under listing order, mtimes, owners, "
        "group/other bits, root path; every zip time is gmtime(t), or the default iff t<315532800 / unset / non-integer; every tar and gzip mtime "
        "is t or 0. Every run rebuilds generated projects under touch / chmod-in-class / re-creation elsewhere in another order / cwd+TZ+LC_ALL+"
        "umask / left-over dist+build / all, across the six SOURCE_DATE_EPOCH values, plus PYTHONHASHSEED in fresh interpreters.",
        TB + "Partial: byte encoders trusted as deterministic functions of the description; glob selection abstract (C09); rebuild_idempotent proved for glob rules under the decidable 'every rule avoids dist/build/egg-info' (bytecode caches unconditionally), the abstract statement is refuted, and `include` reaching `dist/` is observed on the real code and declared outside the quantifier (the configuration makes dist/ part of the content); editable wheels contain the absolute path by design.",
        "DESIGN.md §4 C08",
    ),
    "C14": (
        "Lean 4 theorems about a white-box model of get_metadata_content / Metadata.from_package / all_classifiers / both table styles and about a reference RFC 822 parser + differential correspondence (model vs real METADATA/PKG-INFO; Spec.Rfc822 vs email.parser) + property oracle on generated pyprojects in both styles",
        "Machine-checked proof that rendered metadata parses under the reference RFC 822 parser into exactly the declared headers and the "
        "description verbatim EXACTLY when every single-line value is fold-safe (`render_injection_iff`: every line end is followed by a blank or "
        "tab and the value does not end in one; `no line break at all` — the guard Factory.validate enforces — is sufficient, not necessary); that a "
        "project accepted by the modelled validator (regenerated from factory.py every run) satisfies the guard and hence renders and parses "
        "faithfully (`validation_implies_guard`, `validated_render_parse`, with the headers the validator does not look at listed as `Trusted`); that the "
        "indentation rule keeps every licence text inside its header; that a line break followed by `Name: value` otherwise injects exactly that "
        "header (constructive counterexample); that dynamic classifiers are duplicate-free, sorted with the Python block in place, and consist "
        "exactly of declared, range-derived and licence classifiers; and that the PEP 621 and legacy spellings configure equal Metadata. Header "
        "order, METADATA_BASE, tables and AUTHOR_REGEX are regenerated from source every run; the model is compared with real wheel METADATA "
        "and sdist PKG-INFO in both styles; Spec.Rfc822 is compared with email.parser on hostile messages.",
        TB + "Partial: tomli, fastjsonschema, SPDX lookup, NFC normalisation, to_pep_508, canonicalize_name, format_python_constraint are inputs of the model; every printer is proved line-free at the model level (`to_pep_508_single_line`, `constraint_text_single_line`, `marker_text_single_line`, `format_python_single_line`, `uri_format_single_line`, SPDX fallback names by `decide` on the regenerated table), so `validated_render_parse_objects` trusts only `Objects`: the strings INSIDE the dependency objects are line-free (checked on the real objects on every built case), the schema engine accepted the uri fields, license_by_id returns the table entry; project_eq_legacy covers the commonly expressible fields, single printed ranges, every wildcard-spelt range and the evaluated union `~2.7 || ^3.6` (no general union theorem); `render_history_free` / `build_history_free` name the subject of the call-history stream; values compared modulo leading blanks (RFC 822 unfolding). Line-break validation was added to /repo (64d596d, extended by 11abac0 after the proof obligation exposed three unvalidated sources); two author-table findings are known. A call-history stream (same project, one free-text field re-cased, built back to back) looks for state kept between builds.",
        "DESIGN.md §4 C14",
    ),
    "C18": (
        "Lean 4 proof over executable models of __eq__/__hash__ (hash modelled by its input tree, xor commutative) + correspondence of the == matrix, hash-input classes, dumps and reachability flags on pools of spellings incl. derived objects with a hashing history + real-code oracle on all pairs and triples",
        "Machine-checked for all values: equality is an equivalence and equal values have equal hash inputs for versions, string constraints and markers; for version constraints with no guard on reachable values (parser, intersect and union are proved never to build a degenerate range); for specifications and dependencies (transitivity under exact references, hash coherence unconditional, derivation cannot change the hash input); interchangeability (same allows/validate) for versions, ranges, constraints of the regular setting incl. unions, string constraints and coherent markers; re-parse closure with C15's string-level round trip. Every run compares the model's == / hash-input classes with real == / hash() on pools with many spellings of one value, fresh and derived after hashing, and evaluates reflexivity, symmetry, transitivity, hash coherence, set membership, interchangeability and re-parse equality on the real objects.",
        TB + "Partial: marker coherence (the constraint of a SingleMarker is the one its key denotes) is proved to be an invariant of parse_marker and of every operation of the marker algebra (intersect, union, cnf, dnf, of, simplify, invert, only, exclude, reduce) for every fuel and recursion stack, relative to two leaf-level constructor facts (parsed items; the SingleMarker(name, constraint) calls of _merge_single_markers) that are checked per object at run time; on the domain FullQLP (string variables with ==, !=, reversed in/not in; extra; python_version and python_full_version with the seven operators and python_version lists) both facts are discharged: `marker_coherent_parse_domain`, `_algebra_domain`, `_projections_domain` hold hypothesis-free. Deriving with_features/without_features yields a hash input that is a function of the derived fields only (`derived_hash_input`: the seeded change C18-3). Equal version constraints (well-formed, as every parser and algebra result is) admit exactly the same versions through `allows` — proved for every constraint shape and every candidate, including unions whose `allows` runs VersionRange().difference(union) (`constraint_beq_interchangeable`, by a structural relation pushed through ~25 functions); the candidate may be replaced by an equal version as well; for parse_constraint results no hypothesis at all (`parsed_constraint_interchangeable`). Two VCS-reference classes are known findings (by-design prefix matching); three defects fixed.",
        "DESIGN.md §4 C18",
    ),
    "C02": (
        "Lean 4 proof by composition (C07, C11, C13 facts as named hypotheses) over a model of Factory.create_dependency / Metadata.from_package / to_pep_508 / format_python_constraint + differential correspondence of the real Factory->Metadata pipeline + reference oracle on candidates x environments",
        "Machine-checked: the marker of the object built from a legacy table entry holds in E exactly when the declared markers, python range "
        "and platform conditions hold (by composition of C11's create_nested_marker exactness and C07's intersect soundness, relative to their "
        "leaf-level hypotheses); Requires-Dist line shape; no non-optional dependency with a satisfiable marker is dropped; an empty marker "
        "never yields an unconditional line (regression of fix 3213fc9); every line for a conditional dependency carries its condition; "
        "Provides-Extra is exactly the declared keys, canonicalised once each; Requires-Python structure; for PEP 621 tables the Requires-Dist list is every entry's own line in table order with multiplicity, an "
        "entry is left out only when its own marker is empty, whatever the other entries are (`entry_kept`, `requiresDist_length`). Every run "
        "generates projects in the legacy table form AND as [project] tables in which one distribution is declared several times (different "
        "markers, several extras, equal specifiers), runs the real Factory -> Metadata.from_package pipeline, compares selection, Requires-Dist text, marker tree, "
        "truth vectors, Requires-Python and Provides-Extra with the model, and lets the reference (packaging) evaluate every Requires-Dist "
        "line on candidate versions x environments x extras sets and Requires-Python on the interpreter series.",
        TB + "Partial: C13's print/parse fact is discharged on the full comparison-operator domain (`requiresDist_faithful_domain`) and C07's LeafSpec on the FullLeafLLs domain (`requiresDist_faithful_domain_only`: domain conditions only); seeded classes C02-4 / C14-4 are named by `extrapy_keeps_membership_clause` / `multiple_constraints_both_kept`; PEP 621 selection is unconditional since repo fix ad4e259 (`pep621_entry_selected_iff`; the obligation exposed that `foo ; extra != \"x\"` vanished from Requires-Dist); version-specifier equivalence is C15's; set-level faithfulness of Requires-Python is a stated def checked by the oracle. Known findings: single-version-precision-lt-3 (shared with C11), optional-dependency-with-own-extra-clause-loses-membership.",
        "DESIGN.md §4 C02",
    ),
    "C03": (
        "Lean 4 theorems about the version-key model + differential correspondence (model vs poetry-core vs packaging)",
        "Machine-checked proof (Lean 4 kernel) that the model's comparison key orders versions exactly like the PEP 440 "
        "reference key for every pair of well-formed versions (any number of release components, any labels), that the order is "
        "a strict total order with 1.0 == 1.0.0, dev < pre < final < post, and that equal versions have equal keys (hash "
        "coherence); the model is tied to the code on every run by regenerating the phase tables from source and by a "
        "differential run of parse/normalise/compare against the real code and against packaging.",
        TB + "Python re/int/str primitives are modelled (hand recogniser of VERSION_PATTERN), ASCII only in theorems.",
        "DESIGN.md §4 C03",
    ),
    "C04": (
        "Lean 4 theorems: parsed constraint membership = formalised packaging specifier semantics, per operator and for sets + differential correspondence (model vs code, spec vs packaging)",
        "Machine-checked proof that membership in the model of the parsed constraint equals the formalised reference semantics (Spec/Specifier.lean, the range-based packaging 26 algorithm): per operator on candidates regular for the literal; every operator but != with final literals on EVERY candidate (incl. ~=, ==V.*), !=V.* on every candidate through the real union `allows`; the exclusive-comparison rules; sets of any length of single-range clauses with no regularity between literals (`>=1.2, ==1.2.*`), and sets with any operators in the regular setting; the documented ranges of ^, ~, bare versions and ||. Every run compares model vs real parse_constraint().allows() and spec vs packaging on ~230k pairs.",
        TB + "Comma sets without != : membership = reference with no hypothesis beyond the property's guard (all literals final: every candidate incl. the literals' pre/post/dev/local siblings; otherwise candidate regular for each literal); the complement is exactly the class sibling-of-another-literal (witness proved and replayed). EVERY comma set (== mixed with !=, !=V.* and all range operators): member-by-member membership = reference on candidates regular for each literal, nothing asked between literals (`guarded_set_membership_eq_ref`, by a per-probe version of the union intersect walk); residual side conditions: != literals without local label and, only for sets with a != / !=V.* clause, the static NoPoint (no >=V,<=V point) — a restriction of the proof, not of the model: a decided NoPoint-violating set agrees with the reference and 17 615 probing pairs on the real code show no deviation; the conclusion is on the member-by-member answer, and on the real `allows` when the result is not a union. Reference = packaging 26.3 in a subprocess. Three in-guard divergence classes are known findings (by design of the range algebra).",
        "DESIGN.md §4 C04",
    ),
    "C05": (
        "Lean 4 theorems: exactness of range/version intersect, union, difference and of the union merge walks w.r.t. interval semantics on regular probes + structural differential correspondence",
        "Machine-checked proof, over a linear-order instance of the version key, that `allows` of the real algorithm is plain "
        "interval membership on regular probes and that member-level intersect, union (single-result case), difference, "
        "`VersionUnion.of` (membership preservation) and the intersect merge walk are defined and exact; empty/universal laws; "
        "commutativity; `VersionUnion.of` total, sorted and separated on range members. In the regular setting (bounds mutually regular, none a "
        "local build) intersect, union and difference of ARBITRARY constraints, unions included, are proved defined, closed and exact with "
        "the real `allows` (`C05_regular_partial`), incl. the difference merge walks and `_inverted`. Outside that setting the union-level "
        "results stay `_partial` (full statements kept as `def …_full_statement`). The model mirrors the code branch by branch and "
        "is compared structurally (text, dump, flags, membership on regular AND irregular probes) on every run.",
        TB + "list.sort modelled as stable insertion sort; one known finding (Version ∩ range with local lower bound) proved as a counterexample theorem. Beyond the regular setting: intersect of non-union operands is exact on ALL versions for half-open ranges (the shape of ^, ~, ~=, ==V.*, >=V,<W) and for members over final versions, and at every probe regular for exclusive-lower / inclusive-upper ends (counterexample for the complement); union-level operations are exact in the regular setting; beyond it VersionUnion.of and union ∩ are exact at every probe fine for the end shapes and on all versions for half-open members with unstable lower ends (every ==V.* disjunction); union ∪ too (`union_at_probe`); the intersect walk equals the pairwise non-empty member intersections in order for members of ANY lengths (`intersect_members_eq_pairwise`: the equation the seeded count-threshold change C05-4 breaks); range − range is exact at every probe on half-open, unstable-ended, non-local ranges (`halfopen_dev_difference_exact`, class closed under difference; `counterexample_difference_stable_end` marks the boundary: the adjacent-union-gap family on the difference path); ∩ and VersionUnion.of with Version members inside unions are exact at the probe whenever they return, without the regular setting (`intersect_at_probe_points`, `union_of_at_probe_points`); open: sortedness / totality of VersionUnion.of on mixed members, range − union and union − anything at a probe; for stable adjacent ends the expectation is false: `^2 || ^3` merges to `>=2,<4` and admits 3.dev0 (counterexample_union_of_adjacent_gap = the listed class adjacent-union-gap).",
        "DESIGN.md §4 C05",
    ),
    "C09": (
        "Lean 4 theorems about a white-box selection model (glob/fnmatch, find_files_to_add, is_excluded, sdist additions) + differential correspondence with real sdist/wheel builds",
        "Machine-checked proof, for all file trees and include/exclude tables, that no selected file is excluded or VCS-ignored unless "
        "an include for that format names it, that bytecode caches are never selected (same caveat), that explicit includes are present, "
        "that the sdist has the NAME-VERSION/ layout with pyproject.toml, PKG-INFO, readmes and legal files, that PKG-INFO and METADATA "
        "come from one renderer, and that the wheel selected from the unpacked sdist equals the wheel selected from the tree under named "
        "hypotheses (the unrestricted statement is proved FALSE on two witnesses, both reproduced on the real builders). Each run builds "
        "real sdists/wheels (incl. wheel-from-unpacked-sdist, git work trees) and compares member lists with the model.",
        TB + "tar/zip/gzip encoders, pathlib.glob (tied by 20k fnmatch + 5k glob cases in thorough), git are trusted (a reference model of `git ls-files --others -i --exclude-standard` incl. directory patterns is tied to git itself on every run); the positive wheel-from-sdist statement is reduced to premise + rebuild-succeeds + the decidable arcSafe / pkgInfoUnreached (no VCS); symlinks and '..' patterns outside the model. Four known findings (by-design asymmetries), two defects fixed.",
        "DESIGN.md §4 C09",
    ),
    "C12": (
        "Lean 4 theorems: soundness of allows_all / allows_any / is_empty / is_any on the constraint model + structural differential correspondence",
        "Machine-checked proof that a 'yes' of allows_all and a 'no' of allows_any are never wrong on regular probes (member level and "
        "union level incl. the two merge walks), that allows_any agrees with non-emptiness of the intersection for inhabited members, "
        "that empty/universal constraints admit nothing/everything; the self laws are unconditional for every well-formed constraint; in the "
        "regular setting all answers (unions included) never raise, are sound against the real `allows`, and allows_any = non-empty "
        "intersection. The uninhabited-range case is a proved counterexample. Same correspondence stream as C05 with the predicates as columns.",
        TB + "As C05. Beyond the regular setting: allows_all / allows_any between ranges are right on ALL versions for half-open ranges and at every probe regular for exclusive-lower / inclusive-upper ends; counterexample (>1.0).allows_all(>=1.0.post1) proved and replayed (irregular probe, outside the property's quantifier); union allows_all / allows_any right at fine probes and on all versions for unions of half-open ranges; `dev0_overlaps_split_union` + `version_allows_higher_tiebreak` state what the seeded change C12-3 breaks.",
        "DESIGN.md §4 C12",
    ),
    "C15": (
        "Lean 4 theorems: bumps are strictly greater finals, ^/~/~= ranges admit V and reject the upper bound and its pre-releases, token-level text round trip + differential correspondence",
        "Machine-checked proof for every well-formed version V (any precision, epoch, pre/post/dev) that next major/minor/patch/breaking "
        "are final and strictly greater, that ^V, ~V, ~=V parse to the documented ranges, admit V, reject their upper bound and every "
        "pre-release of it, that ~=V has the PEP 440 compatible-release upper bound, and that the text of a single version/range "
        "re-parses at STRING level: `Version.parse v.text = ok v` for every normal-form text and every clean parsed spelling (digit round trip), "
        "identical re-parse for single versions, all plain ranges and `*`, for `==X.*`/`!=X.*` as the parser builds them, and "
        "membership-equivalent re-parse for `!=V` and `a || b || …` joins (regular setting). Partial: algebra-produced ranges that the printer "
        "happens to spell with a wildcard and wildcard members inside a `||` join are covered by the correspondence (every algebra result "
        "re-printed, re-parsed, probed); a raw spelling ending in a separator is a proved counterexample and a known finding.",
        TB + "As C05; wildcard printing mirrored incl. the epoch fix; every range or two-member union the printer spells with a wildcard re-parses membership-equivalently on every version, post-release wildcards and `!=X.postK.*` unions included; `wildcard_spelling_iff` characterises exactly when the printer uses the wildcard spelling (the mirrored gap `<=A || >B.dev0` of seeded change C15-4 is not one).",
        "DESIGN.md §4 C15",
    ),
    "C16": (
        "Lean 4 theorems: exactness of intersect/union/invert and soundness of allows_all/allows_any/is_any/is_empty for string constraints over arbitrary strings + structural differential correspondence (exhaustive small universe in thorough)",
        "Machine-checked proof, for all constraints produced by parser and algebra (explicit decidable well-formedness, proved preserved) "
        "over ARBITRARY string values, that intersection and union are defined and exact, inversion is exact where provided, the "
        "containment/overlap answers are never wrong, universal/empty reports are sound; the same for the multi-valued `extra` variant "
        "over sets of active extras. The model mirrors constraints/generic/*.py branch by branch (incl. in/not in atoms) and is compared "
        "with the real code on text, structure, predicates, membership vectors and error classes.",
        TB + "C16 claims the ==/!= fragment; in/not in atoms are modelled and compared but only partly covered by theorems. Defects in the in/not-in algebra were fixed in /repo (3372536, ea09f91).",
        "DESIGN.md §4 C16",
    ),
    "C20": (
        "Lean 4 theorems over small-step models of the memo caches, per-thread recursion stacks and lazy parser slot (all schedules) + trace correspondence of the real bookkeeping through the Lean driver + fresh-process schedule/permutation oracle",
        "Machine-checked proof that, for every schedule of atomic steps by any number of threads and every workload, the bookkeeping is "
        "transparent: the functools.cache model returns f k for every call and stores only (k, f k); each thread's detect_recursion list "
        "and every RecursionError outcome equal its solo run and quiescent threads have empty lists; every parse uses build(grammar); and "
        "the result of a call after any history equals its result in a fresh process. The models are tied to the code on every run by "
        "replaying the recorded events of the real call_args / cache / _lark objects through the model, and the property itself is "
        "sampled by fresh-process permuted and 2-16-thread runs.",
        TB + "Partial: ==/hash congruence is discharged for the concrete cnf/dnf/_merge_single_markers/parse_marker caches on coherent markers (C18), and stack purity is proved for every taint-free run of the marker model (it is false in general: stackPure_false_in_general; calls answered by a caller's frame are outside the theorem and are counted in the real traces, 0 on the unchanged tree); a first_devrelease cache and a wildcard-text cache keyed by version equality are proved not to be congruences, one recursion stack shared by all threads is proved to interfere (`shared_stack_interferes`: a concrete 2-thread schedule), a register-on-lookup licence table keyed by the lower-cased text is proved history-dependent (`license_setdefault_not_congruent`) — the classes of the seeded changes C20-1…5, C14-3; parse_marker's top-level union call is covered (`parse_marker_stack_irrelevant`, `memo_transparent_parse_marker_untainted`). The marker model equals the code by C07's sampling; GIL atomicity, functools.cache internals and lark thread safety are trusted; thread schedules are sampled.",
        "DESIGN.md §4 C20",
    ),
}

NOT_YET = {
}


def main() -> None:
    props = [json.loads(l) for l in (VERIF / "properties.jsonl").read_text().splitlines() if l.strip()]
    checks = []
    na = []
    for p in props:
        pid = p["id"]
        if pid in CLAIMED:
            tech, text, note, ref = CLAIMED[pid]
            checks.append({
                "property_id": pid,
                "quick_cmd": f"./check {pid} --tier quick",
                "thorough_cmd": f"./check {pid} --tier thorough",
                "evidence_file": f"evidence/{pid}.json",
                "replay_cmd_template": f"./check {pid} --replay {{path}}",
                "engine": "lean4-proof+correspondence",
                "level_claimed": {"category": "proof", "text": text, "design_ref": ref},
                "level_note": note,
                "technique": tech,
            })
        else:
            na.append({"property_id": pid, "reason": NOT_YET.get(pid, "not claimed yet: the Lean model and correspondence for this property are not built in this revision (see DESIGN.md §9 status); no other technique is substituted")})
    manifest = {
        "version": 1,
        "setup_cmd": "cd lean && /venv/bin/python ../tools/extract.py && lake build driver " + " ".join(f"PoetryVerif.Props.{p}" for p in sorted(CLAIMED)),
        "hooks": {
            "guard": "POETRY_CORE_VERIF",
            "enable": "no source hooks: the harness wraps builder methods in-process; checks set POETRY_CORE_VERIF=1 for uniformity",
            "baseline_off_cmd": "cd /repo && /venv/bin/python -m pytest -ra -q -p no:cacheprovider --timeout=900 --continue-on-collection-errors",
            "source_commits": [],
            "add_only": True,
        },
        "engines": [{
            "name": "lean4-proof+correspondence",
            "path": "check",
            "serves_properties": sorted(CLAIMED),
            "kind_free_text": "Lean 4 theorems over a hand-written executable model (lean/PoetryVerif), tables regenerated from source by tools/extract.py, model tied to the code by a differential line-protocol correspondence (vp/*.py ↔ lean driver), reference specs tied to packaging",
        }],
        "checks": checks,
        "not_applicable": na,
        "notes": "Every check: ./check <ID> [--tier quick|thorough]; VERIF_SEED seeds the single PRNG. Exit 2 = harness time-out (never a verdict).",
    }
    (VERIF / "MANIFEST.json").write_text(json.dumps(manifest, indent=1) + "\n")
    try:
        import jsonschema  # type: ignore
        jsonschema.validate(manifest, json.loads(Path("/root/.vp/MANIFEST.schema.json").read_text()))
        print("MANIFEST.json valid;", len(checks), "checks,", len(na), "not claimed")
    except ImportError:
        print("MANIFEST.json written (jsonschema not available for validation)")


if __name__ == "__main__":
    main()
