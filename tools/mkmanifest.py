#!/venv/bin/python
"""Regenerate MANIFEST.json from the table below (kept here so the file is always schema-valid)."""
from __future__ import annotations

import json
from pathlib import Path

VERIF = Path(__file__).resolve().parent.parent

# id -> (technique, level text, level note, design ref)
CLAIMED: dict[str, tuple[str, str, str, str]] = {
    "C03": (
        "Lean 4 theorems about the version-key model + differential correspondence (model vs poetry-core vs packaging)",
        "Machine-checked proof (Lean 4 kernel) that the model's comparison key orders versions exactly like the PEP 440 "
        "reference key for every pair of well-formed versions (any number of release components, any labels), that the order is "
        "a strict total order with 1.0 == 1.0.0, dev < pre < final < post, and that equal versions have equal keys (hash "
        "coherence); the model is tied to the code on every run by regenerating the phase tables from source and by a "
        "differential run of parse/normalise/compare against the real code and against packaging.",
        "Trusted: Lean kernel, axioms propext/Classical.choice/Quot.sound, tools/extract.py, the sampling correspondence; "
        "Python re/int/str primitives are modelled (hand recogniser of VERSION_PATTERN), ASCII only in theorems.",
        "DESIGN.md §4 C03",
    ),
}

NOT_YET = {
}


def main() -> None:
    props = [json.loads(l) for l in (VERIF / "properties.jsonl").read_text().splitlines() if l.strip()]
    checks = []
    na = []
    for p in props:
        pid = p["id"]
        if pid in CLAIMED:
            tech, text, note, ref = CLAIMED[pid]
            checks.append({
                "property_id": pid,
                "quick_cmd": f"./check {pid} --tier quick",
                "thorough_cmd": f"./check {pid} --tier thorough",
                "evidence_file": f"evidence/{pid}.json",
                "replay_cmd_template": f"./check {pid} --replay {{path}}",
                "engine": "lean4-proof+correspondence",
                "level_claimed": {"category": "proof", "text": text, "design_ref": ref},
                "level_note": note,
                "technique": tech,
            })
        else:
            na.append({"property_id": pid, "reason": NOT_YET.get(pid, "not claimed yet: the Lean model and correspondence for this property are not built in this revision (see DESIGN.md §9 status); no other technique is substituted")})
    manifest = {
        "version": 1,
        "setup_cmd": "cd lean && /venv/bin/python ../tools/extract.py && lake build PoetryVerif driver",
        "hooks": {
            "guard": "POETRY_CORE_VERIF",
            "enable": "no source hooks: the harness wraps builder methods in-process; checks set POETRY_CORE_VERIF=1 for uniformity",
            "baseline_off_cmd": "cd /repo && /venv/bin/python -m pytest -ra -q -p no:cacheprovider --timeout=900 --continue-on-collection-errors",
            "source_commits": [],
            "add_only": True,
        },
        "engines": [{
            "name": "lean4-proof+correspondence",
            "path": "check",
            "serves_properties": sorted(CLAIMED),
            "kind_free_text": "Lean 4 theorems over a hand-written executable model (lean/PoetryVerif), tables regenerated from source by tools/extract.py, model tied to the code by a differential line-protocol correspondence (vp/*.py ↔ lean driver), reference specs tied to packaging",
        }],
        "checks": checks,
        "not_applicable": na,
        "notes": "Every check: ./check <ID> [--tier quick|thorough]; VERIF_SEED seeds the single PRNG. Exit 2 = harness time-out (never a verdict).",
    }
    (VERIF / "MANIFEST.json").write_text(json.dumps(manifest, indent=1) + "\n")
    try:
        import jsonschema  # type: ignore
        jsonschema.validate(manifest, json.loads(Path("/root/.vp/MANIFEST.schema.json").read_text()))
        print("MANIFEST.json valid;", len(checks), "checks,", len(na), "not claimed")
    except ImportError:
        print("MANIFEST.json written (jsonschema not available for validation)")


if __name__ == "__main__":
    main()
