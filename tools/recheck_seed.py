#!/venv/bin/python
"""usage: tools/recheck_seed.py <id e.g. C01-2> [checks] — run the check(s) again against a kept seeded change (seeded/<id>/patch.diff on a
scratch worktree of /repo's current HEAD, tools/run_seeded.sh) and refresh the `checks`, suite and demo fields of its meta.json."""
import json
import subprocess
import sys
from pathlib import Path

sid = sys.argv[1]
dst = Path(f"/verif/seeded/{sid}")
meta = json.loads((dst / "meta.json").read_text())
checks = sys.argv[2] if len(sys.argv) > 2 else ",".join(meta.get("checks", {}).keys()) or sid.split("-")[0]
out = subprocess.run(["/verif/tools/run_seeded.sh", str(dst), checks, "quick"], capture_output=True, text=True, timeout=7200).stdout
lines = out.splitlines()
res, cur = {}, None
for l in lines:
    if l.startswith("check "):
        cur = l.split()[1]
        res[cur] = {"rc": int(l.split("rc=")[1]), "lines": []}
    elif cur and ("VIOLATION" in l or l.startswith("  ") or l.startswith("OK")):
        res[cur]["lines"].append(l.strip()[:300])
meta["suite_observed"] = next((l for l in lines if l.startswith("suite:")), meta.get("suite_observed", ""))
meta["demo_clean"] = next((l for l in lines if l.startswith("demo clean")), meta.get("demo_clean", ""))
meta["demo_mutated"] = next((l for l in lines if l.startswith("demo mutated")), meta.get("demo_mutated", ""))
meta["checks"] = {k: {"exit": v["rc"], "caught": v["rc"] == 1, "output": v["lines"][:6]} for k, v in res.items()}
meta["rechecked_on_repo_head"] = subprocess.run(["git", "-C", "/repo", "log", "--format=%h", "-1"], capture_output=True, text=True).stdout.strip()
(dst / "meta.json").write_text(json.dumps(meta, indent=1) + "\n")
print(sid, {k: v["rc"] for k, v in res.items()}, meta["suite_observed"][:40], meta["demo_clean"][:20], meta["demo_mutated"][:22])
