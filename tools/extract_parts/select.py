"""Selection constants for the C09 model (Model/Select.lean), read from /repo's current source:
legal-file patterns of Builder._get_legal_files, the bytecode literals of Builder.is_excluded,
the fixed member names of SdistBuilder, the `src` directory of Module, factory default formats."""
from __future__ import annotations

import ast

from extract import ExtractError, class_def, func_def, lean_str, parse


def _strs(node: ast.AST) -> list[str]:
    return [n.value for n in ast.walk(node) if isinstance(n, ast.Constant) and isinstance(n.value, str)]


def gen(lines: list[str]) -> None:
    b = parse("masonry/builders/builder.py")
    cls = class_def(b, "Builder")
    # --- _get_legal_files: one set literal of root patterns + joinpath(<dir>).glob(<pattern>)
    fn = func_def(cls.body, "_get_legal_files")
    sets = [n for n in ast.walk(fn) if isinstance(n, ast.Set)]
    if len(sets) != 1 or not all(isinstance(e, ast.Constant) and isinstance(e.value, str) for e in sets[0].elts):
        raise ExtractError("_get_legal_files: pattern set literal not found")
    pats = sorted(e.value for e in sets[0].elts)  # type: ignore[attr-defined]
    joins = [n for n in ast.walk(fn) if isinstance(n, ast.Call) and isinstance(n.func, ast.Attribute) and n.func.attr == "glob"
             and isinstance(n.func.value, ast.Call) and isinstance(n.func.value.func, ast.Attribute)
             and n.func.value.func.attr == "joinpath"]
    if len(joins) != 1:
        raise ExtractError("_get_legal_files: joinpath(...).glob(...) not found")
    d = joins[0].func.value.args[0]  # type: ignore[attr-defined]
    g = joins[0].args[0]
    if not (isinstance(d, ast.Constant) and isinstance(g, ast.Constant)):
        raise ExtractError("_get_legal_files: non-literal directory/pattern")
    lines.append("/-- Builder._get_legal_files: root-level glob patterns (sorted) -/")
    lines.append("def legalRootPatterns : List String := [" + ", ".join(lean_str(p) for p in pats) + "]")
    lines.append(f"def legalDir : String := {lean_str(d.value)}")
    lines.append(f"def legalDirPattern : String := {lean_str(g.value)}")
    # --- is_excluded: `"__pycache__" in exclude_path.parts or exclude_path.suffix == ".pyc"`
    fn = func_def(cls.body, "is_excluded")
    first = fn.body[1] if len(fn.body) > 1 else None
    if not (isinstance(first, ast.If) and isinstance(first.test, ast.BoolOp) and isinstance(first.test.op, ast.Or)
            and len(first.test.values) == 2 and isinstance(first.body[0], ast.Return)
            and isinstance(first.body[0].value, ast.Constant) and first.body[0].value.value is True):
        raise ExtractError("is_excluded: bytecode test has unexpected shape")
    a, c = first.test.values
    if not (isinstance(a, ast.Compare) and isinstance(a.ops[0], ast.In) and isinstance(a.left, ast.Constant)
            and isinstance(a.comparators[0], ast.Attribute) and a.comparators[0].attr == "parts"):
        raise ExtractError("is_excluded: `<lit> in path.parts` not found")
    if not (isinstance(c, ast.Compare) and isinstance(c.ops[0], ast.Eq) and isinstance(c.left, ast.Attribute)
            and c.left.attr == "suffix" and isinstance(c.comparators[0], ast.Constant)):
        raise ExtractError("is_excluded: `path.suffix == <lit>` not found")
    lines.append(f"def pycacheDirName : String := {lean_str(a.left.value)}")
    lines.append(f"def bytecodeSuffix : String := {lean_str(c.comparators[0].value)}")
    # the shortcut in find_files_to_add uses the same directory literal
    fn = func_def(cls.body, "find_files_to_add")
    if a.left.value not in _strs(fn):
        raise ExtractError("find_files_to_add: __pycache__ shortcut literal differs from is_excluded")
    if "**/*" not in _strs(fn):
        raise ExtractError("find_files_to_add: directory expansion pattern '**/*' not found")
    # --- sdist fixed names
    sd = parse("masonry/builders/sdist.py")
    scls = class_def(sd, "SdistBuilder")
    fn = func_def(scls.body, "find_files_to_add")
    names = [s for s in _strs(fn) if s.endswith(".toml")]
    if names != ["pyproject.toml"]:
        raise ExtractError("SdistBuilder.find_files_to_add: project file literal changed: %r" % names)
    lines.append(f"def sdistProjectFile : String := {lean_str(names[0])}")
    fn = func_def(scls.body, "build")
    if "PKG-INFO" not in _strs(fn):
        raise ExtractError("SdistBuilder.build: PKG-INFO literal not found")
    lines.append('def sdistPkgInfoName : String := "PKG-INFO"')
    # --- Module: src directory and default formats of the default package
    m = parse("masonry/utils/module.py")
    init = func_def(class_def(m, "Module").body, "__init__")
    if "src" not in _strs(init):
        raise ExtractError("Module.__init__: 'src' literal not found")
    lines.append('def moduleSrcDir : String := "src"')
    dflt = None
    for n in ast.walk(init):
        if (isinstance(n, ast.Assign) and isinstance(n.targets[0], ast.Subscript) and isinstance(n.value, ast.List)
                and isinstance(n.targets[0].slice, ast.Constant) and n.targets[0].slice.value == "format"):
            dflt = [e.value for e in n.value.elts]  # type: ignore[attr-defined]
    if dflt is None:
        raise ExtractError("Module.__init__: default_package['format'] assignment not found")
    lines.append("def defaultPackageFormats : List String := [" + ", ".join(lean_str(s) for s in dflt) + "]")
    # --- factory: default formats
    f = parse("factory.py")
    fn = func_def(class_def(f, "Factory").body, "_configure_package_poetry_specifics")
    found: dict[str, list[str]] = {}
    for n in ast.walk(fn):
        if isinstance(n, ast.Assign) and isinstance(n.targets[0], ast.Attribute) and isinstance(n.value, ast.Call):
            for kw in n.value.keywords:
                if kw.arg == "default_formats" and isinstance(kw.value, ast.List):
                    found[n.targets[0].attr] = [e.value for e in kw.value.elts]  # type: ignore[attr-defined]
    if set(found) != {"include", "packages"}:
        raise ExtractError("factory: default_formats for include/packages not found")
    lines.append("def includeDefaultFormats : List String := [" + ", ".join(lean_str(s) for s in found["include"]) + "]")
    lines.append("def packagesDefaultFormats : List String := [" + ", ".join(lean_str(s) for s in found["packages"]) + "]")
