"""Constants and grammar shapes the C10 models (Model/Requirement.lean, Model/Dep.lean) depend on, read from
/repo's current source: archive extensions and URL schemes of packages/utils/utils.py, the direct-origin source
types of specification.py, the character classes of vcs/git.py; the rules and terminals of pep508.lark and the
wheel file-name regex are compared with the text the hand recognisers were written against (extraction fails
loudly when they change shape)."""
from __future__ import annotations

import ast
import re

from extract import SRC, ExtractError, class_def, func_def, lean_str, module_assigns, parse

PEP508_RULES = {
    "start": "_requirement",
    "_requirement": "_full_name (_MARKER_SEPARATOR marker_spec)?",
    "_full_name": "NAME _extras? (version_specification | _url)?",
    "_extras": "_L_BRACKET _extra? _R_BRACKET",
    "_extra": "EXTRA (_COMMA EXTRA)*",
    "version_specification": "(_version_many | _L_PAREN _version_many _R_PAREN)",
    "_version_many": "_single_version (_COMMA _single_version)*",
    "_single_version": "LEGACY_VERSION_CONSTRAINT",
    "_url": "_AT URI",
    "marker_spec": "marker",
    "NAME": "/[a-zA-Z0-9][a-zA-Z0-9-_.]*/",
    "EXTRA": "NAME",
    "LEGACY_VERSION_CONSTRAINT": r"/(~=|==|!=|<=|>=|<|>)\s*[^,;\s)]*/i",
    "URI": "/[^ ]+/",
    "_MARKER_SEPARATOR": '";"',
    "_L_PAREN": '"("',
    "_R_PAREN": '")"',
    "_L_BRACKET": '"["',
    "_R_BRACKET": '"]"',
    "_COMMA": '","',
    "_AT": '"@"',
}

GIT_CLASSES = {
    "URL_RESTRICTED": r"[^/\?#:@<>\[\]\|]",
    "RESOURCE": r"[a-zA-Z0-9_.-]+",
    "PORT": r"\d+",
    "PATH": r"[%\w~.\-\+/\\\$]+",
    "NAME": r"[%\w~.\-]+",
    "REV": r"[^@#]+?",
    "SUBDIR": None,   # emitted: the model reads whether '.' belongs to the class
}


def gen(lines: list[str]) -> None:
    # ---- pep508.lark
    text = (SRC / "version" / "grammars" / "pep508.lark").read_text()
    for r, want in PEP508_RULES.items():
        m = re.search(r"^" + re.escape(r) + r":\s*(.*)$", text, re.M)
        if not m or m.group(1).strip() != want:
            raise ExtractError(f"pep508.lark: rule/terminal {r} is {m.group(1).strip() if m else None!r}, model was written for {want!r}")
    if "%import .markers.marker" not in text or "%ignore WS_INLINE" not in text:
        raise ExtractError("pep508.lark: marker import / WS_INLINE ignore missing")
    # ---- packages/utils/utils.py
    u = parse("packages/utils/utils.py")
    assigns = module_assigns(u)
    env: dict[str, object] = {}

    def tup(node: ast.AST) -> tuple[str, ...]:
        if isinstance(node, ast.Tuple) and all(isinstance(e, ast.Constant) and isinstance(e.value, str) for e in node.elts):
            return tuple(e.value for e in node.elts)  # type: ignore[attr-defined]
        if isinstance(node, ast.Name) and node.id in env:
            return env[node.id]  # type: ignore[return-value]
        if isinstance(node, ast.BinOp) and isinstance(node.op, ast.Add):
            return tup(node.left) + tup(node.right)
        raise ExtractError("packages/utils/utils.py: archive extension tuples have an unexpected shape")

    for k in ("BZ2_EXTENSIONS", "XZ_EXTENSIONS", "ZIP_EXTENSIONS", "TAR_EXTENSIONS", "ARCHIVE_EXTENSIONS"):
        env[k] = tup(assigns[k])
    arch = list(env["ARCHIVE_EXTENSIONS"])  # type: ignore[call-overload]
    lines.append("/-- packages/utils/utils.py ARCHIVE_EXTENSIONS -/")
    lines.append("def archiveExtensions : List String := [" + ", ".join(lean_str(s) for s in arch) + "]")
    fn = func_def(u.body, "is_url")
    lists = [n for n in ast.walk(fn) if isinstance(n, ast.List)]
    if len(lists) != 1 or not all(isinstance(e, ast.Constant) and isinstance(e.value, str) for e in lists[0].elts):
        raise ExtractError("is_url: scheme list literal not found")
    lines.append("def isUrlSchemes : List String := [" + ", ".join(lean_str(e.value) for e in lists[0].elts) + "]")  # type: ignore[attr-defined]
    # ---- specification.py: is_direct_origin
    sp = parse("packages/specification.py")
    fn = func_def(class_def(sp, "PackageSpecification").body, "is_direct_origin")
    lists = [n for n in ast.walk(fn) if isinstance(n, ast.List)]
    if len(lists) != 1:
        raise ExtractError("is_direct_origin: list literal not found")
    lines.append("def directOriginTypes : List String := [" + ", ".join(lean_str(e.value) for e in lists[0].elts) + "]")  # type: ignore[attr-defined]
    # ---- vcs/git.py character classes
    g = module_assigns(parse("vcs/git.py"))
    for k, want in GIT_CLASSES.items():
        node = g.get(k)
        if not (isinstance(node, ast.Constant) and isinstance(node.value, str)):
            raise ExtractError(f"vcs/git.py: {k} is not a string literal")
        if want is not None and node.value != want:
            raise ExtractError(f"vcs/git.py: {k} is {node.value!r}, model was written for {want!r}")
    sub = g["SUBDIR"].value  # type: ignore[attr-defined]
    if sub not in (r"[\w\-/\\]+", r"[\w\-/\\.]+", r"[\w.\-/\\]+"):
        raise ExtractError(f"vcs/git.py: SUBDIR is {sub!r}, model knows the class with and without '.'")
    lines.append("/-- does vcs/git.py SUBDIR admit `.` in a `#subdirectory=` value -/")
    lines.append("def gitSubdirAllowsDot : Bool := " + ("true" if "." in sub else "false"))
    # ---- utils/patterns.py wheel_file_re
    p = parse("utils/patterns.py")
    src = ast.get_source_segment((SRC / "utils" / "patterns.py").read_text(), module_assigns(p)["wheel_file_re"]) or ""
    flat = re.sub(r"\s+", "", src)
    want = r're.compile(r"""^(?P<namever>(?P<name>.+?)(-(?P<ver>\d.+?))?)((-(?P<build>\d.*?))?-(?P<pyver>.+?)-(?P<abi>.+?)-(?P<plat>.+?)\.whl|\.dist-info)$""",re.VERBOSE,)'
    if flat != want:
        raise ExtractError("utils/patterns.py: wheel_file_re changed")
