"""markers.lark → MARKER_NAME / MARKER_OP / BOOL_OP vocabularies (in file order) and the
SingleMarker regex constants the leaf model depends on."""
from __future__ import annotations

import ast
import re

from extract import SRC, ExtractError, class_assigns, class_def, lean_str, parse


def _terminal(text: str, name: str) -> list[str]:
    m = re.search(r"^" + name + r":(.*?)(?=^\S|\Z)", text, re.S | re.M)
    if not m:
        raise ExtractError(f"markers.lark: terminal {name} not found")
    body = m.group(1)
    alts = [a.strip() for a in body.replace("\n", " ").split("|")]
    out = []
    for a in alts:
        mm = re.fullmatch(r'"((?:[^"\\]|\\.)*)"', a)
        if not mm:
            raise ExtractError(f"markers.lark: terminal {name}: alternative {a!r} is not a string literal")
        out.append(mm.group(1))
    return out


def gen(lines: list[str]) -> None:
    text = (SRC / "version" / "grammars" / "markers.lark").read_text()
    for name, lean in (("MARKER_NAME", "larkMarkerNames"), ("MARKER_OP", "larkMarkerOps"), ("BOOL_OP", "larkBoolOps")):
        lines.append(f"def {lean} : List String := [" + ", ".join(lean_str(s) for s in _terminal(text, name)) + "]")
    # the rules the hand recogniser implements: fail loudly if the grammar's rules change shape
    rules = {
        "start": "marker",
        "marker": "_atom (BOOL_OP _atom)*",
        "_atom": "item | (L_PAREN marker R_PAREN)",
        "item": "(MARKER_NAME MARKER_OP _marker_value) | (_marker_value MARKER_OP MARKER_NAME)",
        "_marker_value": "SINGLE_QUOTED_STRING | ESCAPED_STRING",
    }
    for r, want in rules.items():
        m = re.search(r"^" + re.escape(r) + r":\s*(.*)$", text, re.M)
        if not m or m.group(1).strip() != want:
            raise ExtractError(f"markers.lark: rule {r!r} is {m.group(1).strip() if m else None!r}, the recogniser models {want!r}")
    if "SINGLE_QUOTED_STRING: /'([^'])*'/" not in text or "%ignore WS_INLINE" not in text or "%import common.ESCAPED_STRING" not in text:
        raise ExtractError("markers.lark: string terminals / ignore directive changed")
    lines.append("def larkGrammarShapeChecked : Bool := true")
    mod = parse("version/markers.py")
    sm = class_assigns(class_def(mod, "SingleMarker"))
    p1 = sm["_CONSTRAINT_RE_PATTERN_1"]
    if not (isinstance(p1, ast.Call) and isinstance(p1.args[0], ast.Constant)):
        raise ExtractError("SingleMarker._CONSTRAINT_RE_PATTERN_1 unexpected shape")
    lines.append("def singleMarkerPattern1 : String := " + lean_str(p1.args[0].value))
    vs = sm["VALUE_SEPARATOR_RE"]
    if not (isinstance(vs, ast.Call) and isinstance(vs.args[0], ast.Constant)):
        raise ExtractError("SingleMarker.VALUE_SEPARATOR_RE unexpected shape")
    lines.append("def markerValueSeparatorRe : String := " + lean_str(vs.args[0].value))
