"""Tables for the metadata model (C14): Package.AVAILABLE_PYTHONS, the classifier constants of
Package.all_classifiers, License.CLASSIFIER_SUPPORTED / CLASSIFIER_NAMES, readme_content_type's suffix table,
AUTHOR_REGEX (as text; the hand recogniser in Model/Meta.lean is pinned to it by a `decide` check),
the licence indentation constants of get_metadata_content, the url labels of Package.urls."""
from __future__ import annotations

import ast

from extract import ExtractError, class_assigns, class_def, const_eval, func_def, lean_str, module_assigns, parse


def _strs(xs) -> str:
    return "[" + ", ".join(lean_str(x) for x in xs) + "]"


def gen(lines: list[str]) -> None:
    pkg = parse("packages/package.py")
    cls = class_def(pkg, "Package")
    av = const_eval(class_assigns(cls)["AVAILABLE_PYTHONS"], {})
    if not isinstance(av, set) or not all(isinstance(x, str) for x in av):
        raise ExtractError("AVAILABLE_PYTHONS: unexpected shape")
    lines.append("/-- Package.AVAILABLE_PYTHONS (a set; listed in code-point order) -/")
    lines.append("def availablePythons : List String := " + _strs(sorted(av)))
    # all_classifiers: constants
    ac = func_def(cls.body, "all_classifiers")
    consts = [n.value for n in ast.walk(ac) if isinstance(n, ast.Constant) and isinstance(n.value, str)]
    prefix = [c for c in consts if c.startswith("Programming Language")]
    default = [c for c in consts if "||" in c]
    if len(prefix) != 1 or len(default) != 1 or "*" not in consts or ".*" not in consts:
        raise ExtractError("all_classifiers: constants not found")
    lines.append("def pythonClassifierPrefix : String := " + lean_str(prefix[0]))
    lines.append("/-- python constraint used by all_classifiers when python_versions == \"*\" -/")
    lines.append("def classifierDefaultPython : String := " + lean_str(default[0]))
    # ProjectPackage: default python constraint for "*"
    pp = parse("packages/project_package.py")
    ppc = class_def(pp, "ProjectPackage")
    consts = {n.value for n in ast.walk(ppc) if isinstance(n, ast.Constant) and isinstance(n.value, str) and "||" in n.value}
    if len(consts) != 1:
        raise ExtractError("ProjectPackage: default python constraint not unique")
    lines.append("def projectDefaultPython : String := " + lean_str(consts.pop()))
    # spdx/license.py
    lic = class_def(parse("spdx/license.py"), "License")
    la = class_assigns(lic)
    sup = const_eval(la["CLASSIFIER_SUPPORTED"], {})
    names = const_eval(la["CLASSIFIER_NAMES"], {})
    if not isinstance(sup, set) or not isinstance(names, dict):
        raise ExtractError("License tables: unexpected shape")
    lines.append("def licenseClassifierSupported : List String := " + _strs(sorted(sup)))
    lines.append("def licenseClassifierNames : List (String × String) := ["
                 + ", ".join(f"({lean_str(k)}, {lean_str(v)})" for k, v in sorted(names.items())) + "]")
    cf = func_def(lic.body, "classifier")
    cn = func_def(lic.body, "classifier_name")
    cs = [n.value for n in ast.walk(cf) if isinstance(n, ast.Constant) and isinstance(n.value, str)]
    ns = [n.value for n in ast.walk(cn) if isinstance(n, ast.Constant) and isinstance(n.value, str)]
    if cs != ["License", "OSI Approved", " :: "] or ns != ["Other/Proprietary License"]:
        raise ExtractError(f"License.classifier constants changed: {cs} {ns}")
    lines.append("def licenseClassifierParts : List String := " + _strs(cs + ns))
    # the SPDX names that can be printed: License.classifier_name falls back to `self.name` for the ids of
    # CLASSIFIER_SUPPORTED that have no entry in CLASSIFIER_NAMES; their names come from spdx/data/licenses.json
    import json as _json
    from extract import SRC
    try:
        table = _json.loads((SRC / "spdx" / "data" / "licenses.json").read_text(encoding="utf-8"))
    except (OSError, ValueError) as e:
        raise ExtractError(f"spdx/data/licenses.json: {e}") from e
    fallback = []
    for lid in sorted(sup - set(names)):
        if lid not in table:
            fallback.append((lid, lid))   # license_by_id: not in the table -> License(identifier, identifier, False, False)
        elif isinstance(table[lid], list) and table[lid] and isinstance(table[lid][0], str):
            fallback.append((lid, table[lid][0]))
        else:
            raise ExtractError(f"licenses.json: unexpected entry for the supported licence id {lid}")
    lines.append("/-- (id, SPDX name) for the supported licence ids whose classifier name is the SPDX name -/")
    lines.append("def licenseFallbackNames : List (String × String) := ["
                 + ", ".join(f"({lean_str(a)}, {lean_str(b)})" for a, b in fallback) + "]")
    # json/schemas/poetry-schema.json: the [tool.poetry] keys validated with `format: uri`, and the regular expression the
    # vendored fastjsonschema uses for that format (text only; the recogniser in Model/Meta.lean is pinned to it by `decide`)
    try:
        schema = _json.loads((SRC / "json" / "schemas" / "poetry-schema.json").read_text(encoding="utf-8"))
    except (OSError, ValueError) as e:
        raise ExtractError(f"poetry-schema.json: {e}") from e
    uri_keys = sorted(k for k, v in schema.get("properties", {}).items()
                      if isinstance(v, dict) and v.get("type") == "string" and v.get("format") == "uri")
    lines.append("def toolUriKeys : List String := " + _strs(uri_keys))
    d4 = class_def(parse("_vendor/fastjsonschema/draft04.py"), "CodeGeneratorDraft04")
    regs = class_assigns(d4).get("FORMAT_REGEXS")
    uri = None
    if isinstance(regs, ast.Dict):
        for k, v in zip(regs.keys, regs.values):
            if isinstance(k, ast.Constant) and k.value == "uri" and isinstance(v, ast.Constant) and isinstance(v.value, str):
                uri = v.value
    if uri is None:
        raise ExtractError("fastjsonschema draft04 FORMAT_REGEXS['uri'] not found")
    lines.append("def uriFormatRegex : String := " + lean_str(uri))
    # utils/helpers.py readme_content_type
    fn = func_def(parse("utils/helpers.py").body, "readme_content_type")
    table: list[tuple[str, str]] = []
    default_ct = None
    node = next((s for s in fn.body if isinstance(s, ast.If)), None)
    while isinstance(node, ast.If):
        t = node.test
        if not (isinstance(t, ast.Compare) and isinstance(t.left, ast.Name) and t.left.id == "suffix"):
            raise ExtractError("readme_content_type: unexpected test")
        comp = t.comparators[0]
        sufs = [comp.value] if isinstance(t.ops[0], ast.Eq) else [e.value for e in comp.elts]  # type: ignore[attr-defined]
        ret = node.body[0]
        if not (isinstance(ret, ast.Return) and isinstance(ret.value, ast.Constant)):
            raise ExtractError("readme_content_type: unexpected body")
        table += [(s, ret.value.value) for s in sufs]
        if node.orelse and isinstance(node.orelse[0], ast.If):
            node = node.orelse[0]
        else:
            if node.orelse and isinstance(node.orelse[0], ast.Return) and isinstance(node.orelse[0].value, ast.Constant):
                default_ct = node.orelse[0].value.value
            node = None
    if not table or default_ct is None:
        raise ExtractError("readme_content_type: table not found")
    lines.append("def readmeContentTypes : List (String × String) := ["
                 + ", ".join(f"({lean_str(a)}, {lean_str(b)})" for a, b in table) + "]")
    lines.append("def readmeContentTypeDefault : String := " + lean_str(default_ct))
    # utils/patterns.py AUTHOR_REGEX
    pa = module_assigns(parse("utils/patterns.py")).get("AUTHOR_REGEX")
    if not (isinstance(pa, ast.Call) and pa.args and isinstance(pa.args[0], ast.Constant) and len(pa.args) == 1 and not pa.keywords):
        raise ExtractError("AUTHOR_REGEX: unexpected shape")
    lines.append("def authorRegexPattern : String := " + lean_str(pa.args[0].value))
    # builder.py: licence field indentation
    b = class_def(parse("masonry/builders/builder.py"), "Builder")
    gm = func_def(b.body, "get_metadata_content")
    lf = [n.value.value for n in ast.walk(gm) if isinstance(n, ast.Assign) and isinstance(n.value, ast.Constant)
          and isinstance(n.targets[0], ast.Name) and n.targets[0].id == "license_field"]
    calls = [n for n in ast.walk(gm) if isinstance(n, ast.Call) and isinstance(n.func, ast.Attribute) and n.func.attr == "indent"]
    strips = [n for n in ast.walk(gm) if isinstance(n, ast.Call) and isinstance(n.func, ast.Attribute) and n.func.attr == "strip"]
    if len(lf) != 1 or len(calls) != 1 or len(strips) != 1 or len(calls[0].args) != 3:
        raise ExtractError("get_metadata_content: licence indentation code changed shape")
    pre, pred = calls[0].args[1], calls[0].args[2]
    ok_pre = (isinstance(pre, ast.BinOp) and isinstance(pre.op, ast.Mult) and isinstance(pre.left, ast.Constant)
              and isinstance(pre.left.value, str) and isinstance(pre.right, ast.Call)
              and isinstance(pre.right.func, ast.Name) and pre.right.func.id == "len")
    ok_pred = isinstance(pred, ast.Lambda) and isinstance(pred.body, ast.Constant) and pred.body.value is True
    if not ok_pre or not ok_pred or strips[0].args:
        raise ExtractError("get_metadata_content: licence indentation arguments changed")
    lines.append("def licenseFieldLiteral : String := " + lean_str(lf[0]))
    lines.append("def licenseIndentUnit : String := " + lean_str(pre.left.value))  # type: ignore[union-attr]
    # Package.urls labels, in source order
    uf = func_def(cls.body, "urls")
    labels = []
    for s in uf.body:
        if isinstance(s, ast.If) and isinstance(s.test, ast.Attribute) and len(s.body) == 1:
            a = s.body[0]
            if (isinstance(a, ast.Assign) and isinstance(a.targets[0], ast.Subscript)
                    and isinstance(a.targets[0].slice, ast.Constant) and isinstance(a.value, ast.Attribute)
                    and a.value.attr == s.test.attr):
                labels.append((a.targets[0].slice.value, s.test.attr))
    if [x[1] for x in labels] != ["homepage", "repository_url", "documentation_url"]:
        raise ExtractError(f"Package.urls: unexpected shape {labels}")
    lines.append("def urlLabels : List String := " + _strs([x[0] for x in labels]))
    # factory.py: Factory._validate_single_line_fields (which fields validation restricts to one line, and how)
    fac = class_def(parse("factory.py"), "Factory")
    vf = func_def(fac.body, "_validate_single_line_fields")
    def lit_tuple(n: ast.AST) -> list[str] | None:
        if isinstance(n, ast.Tuple) and n.elts and all(isinstance(e, ast.Constant) and isinstance(e.value, str) for e in n.elts):
            return [e.value for e in n.elts]  # type: ignore[attr-defined]
        return None
    first = next((st for st in vf.body if isinstance(st, (ast.Assign, ast.AnnAssign))), None)
    first_comps = [c for c in ast.walk(first) if isinstance(c, ast.comprehension) and lit_tuple(c.iter)] if first is not None else []
    if len(first_comps) != 1:
        raise ExtractError("_validate_single_line_fields: scalar-key comprehension not found")
    scalar = lit_tuple(first_comps[0].iter)
    loops = [n for n in ast.walk(vf) if isinstance(n, ast.For) and lit_tuple(n.iter)]
    enum_loops = [n for n in loops if any(isinstance(c, ast.Call) and isinstance(c.func, ast.Name) and c.func.id == "enumerate" for c in ast.walk(n))]
    if len(enum_loops) != 1:
        raise ExtractError("_validate_single_line_fields: list-key loop not found")
    listkeys = lit_tuple(enum_loops[0].iter)
    other_loops = [n for n in loops if n is not enum_loops[0]]
    other_comps = [c for c in ast.walk(vf) if isinstance(c, ast.comprehension) and lit_tuple(c.iter) and c is not first_comps[0]]
    if len(other_loops) > 1 or len(other_comps) > 1:
        raise ExtractError("_validate_single_line_fields: more literal-key loops than modelled")
    namekeys = lit_tuple(other_loops[0].iter) if other_loops else []
    depkeys = lit_tuple(other_comps[0].iter) if other_comps else []
    # the final filter: isinstance(value, str) and ("\n" in value or "\r" in value)
    ret = vf.body[-1]
    if not (isinstance(ret, ast.Return) and isinstance(ret.value, ast.ListComp) and len(ret.value.generators) == 1
            and len(ret.value.generators[0].ifs) == 1):
        raise ExtractError("_validate_single_line_fields: final list comprehension changed shape")
    cond = ret.value.generators[0].ifs[0]
    ok = (isinstance(cond, ast.BoolOp) and isinstance(cond.op, ast.And) and len(cond.values) == 2
          and isinstance(cond.values[1], ast.BoolOp) and isinstance(cond.values[1].op, ast.Or))
    if not ok:
        raise ExtractError("_validate_single_line_fields: filter condition changed shape")
    chars = []
    for c in cond.values[1].values:
        if not (isinstance(c, ast.Compare) and isinstance(c.ops[0], ast.In) and isinstance(c.left, ast.Constant)
                and isinstance(c.left.value, str) and len(c.left.value) == 1):
            raise ExtractError("_validate_single_line_fields: expected `<char> in value` tests")
        chars.append(c.left.value)
    elt = ret.value.elt
    if not (isinstance(elt, ast.JoinedStr) and isinstance(elt.values[-1], ast.Constant)):
        raise ExtractError("_validate_single_line_fields: message changed shape")
    consts = {n.value for n in ast.walk(vf) if isinstance(n, ast.Constant) and isinstance(n.value, str)}
    for needed in ("urls", "readme", "content-type", "readme.content-type"):
        if needed not in consts:
            raise ExtractError(f"_validate_single_line_fields: {needed!r} no longer handled")
    lines.append("/-- Factory._validate_single_line_fields: scalar keys, list keys, forbidden characters, message suffix -/")
    lines.append("def singleLineScalarKeys : List String := " + _strs(scalar))
    lines.append("def singleLineListKeys : List String := " + _strs(listkeys))
    lines.append("/-- keys of tables whose KEYS are checked (extras), and the per-dependency string keys checked in [tool.poetry.dependencies] -/")
    lines.append("def singleLineNameKeys : List String := " + _strs(namekeys))
    lines.append("def singleLineDependencyKeys : List String := " + _strs(depkeys))
    lines.append("def singleLineBreakChars : List Char := [" + ", ".join("Char.ofNat %d" % ord(c) for c in chars) + "]")
    lines.append("def singleLineMessage : String := " + lean_str(elt.values[-1].value))
    # validate(): the helper is applied to both tables
    vd = func_def(fac.body, "validate")
    locs = [[e.elts[0].value for e in n.iter.elts] for n in ast.walk(vd) if isinstance(n, ast.For) and isinstance(n.iter, ast.Tuple)
            and n.iter.elts and all(isinstance(e, ast.Tuple) and isinstance(e.elts[0], ast.Constant) for e in n.iter.elts)
            and any(isinstance(c, ast.Attribute) and c.attr == "_validate_single_line_fields" for c in ast.walk(n))]
    if len(locs) != 1:
        raise ExtractError("validate(): call of _validate_single_line_fields for both tables not found")
    lines.append("def singleLineLocations : List String := " + _strs(locs[0]))
