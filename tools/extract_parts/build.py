"""Build constants for Model/Build.lean (C01, C08), read from /repo's current source:
the external_attr arithmetic of WheelBuilder._add_file / _write_to_zip, the RECORD hash prefix, the pure-Python tag
strings, the file-name suffixes, the tar defaults of clean_tarinfo and whether the gzip header mtime is pinned."""
from __future__ import annotations

import ast

from extract import ExtractError, class_def, func_def, lean_str, parse


def _ints(node: ast.AST) -> list[int]:
    return [n.value for n in ast.walk(node) if isinstance(n, ast.Constant) and isinstance(n.value, int)
            and not isinstance(n.value, bool)]


def _attr_assign(fn: ast.FunctionDef, attr: str) -> list[ast.Assign]:
    return [n for n in ast.walk(fn) if isinstance(n, ast.Assign) and len(n.targets) == 1
            and isinstance(n.targets[0], ast.Attribute) and n.targets[0].attr == attr]


def _shift_mask(expr: ast.expr, what: str) -> tuple[ast.expr, int, int]:
    """match  (<e> & MASK) << SHIFT  → (e, MASK, SHIFT)"""
    if not (isinstance(expr, ast.BinOp) and isinstance(expr.op, ast.LShift) and isinstance(expr.right, ast.Constant)
            and isinstance(expr.left, ast.BinOp) and isinstance(expr.left.op, ast.BitAnd)
            and isinstance(expr.left.right, ast.Constant)):
        raise ExtractError(f"{what}: external_attr is not `(mode & MASK) << SHIFT`")
    return expr.left.left, expr.left.right.value, expr.right.value


def _fstring_parts(node: ast.JoinedStr) -> list[str]:
    return [v.value if isinstance(v, ast.Constant) else "{}" for v in node.values]


def gen(lines: list[str]) -> None:
    wheel = parse("masonry/builders/wheel.py")
    cls = class_def(wheel, "WheelBuilder")

    # --- _add_file: zinfo.external_attr = (new_mode & 0xFFFF) << 16 ; |= 0x10 for directories ; read chunk size
    fn = func_def(cls.body, "_add_file")
    asg = _attr_assign(fn, "external_attr")
    if len(asg) != 1:
        raise ExtractError("_add_file: external_attr assignment not found")
    e, mask, shift = _shift_mask(asg[0].value, "_add_file")
    if not (isinstance(e, ast.Name) and e.id == "new_mode"):
        raise ExtractError("_add_file: external_attr is not computed from new_mode")
    norm = [n for n in ast.walk(fn) if isinstance(n, ast.Assign) and isinstance(n.targets[0], ast.Name)
            and n.targets[0].id == "new_mode"]
    if not (len(norm) == 1 and isinstance(norm[0].value, ast.Call) and isinstance(norm[0].value.func, ast.Name)
            and norm[0].value.func.id == "normalize_file_permissions" and len(norm[0].value.args) == 1
            and isinstance(norm[0].value.args[0], ast.Name) and norm[0].value.args[0].id == "st_mode"):
        raise ExtractError("_add_file: new_mode is not normalize_file_permissions(st_mode)")
    aug = [n for n in ast.walk(fn) if isinstance(n, ast.AugAssign) and isinstance(n.op, ast.BitOr)
           and isinstance(n.target, ast.Attribute) and n.target.attr == "external_attr" and isinstance(n.value, ast.Constant)]
    if len(aug) != 1:
        raise ExtractError("_add_file: directory flag not found")
    lines.append("/-- `_add_file`: `external_attr = (new_mode & mask) << shift`, `|= dirFlag` for directories -/")
    lines.append(f"def wheelAttrMask : Nat := {mask}")
    lines.append(f"def wheelAttrShift : Nat := {shift}")
    lines.append(f"def wheelDirFlag : Nat := {aug[0].value.value}")
    app = [n for n in ast.walk(fn) if isinstance(n, ast.Call) and isinstance(n.func, ast.Attribute) and n.func.attr == "append"
           and isinstance(n.func.value, ast.Attribute) and n.func.value.attr == "_records"]
    if len(app) != 1:
        raise ExtractError("_add_file: exactly one self._records.append expected")

    # --- _write_to_zip: zi.external_attr = (0o644 & 0xFFFF) << 16
    fn = func_def(cls.body, "_write_to_zip")
    asg = _attr_assign(fn, "external_attr")
    if len(asg) != 1:
        raise ExtractError("_write_to_zip: external_attr assignment not found")
    e, mask2, shift2 = _shift_mask(asg[0].value, "_write_to_zip")
    if not (isinstance(e, ast.Constant) and isinstance(e.value, int)):
        raise ExtractError("_write_to_zip: mode is not a literal")
    lines.append("/-- `_write_to_zip`: `external_attr = (mode & mask) << shift` -/")
    lines.append(f"def wheelWriteMode : Nat := {e.value}")
    lines.append(f"def wheelWriteMask : Nat := {mask2}")
    lines.append(f"def wheelWriteShift : Nat := {shift2}")
    app = [n for n in ast.walk(fn) if isinstance(n, ast.Call) and isinstance(n.func, ast.Attribute) and n.func.attr == "append"
           and isinstance(n.func.value, ast.Attribute) and n.func.value.attr == "_records"]
    if len(app) != 1:
        raise ExtractError("_write_to_zip: exactly one self._records.append expected")

    # --- _write_record: f"sha256={hash}" and the hash-less own row
    fn = func_def(cls.body, "_write_record")
    fs = [_fstring_parts(n) for n in ast.walk(fn) if isinstance(n, ast.JoinedStr)]
    pref = [p for p in fs if len(p) == 2 and p[1] == "{}" and p[0].endswith("=")]
    if len(pref) != 1:
        raise ExtractError("_write_record: hash prefix f-string not found")
    lines.append(f"def recordHashPrefix : String := {lean_str(pref[0][0])}")
    recs = [n.value for n in ast.walk(fn) if isinstance(n, ast.Constant) and isinstance(n.value, str) and "RECORD" in n.value]
    if not recs or len(set(recs)) != 1:
        raise ExtractError("_write_record: RECORD path literal not found")
    lines.append(f"def recordSuffix : String := {lean_str(recs[0])}")

    # --- names
    def ret_fstring(name: str) -> list[str]:
        f = func_def(cls.body, name)
        r = [n for n in ast.walk(f) if isinstance(n, ast.Return) and isinstance(n.value, ast.JoinedStr)]
        if len(r) != 1:
            raise ExtractError(f"{name}: f-string return not found")
        return _fstring_parts(r[0].value)  # type: ignore[arg-type]

    for name, lean, shape in [("dist_info_name", "distInfoSuffix", 4), ("wheel_data_folder", "dataFolderSuffix", 4),
                              ("wheel_filename", "wheelFileSuffix", 6)]:
        parts = ret_fstring(name)
        if len(parts) != shape or any(p != "-" for p in parts[1:-1:2]) or parts[0] != "{}":
            raise ExtractError(f"{name}: unexpected f-string shape {parts}")
        lines.append(f"def {lean} : String := {lean_str(parts[-1])}")
    fn = func_def(cls.body, "tag")
    strs = [n.value for n in ast.walk(fn) if isinstance(n, ast.Constant) and isinstance(n.value, str)]
    need = ["any", "py2.py3", "py3", "none", "-"]
    if any(s not in strs for s in need):
        raise ExtractError(f"tag: expected literals {need}, found {strs}")
    ifexp = [n for n in ast.walk(fn) if isinstance(n, ast.IfExp)]
    if not (len(ifexp) == 1 and isinstance(ifexp[0].body, ast.Constant) and isinstance(ifexp[0].orelse, ast.Constant)):
        raise ExtractError("tag: `impl = A if supports_python2() else B` not found")
    lines.append(f"def tagPy2 : String := {lean_str(ifexp[0].body.value)}")
    lines.append(f"def tagPy3 : String := {lean_str(ifexp[0].orelse.value)}")
    lines.append('def tagAbiPlatform : String := "-none-any"')

    # --- sdist: clean_tarinfo assignments, gzip mtime pinned, file name
    sd = parse("masonry/builders/sdist.py")
    scls = class_def(sd, "SdistBuilder")
    fn = func_def(scls.body, "clean_tarinfo")
    got: dict[str, str] = {}
    for n in ast.walk(fn):
        if isinstance(n, ast.Assign) and isinstance(n.targets[0], ast.Attribute) and isinstance(n.targets[0].value, ast.Name):
            v = n.value
            if isinstance(v, ast.Constant):
                got[n.targets[0].attr] = repr(v.value)
            elif isinstance(v, ast.Attribute) and v.attr == "_archive_mtime":
                got[n.targets[0].attr] = "archive_mtime"
            elif isinstance(v, ast.Call) and isinstance(v.func, ast.Name) and v.func.id == "normalize_file_permissions":
                got[n.targets[0].attr] = "normalized"
    want = {"uid": "0", "gid": "0", "uname": "''", "gname": "''", "mtime": "archive_mtime", "mode": "normalized"}
    if got != want:
        raise ExtractError(f"clean_tarinfo: assignments are {got}, model expects {want}")
    lines.append("def tarCleanFields : List String := [" + ", ".join(lean_str(k) for k in sorted(got)) + "]")
    fn = func_def(scls.body, "build")
    gz = [n for n in ast.walk(fn) if isinstance(n, ast.Call) and isinstance(n.func, ast.Name) and n.func.id == "GzipFile"]
    pinned = len(gz) == 1 and any(k.arg == "mtime" and isinstance(k.value, ast.Attribute) and k.value.attr == "_archive_mtime"
                                  for k in gz[0].keywords)
    lines.append(f"def sdistGzipMtimePinned : Bool := {'true' if pinned else 'false'}")
    srt = [n for n in ast.walk(fn) if isinstance(n, ast.Call) and isinstance(n.func, ast.Name) and n.func.id == "sorted"]
    lines.append(f"def sdistFilesSorted : Bool := {'true' if len(srt) == 1 else 'false'}")
    wfn = func_def(cls.body, "_copy_module")
    srt = [n for n in ast.walk(wfn) if isinstance(n, ast.Call) and isinstance(n.func, ast.Name) and n.func.id == "sorted"]
    lines.append(f"def wheelModuleFilesSorted : Bool := {'true' if len(srt) == 1 else 'false'}")
    wfn = func_def(cls.body, "_copy_dist_info")
    srt = [n for n in ast.walk(wfn) if isinstance(n, ast.Call) and isinstance(n.func, ast.Name) and n.func.id == "sorted"]
    lines.append(f"def wheelDistInfoSorted : Bool := {'true' if len(srt) == 1 else 'false'}")
    # --- find_packages: `{k: sorted(v) ...}` over package_data and `sorted(packages)` in the return
    fn = func_def(scls.body, "find_packages")
    dc = [n for n in ast.walk(fn) if isinstance(n, ast.DictComp)]
    data_sorted = any(isinstance(n.value, ast.Call) and isinstance(n.value.func, ast.Name) and n.value.func.id == "sorted" for n in dc)
    ret = [n for n in ast.walk(fn) if isinstance(n, ast.Return) and isinstance(n.value, ast.Tuple) and len(n.value.elts) == 3]
    pk_sorted = any(isinstance(r.value.elts[1], ast.Call) and isinstance(r.value.elts[1].func, ast.Name)
                    and r.value.elts[1].func.id == "sorted" for r in ret)
    lines.append(f"def sdistPackageDataSorted : Bool := {'true' if data_sorted else 'false'}")
    lines.append(f"def sdistPackagesSorted : Bool := {'true' if pk_sorted else 'false'}")
