#!/venv/bin/python
"""usage: tools/keep_seed.py <PROP> <n> [checks=PROP[,PROP2]] — confirm a seeded change produced by an independent sub-agent in
/tmp/seedwork/<PROP>_<n> (suite passes, demo passes on /repo and fails with the change), run our check(s) against it through
tools/run_seeded.sh, and keep it as /verif/seeded/<PROP>-<n>/ (patch.diff, demo.py, meta.json incl. what was run and the outcome)."""
import json
import shutil
import subprocess
import sys
from pathlib import Path

prop, n = sys.argv[1], sys.argv[2]
checks = sys.argv[3] if len(sys.argv) > 3 else prop
src = Path(f"/tmp/seedwork/{prop}_{n}")
dst = Path(f"/verif/seeded/{prop}-{n}")
dst.mkdir(parents=True, exist_ok=True)
for f in ("patch.diff", "demo.py"):
    shutil.copy(src / f, dst / f)
meta = json.loads((src / "meta.json").read_text()) if (src / "meta.json").exists() else {}
out = subprocess.run(["/verif/tools/run_seeded.sh", str(dst), checks, "quick"], capture_output=True, text=True, timeout=7200).stdout
print(out)
lines = out.splitlines()
suite = next((l for l in lines if l.startswith("suite:")), "")
dc = next((l for l in lines if l.startswith("demo clean")), "")
dm = next((l for l in lines if l.startswith("demo mutated")), "")
res = {}
cur = None
for l in lines:
    if l.startswith("check "):
        cur = l.split()[1]
        res[cur] = {"rc": int(l.split("rc=")[1]), "lines": []}
    elif cur and ("VIOLATION" in l or l.startswith("  ") or l.startswith("OK")):
        res[cur]["lines"].append(l.strip()[:300])
confirmed = "2592 passed" in suite and "rc=0" in dc and "rc=1" in dm
meta.update({
    "property": prop,
    "confirmed_by_lead": confirmed,
    "ran": [f"tools/run_seeded.sh seeded/{prop}-{n} {checks} quick  (scratch worktree of /repo + private copy of lean/; suite with PYTHONPATH=<worktree>/src; demo.py on /repo/src and on the worktree; ./check with VERIF_REPO=<worktree>)"],
    "suite_observed": suite, "demo_clean": dc, "demo_mutated": dm,
    "checks": {k: {"exit": v["rc"], "caught": v["rc"] == 1, "output": v["lines"][:6]} for k, v in res.items()},
})
(dst / "meta.json").write_text(json.dumps(meta, indent=1) + "\n")
print("confirmed:", confirmed, {k: v["rc"] for k, v in res.items()})
