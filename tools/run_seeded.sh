#!/bin/bash
# usage: tools/run_seeded.sh <dir with patch.diff [demo.py]> <PROP> [tier] [--no-suite]
# Confirms a seeded change (suite passes, demo fails with it and passes without) and runs the property's check against it
# in a scratch worktree of /repo and a private copy of the Lean project (so that nothing shared is disturbed).
set -u
D=$(realpath "$1"); P=$2; TIER=${3:-quick}; NOSUITE=${4:-}
WT=/tmp/seedrun_$$; LD=/tmp/seedlean_$$
git -C /repo worktree add -q --detach $WT HEAD || exit 2
trap 'git -C /repo worktree remove --force $WT >/dev/null 2>&1; rm -rf $LD' EXIT
git -C $WT apply "$D/patch.diff" || { echo "PATCH DOES NOT APPLY"; exit 2; }
if [ "$NOSUITE" != "--no-suite" ]; then
  echo "suite: $(cd $WT && PYTHONPATH=$WT/src /venv/bin/python -m pytest -q -p no:cacheprovider tests 2>&1 | tail -1)"
fi
if [ -f "$D/demo.py" ]; then
  (cd /tmp && PYTHONPATH=/repo/src timeout 600 /venv/bin/python "$D/demo.py" >/tmp/demo_clean_$$.out 2>&1; echo "demo clean rc=$? $(tail -1 /tmp/demo_clean_$$.out | cut -c1-160)")
  (cd /tmp && PYTHONPATH=$WT/src timeout 600 /venv/bin/python "$D/demo.py" >/tmp/demo_mut_$$.out 2>&1; echo "demo mutated rc=$? $(tail -1 /tmp/demo_mut_$$.out | cut -c1-200)")
  rm -f /tmp/demo_clean_$$.out /tmp/demo_mut_$$.out
fi
mkdir -p $LD && rsync -a /verif/lean/ $LD/
cd /verif
for prop in $(echo $P | tr ',' ' '); do
  out=$(VERIF_REPO=$WT VERIF_LEAN_DIR=$LD VERIF_REPLAY_DIR=/tmp/seedreplays_$$ timeout 3000 ./check $prop --tier $TIER 2>&1)
  rc=$?
  echo "check $prop rc=$rc"
  echo "$out" | grep -v "^KNOWN-FINDING" | tail -6 | cut -c1-400
done
git -C /verif checkout -q -- evidence 2>/dev/null
rm -rf /tmp/seedreplays_$$
