#!/usr/bin/env python3
"""Regenerate the table of §10 of DESIGN.md from seeded/*/meta.json."""
import glob
import json
import re

rows = []
for f in sorted(glob.glob("/verif/seeded/*/meta.json")):
    m = json.load(open(f))
    sid = f.split("/")[-2]
    own = sid.split("-")[0]
    checks = ", ".join(f"{k}: {'caught' if v.get('caught') else ('MISSED' if k == own else 'not caught (a neighbouring check, run for information)')}"
                       for k, v in m.get("checks", {}).items())
    note = m.get("first_run", "")
    summary = re.sub(r"\s+", " ", str(m.get("summary", "")))[:230].replace("|", "\\|")
    needs = re.sub(r"\s+", " ", str(m.get("needs", "")))[:200].replace("|", "\\|")
    rows.append(f"| {sid} | {summary} | {needs} | {checks}{' — ' + note if note else ''} |")
table = "| id | change | needs, to manifest | result of `./check … --tier quick` |\n|---|---|---|---|\n" + "\n".join(rows) + "\n"
p = "/verif/DESIGN.md"
s = open(p).read()
a, b = "<!-- SEEDED-TABLE-BEGIN -->", "<!-- SEEDED-TABLE-END -->"
if a in s:
    s = s[: s.index(a) + len(a)] + "\n" + table + s[s.index(b):]
    open(p, "w").write(s)
print(table)
