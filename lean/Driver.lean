/-
Line-protocol driver: one request per line (`op<TAB>arg…`, arguments percent-encoded),
one reply line each.  Imports the Mathlib-free model/spec only, so it links as an executable.
Each area contributes a handler `String → List String → Option String` in PoetryVerif/Drv/*.lean;
`handlers` below is the registry.
-/
import PoetryVerif.Protocol
import PoetryVerif.Drv.VC
import PoetryVerif.Drv.Generic
import PoetryVerif.Drv.Marker
import PoetryVerif.Drv.Conc
import PoetryVerif.Drv.Meta
import PoetryVerif.Drv.Spec440
import PoetryVerif.Drv.Build
import PoetryVerif.Drv.Select
import PoetryVerif.Drv.Dep
import PoetryVerif.Drv.EqHash
import PoetryVerif.Drv.Proj621

open Poetry Poetry.Proto

def handlers : List (String → List String → Option String) :=
  [Poetry.Drv.handleVC, Poetry.Drv.handleGeneric, Poetry.Drv.handleMarkerAll, Poetry.Drv.handleConc, Poetry.Drv.handleMeta, Poetry.Drv.handleSpec440, Poetry.Drv.handleSelect, Poetry.Drv.handleBuild, Poetry.Drv.handleEqHash, Poetry.Drv.handleDep, Poetry.Drv.handleProj621]

def dispatch (op : String) (args : List String) : List (String → List String → Option String) → String
  | [] => "bad-op"
  | h :: hs => match h op args with
    | some r => r
    | none => dispatch op args hs

def handle (line : String) : String :=
  let fields := line.splitOn "\t"
  match fields with
  | [] => "bad-op"
  | op :: rawArgs =>
    match rawArgs.mapM decodeArg with
    | none => "bad-arg"
    | some args => dispatch op args handlers

partial def loop (h : IO.FS.Stream) (out : IO.FS.Stream) : IO Unit := do
  let line ← h.getLine
  if line.isEmpty then return ()
  let line := if line.endsWith "\n" then (line.dropEnd 1).toString else line
  out.putStrLn (handle line)
  out.flush
  loop h out

def main : IO Unit := do
  let stdin ← IO.getStdin
  let stdout ← IO.getStdout
  loop stdin stdout
