/-
The constructor fact for list conversions (`MkListOK`): `SingleMarker("python_full_version", str(c))` for a constraint
`c` of the regular setting over two-component Python bounds.  Final-release bounds are never spelt with a wildcard
(`wildcardCandidate_final`), so `str(c)` is the plain `||` join of the members; the C15 builder's text lemmas are
generic in the parser mode, so the round trip holds through `parse_marker_version_constraint`; the constraint
pattern takes the first operator and leaves the rest (blanks, bars and commas included) as the value, which is
not padded.
-/
import PoetryVerif.Proofs.MarkerAlgSoundPairL
import PoetryVerif.Proofs.VRangeTextU
import PoetryVerif.Proofs.MarkerAlgSoundFullL

set_option linter.unusedSimpArgs false
set_option linter.unusedVariables false
set_option linter.unnecessarySeqFocus false

namespace Poetry
open Poetry.Marker
open Version

/-! ### the C15 text round trips, through the marker-mode parser (same proofs, `is_marker_constraint=True`) -/

/-- **a single version or range (not spelt with a wildcard) is read back from its text, identically** -/
theorem single_roundtripM (m : RC) (hwf : m.WF) (hne : m.NE) (htidy : m.Tidy) (ht : m.TextOK) (hp : m.plainText) :
    ∃ s, (VC.single m).toStr = .ok s ∧ VParser.parseMarkerVersionConstraint s = .ok (.single m) := by
  refine ⟨_, memberChars_toStr m hp, ?_⟩
  by_cases hany : m = .rng ⟨none, none, false, false⟩
  · subst hany
    rfl
  · unfold VParser.parseMarkerVersionConstraint
    rw [parseConstraintAux_one true _ (memberChars_group m ht) (memberChars_head m ht hany htidy)]
    exact parseGroup_member true m hwf hne htidy ht


/-- **a union printed as `m0 || m1 || …` is read back as an equivalent constraint**: `parse_constraint` parses
the groups to the members themselves and `VersionUnion.of` rebuilds a union admitting the same versions -/
theorem union_join_roundtripM (rs : List RC) (h : UnionText rs) (hplain : ∀ m ∈ rs, m.plainText)
    (hx : VC.excludedSingleVersion rs = .ok none) (hw : VC.excludedWildcard rs = none) :
    ∃ s c', (VC.union rs).toStr = .ok s ∧ VParser.parseMarkerVersionConstraint s = .ok c' ∧ c'.WF ∧
      (∀ x ∈ c'.flatten, RegMember (boundsOf rs) x) ∧
      ∀ p, p.wf = true → Regular (boundsOf rs) p → c'.allows p = (VC.union rs).allows p := by
  have hstr : (VC.union rs).toStr = .ok (String.ofList (joinC barSep (rs.map memberChars))) := by
    simp only [VC.toStr, hx, hw, mapM_toStr rs hplain, bind, Except.bind, pure, Except.pure]
    rw [← joinWith_bar, List.map_map]
    rfl
  have hmem : ∀ m ∈ rs, m.WF ∧ m.NE ∧ m.Tidy ∧ m.TextOK := fun m hm =>
    ⟨(h.wf.2.1 m hm).1, (h.wf.2.1 m hm).2, h.tidy m hm, h.text m hm⟩
  obtain ⟨res, hres, hrwf, hrm, hrsem⟩ := unionOf_reg h.reg (rs.map VC.single) (by
    intro c hc x hx'
    obtain ⟨m, hm, rfl⟩ := List.mem_map.1 hc
    simp only [VC.flatten, List.mem_singleton] at hx'
    rw [hx']
    exact h.member m hm)
  rw [flatMap_single] at hrsem
  have hlen := h.wf.1
  match rs, h, hplain, hx, hw, hstr, hmem, hres, hrsem, hlen with
  | m1 :: m2 :: ms, h, hplain, hx, hw, hstr, hmem, hres, hrsem, _ =>
    have hsl : m1.view.isStrictlyLower m2.view = true := by
      have := h.wf.2.2.1
      simp only [SortedRC, List.pairwise_cons] at this
      exact this.1 m2 (by simp)
    have hgroups : ∀ q ∈ memberChars m1 :: memberChars m2 :: ms.map memberChars, GroupText q := by
      intro q hq
      rw [← List.map_cons, ← List.map_cons] at hq
      obtain ⟨m, hm, rfl⟩ := List.mem_map.1 hq
      exact memberChars_group m (h.text m hm)
    refine ⟨_, res, hstr, ?_, hrwf, hrm, fun p hp hreg => ?_⟩
    · unfold VParser.parseMarkerVersionConstraint
      simp only [List.map_cons]
      rw [parseConstraintAux_many true _ _ _ hgroups
        (memberChars_head m1 (h.text m1 (by simp)) (first_not_any m1 m2 hsl) (h.tidy m1 (by simp)))
        ((m1 :: m2 :: ms).map VC.single) (by
          have := mapM_parseGroup_members true (m1 :: m2 :: ms) hmem
          simpa using this)]
      exact hres
    · rw [VC.allows_of_reg h.reg res hrwf hrm p, hrsem p hp hreg, h.allows p]


/-! ### final releases have re-parsable texts -/

theorem list_dropLast_getLast {α : Type} : ∀ (l : List α) (a : α), l.getLast? = some a → l = l.dropLast ++ [a]
  | [], a, h => by simp at h
  | [x], a, h => by simp at h; subst h; rfl
  | x :: y :: ys, a, h => by
      have := list_dropLast_getLast (y :: ys) a (by simpa [List.getLast?_cons_cons] using h)
      simp only [List.dropLast_cons₂, List.cons_append]
      rw [← this]

theorem lowerChar_relChars (a : Nat) (r : List Nat) : (relChars (a :: r)).map lowerChar = relChars (a :: r) := by
  rw [← relChars_bridge]
  have : ∀ c ∈ Marker.relChars a r, lowerChar c = id c := by
    intro c hc
    rcases Marker.relChars_chars a r c hc with h | rfl
    · exact digit_lower c h
    · decide
  rw [List.map_congr_left this, List.map_id]

theorem textOK_finalV (a : Nat) (r : List Nat) : TextOK (finalV (a :: r)) where
  body := by
    show Version.parseBody "" ((relText (a :: r)).toList.map lowerChar) = _
    rw [relText_toList, lowerChar_relChars, parseBody_relChars]
    rfl
  chars := by
    intro c hc
    have hc' : c ∈ Marker.relChars a r := by
      rw [relChars_bridge]; rw [← relText_toList]; exact hc
    rcases Marker.relChars_chars a r c hc' with h | rfl
    · simp [vchar, h]
    · decide
  head := by
    obtain ⟨c, cs, hc, hd⟩ := relChars_head a r
    exact ⟨c, cs, by show (relText (a :: r)).toList = _; rw [relText_toList, hc], hd⟩
  last := by
    obtain ⟨l, hl, hd⟩ := relChars_last_digit a r
    refine ⟨(relChars (a :: r)).dropLast, l, ?_, ?_⟩
    · show (relText (a :: r)).toList = _
      rw [relText_toList]
      exact list_dropLast_getLast _ l hl
    · intro e; subst e; exact absurd hd (by decide)

theorem textOK_pyBound {e : Version} (h : PyBound e = true) : TextOK e := by
  obtain ⟨x, r, _, rfl⟩ := Marker.pyBound_lit h
  exact textOK_finalV x r

end Poetry

namespace Poetry.Marker
open Poetry Poetry.Version

/-! ### the constraint pattern on a text whose value holds blanks, bars and commas -/

/-- the operator spellings `VersionRange.__str__` can start with (`""` for a bare version) -/
def firstOps : List String := ["", ">=", ">", "<=", "<", "=="]

theorem matchPattern1_first (ops : String) (ho : ops ∈ firstOps) (c : Char) (cs : List Char)
    (hd : isDigit c = true) (hnl : ∀ x ∈ c :: cs, x ≠ '\n') :
    matchPattern1 (ops.toList ++ c :: cs) =
      some (if ops = "" then none else some ops, String.ofList (c :: cs)) := by
  have hv : valueOk' (c :: cs) := ⟨by simp, fun x hx => by
    simp only [List.head?_cons, Option.some.injEq] at hx; subst hx; exact digit_not_space c hd, hnl⟩
  have hs := spacesThenValue?_ok' _ hv
  have hne : c ≠ '=' := digit_ne c '=' hd (by decide)
  have hl := lowerChar_ne_eqsign c hne
  have hlc := digit_lower c hd
  simp only [firstOps, List.mem_cons, List.mem_nil_iff, or_false] at ho
  rcases ho with rfl | rfl | rfl | rfl | rfl | rfl
  · have h1 := digit_ne c '~' hd (by decide)
    have h2 := digit_ne c '!' hd (by decide)
    have h3 := digit_ne c '>' hd (by decide)
    have h4 := digit_ne c '<' hd (by decide)
    have h5 := digit_ne c 'n' hd (by decide)
    have h6 := digit_ne c 'i' hd (by decide)
    simp [matchPattern1, matchPattern1.tryOps, pattern1Ops, stripPrefixCI?_cons, stripPrefixCI?_nil,
      lc_eq, lc_tilde, lc_bang, lc_gt, lc_lt, lc_n, lc_i, hlc, h1, h2, h3, h4, h5, h6, hne, hs]
  · simp [matchPattern1, matchPattern1.tryOps, pattern1Ops, stripPrefixCI?_cons, stripPrefixCI?_nil,
      lc_eq, lc_tilde, lc_bang, lc_gt, lc_lt, hs]
  · simp [matchPattern1, matchPattern1.tryOps, pattern1Ops, stripPrefixCI?_cons, stripPrefixCI?_nil,
      lc_eq, lc_tilde, lc_bang, lc_gt, lc_lt, hs, hl]
  · simp [matchPattern1, matchPattern1.tryOps, pattern1Ops, stripPrefixCI?_cons, stripPrefixCI?_nil,
      lc_eq, lc_tilde, lc_bang, lc_gt, lc_lt, hs]
  · simp [matchPattern1, matchPattern1.tryOps, pattern1Ops, stripPrefixCI?_cons, stripPrefixCI?_nil,
      lc_eq, lc_tilde, lc_bang, lc_gt, lc_lt, hs, hl]
  · simp [matchPattern1, matchPattern1.tryOps, pattern1Ops, stripPrefixCI?_cons, stripPrefixCI?_nil,
      lc_eq, lc_tilde, lc_bang, lc_gt, lc_lt, hs, hl]

/-- `SingleMarker.__init__("python_full_version", text)` for such a text: no padding when the value is not a plain
number -/
theorem leafPrepare_pfv_first (ops : String) (ho : ops ∈ firstOps) (c : Char) (cs : List Char)
    (hd : isDigit c = true) (hnl : ∀ x ∈ c :: cs, x ≠ '\n')
    (hx : ∃ x ∈ c :: cs, x ≠ '.' ∧ isDigit x = false) :
    leafPrepare "python_full_version" (String.ofList (ops.toList ++ c :: cs)) false =
      .ok { name := "python_full_version", op := if ops = "" then "==" else ops, value := String.ofList (c :: cs),
            swapped := false, cstr := String.ofList (ops.toList ++ c :: cs), kind := .version true } := by
  have hm := matchPattern1_first ops ho c cs hd hnl
  have hdec : isDecimalAscii ((String.ofList (c :: cs)).toList.filter (· != '.')) = false := by
    obtain ⟨x, hx1, hx2, hx3⟩ := hx
    simp only [String.toList_ofList, isDecimalAscii, Bool.and_eq_false_iff]
    right
    rw [List.all_eq_false]
    exact ⟨x, List.mem_filter.2 ⟨hx1, by simpa using hx2⟩, by simp [hx3]⟩
  have hop : ((if ops = "" then "==" else ops) == "in") = false ∧
      ((if ops = "" then "==" else ops) == "not in") = false := by
    simp only [firstOps, List.mem_cons, List.mem_nil_iff, or_false] at ho
    rcases ho with rfl | rfl | rfl | rfl | rfl | rfl <;> decide
  have hget : (if ops = "" then (none : Option String) else some ops).getD "==" = (if ops = "" then "==" else ops) := by
    split <;> rfl
  unfold leafPrepare
  simp only [Bool.false_eq_true, if_false, String.toList_ofList, hm, hget, hop.1, hop.2, Bool.false_and, Bool.or_false]
  have f1 : Gen.versionLikeMarkerNames.contains "python_full_version" = true := by decide
  have f1' : "python_full_version" ∈ Gen.versionLikeMarkerNames := by decide
  have f3 : aliasName "python_full_version" = "python_full_version" := by decide
  have f4 : ("python_full_version" != "platform_release") = true := by decide
  simp only [String.toList_ofList] at hdec
  simp [f1, f1', f3, f4, hdec]

/-- the text of the value: `op ++ value` is the whole text -/
theorem first_text (ops : String) (c : Char) (cs : List Char) :
    (if ops = "" then "==" else ops) ++ String.ofList (c :: cs) =
      (if ops = "" then "==" ++ String.ofList (c :: cs) else String.ofList (ops.toList ++ c :: cs)) := by
  split
  · rfl
  · exact str_eq_of_toList (by simp)

/-! ### the first member of a printed constraint -/

theorem vchar_ne_nl {c : Char} (h : vchar c = true) : c ≠ '\n' := by
  intro e; subst e; revert h; decide

theorem text_nonl {v : Version} (h : TextOK v) : ∀ x ∈ v.text.toList, x ≠ '\n' :=
  fun x hx => vchar_ne_nl (h.chars x hx)

/-- the characters of a member start with one of the operator spellings and a digit, and hold no newline -/
theorem memberChars_first (m : RC) (ht : m.TextOK) (hany : m ≠ .rng ⟨none, none, false, false⟩) (htidy : m.Tidy) :
    (∃ ops c t, ops ∈ firstOps ∧ memberChars m = ops.toList ++ c :: t ∧ isDigit c = true ∧
      (ops = "" → ∃ v, m = .ver v)) ∧
    ∀ x ∈ memberChars m, x ≠ '\n' := by
  cases m with
  | ver v =>
    have hv : TextOK v := ht v (by simp [RC.bounds_ver])
    obtain ⟨d, ds, hd, hdig⟩ := hv.head
    exact ⟨⟨"", d, ds, by decide, by simp [memberChars, hd], hdig, fun _ => ⟨v, rfl⟩⟩, fun x hx => text_nonl hv x hx⟩
  | rng r =>
    obtain ⟨mn, mx, i, j⟩ := r
    have hb : ∀ e ∈ (RC.rng ⟨mn, mx, i, j⟩).bounds, TextOK e := ht
    cases mn with
    | none =>
      cases mx with
      | none =>
        have hi : i = false := htidy.1 rfl
        have hj : j = false := htidy.2 rfl
        subst hi; subst hj
        exact absurd rfl hany
      | some M =>
        have hM : TextOK M := hb M (by simp [RC.bounds, RC.view, VRange.bounds, RC.min, RC.max])
        obtain ⟨d, ds, hd, hdig⟩ := hM.head
        refine ⟨⟨if j then "<=" else "<", d, ds, by cases j <;> decide, by cases j <;> simp [memberChars, hiOp, hd],
          hdig, by cases j <;> (intro h; exact absurd h (by decide))⟩, ?_⟩
        intro x hx
        simp only [memberChars, hiOp, List.mem_append] at hx
        rcases hx with hx | hx
        · cases j <;> simp at hx <;> (try rcases hx with rfl | rfl) <;> (try subst hx) <;> decide
        · exact text_nonl hM x hx
    | some mlo =>
      have hL : TextOK mlo := hb mlo (by cases mx <;> simp [RC.bounds, RC.view, VRange.bounds, RC.min, RC.max])
      obtain ⟨d, ds, hd, hdig⟩ := hL.head
      cases mx with
      | none =>
        refine ⟨⟨if i then ">=" else ">", d, ds, by cases i <;> decide, by cases i <;> simp [memberChars, loOp, hd],
          hdig, by cases i <;> (intro h; exact absurd h (by decide))⟩, ?_⟩
        intro x hx
        simp only [memberChars, loOp, List.mem_append] at hx
        rcases hx with hx | hx
        · cases i <;> simp at hx <;> (try rcases hx with rfl | rfl) <;> (try subst hx) <;> decide
        · exact text_nonl hL x hx
      | some M =>
        have hM : TextOK M := hb M (by simp [RC.bounds, RC.view, VRange.bounds, RC.min, RC.max])
        refine ⟨⟨if i then ">=" else ">", d, ds ++ ',' :: (hiOp j ++ M.text.toList), by cases i <;> decide,
          by cases i <;> simp [memberChars, loOp, hd], hdig, by cases i <;> (intro h; exact absurd h (by decide))⟩, ?_⟩
        intro x hx
        simp only [memberChars, loOp, hiOp, List.mem_append, List.mem_cons] at hx
        rcases hx with (hx | hx) | rfl | hx | hx
        · cases i <;> simp at hx <;> (try rcases hx with rfl | rfl) <;> (try subst hx) <;> decide
        · exact text_nonl hL x hx
        · decide
        · cases j <;> simp at hx <;> (try rcases hx with rfl | rfl) <;> (try subst hx) <;> decide
        · exact text_nonl hM x hx

theorem py_plainText {m : RC} (hb : ∀ e ∈ m.bounds, PyBound e = true) : m.plainText := by
  cases m with
  | ver v => trivial
  | rng r =>
    obtain ⟨mn, mx, i, j⟩ := r
    show VRange.isSingleWildcardRange _ = false
    cases mn <;> cases mx <;> simp [VRange.isSingleWildcardRange]
    rename_i lo hi
    intro _ _
    exact wildcardCandidate_final lo hi false (hb lo (by simp [RC.bounds, RC.view, VRange.bounds, RC.min, RC.max]))

theorem rc_min_mem_bounds {m : RC} {t : Version} (h : m.min = some t) : t ∈ m.bounds := by
  cases m with
  | ver v => simp [RC.min] at h; subst h; simp [RC.bounds, RC.view, VRange.bounds, RC.min]
  | rng r =>
    obtain ⟨mn, mx, i, j⟩ := r
    simp only [RC.min] at h; subst h
    cases mx <;> simp [RC.bounds, RC.view, VRange.bounds, RC.min, RC.max]

theorem py_excludedWildcard (rs : List RC) (hb : ∀ m ∈ rs, ∀ e ∈ m.bounds, PyBound e = true) :
    VC.excludedWildcard rs = none := by
  match rs, hb with
  | [], _ => rfl
  | [_], _ => rfl
  | _ :: _ :: _ :: _, _ => rfl
  | [r0, r1], hb =>
    have key : ∀ (one two : RC), two ∈ [r0, r1] →
        (match one.max, two.min with
          | some omax, some tmin =>
            if one.imax || one.min.isSome || !two.imin || two.max.isSome then none
            else if isWildcardCandidate tmin omax true then some (omax, tmin) else none
          | _, _ => (none : Option (Version × Version))) = none := by
      intro one two h2
      cases h1 : one.max with
      | none => rfl
      | some omax =>
        cases h3 : two.min with
        | none => rfl
        | some tmin =>
          dsimp only
          rw [wildcardCandidate_final tmin omax true (hb two h2 tmin (rc_min_mem_bounds h3))]
          simp
    unfold VC.excludedWildcard
    by_cases hc : r0.max.isSome = true
    · have e : (if r0.max.isSome = true then (r0, r1) else (r1, r0)) = (r0, r1) := if_pos hc
      simp only [e]
      exact key r0 r1 (by simp)
    · have e : (if r0.max.isSome = true then (r0, r1) else (r1, r0)) = (r1, r0) := if_neg hc
      simp only [e]
      exact key r1 r0 (by simp)

/-! ### from the text to the leaf -/

theorem parseSingle_eqeq_text (b : Bool) {v : Version} (h : TextOK v) :
    VParser.parseSingle ('=' :: '=' :: v.text.toList) b = .ok (.single (.ver v)) := by
  unfold VParser.parseSingle
  simp [VParser.isAnyPattern, xConstraint?_eq, xprefix, xcore_text false h, VParser.basicOp,
    dropSpaces_noSpace _ h.noSpace, basicVersion?_text h, VParser.parseVersionText,
    text_ne_dev h, h.parse, bind, Except.bind, pure, Except.pure]

/-- **`SingleMarker("python_full_version", text)`** for a text that starts with an operator spelling and a digit,
holds no newline, is not a plain number, and is read by the marker-mode constraint parser as `c'` (also with an
explicit `==` when it starts with a bare version): a leaf of the regular fragment with constraint `c'` -/
theorem mkSingle_text_leaf {B : List Version} (ops : String) (ho : ops ∈ firstOps) (c : Char) (cs : List Char)
    (hd : isDigit c = true) (hnl : ∀ x ∈ c :: cs, x ≠ '\n') (hx : ∃ x ∈ c :: cs, x ≠ '.' ∧ isDigit x = false)
    (c' : VC) (hP : VParser.parseMarkerVersionConstraint (String.ofList (ops.toList ++ c :: cs)) = .ok c')
    (hP' : ops = "" → VParser.parseMarkerVersionConstraint (String.ofList ("==".toList ++ c :: cs)) = .ok c')
    (hreg : RegVC B c') :
    ∃ nm, mkSingle "python_full_version" (String.ofList (ops.toList ++ c :: cs)) false = .ok nm ∧
      nm.c = .ver c' ∧ VerLeaf B "python_full_version" (.single nm) := by
  have hprep := leafPrepare_pfv_first ops ho c cs hd hnl hx
  have hmk : mkSingle "python_full_version" (String.ofList (ops.toList ++ c :: cs)) false =
      .ok ⟨"python_full_version", if ops = "" then "==" else ops, String.ofList (c :: cs), false, .ver c'⟩ := by
    simp only [mkSingle, hprep, bind, Except.bind, parseByKind_ver _ _ hP, pure, Except.pure]
  refine ⟨_, hmk, rfl, rfl, ?_, c', rfl, hreg.1, hreg.2⟩
  simp only [Single.coherent, itemConstraintString, Bool.false_eq_true, if_false]
  by_cases he : ops = ""
  · subst he
    have hprep2 := leafPrepare_pfv_first "==" (by decide) c cs hd hnl hx
    have hmk2 : mkSingle "python_full_version" (String.ofList ("==".toList ++ c :: cs)) false =
        .ok ⟨"python_full_version", "==", String.ofList (c :: cs), false, .ver c'⟩ := by
      simp only [mkSingle, hprep2, bind, Except.bind, parseByKind_ver _ _ (hP' rfl), pure, Except.pure]
      rfl
    have e : "==" ++ String.ofList (c :: cs) = String.ofList ("==".toList ++ c :: cs) :=
      str_eq_of_toList (by simp)
    simp only [if_true, e, hmk2]
    simp
  · have e : ops ++ String.ofList (c :: cs) = String.ofList (ops.toList ++ c :: cs) := str_eq_of_toList (by simp)
    simp only [he, if_false, e, hmk]
    simp

/-! ### the constructor fact -/

theorem firstOps_noComma {ops : String} (h : ops ∈ firstOps) (x : Char) (hx : x ∈ ops.toList) :
    x ≠ ',' ∧ x ≠ ' ' := by
  simp only [firstOps, List.mem_cons, List.mem_nil_iff, or_false] at h
  rcases h with rfl | rfl | rfl | rfl | rfl | rfl <;> simp at hx <;>
    (try rcases hx with rfl | rfl) <;> (try subst hx) <;> decide

/-- **`MkListOK` holds**: the constructor on the text of a constraint of the regular setting over two-component
Python bounds -/
theorem mkListOK {E : Env} {X Y Z : Nat} (hE : EnvPy E X Y Z) : MkListOK E (pyV X Y Z) := by
  intro c B hpb hpad hreg hl2 hne hna nm hnm
  obtain ⟨q1, hq1⟩ := hne
  obtain ⟨q0, hq0⟩ := hna
  have hemp : c.isEmpty = false := by
    cases he : c.isEmpty with
    | false => rfl
    | true => rw [vc_allowsPlain_of_isEmpty he] at hq1; cases hq1
  have hany : c.isAny = false := by
    cases he : c.isAny with
    | false => rfl
    | true => rw [vc_allowsPlain_of_isAny he] at hq0; cases hq0
  have hbp : ∀ m ∈ c.flatten, ∀ e ∈ m.bounds, PyBound e = true :=
    fun m hm e he => hpb e ((hreg.2 m hm).2.2.2 e he)
  have htext : ∀ m ∈ c.flatten, m.TextOK := fun m hm e he => textOK_pyBound (hbp m hm e he)
  -- the simple constraints: the constructor fact of the regular fragment
  have simple : c.isSimple = .ok true → VerLeaf B "python_full_version" (.single nm) ∧
      leafEval E (.single nm) = c.allowsPlain (pyV X Y Z) := by
    intro hs
    obtain ⟨g, e⟩ := mkVerOK_pfv_py hpb hpad X [Y, Z] c nm hreg.1 hreg.2 hemp hany hs hnm
    obtain ⟨_, _, vc, hvc, _, _⟩ := id g
    exact ⟨g, by rw [verLeaf_ev hpb hE g vc hvc]; exact e vc hvc⟩
  -- from a parsed text to the conclusion
  have finish : ∀ (ops : String) (ch : Char) (cs : List Char) (c' : VC), ops ∈ firstOps → isDigit ch = true →
      (∀ x ∈ ch :: cs, x ≠ '\n') → (∃ x ∈ ch :: cs, x ≠ '.' ∧ isDigit x = false) →
      c.toStr = .ok (String.ofList (ops.toList ++ ch :: cs)) →
      VParser.parseMarkerVersionConstraint (String.ofList (ops.toList ++ ch :: cs)) = .ok c' →
      (ops = "" → VParser.parseMarkerVersionConstraint (String.ofList ("==".toList ++ ch :: cs)) = .ok c') →
      RegVC B c' → c'.allowsPlain (pyV X Y Z) = c.allowsPlain (pyV X Y Z) →
      VerLeaf B "python_full_version" (.single nm) ∧ leafEval E (.single nm) = c.allowsPlain (pyV X Y Z) := by
    intro ops ch cs c' ho hd hnl hx hstr hP hP' hr hal
    obtain ⟨nm', hmk, hc', hv⟩ := mkSingle_text_leaf (B := B) ops ho ch cs hd hnl hx c' hP hP' hr
    simp only [mkSingleOfC, LeafC.toStr, hstr, bind, Except.bind] at hnm
    rw [hmk] at hnm
    cases hnm
    exact ⟨hv, by rw [verLeaf_ev hpb hE hv c' hc']; exact hal⟩
  cases c with
  | empty => simp [VC.isEmpty] at hemp
  | single m =>
    have hm := hreg.2 m (by simp [VC.flatten])
    cases hs : m.isSimple with
    | true => exact simple (by simp [VC.isSimple, hs])
    | false =>
      -- a two-sided range
      have hplain : m.plainText := py_plainText (hbp m (by simp [VC.flatten]))
      have hnany : m ≠ .rng ⟨none, none, false, false⟩ := by
        intro e; subst e; simp [RC.isSimple, VRange.isSimple] at hs
      obtain ⟨s, hs1, hs2⟩ := single_roundtripM m hm.1 hm.2.2.1 hm.2.1 (htext m (by simp [VC.flatten])) hplain
      have hstr : (VC.single m).toStr = .ok (String.ofList (memberChars m)) := memberChars_toStr m hplain
      rw [hstr] at hs1
      cases hs1
      obtain ⟨⟨ops, ch, t, ho, hmc, hd, hver⟩, hnl⟩ :=
        memberChars_first m (htext m (by simp [VC.flatten])) hnany hm.2.1
      have hcomma : ',' ∈ memberChars m := by
        cases m with
        | ver v => simp [RC.isSimple] at hs
        | rng r =>
          obtain ⟨mn, mx, i, j⟩ := r
          cases mn <;> cases mx <;> simp [RC.isSimple, VRange.isSimple] at hs
          simp [memberChars]
      have hx : ∃ x ∈ ch :: t, x ≠ '.' ∧ isDigit x = false := by
        rw [hmc, List.mem_append] at hcomma
        rcases hcomma with h | h
        · exact absurd rfl (firstOps_noComma ho ',' h).1
        · exact ⟨',', h, by decide, by decide⟩
      have hopn : ops ≠ "" := by
        intro e
        obtain ⟨v, hv⟩ := hver e
        subst hv; simp [RC.isSimple] at hs
      refine finish ops ch t (.single m) ho hd (fun x hx' => hnl x (by rw [hmc]; exact List.mem_append_right _ hx')) hx
        (by rw [hstr, hmc]) (by rw [← hmc]; exact hs2) (fun e => absurd e hopn) hreg rfl
  | union rs =>
    have hmem : ∀ m ∈ rs, RegMember B m := fun m hm => hreg.2 m (by simpa [VC.flatten] using hm)
    have hbp' : ∀ m ∈ rs, ∀ e ∈ m.bounds, PyBound e = true := fun m hm => hbp m (by simpa [VC.flatten] using hm)
    have hU : UnionText rs :=
      ⟨hreg.1, fun m hm => (hmem m hm).2.1, fun m hm => htext m (by simpa [VC.flatten] using hm),
        regB_of_pyBound _ (by
          intro e he
          simp only [boundsOf, List.mem_flatMap] at he
          obtain ⟨m, hm, hem⟩ := he
          exact hbp' m hm e hem)⟩
    have hsub : ∀ e ∈ boundsOf rs, e ∈ B := by
      intro e he
      simp only [boundsOf, List.mem_flatMap] at he
      obtain ⟨m, hm, hem⟩ := he
      exact (hmem m hm).2.2.2 e hem
    obtain ⟨hok, hN⟩ := unionOK_of_reg hU.reg rs hU.member hreg.1.2.2.1
    obtain ⟨inv, hinv⟩ := inverted_total rs hok hN
    have hxs : ∃ o, VC.excludedSingleVersion rs = .ok o := by
      unfold VC.excludedSingleVersion
      simp only [hinv, bind, Except.bind, pure, Except.pure]
      split <;> exact ⟨_, rfl⟩
    obtain ⟨o, ho⟩ := hxs
    cases o with
    | some v => exact simple (by simp [VC.isSimple, ho, bind, Except.bind, pure, Except.pure])
    | none =>
      have hplain : ∀ m ∈ rs, m.plainText := fun m hm => py_plainText (hbp' m hm)
      have hw := py_excludedWildcard rs hbp'
      obtain ⟨s, c', h1, h2, hwf', hrm', hal⟩ := union_join_roundtripM rs hU hplain ho hw
      have hstr : (VC.union rs).toStr = .ok (String.ofList (joinC barSep (rs.map memberChars))) := by
        simp only [VC.toStr, ho, hw, mapM_toStr rs hplain, bind, Except.bind, pure, Except.pure]
        rw [← joinWith_bar, List.map_map]
        rfl
      rw [hstr] at h1
      cases h1
      have hreg' : RegVC B c' :=
        ⟨hwf', fun x hx => ⟨(hrm' x hx).1, (hrm' x hx).2.1, (hrm' x hx).2.2.1, fun e he => hsub e ((hrm' x hx).2.2.2 e he)⟩⟩
      have hp : (pyV X Y Z).wf = true := pyV_wf X Y Z
      have hregp : Regular (boundsOf rs) (pyV X Y Z) :=
        regular_pyV (boundsOf rs) (fun e he => hpb e (hsub e he)) X Y Z
      have hal' : c'.allowsPlain (pyV X Y Z) = (VC.union rs).allowsPlain (pyV X Y Z) := by
        have e1 := hal _ hp hregp
        rw [VC.allows_of_reg (regB_of_pyBound B hpb) c' hreg'.1 hreg'.2,
          VC.allows_of_reg (regB_of_pyBound B hpb) (.union rs) hreg.1 hreg.2] at e1
        exact Except.ok.inj e1
      match rs, hreg, hmem, hbp', hU, hplain, ho, hw, hstr, h2, hal' with
      | [], hreg, _, _, _, _, _, _, _, _, _ => exact absurd hreg.1.1 (by simp)
      | [_], hreg, _, _, _, _, _, _, _, _, _ => exact absurd hreg.1.1 (by simp)
      | m1 :: m2 :: ms, hreg, hmem, hbp', hU, hplain, ho, hw, hstr, h2, hal' =>
        have hsl : m1.view.isStrictlyLower m2.view = true := by
          have := hreg.1.2.2.1
          simp only [SortedRC, List.pairwise_cons] at this
          exact this.1 m2 (by simp)
        have ht1 := hU.text m1 (by simp)
        obtain ⟨⟨ops, ch, t, hops, hmc, hd, hver⟩, hnl1⟩ :=
          memberChars_first m1 ht1 (first_not_any m1 m2 hsl) (hU.tidy m1 (by simp))
        -- the joined text
        have hjoin : joinC barSep ((m1 :: m2 :: ms).map memberChars) =
            ops.toList ++ ch :: (t ++ barSep ++ joinC barSep ((m2 :: ms).map memberChars)) := by
          simp only [List.map_cons, joinC, hmc, List.append_assoc, List.cons_append]
        have hnlall : ∀ x ∈ joinC barSep ((m1 :: m2 :: ms).map memberChars), x ≠ '\n' := by
          have gen : ∀ (l : List RC), (∀ m ∈ l, ∀ x ∈ memberChars m, x ≠ '\n') →
              ∀ x ∈ joinC barSep (l.map memberChars), x ≠ '\n' := by
            intro l
            induction l with
            | nil => intro _ x hx; simp [joinC] at hx
            | cons a as ih =>
              intro h x hx
              cases as with
              | nil => simp only [List.map_cons, List.map_nil, joinC] at hx; exact h a (by simp) x hx
              | cons b bs =>
                simp only [List.map_cons, joinC, List.mem_append] at hx
                rcases hx with (hx | hx) | hx
                · exact h a (by simp) x hx
                · have hb : ∀ y ∈ barSep, y ≠ '\n' := by decide
                  exact hb x hx
                · exact ih (fun m hm => h m (by simp [hm])) x (by simpa using hx)
          refine gen _ ?_
          intro m hm
          by_cases ha : m = .rng ⟨none, none, false, false⟩
          · subst ha; intro x hx; simp [memberChars] at hx; subst hx; decide
          · exact (memberChars_first m (hU.text m hm) ha (hU.tidy m hm)).2
        rw [hjoin] at hnlall hstr h2
        have hx : ∃ x ∈ ch :: (t ++ barSep ++ joinC barSep ((m2 :: ms).map memberChars)), x ≠ '.' ∧ isDigit x = false :=
          ⟨' ', by simp [barSep], by decide, by decide⟩
        refine finish ops ch _ c' hops hd (fun x hx' => hnlall x (List.mem_append_right _ hx')) hx hstr h2 ?_ hreg' hal'
        -- a bare first member: the same groups with an explicit `==`
        intro e
        obtain ⟨v, hv⟩ := hver e
        subst hv; subst e
        have hv : TextOK v := ht1 v (by simp [RC.bounds_ver])
        have hmc' : ch :: t = v.text.toList := by simpa [memberChars] using hmc.symm
        have hmemb : ∀ m ∈ RC.ver v :: m2 :: ms, m.WF ∧ m.NE ∧ m.Tidy ∧ m.TextOK := fun m hm =>
          ⟨(hU.wf.2.1 m hm).1, (hU.wf.2.1 m hm).2, hU.tidy m hm, hU.text m hm⟩
        have hgroups : ∀ q ∈ memberChars (.ver v) :: memberChars m2 :: ms.map memberChars, GroupText q := by
          intro q hq
          rw [← List.map_cons, ← List.map_cons] at hq
          obtain ⟨m, hm, rfl⟩ := List.mem_map.1 hq
          exact memberChars_group m (hU.text m hm)
        have hmap := mapM_parseGroup_members true (RC.ver v :: m2 :: ms) hmemb
        simp only [List.map_cons] at hmap
        -- the parse of the original text
        have hp1 : VParser.parseMarkerVersionConstraint
            (String.ofList (joinC barSep (memberChars (.ver v) :: memberChars m2 :: ms.map memberChars))) =
            VC.unionOf (VC.single (.ver v) :: VC.single m2 :: ms.map VC.single) := by
          unfold VParser.parseMarkerVersionConstraint
          exact parseConstraintAux_many true _ _ _ hgroups
            (memberChars_head (.ver v) ht1 (first_not_any _ m2 hsl) (hU.tidy _ (by simp))) _ hmap
        have hplainv : ∀ c ∈ '=' :: '=' :: v.text.toList, vPlain c := by
          intro c hc
          simp only [List.mem_cons] at hc
          rcases hc with rfl | rfl | hc
          · unfold vPlain; decide
          · unfold vPlain; decide
          · exact hv.plain c hc
        have hgroups2 : ∀ q ∈ ('=' :: '=' :: v.text.toList) :: memberChars m2 :: ms.map memberChars, GroupText q := by
          intro q hq
          rcases List.mem_cons.1 hq with rfl | hq
          · exact groupText_of_vPlain _ hplainv (by simp)
          · exact hgroups q (List.mem_cons_of_mem _ hq)
        have hmap2 : (('=' :: '=' :: v.text.toList) :: memberChars m2 :: ms.map memberChars).mapM
            (fun q => VParser.parseGroup q true) = .ok (VC.single (.ver v) :: VC.single m2 :: ms.map VC.single) := by
          rw [List.mapM_cons] at hmap ⊢
          rw [_root_.Poetry.parseGroup_plain true _ hplainv, parseSingle_eqeq_text true hv]
          rw [show memberChars (.ver v) = v.text.toList from rfl, _root_.Poetry.parseGroup_plain true _ hv.plain,
            parseSingle_bare_text true hv] at hmap
          exact hmap
        have hp2 : VParser.parseMarkerVersionConstraint
            (String.ofList (joinC barSep (('=' :: '=' :: v.text.toList) :: memberChars m2 :: ms.map memberChars))) =
            VC.unionOf (VC.single (.ver v) :: VC.single m2 :: ms.map VC.single) := by
          unfold VParser.parseMarkerVersionConstraint
          exact parseConstraintAux_many true _ _ _ hgroups2 (by simp) _ hmap2
        have hj1 : ("".toList ++ ch :: (t ++ barSep ++ joinC barSep ((m2 :: ms).map memberChars))) =
            joinC barSep (memberChars (.ver v) :: memberChars m2 :: ms.map memberChars) := by
          simp [joinC, memberChars, ← hmc']
        have hj2 : ("==".toList ++ ch :: (t ++ barSep ++ joinC barSep ((m2 :: ms).map memberChars))) =
            joinC barSep (('=' :: '=' :: v.text.toList) :: memberChars m2 :: ms.map memberChars) := by
          simp [joinC, ← hmc']
        rw [hj1, hp1] at h2
        rw [hj2, hp2]
        exact h2

end Poetry.Marker

namespace Poetry.Marker
open Poetry Poetry.Generic

/-- **the python_version / python_full_version pairing with `python_version` lists, no hypothesis** -/
theorem pairSound_pyLists {E : Env} {X Y Z : Nat} (hE : EnvPy E X Y Z) :
    PairSound (leafEval E) PvLeafL Pfv3LeafC := pairSound_pyL hE (mkListOK hE)

theorem pyLeafL_name {l : Leaf} (h : PyLeafL l) : l.name = "python_version" ∨ l.name = "python_full_version" := by
  rcases h with h | h
  · exact Or.inl (pvLeafL_name h)
  · exact Or.inr (pfv3LeafC_name h)

theorem pyLeafL_evaluable {E : Env} {X Y Z : Nat} (hE : EnvPy E X Y Z) {l : Leaf} (h : PyLeafL l) :
    ∃ b, l.validate E = .ok b := by
  rcases h with h | h
  · exact pvLeafL_evaluable hE.1 h
  · exact pfv3LeafC_eval hE.2 h

/-- strings with the four operators, `extra`, `python_version` with the seven operators and lists,
`python_full_version` with the seven operators, `platform_release` over `B` -/
def FullLeafLP (C : String → Prop) (B : List Version) (E : Env) (l : Leaf) : Prop :=
  (Plain4Leaf C E l ∨ PyLeafL l) ∨ VerLeaf B "platform_release" l

theorem leafSpec_fullLP {C : String → Prop} (hC : ∀ u v, C u → C v → strIn u v = true ∨ strIn v u = true)
    {B : List Version} (hpb : ∀ e ∈ B, PyBound e = true) {E : Env} {ex : List String}
    (hX : E.extras = some ex) {X Y Z : Nat} (hE : EnvPy E X Y Z)
    {P : Nat} {Q : List Nat} (hP : E.get? "platform_release" = some (Version.relText (P :: Q))) :
    LeafSpec (leafEval E) (FullLeafLP C B E) := by
  have S1 : LeafSpec (leafEval E) (fun l => Plain4Leaf C E l ∨ PyLeafL l) := by
    refine LeafSpec.or (leafSpec_plain4 hC hX) (leafSpec_pyL hE (pairSound_pyLists hE)) ?_
    intro a b ha hb
    have hb' := pyLeafL_name hb
    rcases plain4Leaf_name ha with h | h
    · rcases hb' with hb' | hb' <;> (rw [pyPair, pyPair, h, hb']; decide)
    · simp only [plainStringVars, List.mem_cons, List.mem_nil_iff, or_false] at h
      rcases hb' with hb' | hb' <;>
        rcases h with h | h | h | h | h | h | h <;> (rw [pyPair, pyPair, h, hb']; decide)
  refine LeafSpec.or S1 (leafSpec_pr hpb hP) ?_
  intro a b ha hb
  have hb' := verLeaf_name hb
  have ha' : a.name = "extra" ∨ a.name ∈ plainStringVars ∨ a.name = "python_version" ∨
      a.name = "python_full_version" := by
    rcases ha with ha | ha
    · rcases plain4Leaf_name ha with h | h
      · exact Or.inl h
      · exact Or.inr (Or.inl h)
    · rcases pyLeafL_name ha with h | h
      · exact Or.inr (Or.inr (Or.inl h))
      · exact Or.inr (Or.inr (Or.inr h))
  rcases ha' with h | h | h | h
  · rw [pyPair, pyPair, h, hb']; decide
  · simp only [plainStringVars, List.mem_cons, List.mem_nil_iff, or_false] at h
    rcases h with h | h | h | h | h | h | h <;> (rw [pyPair, pyPair, h, hb']; decide)
  · rw [pyPair, pyPair, h, hb']; decide
  · rw [pyPair, pyPair, h, hb']; decide

theorem fullLeafLP_evaluable {C : String → Prop} {B : List Version} (hpb : ∀ e ∈ B, PyBound e = true) {E : Env}
    {ex : List String} (hX : E.extras = some ex) {X Y Z : Nat} (hE : EnvPy E X Y Z) {P : Nat} {Q : List Nat}
    (hP : E.get? "platform_release" = some (Version.relText (P :: Q))) {l : Leaf} (h : FullLeafLP C B E l) :
    ∃ b, l.validate E = .ok b := by
  rcases h with (h | h) | h
  · exact plain4Leaf_evaluable hX h
  · exact pyLeafL_evaluable hE h
  · exact verLeaf_evaluable (regB_of_pyBound B hpb) (verEnv_pr hpb P Q hP) (by decide) h

end Poetry.Marker
