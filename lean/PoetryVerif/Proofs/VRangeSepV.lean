/-
`VersionUnion.of` on mixed `Version` / range members whose bounds are mutually regular and not local builds:
total, and the result is sorted and separated (helper lemmas for C05, C06).
-/
import PoetryVerif.Proofs.VRangeInv

set_option linter.unusedSimpArgs false
set_option linter.unusedVariables false

namespace Poetry
open Version

namespace VRange

/-- the view of a `Version` -/
def point (a : Version) : VRange := ⟨some a, some a, true, true⟩

theorem point_allowedMax (a : Version) : (point a).allowedMax = some a := by simp [point, allowedMax]

/-- the point `[a, a]` is strictly below `r` iff `a` is below `r`'s lower end -/
theorem point_sl_iff (a : Version) (r : VRange) : (point a).isStrictlyLower r = true ↔ ¬ r.denLo a := by
  unfold isStrictlyLower denLo allowedMin
  rw [point_allowedMax]
  cases hm : r.min <;> cases hi : r.imin <;> simp [point, hm, hi, lt_iff, gt_iff] <;> grind

/-- `r` is strictly below the point `[a, a]` iff `a` is above `r`'s effective upper end -/
theorem sl_point_iff (a : Version) (r : VRange) : r.isStrictlyLower (point a) = true ↔ ¬ r.denHi a := by
  unfold isStrictlyLower denHi allowedMin
  cases hm : r.allowedMax <;> cases hi : r.imax <;> simp [point, hm, hi, lt_iff, gt_iff] <;> grind

theorem point_sl_point (a b : Version) : (point a).isStrictlyLower (point b) = Version.lt a b := by
  unfold isStrictlyLower allowedMin
  rw [point_allowedMax]
  simp only [point]
  cases h1 : Version.lt a b <;> cases h2 : Version.gt a b <;> simp [h1, h2]

end VRange

theorem RC.view_ver (a : Version) : (RC.ver a).view = VRange.point a := rfl

/-- weak equality is plain equality between versions without local label -/
theorem Version.allows_eq_eqv {a b : Version} (hb : b.isLocal = false) : a.allows b = Version.eqv a b := by
  simp [Version.allows, hb]

/-- the hypotheses under which `Version` members behave like their `[v, v]` views: all bounds well-formed (from
`WF`), mutually regular and not local -/
structure RegB (B : List Version) : Prop where
  reg : MutReg B
  noloc : NoLocal B

/-- **`allows_any` between two members is the bound comparison on their views** -/
theorem RC.allowsAny_view {B : List Version} (hB : RegB B) (x y : RC) (hx : x.WF) (hy : y.WF)
    (hxb : ∀ e ∈ x.bounds, e ∈ B) (hyb : ∀ e ∈ y.bounds, e ∈ B) :
    RC.allowsAny x y = .ok (!(y.view.isStrictlyLower x.view || x.view.isStrictlyLower y.view)) := by
  have regOf : ∀ (a : Version) (r : VRange), a ∈ B → (∀ e ∈ r.bounds, e ∈ B) → Regular r.bounds a := by
    intro a r ha hr e he
    rcases hB.reg a ha e (hr e he) with h | h
    · exact Or.inl ((vk_eq_iff _ _).1 h)
    · exact Or.inr h
  have rngVer : ∀ (r : VRange) (a : Version), r.WF → a.wf = true → a ∈ B → (∀ e ∈ r.bounds, e ∈ B) →
      r.allows a = !((VRange.point a).isStrictlyLower r || r.isStrictlyLower (VRange.point a)) := by
    intro r a hr ha haB hrB
    apply bool_eq_of_iff
    rw [VRange.allows_iff_den r a hr.1 ha (regOf a r haB hrB), Bool.not_eq_true', Bool.or_eq_false_iff,
      ← Bool.not_eq_true, ← Bool.not_eq_true, VRange.point_sl_iff, VRange.sl_point_iff]
    simp only [VRange.den, Classical.not_not]
  cases x with
  | ver a =>
    have haB : a ∈ B := hxb a (by simp [RC.bounds_ver])
    cases y with
    | ver b =>
      have hbB : b ∈ B := hyb b (by simp [RC.bounds_ver])
      simp only [RC.allowsAny, RC.intersect, RC.verIntersectVer, bind, Except.bind, pure, Except.pure,
        RC.view_ver, VRange.point_sl_point]
      rw [Version.allows_eq_eqv (hB.noloc b hbB), Version.allows_eq_eqv (hB.noloc a haB)]
      congr 1
      apply bool_eq_of_iff
      have e1 : Version.eqv b a = Version.eqv a b := by
        apply bool_eq_of_iff; rw [eqv_iff, eqv_iff]; exact eq_comm
      rw [e1]
      cases he : Version.eqv a b
      · simp [VC.isEmpty]
        rw [eqv_false_iff] at he
        intro hba
        rcases lt_or_gt_of_ne he with h | h
        · exact (lt_iff _ _).2 h
        · rw [(lt_iff _ _).2 h] at hba; cases hba
      · simp [VC.isEmpty]
        rw [eqv_iff] at he
        exact ⟨by rw [← Bool.not_eq_true, lt_iff, he]; exact lt_irrefl _,
          by rw [← Bool.not_eq_true, lt_iff, he]; exact lt_irrefl _⟩
    | rng r =>
      rw [RC.view_ver]
      have : RC.allowsAny (.ver a) (.rng r) = .ok (r.allows a) := by
        simp only [RC.allowsAny, RC.intersect, RC.rngIntersectVer, bind, Except.bind, pure, Except.pure]
        cases h1 : r.allows a
        · cases hm : r.min with
          | none => simp [VC.isEmpty]
          | some m =>
            have : m.isLocal = false := hB.noloc m (hyb m (VRange.mem_bounds_min hm))
            simp [this, VC.isEmpty]
        · simp [VC.isEmpty]
      rw [this, rngVer r a hy hx haB hyb, Bool.or_comm]
      rfl
  | rng r =>
    cases y with
    | ver b =>
      have hbB : b ∈ B := hyb b (by simp [RC.bounds_ver])
      rw [RC.view_ver]
      have : RC.allowsAny (.rng r) (.ver b) = .ok (r.allows b) := by
        simp only [RC.allowsAny]
        cases hm : r.min with
        | none => simp
        | some m =>
          have : m.isLocal = false := hB.noloc m (hxb m (VRange.mem_bounds_min hm))
          simp [this]
      rw [this, rngVer r b hx hy hbB hxb]
      rfl
    | rng s => simp [RC.allowsAny, VRange.isStrictlyHigher]

namespace VRange

/-- a non-degenerate range that includes its upper end is inhabited -/
theorem NE_of_imax {r : VRange} (hp : r.Proper) (hi : r.imax = true) : r.NE := by
  unfold NE isStrictlyLower allowedMin
  cases hM : r.max with
  | none => simp [allowedMax_none hM]
  | some M =>
    have hA : r.allowedMax = some M := by
      rcases allowedMax_cases hM with h | h
      · exact h
      · rw [hi] at h; simp at h
    rw [hA]
    cases hm : r.min with
    | none => rfl
    | some m =>
      have := hp m M hm hM
      simp [(lt_false_iff M m).2 (le_of_lt this), (gt_iff M m).2 this]

/-- including the lower end keeps a range inhabited -/
theorem NE_imin_true {r : VRange} (hp : r.Proper) (hne : r.NE) : (⟨r.min, r.max, true, r.imax⟩ : VRange).NE := by
  unfold NE at *
  have hA : (⟨r.min, r.max, true, r.imax⟩ : VRange).allowedMax = r.allowedMax := by
    cases hM : r.max with
    | none => rw [allowedMax_none hM, allowedMax_none (by simp [hM])]
    | some M =>
      rw [allowedMax_eq_of_lt (r := ⟨r.min, some M, true, r.imax⟩) (M := M) rfl
          (fun m hm => ne_of_lt (hp m M hm hM)),
        allowedMax_eq_of_lt hM (fun m hm => ne_of_lt (hp m M hm hM))]
  unfold isStrictlyLower allowedMin at *
  rw [hA]
  simp only
  cases h1 : r.allowedMax <;> cases h2 : r.min <;> cases h3 : r.imax <;> cases h4 : r.imin <;>
    simp [h1, h2, h3, h4] at hne ⊢ <;> grind

/-- `c` does not start below the point `a` and admits it: `c` starts exactly at `a`, inclusively -/
theorem minEq_point_of_denLo {r : VRange} {a : Version} (h1 : r.allowsLower (point a) = false)
    (h2 : r.denLo a) : MinEq r (point a) := by
  unfold allowsLower allowedMin at h1
  unfold denLo at h2
  unfold MinEq
  cases hm : r.min with
  | none => simp [hm, point] at h1
  | some m =>
    simp only [hm, point, lt_iff, gt_iff] at h1 h2
    have hge : vk a ≤ vk m := by
      by_cases c : vk m < vk a
      · simp [c] at h1
      · exact not_lt.1 c
    cases hi : r.imin
    · simp only [hi, Bool.false_eq_true, if_false] at h2
      exact absurd (lt_of_lt_of_le h2 hge) (lt_irrefl _)
    · simp only [hi, if_true] at h2
      exact ⟨Or.inr ⟨m, a, rfl, rfl, le_antisymm h2 hge⟩, rfl⟩

end VRange

/-- a member of a union in the regular setting -/
def RegMember (B : List Version) (c : RC) : Prop := c.WF ∧ c.Tidy ∧ c.NE ∧ ∀ e ∈ c.bounds, e ∈ B

theorem RC.NE_view {c : RC} (h : c.view.NE) (hc : ∀ r, c = .rng r → True) : True := trivial

/-- **one merge step**: whenever the loop merges `x` (the last kept member) with the next member `y` that does
not start lower, the single member `x ∪ y` exists, is again a regular member, and starts where `x` starts -/
theorem mergeStep_spec {B : List Version} (hB : RegB B) (x y : RC) (hx : RegMember B x) (hy : RegMember B y)
    (hmin : VRange.minLE x.view y.view)
    (hmerge : (y.view.isStrictlyLower x.view || x.view.isStrictlyLower y.view) = false ∨
      x.view.isAdjacentTo y.view = true) :
    ∃ u, rcUnionSingle x y = .ok (some u) ∧ RegMember B u ∧ VRange.MinEq u.view x.view := by
  obtain ⟨hxw, hxt, hxn, hxb⟩ := hx
  obtain ⟨hyw, hyt, hyn, hyb⟩ := hy
  have hany := RC.allowsAny_view hB x y hxw hyw hxb hyb
  have hcond : (!(!(y.view.isStrictlyLower x.view || x.view.isStrictlyLower y.view)) &&
      !(x.view.isAdjacentTo y.view)) = false := by
    rcases hmerge with h | h
    · simp [h]
    · simp [h]
  obtain ⟨u, hu, _⟩ := rcUnionSingle_some x y hxw hyw
    (fun m hm => hB.noloc m (hxb m (by
      cases x with
      | ver a => simp [RC.min] at hm; subst hm; simp [RC.bounds_ver]
      | rng r => exact VRange.mem_bounds_min hm))) _ hany hcond
  obtain ⟨huw, hut, hub, _⟩ := RC.rcUnionSingle_exact x y hxw hyw hxt hyt u hu
  have hubB : ∀ e ∈ u.bounds, e ∈ B := fun e he => by
    rcases hub e he with h | h
    · exact hxb e h
    · exact hyb e h
  refine ⟨u, hu, ?_⟩
  -- inhabitedness and the lower end, by shape
  have regOf : ∀ (a : Version) (r : VRange), a ∈ B → (∀ e ∈ r.bounds, e ∈ B) → Regular r.bounds a := by
    intro a r ha hr e he
    rcases hB.reg a ha e (hr e he) with h | h
    · exact Or.inl ((vk_eq_iff _ _).1 h)
    · exact Or.inr h
  suffices h : u.NE ∧ VRange.MinEq u.view x.view from ⟨⟨huw, hut, h.1, hubB⟩, h.2⟩
  cases x with
  | ver a =>
    have haB : a ∈ B := hxb a (by simp [RC.bounds_ver])
    have haloc := hB.noloc a haB
    simp only [rcUnionSingle] at hu
    by_cases h1 : y.allows a = true
    · simp only [h1, if_true, Except.ok.injEq, Option.some.injEq] at hu
      subst hu
      refine ⟨hyn, ?_⟩
      cases y with
      | ver b =>
        have hbB : b ∈ B := hyb b (by simp [RC.bounds_ver])
        have : Version.eqv b a = true := by
          rw [← Version.allows_eq_eqv haloc]; exact h1
        rw [eqv_iff] at this
        exact ⟨Or.inr ⟨b, a, rfl, rfl, this⟩, rfl⟩
      | rng r =>
        have hd := (VRange.allows_iff_den r a hyw.1 hxw (regOf a r haB hyb)).1 h1
        exact VRange.minEq_point_of_denLo hmin hd.1
    · simp only [h1, Bool.false_eq_true, if_false] at hu
      cases y with
      | ver b =>
        have hbB : b ∈ B := hyb b (by simp [RC.bounds_ver])
        -- `a.allows b` would give `b.allows a`
        have hab : a.allows b = false := by
          cases h : a.allows b
          · rfl
          · exfalso
            rw [Version.allows_eq_eqv (hB.noloc b hbB), eqv_iff] at h
            have : (RC.ver b).allows a = true := by
              show b.allows a = true
              rw [Version.allows_eq_eqv haloc, eqv_iff]; exact h.symm
            exact h1 this
        simp [RC.min, RC.max, hab] at hu
      | rng r =>
        simp only [RC.min, RC.max, RC.imin, RC.imax, Bool.false_eq_true, if_false] at hu
        cases hm : r.min with
        | none =>
          exfalso
          have := hmin
          simp [VRange.minLE, VRange.allowsLower, VRange.allowedMin, RC.view, RC.min, hm] at this
        | some m =>
          simp only [hm] at hu
          by_cases h2 : a.allows m = true
          · simp only [h2, if_true, Except.ok.injEq, Option.some.injEq] at hu
            subst hu
            have hmB : m ∈ B := hyb m (VRange.mem_bounds_min hm)
            rw [Version.allows_eq_eqv (hB.noloc m hmB), eqv_iff] at h2
            refine ⟨?_, ⟨Or.inr ⟨m, a, rfl, rfl, h2.symm⟩, rfl⟩⟩
            have := VRange.NE_imin_true hyw.2 hyn
            rw [hm] at this
            exact this
          · exfalso
            simp only [h2, Bool.false_eq_true, if_false] at hu
            cases hM : r.max with
            | none => simp [hM] at hu
            | some M =>
              simp only [hM] at hu
              by_cases h3 : a.allows M = true
              · have hMB : M ∈ B := hyb M (VRange.mem_bounds_max hM)
                rw [Version.allows_eq_eqv (hB.noloc M hMB), eqv_iff] at h3
                -- a ≤ m < M ≡ a
                have hlt := hyw.2 m M hm hM
                have hle : vk a ≤ vk m := by
                  have := hmin
                  simp only [VRange.minLE, VRange.allowsLower, VRange.allowedMin, RC.view, RC.min, hm, lt_iff] at this
                  by_cases c : vk m < vk a
                  · simp [c] at this
                  · exact not_lt.1 c
                exact absurd (lt_of_le_of_lt hle hlt) (by rw [h3]; exact lt_irrefl _)
              · simp [h3] at hu
  | rng r =>
    cases y with
    | rng s =>
      have hc' : (!(VRange.edgesTouch r s) && (s.isStrictlyLower r || r.isStrictlyLower s)) = false := by
        rcases hmerge with h | h
        · simp only [RC.view_rng] at h; simp [h]
        · simp only [RC.view_rng] at h; simp [isAdjacentTo_edgesTouch h]
      rw [VRange.rcUnionSingle_rng_some r s hc'] at hu
      simp only [Except.ok.injEq, Option.some.injEq] at hu
      subst hu
      exact ⟨VRange.hull_NE hxw hyw hxt hyt hxn hmin, VRange.hull_minEq hxt hyt hmin⟩
    | ver v =>
      have hvB : v ∈ B := hyb v (by simp [RC.bounds_ver])
      simp only [rcUnionSingle] at hu
      by_cases h1 : r.allows v = true
      · simp only [h1, if_true, Except.ok.injEq, Option.some.injEq] at hu
        subst hu
        exact ⟨hxn, VRange.MinEq.refl r⟩
      · simp only [h1, Bool.false_eq_true, if_false] at hu
        by_cases h2 : optVerEq (some v) r.min = true
        · simp only [h2, if_true, Except.ok.injEq, Option.some.injEq] at hu
          subst hu
          -- sorted: `[v, v]` does not start below `r`, so `r` already includes its lower end
          have hi : r.imin = true := by
            cases hm : r.min with
            | none => simp [hm, optVerEq] at h2
            | some m =>
              simp only [hm, optVerEq, eqv_iff] at h2
              have := hmin
              simp only [VRange.minLE, VRange.allowsLower, VRange.allowedMin, RC.view, RC.min, RC.imin, hm] at this
              have l1 : Version.lt v m = false := by rw [lt_false_iff, h2]
              have l2 : Version.gt v m = false := by rw [gt_false_iff, h2]
              simpa [l1, l2] using this
          have : (⟨r.min, r.max, true, r.imax⟩ : VRange) = r := by
            cases r; simp_all
          rw [this]
          exact ⟨hxn, VRange.MinEq.refl r⟩
        · simp only [h2, Bool.false_eq_true, if_false] at hu
          by_cases h3 : optVerEq (some v) r.max = true
          · simp only [h3, if_true, Except.ok.injEq, Option.some.injEq] at hu
            subst hu
            refine ⟨VRange.NE_of_imax (r := ⟨r.min, r.max, r.imin, true⟩) hxw.2 rfl, ?_⟩
            show VRange.MinEq ⟨r.min, r.max, r.imin, true⟩ r
            exact ⟨(VRange.MinEq.refl r).1, rfl⟩
          · simp [h3] at hu

theorem mergeLoop_sepV {B : List Version} (hB : RegB B) : ∀ (l acc : List RC),
    (∀ c ∈ l ++ acc, RegMember B c) →
    l.Pairwise (fun x y => VRange.minLE x.view y.view) → RevChain acc →
    (∀ last, acc.head? = some last → ∀ c ∈ l, VRange.minLE last.view c.view) →
    ∃ res, mergeLoop l acc = .ok res ∧ (∀ c ∈ res, RegMember B c) ∧ ConsecSep res
  | [], acc, hm, _, hc, _ => by
    refine ⟨acc.reverse, rfl, fun c hc' => hm c (by simpa using hc'), revChain_reverse acc hc⟩
  | c :: rest, [], hm, hp, _, _ => by
    simp only [mergeLoop]
    have hp' := List.pairwise_cons.1 hp
    exact mergeLoop_sepV hB rest [c] (fun x hx => hm x (by simp at hx ⊢; grind)) hp'.2 trivial
      (fun last hl x hx => by simp at hl; subst hl; exact hp'.1 x hx)
  | c :: rest, last :: more, hm, hp, hc, hh => by
    have hp' := List.pairwise_cons.1 hp
    have hlm := hm last (by simp)
    have hcm := hm c (by simp)
    have hmin : VRange.minLE last.view c.view := hh last rfl c (by simp)
    have hany := RC.allowsAny_view hB last c hlm.1 hcm.1 hlm.2.2.2 hcm.2.2.2
    simp only [mergeLoop, hany, bind, Except.bind]
    by_cases hb : (!(!(c.view.isStrictlyLower last.view || last.view.isStrictlyLower c.view)) &&
        !(last.view.isAdjacentTo c.view)) = true
    · simp only [hb, if_true]
      simp only [Bool.not_not, Bool.and_eq_true, Bool.or_eq_true, Bool.not_eq_true'] at hb
      have hsl : last.view.isStrictlyLower c.view = true := by
        rcases hb.1 with h | h
        · have := VRange.strict_of_lower_false (RC.view_NE hcm.2.2.1) hmin
          rw [this] at h; cases h
        · exact h
      exact mergeLoop_sepV hB rest (c :: last :: more) (fun x hx => hm x (by simp at hx ⊢; grind)) hp'.2
        ⟨⟨hsl, hb.2⟩, hc⟩ (fun last' hl x hx => by simp at hl; subst hl; exact hp'.1 x hx)
    · simp only [hb, Bool.false_eq_true, if_false]
      have hmerge : (c.view.isStrictlyLower last.view || last.view.isStrictlyLower c.view) = false ∨
          last.view.isAdjacentTo c.view = true := by
        simp only [Bool.not_not, Bool.and_eq_true, Bool.not_eq_true', not_and, Bool.not_eq_false] at hb
        cases h1 : (c.view.isStrictlyLower last.view || last.view.isStrictlyLower c.view)
        · exact Or.inl rfl
        · exact Or.inr (hb h1)
      obtain ⟨u, hu, hum, hme⟩ := mergeStep_spec hB last c hlm hcm hmin hmerge
      simp only [hu]
      refine mergeLoop_sepV hB rest (u :: more) ?_ hp'.2 ?_ ?_
      · intro x hx
        simp only [List.mem_append, List.mem_cons] at hx
        rcases hx with hx | rfl | hx
        · exact hm x (by simp [hx])
        · exact hum
        · exact hm x (by simp [hx])
      · cases more with
        | nil => trivial
        | cons x more' =>
          refine ⟨⟨?_, ?_⟩, hc.2⟩
          · rw [VRange.sl_congr hme]; exact hc.1.1
          · rw [VRange.adj_congr hme]; exact hc.1.2
      · intro last' hl x hx
        simp at hl; subst hl
        show x.view.allowsLower u.view = false
        rw [VRange.allowsLower_congr_right hme]
        exact hh last rfl x (by simp [hx])

/-- **`VersionUnion.of` on members whose bounds are mutually regular and not local builds** (`Version` members
allowed): total; the result is a well-formed constraint — members well-formed and inhabited, sorted, consecutive
ones separated — over bounds of the inputs, and admits a regular probe iff some input does -/
theorem unionOfFlat_reg {B : List Version} (hB : RegB B) (l : List RC) (hm : ∀ c ∈ l, RegMember B c) :
    ∃ res, unionOfFlat l = .ok res ∧ res.WF ∧ (∀ c ∈ res.flatten, RegMember B c) ∧
      ∀ p, p.wf = true → Regular (boundsOf l) p → res.allowsPlain p = anyAllows l p := by
  have hg : Good l := fun c hc => ⟨(hm c hc).1, (hm c hc).2.1⟩
  have hex : ∃ res, unionOfFlat l = .ok res ∧ res.WF ∧ (∀ c ∈ res.flatten, RegMember B c) := by
    unfold unionOfFlat
    by_cases h1 : l.isEmpty = true
    · exact ⟨.empty, by simp [h1], trivial, by simp [VC.flatten]⟩
    · by_cases h2 : l.any RC.isAny = true
      · refine ⟨VC.any, by simp [h1, h2], ?_, ?_⟩
        · refine ⟨⟨by intro e he; simp [VRange.bounds, VRange.any] at he, by intro m M hm'; simp [VRange.any] at hm'⟩, ?_⟩
          show VRange.any.isStrictlyLower VRange.any = false
          simp [VRange.isStrictlyLower, VRange.any, VRange.allowedMax]
        · intro c hc
          simp only [VC.any, VC.flatten, List.mem_singleton] at hc
          subst hc
          refine ⟨⟨by intro e he; simp [VRange.bounds, VRange.any] at he, by intro m M hm'; simp [VRange.any] at hm'⟩,
            ⟨fun _ => rfl, fun _ => rfl⟩, ?_, by intro e he; simp [RC.bounds, RC.view, VRange.bounds, VRange.any, RC.min, RC.max] at he⟩
          show VRange.any.isStrictlyLower VRange.any = false
          simp [VRange.isStrictlyLower, VRange.any, VRange.allowedMax]
      · have hs := sortRCs_sorted l
        have hp : (sortRCs l).Pairwise (fun x y => VRange.minLE x.view y.view) :=
          hs.1.imp (fun {x y} hxy => VRange.minLE_of_cmp (by
            rw [← RC.lt_iff_cmp]; simp [hxy]))
        obtain ⟨merged, hmer, hmem, hsep⟩ := mergeLoop_sepV hB (sortRCs l) []
          (fun c hc => hm c (by simpa [mem_sortRCs] using hc)) hp trivial (fun last hl => by simp at hl)
        have hne : merged ≠ [] := mergeLoop_ne_nil _ _ _ hmer (by
          simp only [List.append_nil]
          intro e
          have : l = [] := by
            cases l with
            | nil => rfl
            | cons a as =>
              have : a ∈ sortRCs (a :: as) := (mem_sortRCs a _).2 (by simp)
              rw [e] at this; simp at this
          simp [this] at h1)
        simp only [h1, h2, Bool.false_eq_true, if_false, hmer, bind, Except.bind]
        cases merged with
        | nil => exact absurd rfl hne
        | cons a as =>
          cases as with
          | nil =>
            exact ⟨.single a, rfl, ⟨(hmem a (by simp)).1, (hmem a (by simp)).2.2.1⟩,
              fun c hc => hmem c (by simpa [VC.flatten] using hc)⟩
          | cons b bs =>
            refine ⟨.union (a :: b :: bs), rfl, ⟨by simp, fun c hc => ⟨(hmem c hc).1, (hmem c hc).2.2.1⟩, ?_, hsep⟩,
              fun c hc => hmem c (by simpa [VC.flatten] using hc)⟩
            exact consecSep_sorted _ (fun c hc => (hmem c hc).2.2.1) hsep
  obtain ⟨res, hres, hwf, hmem⟩ := hex
  exact ⟨res, hres, hwf, hmem, (unionOfFlat_sem l res hres hg).2.2⟩

/-- regular members, sorted: the hypotheses of the theorems about `VersionUnion.allows` hold -/
theorem unionOK_of_reg {B : List Version} (hB : RegB B) (rs : List RC) (hm : ∀ c ∈ rs, RegMember B c)
    (hs : SortedRC rs) : UnionOK rs ∧ NoLocal (boundsOf rs) := by
  have hsub : ∀ e ∈ boundsOf rs, e ∈ B := by
    intro e he
    simp only [boundsOf, List.mem_flatMap] at he
    obtain ⟨c, hc, hce⟩ := he
    exact (hm c hc).2.2.2 e hce
  exact ⟨⟨fun c hc => ⟨(hm c hc).1, (hm c hc).2.1, (hm c hc).2.2.1⟩, hs,
    fun x hx y hy => hB.reg x (hsub x hx) y (hsub y hy)⟩, fun e he => hB.noloc e (hsub e he)⟩

/-- a well-formed constraint over regular members: `allows` never raises and is the disjunction over the members -/
theorem VC.allows_of_reg {B : List Version} (hB : RegB B) (c : VC) (hwf : c.WF)
    (hm : ∀ x ∈ c.flatten, RegMember B x) (v : Version) : c.allows v = .ok (c.allowsPlain v) := by
  cases c with
  | empty => rfl
  | single x => simp [VC.allows, VC.allowsPlain, VC.flatten]
  | union rs =>
    obtain ⟨hok, hN⟩ := unionOK_of_reg hB rs hm hwf.2.2.1
    exact union_allows_total rs hok hN v

end Poetry
