/-
`ReparseNames` holds: the text `_merge_python_version_single_markers` re-parses (the merged
`python_full_version` marker, renamed with `str.replace` and re-padded) is, when it parses as one item at all,
an item on `python_version` or `python_full_version`.

Two halves: (i) where an `item` the recogniser reads sits in the text (its name is a prefix, after blanks, of the
text for `name op "value"`, and is followed by blanks only up to the end for `"value" op name`), (ii) what the
rewritten text looks like at its two ends.
-/
import PoetryVerif.Proofs.MarkerProjNames

set_option linter.unusedSimpArgs false
set_option linter.unusedVariables false

namespace Poetry.Marker
open Poetry

/-! ### where the recogniser's item sits in the text -/

def AllWs (r : List Char) : Prop := ∀ c ∈ r, c = ' ' ∨ c = '\t'

theorem skipWs_split (s : List Char) : ∃ ws, AllWs ws ∧ s = ws ++ skipWs s := by
  induction s with
  | nil => exact ⟨[], by simp [AllWs], by simp [skipWs]⟩
  | cons c cs ih =>
    obtain ⟨ws, hws, hs⟩ := ih
    by_cases h1 : c = ' '
    · subst h1
      refine ⟨' ' :: ws, ?_, ?_⟩
      · intro d hd
        rcases List.mem_cons.1 hd with rfl | hd
        · exact Or.inl rfl
        · exact hws d hd
      · rw [skipWs]; simpa using hs
    by_cases h2 : c = '\t'
    · subst h2
      refine ⟨'\t' :: ws, ?_, ?_⟩
      · intro d hd
        rcases List.mem_cons.1 hd with rfl | hd
        · exact Or.inr rfl
        · exact hws d hd
      · rw [skipWs]; simpa using hs
    · refine ⟨[], by simp [AllWs], ?_⟩
      rw [skipWs]
      · rfl
      · intro cs' h; cases h; exact h1 rfl
      · intro cs' h; cases h; exact h2 rfl

theorem allWs_of_skipWs_empty (r : List Char) (h : (skipWs r).isEmpty = true) : AllWs r := by
  obtain ⟨ws, hws, hs⟩ := skipWs_split r
  have : skipWs r = [] := by simpa using h
  rw [this, List.append_nil] at hs
  rw [hs]; exact hws

theorem stripPrefix_some (p s r : List Char) (h : stripPrefix? p s = some r) : s = p ++ r := by
  induction p generalizing s with
  | nil => simp [stripPrefix?] at h; simp [h]
  | cons a p ih =>
    cases s with
    | nil => simp [stripPrefix?] at h
    | cons c cs =>
      simp only [stripPrefix?] at h
      split at h
      · rename_i hac
        have : a = c := by simpa using hac
        subst this
        rw [ih cs h]; rfl
      · cases h

theorem matchWord_some (ws : List String) (s : List Char) (w : String) (r : List Char)
    (h : matchWord ws s = some (w, r)) : w ∈ ws ∧ s = w.toList ++ r := by
  induction ws with
  | nil => simp [matchWord] at h
  | cons x xs ih =>
    simp only [matchWord] at h
    split at h
    · rename_i r' hr'
      cases h
      exact ⟨by simp, stripPrefix_some _ _ _ hr'⟩
    · obtain ⟨a, b⟩ := ih h
      exact ⟨by simp [a], b⟩

theorem singleQuoted_suffix (cs : List Char) (v r : List Char) (h : singleQuoted cs = some (v, r)) :
    ∃ pre, cs = pre ++ r := by
  induction cs generalizing v with
  | nil => simp [singleQuoted] at h
  | cons c cs ih =>
    by_cases hc : c = '\''
    · subst hc
      simp [singleQuoted] at h
      exact ⟨['\''], by simp [h.2]⟩
    · rw [singleQuoted] at h
      · split at h
        · rename_i v' r' hq
          cases h
          obtain ⟨pre, hp⟩ := ih _ hq
          exact ⟨c :: pre, by simp [hp]⟩
        · cases h
      · intro hr; exact hc hr

theorem escapedQuoted_suffix (cs : List Char) : ∀ (b : Bool) (v r : List Char),
    escapedQuoted b cs = some (v, r) → ∃ pre, cs = pre ++ r := by
  induction cs with
  | nil => intro b v r h; simp [escapedQuoted] at h
  | cons c cs ih =>
    intro b v r h
    by_cases h1 : c = '\n'
    · subst h1; simp [escapedQuoted] at h
    by_cases h2 : c = '"'
    · subst h2
      simp only [escapedQuoted] at h
      split at h
      · split at h
        · rename_i v' r' hq
          cases h
          obtain ⟨pre, hp⟩ := ih _ _ _ hq
          exact ⟨'"' :: pre, by simp [hp]⟩
        · cases h
      · cases h
        exact ⟨['"'], rfl⟩
    by_cases h3 : c = '\\'
    · subst h3
      simp only [escapedQuoted] at h
      split at h
      · rename_i v' r' hq
        cases h
        obtain ⟨pre, hp⟩ := ih _ _ _ hq
        exact ⟨'\\' :: pre, by simp [hp]⟩
      · cases h
    · rw [escapedQuoted] at h
      · split at h
        · rename_i v' r' hq
          cases h
          obtain ⟨pre, hp⟩ := ih _ _ _ hq
          exact ⟨c :: pre, by simp [hp]⟩
        · cases h
      all_goals (intros; simp_all)

theorem markerValue_suffix (s : List Char) (v : String) (r : List Char) (h : markerValue s = some (v, r)) :
    ∃ pre, s = pre ++ r := by
  unfold markerValue at h
  split at h
  · rename_i r0
    simp only [Option.map_eq_some_iff] at h
    obtain ⟨⟨v', r'⟩, hq, he⟩ := h
    cases he
    obtain ⟨pre, hp⟩ := singleQuoted_suffix _ _ _ hq
    exact ⟨'\'' :: pre, by simp [hp]⟩
  · rename_i r0
    simp only [Option.map_eq_some_iff] at h
    obtain ⟨⟨v', r'⟩, hq, he⟩ := h
    cases he
    obtain ⟨pre, hp⟩ := escapedQuoted_suffix _ _ _ _ hq
    exact ⟨'"' :: pre, by simp [hp]⟩
  · cases h

/-- the item the recogniser reads at `s`: for `name op "value"` the text starts with the name, for
`"value" op name` the name is what precedes the rest -/
theorem parseItem_shape (s : List Char) (a : Atom) (r3 : List Char) (h : parseItem s = some (a, r3)) :
    ∃ n op v sw, a = .item n op v sw ∧ n ∈ names ∧
      (sw = false → markerValue s = none ∧ ∃ t, s = n.toList ++ t) ∧
      (sw = true → (markerValue s).isSome = true ∧ ∃ pre, s = pre ++ n.toList ++ r3) := by
  unfold parseItem at h
  split at h
  · rename_i v r hv
    split at h
    · rename_i op r2 hop
      split at h
      · rename_i n r3' hn
        cases h
        obtain ⟨hmem, hs3⟩ := matchWord_some _ _ _ _ hn
        obtain ⟨_, hs2⟩ := matchWord_some _ _ _ _ hop
        obtain ⟨pre, hp⟩ := markerValue_suffix _ _ _ hv
        obtain ⟨w1, _, hw1⟩ := skipWs_split r
        obtain ⟨w2, _, hw2⟩ := skipWs_split r2
        refine ⟨n, op, v, true, rfl, hmem, by simp, fun _ => ⟨by simp [hv], pre ++ w1 ++ op.toList ++ w2, ?_⟩⟩
        rw [hp, hw1, hs2, hw2, hs3]
        simp
      · cases h
    · cases h
  · rename_i hv
    split at h
    · rename_i n r hn
      split at h
      · rename_i op r2 hop
        split at h
        · rename_i v r3' hv2
          cases h
          obtain ⟨hmem, hs⟩ := matchWord_some _ _ _ _ hn
          exact ⟨n, op, v, false, rfl, hmem, fun _ => ⟨hv, r, hs⟩, by simp⟩
        · cases h
      · cases h
    · cases h

/-- a text that parses as exactly one item -/
theorem parseText_one_item (text : String) (n op v : String) (sw : Bool)
    (h : parseText text = .ok (.one (.item n op v sw))) :
    ∃ ws s r3, AllWs ws ∧ AllWs r3 ∧ text.toList = ws ++ s ∧ n ∈ names ∧
      (sw = false → markerValue s = none ∧ ∃ t, s = n.toList ++ t) ∧
      (sw = true → (markerValue s).isSome = true ∧ ∃ pre, s = pre ++ n.toList ++ r3) := by
  unfold parseText at h
  simp only at h
  split at h
  · rename_i m r hps
    split at h
    · rename_i hr
      cases h
      generalize 2 * text.toList.length + 2 = fuel at hps
      cases fuel with
      | zero => simp [parseSyn] at hps
      | succ f =>
        rw [parseSyn] at hps
        split at hps
        · cases hps
        · rename_i a r' hpa
          split at hps
          · split at hps <;> cases hps
          · cases hps
            cases f with
            | zero => simp [parseAtom] at hpa
            | succ g =>
              rw [parseAtom] at hpa
              split at hpa
              · split at hpa
                · split at hpa <;> cases hpa
                · cases hpa
              · rename_i s' hs'
                obtain ⟨ws, hws, hsplit⟩ := skipWs_split text.toList
                obtain ⟨n', op', v', sw', ha, hmem, h1, h2⟩ := parseItem_shape _ _ _ hpa
                cases ha
                exact ⟨ws, _, _, hws, allWs_of_skipWs_empty _ hr, hsplit, hmem, h1, h2⟩
    · cases h
  · cases h

/-! ### the two ends of the rewritten text -/

def pfvL : List Char := ['p','y','t','h','o','n','_','f','u','l','l','_','v','e','r','s','i','o','n']
def pvL : List Char := ['p','y','t','h','o','n','_','v','e','r','s','i','o','n']

theorem pfvL_eq : "python_full_version".toList = pfvL := by decide
theorem pvL_eq : "python_version".toList = pvL := by decide

/-- `str.replace` does not shorten a text below the length of the replacement -/
theorem replaceAux_len (pat rep : List Char) (k : Nat) (hk : k ≤ rep.length) :
    ∀ (fuel : Nat) (s : List Char), k ≤ s.length → k ≤ (replaceAux pat rep fuel s).length := by
  induction k with
  | zero => intros; omega
  | succ k ih =>
    intro fuel
    induction fuel with
    | zero => intro s hs; simpa [replaceAux] using hs
    | succ f ihf =>
      intro s hs
      cases s with
      | nil => simp at hs
      | cons c cs =>
        rw [replaceAux]
        split
        · exact hs
        · split
          · simp only [List.length_append]; omega
          · simp only [List.length_cons]
            have := ih (by omega) f cs (by simpa using hs)
            omega

/-- the text of a `name op "value"` marker on `python_full_version` after `str.replace` -/
theorem replace_pfv_head (Y : List Char) (f : Nat) :
    replaceAux pfvL pvL (f + 2) (pfvL ++ ' ' :: Y) = pvL ++ ' ' :: replaceAux pfvL pvL f Y := by
  simp [replaceAux, pfvL, pvL, stripPrefix?]

theorem replace_quote_head (Z : List Char) (f : Nat) :
    replaceAux pfvL pvL (f + 1) ('"' :: Z) = '"' :: replaceAux pfvL pvL f Z := by
  simp [replaceAux, pfvL, pvL, stripPrefix?]

theorem replace_squote_head (Z : List Char) (f : Nat) :
    replaceAux pfvL pvL (f + 1) ('\'' :: Z) = '\'' :: replaceAux pfvL pvL f Z := by
  simp [replaceAux, pfvL, pvL, stripPrefix?]

/-- the last character of `str.replace(…)` is the last character of the text, when that is not the end of
an occurrence -/
theorem replaceAux_getLast (fuel : Nat) : ∀ (s : List Char) (c : Char), c ≠ 'n' →
    ∃ t, replaceAux pfvL pvL fuel (s ++ [c]) = t ++ [c] := by
  induction fuel with
  | zero => intro s c _; exact ⟨s, by simp [replaceAux]⟩
  | succ f ih =>
    intro s c hc
    cases s with
    | nil =>
      refine ⟨[], ?_⟩
      simp only [List.nil_append]
      rw [replaceAux]
      have : stripPrefix? pfvL [c] = none := by simp [pfvL, stripPrefix?]
      have hne : pfvL.isEmpty = false := by simp [pfvL]
      simp only [hne, Bool.false_eq_true, if_false, this]
      cases f <;> simp [replaceAux]
    | cons d ds =>
      simp only [List.cons_append]
      rw [replaceAux]
      have hne : pfvL.isEmpty = false := by simp [pfvL]
      simp only [hne, Bool.false_eq_true, if_false]
      split
      · rename_i rest hrest
        -- the rest still ends with `c`
        have hs := stripPrefix_some _ _ _ hrest
        have : ∃ r', rest = r' ++ [c] := by
          rcases List.eq_nil_or_concat rest with hnil | ⟨r', d', hr'⟩
          · subst hnil
            rw [List.append_nil] at hs
            have h1 := congrArg List.getLast? hs
            rw [show d :: (ds ++ [c]) = (d :: ds) ++ [c] by simp, List.getLast?_concat] at h1
            simp [pfvL] at h1
            exact absurd h1 hc
          · refine ⟨r', ?_⟩
            rw [List.concat_eq_append] at hr'
            subst hr'
            have h1 := congrArg List.getLast? hs
            rw [show d :: (ds ++ [c]) = (d :: ds) ++ [c] by simp, List.getLast?_concat] at h1
            rw [show pfvL ++ (r' ++ [d']) = (pfvL ++ r') ++ [d'] by simp, List.getLast?_concat] at h1
            simp at h1
            simp [h1]
        obtain ⟨r', hr'⟩ := this
        obtain ⟨t, ht⟩ := ih r' c hc
        rw [hr', ht]
        exact ⟨pvL ++ t, by simp⟩
      · obtain ⟨t, ht⟩ := ih ds c hc
        rw [ht]
        exact ⟨d :: t, by simp⟩

theorem dropRight_toList (s : String) (k : Nat) : (dropRight s k).toList = s.toList.take (s.toList.length - k) := by
  simp [dropRight, String.length_toList]

/-- the three forms of the rewritten text -/
theorem pyRewrite_shape (ms : Single) :
    (pyRewrite ms).toList = (leafText ms.name ms.op ms.value ms.swapped).toList ∨
    ∃ s1 k zs, (s1 = (leafText ms.name ms.op ms.value ms.swapped).toList ∨
        s1 = replaceAux pfvL pvL ((leafText ms.name ms.op ms.value ms.swapped).toList.length + 1)
              (leafText ms.name ms.op ms.value ms.swapped).toList) ∧ k ≤ 3 ∧
      (pyRewrite ms).toList = s1.take (s1.length - k) ++ zs ++ ['"'] := by
  unfold pyRewrite
  simp only
  split
  · right
    split
    · refine ⟨_, 1, (String.join (List.replicate (2 - (countChar '.' (leafText ms.name ms.op ms.value ms.swapped) + 1)) ".0")).toList, Or.inr rfl, by omega, ?_⟩
      simp only [String.toList_append, dropRight_toList, strReplace, String.toList_ofList, pfvL_eq, pvL_eq,
        String.length_toList]
      rfl
    · refine ⟨_, 1, (String.join (List.replicate (3 - (countChar '.' (leafText ms.name ms.op ms.value ms.swapped) + 1)) ".0")).toList, Or.inl rfl, by omega, ?_⟩
      simp only [String.toList_append, dropRight_toList]
      rfl
  · split
    · right
      refine ⟨_, 3, [], Or.inr rfl, by omega, ?_⟩
      simp only [String.toList_append, dropRight_toList, strReplace, String.toList_ofList, pfvL_eq, pvL_eq,
        String.length_toList, List.append_nil]
      rfl
    · left; rfl

theorem take_keep (A B : List Char) (k : Nat) (hk : k ≤ B.length) :
    (A ++ B).take ((A ++ B).length - k) = A ++ B.take (B.length - k) := by
  rw [List.take_append]
  have h1 : (A ++ B).length - k = A.length + (B.length - k) := by simp; omega
  rw [h1, List.take_of_length_le (by omega)]
  congr 2
  omega

theorem ws_nil (ws s T : List Char) (c : Char) (hT : c :: T = ws ++ s) (hws : AllWs ws)
    (h1 : c ≠ ' ') (h2 : c ≠ '\t') : ws = [] := by
  cases ws with
  | nil => rfl
  | cons d ds =>
    simp only [List.cons_append, List.cons.injEq] at hT
    rcases hws d (by simp) with h | h
    · exact absurd (hT.1.trans h) h1
    · exact absurd (hT.1.trans h) h2

/-! ### the names that fit -/

theorem names_prefix_pv : Marker.names.all (fun n =>
    !(n.toList.isPrefixOf (pvL ++ [' ']) || (pvL ++ [' ']).isPrefixOf n.toList) || n == "python_version") = true := by
  decide

theorem names_prefix_pfv : Marker.names.all (fun n =>
    !(n.toList.isPrefixOf (pfvL ++ [' ']) || (pfvL ++ [' ']).isPrefixOf n.toList) || n == "python_full_version") = true := by
  decide

theorem names_suffix_pfv : Marker.names.all (fun n =>
    !(n.toList.isSuffixOf pfvL || pfvL.isSuffixOf n.toList) || n == "python_full_version") = true := by
  decide

theorem names_last : Marker.names.all (fun n =>
    n.toList.getLast? != some '"' && n.toList.getLast? != some ' ' && n.toList.getLast? != some '\t' &&
    n.toList.getLast? != none && n.toList.head? != some '"' && n.toList.head? != none) = true := by
  decide

theorem names_head_sq : Marker.names.all (fun n => n.toList.head? != some '\'') = true := by
  decide

/-- the two quote characters of `_quoted` -/
def IsQ (q : Char) : Prop := q = '"' ∨ q = '\''

theorem quoteOf_toList (v : String) : ∃ q, IsQ q ∧ (quoteOf v).toList = [q] := by
  rcases quoteOf_cases v with h | h
  · exact ⟨'"', Or.inl rfl, by rw [h]; decide⟩
  · exact ⟨'\'', Or.inr rfl, by rw [h]; decide⟩

/-- a text `P ␣ …` with `P` one of the two python names, read as one item, is an item on `P` -/
theorem parseText_prefix (text : String) (P : List Char) (W : List Char) (nm : String)
    (hP : (P = pvL ∧ nm = "python_version") ∨ (P = pfvL ∧ nm = "python_full_version"))
    (hT : text.toList = P ++ ' ' :: W) (n op v : String) (sw : Bool)
    (h : parseText text = .ok (.one (.item n op v sw))) : n = nm := by
  obtain ⟨ws, s, r3, hws, hr3, hsplit, hmem, h1, h2⟩ := parseText_one_item _ _ _ _ _ h
  have hp : ∃ T', text.toList = 'p' :: T' := by
    rcases hP with ⟨rfl, _⟩ | ⟨rfl, _⟩ <;> exact ⟨_, by rw [hT]; rfl⟩
  obtain ⟨T', hT'⟩ := hp
  have hwn : ws = [] := ws_nil ws s T' 'p' (by rw [← hT', hsplit]) hws (by decide) (by decide)
  subst hwn
  simp only [List.nil_append] at hsplit
  cases sw with
  | true =>
    have := (h2 rfl).1
    rw [← hsplit, hT'] at this
    simp [markerValue] at this
  | false =>
    obtain ⟨_, t, ht⟩ := h1 rfl
    have hpre1 : n.toList <+: text.toList := ⟨t, by rw [hsplit, ht]⟩
    have hpre2 : (P ++ [' ']) <+: text.toList := ⟨W, by rw [hT]; simp⟩
    have hor := List.prefix_or_prefix_of_prefix hpre1 hpre2
    rcases hP with ⟨rfl, rfl⟩ | ⟨rfl, rfl⟩
    · have := List.all_eq_true.1 names_prefix_pv n hmem
      simp only [Bool.or_eq_true, Bool.not_eq_true', Bool.or_eq_false_iff, beq_iff_eq] at this
      rcases this with ⟨a, b⟩ | this
      · rcases hor with hor | hor
        · rw [← List.isPrefixOf_iff_prefix] at hor; rw [hor] at a; cases a
        · rw [← List.isPrefixOf_iff_prefix] at hor; rw [hor] at b; cases b
      · exact this
    · have := List.all_eq_true.1 names_prefix_pfv n hmem
      simp only [Bool.or_eq_true, Bool.not_eq_true', Bool.or_eq_false_iff, beq_iff_eq] at this
      rcases this with ⟨a, b⟩ | this
      · rcases hor with hor | hor
        · rw [← List.isPrefixOf_iff_prefix] at hor; rw [hor] at a; cases a
        · rw [← List.isPrefixOf_iff_prefix] at hor; rw [hor] at b; cases b
      · exact this

/-- a text `"… L` read as one item: the item is `"value" op name`, and the name ends the text when the text does
not end with a blank -/
theorem parseText_quoted (text : String) (A : List Char) (c : Char) (hc1 : c ≠ ' ') (hc2 : c ≠ '\t')
    (q : Char) (hq : IsQ q)
    (hT : text.toList = q :: (A ++ [c])) (n op v : String) (sw : Bool)
    (h : parseText text = .ok (.one (.item n op v sw))) : n.toList <:+ text.toList := by
  obtain ⟨ws, s, r3, hws, hr3, hsplit, hmem, h1, h2⟩ := parseText_one_item _ _ _ _ _ h
  have hwn : ws = [] := ws_nil ws s _ q (by rw [← hT, hsplit]) hws
    (by rcases hq with rfl | rfl <;> decide) (by rcases hq with rfl | rfl <;> decide)
  subst hwn
  simp only [List.nil_append] at hsplit
  have hnl := List.all_eq_true.1 names_last n hmem
  simp only [Bool.and_eq_true, bne_iff_ne, ne_eq] at hnl
  have hsq := List.all_eq_true.1 names_head_sq n hmem
  simp only [bne_iff_ne, ne_eq] at hsq
  cases sw with
  | false =>
    obtain ⟨_, t, ht⟩ := h1 rfl
    exfalso
    have hh : text.toList.head? = n.toList.head? := by
      rw [hsplit, ht]
      cases hn : n.toList with
      | nil => exact absurd (by rw [hn]; rfl) hnl.2
      | cons a as => rfl
    rw [hT] at hh
    rcases hq with rfl | rfl
    · exact hnl.1.2 hh.symm
    · exact hsq hh.symm
  | true =>
    obtain ⟨_, pre, hpre⟩ := h2 rfl
    have hr3n : r3 = [] := by
      rcases List.eq_nil_or_concat r3 with hnil | ⟨r', d, hr'⟩
      · exact hnil
      · exfalso
        rw [List.concat_eq_append] at hr'
        have hl := congrArg List.getLast? (hsplit.symm.trans hT)
        rw [hpre, hr', show pre ++ n.toList ++ (r' ++ [d]) = (pre ++ n.toList ++ r') ++ [d] by simp,
          List.getLast?_concat, show q :: (A ++ [c]) = (q :: A) ++ [c] by simp, List.getLast?_concat] at hl
        have hd : d = c := by simpa using hl
        rcases hr3 d (by rw [hr']; simp) with h | h
        · exact hc1 (hd ▸ h)
        · exact hc2 (hd ▸ h)
    subst hr3n
    exact ⟨pre, by rw [hsplit, hpre]; simp⟩

/-- the name of the item the rewritten text is read as -/
theorem reparse_name (ms : Single) (hname : ms.name = "python_full_version") (n op v : String) (sw : Bool)
    (h : parseText (pyRewrite ms) = .ok (.one (.item n op v sw))) :
    n = "python_version" ∨ n = "python_full_version" := by
  have hq1 : ("\"" : String).toList = ['"'] := by decide
  have hq2 : (" \"" : String).toList = [' ', '"'] := by decide
  have hq3 : ("\" " : String).toList = ['"', ' '] := by decide
  have hsp : (" " : String).toList = [' '] := by decide
  obtain ⟨q, hq, hqv⟩ := quoteOf_toList ms.value
  cases hsw : ms.swapped with
  | false =>
    have hstr : (leafText ms.name ms.op ms.value ms.swapped).toList =
        pfvL ++ ' ' :: (ms.op.toList ++ ' ' :: q :: (ms.value.toList ++ [q])) := by
      simp [leafText, hsw, hname, String.toList_append, hqv, hsp, pfvL_eq, pfvL]
    generalize hY : ms.op.toList ++ ' ' :: q :: (ms.value.toList ++ [q]) = Y at hstr
    have hYl : 3 ≤ Y.length := by rw [← hY]; simp; omega
    rcases pyRewrite_shape ms with hT | ⟨s1, k, zs, hs1, hk, hT⟩
    · rw [hstr] at hT
      exact Or.inr (parseText_prefix _ pfvL _ _ (Or.inr ⟨rfl, rfl⟩) hT _ _ _ _ h)
    · rcases hs1 with hs1 | hs1
      · rw [hstr] at hs1
        have hk' := take_keep (pfvL ++ [' ']) Y k (by omega)
        have hs1' : s1 = (pfvL ++ [' ']) ++ Y := by rw [hs1]; simp
        rw [hs1', hk'] at hT
        exact Or.inr (parseText_prefix _ pfvL (Y.take (Y.length - k) ++ zs ++ ['"']) _ (Or.inr ⟨rfl, rfl⟩)
          (by rw [hT]; simp) _ _ _ _ h)
      · rw [hstr] at hs1
        have hlen : (pfvL ++ ' ' :: Y).length + 1 = (Y.length + 19) + 2 := by simp [pfvL] <;> omega
        rw [hlen, replace_pfv_head] at hs1
        generalize hY' : replaceAux pfvL pvL (Y.length + 19) Y = Y' at hs1
        have hY'l : 3 ≤ Y'.length := by
          rw [← hY']; exact replaceAux_len _ _ 3 (by simp [pvL]) _ _ hYl
        have hk' := take_keep (pvL ++ [' ']) Y' k (by omega)
        have hs1' : s1 = (pvL ++ [' ']) ++ Y' := by rw [hs1]; simp
        rw [hs1', hk'] at hT
        exact Or.inl (parseText_prefix _ pvL (Y'.take (Y'.length - k) ++ zs ++ ['"']) _ (Or.inl ⟨rfl, rfl⟩)
          (by rw [hT]; simp) _ _ _ _ h)
  | true =>
    have hstr : (leafText ms.name ms.op ms.value ms.swapped).toList =
        q :: ((ms.value.toList ++ q :: ' ' :: (ms.op.toList ++ ' ' ::
          ['p','y','t','h','o','n','_','f','u','l','l','_','v','e','r','s','i','o'])) ++ ['n']) := by
      simp [leafText, hsw, hname, String.toList_append, hqv, hsp, pfvL_eq, pfvL]
    generalize hA : (ms.value.toList ++ q :: ' ' :: (ms.op.toList ++ ' ' ::
          ['p','y','t','h','o','n','_','f','u','l','l','_','v','e','r','s','i','o'])) = A at hstr
    have hAl : 3 ≤ A.length := by rw [← hA]; simp; omega
    have hmem : n ∈ names := by
      obtain ⟨_, _, _, _, _, _, hm, _⟩ := parseText_one_item _ _ _ _ _ h
      exact hm
    rcases pyRewrite_shape ms with hT | ⟨s1, k, zs, hs1, hk, hT⟩
    · rw [hstr] at hT
      have hsuf := parseText_quoted _ A 'n' (by decide) (by decide) q hq hT _ _ _ _ h
      have hsuf2 : pfvL <:+ (pyRewrite ms).toList := by
        rw [hT, ← hA]
        exact ⟨q :: (ms.value.toList ++ q :: ' ' :: (ms.op.toList ++ [' '])), by simp [pfvL]⟩
      have hor := List.suffix_or_suffix_of_suffix hsuf hsuf2
      have := List.all_eq_true.1 names_suffix_pfv n hmem
      simp only [Bool.or_eq_true, Bool.not_eq_true', Bool.or_eq_false_iff, beq_iff_eq] at this
      rcases this with ⟨a, b⟩ | this
      · rcases hor with hor | hor
        · rw [← List.isSuffixOf_iff_suffix] at hor; rw [hor] at a; cases a
        · rw [← List.isSuffixOf_iff_suffix] at hor; rw [hor] at b; cases b
      · exact Or.inr this
    · exfalso
      -- the text is `"…"`: no name ends it
      have hs1q : ∃ Z', s1 = [q] ++ Z' ∧ 3 ≤ Z'.length := by
        rcases hs1 with hs1 | hs1
        · exact ⟨A ++ ['n'], by rw [hs1, hstr]; rfl, by simp; omega⟩
        · rw [hstr] at hs1
          have hlen : (q :: (A ++ ['n'])).length + 1 = (A.length + 2) + 1 := by simp
          rw [hlen] at hs1
          rcases hq with rfl | rfl
          · rw [replace_quote_head] at hs1
            exact ⟨_, by rw [hs1]; rfl, replaceAux_len _ _ 3 (by simp [pvL]) _ _ (by simp; omega)⟩
          · rw [replace_squote_head] at hs1
            exact ⟨_, by rw [hs1]; rfl, replaceAux_len _ _ 3 (by simp [pvL]) _ _ (by simp; omega)⟩
      obtain ⟨Z', hs1', hZ'⟩ := hs1q
      have hk' := take_keep [q] Z' k (by omega)
      rw [hs1', hk'] at hT
      have hT' : (pyRewrite ms).toList = q :: ((Z'.take (Z'.length - k) ++ zs) ++ ['"']) := by
        rw [hT]; simp
      have hsuf := parseText_quoted _ _ '"' (by decide) (by decide) q hq hT' _ _ _ _ h
      have hnl := List.all_eq_true.1 names_last n hmem
      simp only [Bool.and_eq_true, bne_iff_ne, ne_eq] at hnl
      obtain ⟨pre, hpre⟩ := hsuf
      have hl := congrArg List.getLast? hpre
      rw [hT', show q :: ((Z'.take (Z'.length - k) ++ zs) ++ ['"']) =
        (q :: (Z'.take (Z'.length - k) ++ zs)) ++ ['"'] by simp, List.getLast?_concat, List.getLast?_append] at hl
      cases hg : n.toList.getLast? with
      | none => exact hnl.1.1.2 hg
      | some x =>
        rw [hg] at hl
        simp at hl
        exact hnl.1.1.1.1.1 (by rw [hg, hl])

/-- **`ReparseNames` holds**: re-parsing the rewritten text of a merged `python_full_version` marker gives a
marker on `python_version` or `python_full_version`. -/
theorem reparseNames_holds : ReparseNames := by
  intro ms r hname h
  unfold parseItemMarker at h
  split at h
  · cases h
  · rename_i n op v sw hp
    obtain ⟨s, hs, h2⟩ := bind_ok.1 h
    rw [pure_ok] at h2; subst h2
    simp only [M.good_leaf, PyNamed, Leaf.name]
    rw [mkSingle_name' _ _ _ _ hs]
    rcases reparse_name ms hname n op v sw hp with rfl | rfl
    · exact Or.inl (by decide)
    · exact Or.inr (by decide)
  · cases h

end Poetry.Marker
