/-
The normal-form text (`PEP440Version.to_string`) of every version the parser returns contains no line break
(the `Version` header of PKG-INFO / METADATA is a single line).  On the way: the local label of a parsed version
is made of segments as `LocOK` describes them (lower-case letters and digits, not empty, numeric segments
without leading zeros).
-/
import PoetryVerif.Proofs.VRangeTextV
import PoetryVerif.Proofs.VersionParse
import PoetryVerif.Proofs.Meta

set_option linter.unusedSimpArgs false
set_option linter.unusedVariables false

namespace Poetry.Meta
open Poetry Poetry.Marker Poetry.Version Poetry.Spec Poetry.Spec.Rfc822

/-! ### the characters of a local label segment -/

theorem takeLocalSeg_chars : ∀ (s : List Char), ∀ c ∈ (takeLocalSeg s).1, isLocalChar c = true
  | [], c, hc => by simp [takeLocalSeg] at hc
  | d :: ds, c, hc => by
    have ih := takeLocalSeg_chars ds
    unfold takeLocalSeg at hc
    by_cases hd : isLocalChar d = true
    · generalize hts : takeLocalSeg ds = ts at hc ih
      obtain ⟨seg, rest⟩ := ts
      simp only [hd, if_true, List.mem_cons] at hc
      rcases hc with rfl | hc
      · exact hd
      · exact ih c hc
    · simp [hd] at hc

theorem localSegs_chars (fuel : Nat) (s : List Char) (segs : List String) (r : List Char)
    (h : localSegs fuel s = some (segs, r)) :
    ∀ seg ∈ segs, seg.toList ≠ [] ∧ ∀ c ∈ seg.toList, isLocalChar c = true := by
  induction fuel generalizing s segs r with
  | zero => simp [localSegs] at h
  | succ n ih =>
    unfold localSegs at h
    simp only at h
    have hch := takeLocalSeg_chars s
    generalize hts : takeLocalSeg s = ts at h hch
    obtain ⟨seg, rest⟩ := ts
    simp only at h hch
    by_cases he : seg.isEmpty = true
    · simp [he] at h
    · have hne : seg ≠ [] := by
        intro e; subst e; simp at he
      have hone : ∀ x ∈ [String.ofList seg], x.toList ≠ [] ∧ ∀ c ∈ x.toList, isLocalChar c = true := by
        intro x hx
        simp only [List.mem_singleton] at hx
        subst hx
        simp only [String.toList_ofList]
        exact ⟨hne, hch⟩
      simp only [he] at h
      cases rest with
      | nil => simp at h; obtain ⟨rfl, _⟩ := h; exact hone
      | cons c cs =>
        simp only at h
        by_cases hc : isSep c = true
        · simp only [hc, if_true] at h
          cases hrec : localSegs n cs with
          | none => simp [hrec] at h; obtain ⟨rfl, _⟩ := h; exact hone
          | some pr =>
            obtain ⟨more, r'⟩ := pr
            simp [hrec] at h
            obtain ⟨rfl, _⟩ := h
            have := ih cs more r' hrec
            intro x hx
            simp only [List.mem_cons] at hx
            rcases hx with rfl | hx
            · exact hone _ (by simp)
            · exact this x hx
        · simp [hc] at h; obtain ⟨rfl, _⟩ := h; exact hone

theorem digit_localChar (c : Char) (h : isDigit c = true) : isLocalChar c = true := by simp [isLocalChar, h]

theorem isNumericStr_natToString (n : Nat) : isNumericStr (natToString n) = true := by
  have hne := dg_ne_nil n
  have hd := dg_isDigit n
  unfold dg at hne hd
  simp only [isNumericStr, Bool.and_eq_true, Bool.not_eq_true', List.all_eq_true]
  refine ⟨?_, hd⟩
  cases he : (natToString n).isEmpty with
  | false => rfl
  | true =>
    rw [String.isEmpty_iff] at he
    rw [he] at hne
    exact absurd rfl hne

/-- a segment as `_get_local` stores it -/
theorem normLocalSeg_segOK (s : String) (hne : s.toList ≠ []) (hch : ∀ c ∈ s.toList, isLocalChar c = true) :
    SegOK (normLocalSeg s) := by
  by_cases hn : isNumericStr s = true
  · have e : normLocalSeg s = natToString (digitsToNat s.toList) := by simp [normLocalSeg, hn]
    rw [e]
    refine ⟨dg_ne_nil _, fun c hc => digit_localChar c (dg_isDigit _ c hc), ?_⟩
    have h2 : digitsToNat (natToString (digitsToNat s.toList)).toList = digitsToNat s.toList :=
      digitsToNat_dg _
    simp only [normLocalSeg, isNumericStr_natToString, if_true, h2]
  · have e : normLocalSeg s = s := by simp [normLocalSeg, hn]
    rw [e]
    exact ⟨hne, hch, e⟩

theorem parseLocal_locOK (s : List Char) : LocOK (parseLocal s).1 := by
  unfold parseLocal
  split
  · rename_i cs
    cases h : localSegs (cs.length + 1) cs with
    | none => intro segs hs; simp at hs
    | some pr =>
      obtain ⟨segs, r⟩ := pr
      have hs := localSegs_chars _ cs segs r h
      intro segs' he x hx
      simp only [Option.some.injEq] at he
      subst he
      obtain ⟨y, hy, rfl⟩ := List.mem_map.1 hx
      exact normLocalSeg_segOK y (hs y hy).1 (hs y hy).2
  · intro segs hs; simp at hs

theorem parseBody_locOK (text : String) (s : List Char) (v : Version) (r : List Char)
    (h : parseBody text s = some (v, r)) : LocOK v.loc := by
  unfold parseBody at h
  simp only at h
  cases her : parseEpochRelease (stripV s) with
  | none => rw [her] at h; cases h
  | some tr =>
    obtain ⟨epoch, release, r2⟩ := tr
    rw [her] at h
    simp only [Option.some.injEq, Prod.mk.injEq] at h
    obtain ⟨rfl, _⟩ := h
    exact parseLocal_locOK _

/-- **the local label of a parsed version**: segments of lower-case letters and digits, none empty, numeric
segments without leading zeros -/
theorem parse_locOK (s : String) (v : Version) (h : Version.parse s = .ok v) : LocOK v.loc := by
  unfold Version.parse at h
  simp only at h
  cases hb : parseBody s (dropSpaces (s.toList.map lowerChar)) with
  | none => rw [hb] at h; cases h
  | some pr =>
    obtain ⟨v', rest⟩ := pr
    rw [hb] at h
    simp only at h
    split at h
    · cases h; exact parseBody_locOK _ _ _ _ hb
    · cases h

theorem parse_loc_chars (s : String) (v : Version) (h : Version.parse s = .ok v) :
    ∀ segs, v.loc = some segs → ∀ seg ∈ segs, ∀ c ∈ seg.toList, isLocalChar c = true :=
  fun segs hs seg hseg => (parse_locOK s v h segs hs seg hseg).2.1

/-! ### no line break among the characters of a normal-form text -/

theorem nchar_not_nl (c : Char) (h : nchar c = true) : isNL c = false := by
  have := nchar_toNat c h
  simp only [isNL, Bool.or_eq_false_iff, decide_eq_false_iff_not]
  constructor
  · intro e; subst e; revert this; decide
  · intro e; subst e; revert this; decide

/-- the text `to_string` writes for a version with a non-empty release and a local label as the parser stores it -/
theorem toStr_singleLine (e x : Nat) (r : List Nat) (pre post dev : Option Tag) (loc : Option (List String))
    (hl : LocOK loc) : SingleLine (Version.toStr e (x :: r) pre post dev loc) := by
  have hnc := bodyChars_nchar e x r pre post dev loc hl
  intro c hc
  rw [toStr_toList, map_lower_nchar _ hnc] at hc
  exact nchar_not_nl c (hnc c hc)

/-- every character of the normal-form text of a parsed version is a digit, a lower-case letter, `.`, `!` or `+` -/
theorem parsed_version_toString_nchar (s : String) (v : Version) (h : Version.parse s = .ok v) :
    ∀ c ∈ v.toString.toList, nchar c = true := by
  have hwf := parse_wf s v h
  have hl := parse_locOK s v h
  obtain ⟨e, rel, pre, post, dev, loc, text⟩ := v
  simp only [Version.wf, Bool.and_eq_true, Bool.not_eq_true'] at hwf
  obtain ⟨⟨⟨⟨hrel, _⟩, _⟩, _⟩, _⟩ := hwf
  cases rel with
  | nil => simp at hrel
  | cons x r =>
    have hnc := bodyChars_nchar e x r pre post dev loc hl
    intro c hc
    simp only [Version.toString] at hc
    rw [toStr_toList, map_lower_nchar _ hnc] at hc
    exact hnc c hc

/-- **the normal-form text of every version the parser returns contains no line break** -/
theorem parsed_version_toString_singleLine (s : String) (v : Version) (h : Version.parse s = .ok v) :
    SingleLine v.toString :=
  fun c hc => nchar_not_nl c (parsed_version_toString_nchar s v h c hc)

end Poetry.Meta

section AxiomCheck
open Poetry.Meta
end AxiomCheck
