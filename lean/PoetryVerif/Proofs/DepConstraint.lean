/-
The ` (constraint)` part of a printed registry dependency, class by class, tied to C15's string-level text round
trip (Proofs/VRangeText*.lean): the printed body is a list of spec tokens the requirement recogniser reads back,
and `parse_constraint` of the re-joined tokens is the constraint itself (plain ranges, single versions, `*`) or
an equivalent one (`!=V`).
-/
import PoetryVerif.Proofs.DepRoundtrip
import PoetryVerif.Proofs.VRangeTextU

set_option linter.unusedSimpArgs false
set_option linter.unusedVariables false

namespace Poetry.Dep
open Poetry Poetry.Marker Poetry.Req

theorem vchar_specChar {c : Char} (h : vchar c = true) : isSpecChar c = true := by
  have h1 := vchar_ne c ',' h (by decide)
  have h2 := vchar_ne c ';' h (by decide)
  have h3 := vchar_ne c ')' h (by decide)
  have h4 := vchar_not_space c h
  simp [isSpecChar, h1, h2, h3, h4]

theorem digit_ne_eq {d : Char} (h : isDigit d = true) : d ≠ '=' := digit_ne d '=' h (by decide)

/-- `op ++ text` is a spec token, for the five operators the printers use in front of a version text -/
theorem specTok_op_text {v : Version} (h : TextOK v) (op : List Char)
    (hop : op = ['>', '='] ∨ op = ['>'] ∨ op = ['<', '='] ∨ op = ['<'] ∨ op = ['=', '='] ∨ op = ['!', '=']) :
    SpecTok (op ++ v.text.toList) := by
  obtain ⟨d, ds, hd, hdig⟩ := h.head
  have hde := digit_ne_eq hdig
  have hchars : ∀ c ∈ d :: ds, isSpecChar c = true := by
    intro c hc; rw [← hd] at hc; exact vchar_specChar (h.chars c hc)
  rw [hd]
  rcases hop with rfl | rfl | rfl | rfl | rfl | rfl
  · exact ⟨'>', '=', d :: ds, rfl, ['>', '='], d :: ds, rfl, rfl, by simp, hchars⟩
  · refine ⟨'>', d, ds, rfl, ['>'], d :: ds, ?_, rfl, by simp, hchars⟩
    unfold takeOp; split <;> simp_all
  · exact ⟨'<', '=', d :: ds, rfl, ['<', '='], d :: ds, rfl, rfl, by simp, hchars⟩
  · refine ⟨'<', d, ds, rfl, ['<'], d :: ds, ?_, rfl, by simp, hchars⟩
    unfold takeOp; split <;> simp_all
  · exact ⟨'=', '=', d :: ds, rfl, ['=', '='], d :: ds, rfl, rfl, by simp, hchars⟩
  · exact ⟨'!', '=', d :: ds, rfl, ['!', '='], d :: ds, rfl, rfl, by simp, hchars⟩

theorem removeSpaces_noSpace (l : List Char) (h : ∀ c ∈ l, c ≠ ' ') : removeSpaces (String.ofList l) = String.ofList l := by
  unfold removeSpaces
  rw [String.toList_ofList]
  congr 1
  apply List.filter_eq_self.mpr
  intro c hc
  simpa using h c hc

theorem text_noBlank {v : Version} (h : TextOK v) : ∀ c ∈ v.text.toList, c ≠ ' ' := by
  intro c hc e; subst e
  have := h.noSpace ' ' hc
  simp [isSpace] at this

/-! ### `*` -/

theorem cbody_any (d : Dep) (h : d.constraint.isAny = true) (hs : ∀ v, d.constraint ≠ .single (.ver v))
    (hu : ∀ rs, d.constraint ≠ .union rs) : CBody d [] := by
  refine ⟨"", ?_, rfl, by simp⟩
  unfold constraintSuffix
  cases hc : d.constraint with
  | empty => simp [hc, VC.isAny] at h
  | union rs => exact absurd hc (hu rs)
  | single m =>
    cases m with
    | ver v => exact absurd hc (hs v)
    | rng r => simp [hc] at h ⊢; simp [h]; rfl

/-! ### a plain range -/

/-- the spec tokens of a plain range -/
def rangeToks (r : VRange) : List (List Char) :=
  match r.min, r.max with
  | some mn, some mx => [loOp r.imin ++ mn.text.toList, hiOp r.imax ++ mx.text.toList]
  | some mn, none => [loOp r.imin ++ mn.text.toList]
  | none, some mx => [hiOp r.imax ++ mx.text.toList]
  | none, none => []

theorem loOp_cases (i : Bool) : loOp i = ['>', '='] ∨ loOp i = ['>'] := by cases i <;> simp [loOp]
theorem hiOp_cases (j : Bool) : hiOp j = ['<', '='] ∨ hiOp j = ['<'] := by cases j <;> simp [hiOp]

theorem rangeToks_spec (r : VRange) (ht : (RC.rng r).TextOK) : ∀ x ∈ rangeToks r, SpecTok x := by
  obtain ⟨mn, mx, i, j⟩ := r
  intro x hx
  cases mn with
  | none =>
    cases mx with
    | none => simp [rangeToks] at hx
    | some w =>
      have hw : TextOK w := ht w (by simp [RC.bounds, RC.view, VRange.bounds, RC.min, RC.max])
      simp [rangeToks] at hx; subst hx
      rcases hiOp_cases j with e | e <;> rw [e] <;> exact specTok_op_text hw _ (by simp)
  | some v =>
    have hv : TextOK v := ht v (by simp [RC.bounds, RC.view, VRange.bounds, RC.min, RC.max])
    cases mx with
    | none =>
      simp [rangeToks] at hx; subst hx
      rcases loOp_cases i with e | e <;> rw [e] <;> exact specTok_op_text hv _ (by simp)
    | some w =>
      have hw : TextOK w := ht w (by simp [RC.bounds, RC.view, VRange.bounds, RC.min, RC.max])
      simp [rangeToks] at hx
      rcases hx with rfl | rfl
      · rcases loOp_cases i with e | e <;> rw [e] <;> exact specTok_op_text hv _ (by simp)
      · rcases hiOp_cases j with e | e <;> rw [e] <;> exact specTok_op_text hw _ (by simp)

theorem rangeToks_join (r : VRange) (htidy : r.Tidy) (hany : r.isAny = false) :
    commaJoin (rangeToks r) = memberChars (.rng r) ∧ rangeToks r ≠ [] := by
  obtain ⟨mn, mx, i, j⟩ := r
  cases mn <;> cases mx <;> simp [rangeToks, commaJoin, memberChars, VRange.isAny] at hany ⊢

theorem memberChars_noBlank (r : VRange) (ht : (RC.rng r).TextOK) (hany : r.isAny = false) :
    ∀ c ∈ memberChars (.rng r), c ≠ ' ' := by
  obtain ⟨mn, mx, i, j⟩ := r
  have hlo : ∀ i c, c ∈ loOp i → c ≠ ' ' := by intro i c hc; cases i <;> simp [loOp] at hc <;> (rcases hc with rfl | rfl <;> decide) 
  have hhi : ∀ j c, c ∈ hiOp j → c ≠ ' ' := by intro j c hc; cases j <;> simp [hiOp] at hc <;> (rcases hc with rfl | rfl <;> decide)
  intro c hc
  cases mn with
  | none =>
    cases mx with
    | none => simp [VRange.isAny] at hany
    | some w =>
      have hw : TextOK w := ht w (by simp [RC.bounds, RC.view, VRange.bounds, RC.min, RC.max])
      simp only [memberChars, List.mem_append] at hc
      rcases hc with hc | hc
      · exact hhi j c hc
      · exact text_noBlank hw c hc
  | some v =>
    have hv : TextOK v := ht v (by simp [RC.bounds, RC.view, VRange.bounds, RC.min, RC.max])
    cases mx with
    | none =>
      simp only [memberChars, List.mem_append] at hc
      rcases hc with hc | hc
      · exact hlo i c hc
      · exact text_noBlank hv c hc
    | some w =>
      have hw : TextOK w := ht w (by simp [RC.bounds, RC.view, VRange.bounds, RC.min, RC.max])
      simp only [memberChars, List.mem_append, List.mem_cons] at hc
      rcases hc with (hc | hc) | rfl | hc | hc
      · exact hlo i c hc
      · exact text_noBlank hv c hc
      · decide
      · exact hhi j c hc
      · exact text_noBlank hw c hc

/-- **a plain range prints as spec tokens and is read back identically** (C15 `range_text_roundtrip`) -/
theorem cbody_range (d : Dep) (r : VRange) (hc : d.constraint = .single (.rng r)) (hwf : r.WF) (hne : r.NE)
    (htidy : r.Tidy) (ht : (RC.rng r).TextOK) (hp : r.isSingleWildcardRange = false) (hany : r.isAny = false) :
    CBody d (rangeToks r) ∧ VParser.parseConstraint (ctextOf (rangeToks r)) = .ok (.single (.rng r)) := by
  obtain ⟨hj, hnil⟩ := rangeToks_join r htidy hany
  have hstr : (VC.single (.rng r)).toStr = .ok (String.ofList (memberChars (.rng r))) := memberChars_toStr (.rng r) hp
  have hct : ctextOf (rangeToks r) = String.ofList (memberChars (.rng r)) := by
    unfold ctextOf
    split
    · rename_i h; exact absurd h hnil
    · rw [hj]
  refine ⟨⟨" (" ++ String.ofList (memberChars (.rng r)) ++ ")", ?_, ?_, rangeToks_spec r ht⟩, ?_⟩
  · unfold constraintSuffix
    rw [hc]
    have : (VC.single (.rng r)).isAny = false := by simpa [VC.isAny, RC.isAny] using hany
    simp only [this, Bool.false_eq_true, if_false, hstr, bind, Except.bind, pure, Except.pure,
      removeSpaces_noSpace _ (memberChars_noBlank r ht hany)]
  · have : specsText (rangeToks r) = ' ' :: '(' :: commaJoin (rangeToks r) ++ [')'] := by
      unfold specsText; split
      · rename_i h; exact absurd h hnil
      · rfl
    rw [this, hj]
    simp [String.toList_append, String.toList_ofList]
  · rw [hct]
    obtain ⟨s, h1, h2⟩ := single_roundtrip (.rng r) hwf hne htidy ht hp
    rw [hstr] at h1
    injection h1 with h1
    rw [h1]
    exact h2

/-! ### a single version -/

theorem parseConstraint_eq_text {v : Version} (h : TextOK v) :
    VParser.parseConstraint (String.ofList ('=' :: '=' :: v.text.toList)) = .ok (.single (.ver v)) := by
  have hplain : ∀ c ∈ '=' :: '=' :: v.text.toList, vPlain c := by
    intro c hc
    simp only [List.mem_cons] at hc
    rcases hc with rfl | rfl | hc
    · unfold vPlain; decide
    · unfold vPlain; decide
    · exact h.plain c hc
  have hps : VParser.parseSingle ('=' :: '=' :: v.text.toList) false = .ok (.single (.ver v)) := by
    unfold VParser.parseSingle
    simp [VParser.isAnyPattern, xConstraint?_eq, xprefix, xcore_text false h, VParser.basicOp,
      dropSpaces_noSpace _ h.noSpace, basicVersion?_text h, VParser.parseVersionText,
      text_ne_dev h, h.parse, bind, Except.bind, pure, Except.pure]
  unfold VParser.parseConstraint
  rw [parseConstraintAux_one false _ (groupText_of_vPlain _ hplain (by simp)) (by simp),
    parseGroup_plain false _ hplain]
  exact hps

/-- **a single version prints as `==text` and is read back identically** -/
theorem cbody_version (d : Dep) (v : Version) (hc : d.constraint = .single (.ver v)) (ht : TextOK v) :
    CBody d ['=' :: '=' :: v.text.toList] ∧
      VParser.parseConstraint (ctextOf ['=' :: '=' :: v.text.toList]) = .ok (.single (.ver v)) := by
  refine ⟨⟨" (==" ++ v.text ++ ")", ?_, ?_, ?_⟩, ?_⟩
  · unfold constraintSuffix; rw [hc]; rfl
  · simp [specsText, commaJoin, String.toList_append]
  · intro x hx; simp at hx; subst hx
    exact specTok_op_text ht ['=', '='] (by simp)
  · simp only [ctextOf, commaJoin]
    exact parseConstraint_eq_text ht

/-! ### `!=V` -/

/-- **a union that excludes one version prints as `!=text` and is read back as `<V || >V`**, an equivalent
constraint (C15 `union_ne_text_roundtrip`) -/
theorem cbody_ne (d : Dep) (rs : List RC) (v : Version) (hc : d.constraint = .union rs) (h : UnionText rs)
    (hx : VC.excludedSingleVersion rs = .ok (some v)) (ht : TextOK v) :
    CBody d ['!' :: '=' :: v.text.toList] ∧
      VParser.parseConstraint (ctextOf ['!' :: '=' :: v.text.toList]) =
        .ok (.union [.rng ⟨none, some v, false, false⟩, .rng ⟨some v, none, false, false⟩]) ∧
      ∀ p, p.wf = true → Regular (boundsOf rs) p →
        (VC.union [.rng ⟨none, some v, false, false⟩, .rng ⟨some v, none, false, false⟩]).allows p = (VC.union rs).allows p := by
  have hstr : (VC.union rs).toStr = .ok ("!=" ++ v.text) := by
    simp [VC.toStr, hx, bind, Except.bind, pure, Except.pure]
  obtain ⟨s, h1, h2, _, h4⟩ := union_ne_roundtrip rs h v hx
  rw [hstr] at h1
  injection h1 with h1
  have hs : s = String.ofList ('!' :: '=' :: v.text.toList) := by
    rw [← h1]; apply String.toList_inj.mp; simp [String.toList_append]
  refine ⟨⟨" (" ++ ("!=" ++ v.text) ++ ")", ?_, ?_, ?_⟩, ?_, h4⟩
  · unfold constraintSuffix; rw [hc]
    simp [hx, hstr, bind, Except.bind, pure, Except.pure]
  · simp [specsText, commaJoin, String.toList_append]
  · intro x hx'; simp at hx'; subst hx'
    exact specTok_op_text ht ['!', '='] (by simp)
  · simp only [ctextOf, commaJoin]
    rw [← hs]; exact h2

end Poetry.Dep
