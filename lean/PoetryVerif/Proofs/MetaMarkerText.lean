/-
C14: the marker texts that end up in a `Requires-Dist` header hold no CR/LF when the strings stored in the
marker / constraint objects hold none.

* `M.toStr_singleLine` — `str(marker)` (`Poetry.Marker.M.toStr`) is single-line when every leaf is line-free;
* `nestedGC_singleLine` — `create_nested_marker(name, generic constraint)` (`Poetry.Dep.nestedGC`) likewise;
* `parseConstraint_lineFree` — the atoms `Generic.parseConstraint` produces from a single-line text are line-free.

Core Lean only.
-/
import PoetryVerif.Proofs.MetaValidate
import PoetryVerif.Proofs.MarkerPrint
import PoetryVerif.Model.Dep

set_option linter.unusedSimpArgs false
set_option linter.unusedVariables false

namespace Poetry.Meta
open Poetry Poetry.Marker
open Poetry.Generic (GC GS)

/-! ## line-free constraint objects and leaves -/

/-- every atom value of a non-union generic constraint is single-line -/
def GSLineFree : GS → Prop
  | .atom a => SingleLine a.value
  | .multi _ cs => ∀ a ∈ cs, SingleLine a.value
  | _ => True

/-- every atom value of a generic constraint is single-line -/
def GCLineFree : GC → Prop
  | .s c => GSLineFree c
  | .union ms => ∀ m ∈ ms, GSLineFree m

/-- name, operator and value of a `SingleMarker`; name and every atom value of an `AtomicMultiMarker` /
`AtomicMarkerUnion` are single-line -/
def LeafLineFree : Leaf → Prop
  | .single s => SingleLine s.name ∧ SingleLine s.op ∧ SingleLine s.value
  | .amulti n c => SingleLine n ∧ GCLineFree c
  | .aunion n c => SingleLine n ∧ GCLineFree c

/-! ## constants -/

theorem opStr_singleLine : ∀ o : Generic.Op, SingleLine o.str
  | .eq => by decide
  | .ne => by decide
  | .in_ => by decide
  | .nc => by decide

theorem quoteOf_singleLine (v : String) : SingleLine (quoteOf v) := by
  rcases quoteOf_cases v with h | h <;> rw [h] <;> decide

theorem mapM_some_mem {α β : Type} (f : α → Option β) : ∀ (xs : List α) (ys : List β), xs.mapM f = some ys →
    ∀ y ∈ ys, ∃ x ∈ xs, f x = some y
  | [], ys, h => by
    simp at h; subst h; intro y hy; cases hy
  | x :: xs, ys, h => by
    rw [List.mapM_cons] at h
    cases h1 : f x with
    | none => simp [h1] at h
    | some y0 =>
      cases h2 : xs.mapM f with
      | none => simp [h1, h2] at h
      | some ys0 =>
        simp [h1, h2] at h
        subst h
        intro y hy
        simp only [List.mem_cons] at hy
        rcases hy with rfl | hy
        · exact ⟨x, by simp, h1⟩
        · obtain ⟨x', hx', hf⟩ := mapM_some_mem f xs ys0 h2 y hy
          exact ⟨x', by simp [hx'], hf⟩

theorem mapM_ok_mem {α β : Type} (f : α → PyM β) : ∀ (xs : List α) (ys : List β), xs.mapM f = .ok ys →
    ∀ y ∈ ys, ∃ x ∈ xs, f x = .ok y
  | [], ys, h => by
    simp [pure, Except.pure] at h; subst h; intro y hy; cases hy
  | x :: xs, ys, h => by
    rw [List.mapM_cons] at h
    simp only [bind, Except.bind, pure, Except.pure] at h
    cases h1 : f x with
    | error e => simp [h1] at h
    | ok y0 =>
      cases h2 : xs.mapM f with
      | error e => simp [h1, h2] at h
      | ok ys0 =>
        simp [h1, h2] at h
        subst h
        intro y hy
        simp only [List.mem_cons] at hy
        rcases hy with rfl | hy
        · exact ⟨x, by simp, h1⟩
        · obtain ⟨x', hx', hf⟩ := mapM_ok_mem f xs ys0 h2 y hy
          exact ⟨x', by simp [hx'], hf⟩

/-! ## GOAL 1: `str(marker)` -/

theorem atomClause_singleLine (n : String) (a : Generic.Atom) (hn : SingleLine n) (ha : SingleLine a.value) :
    SingleLine (atomClause n a) := by
  unfold atomClause
  simp only [singleLine_append]
  exact ⟨⟨⟨⟨⟨⟨hn, by decide⟩, opStr_singleLine _⟩, by decide⟩, quoteOf_singleLine _⟩, ha⟩, quoteOf_singleLine _⟩

theorem leafText_singleLine (name op value : String) (sw : Bool) (hn : SingleLine name) (ho : SingleLine op)
    (hv : SingleLine value) : SingleLine (leafText name op value sw) := by
  unfold leafText
  have hq := quoteOf_singleLine value
  have hsp : SingleLine " " := by decide
  cases sw <;> simp only [singleLine_append, if_true, if_false, Bool.false_eq_true] <;> simp [*]

theorem Leaf.toStr_singleLine (l : Leaf) (s : String) (h : l.toStr = .ok s) (hg : LeafLineFree l) :
    SingleLine s := by
  cases l with
  | single x =>
    simp only [Leaf.toStr, Except.ok.injEq] at h; subst h
    exact leafText_singleLine _ _ _ _ hg.1 hg.2.1 hg.2.2
  | amulti n c =>
    obtain ⟨hn, hc⟩ := hg
    cases c with
    | union ms => simp [Leaf.toStr] at h
    | s g =>
      cases g with
      | multi x cs =>
        simp only [Leaf.toStr, Except.ok.injEq] at h; subst h
        apply joinWith_singleLine _ (by decide)
        intro y hy
        obtain ⟨a, ha, rfl⟩ := List.mem_map.mp hy
        exact atomClause_singleLine n a hn (hc a ha)
      | _ => simp [Leaf.toStr] at h
  | aunion n c =>
    obtain ⟨hn, hc⟩ := hg
    cases c with
    | s g => simp [Leaf.toStr] at h
    | union ms =>
      simp only [Leaf.toStr] at h
      split at h
      · rename_i as has
        simp only [Except.ok.injEq] at h; subst h
        apply joinWith_singleLine _ (by decide)
        intro y hy
        obtain ⟨a, ha, rfl⟩ := List.mem_map.mp hy
        obtain ⟨m, hm, hma⟩ := mapM_some_mem _ ms as has a ha
        have hmf := hc m hm
        cases m with
        | atom a' =>
          simp only [Option.some.injEq] at hma; subst hma
          exact atomClause_singleLine n a' hn hmf
        | _ => simp at hma
      · simp at h

mutual
theorem M.toStr_singleLine' : ∀ (m : M) (s : String), m.toStr = .ok s → M.Good LeafLineFree m → SingleLine s
  | .any, s, h, _ => by
    simp only [M.toStr, Except.ok.injEq] at h; subst h; decide
  | .empty, s, h, _ => by
    simp only [M.toStr, Except.ok.injEq] at h; subst h; decide
  | .leaf l, s, h, hg => by
    simp only [M.toStr] at h
    exact Leaf.toStr_singleLine l s h (by simpa using hg)
  | .multi ms, s, h, hg => by
    simp only [M.toStr, bind, Except.bind, pure, Except.pure] at h
    cases hp : M.toStrMultiParts ms with
    | error e => simp [hp] at h
    | ok parts =>
      simp only [hp, Except.ok.injEq] at h; subst h
      exact joinWith_singleLine _ (by decide) parts
        (M.toStrMultiParts_singleLine ms parts hp (by simpa using hg))
  | .union ms, s, h, hg => by
    simp only [M.toStr, bind, Except.bind, pure, Except.pure] at h
    cases hp : M.toStrList ms with
    | error e => simp [hp] at h
    | ok parts =>
      simp only [hp, Except.ok.injEq] at h; subst h
      exact joinWith_singleLine _ (by decide) parts
        (M.toStrList_singleLine ms parts hp (by simpa using hg))
theorem M.toStrMultiParts_singleLine : ∀ (ms : List M) (parts : List String), M.toStrMultiParts ms = .ok parts →
    (∀ m ∈ ms, M.Good LeafLineFree m) → ∀ p ∈ parts, SingleLine p
  | [], parts, h, _ => by
    simp only [M.toStrMultiParts, Except.ok.injEq] at h; subst h; intro p hp; cases hp
  | m :: ms, parts, h, hg => by
    simp only [M.toStrMultiParts, bind, Except.bind, pure, Except.pure] at h
    cases h1 : M.toStr m with
    | error e => simp [h1] at h
    | ok s =>
      simp only [h1] at h
      cases h2 : M.toStrMultiParts ms with
      | error e => simp [h2] at h
      | ok rest =>
        simp only [h2, Except.ok.injEq] at h; subst h
        have hs := M.toStr_singleLine' m s h1 (hg m (by simp))
        have hr := M.toStrMultiParts_singleLine ms rest h2 (fun x hx => hg x (by simp [hx]))
        have hpar : SingleLine ("(" ++ s ++ ")") := by
          simp only [singleLine_append]; exact ⟨⟨by decide, hs⟩, by decide⟩
        intro p hp
        simp only [List.mem_cons] at hp
        rcases hp with rfl | hp
        · split <;> assumption
        · exact hr p hp
theorem M.toStrList_singleLine : ∀ (ms : List M) (parts : List String), M.toStrList ms = .ok parts →
    (∀ m ∈ ms, M.Good LeafLineFree m) → ∀ p ∈ parts, SingleLine p
  | [], parts, h, _ => by
    simp only [M.toStrList, Except.ok.injEq] at h; subst h; intro p hp; cases hp
  | m :: ms, parts, h, hg => by
    simp only [M.toStrList, bind, Except.bind, pure, Except.pure] at h
    cases h1 : M.toStr m with
    | error e => simp [h1] at h
    | ok s =>
      simp only [h1] at h
      cases h2 : M.toStrList ms with
      | error e => simp [h2] at h
      | ok rest =>
        simp only [h2, Except.ok.injEq] at h; subst h
        have hs := M.toStr_singleLine' m s h1 (hg m (by simp))
        have hr := M.toStrList_singleLine ms rest h2 (fun x hx => hg x (by simp [hx]))
        intro p hp
        simp only [List.mem_cons] at hp
        rcases hp with rfl | hp
        · exact hs
        · exact hr p hp
end

/-- **`str(marker)` emits no CR/LF** when the strings stored in its leaves hold none. -/
theorem M.toStr_singleLine (m : M) (s : String) (h : m.toStr = .ok s) (hg : M.Good LeafLineFree m) :
    SingleLine s := M.toStr_singleLine' m s h hg

/-! ## GOAL 2: `create_nested_marker` for generic constraints -/

open Poetry.Dep in
theorem nestedAtom_singleLine (name : String) (a : Generic.Atom) (hn : SingleLine name) (ha : SingleLine a.value) :
    SingleLine (nestedAtom name a) := by
  unfold nestedAtom
  simp only [singleLine_append]
  exact ⟨⟨⟨⟨⟨hn, by decide⟩, opStr_singleLine _⟩, by decide⟩, ha⟩, by decide⟩

open Poetry.Dep in
theorem nestedGS_singleLine (name : String) (g : GS) (s : String) (h : nestedGS name g = .ok s)
    (hn : SingleLine name) (hg : GSLineFree g) : SingleLine s := by
  cases g with
  | any => simp only [nestedGS, Except.ok.injEq] at h; subst h; decide
  | empty => simp [nestedGS] at h
  | atom a =>
    simp only [nestedGS, Except.ok.injEq] at h; subst h
    exact nestedAtom_singleLine name a hn hg
  | multi x cs =>
    simp only [nestedGS, Except.ok.injEq] at h; subst h
    apply joinWith_singleLine _ (by decide)
    intro y hy
    obtain ⟨a, ha, rfl⟩ := List.mem_map.mp hy
    exact nestedAtom_singleLine name a hn (hg a ha)

open Poetry.Dep in
/-- **`create_nested_marker(name, generic constraint)` emits no CR/LF** when the name and the atom values hold
none. -/
theorem nestedGC_singleLine (name : String) (gc : GC) (s : String) (h : nestedGC name gc = .ok s)
    (hn : SingleLine name) (hg : GCLineFree gc) : SingleLine s := by
  cases gc with
  | s c => exact nestedGS_singleLine name c s (by simpa [nestedGC] using h) hn hg
  | union ms =>
    simp only [nestedGC, bind, Except.bind, pure, Except.pure] at h
    split at h
    · simp at h
    · rename_i parts hp
      simp only [Except.ok.injEq] at h; subst h
      apply joinWith_singleLine _ (by decide)
      intro p hpm
      obtain ⟨m, hm, hf⟩ := mapM_ok_mem _ ms parts hp p hpm
      cases ht : nestedGS name m with
      | error e => simp [ht] at hf
      | ok t =>
        simp only [ht, Except.ok.injEq] at hf
        have hts := nestedGS_singleLine name m t ht hn (hg m hm)
        subst hf
        split
        · simp only [singleLine_append]; exact ⟨⟨by decide, hts⟩, by decide⟩
        · exact hts

/-! ## GOAL 3: the generic constraint parser keeps atom values inside the input text -/

section Parser
open Poetry.Generic Poetry.Spec.Rfc822

theorem noNL_nil : NoNL [] := fun _ h => by cases h

theorem noNL_cons {c : Char} {l : List Char} : NoNL (c :: l) ↔ isNL c = false ∧ NoNL l := by
  unfold NoNL; simp

theorem noNL_reverse {l : List Char} : NoNL l.reverse ↔ NoNL l := by
  unfold NoNL; simp

theorem dropSpaces_noNL : ∀ (l : List Char), NoNL l → NoNL (dropSpaces l)
  | [], h => by simpa [dropSpaces] using h
  | c :: cs, h => by
    simp only [dropSpaces]
    split
    · exact dropSpaces_noNL cs (noNL_cons.mp h).2
    · exact h

theorem strip_noNL (l : List Char) (h : NoNL l) : NoNL (strip l) := by
  unfold strip
  exact noNL_reverse.mpr (dropSpaces_noNL _ (noNL_reverse.mpr (dropSpaces_noNL _ h)))

theorem sepOr_noNL (cs r : List Char) (h : NoNL cs) (hs : sepOr cs = some r) : NoNL r := by
  have hd := dropSpaces_noNL cs h
  unfold sepOr at hs
  split at hs
  · rename_i r' e
    simp only [Option.some.injEq] at hs; subst hs
    rw [e] at hd
    exact dropSpaces_noNL _ (noNL_cons.mp (noNL_cons.mp hd).2).2
  · rename_i r' e
    simp only [Option.some.injEq] at hs; subst hs
    rw [e] at hd
    exact dropSpaces_noNL _ (noNL_cons.mp hd).2
  · simp at hs

theorem sepComma_noNL (cs r : List Char) (h : NoNL cs) (hs : sepComma cs = some r) : NoNL r := by
  have hd := dropSpaces_noNL cs h
  unfold sepComma at hs
  split at hs
  · rename_i r' e
    simp only [Option.some.injEq] at hs; subst hs
    rw [e] at hd
    exact dropSpaces_noNL _ (noNL_cons.mp hd).2
  · simp at hs

theorem splitBy_noNL (sep : List Char → Option (List Char))
    (hsep : ∀ cs r, NoNL cs → sep cs = some r → NoNL r) :
    ∀ (n : Nat) (l acc : List Char), NoNL l → NoNL acc → ∀ p ∈ splitBy sep n l acc, NoNL p
  | 0, l, acc, _, ha, p, hp => by
    simp only [splitBy, List.mem_singleton] at hp; subst hp; exact noNL_reverse.mpr ha
  | n + 1, [], acc, _, ha, p, hp => by
    simp only [splitBy, List.mem_singleton] at hp; subst hp; exact noNL_reverse.mpr ha
  | n + 1, c :: cs, acc, hl, ha, p, hp => by
    simp only [splitBy] at hp
    cases hs : sep (c :: cs) with
    | some rest =>
      simp only [hs, List.mem_cons] at hp
      rcases hp with rfl | hp
      · exact noNL_reverse.mpr ha
      · exact splitBy_noNL sep hsep n rest [] (hsep _ _ hl hs) noNL_nil p hp
    | none =>
      simp only [hs] at hp
      exact splitBy_noNL sep hsep n cs (c :: acc) (noNL_cons.mp hl).2
        (noNL_cons.mpr ⟨(noNL_cons.mp hl).1, ha⟩) p hp

theorem reSplit_noNL (sep : List Char → Option (List Char))
    (hsep : ∀ cs r, NoNL cs → sep cs = some r → NoNL r) (l : List Char) (hl : NoNL l) :
    ∀ p ∈ reSplit sep l, NoNL p :=
  splitBy_noNL sep hsep _ l [] hl noNL_nil

theorem scanValue_noNL (q : Char) : ∀ (cs acc v op : List Char), NoNL cs → NoNL acc →
    scanValue q cs acc = some (v, op) → NoNL v
  | [], acc, v, op, _, _, h => by simp [scanValue] at h
  | c :: cs, acc, v, op, hc, ha, h => by
    have hrec : ∀ {v op}, scanValue q cs (c :: acc) = some (v, op) → NoNL v := fun h' =>
      scanValue_noNL q cs (c :: acc) _ _ (noNL_cons.mp hc).2 (noNL_cons.mpr ⟨(noNL_cons.mp hc).1, ha⟩) h'
    simp only [scanValue] at h
    split at h
    · split at h
      · simp only [Option.some.injEq, Prod.mk.injEq] at h
        obtain ⟨rfl, _⟩ := h
        exact noNL_reverse.mpr ha
      · split at h
        · simp at h
        · exact hrec h
    · split at h
      · simp at h
      · exact hrec h

theorem matchStrCmp_noNL (cs v op : List Char) (hc : NoNL cs) (h : Generic.matchStrCmp cs = some (v, op)) :
    NoNL v := by
  unfold Generic.matchStrCmp at h
  split at h
  · rename_i q rest
    split at h
    · exact scanValue_noNL q rest [] v op (noNL_cons.mp hc).2 noNL_nil h
    · simp at h
  · simp at h

theorem spanNonSpace_noNL : ∀ (l : List Char), NoNL l → NoNL (spanNonSpace l).1
  | [], _ => by simp [spanNonSpace]; exact noNL_nil
  | c :: cs, h => by
    simp only [spanNonSpace]
    split
    · exact noNL_nil
    · exact noNL_cons.mpr ⟨(noNL_cons.mp h).1, spanNonSpace_noNL cs (noNL_cons.mp h).2⟩

theorem matchBasicRest_noNL (r v : List Char) (hr : NoNL r) (h : matchBasicRest r = some v) : NoNL v := by
  have hs := spanNonSpace_noNL _ (dropSpaces_noNL r hr)
  unfold matchBasicRest at h
  cases hsp : spanNonSpace (dropSpaces r) with
  | mk tok tail =>
    rw [hsp] at hs
    simp only [hsp] at h
    split at h
    · simp at h
    · split at h
      · simp only [Option.some.injEq] at h; subst h; exact hs
      · simp at h

theorem matchBasicRest_map_noNL (r v : List Char) (o op : Option String) (hr : NoNL r)
    (h : (matchBasicRest r).map (fun v => (o, v)) = some (op, v)) : NoNL v := by
  cases hm : matchBasicRest r with
  | none => simp [hm] at h
  | some v' =>
    simp only [hm, Option.map_some, Option.some.injEq, Prod.mk.injEq] at h
    obtain ⟨_, rfl⟩ := h
    exact matchBasicRest_noNL r v' hr hm

theorem matchBasic_noNL (cs v : List Char) (op : Option String) (hc : NoNL cs)
    (h : matchBasic cs = some (op, v)) : NoNL v := by
  unfold matchBasic at h
  simp only at h
  split at h
  · rename_i r e
    simp only [Option.some.injEq] at h; subst h
    split at e
    · rename_i r'
      exact matchBasicRest_map_noNL _ _ _ _ (noNL_cons.mp (noNL_cons.mp hc).2).2 e
    · simp at e
  · split at h
    · rename_i r e
      simp only [Option.some.injEq] at h; subst h
      split at e
      · exact matchBasicRest_map_noNL _ _ _ _ (noNL_cons.mp (noNL_cons.mp hc).2).2 e
      · simp at e
    · split at h
      · rename_i r e
        simp only [Option.some.injEq] at h; subst h
        split at e
        · exact matchBasicRest_map_noNL _ _ _ _ (noNL_cons.mp hc).2 e
        · simp at e
      · exact matchBasicRest_map_noNL _ _ _ _ hc h

theorem Atom.mk?_value (x : Bool) (value operator : String) (a : Generic.Atom)
    (h : Generic.Atom.mk? x value operator = .ok a) : a.value = value := by
  unfold Generic.Atom.mk? at h
  simp only at h
  split at h
  · simp at h
  · split at h
    · simp at h
    · simp only [Except.ok.injEq] at h; subst h; rfl

theorem parseSingle_lineFree (x : Bool) (cs : List Char) (a : Generic.Atom) (hc : NoNL cs)
    (h : parseSingle x cs = .ok a) : SingleLine a.value := by
  unfold parseSingle at h
  split at h
  · rename_i v op e
    rw [Atom.mk?_value _ _ _ _ h]
    exact singleLine_ofList.mpr (strip_noNL _ (matchStrCmp_noNL cs v op hc e))
  · split at h
    · rename_i op v e
      rw [Atom.mk?_value _ _ _ _ h]
      exact singleLine_ofList.mpr (strip_noNL _ (matchBasic_noNL cs v op hc e))
    · simp at h

theorem mapE_mem {α β : Type} (f : α → PyM β) : ∀ (xs : List α) (ys : List β), mapE f xs = .ok ys →
    ∀ y ∈ ys, ∃ x ∈ xs, f x = .ok y
  | [], ys, h => by
    simp only [mapE, Except.ok.injEq] at h; subst h; intro y hy; cases hy
  | x :: xs, ys, h => by
    simp only [mapE] at h
    cases h1 : f x with
    | error e => simp [h1] at h
    | ok y0 =>
      cases h2 : mapE f xs with
      | error e => simp [h1, h2] at h
      | ok ys0 =>
        simp only [h1, h2, Except.ok.injEq] at h
        subst h
        intro y hy
        simp only [List.mem_cons] at hy
        rcases hy with rfl | hy
        · exact ⟨x, by simp, h1⟩
        · obtain ⟨x', hx', hf⟩ := mapE_mem f xs ys0 h2 y hy
          exact ⟨x', by simp [hx'], hf⟩

theorem mkMulti_lineFree (x : Bool) (cs : List Generic.Atom) (g : GS) (h : Generic.mkMulti x cs = .ok g)
    (hc : ∀ a ∈ cs, SingleLine a.value) : GSLineFree g := by
  unfold Generic.mkMulti at h
  split at h
  · simp at h
  · simp only [Except.ok.injEq] at h; subst h; exact hc

theorem intersectAtom_lineFree (c : GS) (o : Generic.Atom) (r : GS) (h : c.intersectS (.atom o) = .ok r)
    (hc : GSLineFree c) (ho : SingleLine o.value) : GSLineFree r := by
  have hmulti : ∀ (x : Bool) (cs : List Generic.Atom) (r : GS), (∀ a ∈ cs, SingleLine a.value) →
      multiIntersectA x cs o = .ok r → GSLineFree r := by
    intro x cs r hcs h
    unfold multiIntersectA at h
    split at h
    · simp only [Except.ok.injEq] at h; subst h; exact hcs
    · split at h
      · split at h
        · simp only [Except.ok.injEq] at h; subst h; exact ho
        · simp only [Except.ok.injEq] at h; subst h; trivial
      · split at h
        · simp at h
        · split at h
          · simp only [Except.ok.injEq] at h; subst h; trivial
          · apply mkMulti_lineFree _ _ _ h
            intro a ha
            simp only [List.mem_append, List.mem_singleton] at ha
            rcases ha with ha | rfl
            · exact hcs a ha
            · exact ho
  cases c with
  | any => simp only [GS.intersectS, Except.ok.injEq] at h; subst h; exact ho
  | empty => simp only [GS.intersectS, Except.ok.injEq] at h; subst h; trivial
  | atom a =>
    simp only [GS.intersectS] at h
    have hpair : ∀ b ∈ [a, o], SingleLine b.value := by
      intro b hb
      simp only [List.mem_cons, List.mem_nil_iff, or_false] at hb
      rcases hb with rfl | rfl
      · exact hc
      · exact ho
    unfold Generic.Atom.intersectA at h
    repeat' split at h
    all_goals first
      | (simp only [Except.ok.injEq] at h; subst h; first | exact hc | exact ho | trivial)
      | exact mkMulti_lineFree _ _ _ h hpair
  | multi x cs =>
    simp only [GS.intersectS] at h
    exact hmulti x cs r hc h

theorem foldIntersect_lineFree : ∀ (as : List Generic.Atom) (c r : GS), foldIntersect c as = .ok r →
    GSLineFree c → (∀ a ∈ as, SingleLine a.value) → GSLineFree r
  | [], c, r, h, hc, _ => by
    simp only [foldIntersect, Except.ok.injEq] at h; subst h; exact hc
  | a :: as, c, r, h, hc, ha => by
    simp only [foldIntersect] at h
    cases h1 : c.intersectS (.atom a) with
    | error e => simp [h1] at h
    | ok c' =>
      simp only [h1] at h
      exact foldIntersect_lineFree as c' r h (intersectAtom_lineFree c a c' h1 hc (ha a (by simp)))
        (fun b hb => ha b (by simp [hb]))

theorem parseGroup_lineFree (x : Bool) (g : List Char) (r : GS) (hg : NoNL g) (h : parseGroup x g = .ok r) :
    GSLineFree r := by
  unfold parseGroup at h
  split at h
  · simp at h
  · simp at h
  · rename_i a as e
    have hall : ∀ b ∈ a :: as, SingleLine b.value := by
      intro b hb
      obtain ⟨p, hp, hf⟩ := mapE_mem _ _ _ e b hb
      exact parseSingle_lineFree x p b (reSplit_noNL sepComma sepComma_noNL g hg p hp) hf
    exact foldIntersect_lineFree as (.atom a) r h (hall a (by simp)) (fun b hb => hall b (by simp [hb]))

theorem parseWith_lineFree (x : Bool) (s : String) (gc : GC) (hs : SingleLine s) (h : parseWith x s = .ok gc) :
    GCLineFree gc := by
  unfold parseWith at h
  split at h
  · simp only [Except.ok.injEq] at h; subst h; trivial
  · have hall : ∀ l, mapE (parseGroup x) (reSplit sepOr (strip s.toList)) = .ok l → ∀ g ∈ l, GSLineFree g := by
      intro l e g hg
      obtain ⟨p, hp, hf⟩ := mapE_mem _ _ _ e g hg
      exact parseGroup_lineFree x p g (reSplit_noNL sepOr sepOr_noNL _ (strip_noNL _ hs) p hp) hf
    split at h
    · simp at h
    · rename_i g e
      simp only [Except.ok.injEq] at h; subst h
      exact hall _ e g (by simp)
    · rename_i l _ e
      simp only [Except.ok.injEq] at h; subst h
      exact hall _ e

/-- **`parse_constraint` keeps atom values inside its input**: a single-line text yields a line-free
constraint. -/
theorem parseConstraint_lineFree (s : String) (gc : GC) (hs : SingleLine s)
    (h : Generic.parseConstraint s = .ok gc) : GCLineFree gc :=
  parseWith_lineFree false s gc hs h

/-- the same for `parse_extra_constraint` -/
theorem parseExtraConstraint_lineFree (s : String) (gc : GC) (hs : SingleLine s)
    (h : Generic.parseExtraConstraint s = .ok gc) : GCLineFree gc :=
  parseWith_lineFree true s gc hs h

end Parser

end Poetry.Meta
