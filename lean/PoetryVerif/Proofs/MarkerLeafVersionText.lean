/-
Version variables, text level (helper lemmas for C06): the decimal text of natural numbers, `Version.parse` and
`parse_marker_version_constraint` on `op ++ "X.Y.Z…"` for ALL numbers (symbolic evaluation of the recognisers),
and the leaves `SingleMarker.__init__` builds for `python_version` / `python_full_version` (padding included).
-/
import PoetryVerif.Proofs.MarkerLeaf
import PoetryVerif.Proofs.MarkerLeafVersion

set_option linter.unusedSimpArgs false
set_option linter.unusedVariables false
set_option linter.unnecessarySeqFocus false

namespace Poetry.Marker
open Poetry

/-! ### decimal text of a natural number -/

/-- the characters of `str(n)` -/
def dg (n : Nat) : List Char := (natToString n).toList

theorem dg_eq (n : Nat) : dg n = Nat.toDigits 10 n := by
  simp [dg, natToString, Nat.toString_eq_repr, Nat.toList_repr]

theorem dg_ne_nil (n : Nat) : dg n ≠ [] := by rw [dg_eq]; exact Nat.toDigits_ne_nil

theorem dg_isDigit (n : Nat) : ∀ c ∈ dg n, isDigit c = true := by
  intro c hc
  rw [dg_eq] at hc
  have := Nat.isDigit_of_mem_toDigits (by decide) (by decide) hc
  simp only [Char.isDigit, Bool.and_eq_true, decide_eq_true_eq] at this
  simp only [isDigit, Bool.and_eq_true, decide_eq_true_eq, char_le_iff]
  have h1 : '0'.val ≤ c.val := this.1
  have h2 : c.val ≤ '9'.val := this.2
  rw [UInt32.le_iff_toNat_le] at h1 h2
  exact ⟨h1, h2⟩

theorem digitsToNat_eq (l : List Char) : digitsToNat l = Nat.ofDigitChars 10 l 0 := by
  unfold digitsToNat Nat.ofDigitChars
  congr 1
  funext acc c
  simp [digitVal, Nat.mul_comm]

theorem digitsToNat_dg (n : Nat) : digitsToNat (dg n) = n := by
  rw [digitsToNat_eq, dg_eq]; exact Nat.ofDigitChars_ten_toDigits

theorem takeDigits_append (ds tl : List Char) (hd : ∀ c ∈ ds, isDigit c = true)
    (ht : ∀ c, tl.head? = some c → isDigit c = false) : takeDigits (ds ++ tl) = (ds, tl) := by
  induction ds with
  | nil =>
    cases tl with
    | nil => rfl
    | cons c cs => simp [takeDigits, ht c rfl]
  | cons d ds ih =>
    simp [takeDigits, hd d (by simp), ih (fun c hc => hd c (List.mem_cons_of_mem _ hc))]

/-! ### text of a release `X.Y.Z…` -/

/-- `.Y.Z…` -/
def relTail : List Nat → List Char
  | [] => []
  | y :: r => '.' :: (dg y ++ relTail r)

/-- the characters of `X.Y.Z…` -/
def relChars (x : Nat) (r : List Nat) : List Char := dg x ++ relTail r

theorem joinWith_dot_toList (x : Nat) (r : List Nat) :
    (joinWith "." ((x :: r).map natToString)).toList = relChars x r := by
  induction r generalizing x with
  | nil => simp [joinWith, relChars, relTail, dg]
  | cons y r ih =>
    have := ih y
    simp only [List.map_cons] at this ⊢
    simp only [joinWith, String.toList_append, this, relChars, relTail, dg]
    simp

theorem relText_toList (x : Nat) (r : List Nat) : (Version.relText (x :: r)).toList = relChars x r :=
  joinWith_dot_toList x r

theorem relTail_head (r : List Nat) : ∀ c, (relTail r).head? = some c → isDigit c = false := by
  intro c h
  cases r with
  | nil => simp [relTail] at h
  | cons y r => simp [relTail] at h; subst h; decide

/-- every character of a release text is a digit or `.` -/
theorem relTail_chars (r : List Nat) : ∀ c ∈ relTail r, isDigit c = true ∨ c = '.' := by
  induction r with
  | nil => intro c h; simp [relTail] at h
  | cons y r ih =>
    intro c h
    simp only [relTail, List.mem_cons, List.mem_append] at h
    rcases h with rfl | h | h
    · exact Or.inr rfl
    · exact Or.inl (dg_isDigit y c h)
    · exact ih c h

theorem relChars_chars (x : Nat) (r : List Nat) : ∀ c ∈ relChars x r, isDigit c = true ∨ c = '.' := by
  intro c h
  simp only [relChars, List.mem_append] at h
  rcases h with h | h
  · exact Or.inl (dg_isDigit x c h)
  · exact relTail_chars r c h

theorem relChars_cons (x : Nat) (r : List Nat) : ∃ d ds, relChars x r = d :: ds ∧ isDigit d = true := by
  cases h : dg x with
  | nil => exact absurd h (dg_ne_nil x)
  | cons d ds => exact ⟨d, ds ++ relTail r, by simp [relChars, h], dg_isDigit x d (by simp [h])⟩

theorem moreRelease_relTail (r : List Nat) : ∀ fuel, r.length ≤ fuel →
    Version.moreRelease fuel (relTail r) = (r, []) := by
  induction r with
  | nil => intro fuel _; cases fuel <;> simp [Version.moreRelease, relTail]
  | cons y r ih =>
    intro fuel hf
    cases fuel with
    | zero => simp at hf
    | succ fuel =>
      have ht := takeDigits_append (dg y) (relTail r) (dg_isDigit y) (relTail_head r)
      have hne : (dg y).isEmpty = false := by
        cases h : dg y with
        | nil => exact absurd h (dg_ne_nil y)
        | cons _ _ => rfl
      simp only [relTail, Version.moreRelease, ht, hne, Bool.false_eq_true, if_false,
        ih fuel (by simpa using hf), digitsToNat_dg]

theorem relTail_length (r : List Nat) : r.length ≤ (relTail r).length := by
  induction r with
  | nil => simp
  | cons y r ih => simp [relTail]; omega

theorem parseEpochRelease_relChars (x : Nat) (r : List Nat) :
    Version.parseEpochRelease (relChars x r) = some (0, x :: r, []) := by
  have ht := takeDigits_append (dg x) (relTail r) (dg_isDigit x) (relTail_head r)
  have hne : (dg x).isEmpty = false := by
    cases h : dg x with
    | nil => exact absurd h (dg_ne_nil x)
    | cons _ _ => rfl
  have hm := moreRelease_relTail r (relTail r).length (relTail_length r)
  unfold Version.parseEpochRelease
  simp only [relChars, ht, hne, Bool.false_eq_true, if_false]
  cases r with
  | nil => simp [relTail, Version.moreRelease, digitsToNat_dg]
  | cons y r =>
    simp only [relTail] at hm ⊢
    simp only [List.length_cons, List.length_append] at hm
    simp [hm, digitsToNat_dg]

theorem stripV_digit (d : Char) (ds : List Char) (h : isDigit d = true) : Version.stripV (d :: ds) = d :: ds := by
  unfold Version.stripV
  split
  · rename_i heq; simp at heq; exact absurd heq.1 (digit_ne d 'v' h (by decide))
  · rfl

/-- the version a release text denotes -/
def relVersion (x : Nat) (r : List Nat) (text : String) : Version :=
  { epoch := 0, release := x :: r, pre := none, post := none, dev := none, loc := none, text }

theorem parseBody_relChars (text : String) (x : Nat) (r : List Nat) :
    Version.parseBody text (relChars x r) = some (relVersion x r text, []) := by
  obtain ⟨d, ds, hd, hdig⟩ := relChars_cons x r
  have h1 : Version.stripV (relChars x r) = relChars x r := by rw [hd]; exact stripV_digit d ds hdig
  have p1 : Version.parsePre [] = (none, []) := by decide
  have p2 : Version.parsePost [] = (none, []) := by decide
  have p3 : Version.parseDev [] = (none, []) := by decide
  have p4 : Version.parseLocal [] = (none, []) := by decide
  simp only [Version.parseBody, h1, parseEpochRelease_relChars, p1, p2, p3, p4, relVersion]

theorem map_lower_relChars (x : Nat) (r : List Nat) : (relChars x r).map lowerChar = relChars x r := by
  have key : ∀ l : List Char, (∀ c ∈ l, lowerChar c = c) → l.map lowerChar = l := by
    intro l; induction l <;> simp_all
  apply key
  intro c hc
  rcases relChars_chars x r c hc with h | rfl
  · exact digit_lower c h
  · decide

theorem relChars_noSpace (x : Nat) (r : List Nat) : ∀ c ∈ relChars x r, isSpace c = false := by
  intro c hc
  rcases relChars_chars x r c hc with h | rfl
  · exact digit_not_space c h
  · decide

/-- **`Version.parse` on the text of a release**, for all numbers -/
theorem parse_relText (x : Nat) (r : List Nat) :
    Version.parse (Version.relText (x :: r)) = .ok (relVersion x r (Version.relText (x :: r))) := by
  unfold Version.parse
  simp only [relText_toList, map_lower_relChars, dropSpaces_noSpace _ (relChars_noSpace x r),
    parseBody_relChars]
  have : (Version.relText (x :: r)).isEmpty = false := by
    obtain ⟨d, ds, hd, _⟩ := relChars_cons x r
    have := relText_toList x r
    rw [hd] at this
    rw [Bool.eq_false_iff]; intro he
    have h2 : Version.relText (x :: r) = "" := by simpa [String.isEmpty_iff] using he
    rw [h2] at this; simp at this
  simp [this, dropSpaces]


/-! ### `parse_constraint`'s splitting on a text without blanks, commas, bars -/

/-- no separator of the version-constraint grammar can start at this character -/
def vPlain (c : Char) : Prop := isSpace c = false ∧ c ≠ '|' ∧ c ≠ ','

theorem vPlain_ne_space (c : Char) (h : vPlain c) : c ≠ ' ' := by
  intro e; subst e; exact absurd h.1 (by decide)

theorem vstrip_plain (l : List Char) (h : ∀ c ∈ l, vPlain c) : VParser.strip l = l := by
  unfold VParser.strip VParser.rstripSpaces
  rw [dropSpaces_noSpace l (fun c hc => (h c hc).1),
    dropSpaces_noSpace l.reverse (by intro c hc; exact (h c (by simpa using hc)).1), List.reverse_reverse]

theorem rstripSpaces_plain (l : List Char) (h : ∀ c ∈ l, vPlain c) : VParser.rstripSpaces l = l := by
  unfold VParser.rstripSpaces
  rw [dropSpaces_noSpace l.reverse (by intro c hc; exact (h c (by simpa using hc)).1), List.reverse_reverse]

theorem orSep?_none (c : Char) (cs : List Char) (h : vPlain c) : VParser.orSep? (c :: cs) = none := by
  unfold VParser.orSep?
  rw [dropSpaces_of_head c cs h.1]
  split
  · rename_i heq; simp at heq; exact absurd heq.1 h.2.1
  · rename_i heq; simp at heq; exact absurd heq.1 h.2.1
  · rfl

theorem splitOrAux_plain : ∀ (fuel : Nat) (l cur : List Char), (∀ c ∈ l, vPlain c) → l.length < fuel →
    VParser.splitOrAux fuel l cur = [cur.reverse ++ l] := by
  intro fuel
  induction fuel with
  | zero => intro l cur _ h; omega
  | succ n ih =>
    intro l cur hl hlen
    cases l with
    | nil => rw [VParser.splitOrAux.eq_def]; simp
    | cons c cs =>
      rw [VParser.splitOrAux.eq_def]
      simp only [orSep?_none c cs (hl c (by simp))]
      rw [ih cs (c :: cur) (fun d hd => hl d (List.mem_cons_of_mem _ hd)) (by simpa using hlen)]
      simp

theorem splitOr_plain (l : List Char) (h : ∀ c ∈ l, vPlain c) : VParser.splitOr l = [l] := by
  have := splitOrAux_plain (l.length + 1) l [] h (by omega)
  simpa [VParser.splitOr] using this

theorem countSpaces_of_head (c : Char) (cs : List Char) (h : c ≠ ' ') : VParser.countSpaces (c :: cs) = 0 := by
  unfold VParser.countSpaces
  split
  · rename_i heq; simp at heq; exact absurd heq.1 h
  · rfl

theorem andSep?_none (prev : Option Char) (c : Char) (cs : List Char) (h : vPlain c) :
    VParser.andSep? prev (c :: cs) = none := by
  have hsp := vPlain_ne_space c h
  unfold VParser.andSep?
  cases prev with
  | none => rfl
  | some p =>
    simp only
    split
    · rfl
    · rw [countSpaces_of_head c cs hsp]
      simp only [VParser.andSep?.go, Nat.lt_irrefl, if_false, List.drop_zero]
      split
      · rename_i r heq
        exfalso
        split at heq
        · cases heq
        · split at heq
          · rename_i h1; simp at h1; exact h.2.2 h1.1
          · rename_i h1; simp at h1; exact hsp h1.1
          · cases heq
      · simp

theorem splitAndAux_plain : ∀ (fuel : Nat) (prev : Option Char) (l cur : List Char), (∀ c ∈ l, vPlain c) →
    l.length < fuel → VParser.splitAndAux fuel prev l cur = [cur.reverse ++ l] := by
  intro fuel
  induction fuel with
  | zero => intro prev l cur _ h; omega
  | succ n ih =>
    intro prev l cur hl hlen
    cases l with
    | nil => rw [VParser.splitAndAux.eq_def]; simp
    | cons c cs =>
      rw [VParser.splitAndAux.eq_def]
      simp only [andSep?_none prev c cs (hl c (by simp))]
      rw [ih (some c) cs (c :: cur) (fun d hd => hl d (List.mem_cons_of_mem _ hd)) (by simpa using hlen)]
      simp

theorem splitAnd_plain (l : List Char) (h : ∀ c ∈ l, vPlain c) : VParser.splitAnd l = [l] := by
  have := splitAndAux_plain (l.length + 1) none l [] h (by omega)
  simpa [VParser.splitAnd] using this

theorem rstripCommas_plain (l : List Char) (h : ∀ c ∈ l, vPlain c) : VParser.rstripCommas l = l := by
  unfold VParser.rstripCommas
  have : l.reverse.dropWhile (· == ',') = l.reverse := by
    cases hr : l.reverse with
    | nil => rfl
    | cons c cs =>
      have hc : vPlain c := h c (by have : c ∈ l.reverse := by rw [hr]; simp
                                    simpa using this)
      have hcc : (c == ',') = false := by simpa using hc.2.2
      simp [List.dropWhile, hcc]
  rw [this, List.reverse_reverse]

/-- `_parse_constraint` on a text without separators is `parse_single_constraint` on that text -/
theorem parseConstraintAux_plain (l : List Char) (isMarker : Bool) (h : ∀ c ∈ l, vPlain c)
    (hstar : (String.ofList l == "*") = false) :
    VParser.parseConstraintAux (String.ofList l) isMarker = VParser.parseSingle l isMarker := by
  unfold VParser.parseConstraintAux
  simp only [hstar, Bool.false_eq_true, if_false, String.toList_ofList, vstrip_plain l h, splitOr_plain l h,
    List.mapM_cons, List.mapM_nil, VParser.parseGroup, rstripCommas_plain l h, rstripSpaces_plain l h,
    splitAnd_plain l h, bind, Except.bind, pure, Except.pure]
  cases VParser.parseSingle l isMarker with
  | error e => rfl
  | ok c => rfl



/-! ### `X_CONSTRAINT` does not match a release text without `.*` -/

def xprefix (s : List Char) : Bool × List Char :=
  match s with
  | '!' :: '=' :: r => (true, r)
  | '=' :: '=' :: r => (false, r)
  | _ => (false, s)

def vstrip (s : List Char) : List Char := match s with | 'v' :: r => r | _ => s

def xmore (r : List Char) : List Char × List Char :=
  match r with
  | '.' :: cs => let (d, r') := takeDigits cs; if d.isEmpty then ([], r) else ('.' :: d, r')
  | _ => ([], r)

def xtry (invert : Bool) (ver : List Char) (rest : List Char) : Option (Bool × String) :=
  match VParser.xConstraint?.stars (rest.length + 1) rest 0 with
  | some _ => some (invert, String.ofList ver)
  | none => none

def xcore2 (invert : Bool) (s : List Char) : Option (Bool × String) :=
  let (d1, r1) := takeDigits s
  if d1.isEmpty then none else
  let (d2, r2) := xmore r1
  let (d3, r3) := if d2.isEmpty then ([], r2) else xmore r2
  match xtry invert (d1 ++ d2 ++ d3) r3 with
  | some x => some x
  | none =>
    match xtry invert (d1 ++ d2) r2 with
    | some x => some x
    | none => xtry invert d1 r1

/-- the body of `xConstraint?` after the operator has been split off (same text as the model) -/
def xcore (invert : Bool) (s : List Char) : Option (Bool × String) := xcore2 invert (vstrip (dropSpaces s))

theorem xConstraint?_eq (s : List Char) : VParser.xConstraint? s = xcore (xprefix s).1 (xprefix s).2 := by
  unfold VParser.xConstraint?
  show (match xprefix s with | (i, s') => xcore i s') = _
  cases xprefix s
  rfl

theorem stars_nil (fuel : Nat) : VParser.xConstraint?.stars fuel [] 0 = none := by
  cases fuel <;> simp [VParser.xConstraint?.stars, VParser.atEnd]

theorem stars_relTail (fuel : Nat) (r : List Nat) : VParser.xConstraint?.stars fuel (relTail r) 0 = none := by
  cases r with
  | nil => exact stars_nil fuel
  | cons y r =>
    cases fuel with
    | zero => simp [VParser.xConstraint?.stars]
    | succ fuel =>
      cases h : dg y with
      | nil => exact absurd h (dg_ne_nil y)
      | cons d ds =>
        have hd : isDigit d = true := dg_isDigit y d (by simp [h])
        have hne : d ≠ '*' := digit_ne d '*' hd (by decide)
        simp only [relTail, h, List.cons_append]
        rw [VParser.xConstraint?.stars]
        · simp [VParser.atEnd]
        · intro r' heq; simp at heq; exact hne heq.1

theorem xtry_relTail (inv : Bool) (ver : List Char) (r : List Nat) : xtry inv ver (relTail r) = none := by
  simp [xtry, stars_relTail]

theorem xmore_relTail (r : List Nat) : ∃ d r', xmore (relTail r) = (d, relTail r') := by
  cases r with
  | nil => exact ⟨[], [], rfl⟩
  | cons y r =>
    have ht := takeDigits_append (dg y) (relTail r) (dg_isDigit y) (relTail_head r)
    have hne : (dg y).isEmpty = false := by
      cases h : dg y with
      | nil => exact absurd h (dg_ne_nil y)
      | cons _ _ => rfl
    exact ⟨'.' :: dg y, r, by simp [xmore, relTail, ht, hne]⟩

theorem vstrip_digit (d : Char) (ds : List Char) (h : isDigit d = true) : vstrip (d :: ds) = d :: ds := by
  unfold vstrip
  split
  · rename_i heq; simp at heq; exact absurd heq.1 (digit_ne d 'v' h (by decide))
  · rfl

theorem xcore_relChars (inv : Bool) (x : Nat) (r : List Nat) : xcore inv (relChars x r) = none := by
  obtain ⟨d, ds, hd, hdig⟩ := relChars_cons x r
  have h1 : vstrip (dropSpaces (relChars x r)) = relChars x r := by
    rw [dropSpaces_noSpace _ (relChars_noSpace x r), hd]; exact vstrip_digit d ds hdig
  have ht := takeDigits_append (dg x) (relTail r) (dg_isDigit x) (relTail_head r)
  obtain ⟨d2, r2, h2⟩ := xmore_relTail r
  obtain ⟨d3, r3, h3⟩ := xmore_relTail r2
  unfold xcore
  rw [h1]
  unfold xcore2
  simp only [relChars, ht, h2]
  split
  · rfl
  · by_cases he : d2.isEmpty = true
    · simp [he, xtry_relTail]
    · simp [he, h3, xtry_relTail]

theorem relChars_getLast (x : Nat) (r : List Nat) : ((relChars x r).getLast? == some '\n') = false := by
  cases h : (relChars x r).getLast? with
  | none => rfl
  | some c =>
    have hm : c ∈ relChars x r := List.mem_of_getLast? h
    have := notSpace_ne_newline c (relChars_noSpace x r c hm)
    simpa using this

theorem versionToEnd?_relChars (x : Nat) (r : List Nat) :
    VParser.versionToEnd? (relChars x r) = some (String.ofList (relChars x r)) := by
  unfold VParser.versionToEnd?
  have hl := relChars_getLast x r
  simp [map_lower_relChars, parseBody_relChars, VParser.atEnd, hl]

theorem basicVersion?_relChars (x : Nat) (r : List Nat) :
    VParser.basicVersion? (relChars x r) = some (String.ofList (relChars x r), false) := by
  unfold VParser.basicVersion?
  simp [map_lower_relChars, parseBody_relChars, VParser.atEnd]

theorem ofList_relChars (x : Nat) (r : List Nat) : String.ofList (relChars x r) = Version.relText (x :: r) :=
  str_eq_of_toList (by simp [relText_toList])

/-- the version a release literal denotes, as the parser returns it -/
def litV (x : Nat) (r : List Nat) : Version := relVersion x r (Version.relText (x :: r))

theorem relText_ne_dev (x : Nat) (r : List Nat) : (Version.relText (x :: r) == "dev") = false := by
  rw [beq_eq_false_iff_ne]
  intro e
  have := congrArg String.toList e
  rw [relText_toList] at this
  obtain ⟨d, ds, hd, hdig⟩ := relChars_cons x r
  rw [hd] at this
  simp at this
  exact digit_ne d 'd' hdig (by decide) this.1

theorem parseSingle_eq (x : Nat) (r : List Nat) :
    VParser.parseSingle ('=' :: '=' :: relChars x r) true = clauseVC .eq (litV x r) := by
  unfold VParser.parseSingle
  simp [VParser.isAnyPattern, xConstraint?_eq, xprefix, xcore_relChars, VParser.basicOp,
    dropSpaces_noSpace _ (relChars_noSpace x r), basicVersion?_relChars, VParser.parseVersionText,
    ofList_relChars, relText_ne_dev, parse_relText, clauseVC, litV, bind, Except.bind, pure, Except.pure]

theorem xcore_head (inv : Bool) (c : Char) (l : List Char) (h1 : isSpace c = false) (h2 : c ≠ 'v')
    (h3 : isDigit c = false) : xcore inv (c :: l) = none := by
  have hv : vstrip (c :: l) = c :: l := by
    unfold vstrip
    split
    · rename_i heq; simp at heq; exact absurd heq.1 h2
    · rfl
  simp [xcore, xcore2, dropSpaces_of_head c l h1, hv, takeDigits, h3]

theorem basicOp_lt (d : Char) (ds : List Char) (h : isDigit d = true) :
    VParser.basicOp ('<' :: d :: ds) = (.lt, d :: ds) := by
  unfold VParser.basicOp
  split <;> (first
    | (rename_i heq; simp at heq; done)
    | (rename_i heq; simp at heq; exact absurd heq.1 (digit_ne d '>' h (by decide)))
    | (rename_i heq; simp at heq; exact absurd heq.1 (digit_ne d '=' h (by decide)))
    | (rename_i heq; simp at heq; rw [heq])
    | (rename_i a b c; exact absurd rfl (a _)))

theorem basicOp_gt (d : Char) (ds : List Char) (h : isDigit d = true) :
    VParser.basicOp ('>' :: d :: ds) = (.gt, d :: ds) := by
  unfold VParser.basicOp
  split <;> (first
    | (rename_i heq; simp at heq; done)
    | (rename_i heq; simp at heq; exact absurd heq.1 (digit_ne d '=' h (by decide)))
    | (rename_i heq; simp at heq; rw [heq])
    | (rename_i a b c e f; exact absurd rfl (a _)))

theorem parseSingle_ne (x : Nat) (r : List Nat) :
    VParser.parseSingle ('!' :: '=' :: relChars x r) true = clauseVC .ne (litV x r) := by
  unfold VParser.parseSingle
  simp [VParser.isAnyPattern, xConstraint?_eq, xprefix, xcore_relChars, VParser.basicOp,
    dropSpaces_noSpace _ (relChars_noSpace x r), basicVersion?_relChars, VParser.parseVersionText,
    ofList_relChars, relText_ne_dev, parse_relText, clauseVC, litV, bind, Except.bind, pure, Except.pure]

theorem parseSingle_lt (x : Nat) (r : List Nat) :
    VParser.parseSingle ('<' :: relChars x r) true = clauseVC .lt (litV x r) := by
  obtain ⟨d, ds, hd, hdig⟩ := relChars_cons x r
  have hb : VParser.basicOp ('<' :: relChars x r) = (.lt, relChars x r) := by rw [hd]; exact basicOp_lt d ds hdig
  have hx : xcore false ('<' :: relChars x r) = none := xcore_head _ _ _ (by decide) (by decide) (by decide)
  unfold VParser.parseSingle
  simp [hb, hx, VParser.isAnyPattern, xConstraint?_eq, xprefix, xcore_relChars,
    dropSpaces_noSpace _ (relChars_noSpace x r), basicVersion?_relChars, VParser.parseVersionText,
    ofList_relChars, relText_ne_dev, parse_relText, clauseVC, litV, bind, Except.bind, pure, Except.pure]

theorem parseSingle_le (x : Nat) (r : List Nat) :
    VParser.parseSingle ('<' :: '=' :: relChars x r) true = clauseVC .le (litV x r) := by
  have hx : xcore false ('<' :: '=' :: relChars x r) = none := xcore_head _ _ _ (by decide) (by decide) (by decide)
  unfold VParser.parseSingle
  simp [hx, VParser.isAnyPattern, xConstraint?_eq, xprefix, xcore_relChars, VParser.basicOp,
    dropSpaces_noSpace _ (relChars_noSpace x r), basicVersion?_relChars, VParser.parseVersionText,
    ofList_relChars, relText_ne_dev, parse_relText, clauseVC, litV, bind, Except.bind, pure, Except.pure]

theorem parseSingle_gt (x : Nat) (r : List Nat) :
    VParser.parseSingle ('>' :: relChars x r) true = clauseVC .gt (litV x r) := by
  obtain ⟨d, ds, hd, hdig⟩ := relChars_cons x r
  have hb : VParser.basicOp ('>' :: relChars x r) = (.gt, relChars x r) := by rw [hd]; exact basicOp_gt d ds hdig
  have hx : xcore false ('>' :: relChars x r) = none := xcore_head _ _ _ (by decide) (by decide) (by decide)
  unfold VParser.parseSingle
  simp [hb, hx, VParser.isAnyPattern, xConstraint?_eq, xprefix, xcore_relChars,
    dropSpaces_noSpace _ (relChars_noSpace x r), basicVersion?_relChars, VParser.parseVersionText,
    ofList_relChars, relText_ne_dev, parse_relText, clauseVC, litV, bind, Except.bind, pure, Except.pure]

theorem parseSingle_ge (x : Nat) (r : List Nat) :
    VParser.parseSingle ('>' :: '=' :: relChars x r) true = clauseVC .ge (litV x r) := by
  have hx : xcore false ('>' :: '=' :: relChars x r) = none := xcore_head _ _ _ (by decide) (by decide) (by decide)
  unfold VParser.parseSingle
  simp [hx, VParser.isAnyPattern, xConstraint?_eq, xprefix, xcore_relChars, VParser.basicOp,
    dropSpaces_noSpace _ (relChars_noSpace x r), basicVersion?_relChars, VParser.parseVersionText,
    ofList_relChars, relText_ne_dev, parse_relText, clauseVC, litV, bind, Except.bind, pure, Except.pure]

theorem parseSingle_compat (x : Nat) (r : List Nat) :
    VParser.parseSingle ('~' :: '=' :: relChars x r) true = clauseVC .compat (litV x r) := by
  unfold VParser.parseSingle
  simp [VParser.isAnyPattern, dropSpaces_noSpace _ (relChars_noSpace x r), versionToEnd?_relChars,
    VParser.parseVersionText, ofList_relChars, parse_relText, clauseVC, litV, compatHigh, bind, Except.bind,
    pure, Except.pure]
  rfl



theorem digit_cases (d : Char) (h : isDigit d = true) :
    d = '0' ∨ d = '1' ∨ d = '2' ∨ d = '3' ∨ d = '4' ∨ d = '5' ∨ d = '6' ∨ d = '7' ∨ d = '8' ∨ d = '9' := by
  have hr := digit_range d h
  have : d.toNat = 48 ∨ d.toNat = 49 ∨ d.toNat = 50 ∨ d.toNat = 51 ∨ d.toNat = 52 ∨ d.toNat = 53 ∨
      d.toNat = 54 ∨ d.toNat = 55 ∨ d.toNat = 56 ∨ d.toNat = 57 := by omega
  rcases this with e | e | e | e | e | e | e | e | e | e
  · exact Or.inl (char_eq_of_toNat _ _ e)
  · exact Or.inr (Or.inl (char_eq_of_toNat _ _ e))
  · exact Or.inr (Or.inr (Or.inl (char_eq_of_toNat _ _ e)))
  · exact Or.inr (Or.inr (Or.inr (Or.inl (char_eq_of_toNat _ _ e))))
  · exact Or.inr (Or.inr (Or.inr (Or.inr (Or.inl (char_eq_of_toNat _ _ e)))))
  · exact Or.inr (Or.inr (Or.inr (Or.inr (Or.inr (Or.inl (char_eq_of_toNat _ _ e))))))
  · exact Or.inr (Or.inr (Or.inr (Or.inr (Or.inr (Or.inr (Or.inl (char_eq_of_toNat _ _ e)))))))
  · exact Or.inr (Or.inr (Or.inr (Or.inr (Or.inr (Or.inr (Or.inr (Or.inl (char_eq_of_toNat _ _ e))))))))
  · exact Or.inr (Or.inr (Or.inr (Or.inr (Or.inr (Or.inr (Or.inr (Or.inr (Or.inl (char_eq_of_toNat _ _ e)))))))))
  · exact Or.inr (Or.inr (Or.inr (Or.inr (Or.inr (Or.inr (Or.inr (Or.inr (Or.inr (char_eq_of_toNat _ _ e)))))))))

/-- a bare version text (first character a digit) takes the `BASIC_CONSTRAINT` branch with no operator -/
theorem parseSingle_bare_aux (d : Char) (hdig : isDigit d = true) (ds : List Char) (t : String) (v : Version)
    (hbv : VParser.basicVersion? (d :: ds) = some (t, false)) (hx : xcore false (d :: ds) = none)
    (hdev : (t == "dev") = false) (hp : Version.parse t = .ok v) :
    VParser.parseSingle (d :: ds) true = .ok (.single (.ver v)) := by
  rcases digit_cases d hdig with rfl | rfl | rfl | rfl | rfl | rfl | rfl | rfl | rfl | rfl <;>
  · unfold VParser.parseSingle
    simp [VParser.isAnyPattern, xConstraint?_eq, xprefix, hx, VParser.basicOp,
      dropSpaces_of_head _ ds (digit_not_space _ hdig), hbv, hdev, VParser.parseVersionText, hp,
      bind, Except.bind, pure, Except.pure]

theorem parseSingle_bare (x : Nat) (r : List Nat) :
    VParser.parseSingle (relChars x r) true = .ok (.single (.ver (litV x r))) := by
  obtain ⟨d, ds, hd, hdig⟩ := relChars_cons x r
  have h1 := basicVersion?_relChars x r
  have h2 := xcore_relChars false x r
  rw [ofList_relChars] at h1
  rw [hd] at h1 h2 ⊢
  exact parseSingle_bare_aux d hdig ds _ _ h1 h2 (relText_ne_dev x r) (parse_relText x r)

theorem relChars_vPlain (x : Nat) (r : List Nat) : ∀ c ∈ relChars x r, vPlain c := by
  intro c hc
  rcases relChars_chars x r c hc with h | rfl
  · exact ⟨digit_not_space c h, digit_ne c '|' h (by decide), digit_ne c ',' h (by decide)⟩
  · unfold vPlain; decide

/-- the comparison operators of version variables with their specifier tags -/
def verOpTable : List (Spec.SOp × String) :=
  [(.eq, "=="), (.ne, "!="), (.lt, "<"), (.le, "<="), (.gt, ">"), (.ge, ">="), (.compat, "~=")]

theorem pmvc_chars (pre : List Char) (hpre : ∀ c ∈ pre, vPlain c) (hstar : pre.head? ≠ some '*') (x : Nat)
    (r : List Nat) :
    VParser.parseMarkerVersionConstraint (String.ofList (pre ++ relChars x r)) =
      VParser.parseSingle (pre ++ relChars x r) true := by
  unfold VParser.parseMarkerVersionConstraint
  apply parseConstraintAux_plain
  · intro c hc
    rcases List.mem_append.1 hc with h | h
    · exact hpre c h
    · exact relChars_vPlain x r c h
  · obtain ⟨d, ds, hd, hdig⟩ := relChars_cons x r
    cases pre with
    | nil => rw [List.nil_append, hd]; exact ofList_ne_star d ds (digit_ne d '*' hdig (by decide))
    | cons p ps => exact ofList_ne_star p _ (by simpa using hstar)

/-- **`parse_marker_version_constraint(op ++ "X.Y.Z…")`, for all numbers and every operator**: the constraint
of the clause `op V` -/
theorem pmvc_op (sop : Spec.SOp) (ops : String) (hop : (sop, ops) ∈ verOpTable) (x : Nat) (r : List Nat) :
    VParser.parseMarkerVersionConstraint (ops ++ Version.relText (x :: r)) = clauseVC sop (litV x r) := by
  simp only [verOpTable, List.mem_cons, Prod.mk.injEq, List.mem_nil_iff, or_false] at hop
  have key : ∀ (pre : List Char) (o : String), o.toList = pre →
      o ++ Version.relText (x :: r) = String.ofList (pre ++ relChars x r) := by
    intro pre o ho; exact str_eq_of_toList (by simp [relText_toList, ho])
  have vp : ∀ c : Char, c ∈ ['=', '!', '<', '>', '~'] → vPlain c := by
    intro c hc; simp at hc; rcases hc with rfl | rfl | rfl | rfl | rfl <;> (unfold vPlain; decide)
  rcases hop with ⟨rfl, rfl⟩ | ⟨rfl, rfl⟩ | ⟨rfl, rfl⟩ | ⟨rfl, rfl⟩ | ⟨rfl, rfl⟩ | ⟨rfl, rfl⟩ | ⟨rfl, rfl⟩
  · rw [key ['=', '='] "==" rfl, pmvc_chars _ (fun c hc => vp c (by simp at hc ⊢; rcases hc with rfl | rfl <;> simp)) (by simp)]
    exact parseSingle_eq x r
  · rw [key ['!', '='] "!=" rfl, pmvc_chars _ (fun c hc => vp c (by simp at hc ⊢; rcases hc with rfl | rfl <;> simp)) (by simp)]
    exact parseSingle_ne x r
  · rw [key ['<'] "<" rfl, pmvc_chars _ (fun c hc => vp c (by simp at hc ⊢; rcases hc with rfl <;> simp)) (by simp)]
    exact parseSingle_lt x r
  · rw [key ['<', '='] "<=" rfl, pmvc_chars _ (fun c hc => vp c (by simp at hc ⊢; rcases hc with rfl | rfl <;> simp)) (by simp)]
    exact parseSingle_le x r
  · rw [key ['>'] ">" rfl, pmvc_chars _ (fun c hc => vp c (by simp at hc ⊢; rcases hc with rfl <;> simp)) (by simp)]
    exact parseSingle_gt x r
  · rw [key ['>', '='] ">=" rfl, pmvc_chars _ (fun c hc => vp c (by simp at hc ⊢; rcases hc with rfl | rfl <;> simp)) (by simp)]
    exact parseSingle_ge x r
  · rw [key ['~', '='] "~=" rfl, pmvc_chars _ (fun c hc => vp c (by simp at hc ⊢; rcases hc with rfl | rfl <;> simp)) (by simp)]
    exact parseSingle_compat x r

/-- **`parse_marker_version_constraint("X.Y.Z…")`**: the environment value as a single version -/
theorem pmvc_bare (x : Nat) (r : List Nat) :
    VParser.parseMarkerVersionConstraint (Version.relText (x :: r)) = .ok (.single (.ver (litV x r))) := by
  rw [← ofList_relChars]
  have := pmvc_chars [] (by simp) (by simp) x r
  simp only [List.nil_append] at this
  rw [this]; exact parseSingle_bare x r



theorem relChars_valueOk (x : Nat) (r : List Nat) : valueOk (relChars x r) := by
  obtain ⟨d, ds, hd, _⟩ := relChars_cons x r
  exact ⟨by rw [hd]; simp, relChars_noSpace x r⟩

/-- `_CONSTRAINT_RE_PATTERN_1` on `op ++ "X.Y…"` -/
theorem matchPattern1_ver (sop : Spec.SOp) (ops : String) (hop : (sop, ops) ∈ verOpTable) (x : Nat) (r : List Nat) :
    matchPattern1 (ops ++ Version.relText (x :: r)).toList = some (some ops, Version.relText (x :: r)) := by
  obtain ⟨d, ds, hd, hdig⟩ := relChars_cons x r
  have hvo := relChars_valueOk x r
  have hne : d ≠ '=' := digit_ne d '=' hdig (by decide)
  have hs : String.ofList (d :: ds) = Version.relText (x :: r) := by rw [← hd, ofList_relChars]
  rw [hd] at hvo
  simp only [verOpTable, List.mem_cons, Prod.mk.injEq, List.mem_nil_iff, or_false] at hop
  rcases hop with ⟨rfl, rfl⟩ | ⟨rfl, rfl⟩ | ⟨rfl, rfl⟩ | ⟨rfl, rfl⟩ | ⟨rfl, rfl⟩ | ⟨rfl, rfl⟩ | ⟨rfl, rfl⟩
  · have : ("==" ++ Version.relText (x :: r)).toList = '=' :: '=' :: d :: ds := by simp [relText_toList, hd]
    rw [this, matchPattern1_eq d ds hne hvo, hs]
  · have : ("!=" ++ Version.relText (x :: r)).toList = '!' :: '=' :: d :: ds := by simp [relText_toList, hd]
    rw [this, matchPattern1_ne d ds hvo, hs]
  · have : ("<" ++ Version.relText (x :: r)).toList = '<' :: d :: ds := by simp [relText_toList, hd]
    rw [this, matchPattern1_lt d ds hne hvo, hs]
  · have : ("<=" ++ Version.relText (x :: r)).toList = '<' :: '=' :: d :: ds := by simp [relText_toList, hd]
    rw [this, matchPattern1_le d ds hvo, hs]
  · have : (">" ++ Version.relText (x :: r)).toList = '>' :: d :: ds := by simp [relText_toList, hd]
    rw [this, matchPattern1_gt d ds hne hvo, hs]
  · have : (">=" ++ Version.relText (x :: r)).toList = '>' :: '=' :: d :: ds := by simp [relText_toList, hd]
    rw [this, matchPattern1_ge d ds hvo, hs]
  · have : ("~=" ++ Version.relText (x :: r)).toList = '~' :: '=' :: d :: ds := by simp [relText_toList, hd]
    rw [this, matchPattern1_compat d ds hvo, hs]

theorem verOp_not_list (sop : Spec.SOp) (ops : String) (hop : (sop, ops) ∈ verOpTable) :
    (ops == "in") = false ∧ (ops == "not in") = false := by
  simp only [verOpTable, List.mem_cons, Prod.mk.injEq, List.mem_nil_iff, or_false] at hop
  rcases hop with ⟨_, rfl⟩ | ⟨_, rfl⟩ | ⟨_, rfl⟩ | ⟨_, rfl⟩ | ⟨_, rfl⟩ | ⟨_, rfl⟩ | ⟨_, rfl⟩ <;> decide

theorem clauseVC_ok (sop : Spec.SOp) (ops : String) (hop : (sop, ops) ∈ verOpTable) (V : Version) :
    ∃ c, clauseVC sop V = .ok c := by
  simp only [verOpTable, List.mem_cons, Prod.mk.injEq, List.mem_nil_iff, or_false] at hop
  rcases hop with ⟨rfl, _⟩ | ⟨rfl, _⟩ | ⟨rfl, _⟩ | ⟨rfl, _⟩ | ⟨rfl, _⟩ | ⟨rfl, _⟩ | ⟨rfl, _⟩ <;> exact ⟨_, rfl⟩

/-- `python_version op "X.Y…"` -/
theorem leafPrepare_pv (sop : Spec.SOp) (ops : String) (hop : (sop, ops) ∈ verOpTable) (x : Nat) (r : List Nat) :
    leafPrepare "python_version" (ops ++ Version.relText (x :: r)) false =
      .ok { name := "python_version", op := ops, value := Version.relText (x :: r), swapped := false,
            cstr := ops ++ Version.relText (x :: r), kind := .version true } := by
  obtain ⟨l1, l2⟩ := verOp_not_list sop ops hop
  unfold leafPrepare
  simp only [Bool.false_eq_true, if_false, matchPattern1_ver sop ops hop x r, Option.getD_some, l1, l2,
    Bool.false_and, Bool.or_false]
  have f1 : Gen.versionLikeMarkerNames.contains "python_version" = true := by decide
  have f2 : ("python_version" == "python_full_version") = false := by decide
  have f3 : aliasName "python_version" = "python_version" := by decide
  have f4 : ("python_version" != "platform_release") = true := by decide
  have f1' : "python_version" ∈ Gen.versionLikeMarkerNames := by decide
  simp [f1, f1', f2, f3, f4]

theorem dg_filter_dot (n : Nat) : (dg n).filter (· == '.') = [] := by
  rw [List.filter_eq_nil_iff]
  intro c hc
  have := digit_ne c '.' (dg_isDigit n c hc) (by decide)
  simpa using this

theorem relTail_countDots (r : List Nat) : ((relTail r).filter (· == '.')).length = r.length := by
  induction r with
  | nil => rfl
  | cons y r ih => simp [relTail, List.filter_append, dg_filter_dot, ih]

theorem countChar_relText (x : Nat) (r : List Nat) : countChar '.' (Version.relText (x :: r)) = r.length := by
  unfold countChar
  rw [relText_toList, relChars, List.filter_append, dg_filter_dot, List.nil_append, relTail_countDots]

theorem relChars_decimal (x : Nat) (r : List Nat) :
    isDecimalAscii ((relChars x r).filter (· != '.')) = true := by
  obtain ⟨d, ds, hd, hdig⟩ := relChars_cons x r
  unfold isDecimalAscii
  rw [Bool.and_eq_true]
  constructor
  · have hne : d ≠ '.' := digit_ne d '.' hdig (by decide)
    have hb : (d != '.') = true := by simpa using hne
    rw [hd]; simp [List.filter, hb]
  · rw [List.all_eq_true]
    intro c hc
    rw [List.mem_filter] at hc
    rcases relChars_chars x r c hc.1 with h | rfl
    · exact h
    · simp at hc

theorem dg_zero : dg 0 = ['0'] := by decide

theorem relText_pad (x y : Nat) : Version.relText [x, y] ++ ".0" = Version.relText [x, y, 0] :=
  str_eq_of_toList (by simp [relText_toList, relChars, relTail, dg_zero])

/-- `python_full_version op "X.Y"`: the value and the constraint string are padded to `X.Y.0` -/
theorem leafPrepare_pfv2 (sop : Spec.SOp) (ops : String) (hop : (sop, ops) ∈ verOpTable) (x y : Nat) :
    leafPrepare "python_full_version" (ops ++ Version.relText [x, y]) false =
      .ok { name := "python_full_version", op := ops, value := Version.relText [x, y, 0], swapped := false,
            cstr := ops ++ Version.relText [x, y, 0], kind := .version true } := by
  obtain ⟨l1, l2⟩ := verOp_not_list sop ops hop
  unfold leafPrepare
  simp only [Bool.false_eq_true, if_false, matchPattern1_ver sop ops hop x [y], Option.getD_some, l1, l2,
    Bool.false_and, Bool.or_false]
  have f1 : Gen.versionLikeMarkerNames.contains "python_full_version" = true := by decide
  have f1' : "python_full_version" ∈ Gen.versionLikeMarkerNames := by decide
  have f3 : aliasName "python_full_version" = "python_full_version" := by decide
  have f4 : ("python_full_version" != "platform_release") = true := by decide
  have hdec := relChars_decimal x [y]
  rw [← relText_toList] at hdec
  have hj : String.join (List.replicate (3 - (1 + 1)) ".0") = ".0" := by decide
  simp [f1, f1', f3, f4, countChar_relText, hdec, hj, ← relText_pad, String.append_assoc]

/-- `python_full_version op "X.Y.Z…"` (three or more components): no padding -/
theorem leafPrepare_pfv3 (sop : Spec.SOp) (ops : String) (hop : (sop, ops) ∈ verOpTable) (x : Nat) (r : List Nat)
    (hr : 2 ≤ r.length) :
    leafPrepare "python_full_version" (ops ++ Version.relText (x :: r)) false =
      .ok { name := "python_full_version", op := ops, value := Version.relText (x :: r), swapped := false,
            cstr := ops ++ Version.relText (x :: r), kind := .version true } := by
  obtain ⟨l1, l2⟩ := verOp_not_list sop ops hop
  unfold leafPrepare
  simp only [Bool.false_eq_true, if_false, matchPattern1_ver sop ops hop x r, Option.getD_some, l1, l2,
    Bool.false_and, Bool.or_false]
  have f1 : Gen.versionLikeMarkerNames.contains "python_full_version" = true := by decide
  have f1' : "python_full_version" ∈ Gen.versionLikeMarkerNames := by decide
  have f3 : aliasName "python_full_version" = "python_full_version" := by decide
  have f4 : ("python_full_version" != "platform_release") = true := by decide
  have hp : ¬ (r.length + 1 < 3) := by omega
  simp [f1, f1', f3, f4, countChar_relText, hp]

theorem parseByKind_ver (s : String) (c : VC) (h : VParser.parseMarkerVersionConstraint s = .ok c) :
    parseByKind (.version true) s = .ok (.ver c) := by
  simp [parseByKind, parseVersionKind, h, Except.map]

theorem mkSingle_pv (sop : Spec.SOp) (ops : String) (hop : (sop, ops) ∈ verOpTable) (x : Nat) (r : List Nat)
    (c : VC) (hc : clauseVC sop (litV x r) = .ok c) :
    mkSingle "python_version" (ops ++ Version.relText (x :: r)) false =
      .ok ⟨"python_version", ops, Version.relText (x :: r), false, .ver c⟩ := by
  have hp := pmvc_op sop ops hop x r
  rw [hc] at hp
  simp [mkSingle, leafPrepare_pv sop ops hop x r, bind, Except.bind, parseByKind_ver _ c hp, pure, Except.pure]

theorem mkSingle_pfv3 (sop : Spec.SOp) (ops : String) (hop : (sop, ops) ∈ verOpTable) (x : Nat) (r : List Nat)
    (hr : 2 ≤ r.length) (c : VC) (hc : clauseVC sop (litV x r) = .ok c) :
    mkSingle "python_full_version" (ops ++ Version.relText (x :: r)) false =
      .ok ⟨"python_full_version", ops, Version.relText (x :: r), false, .ver c⟩ := by
  have hp := pmvc_op sop ops hop x r
  rw [hc] at hp
  simp [mkSingle, leafPrepare_pfv3 sop ops hop x r hr, bind, Except.bind, parseByKind_ver _ c hp, pure, Except.pure]

theorem mkSingle_pfv2 (sop : Spec.SOp) (ops : String) (hop : (sop, ops) ∈ verOpTable) (x y : Nat)
    (c : VC) (hc : clauseVC sop (litV x [y, 0]) = .ok c) :
    mkSingle "python_full_version" (ops ++ Version.relText [x, y]) false =
      .ok ⟨"python_full_version", ops, Version.relText [x, y, 0], false, .ver c⟩ := by
  have hp := pmvc_op sop ops hop x [y, 0]
  rw [hc] at hp
  simp [mkSingle, leafPrepare_pfv2 sop ops hop x y, bind, Except.bind, parseByKind_ver _ c hp, pure, Except.pure]

/-- the two Python version variables -/
def pyVerNames : List String := ["python_version", "python_full_version"]

theorem validateValue_ver (name : String) (hn : name ∈ pyVerNames) (vc : VC) (x : Nat) (r : List Nat) :
    validateValue name (.ver vc) (Version.relText (x :: r)) = vc.allows (litV x r) := by
  have h1 : (name != "platform_release") = true := by
    simp only [pyVerNames, List.mem_cons, List.mem_nil_iff, or_false] at hn
    rcases hn with rfl | rfl <;> decide
  simp [validateValue, h1, parseVersionKind, pmvc_bare]

theorem validateLike_ver (name : String) (hn : name ∈ pyVerNames) (vc : VC) (E : Env) (x : Nat) (r : List Nat)
    (hev : E.get? name = some (Version.relText (x :: r))) :
    validateLike name (.ver vc) E = vc.allows (litV x r) := by
  have h1 : (name == "extra") = false := by
    simp only [pyVerNames, List.mem_cons, List.mem_nil_iff, or_false] at hn
    rcases hn with rfl | rfl <;> decide
  simp [validateLike, h1, hev, validateValue_ver name hn]

theorem litV_final (x : Nat) (r : List Nat) : Spec.Pep508.isFinal (litV x r) = true := by
  simp [Spec.Pep508.isFinal, litV, relVersion]

theorem litV_wf (x : Nat) (r : List Nat) : (litV x r).wf = true := by
  simp [Version.wf, litV, relVersion, Version.optAll]

theorem parseFinal_relText (x : Nat) (r : List Nat) :
    Spec.Pep508.parseFinal (Version.relText (x :: r)) = some (litV x r) := by
  simp [Spec.Pep508.parseFinal, parse_relText, litV_final, litV]
  exact litV_final x r

open Spec.Pep508 in
/-- the reference on `name op "X.Y…"` with the environment value `"X'.Y'…"` -/
theorem evalItem_ver (name : String) (hn : name ∈ pyVerNames) (sop : Spec.SOp) (ops : String)
    (hop : (sop, ops) ∈ verOpTable) (E : Env) (x : Nat) (r : List Nat) (x' : Nat) (r' : List Nat)
    (hev : E.get? name = some (Version.relText (x' :: r'))) :
    evalItem name ops (Version.relText (x :: r)) false E = versionOp ops (litV x r) (litV x' r') := by
  obtain ⟨l1, l2⟩ := verOp_not_list sop ops hop
  have h1 : canonVar name = name ∧ (name == "extra") = false ∧ name ∈ versionVars := by
    simp only [pyVerNames, List.mem_cons, List.mem_nil_iff, or_false] at hn
    rcases hn with rfl | rfl <;> decide
  unfold evalItem
  simp only [h1.1, h1.2.1, Bool.false_eq_true, if_false, hev, List.contains_iff_mem, h1.2.2, if_true]
  split
  · simp at l1
  · simp at l2
  · simp [parseFinal_relText]

theorem orderedOps_sub (sop : Spec.SOp) (ops : String) (h : (sop, ops) ∈ orderedOps) : (sop, ops) ∈ verOpTable := by
  simp only [orderedOps, verOpTable, List.mem_cons, Prod.mk.injEq, List.mem_nil_iff, or_false] at h ⊢
  rcases h with h | h | h | h | h | h <;> simp [h]

open Spec.Pep508 in
/-- **`python_version op "X.Y…"`, text level**, `==,!=,<,<=,>,>=`, all numbers, any number of components -/
theorem agree_pv (E : Env) (sop : Spec.SOp) (ops : String) (hop : (sop, ops) ∈ orderedOps) (x : Nat) (r : List Nat)
    (x' : Nat) (r' : List Nat) (hev : E.get? "python_version" = some (Version.relText (x' :: r'))) :
    ∃ b, itemV E "python_version" ops (Version.relText (x :: r)) false = .ok b ∧
      evalItem "python_version" ops (Version.relText (x :: r)) false E = some b ∧
      itemCoherent "python_version" ops (Version.relText (x :: r)) false = true := by
  have hop' := orderedOps_sub sop ops hop
  obtain ⟨c, b, hc, ha, hs⟩ := version_token_agree sop ops hop (litV x r) (litV x' r') (litV_final x r)
    (litV_final x' r') (litV_wf x r) (litV_wf x' r')
  have hm := mkSingle_pv sop ops hop' x r c hc
  refine ⟨b, ?_, ?_, ?_⟩
  · simp only [itemV, itemConstraintString, Bool.false_eq_true, if_false, hm]
    rw [validateLike_ver _ (by decide) c E x' r' hev, ha]
  · rw [evalItem_ver _ (by decide) sop ops hop' E x r x' r' hev, hs]
  · simp [itemCoherent, Single.coherent, itemConstraintString, hm]

open Spec.Pep508 in
/-- **`python_full_version op "X.Y.Z…"`** (three or more components) -/
theorem agree_pfv3 (E : Env) (sop : Spec.SOp) (ops : String) (hop : (sop, ops) ∈ orderedOps) (x : Nat) (r : List Nat)
    (hr : 2 ≤ r.length) (x' : Nat) (r' : List Nat)
    (hev : E.get? "python_full_version" = some (Version.relText (x' :: r'))) :
    ∃ b, itemV E "python_full_version" ops (Version.relText (x :: r)) false = .ok b ∧
      evalItem "python_full_version" ops (Version.relText (x :: r)) false E = some b ∧
      itemCoherent "python_full_version" ops (Version.relText (x :: r)) false = true := by
  have hop' := orderedOps_sub sop ops hop
  obtain ⟨c, b, hc, ha, hs⟩ := version_token_agree sop ops hop (litV x r) (litV x' r') (litV_final x r)
    (litV_final x' r') (litV_wf x r) (litV_wf x' r')
  have hm := mkSingle_pfv3 sop ops hop' x r hr c hc
  refine ⟨b, ?_, ?_, ?_⟩
  · simp only [itemV, itemConstraintString, Bool.false_eq_true, if_false, hm]
    rw [validateLike_ver _ (by decide) c E x' r' hev, ha]
  · rw [evalItem_ver _ (by decide) sop ops hop' E x r x' r' hev, hs]
  · simp [itemCoherent, Single.coherent, itemConstraintString, hm]

theorem cmpRef_pad (v : Version) (x y : Nat) :
    Spec.cmpRef v (litV x [y, 0]) = Spec.cmpRef v (litV x [y]) := by
  have h : Spec.refRelease [x, y, 0] = Spec.refRelease [x, y] := by
    rw [← Version.stripZeros_eq_ref, ← Version.stripZeros_eq_ref]
    exact Version.stripZeros_append_zero [x, y]
  simp [Spec.cmpRef, litV, relVersion, h, Spec.refPre, Spec.refPost, Spec.refDev, Spec.refLocal]

open Spec.Pep508 in
theorem versionOp_pad (sop : Spec.SOp) (ops : String) (hop : (sop, ops) ∈ orderedOps) (v : Version) (x y : Nat) :
    versionOp ops (litV x [y, 0]) v = versionOp ops (litV x [y]) v := by
  simp only [orderedOps, List.mem_cons, Prod.mk.injEq, List.mem_nil_iff, or_false] at hop
  rcases hop with ⟨_, rfl⟩ | ⟨_, rfl⟩ | ⟨_, rfl⟩ | ⟨_, rfl⟩ | ⟨_, rfl⟩ | ⟨_, rfl⟩ <;>
    simp [versionOp, litV_final, cmpRef_pad]

open Spec.Pep508 in
/-- **`python_full_version op "X.Y"`**: the padding to `X.Y.0` is harmless for the ordered comparisons -/
theorem agree_pfv2 (E : Env) (sop : Spec.SOp) (ops : String) (hop : (sop, ops) ∈ orderedOps) (x y : Nat)
    (x' : Nat) (r' : List Nat) (hev : E.get? "python_full_version" = some (Version.relText (x' :: r'))) :
    ∃ b, itemV E "python_full_version" ops (Version.relText [x, y]) false = .ok b ∧
      evalItem "python_full_version" ops (Version.relText [x, y]) false E = some b ∧
      itemCoherent "python_full_version" ops (Version.relText [x, y]) false = true := by
  have hop' := orderedOps_sub sop ops hop
  obtain ⟨c, b, hc, ha, hs⟩ := version_token_agree sop ops hop (litV x [y, 0]) (litV x' r') (litV_final _ _)
    (litV_final x' r') (litV_wf _ _) (litV_wf x' r')
  have hm := mkSingle_pfv2 sop ops hop' x y c hc
  have hm3 := mkSingle_pfv3 sop ops hop' x [y, 0] (by simp) c hc
  refine ⟨b, ?_, ?_, ?_⟩
  · simp only [itemV, itemConstraintString, Bool.false_eq_true, if_false, hm]
    rw [validateLike_ver _ (by decide) c E x' r' hev, ha]
  · rw [evalItem_ver _ (by decide) sop ops hop' E x [y] x' r' hev, ← versionOp_pad sop ops hop, hs]
  · simp [itemCoherent, Single.coherent, itemConstraintString, hm, hm3]

end Poetry.Marker
