/-
C19 (version-constraint part), second helper file: the constraint algebra is total on what the parser builds
when no bound is a local build (`NoLocal`), and on comma-groups of non-union clauses unconditionally.
-/
import PoetryVerif.Proofs.ParserTotalVC
import PoetryVerif.Proofs.EqHashParse
import PoetryVerif.Proofs.VRangeInterU
import PoetryVerif.Proofs.VRangeSelf
import PoetryVerif.Proofs.VRangeDiffU

set_option linter.unusedSimpArgs false
set_option linter.unusedVariables false

namespace Poetry.ParserTotal
open Poetry Version VParser EqHash

/-! ## the invariant -/

/-- a member the totality lemmas accept: well-formed, tidy, bounds among `B` (a set without local builds) -/
def MemOK (B : List Version) (c : RC) : Prop := c.WF ∧ c.Tidy ∧ ∀ e ∈ c.bounds, e ∈ B

/-- **the invariant** kept by everything the parser feeds to the algebra: every member is well-formed and tidy
over the bound set `B` -/
def Inv (B : List Version) (c : VC) : Prop := ∀ r ∈ c.flatten, MemOK B r

variable {B : List Version}

theorem Inv.empty : Inv B .empty := by intro r hr; simp [VC.flatten] at hr

theorem Inv.single {c : RC} (h : MemOK B c) : Inv B (.single c) := by
  intro r hr; simp [VC.flatten] at hr; subst hr; exact h

theorem Inv.good {c : VC} (h : Inv B c) : Good c.flatten := fun r hr => ⟨(h r hr).1, (h r hr).2.1⟩

theorem boundsOf_sub {l : List RC} (h : ∀ c ∈ l, MemOK B c) : ∀ e ∈ boundsOf l, e ∈ B := by
  intro e he
  obtain ⟨c, hc, hec⟩ := List.mem_flatMap.1 he
  exact (h c hc).2.2 e hec

/-- **`VersionUnion.of` is total on acceptable members and keeps the invariant** -/
theorem unionOfFlat_inv (hN : NoLocal B) (l : List RC) (h : ∀ c ∈ l, MemOK B c) :
    ∃ res, unionOfFlat l = .ok res ∧ Inv B res := by
  have hg : Good l := fun c hc => ⟨(h c hc).1, (h c hc).2.1⟩
  have hsub := boundsOf_sub h
  obtain ⟨res, hres, _⟩ := unionOfFlat_total l hg (noLocalLower_of_bounds hN l hsub)
  obtain ⟨g1, g2, _⟩ := unionOfFlat_sem l res hres hg
  refine ⟨res, hres, fun r hr => ⟨(g1 r hr).1, (g1 r hr).2, ?_⟩⟩
  intro e he
  exact hsub e (g2 e (by rw [VC.bounds_eq_flatMap]; exact List.mem_flatMap.2 ⟨r, hr, he⟩))

theorem unionOf_inv (hN : NoLocal B) (gs : List VC) (h : ∀ g ∈ gs, Inv B g) :
    ∃ res, VC.unionOf gs = .ok res ∧ Inv B res :=
  unionOfFlat_inv hN _ (by
    intro c hc
    obtain ⟨g, hg, hcg⟩ := List.mem_flatMap.1 hc
    exact h g hg c hcg)

/-! ## member ∩ member -/

/-- range ∩ range, when it is a range, is tidy -/
theorem rngIntersectRng_Tidy (a b : VRange) (hta : a.Tidy) (htb : b.Tidy) (r : VRange)
    (h : RC.rngIntersectRng a b = .ok (.single (.rng r))) : r.Tidy := by
  rw [VRange.rngIntersectRng_eq] at h
  have fin : ∀ (L H : VRange), L.Tidy → H.Tidy →
      VRange.interFinish L.min L.imin H.max H.imax = .ok (.single (.rng r)) → r.Tidy := by
    intro L H hL hH hf
    rcases VRange.interFinish_rng hf with rfl | ⟨rfl, _⟩
    · exact VRange.any_Tidy_NE.1
    · exact ⟨fun h => hL.1 h, fun h => hH.2 h⟩
  by_cases h1 : a.allowsLower b = true
  · simp only [h1, if_true] at h
    by_cases h2 : a.isStrictlyLower b = true
    · simp [h2] at h
    · simp only [h2, Bool.false_eq_true, if_false] at h
      by_cases h3 : a.allowsHigher b = true
      · simp only [h3, if_true] at h; exact fin b b htb htb h
      · simp only [h3, Bool.false_eq_true, if_false] at h; exact fin b a htb hta h
  · simp only [h1, Bool.false_eq_true, if_false] at h
    by_cases h2 : b.isStrictlyLower a = true
    · simp [h2] at h
    · simp only [h2, Bool.false_eq_true, if_false] at h
      by_cases h3 : a.allowsHigher b = true
      · simp only [h3, if_true] at h; exact fin a b hta htb h
      · simp only [h3, Bool.false_eq_true, if_false] at h; exact fin a a hta hta h

theorem noLocalMinCase (hN : NoLocal B) {c : RC} (hc : MemOK B c) (r : VRange) (x : Version) (h : c = .rng r) :
    ¬ RC.LocalMinCase r x := by
  rintro ⟨_, m, hm, hl, _⟩
  subst h
  have := hN m (hc.2.2 m (VRange.mem_bounds_min hm))
  rw [this] at hl; cases hl

/-- **member ∩ member is total, not a union, and keeps the invariant** -/
theorem rcIntersect_inv (hN : NoLocal B) (a b : RC) (ha : MemOK B a) (hb : MemOK B b) :
    ∃ i, RC.intersect a b = .ok i ∧ i.notUnion ∧ Inv B i := by
  obtain ⟨i, hi⟩ := RC.intersect_ok a b ha.1 hb.1
  obtain ⟨s1, s2, s3⟩ := RC.intersect_struct a b ha.1 hb.1 (by
    intro r x hx
    rcases hx with ⟨h1, _⟩ | ⟨_, h1⟩
    · exact noLocalMinCase hN ha r x h1
    · exact noLocalMinCase hN hb r x h1) i hi
  refine ⟨i, hi, s1, fun c hc => ⟨s2 c hc, ?_, ?_⟩⟩
  · -- tidy
    cases c with
    | ver v => trivial
    | rng r =>
      cases a with
      | ver x =>
        cases b with
        | ver y =>
          simp only [RC.intersect, Except.ok.injEq, RC.verIntersectVer] at hi
          subst hi
          split at hc
          · simp [VC.flatten] at hc
          · split at hc <;> simp [VC.flatten] at hc
        | rng s =>
          simp only [RC.intersect, Except.ok.injEq, RC.rngIntersectVer] at hi
          subst hi
          split at hc
          · simp [VC.flatten] at hc
          · split at hc
            · split at hc
              · simp [VC.flatten] at hc; subst hc; exact ⟨fun h => by simp at h, fun h => by simp at h⟩
              · simp [VC.flatten] at hc
            · simp [VC.flatten] at hc
      | rng s =>
        cases b with
        | ver y =>
          simp only [RC.intersect, Except.ok.injEq, RC.rngIntersectVer] at hi
          subst hi
          split at hc
          · simp [VC.flatten] at hc
          · split at hc
            · split at hc
              · simp [VC.flatten] at hc; subst hc; exact ⟨fun h => by simp at h, fun h => by simp at h⟩
              · simp [VC.flatten] at hc
            · simp [VC.flatten] at hc
        | rng t =>
          simp only [RC.intersect] at hi
          cases i with
          | empty => simp [VC.flatten] at hc
          | union ds => exact absurd s1 (by simp [VC.notUnion])
          | single d =>
            simp [VC.flatten] at hc; subst hc
            exact rngIntersectRng_Tidy s t ha.2.1 hb.2.1 r hi
  · intro e he
    have : e ∈ i.bounds := by rw [VC.bounds_eq_flatMap]; exact List.mem_flatMap.2 ⟨c, hc, he⟩
    rcases s3 e this with h1 | h1
    · exact ha.2.2 e h1
    · exact hb.2.2 e h1

/-! ## the merge walk of `VersionUnion.intersect` -/

/-- **the walk returns with any fuel above the two lengths** (it drops one member per step) and collects
invariant parts -/
theorem unionIntersectLoop_inv (hN : NoLocal B) : ∀ (fuel : Nat) (ours theirs : List RC) (acc : List VC),
    ours.length + theirs.length < fuel → (∀ c ∈ ours, MemOK B c) → (∀ c ∈ theirs, MemOK B c) →
    (∀ q ∈ acc, Inv B q) →
    ∃ parts, VC.unionIntersectLoop fuel ours theirs acc = .ok parts ∧ ∀ q ∈ parts, Inv B q
  | 0, _, _, _, hf, _, _, _ => by omega
  | fuel + 1, [], theirs, acc, _, _, _, ha => ⟨acc, by simp [VC.unionIntersectLoop], ha⟩
  | fuel + 1, o :: os, [], acc, _, _, _, ha => ⟨acc, by simp [VC.unionIntersectLoop], ha⟩
  | fuel + 1, o :: os, t :: ts, acc, hf, ho, ht, ha => by
    obtain ⟨i, hi, _, hinv⟩ := rcIntersect_inv hN o t (ho o (by simp)) (ht t (by simp))
    simp only [VC.unionIntersectLoop, bind, Except.bind, hi]
    have ha' : ∀ q ∈ (if i.isEmpty = true then acc else acc ++ [i]), Inv B q := by
      intro q hq
      split at hq
      · exact ha q hq
      · simp only [List.mem_append, List.mem_singleton] at hq
        rcases hq with h1 | rfl
        · exact ha q h1
        · exact hinv
    split
    · exact unionIntersectLoop_inv hN fuel os (t :: ts) _ (by simp at hf ⊢; omega)
        (fun c hc => ho c (by simp [hc])) ht ha'
    · exact unionIntersectLoop_inv hN fuel (o :: os) ts _ (by simp at hf ⊢; omega)
        ho (fun c hc => ht c (by simp [hc])) ha'

/-- **`a.intersect(b)` is total on invariant operands and keeps the invariant** -/
theorem vcIntersect_inv (hN : NoLocal B) (a b : VC) (ha : Inv B a) (hb : Inv B b) :
    ∃ c, VC.intersect a b = .ok c ∧ Inv B c := by
  cases a with
  | empty => exact ⟨.empty, rfl, Inv.empty⟩
  | single x =>
    cases b with
    | empty => exact ⟨.empty, rfl, Inv.empty⟩
    | single y =>
      obtain ⟨i, hi, _, hinv⟩ := rcIntersect_inv hN x y (ha x (by simp [VC.flatten])) (hb y (by simp [VC.flatten]))
      exact ⟨i, hi, hinv⟩
    | union rs =>
      obtain ⟨parts, hp, hpi⟩ := unionIntersectLoop_inv hN (rs.length + 2) rs [x] [] (by simp)
        (fun c hc => hb c hc) (fun c hc => by simp at hc; subst hc; exact ha c (by simp [VC.flatten])) (by simp)
      obtain ⟨res, hres, hri⟩ := unionOf_inv hN parts hpi
      exact ⟨res, by simp [VC.intersect, hp, hres, bind, Except.bind], hri⟩
  | union rs =>
    obtain ⟨parts, hp, hpi⟩ := unionIntersectLoop_inv hN (rs.length + b.flatten.length + 1) rs b.flatten [] (by omega)
      (fun c hc => ha c hc) (fun c hc => hb c hc) (by simp)
    obtain ⟨res, hres, hri⟩ := unionOf_inv hN parts hpi
    exact ⟨res, by simp [VC.intersect, hp, hres, bind, Except.bind], hri⟩

theorem reach_inv (hN : NoLocal B) {c : VC} (h : Reach (Inv B) c) : Inv B c := by
  induction h with
  | clause hk => exact hk
  | inter _ hn hi ih =>
    obtain ⟨c', hc', hinv⟩ := vcIntersect_inv hN _ _ ih hn
    rw [hc'] at hi; cases hi; exact hinv

/-- **the algebra is total on the invariant class** -/
theorem algebraTotal_inv (hN : NoLocal B) : AlgebraTotal (Inv B) where
  inter := by
    intro a n ha hn e he
    obtain ⟨c, hc, _⟩ := vcIntersect_inv hN a n (reach_inv hN ha) hn
    rw [hc] at he; cases he
  union := by
    intro gs hg e he
    obtain ⟨c, hc, _⟩ := unionOf_inv hN gs (fun g hgm => reach_inv hN (hg g hgm))
    rw [hc] at he; cases he


/-! ## clauses -/

theorem tidy_of_single {r : VRange} (h : r.Tidy) : ∀ c ∈ (VC.single (.rng r)).flatten, c.Tidy := by
  intro c hc; simp [VC.flatten] at hc; subst hc; exact h

/-- **every clause is tidy**: an absent bound is never "included" -/
theorem Clause.tidy {c : VC} (h : Clause c) : ∀ r ∈ c.flatten, r.Tidy := by
  cases h with
  | any => exact tidy_of_single ⟨fun _ => rfl, fun _ => rfl⟩
  | ver h => intro c hc; simp [VC.flatten] at hc; subst hc; trivial
  | lt h => exact tidy_of_single ⟨fun _ => rfl, fun h => by simp at h⟩
  | le h => exact tidy_of_single ⟨fun _ => rfl, fun h => by simp at h⟩
  | gt h => exact tidy_of_single ⟨fun h => by simp at h, fun _ => rfl⟩
  | ge h => exact tidy_of_single ⟨fun h => by simp at h, fun _ => rfl⟩
  | bump h hh hlt => exact tidy_of_single ⟨fun h => by simp at h, fun h => by simp at h⟩
  | ne h =>
    intro c hc
    simp [VC.flatten] at hc
    rcases hc with rfl | rfl
    · exact ⟨fun _ => rfl, fun h => by simp at h⟩
    · exact ⟨fun h => by simp at h, fun _ => rfl⟩
  | wild hv invert isMarker hc =>
    obtain ⟨mn, mx, _, hall, w1, w2, hlt⟩ := xrange_ends _ hv isMarker
    rw [hall invert] at hc
    cases invert
    · simp only [Bool.false_eq_true, if_false, Except.ok.injEq] at hc
      subst hc
      exact tidy_of_single ⟨fun h => by simp at h, fun h => by simp at h⟩
    · simp only [if_true] at hc
      rw [difference_any_halfOpen] at hc
      have hg : Good [RC.rng ⟨none, some mn, false, false⟩, RC.rng ⟨some mx, none, true, false⟩] := by
        intro r hr
        simp only [List.mem_cons, List.mem_nil_iff, or_false] at hr
        rcases hr with rfl | rfl
        · exact ⟨⟨wfB_of_ends (fun m hm => by simp at hm) (fun m hm => by simp at hm; rw [← hm]; exact w1),
            fun m M hm => by simp at hm⟩, ⟨fun _ => rfl, fun h => by simp at h⟩⟩
        · exact ⟨⟨wfB_of_ends (fun m hm => by simp at hm; rw [← hm]; exact w2) (fun m hm => by simp at hm),
            fun m M _ hM => by simp at hM⟩, ⟨fun h => by simp at h, fun _ => rfl⟩⟩
      exact fun r hr => ((unionOfFlat_sem _ _ hc hg).1 r hr).2

/-- a parsed clause satisfies the invariant over any bound set containing its bounds -/
theorem parseSingle_inv (p : List Char) (m : Bool) (c : VC) (h : parseSingle p m = .ok c)
    (hb : ∀ e ∈ c.bounds, e ∈ B) : Inv B c := by
  intro r hr
  refine ⟨parseSingle_WF m p c h r hr, (parseSingle_clause p m c h).tidy r hr, ?_⟩
  intro e he
  exact hb e (by rw [VC.bounds_eq_flatMap]; exact List.mem_flatMap.2 ⟨r, hr, he⟩)

/-- **the bounds a string denotes**: every `min`/`max` of every clause of `s` -/
def clauseBounds (s : String) (m : Bool) : List Version :=
  (pieces s).flatMap fun p =>
    match parseSingle p m with
    | .ok c => c.bounds
    | .error _ => []

theorem mem_clauseBounds {s : String} {m : Bool} {p : List Char} {c : VC} (hp : p ∈ pieces s)
    (hc : parseSingle p m = .ok c) : ∀ e ∈ c.bounds, e ∈ clauseBounds s m := by
  intro e he
  exact List.mem_flatMap.2 ⟨p, hp, by rw [hc]; exact he⟩

/-- **the input hypothesis**: no clause of the string denotes a bound that is a local build (`V+label`) -/
def NoLocalBound (s : String) (m : Bool) : Prop := NoLocal (clauseBounds s m)

instance (s : String) (m : Bool) : Decidable (NoLocalBound s m) := by
  unfold NoLocalBound NoLocal; infer_instance

/-- a stronger form of the decomposition that also describes the value returned -/
theorem parseConstraintAux_spec' (K : VC → Prop) (s : String) (m : Bool)
    (hK : ∀ p ∈ pieces s, ∀ c, parseSingle p m = .ok c → K c) :
    (∃ c, parseConstraintAux s m = .ok c ∧
        (c = VC.any ∨ Reach K c ∨ ∃ gs, (∀ g ∈ gs, Reach K g) ∧ VC.unionOf gs = .ok c)) ∨
    (∃ e, parseConstraintAux s m = .error e ∧ Bad K e) := by
  unfold parseConstraintAux
  split
  · exact Or.inl ⟨_, rfl, Or.inl rfl⟩
  simp only [bind, Except.bind]
  have hm := mapM_spec (fun g => parseGroup g m) (Reach K) (Bad K) (splitOr (strip s.toList)) (by
    intro g hg
    rcases parseGroup_spec K g m (fun p hp => hK p (List.mem_flatMap.2 ⟨g, hg, hp⟩)) with ⟨c, h1, h2⟩ | ⟨e, h1, h2⟩
    · exact Or.inl ⟨c, h1, h2⟩
    · exact Or.inr ⟨e, h1, h2⟩)
  rcases hm with ⟨gs, h1, _, h3⟩ | ⟨e, he, hE⟩
  · rw [h1]
    simp only
    split
    · exact Or.inl ⟨_, rfl, Or.inr (Or.inl (h3 _ (by simp)))⟩
    · cases hu : VC.unionOf gs with
      | ok c => exact Or.inl ⟨c, rfl, Or.inr (Or.inr ⟨gs, h3, hu⟩)⟩
      | error e => exact Or.inr ⟨e, rfl, Or.inr (Or.inr ⟨gs, h3, hu⟩)⟩
  · rw [he]; exact Or.inr ⟨e, rfl, hE⟩

theorem Inv.any : Inv B VC.any := by
  intro r hr
  simp [VC.any, VC.flatten] at hr
  subst hr
  exact ⟨⟨by intro e he; simp [RC.bounds, RC.view, VRange.bounds, VRange.any, RC.min, RC.max] at he,
    by intro m M hm; simp [VRange.any] at hm⟩, ⟨fun _ => rfl, fun _ => rfl⟩,
    by intro e he; simp [RC.bounds, RC.view, VRange.bounds, VRange.any, RC.min, RC.max] at he⟩

/-- **no local bound: the parser returns a constraint satisfying the invariant, or raises `ValueError`** -/
theorem parseConstraintAux_nolocal (s : String) (m : Bool) (h : NoLocalBound s m) :
    (∃ c, parseConstraintAux s m = .ok c ∧ Inv (clauseBounds s m) c) ∨
      parseConstraintAux s m = .error .value := by
  rcases parseConstraintAux_spec' (Inv (clauseBounds s m)) s m
      (fun p hp c hc => parseSingle_inv p m c hc (mem_clauseBounds hp hc)) with
    ⟨c, hc, hsh⟩ | ⟨e, he, hb⟩
  · left
    refine ⟨c, hc, ?_⟩
    rcases hsh with rfl | hr | ⟨gs, hg, hu⟩
    · exact Inv.any
    · exact reach_inv h hr
    · obtain ⟨c', hc', hinv⟩ := unionOf_inv h gs (fun g hgm => reach_inv h (hg g hgm))
      rw [hc'] at hu; cases hu; exact hinv
  · rw [hb.value (algebraTotal_inv h)] at he; exact Or.inr he

/-! ## printing, when the bounds are moreover mutually regular -/

/-- **`_inverted` is total on an invariant union whose bounds are mutually regular** (any two bounds are equal
or of different releases) -/
theorem inverted_total_inv (hN : NoLocal B) (hR : MutReg B) (rs : List RC) (h : ∀ c ∈ rs, MemOK B c) :
    ∃ res, VC.inverted rs = .ok res := by
  have hany : (RC.rng VRange.any).WF :=
    ⟨by intro e he; simp [VRange.bounds, VRange.any] at he, by intro m M hm'; simp [VRange.any] at hm'⟩
  have hsub := boundsOf_sub h
  refine rngDiffUnionLoop_total B hR hN rs (.rng VRange.any) [] (fun c hc => ⟨(h c hc).1, (h c hc).2.1, ?_⟩)
    hany ⟨fun _ => rfl, fun _ => rfl⟩ (by simp [Good]) (by
      intro e he
      rcases he with h' | h' | h'
      · exact hsub e h'
      · simp [RC.bounds, RC.view, VRange.bounds, VRange.any, RC.min, RC.max] at h'
      · simp [boundsOf] at h')
  cases c with
  | ver v => trivial
  | rng r => exact VRange.NE_of_reg ⟨hR, hN⟩ r (h _ hc).1 (h _ hc).2.2

/-- the input hypothesis for printing: the bounds the string denotes are mutually regular -/
def RegularBounds (s : String) (m : Bool) : Prop := MutReg (clauseBounds s m)

/-- executable form of `RegularBounds` (key equality or different `(epoch, release)`) -/
def regularBoundsB (s : String) (m : Bool) : Bool :=
  (clauseBounds s m).all fun x => (clauseBounds s m).all fun y =>
    Version.eqv x y || decide (relKey x ≠ relKey y)

theorem regularBounds_of_check (s : String) (m : Bool) (h : regularBoundsB s m = true) : RegularBounds s m := by
  intro x hx y hy
  simp only [regularBoundsB, List.all_eq_true, Bool.or_eq_true, decide_eq_true_eq] at h
  rcases h x hx y hy with h1 | h1
  · exact Or.inl ((eqv_iff x y).1 h1)
  · exact Or.inr h1

/-- **no local bound, mutually regular bounds: what the parser returns prints** -/
theorem parsed_printable_regular (s : String) (m : Bool) (hN : NoLocalBound s m) (hR : RegularBounds s m)
    (c : VC) (h : parseConstraintAux s m = .ok c) : ∃ t, c.toStr = .ok t := by
  rcases parseConstraintAux_nolocal s m hN with ⟨c', hc', hinv⟩ | he
  · rw [hc'] at h; cases h
    cases c with
    | empty => exact ⟨_, rfl⟩
    | single d => exact VC.single_toStr_ok d
    | union rs =>
      obtain ⟨res, hres⟩ := inverted_total_inv hN hR rs (fun c hc => hinv c hc)
      exact VC.union_toStr_ok rs res hres
  · rw [he] at h; cases h

/-! ## comma-groups of non-union clauses: unconditional -/

/-- well-formed and not a `VersionUnion` -/
def Plain (c : VC) : Prop := vcWF c ∧ c.notUnion

theorem plain_intersect (a n : VC) (ha : Plain a) (hn : Plain n) : ∃ c, VC.intersect a n = .ok c ∧ Plain c := by
  cases a with
  | empty => exact ⟨.empty, rfl, vcWF_empty, by simp [VC.notUnion]⟩
  | union rs => exact absurd ha.2 (by simp [VC.notUnion])
  | single x =>
    cases n with
    | empty => exact ⟨.empty, rfl, vcWF_empty, by simp [VC.notUnion]⟩
    | union rs => exact absurd hn.2 (by simp [VC.notUnion])
    | single y =>
      obtain ⟨i, hi⟩ := RC.intersect_ok x y (ha.1 x (by simp [VC.flatten])) (hn.1 y (by simp [VC.flatten]))
      exact ⟨i, hi, rcIntersect_WF x y (ha.1 x (by simp [VC.flatten])) (hn.1 y (by simp [VC.flatten])) i hi,
        RC.intersect_notUnion x y i hi⟩

theorem foldl_plain : ∀ (rest : List VC) (acc : VC), Plain acc → (∀ n ∈ rest, Plain n) →
    ∃ c, rest.foldlM (fun acc n => VC.intersect acc n) acc = .ok c ∧ Plain c
  | [], acc, ha, _ => ⟨acc, by simp [pure, Except.pure], ha⟩
  | n :: rest, acc, ha, hr => by
    rw [List.foldlM_cons]
    obtain ⟨c, hc, hp⟩ := plain_intersect acc n ha (hr n (List.mem_cons_self ..))
    simp only [hc, bind, Except.bind]
    exact foldl_plain rest c hp (fun x hx => hr x (List.mem_cons_of_mem _ hx))

/-- **a comma-group whose clauses are not unions (no `!=`): `ValueError` only — local labels included** -/
theorem parseGroup_plain (g : List Char) (m : Bool)
    (h : ∀ p ∈ groupPieces g, ∀ c, parseSingle p m = .ok c → c.notUnion) :
    (∃ c, parseGroup g m = .ok c ∧ Plain c) ∨ parseGroup g m = .error .value := by
  unfold parseGroup
  simp only [bind, Except.bind]
  have hm := mapM_spec (fun p => parseSingle p m) Plain (fun e => e = .value) (groupPieces g) (by
    intro p hp
    cases hc : parseSingle p m with
    | ok c => exact Or.inl ⟨c, rfl, parseSingle_WF m p c hc, h p hp c hc⟩
    | error e => exact Or.inr ⟨e, rfl, parseSingle_err_value p m e hc⟩)
  unfold groupPieces at hm
  rcases hm with ⟨ys, h1, h2, h3⟩ | ⟨e, he, hE⟩
  · rw [h1]
    cases ys with
    | nil =>
      exfalso
      have := splitAnd_ne_nil (rstripSpaces (rstripCommas g))
      simp at h2
      exact this (List.eq_nil_of_length_eq_zero h2.symm)
    | cons c rest =>
      obtain ⟨r, hr, hp⟩ := foldl_plain rest c (h3 c (List.mem_cons_self ..))
        (fun n hn => h3 n (List.mem_cons_of_mem _ hn))
      exact Or.inl ⟨r, hr, hp⟩
  · rw [he, hE]; exact Or.inr rfl

/-- executable form of "no clause of the group is a union" -/
def plainGroupB (g : List Char) (m : Bool) : Bool :=
  (groupPieces g).all fun p =>
    match parseSingle p m with
    | .ok (.union _) => false
    | _ => true

theorem plainGroup_of_check (g : List Char) (m : Bool) (h : plainGroupB g m = true) :
    ∀ p ∈ groupPieces g, ∀ c, parseSingle p m = .ok c → c.notUnion := by
  intro p hp c hc
  simp only [plainGroupB, List.all_eq_true] at h
  have := h p hp
  rw [hc] at this
  cases c <;> simp [VC.notUnion] at this ⊢

/-- a string that is one `||` group: `_parse_constraint` is the group step -/
theorem parseConstraintAux_one_group (s : String) (m : Bool) (g : List Char)
    (hs : splitOr (strip s.toList) = [g]) :
    parseConstraintAux s m = if s == "*" then .ok VC.any else parseGroup g m := by
  unfold parseConstraintAux
  split
  · rfl
  · simp only [hs, List.mapM_cons, List.mapM_nil, bind, Except.bind, pure, Except.pure]
    cases parseGroup g m with
    | error e => rfl
    | ok c => rfl

end Poetry.ParserTotal
