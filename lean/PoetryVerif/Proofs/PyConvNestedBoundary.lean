/-
The decidable domain of `create_nested_marker` → `parse_marker` → `validate` (C11): Python ranges of `PyDomVC` all
of whose bounds have two or three components.  On it the marker read back consists of python leaves only and
validates to membership of the interpreter, with no hypothesis about the environment beyond `EnvPy`.
-/
import PoetryVerif.Proofs.PyConvFullNested

set_option linter.unusedSimpArgs false
set_option linter.unusedVariables false

namespace Poetry.Marker
open Poetry Poetry.Spec.Pep508

/-- every bound has at least two components -/
def prec2B (c : VC) : Bool := c.flatten.all (fun rc => rc.bounds.all (fun e => decide (2 ≤ e.release.length)))

theorem prec2B_iff (c : VC) : prec2B c = true ↔ PyPrec2 c := by
  simp [prec2B, PyPrec2, List.all_eq_true]

/-- **the decidable domain**: a range, union of ranges or three-component version over final releases of one to
three components written canonically (`PyDomVC`), no bound with a single component -/
def nestedDomain (c : VC) : Bool := PyDomVC c && prec2B c

mutual
theorem atomItems_py : ∀ a : Atom, PyAtomQ Q2 a → AtomItems PyLeaf a
  | .item n op v sw, h => by
    simp only [PyAtomQ] at h
    obtain ⟨rfl, lit, hn, hop, hne, _, hq, rfl⟩ := h
    obtain ⟨sop, hs⟩ := cmpOp_pvOps hop
    intro s hs'
    simp only [itemConstraintString, Bool.false_eq_true, if_false] at hs'
    rcases hn with rfl | rfl
    · have hl := hq.1 rfl
      obtain ⟨a, b, rfl⟩ : ∃ a b, lit = [a, b] := by
        match lit, hl with
        | [a, b], _ => exact ⟨a, b, rfl⟩
      rw [mkSingle_pvLeaf hs a b] at hs'
      cases hs'
      exact Or.inl ⟨sop, op, a, b, hs, rfl⟩
    · have hl := hq.2 rfl
      obtain ⟨a, b, c, rfl⟩ : ∃ a b c, lit = [a, b, c] := by
        match lit, hl with
        | [a, b, c], _ => exact ⟨a, b, c, rfl⟩
      rw [mkSingle_pfvLeaf hs a [b, c]] at hs'
      cases hs'
      exact Or.inr ⟨sop, op, a, b, c, hs, rfl⟩
  | .paren m, h => by
    simp only [AtomItems]
    exact synItems_py m (by simpa [PyAtomQ] using h)
theorem synItems_py : ∀ s : Syn, PySynQ Q2 s → SynItems PyLeaf s
  | .one a, h => by
    simp only [SynItems]
    exact atomItems_py a (by simpa [PySynQ] using h)
  | .more a _ rest, h => by
    simp only [PySynQ] at h
    exact ⟨atomItems_py a h.1, synItems_py rest h.2⟩
end

/-- **`create_nested_marker` then `parse_marker` and `validate` on the decidable domain**: the marker read back has
python leaves only (`python_version op "a.b"`, `python_full_version op "a.b.c"`) and validates, on every environment
of interpreter `X.Y.Z`, to exactly `allows(X.Y.Z)` -/
theorem createNested_domain {E : Env} {X Y Z : Nat} (hE : EnvPy E X Y Z) (c : VC) (hdom : nestedDomain c = true)
    (txt : String) (m : M) (ht : createNestedMarker "python_version" c = .ok txt) (hm : parseMarker txt = .ok m) :
    M.Good PyLeaf m ∧ M.validate E m = .ok (c.allowsPlain (pyV X Y Z)) := by
  simp only [nestedDomain, Bool.and_eq_true] at hdom
  obtain ⟨hd, hp2'⟩ := hdom
  have hp2 := (prec2B_iff c).1 hp2'
  have S := leafSpec_py hE (pairSound_py hE)
  have hev : ∀ l, PyLeaf l → ∃ b, l.validate E = .ok b := fun l hl => pyLeaf_evaluable hE hl
  have key : M.Good PyLeaf m ∧ M.sem (leafEval E) m = c.allowsPlain (pyV X Y Z) := by
    obtain ⟨txt', ht', hcase⟩ := createNested_synQ (Q := Q2) E c hd (fun rc hrc => rcBoundQ2 rc (hp2 rc hrc)) X Y Z hE
    rw [ht] at ht'; injection ht' with ht'; subst ht'
    rcases hcase with ⟨rfl, hall⟩ | ⟨hne, syn, hp, he, hpy⟩
    · simp [parseMarker] at hm; subst hm; simp [hall]
    · have h1 : (txt == "<empty>") = false := by
        cases h : txt == "<empty>" with
        | false => rfl
        | true =>
          have : txt = "<empty>" := by simpa using h
          subst this
          have : parseText "<empty>" = .error .syntax := rfl
          rw [this] at hp; cases hp
      have h2 : (txt == "*") = false := by
        cases h : txt == "*" with
        | false => rfl
        | true =>
          have : txt = "*" := by simpa using h
          subst this
          have : parseText "*" = .error .syntax := rfl
          rw [this] at hp; cases hp
      simp only [parseMarker, h1, hne, h2, Bool.false_eq_true, if_false, Bool.or_false, hp, bind, Except.bind] at hm
      split at hm
      · cases hm
      · rename_i subs hs
        obtain ⟨ha, hc⟩ := pySyn_agree E X Y Z hE syn hpy
        have hca := compactSub_agree_gen E S hev syn subs _ hs (synItems_py syn hpy) ha hc he
        have := unionF_sound S hca.1 hm
        exact ⟨this.1, by rw [this.2, hca.2]⟩
  exact ⟨key.1, by rw [M.validate_eq_sem E m (M.good_mono (fun l hl => hev l hl) m key.1), key.2]⟩

end Poetry.Marker
