/-
String variables with all four operators: `==` / `!=` leaves (and the atomic multi / union leaves merges build from
them) together with the reversed-operand leaves `"v" in name` / `"v" not in name`.  `_merge_single_markers` is exact
on every pair of such leaves on the same variable EXCEPT two `not in` leaves neither of whose values contains the
other (`ncClash`, the known class `notin-union-notin-any`, where `union` answers Any): the fragment asks the values
of its `not in` leaves to be pairwise comparable by containment (`C`), and the converse theorem shows that the
excluded pairs are exactly the wrong ones.
-/
import PoetryVerif.Proofs.MarkerAlgSoundVals4
import PoetryVerif.Proofs.MarkerAlgSoundComb
import PoetryVerif.Proofs.MarkerLeafString

set_option linter.unusedSimpArgs false
set_option linter.unusedVariables false

namespace Poetry.Marker
open Poetry Poetry.Generic

/-- a reversed-operand leaf `"v" in name` / `"v" not in name` on a canonical string variable defined by `E`; the
literal satisfies the token predicate `T` (what the constructor needs) and `W'`; the values of the `not in` leaves
satisfy `C` -/
def RevLeafT (T W' : String → Prop) (C : String → Prop) (E : Env) (l : Leaf) : Prop :=
  ∃ n ops gop v, (ops, gop) ∈ inOps ∧ n ∈ plainStringVars ∧ T v ∧ W' v ∧ (∃ ev, E.get? n = some ev) ∧
    (gop = Generic.Op.nc → C v) ∧ l = .single ⟨n, ops, v, true, .gen (.s (.atom ⟨v, gop, false⟩))⟩

/-- plain tokens (no quotes) -/
abbrev RevLeafW (W' : String → Prop) (C : String → Prop) (E : Env) (l : Leaf) : Prop := RevLeafT PlainTok W' C E l

/-- no condition on the values beyond plain tokens -/
def RevLeaf (C : String → Prop) (E : Env) (l : Leaf) : Prop := RevLeafW (fun _ => True) C E l

/-- string leaves with all four operators -/
def Str4LeafT (T W W' : String → Prop) (C : String → Prop) (E : Env) (l : Leaf) : Prop :=
  StrLeafW (fun n => n ∈ plainStringVars) W E l ∨ RevLeafT T W' C E l

abbrev Str4LeafW (W W' : String → Prop) (C : String → Prop) (E : Env) (l : Leaf) : Prop :=
  Str4LeafT PlainTok W W' C E l

/-- plain values -/
def Str4Leaf (C : String → Prop) (E : Env) (l : Leaf) : Prop := Str4LeafW PlainValue (fun _ => True) C E l

theorem mkAtomOKW_of {W : String → Prop} (hW : ∀ v, W v → PlainValue v) (E : Env) :
    MkAtomOKW (fun n => n ∈ plainStringVars) W E :=
  fun n a s hn hv hx hp he hxa hea h => mkAtomOKW_plain E n a s hn (hW _ hv) hx hp he hxa hea h

/-- the shape of the constraint of such a leaf -/
def Shape4 (C : String → Prop) (gc : GC) : Prop :=
  gc.wfG = true ∨ ∃ a : Generic.Atom, gc = .s (.atom a) ∧ a.x = false ∧ (a.op = .in_ ∨ a.op = .nc) ∧
    (a.op = .nc → C a.value)

theorem plainStringVars_basic {n : String} (h : n ∈ plainStringVars) :
    (n == "extra") = false ∧ isPyName n = false := by
  simp only [plainStringVars, List.mem_cons, List.mem_nil_iff, or_false] at h
  rcases h with rfl | rfl | rfl | rfl | rfl | rfl | rfl <;> decide

theorem inOps_gop {ops : String} {gop : Generic.Op} (h : (ops, gop) ∈ inOps) : gop = .in_ ∨ gop = .nc := by
  simp only [inOps, List.mem_cons, Prod.mk.injEq, List.mem_nil_iff, or_false] at h
  rcases h with ⟨_, rfl⟩ | ⟨_, rfl⟩ <;> simp

theorem str4Leaf_view {T W W' : String → Prop} {C : String → Prop} {E : Env} {l : Leaf} (h : Str4LeafT T W W' C E l) :
    (l.name == "extra") = false ∧ isPyName l.name = false ∧ l.name ∈ plainStringVars ∧
    ∃ gc v, l.c = .gen gc ∧ gc.wf4 = true ∧ Shape4 C gc ∧
      (∀ x ∈ gc.atoms, x.isEqNe = true → W x.value) ∧
      E.get? l.name = some v ∧ l.validate E = .ok (gc.den v) := by
  rcases h with h | ⟨n, ops, gop, v, hop, hn, hv, _, ⟨ev, hev⟩, hC, rfl⟩
  · obtain ⟨h1, h2, gc, v, hc, hw, hv, he⟩ := strLeaf_view h.1
    refine ⟨h1, h2, h.2.1, gc, v, hc, GC.wf4_of_wfG hw, Or.inl hw, ?_, hv, he⟩
    intro x hx _
    exact h.2.2 x (by simpa [leafAtoms, hc] using hx)
  · obtain ⟨b1, b2⟩ := plainStringVars_basic hn
    refine ⟨b1, b2, hn, _, ev, rfl, by simp [GC.wf4, GS.wf4], Or.inr ⟨_, rfl, rfl, inOps_gop hop, hC⟩, ?_, hev, ?_⟩
    · intro x hx he
      simp only [GC.atoms, GS.atoms, List.mem_singleton] at hx
      subst hx
      rcases inOps_gop hop with rfl | rfl <;> simp [Generic.Atom.isEqNe] at he
    · simp only [Leaf.validate]
      exact validateLike_gen n _ E b1 ev hev

theorem str4Leaf_evaluable {T W W' : String → Prop} {C : String → Prop} {E : Env} {l : Leaf}
    (h : Str4LeafT T W W' C E l) :
    ∃ b, l.validate E = .ok b := by
  obtain ⟨_, _, _, gc, v, _, _, _, _, _, hv⟩ := str4Leaf_view h
  exact ⟨_, hv⟩

/-- members of a `==`/`!=` constraint never hit the `not in` ∪ `not in` call site -/
theorem ncClash_wfG_left {g : GC} (hw : g.wfG = true) {m : GS} (hm : m ∈ g.members) (n : GS) :
    GS.ncClash m n = false := by
  have hmw : m.wfG = true := by
    cases g with
    | s c => simp only [GC.members, List.mem_singleton] at hm; subst hm; exact hw
    | union ms =>
      simp only [GC.wfG, Bool.and_eq_true, List.all_eq_true] at hw
      exact hw.2 m hm
  cases m with
  | atom a =>
    cases n with
    | atom o =>
      have := wfG_atom hmw
      rcases this.2 with h | h <;> simp [GS.ncClash, Generic.ncClash, h]
    | _ => rfl
  | _ => rfl

theorem ncCompat_shape4 {C : String → Prop} (hC : ∀ u v, C u → C v → strIn u v = true ∨ strIn v u = true)
    {g1 g2 : GC} (s1 : Shape4 C g1) (s2 : Shape4 C g2) : g1.ncCompat g2 = true := by
  rw [ncCompat_iff]
  intro m hm n hn
  rcases s1 with w1 | ⟨a1, rfl, _, o1, c1⟩
  · exact ncClash_wfG_left w1 hm n
  · rcases s2 with w2 | ⟨a2, rfl, _, o2, c2⟩
    · rw [GS.ncClash_symm]; exact ncClash_wfG_left w2 hn m
    · simp only [GC.members, List.mem_singleton] at hm hn
      subst hm; subst hn
      simp only [GS.ncClash, Generic.ncClash]
      by_cases h1 : a1.op = .nc
      · by_cases h2 : a2.op = .nc
        · rcases hC _ _ (c1 h1) (c2 h2) with h | h <;> simp [h]
        · rcases o2 with h | h <;> simp_all
      · rcases o1 with h | h <;> simp_all

set_option hygiene false in
/-- the tail of `_merge_single_markers` once the merged constraint `r0` is known -/
macro "str4_tail" : tactic => `(tactic| (
  by_cases q1 : (LeafC.gen r0).isEmpty = true
  · rw [if_pos q1, pure_ok] at h; cases h
    exact ⟨by simp, by simp [gc_den_of_isEmpty q1]⟩
  rw [if_neg q1] at h
  by_cases q2 : (LeafC.gen r0).isAny = true
  · rw [if_pos q2, pure_ok] at h; cases h
    exact ⟨by simp, by simp [gc_den_of_isAny q2]⟩
  rw [if_neg q2] at h
  by_cases q3 : (LeafC.gen r0).eqv (LeafC.gen g1) = true
  · rw [if_pos q3, pure_ok] at h; cases h
    have hr : r0 = g1 := by simpa [LeafC.eqv] using q3
    exact ⟨(M.good_leaf _).2 hh1, by simp [e1, hr]⟩
  rw [if_neg q3] at h
  by_cases q4 : (LeafC.gen r0).eqv (LeafC.gen g2) = true
  · rw [if_pos q4, pure_ok] at h; cases h
    have hr : r0 = g2 := by simpa [LeafC.eqv] using q4
    exact ⟨(M.good_leaf _).2 hh2, by simp [e2, hr]⟩
  rw [if_neg q4] at h
  obtain ⟨b, hb, h⟩ := bind_ok.1 h
  cases b
  · rw [if_neg Bool.false_ne_true] at h
    cases r0 with
    | union ms =>
      dsimp only at h
      simp only [hx1, Bool.false_eq_true, if_false] at h
      split at h
      · rename_i hall
        rw [pure_ok] at h; cases h
        have hwG : (GC.union ms).wfG = true := by
          simp only [GC.wf4, Bool.and_eq_true, List.all_eq_true] at hw0
          simp only [GC.wfG, Bool.and_eq_true, List.all_eq_true]
          refine ⟨hw0.1, fun m hm => ?_⟩
          have hm4 := hw0.2 m hm
          have hop := List.all_eq_true.1 hall m hm
          cases m with
          | atom a =>
            simp only [atomOpsWithin, List.contains_cons, List.contains_nil, Bool.or_false, beq_iff_eq] at hop
            simp [GS.wfG, Generic.Atom.isEqNe, wf4_atom hm4, hop]
          | _ => simp [atomOpsWithin] at hop
        have hs : StrLeaf E (.aunion l1.name (.union ms)) := ⟨hx1, hp1, ⟨v2, hv1⟩, hwG⟩
        have hsw : StrLeafW (fun n => n ∈ plainStringVars) W E (.aunion l1.name (.union ms)) := by
          refine ⟨hs, hn1, ?_⟩
          intro x hx
          have hx' : x ∈ (GC.union ms).atoms := by simpa [leafAtoms, Leaf.c] using hx
          have hxe : x.isEqNe = true := by
            simp only [GC.atoms, List.mem_flatMap] at hx'
            obtain ⟨m, hm, hxm⟩ := hx'
            simp only [GC.wfG, Bool.and_eq_true, List.all_eq_true] at hwG
            have := hwG.2 m hm
            cases m with
            | atom a =>
              simp only [GS.atoms, List.mem_singleton] at hxm; subst hxm
              rcases (wfG_atom this).2 with h | h <;> simp [Generic.Atom.isEqNe, h]
            | multi y cs =>
              have := (wfG_multi this).2 x (by simpa [GS.atoms] using hxm)
              simp [Generic.Atom.isEqNe, this.2]
            | any => simp [GS.atoms] at hxm
            | empty => simp [GS.atoms] at hxm
          exact (hv0 x hx').1 hxe
        exact ⟨(M.good_leaf _).2 (Or.inl hsw), by simpa using strLeaf_atomic_eval hs rfl hv1⟩
      · rw [pure_ok] at h; cases h
    | s gs =>
      cases gs with
      | multi x cs =>
        dsimp only at h
        simp only [hx1, Bool.false_eq_true, if_false] at h
        split at h
        · rename_i hall
          rw [pure_ok] at h; cases h
          have hwG : (GC.s (.multi x cs)).wfG = true := by
            have h4 := wf4_multi (by simpa [GC.wf4] using hw0 : (GS.multi x cs).wf4 = true)
            simp only [GC.wfG, GS.wfG, Bool.and_eq_true, Bool.not_eq_true', List.all_eq_true, beq_iff_eq]
            refine ⟨h4.1, fun c hc => ⟨(h4.2 c hc).1, ?_⟩⟩
            have := List.all_eq_true.1 hall c hc
            simpa using this
          have hs : StrLeaf E (.amulti l1.name (.s (.multi x cs))) := ⟨hx1, hp1, ⟨v2, hv1⟩, hwG⟩
          have hsw : StrLeafW (fun n => n ∈ plainStringVars) W E (.amulti l1.name (.s (.multi x cs))) := by
            refine ⟨hs, hn1, ?_⟩
            intro y hy
            have hy' : y ∈ (GC.s (.multi x cs)).atoms := by simpa [leafAtoms, Leaf.c] using hy
            have := (wfG_multi (by simpa [GC.wfG] using hwG : (GS.multi x cs).wfG = true)).2 y
              (by simpa [GC.atoms, GS.atoms] using hy')
            exact (hv0 y hy').1 (by simp [Generic.Atom.isEqNe, this.2])
          exact ⟨(M.good_leaf _).2 (Or.inl hsw), by simpa using strLeaf_atomic_eval hs rfl hv1⟩
        · rw [pure_ok] at h; cases h
      | any => dsimp only at h; rw [pure_ok] at h; cases h
      | empty => dsimp only at h; rw [pure_ok] at h; cases h
      | atom a => dsimp only at hb; cases hb
  · rw [if_pos rfl] at h
    obtain ⟨s, hs, h⟩ := bind_ok.1 h
    rw [pure_ok] at h; cases h
    cases r0 with
    | union ms => dsimp only at hb; cases hb
    | s gs =>
      cases gs with
      | atom a =>
        have hxa : a.x = false := wf4_atom (by simpa [GC.wf4] using hw0)
        have hWa := hv0 a (by simp [GC.atoms, GS.atoms])
        by_cases hea : a.isEqNe = true
        · obtain ⟨k1, k2, k3, k4, k5⟩ :=
            HK l1.name a s hn1 (hWa.1 hea) hx1 hp1 ⟨v2, hv1⟩ hxa hea hs
          have hsl : StrLeaf E (.single s) := by
            refine ⟨by rw [k1]; exact hx1, by rw [k1]; exact hp1, ⟨v2, by rw [k1]; exact hv1⟩, k2, a, k3, hxa, hea, k4, k5⟩
          have hslw : StrLeafW (fun n => n ∈ plainStringVars) W E (.single s) := by
            refine ⟨hsl, by simpa [Leaf.name, k1] using hn1, ?_⟩
            intro x hx
            simp only [leafAtoms, Leaf.c, k3, GC.atoms, GS.atoms, List.mem_singleton] at hx
            subst hx; exact hWa.1 hea
          exact ⟨(M.good_leaf _).2 (Or.inl hslw),
            by simpa using strLeaf_atomic_eval hsl k3 (by simpa [Leaf.name, k1] using hv1)⟩
        · -- an `in` / `not in` atom can only be one of the operands: excluded by the two equality tests
          exfalso
          have hsh : ∀ g : GC, Shape4 C g → a ∈ g.atoms → g = .s (.atom a) := by
            intro g sg hag
            rcases sg with w | ⟨a', rfl, _, _, _⟩
            · exfalso
              apply hea
              cases g with
              | s c =>
                cases c with
                | atom b =>
                  simp only [GC.atoms, GS.atoms, List.mem_singleton] at hag; subst hag
                  have := wfG_atom (by simpa [GC.wfG] using w : (GS.atom a).wfG = true)
                  rcases this.2 with h | h <;> simp [Generic.Atom.isEqNe, h]
                | multi y cs =>
                  have := (wfG_multi (by simpa [GC.wfG] using w : (GS.multi y cs).wfG = true)).2 a
                    (by simpa [GC.atoms, GS.atoms] using hag)
                  simp [Generic.Atom.isEqNe, this.2]
                | any => simp [GC.atoms, GS.atoms] at hag
                | empty => simp [GC.atoms, GS.atoms] at hag
              | union ms =>
                simp only [GC.atoms, List.mem_flatMap] at hag
                obtain ⟨m, hm, ham⟩ := hag
                simp only [GC.wfG, Bool.and_eq_true, List.all_eq_true] at w
                have hmw := w.2 m hm
                cases m with
                | atom b =>
                  simp only [GS.atoms, List.mem_singleton] at ham; subst ham
                  rcases (wfG_atom hmw).2 with h | h <;> simp [Generic.Atom.isEqNe, h]
                | multi y cs =>
                  have := (wfG_multi hmw).2 a (by simpa [GS.atoms] using ham)
                  simp [Generic.Atom.isEqNe, this.2]
                | any => simp [GS.atoms] at ham
                | empty => simp [GS.atoms] at ham
            · simp only [GC.atoms, GS.atoms, List.mem_singleton] at hag
              subst hag; rfl
          rcases hWa.2 with hin | hin
          · exact q3 (by simp [LeafC.eqv, hsh g1 sh1 hin])
          · exact q4 (by simp [LeafC.eqv, hsh g2 sh2 hin])
      | any => dsimp only at hb; cases hb
      | empty => dsimp only at hb; cases hb
      | multi x cs => dsimp only at hb; cases hb))

/-- **`_merge_single_markers` on two string leaves with any of the four operators** (values of the `not in` leaves
pairwise comparable by containment): every outcome is a leaf of the fragment and is the exact
conjunction / disjunction -/
theorem str4Leaf_mergeK {T W W' : String → Prop} {E : Env} (HK : MkAtomOKW (fun n => n ∈ plainStringVars) W E)
    {C : String → Prop} (hC : ∀ u v, C u → C v → strIn u v = true ∨ strIn v u = true)
    (l1 l2 : Leaf) (im : Bool) (r : M)
    (hh1 : Str4LeafT T W W' C E l1) (hh2 : Str4LeafT T W W' C E l2) (h : mergeLeaves l1 l2 im = .ok (some r)) :
    M.Good (Str4LeafT T W W' C E) r ∧
      M.sem (leafEval E) r = (if im then (leafEval E l1 && leafEval E l2) else (leafEval E l1 || leafEval E l2)) := by
  obtain ⟨hx1, hp1, hn1, g1, v1, hc1, hw1, sh1, hW1, hv1, he1⟩ := str4Leaf_view hh1
  obtain ⟨hx2, hp2, hn2, g2, v2, hc2, hw2, sh2, hW2, hv2, he2⟩ := str4Leaf_view hh2
  have e1 := strLeaf_eval he1
  have e2 := strLeaf_eval he2
  obtain ⟨hp1a, hp1b⟩ := isPyName_false hp1
  obtain ⟨hp2a, hp2b⟩ := isPyName_false hp2
  simp only [mergeLeaves] at h
  rw [mergeSingle.eq_def] at h
  dsimp only at h
  rw [hp1a, hp1b, hp2a, hp2b] at h
  simp only [Bool.false_and, Bool.or_self, Bool.false_eq_true, if_false] at h
  by_cases hn : (l1.name != l2.name) = true
  · rw [if_pos hn] at h; cases h
  rw [if_neg hn] at h
  have hname : l2.name = l1.name := (by simpa using hn : l1.name = l2.name).symm
  have hv : v2 = v1 := by rw [hname, hv1] at hv2; exact (Option.some.inj hv2).symm
  subst hv
  rw [hc1, hc2] at h
  dsimp only at h
  let Wat : Generic.Atom → Prop := fun x => (x.isEqNe = true → W x.value) ∧ (x ∈ g1.atoms ∨ x ∈ g2.atoms)
  have hA1 : ∀ x ∈ g1.atoms, Wat x := fun x hx => ⟨hW1 x hx, Or.inl hx⟩
  have hA2 : ∀ x ∈ g2.atoms, Wat x := fun x hx => ⟨hW2 x hx, Or.inr hx⟩
  have key : ∃ r0, (if im = true then (LeafC.gen g1).intersect (.gen g2) else (LeafC.gen g1).union (.gen g2)) =
        .ok (.gen r0) ∧ r0.wf4 = true ∧ (∀ x ∈ r0.atoms, Wat x) ∧
        r0.den v2 = (if im = true then (g1.den v2 && g2.den v2) else (g1.den v2 || g2.den v2)) := by
    cases im
    · obtain ⟨r0, a, b, c, d⟩ := GC.unionWith_4W Wat g1 g2 hw1 hw2 (ncCompat_shape4 hC sh1 sh2) hA1 hA2
      exact ⟨r0, by simp [LeafC.union, a, Except.map], b, c, by simp [d]⟩
    · obtain ⟨r0, a, b, c, d⟩ := GC.intersect_4W Wat g1 g2 hw1 hw2 hA1 hA2
      exact ⟨r0, by simp [LeafC.intersect, a, Except.map], b, c, by simp [d]⟩
  obtain ⟨r0, hk, hw0, hv0, hden⟩ := key
  have hgoal : (if im = true then (leafEval E l1 && leafEval E l2) else (leafEval E l1 || leafEval E l2)) =
      r0.den v2 := by rw [hden, e1, e2]
  rw [hgoal]
  clear hgoal hden
  cases im
  · simp only [Bool.false_eq_true, if_false] at h hk ⊢
    obtain ⟨rc, hrc, h⟩ := bind_ok.1 h
    rw [hk] at hrc; cases hrc
    str4_tail
  · simp only [if_true] at h hk ⊢
    obtain ⟨rc, hrc, h⟩ := bind_ok.1 h
    rw [hk] at hrc; cases hrc
    str4_tail

theorem inOps_inj {ops : String} {g1 g2 : Generic.Op} (h1 : (ops, g1) ∈ inOps) (h2 : (ops, g2) ∈ inOps) :
    g1 = g2 := by
  simp only [inOps, List.mem_cons, Prod.mk.injEq, List.mem_nil_iff, or_false] at h1 h2
  rcases h1 with ⟨rfl, rfl⟩ | ⟨rfl, rfl⟩ <;> rcases h2 with ⟨h, rfl⟩ | ⟨h, rfl⟩ <;> first | rfl | (revert h; decide)

theorem str4Leaf_congr {T W W' : String → Prop} {C : String → Prop} {E : Env} (a b : Leaf)
    (ha : Str4LeafT T W W' C E a) (hb : Str4LeafT T W W' C E b)
    (h : Leaf.beq a b = true) : leafEval E a = leafEval E b := by
  rcases ha with ha | ⟨n1, o1, g1, v1, hop1, _, _, _, _, _, rfl⟩
  · rcases hb with hb | ⟨n2, o2, g2, v2, hop2, _, _, _, _, _, rfl⟩
    · exact strLeaf_congr a b ha.1 hb.1 h
    · -- orientation differs
      exfalso
      cases a with
      | single s =>
        have hsw := ha.1.2.2.2.1
        simp only [Leaf.beq, Bool.and_eq_true, beq_iff_eq] at h
        rw [hsw] at h; exact absurd h.2 (by decide)
      | amulti _ _ => simp [Leaf.beq] at h
      | aunion _ _ => simp [Leaf.beq] at h
  · rcases hb with hb | ⟨n2, o2, g2, v2, hop2, _, _, _, _, _, rfl⟩
    · exfalso
      cases b with
      | single s =>
        have hsw := hb.1.2.2.2.1
        simp only [Leaf.beq, Bool.and_eq_true, beq_iff_eq] at h
        rw [hsw] at h; exact absurd h.2 (by decide)
      | amulti _ _ => simp [Leaf.beq] at h
      | aunion _ _ => simp [Leaf.beq] at h
    · simp only [Leaf.beq, Bool.and_eq_true, beq_iff_eq] at h
      obtain ⟨⟨⟨rfl, rfl⟩, rfl⟩, _⟩ := h
      rw [inOps_inj hop1 hop2]

/-- the same with the constructor fact derived from plain values -/
theorem str4Leaf_merge {T W W' : String → Prop} (hW : ∀ v, W v → PlainValue v) {C : String → Prop}
    (hC : ∀ u v, C u → C v → strIn u v = true ∨ strIn v u = true)
    {E : Env} (l1 l2 : Leaf) (im : Bool) (r : M)
    (hh1 : Str4LeafT T W W' C E l1) (hh2 : Str4LeafT T W W' C E l2) (h : mergeLeaves l1 l2 im = .ok (some r)) :
    M.Good (Str4LeafT T W W' C E) r ∧
      M.sem (leafEval E) r = (if im then (leafEval E l1 && leafEval E l2) else (leafEval E l1 || leafEval E l2)) :=
  str4Leaf_mergeK (mkAtomOKW_of hW E) hC l1 l2 im r hh1 hh2 h

/-- `LeafSpec` on string leaves with all four operators, relative to the constructor fact on the `==` / `!=` values -/
theorem leafSpec_str4K {T W W' : String → Prop} {E : Env} (HK : MkAtomOKW (fun n => n ∈ plainStringVars) W E)
    {C : String → Prop} (hC : ∀ u v, C u → C v → strIn u v = true ∨ strIn v u = true) :
    LeafSpec (leafEval E) (Str4LeafT T W W' C E) where
  congr := fun a b ha hb h => str4Leaf_congr a b ha hb h
  merge := fun l1 l2 im r h1 h2 h => str4Leaf_mergeK HK hC l1 l2 im r h1 h2 h

/-- **`LeafSpec` on string leaves with all four operators**, the values of the `not in` leaves pairwise comparable
by containment: no other hypothesis -/
theorem leafSpec_str4W {T W W' : String → Prop} (hW : ∀ v, W v → PlainValue v) {C : String → Prop}
    (hC : ∀ u v, C u → C v → strIn u v = true ∨ strIn v u = true)
    (E : Env) : LeafSpec (leafEval E) (Str4LeafT T W W' C E) where
  congr := fun a b ha hb h => str4Leaf_congr a b ha hb h
  merge := fun l1 l2 im r h1 h2 h => str4Leaf_merge hW hC l1 l2 im r h1 h2 h

theorem leafSpec_str4 {C : String → Prop} (hC : ∀ u v, C u → C v → strIn u v = true ∨ strIn v u = true)
    (E : Env) : LeafSpec (leafEval E) (Str4Leaf C E) := leafSpec_str4W (fun _ h => h) hC E

/-- the reversed-operand `not in` leaf -/
def revNotIn (n v : String) : Single := ⟨n, "not in", v, true, .gen (.s (.atom ⟨v, .nc, false⟩))⟩

/-- **the excluded pairs are exactly the wrong ones**: for two `not in` leaves on the same string variable neither of
whose values contains the other, `_merge_single_markers` (as a union) answers Any, yet in an environment whose
value is the concatenation of the two values both leaves are false. -/
theorem notin_union_clash {n u v : String} (hn : n ∈ plainStringVars)
    (hc : Generic.ncClash ⟨u, .nc, false⟩ ⟨v, .nc, false⟩ = true) :
    mergeLeaves (.single (revNotIn n u)) (.single (revNotIn n v)) false = .ok (some .any) ∧
    ∀ E : Env, E.get? n = some (u ++ v) →
      leafEval E (.single (revNotIn n u)) = false ∧ leafEval E (.single (revNotIn n v)) = false := by
  obtain ⟨b1, b2⟩ := plainStringVars_basic hn
  obtain ⟨p1, p2⟩ := isPyName_false b2
  obtain ⟨hu, hd⟩ := Generic.Atom.unionA_ncClash ⟨u, .nc, false⟩ ⟨v, .nc, false⟩ rfl rfl hc
  constructor
  · simp only [mergeLeaves]
    rw [mergeSingle.eq_def]
    dsimp only
    simp only [Leaf.name, revNotIn, p1, p2, Bool.false_and, Bool.or_self, Bool.false_eq_true, if_false,
      bne_self_eq_false, Leaf.c, LeafC.union, GC.unionWith, GS.unionS, hu, Except.map, bind, Except.bind]
    rfl
  · intro E hE
    have e1 : (Leaf.single (revNotIn n u)).validate E = .ok ((GC.s (.atom ⟨u, .nc, false⟩)).den (u ++ v)) := by
      simp only [Leaf.validate, revNotIn]; exact validateLike_gen n _ E b1 _ hE
    have e2 : (Leaf.single (revNotIn n v)).validate E = .ok ((GC.s (.atom ⟨v, .nc, false⟩)).den (u ++ v)) := by
      simp only [Leaf.validate, revNotIn]; exact validateLike_gen n _ E b1 _ hE
    simp only [Bool.or_eq_false_iff] at hd
    simp only [leafEval, e1, e2, GC.den, GC.sem, GS.sem]
    exact hd

end Poetry.Marker
