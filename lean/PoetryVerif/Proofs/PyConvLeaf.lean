/-
C11's per-item exactness composed with C06's leaf agreement: coherent, evaluable python single markers are
`LeafClause`s for poetry's own leaf truth; `get_python_constraint_from_marker` against `M.validate`
(helper lemmas for C11).
-/
import PoetryVerif.Proofs.PyConvPoetry
import PoetryVerif.Proofs.PyConvGpc
import PoetryVerif.Proofs.MarkerLeafCompat
import PoetryVerif.Proofs.MarkerProjVars
import PoetryVerif.Proofs.PyConvSplitSound
set_option linter.unusedSimpArgs false
set_option linter.unusedVariables false

namespace Poetry.Marker
open Poetry Poetry.Spec.Pep508

/-- a python single-marker-like of the shape the conversion is exact on: a `SingleMarker` with the variable on
the left, a comparison operator, and a printed release of two (`python_version`) or three
(`python_full_version`) components -/
def PyShaped (l : Leaf) : Prop :=
  convKey l.name = pyKey → ∃ s lit, l = .single s ∧ s.swapped = false ∧ RelOp s.op ∧ PyItem s.name lit ∧
    s.value = Version.relText lit

theorem pyItem_agree (E : Env) (X Y Z : Nat) (hE : EnvPy E X Y Z) (n op : String) (lit : List Nat)
    (hop : RelOp op) (hi : PyItem n lit) :
    ∃ b, itemV E n op (Version.relText lit) false = .ok b ∧ evalItem n op (Version.relText lit) false E = some b := by
  cases hi with
  | short a b =>
    rcases hop with rfl | rfl | rfl | rfl | rfl | rfl | rfl
    · obtain ⟨x, h1, h2, _⟩ := agree_pv E .eq "==" (by decide) a [b] X [Y] hE.1; exact ⟨x, h1, h2⟩
    · obtain ⟨x, h1, h2, _⟩ := agree_pv E .ne "!=" (by decide) a [b] X [Y] hE.1; exact ⟨x, h1, h2⟩
    · obtain ⟨x, h1, h2, _⟩ := agree_pv E .lt "<" (by decide) a [b] X [Y] hE.1; exact ⟨x, h1, h2⟩
    · obtain ⟨x, h1, h2, _⟩ := agree_pv E .le "<=" (by decide) a [b] X [Y] hE.1; exact ⟨x, h1, h2⟩
    · obtain ⟨x, h1, h2, _⟩ := agree_pv E .gt ">" (by decide) a [b] X [Y] hE.1; exact ⟨x, h1, h2⟩
    · obtain ⟨x, h1, h2, _⟩ := agree_pv E .ge ">=" (by decide) a [b] X [Y] hE.1; exact ⟨x, h1, h2⟩
    · obtain ⟨x, h1, h2, _⟩ := agree_pv_compat E a [b] (by simp) X [Y] hE.1; exact ⟨x, h1, h2⟩
  | full a b c =>
    rcases hop with rfl | rfl | rfl | rfl | rfl | rfl | rfl
    · obtain ⟨x, h1, h2, _⟩ := agree_pfv3 E .eq "==" (by decide) a [b, c] (by simp) X [Y, Z] hE.2; exact ⟨x, h1, h2⟩
    · obtain ⟨x, h1, h2, _⟩ := agree_pfv3 E .ne "!=" (by decide) a [b, c] (by simp) X [Y, Z] hE.2; exact ⟨x, h1, h2⟩
    · obtain ⟨x, h1, h2, _⟩ := agree_pfv3 E .lt "<" (by decide) a [b, c] (by simp) X [Y, Z] hE.2; exact ⟨x, h1, h2⟩
    · obtain ⟨x, h1, h2, _⟩ := agree_pfv3 E .le "<=" (by decide) a [b, c] (by simp) X [Y, Z] hE.2; exact ⟨x, h1, h2⟩
    · obtain ⟨x, h1, h2, _⟩ := agree_pfv3 E .gt ">" (by decide) a [b, c] (by simp) X [Y, Z] hE.2; exact ⟨x, h1, h2⟩
    · obtain ⟨x, h1, h2, _⟩ := agree_pfv3 E .ge ">=" (by decide) a [b, c] (by simp) X [Y, Z] hE.2; exact ⟨x, h1, h2⟩
    · obtain ⟨x, h1, h2, _⟩ := agree_pfv3_compat E a [b, c] (by simp) X [Y, Z] hE.2; exact ⟨x, h1, h2⟩


theorem leafPrepare_name (name cstr : String) (sw : Bool) (p : LeafPrep) (h : leafPrepare name cstr sw = .ok p) :
    p.name = aliasName name := by
  unfold leafPrepare at h
  simp only at h
  split at h
  · cases h
  · repeat' split at h
    all_goals (first | cases h; rfl | skip)

theorem mkSingle_name (name cstr : String) (sw : Bool) (s : Single) (h : mkSingle name cstr sw = .ok s) :
    s.name = aliasName name := by
  simp only [mkSingle, bind, Except.bind] at h
  split at h
  · cases h
  · rename_i p hp
    split at h
    · cases h
    · simp [pure, Except.pure] at h
      rw [← h]; exact leafPrepare_name name cstr sw p hp

theorem pyName_of_convKey {n : String} (h : convKey n = pyKey) : n = "python_version" ∨ n = "python_full_version" := by
  unfold convKey at h
  split at h
  · right; simpa using ‹(n == "python_full_version") = true›
  · left; exact h

/-- **C11's per-item exactness composed with C06's leaf agreement**: a coherent, evaluable python single marker of
the exact shape is a `LeafClause` for poetry's own leaf truth `leafEval E`. -/
theorem leafClause_of_comp (E : Env) (X Y Z : Nat) (hE : EnvPy E X Y Z) (l : Leaf) (hc : CompLeaf E l)
    (hs : PyShaped l) (hk : convKey l.name = pyKey) : LeafClause (leafEval E) X Y Z l := by
  obtain ⟨s, lit, rfl, hsw, hop, hi, hv⟩ := hs hk
  obtain ⟨s', he, hcoh, ⟨b0, hb0⟩, _⟩ := hc
  injection he with he; subst he
  obtain ⟨item, bb, hitem, hmean, hev⟩ := normPair_exact E X Y Z hE s.name s.op lit hop hi
  obtain ⟨b, hb1, hb2⟩ := pyItem_agree E X Y Z hE s.name s.op lit hop hi
  rw [hev] at hb2; injection hb2 with hb2; subst hb2
  obtain ⟨item', hitem', hshape⟩ := normPair_shape s.name s.op lit hop hi
  rw [hitem] at hitem'; injection hitem' with hitem'; subst hitem'
  refine ⟨s, item, rfl, hop, by rw [hv]; exact hitem, ?_, hshape⟩
  -- the leaf's own truth is the model's value of the item
  have hle : leafEval E (.single s) = bb := by
    simp only [Single.coherent, hsw, hv] at hcoh
    simp only [itemV] at hb1
    cases hm : mkSingle s.name (itemConstraintString s.op (Version.relText lit) false) false with
    | error e => rw [hm] at hcoh; cases hcoh
    | ok s2 =>
      rw [hm] at hcoh hb1
      have hc2 : s2.c = s.c := by simpa using hcoh
      have hn2 : s2.name = s.name := by
        rw [mkSingle_name _ _ _ _ hm]
        rcases pyName_of_convKey hk with h | h <;> (simp only [Leaf.name] at h; rw [h]; decide)
      simp only [hc2, hn2] at hb1
      simp [leafEval, Leaf.validate, hb1]
  rw [hle]; exact hmean


/-- the leaf invariant for the marker → range direction: what `_compact_markers` builds (`CompLeaf E`), python
leaves being of the exact shape -/
def PyG (E : Env) (l : Leaf) : Prop := CompLeaf E l ∧ PyShaped l ∧ Canon l

theorem pyG_evaluable (E : Env) (m : M) (h : M.Good (PyG E) m) : M.Evaluable E m :=
  M.good_mono (fun l hl => by obtain ⟨⟨s, _, _, hb, _⟩, _⟩ := hl; exact hb) m h

mutual
theorem leaf_name_mem_vars (m : M) : ∀ l ∈ M.leaves m, l.name ∈ M.vars m := by
  cases m with
  | any => simp [M.leaves]
  | empty => simp [M.leaves]
  | leaf l => simp [M.leaves, M.vars]
  | multi ms => simpa [M.leaves, M.vars] using leaf_name_mem_varsList ms
  | union ms => simpa [M.leaves, M.vars] using leaf_name_mem_varsList ms
theorem leaf_name_mem_varsList (ms : List M) : ∀ l ∈ M.leavesList ms, l.name ∈ M.varsList ms := by
  cases ms with
  | nil => simp [M.leavesList]
  | cons m ms =>
    intro l hl
    simp only [M.leavesList, List.mem_append] at hl
    simp only [M.varsList, List.mem_append]
    rcases hl with hl | hl
    · exact Or.inl (leaf_name_mem_vars m l hl)
    · exact Or.inr (leaf_name_mem_varsList ms l hl)
end

theorem convKey_of_pyNames {n : String} (h : pyNames.contains n = true) : convKey n = pyKey := by
  have : n = "python_version" ∨ n = "python_full_version" := by
    simpa [pyNames, Gen.pythonVersionMarkers] using h
  rcases this with rfl | rfl <;> decide

/-- **one-sided part against poetry's own evaluation**: if the marker validates to true on the environment of
`X.Y.Z`, its Python constraint admits `X.Y.Z`. -/
theorem gpc_upper_validate (E : Env) (X Y Z : Nat) (hE : EnvPy E X Y Z) (S : LeafSpec (leafEval E) (PyG E))
    (m : M) (g : VC) (hg : M.Good (PyG E) m) (h : gpc m = .ok g)
    (hv : M.validate E m = .ok true) : g.allowsPlain (pyV X Y Z) = true := by
  have hSp := splitSound_holds X Y Z
  rw [M.validate_eq_sem E m (pyG_evaluable E m hg)] at hv
  injection hv with hv
  exact gpc_upper S X Y Z m g hg (fun l hl hk => leafClause_of_comp E X Y Z hE l hl.1 hl.2.1 hk) hSp h hv

/-- **exactness against poetry's own evaluation** for python-only markers -/
theorem gpc_exact_validate (E : Env) (X Y Z : Nat) (hE : EnvPy E X Y Z) (S : LeafSpec (leafEval E) (PyG E))
    (m : M) (g : VC) (hg : M.Good (PyG E) m)
    (hvars : ∀ n ∈ M.vars m, pyNames.contains n = true)
   
    (h : gpc m = .ok g) : M.validate E m = .ok (g.allowsPlain (pyV X Y Z)) := by
  have hSp := splitSound_holds X Y Z
  rw [M.validate_eq_sem E m (pyG_evaluable E m hg)]
  congr 1
  refine gpc_exact S X Y Z m g hg hvars (fun l hl hk => leafClause_of_comp E X Y Z hE l hl.1 hl.2.1 hk) hSp ?_ h
  intro d hd l hl
  have hv := dnf_vars S (fun l hl => hl.2.2) _ _ m d hg hd l.name (leaf_name_mem_vars d l hl)
  exact convKey_of_pyNames (hvars _ hv)

end Poetry.Marker
