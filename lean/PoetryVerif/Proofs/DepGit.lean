/-
Whole-URL print / parse inverse of the restricted git-URL grammar (Model/Dep.lean `parseGitUrl`): the normal form
`scheme://[user@]host[:port]/seg/…/seg[@rev][#subdirectory=dir]` — with or without the `git+` prefix — is read back
into exactly its components, and `ParsedUrl.url` of the result is the normal form without suffix.
-/
import PoetryVerif.Proofs.Dep

set_option linter.unusedSimpArgs false
set_option linter.unusedVariables false

namespace Poetry.Dep
open Poetry Poetry.Marker Poetry.Req

theorem pathOf_length (segs : List (List Char)) (h : ∀ s ∈ segs, s ≠ []) : segs.length ≤ (pathOf segs).length := by
  match segs, h with
  | [], _ => simp
  | [s], h =>
    have := h s (by simp)
    cases s with
    | nil => exact absurd rfl this
    | cons c x => simp [pathOf]
  | s :: t :: r, h =>
    have ih := pathOf_length (t :: r) (fun y hy => h y (by simp [hy]))
    simp only [pathOf, List.length_cons, List.length_append] at ih ⊢
    omega

theorem suffix_stopper (rev subdir : Option (List Char)) : stopper (suffixText rev subdir) := by
  unfold stopper suffixText
  cases rev with
  | some r => exact Or.inr ⟨r ++ _, Or.inl rfl⟩
  | none =>
    cases subdir with
    | none => exact Or.inl rfl
    | some d => right; rw [subdirKey_eq]; exact ⟨_, Or.inr rfl⟩

theorem pathOf_head (segs : List (List Char)) (hs : segs ≠ [] ∧ ∀ s ∈ segs, s ≠ [] ∧ ∀ c ∈ s, isSegChar c = true)
    (t : List Char) : ∃ c q, pathOf segs ++ t = c :: q ∧ isSegChar c = true := by
  match segs, hs with
  | [], hs => exact absurd rfl hs.1
  | [s], hs =>
    obtain ⟨hne, hc⟩ := hs.2 s (by simp)
    cases s with
    | nil => exact absurd rfl hne
    | cons c x => exact ⟨c, x ++ t, by simp [pathOf], hc c (by simp)⟩
  | s :: u :: r, hs =>
    obtain ⟨hne, hc⟩ := hs.2 s (by simp)
    cases s with
    | nil => exact absurd rfl hne
    | cons c x => exact ⟨c, x ++ '/' :: pathOf (u :: r) ++ t, by simp [pathOf], hc c (by simp)⟩

theorem segChar_not_stop {c : Char} (h : isSegChar c = true) : (c == '@' || c == '#') = false := by
  cases h1 : c == '@' with
  | true => have : c = '@' := by simpa using h1
            subst this; simp [isSegChar, isUChar, Req.isAlnum, isDigit, isLowerAlpha] at h
  | false =>
    cases h2 : c == '#' with
    | true => have : c = '#' := by simpa using h2
              subst this; simp [isSegChar, isUChar, Req.isAlnum, isDigit, isLowerAlpha] at h
    | false => rfl

def portText : Option (List Char) → List Char
  | some p => ':' :: p
  | none => []

/-- `/path[suffix]` after the port -/
theorem authStep_path (proto : String) (user : Option String) (host : List Char) (port : Option (List Char))
    (segs : List (List Char)) (rev subdir : Option (List Char)) (hp : optWF isDigit port)
    (hs : segs ≠ [] ∧ ∀ s ∈ segs, s ≠ [] ∧ ∀ c ∈ s, isSegChar c = true)
    (hr : optWF isRevChar rev) (hd : optWF isSubdirChar subdir) :
    authStep proto user host (portText port ++ '/' :: pathOf segs ++ suffixText rev subdir) =
      .ok { protocol := some proto, resource := if host.isEmpty then none else some (String.ofList host),
            pathname := some (String.ofList ('/' :: pathOf segs)), user := user, port := port.map String.ofList,
            rev := rev.map String.ofList, subdirectory := subdir.map String.ofList } := by
  have hport : takePort (portText port ++ '/' :: pathOf segs ++ suffixText rev subdir) =
      (port.map String.ofList, '/' :: pathOf segs ++ suffixText rev subdir) := by
    cases port with
    | none => simp [takePort, portText]
    | some p =>
      have hp' : p ≠ [] ∧ ∀ c ∈ p, isDigit c = true := hp
      have htw : takeWhileC isDigit (p ++ ('/' :: pathOf segs ++ suffixText rev subdir)) = (p, '/' :: pathOf segs ++ suffixText rev subdir) := by
        apply takeWhileC_append _ _ _ hp'.2
        intro c q hq; simp at hq; rw [← hq.1]; decide
      obtain ⟨d0, p', rfl⟩ : ∃ d0 p', p = d0 :: p' := by
        cases p with | nil => exact absurd rfl hp'.1 | cons d0 p' => exact ⟨d0, p', rfl⟩
      simp only [List.cons_append, List.append_assoc] at htw
      simp only [portText, List.cons_append, List.append_assoc, takePort, Option.map, htw]
  obtain ⟨c, q, hcq, hc⟩ := pathOf_head segs hs (suffixText rev subdir)
  have htp : takePath (pathOf segs ++ suffixText rev subdir) = some (pathOf segs, suffixText rev subdir) := by
    unfold takePath
    rw [hcq]
    simp only [segChar_not_stop hc, Bool.false_eq_true, if_false]
    rw [← hcq]
    apply takeSegs_path segs _ _ hs (suffix_stopper rev subdir)
    have := pathOf_length segs (fun s h => (hs.2 s h).1)
    simp only [List.length_append]; omega
  unfold authStep
  rw [hport]
  simp only [List.cons_append, beq_self_eq_true, Bool.true_or, if_true, htp, parseSuffix_suffixText rev subdir hr hd]

theorem uchar_not_at : isUChar '@' = false := by decide
theorem uchar_not_colon : isUChar ':' = false := by decide
theorem uchar_not_slash : isUChar '/' = false := by decide

/-- the text after the host: `[:port]/path[suffix]` -/
def GitParts.tail (g : GitParts) : List Char :=
  portText g.port ++ '/' :: pathOf g.segs ++ suffixText g.rev g.subdir

theorem GitParts.tail_head (g : GitParts) : ∀ c q, g.tail = c :: q → isUChar c = false ∧ c ≠ '@' := by
  intro c q hq
  unfold GitParts.tail at hq
  cases hp : g.port with
  | none => simp [hp, portText] at hq; rw [← hq.1]; exact ⟨by decide, by decide⟩
  | some p => simp [hp, portText] at hq; rw [← hq.1]; exact ⟨by decide, by decide⟩

/-- after `scheme://`: user, host, port, path and suffix are read back -/
theorem parseAuthorityPath_parts (g : GitParts) (h : g.WF) :
    parseAuthorityPath g.proto ((match g.user with | some u => u ++ ['@'] | none => []) ++ g.host ++ g.tail) = .ok g.parsed := by
  have hstep := authStep_path g.proto (g.user.map String.ofList) g.host g.port g.segs g.rev g.subdir h.port h.segs h.rev h.subdir
  have hhost : g.host.isEmpty = false := by cases hh : g.host with | nil => exact absurd hh h.host.1 | cons a b => rfl
  have htw : takeWhileC isUChar (g.host ++ g.tail) = (g.host, g.tail) :=
    takeWhileC_append isUChar _ _ h.host.2 (fun c q hq => (g.tail_head c q hq).1)
  unfold parseAuthorityPath
  cases hu : g.user with
  | none =>
    simp only [List.nil_append, htw]
    have hne : ∀ r', g.tail ≠ '@' :: r' := fun r' e => (g.tail_head '@' r' e).2 rfl
    split
    · rename_i r' heq; exact absurd heq (hne r')
    · rw [hu] at hstep
      unfold GitParts.tail
      refine hstep.trans ?_
      simp [GitParts.parsed, hu, hhost]
  | some u =>
    have hu' : u ≠ [] ∧ ∀ c ∈ u, isUChar c = true := by have := h.user; rw [hu] at this; exact this
    have htu : takeWhileC isUChar (u ++ ('@' :: (g.host ++ g.tail))) = (u, '@' :: (g.host ++ g.tail)) :=
      takeWhileC_append isUChar _ _ hu'.2 (by intro c q hq; injection hq with e _; rw [← e]; decide)
    have e0 : u ++ ['@'] ++ g.host ++ g.tail = u ++ ('@' :: (g.host ++ g.tail)) := by simp
    have hue : u.isEmpty = false := by cases hh : u with | nil => exact absurd hh hu'.1 | cons a b => rfl
    rw [e0]
    simp only [htu, hue, htw, hhost, Bool.false_eq_true, if_false]
    rw [hu] at hstep
    unfold GitParts.tail
    refine hstep.trans ?_
    simp [GitParts.parsed, hu, hhost]

/-- the scheme step, with and without the `git+` prefix -/
theorem parseGitUrlL_scheme (proto : String) (hp : proto ∈ gitSchemes) (rest : List Char) :
    parseGitUrlL (proto.toList ++ "://".toList ++ rest) = parseAuthorityPath proto rest ∧
    parseGitUrlL ("git+".toList ++ (proto.toList ++ "://".toList ++ rest)) = parseAuthorityPath proto rest := by
  have e0 : "://".toList = [':', '/', '/'] := rfl
  have e1 : "git+".toList = ['g', 'i', 't', '+'] := rfl
  simp only [gitSchemes, List.mem_cons, List.mem_nil_iff, or_false] at hp
  rcases hp with rfl | rfl | rfl | rfl | rfl | rfl
  · have e2 : "git".toList = ['g', 'i', 't'] := rfl
    have e3 : String.ofList ['g', 'i', 't'] = "git" := rfl
    constructor <;> simp [parseGitUrlL, e0, e1, e2, e3, stripPrefix?, takeWhileC, isLowerAlpha, gitSchemes]
  · have e2 : "ssh".toList = ['s', 's', 'h'] := rfl
    have e3 : String.ofList ['s', 's', 'h'] = "ssh" := rfl
    constructor <;> simp [parseGitUrlL, e0, e1, e2, e3, stripPrefix?, takeWhileC, isLowerAlpha, gitSchemes]
  · have e2 : "rsync".toList = ['r', 's', 'y', 'n', 'c'] := rfl
    have e3 : String.ofList ['r', 's', 'y', 'n', 'c'] = "rsync" := rfl
    constructor <;> simp [parseGitUrlL, e0, e1, e2, e3, stripPrefix?, takeWhileC, isLowerAlpha, gitSchemes]
  · have e2 : "file".toList = ['f', 'i', 'l', 'e'] := rfl
    have e3 : String.ofList ['f', 'i', 'l', 'e'] = "file" := rfl
    constructor <;> simp [parseGitUrlL, e0, e1, e2, e3, stripPrefix?, takeWhileC, isLowerAlpha, gitSchemes]
  · have e2 : "http".toList = ['h', 't', 't', 'p'] := rfl
    have e3 : String.ofList ['h', 't', 't', 'p'] = "http" := rfl
    constructor <;> simp [parseGitUrlL, e0, e1, e2, e3, stripPrefix?, takeWhileC, isLowerAlpha, gitSchemes]
  · have e2 : "https".toList = ['h', 't', 't', 'p', 's'] := rfl
    have e3 : String.ofList ['h', 't', 't', 'p', 's'] = "https" := rfl
    constructor <;> simp [parseGitUrlL, e0, e1, e2, e3, stripPrefix?, takeWhileC, isLowerAlpha, gitSchemes]

/-- **whole-URL print / parse inverse of the git grammar**: the normal form with its suffix, with or without `git+`,
is parsed into exactly its components, and `ParsedUrl.url` of the result is the normal form -/
theorem giturl_inverse (g : GitParts) (h : g.WF) :
    parseGitUrlL ("git+".toList ++ g.text) = .ok g.parsed ∧ parseGitUrlL g.text = .ok g.parsed ∧
    g.parsed.url = String.ofList g.normal := by
  have e : g.text = g.proto.toList ++ "://".toList ++
      ((match g.user with | some u => u ++ ['@'] | none => []) ++ g.host ++ g.tail) := by
    clear h
    obtain ⟨proto, user, host, port, segs, rev, subdir⟩ := g
    cases user <;> cases port <;> simp [GitParts.text, GitParts.normal, GitParts.authority, GitParts.tail, portText, List.append_assoc]
  obtain ⟨s1, s2⟩ := parseGitUrlL_scheme g.proto h.proto ((match g.user with | some u => u ++ ['@'] | none => []) ++ g.host ++ g.tail)
  refine ⟨by rw [e, s2]; exact parseAuthorityPath_parts g h, by rw [e, s1]; exact parseAuthorityPath_parts g h, ?_⟩
  -- the printed URL
  have hproto : g.proto ≠ "" := by
    have := h.proto
    simp only [gitSchemes, List.mem_cons, List.mem_nil_iff, or_false] at this
    rcases this with e | e | e | e | e | e <;> rw [e] <;> decide
  apply String.toList_inj.mp
  have hls : lstripColonSlash ('/' :: pathOf g.segs) = pathOf g.segs := by
    obtain ⟨c, q, hcq, hc⟩ := pathOf_head g.segs h.segs []
    simp only [List.append_nil] at hcq
    rw [hcq]
    have h1 : (c == ':') = false := by
      cases hh : c == ':' with
      | false => rfl
      | true => have : c = ':' := by simpa using hh
                subst this; simp [isSegChar, isUChar, Req.isAlnum, isDigit, isLowerAlpha] at hc
    have h2 : (c == '/') = false := by
      cases hh : c == '/' with
      | false => rfl
      | true => have : c = '/' := by simpa using hh
                subst this; simp [isSegChar, isUChar, Req.isAlnum, isDigit, isLowerAlpha] at hc
    simp [lstripColonSlash, h1, h2]
  have hhost : g.host ≠ [] := h.host.1
  cases hu : g.user with
  | none =>
    cases hpo : g.port with
    | none =>
      simp [GitUrl.url, GitParts.parsed, GitParts.normal, GitParts.authority, truthy, hu, hpo, hproto, hhost,
        String.toList_append, String.toList_ofList, hls]
    | some p =>
      have hp' : p ≠ [] := by have := h.port; rw [hpo] at this; exact this.1
      simp [GitUrl.url, GitParts.parsed, GitParts.normal, GitParts.authority, truthy, hu, hpo, hproto, hhost, hp',
        String.toList_append, String.toList_ofList, hls]
  | some u =>
    have hu' : u ≠ [] := by have := h.user; rw [hu] at this; exact this.1
    cases hpo : g.port with
    | none =>
      simp [GitUrl.url, GitParts.parsed, GitParts.normal, GitParts.authority, truthy, hu, hpo, hproto, hhost, hu',
        String.toList_append, String.toList_ofList, hls]
    | some p =>
      have hp' : p ≠ [] := by have := h.port; rw [hpo] at this; exact this.1
      simp [GitUrl.url, GitParts.parsed, GitParts.normal, GitParts.authority, truthy, hu, hpo, hproto, hhost, hu', hp',
        String.toList_append, String.toList_ofList, hls]

end Poetry.Dep
