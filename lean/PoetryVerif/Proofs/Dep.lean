/-
Helper lemmas for C10 (dependency ↔ PEP 508 text): name normalisation, extras normalisation, the token
recognisers of pep508.lark on printed text (arbitrary blanks between tokens), print/parse inverse of the
restricted git-URL grammar.
-/
import PoetryVerif.Model.Dep

set_option linter.unusedSimpArgs false
set_option linter.unusedVariables false

namespace Poetry.Dep
open Poetry Poetry.Marker Poetry.Req

/-! ### `canonicalize_name` is idempotent -/

theorem toNat_ofNat_lt (n : Nat) (h : n < 0xd800) : (Char.ofNat n).toNat = n := by
  unfold Char.ofNat
  have : n.isValidChar := Or.inl h
  simp [this, Char.ofNatAux, Char.toNat]

def isSep (c : Char) : Bool := c == '-' || c == '_' || c == '.'

theorem lowerChar_sep (c : Char) (h : isSep c = false) : isSep (lowerChar c) = false := by
  unfold lowerChar
  split
  · rename_i hu
    simp only [Bool.and_eq_true, decide_eq_true_eq] at hu
    have h1 : 65 ≤ c.toNat := hu.1
    have h2 : c.toNat ≤ 90 := hu.2
    have hv : (Char.ofNat (c.toNat + 32)).toNat = c.toNat + 32 := by
      apply toNat_ofNat_lt
      omega
    simp only [isSep, Bool.or_eq_false_iff, beq_eq_false_iff_ne, ne_eq]
    refine ⟨⟨?_, ?_⟩, ?_⟩ <;> intro he <;> rw [he] at hv <;> simp at hv <;> omega
  · exact h

theorem lowerChar_idem (c : Char) : lowerChar (lowerChar c) = lowerChar c := by
  unfold lowerChar
  split
  · rename_i hu
    simp only [Bool.and_eq_true, decide_eq_true_eq] at hu
    have h1 : 65 ≤ c.toNat := hu.1
    have h2 : c.toNat ≤ 90 := hu.2
    have hv : (Char.ofNat (c.toNat + 32)).toNat = c.toNat + 32 := by
      apply toNat_ofNat_lt
      omega
    have : ¬ (('A' ≤ Char.ofNat (c.toNat + 32) && Char.ofNat (c.toNat + 32) ≤ 'Z') = true) := by
      simp only [Bool.and_eq_true, decide_eq_true_eq, not_and]
      intro _ h4
      have : (Char.ofNat (c.toNat + 32)).toNat ≤ 90 := h4
      omega
    simp [this]
  · rename_i hu; simp [hu]

theorem canonGo_idem (cs : List Char) (r : Bool) :
    canonName.go (canonName.go cs r) r = canonName.go cs r := by
  induction cs generalizing r with
  | nil => simp [canonName.go]
  | cons c cs ih =>
    by_cases hs : isSep c = true
    · have hs' : (c == '-' || c == '_' || c == '.') = true := hs
      cases r
      · simp only [canonName.go, hs', if_true, Bool.false_eq_true, if_false]
        simp [canonName.go, ih true]
      · simp only [canonName.go, hs', if_true]
        exact ih true
    · have hs0 : isSep c = false := by simpa using hs
      have hs' : (c == '-' || c == '_' || c == '.') = false := hs0
      have hl : (lowerChar c == '-' || lowerChar c == '_' || lowerChar c == '.') = false := lowerChar_sep c hs0
      simp only [canonName.go, hs', Bool.false_eq_true, if_false, hl, lowerChar_idem, ih false]

/-- **`canonicalize_name` is idempotent** -/
theorem canonName_idem (s : String) : canonName (canonName s) = canonName s := by
  unfold canonName
  rw [String.toList_ofList]
  rw [canonGo_idem s.toList false]

/-- the canonical name only depends on the lower-cased text with runs of `-_.` collapsed: two spellings with the
same canonical form give the same `normFeatures` -/
theorem normFeatures_congr (a b : List String) (h : a.map canonName = b.map canonName) :
    normFeatures a = normFeatures b := by
  have key : ∀ (l : List String) (acc : List String),
      l.foldl (fun acc f => insertUniq (canonName f) acc) acc = (l.map canonName).foldl (fun acc f => insertUniq f acc) acc := by
    intro l
    induction l with
    | nil => intro acc; rfl
    | cons x xs ih => intro acc; simp [List.foldl, ih]
  unfold normFeatures
  rw [key a, key b, h]

/-! ### the extras list (sorted, duplicate-free, canonical) is stable under re-normalisation -/

theorem charsLt_irrefl (a : List Char) : charsLt a a = false := by
  induction a with
  | nil => rfl
  | cons x xs ih => simp [charsLt, ih]

theorem charsLt_asymm (a b : List Char) (h : charsLt a b = true) : charsLt b a = false := by
  induction a generalizing b with
  | nil => cases b <;> simp_all [charsLt]
  | cons x xs ih =>
    cases b with
    | nil => simp [charsLt] at h
    | cons y ys =>
      simp only [charsLt] at h ⊢
      by_cases h1 : x.toNat < y.toNat
      · have : ¬ y.toNat < x.toNat := by omega
        simp [h1, this]
      · by_cases h2 : y.toNat < x.toNat
        · simp [h1, h2] at h
        · simp [h1, h2] at h ⊢
          exact ih ys h

theorem charsLt_trans (a b c : List Char) (h1 : charsLt a b = true) (h2 : charsLt b c = true) : charsLt a c = true := by
  induction a generalizing b c with
  | nil => cases b <;> cases c <;> simp_all [charsLt]
  | cons x xs ih =>
    cases b with
    | nil => simp [charsLt] at h1
    | cons y ys =>
      cases c with
      | nil => simp [charsLt] at h2
      | cons z zs =>
        simp only [charsLt] at h1 h2 ⊢
        by_cases a1 : x.toNat < y.toNat
        · by_cases b1 : y.toNat < z.toNat
          · have : x.toNat < z.toNat := by omega
            simp [this]
          · by_cases b2 : z.toNat < y.toNat
            · simp [b1, b2] at h2
            · have : x.toNat < z.toNat := by omega
              simp [this]
        · by_cases a2 : y.toNat < x.toNat
          · simp [a1, a2] at h1
          · simp [a1, a2] at h1
            by_cases b1 : y.toNat < z.toNat
            · have : x.toNat < z.toNat := by omega
              simp [this]
            · by_cases b2 : z.toNat < y.toNat
              · simp [b1, b2] at h2
              · simp [b1, b2] at h2
                have e1 : ¬ x.toNat < z.toNat := by omega
                have e2 : ¬ z.toNat < x.toNat := by omega
                simp [e1, e2]
                exact ih ys zs h1 h2

theorem charsLt_total (a b : List Char) (h1 : charsLt a b = false) (h2 : charsLt b a = false) : a = b := by
  induction a generalizing b with
  | nil => cases b <;> simp_all [charsLt]
  | cons x xs ih =>
    cases b with
    | nil => simp [charsLt] at h2
    | cons y ys =>
      simp only [charsLt] at h1 h2
      by_cases a1 : x.toNat < y.toNat
      · simp [a1] at h1
      · by_cases a2 : y.toNat < x.toNat
        · simp [a2] at h2
        · simp [a1, a2] at h1 h2
          have : x = y := Char.toNat_inj.mp (by omega)
          rw [this, ih ys h1 h2]

def Sorted (l : List String) : Prop := l.Pairwise (fun a b => strLt a b = true)

theorem mem_insertUniq (x z : String) (l : List String) (h : z ∈ insertUniq x l) : z = x ∨ z ∈ l := by
  induction l with
  | nil => simp [insertUniq] at h; exact Or.inl h
  | cons y ys ih =>
    simp only [insertUniq] at h
    split at h
    · exact Or.inr h
    · split at h
      · simp at h; rcases h with h | h | h <;> simp [h]
      · simp at h
        rcases h with h | h
        · simp [h]
        · rcases ih h with h | h <;> simp [h]

theorem insertUniq_sorted (x : String) (l : List String) (h : Sorted l) : Sorted (insertUniq x l) := by
  induction l with
  | nil => simp [insertUniq, Sorted]
  | cons y ys ih =>
    unfold Sorted at h ih ⊢
    rw [List.pairwise_cons] at h
    simp only [insertUniq]
    split
    · exact List.pairwise_cons.mpr h
    · rename_i hne
      split
      · rename_i hlt
        refine List.pairwise_cons.mpr ⟨?_, List.pairwise_cons.mpr h⟩
        intro z hz
        simp at hz
        rcases hz with rfl | hz
        · exact hlt
        · exact charsLt_trans _ _ _ hlt (h.1 z hz)
      · rename_i hnlt
        refine List.pairwise_cons.mpr ⟨?_, ih h.2⟩
        intro z hz
        rcases mem_insertUniq x z ys hz with rfl | hz
        · -- y < x by totality
          cases hyx : strLt y z with
          | true => rfl
          | false =>
            exfalso
            have : z.toList = y.toList := charsLt_total _ _ (by simpa [strLt] using hnlt) hyx
            have : z = y := String.toList_inj.mp this
            simp [this] at hne
        · exact h.1 z hz

theorem foldl_insert_sorted (f : String → String) (l acc : List String) (h : Sorted acc) :
    Sorted (l.foldl (fun acc x => insertUniq (f x) acc) acc) := by
  induction l generalizing acc with
  | nil => exact h
  | cons x xs ih => exact ih _ (insertUniq_sorted _ _ h)

theorem insertUniq_append (x : String) (acc : List String) (h : ∀ a ∈ acc, strLt a x = true) :
    insertUniq x acc = acc ++ [x] := by
  induction acc with
  | nil => rfl
  | cons y ys ih =>
    have hy : strLt y x = true := h y (by simp)
    have hne : (x == y) = false := by
      cases hxy : x == y with
      | false => rfl
      | true =>
        have : x = y := by simpa using hxy
        subst this
        simp [strLt, charsLt_irrefl] at hy
    have hnl : strLt x y = false := charsLt_asymm _ _ hy
    simp [insertUniq, hne, hnl]
    exact ih (fun a ha => h a (by simp [ha]))

theorem foldl_insert_id (rest acc : List String) (h : Sorted (acc ++ rest)) :
    rest.foldl (fun acc x => insertUniq x acc) acc = acc ++ rest := by
  induction rest generalizing acc with
  | nil => simp
  | cons x xs ih =>
    unfold Sorted at h
    have hx : ∀ a ∈ acc, strLt a x = true := by
      intro a ha
      exact (List.pairwise_append.mp h).2.2 a ha x (by simp)
    simp only [List.foldl]
    rw [insertUniq_append x acc hx]
    have := ih (acc ++ [x]) (by unfold Sorted; simpa using h)
    simpa using this

theorem mem_foldl_canon (l acc : List String) (z : String)
    (h : z ∈ l.foldl (fun acc f => insertUniq (canonName f) acc) acc) : z ∈ acc ∨ ∃ f, z = canonName f := by
  induction l generalizing acc with
  | nil => exact Or.inl h
  | cons x xs ih =>
    rcases ih _ h with h | h
    · rcases mem_insertUniq _ _ _ h with h | h
      · exact Or.inr ⟨x, h⟩
      · exact Or.inl h
    · exact Or.inr h

/-- **the normalised extras are stable**: `normFeatures` is idempotent (sorted + duplicate-free + canonical) -/
theorem normFeatures_idem (fs : List String) : normFeatures (normFeatures fs) = normFeatures fs := by
  have hs : Sorted (normFeatures fs) := foldl_insert_sorted canonName fs [] (by simp [Sorted])
  have hc : (normFeatures fs).map canonName = normFeatures fs := by
    have hid : ∀ z ∈ normFeatures fs, canonName z = id z := by
      intro z hz
      rcases mem_foldl_canon fs [] z hz with h | ⟨f, rfl⟩
      · simp at h
      · exact canonName_idem f
    rw [List.map_congr_left hid, List.map_id]
  have key : ∀ (l : List String) (acc : List String),
      l.foldl (fun acc f => insertUniq (canonName f) acc) acc = (l.map canonName).foldl (fun acc f => insertUniq f acc) acc := by
    intro l
    induction l with
    | nil => intro acc; rfl
    | cons x xs ih => intro acc; simp [List.foldl, ih]
  have e : normFeatures (normFeatures fs) =
      ((normFeatures fs).map canonName).foldl (fun acc f => insertUniq f acc) [] := key (normFeatures fs) []
  rw [e, hc]
  simpa using foldl_insert_id (normFeatures fs) [] (by simpa using hs)

/-! ### print / parse inverse on the restricted git-URL grammar -/

theorem takeWhileC_append (p : Char → Bool) (a b : List Char) (ha : ∀ c ∈ a, p c = true)
    (hb : ∀ c r, b = c :: r → p c = false) : takeWhileC p (a ++ b) = (a, b) := by
  induction a with
  | nil =>
    cases b with
    | nil => rfl
    | cons c r => simp [takeWhileC, hb c r rfl]
  | cons x xs ih =>
    have hx : p x = true := ha x (by simp)
    have := ih (fun c hc => ha c (by simp [hc]))
    simp [takeWhileC, hx, this]

/-- the components of a URL of the grammar in normal form (`/`-separated path, host present) -/
structure GitParts where
  proto : String
  user : Option (List Char)
  host : List Char
  port : Option (List Char)
  segs : List (List Char)
  rev : Option (List Char)
  subdir : Option (List Char)

def optWF (p : Char → Bool) : Option (List Char) → Prop
  | none => True
  | some l => l ≠ [] ∧ ∀ c ∈ l, p c = true

structure GitParts.WF (g : GitParts) : Prop where
  proto : g.proto ∈ gitSchemes
  user : optWF isUChar g.user
  host : g.host ≠ [] ∧ ∀ c ∈ g.host, isUChar c = true
  port : optWF isDigit g.port
  segs : g.segs ≠ [] ∧ ∀ s ∈ g.segs, s ≠ [] ∧ ∀ c ∈ s, isSegChar c = true
  rev : optWF isRevChar g.rev
  subdir : optWF isSubdirChar g.subdir

def pathOf : List (List Char) → List Char
  | [] => []
  | [s] => s
  | s :: t :: rest => s ++ '/' :: pathOf (t :: rest)

def suffixText (rev subdir : Option (List Char)) : List Char :=
  (match rev with | some r => '@' :: r | none => []) ++ (match subdir with | some d => subdirKey ++ d | none => [])

def GitParts.authority (g : GitParts) : List Char :=
  (match g.user with | some u => u ++ ['@'] | none => []) ++ g.host ++ (match g.port with | some p => ':' :: p | none => [])

/-- `scheme://[user@]host[:port]/seg/…` -/
def GitParts.normal (g : GitParts) : List Char := g.proto.toList ++ "://".toList ++ g.authority ++ '/' :: pathOf g.segs

def GitParts.text (g : GitParts) : List Char := g.normal ++ suffixText g.rev g.subdir

def GitParts.parsed (g : GitParts) : GitUrl :=
  { protocol := some g.proto, resource := some (String.ofList g.host),
    pathname := some (String.ofList ('/' :: pathOf g.segs)), user := g.user.map String.ofList,
    port := g.port.map String.ofList, rev := g.rev.map String.ofList, subdirectory := g.subdir.map String.ofList }

def stopper (t : List Char) : Prop := t = [] ∨ ∃ r, t = '@' :: r ∨ t = '#' :: r

theorem takeSegs_path (segs : List (List Char)) (t : List Char) (fuel : Nat)
    (hs : segs ≠ [] ∧ ∀ s ∈ segs, s ≠ [] ∧ ∀ c ∈ s, isSegChar c = true) (ht : stopper t) (hf : segs.length ≤ fuel) :
    takeSegs fuel (pathOf segs ++ t) = some (pathOf segs, t) := by
  induction segs generalizing fuel with
  | nil => exact absurd rfl hs.1
  | cons s rest ih =>
    cases fuel with
    | zero => simp at hf
    | succ fuel =>
      have hsw := hs.2 s (by simp)
      cases rest with
      | nil =>
        have htw : takeWhileC isSegChar (s ++ t) = (s, t) := by
          apply takeWhileC_append _ _ _ hsw.2
          intro c r hc
          rcases ht with h | ⟨r', h | h⟩ <;> rw [h] at hc <;> simp at hc
          · rw [← hc.1]; decide
          · rw [← hc.1]; decide
        simp only [pathOf, takeSegs, htw]
        have : s.isEmpty = false := by cases s <;> simp_all
        simp only [this, Bool.false_eq_true, if_false]
        rcases ht with h | ⟨r', h | h⟩ <;> subst h <;> rfl
      | cons t2 rest2 =>
        have hrest : (t2 :: rest2) ≠ [] ∧ ∀ s ∈ (t2 :: rest2), s ≠ [] ∧ ∀ c ∈ s, isSegChar c = true :=
          ⟨by simp, fun s' hs' => hs.2 s' (by simp [hs'])⟩
        have ih' := ih fuel hrest (by simp at hf ⊢; omega)
        have h2 := hrest.2 t2 (by simp)
        -- the text after the slash starts with a segment character
        obtain ⟨c0, t2', ht2⟩ : ∃ c0 t2', t2 = c0 :: t2' := by
          cases t2 with
          | nil => exact absurd rfl h2.1
          | cons c0 t2' => exact ⟨c0, t2', rfl⟩
        have hc0 : isSegChar c0 = true := h2.2 c0 (by simp [ht2])
        have hp : ∃ q, pathOf (t2 :: rest2) ++ t = c0 :: q := by
          subst ht2
          cases rest2 <;> simp [pathOf]
        obtain ⟨q, hq⟩ := hp
        have hne1 : (c0 == '@') = false := by
          cases h : c0 == '@' with
          | false => rfl
          | true => have : c0 = '@' := by simpa using h
                    subst this; simp [isSegChar, isUChar, isAlnum, isDigit, isLowerAlpha] at hc0
        have hne2 : (c0 == '#') = false := by
          cases h : c0 == '#' with
          | false => rfl
          | true => have : c0 = '#' := by simpa using h
                    subst this; simp [isSegChar, isUChar, isAlnum, isDigit, isLowerAlpha] at hc0
        have hse : s.isEmpty = false := by cases s <;> simp_all
        have e : pathOf (s :: t2 :: rest2) ++ t = s ++ '/' :: c0 :: q := by
          rw [← hq]; simp [pathOf]
        have htw : takeWhileC isSegChar (s ++ '/' :: c0 :: q) = (s, '/' :: c0 :: q) := by
          apply takeWhileC_append _ _ _ hsw.2
          intro c r hc
          simp at hc
          rw [← hc.1]; decide
        rw [e]
        simp only [takeSegs, htw, hse, Bool.false_eq_true, if_false]
        rw [hq] at ih'
        simp only [hne1, hne2, Bool.or_self, Bool.false_eq_true, if_false, ih', Option.map]
        simp [pathOf]

theorem stripPrefix?_append (p d : List Char) : stripPrefix? p (p ++ d) = some d := by
  induction p with
  | nil => cases d <;> rfl
  | cons x xs ih => simp [stripPrefix?, ih]

theorem subdirKey_eq : subdirKey = ['#', 's', 'u', 'b', 'd', 'i', 'r', 'e', 'c', 't', 'o', 'r', 'y', '='] := by decide

theorem not_rev_hash : isRevChar '#' = false := by decide

/-- the suffix `[@rev][#subdirectory=dir]` is read back exactly -/
theorem parseSuffix_suffixText (rev subdir : Option (List Char)) (hr : optWF isRevChar rev) (hd : optWF isSubdirChar subdir) :
    parseSuffix (suffixText rev subdir) = some (rev.map String.ofList, subdir.map String.ofList) := by
  cases rev with
  | none =>
    cases subdir with
    | none => rfl
    | some d =>
      have hd' : d ≠ [] ∧ ∀ c ∈ d, isSubdirChar c = true := hd
      have hne : d.isEmpty = false := by cases d <;> simp_all
      have hall : d.all isSubdirChar = true := by simpa using hd'.2
      have hs : stripPrefix? subdirKey (subdirKey ++ d) = some d := stripPrefix?_append _ _
      simp only [suffixText, List.nil_append]
      rw [subdirKey_eq] at hs
      simp only [List.cons_append, List.nil_append] at hs
      simp only [parseSuffix, subdirKey_eq, List.cons_append, List.nil_append, hs]
      have hall' : ∀ x ∈ d, isSubdirChar x = true := hd'.2
      simp [hd'.1]
      rw [if_pos hall']
  | some r =>
    have hr' : r ≠ [] ∧ ∀ c ∈ r, isRevChar c = true := hr
    have hne : r.isEmpty = false := by cases r <;> simp_all
    cases subdir with
    | none =>
      have htw : takeWhileC isRevChar (r ++ []) = (r, []) := takeWhileC_append _ _ _ hr'.2 (by simp)
      simp only [suffixText, List.append_nil] at htw ⊢
      simp [parseSuffix, htw, hne]
    | some d =>
      have hd' : d ≠ [] ∧ ∀ c ∈ d, isSubdirChar c = true := hd
      have hne2 : d.isEmpty = false := by cases d <;> simp_all
      have hall : d.all isSubdirChar = true := by simpa using hd'.2
      have hs : stripPrefix? subdirKey (subdirKey ++ d) = some d := stripPrefix?_append _ _
      have htw : takeWhileC isRevChar (r ++ (subdirKey ++ d)) = (r, subdirKey ++ d) := by
        apply takeWhileC_append _ _ _ hr'.2
        intro c q hc
        rw [subdirKey_eq] at hc
        simp at hc
        rw [← hc.1]; decide
      simp only [suffixText, List.cons_append]
      simp only [parseSuffix, htw, hne, Bool.false_eq_true, if_false]
      rw [subdirKey_eq] at hs
      simp only [List.cons_append, List.nil_append] at hs
      simp only [subdirKey_eq, List.cons_append, List.nil_append, hs]
      have hall' : ∀ x ∈ d, isSubdirChar x = true := hd'.2
      simp [hd'.1]
      exact hall'

/-! ### insignificant spelling -/

def Blanks (ws : List Char) : Prop := ∀ c ∈ ws, c = ' ' ∨ c = '\t'

theorem skipWs_blanks (ws cs : List Char) (h : Blanks ws) : skipWs (ws ++ cs) = skipWs cs := by
  induction ws with
  | nil => rfl
  | cons w ws ih =>
    have hw := h w (by simp)
    have ih' := ih (fun c hc => h c (by simp [hc]))
    rcases hw with rfl | rfl <;> simp [skipWs, ih']

/-- a string without quotes, backslashes and newlines is read identically in single and in double quotes -/
theorem markerValue_quote (v r : List Char) (h : ∀ c ∈ v, c ≠ '\'' ∧ c ≠ '"' ∧ c ≠ '\\' ∧ c ≠ '\n') :
    markerValue ('\'' :: v ++ '\'' :: r) = some (String.ofList v, r) ∧
    markerValue ('"' :: v ++ '"' :: r) = some (String.ofList v, r) := by
  have h1 : singleQuoted (v ++ '\'' :: r) = some (v, r) := by
    induction v with
    | nil => simp [singleQuoted]
    | cons c cs ih =>
      have hc := h c (by simp)
      have ih' := ih (fun x hx => h x (by simp [hx]))
      simp only [List.cons_append]
      unfold singleQuoted
      split
      · rename_i heq; cases heq
      · rename_i heq; injection heq with h1 h2; exact absurd h1 hc.1
      · rename_i heq; injection heq with h1 h2; subst h1 h2; simp [ih']
  have h2 : escapedQuoted false (v ++ '"' :: r) = some (v, r) := by
    clear h1
    induction v with
    | nil => simp [escapedQuoted]
    | cons c cs ih =>
      have hc := h c (by simp)
      have ih' := ih (fun x hx => h x (by simp [hx]))
      simp only [List.cons_append]
      unfold escapedQuoted
      split
      · rename_i heq; cases heq
      · rename_i heq; injection heq with h1 h2; exact absurd h1 hc.2.2.2
      · rename_i heq; injection heq with h1 h2; exact absurd h1 hc.2.1
      · rename_i heq; injection heq with h1 h2; exact absurd h1 hc.2.2.1
      · rename_i heq; injection heq with h1 h2; subst h1 h2; simp [ih']
  constructor
  · simp [markerValue, h1]
  · simp [markerValue, h2]

end Poetry.Dep
