/-
The leaves `python_version >= "L"` and `python_version < "H"` with literals of one or two components: what the
constructor stores, their truth on an environment, and their conversion by `get_python_constraint_from_marker`,
which is LITERALLY the stored range (for these two operators the normalisation leaves the clause alone, also for a
one-component literal -- the operators `==`, `!=`, `<=`, `>` on a one-component literal are the ones converted
inexactly, `counterexample_one_component_literal`).
-/
import PoetryVerif.Proofs.PyConvOneShape

set_option linter.unusedSimpArgs false
set_option linter.unusedVariables false

namespace Poetry.Marker
open Poetry Poetry.Version

def geLeafOf (a : Nat) (t : List Nat) : Single :=
  ⟨"python_version", ">=", Version.relText (a :: t), false, .ver (.single (.rng (geR (litV a t))))⟩
def ltLeafOf (a : Nat) (t : List Nat) : Single :=
  ⟨"python_version", "<", Version.relText (a :: t), false, .ver (.single (.rng (ltR (litV a t))))⟩

theorem mkSingle_geLeaf (a : Nat) (t : List Nat) :
    mkSingle "python_version" (">=" ++ Version.relText (a :: t)) false = .ok (geLeafOf a t) :=
  mkSingle_pv .ge ">=" (by decide) a t _ rfl

theorem mkSingle_ltLeaf (a : Nat) (t : List Nat) :
    mkSingle "python_version" ("<" ++ Version.relText (a :: t)) false = .ok (ltLeafOf a t) :=
  mkSingle_pv .lt "<" (by decide) a t _ rfl

theorem pbLit (a : Nat) (t : List Nat) (ht : t.length ≤ 1) : PyBound (litV a t) = true :=
  pb (a :: t) (by simp) (by simp; omega)

/-- a leaf of one of the two forms, with its range -/
inductive OneLeaf : Single → VRange → Prop
  | ge (a : Nat) (t : List Nat) (ht : t.length ≤ 1) : OneLeaf (geLeafOf a t) (geR (litV a t))
  | lt (a : Nat) (t : List Nat) (ht : t.length ≤ 1) : OneLeaf (ltLeafOf a t) (ltR (litV a t))

theorem OneLeaf.name {s R} (h : OneLeaf s R) : s.name = "python_version" := by cases h <;> rfl
theorem OneLeaf.c {s R} (h : OneLeaf s R) : s.c = .ver (.single (.rng R)) := by cases h <;> rfl
theorem OneLeaf.oneSided {s R} (h : OneLeaf s R) : OneSided R := by
  cases h
  · exact .ge _
  · exact .lt _
theorem OneLeaf.bounds {s R} (h : OneLeaf s R) : ∀ e ∈ R.bounds, PyBound e = true := by
  cases h with
  | ge a t ht => intro e he; simp [VRange.bounds, geR] at he; subst he; exact pbLit a t ht
  | lt a t ht => intro e he; simp [VRange.bounds, ltR] at he; subst he; exact pbLit a t ht
theorem OneLeaf.ok {s R} (h : OneLeaf s R) : PyVCok (.single (.rng R)) := by
  cases h with
  | ge a t ht => exact ok_lo _ true (pbLit a t ht)
  | lt a t ht => exact ok_hi _ false (pbLit a t ht)

theorem OneLeaf.ge_form {s R V} (h : OneLeaf s R) (e : R = geR V) : ∃ a t, t.length ≤ 1 ∧ V = litV a t := by
  cases h with
  | ge a t ht => simp only [geR, VRange.mk.injEq, Option.some.injEq] at e; exact ⟨a, t, ht, e.1.symm⟩
  | lt a t ht => simp [geR, ltR] at e

theorem OneLeaf.lt_form {s R W} (h : OneLeaf s R) (e : R = ltR W) : ∃ a t, t.length ≤ 1 ∧ W = litV a t := by
  cases h with
  | ge a t ht => simp [geR, ltR] at e
  | lt a t ht => simp only [ltR, VRange.mk.injEq, Option.some.injEq] at e; exact ⟨a, t, ht, e.2.1.symm⟩

/-- the truth of the leaf on an environment whose `python_version` is `X.Y` -/
theorem OneLeaf.eval {E : Env} {X Y : Nat} (hE : E.get? "python_version" = some (Version.relText [X, Y]))
    {s R} (h : OneLeaf s R) :
    (Leaf.single s).validate E = .ok ((VC.single (.rng R)).allowsPlain (pvProbe X Y)) := by
  have hok := h.ok
  have hBp : ∀ e ∈ (VC.single (.rng R)).flatten.flatMap RC.bounds, PyBound e = true := by
    intro e he
    simp only [List.mem_flatMap] at he
    obtain ⟨c, hc, hec⟩ := he
    exact (hok.2 c hc).2.2.2 e hec
  have hreg := regVC_of_ok (B := (VC.single (.rng R)).flatten.flatMap RC.bounds) hok
    (fun c hc e he => List.mem_flatMap.2 ⟨c, hc, he⟩)
  simp only [Leaf.validate, h.name, h.c]
  rw [validateLike_ver "python_version" (by decide) _ E X [Y] hE]
  exact VC.allows_of_reg (regB_of_pyBound _ hBp) _ hreg.1 hreg.2 _

theorem OneLeaf.leafEval {E : Env} {X Y : Nat} (hE : E.get? "python_version" = some (Version.relText [X, Y]))
    {s R} (h : OneLeaf s R) :
    leafEval E (.single s) = (VC.single (.rng R)).allowsPlain (pvProbe X Y) := by
  simp [Marker.leafEval, h.eval hE]

theorem normPair_ge (v : String) : normalizePyPair ">=" v = .ok (">=" ++ v) := by
  simp [normalizePyPair, show (">=" == "==") = false by decide, show (">=" == "!=") = false by decide,
    show (">=" == "<=") = false by decide, show (">=" == ">") = false by decide]

theorem normPair_lt (v : String) : normalizePyPair "<" v = .ok ("<" ++ v) := by
  simp [normalizePyPair, show ("<" == "==") = false by decide, show ("<" == "!=") = false by decide,
    show ("<" == "<=") = false by decide, show ("<" == ">") = false by decide]

/-- **the conversion of the leaf is the stored range**, whatever the number of components of the literal -/
theorem OneLeaf.gpc {s R} (h : OneLeaf s R) : gpcLeaf (.single s) = .ok (.single (.rng R)) := by
  cases h with
  | ge a t ht =>
    rw [gpcLeaf_single (geLeafOf a t) (">=" ++ Version.relText (a :: t)) (show isPyName "python_version" = true by decide)
      (by simp [geLeafOf, RelOp]) (normPair_ge _)]
    exact clause_of_parse _ ('>' :: '=' :: _root_.Poetry.relChars (a :: t))
      (by simp [_root_.Poetry.relText_toList]) (noSep_cons (sp (by simp)) (noSep_cons (sp (by simp)) (noSep_rel _)))
      (by simp) _ (_root_.Poetry.parseSingle_ge (a := a) (r := t) (m := true))
  | lt a t ht =>
    rw [gpcLeaf_single (ltLeafOf a t) ("<" ++ Version.relText (a :: t)) (show isPyName "python_version" = true by decide)
      (by simp [ltLeafOf, RelOp]) (normPair_lt _)]
    exact clause_of_parse _ ('<' :: _root_.Poetry.relChars (a :: t))
      (by simp [_root_.Poetry.relText_toList]) (noSep_cons (sp (by simp)) (noSep_rel _))
      (by simp) _ (_root_.Poetry.parseSingle_lt (a := a) (r := t) (m := true))

end Poetry.Marker
