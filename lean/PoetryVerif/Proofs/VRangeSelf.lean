/-
Unions against themselves (`allows_all`, `allows_any`), and `allows_any` versus `intersect` for unions
(helper lemmas for C12).
-/
import PoetryVerif.Proofs.VRangeInv

set_option linter.unusedSimpArgs false
set_option linter.unusedVariables false

namespace Poetry
open Version

/-- `allows_all` walk: when `theirs` is a sublist of `ours` (same members, in order), the answer is yes -/
theorem unionAllowsAllLoop_sublist : ∀ (fuel : Nat) (ours theirs : List RC),
    ours.length + theirs.length < fuel → (∀ c ∈ ours, c.WF) → theirs.Sublist ours →
    VC.unionAllowsAllLoop fuel ours theirs = .ok true
  | 0, _, _, hf, _, _ => by omega
  | fuel + 1, ours, [], _, _, _ => by cases ours <;> simp [VC.unionAllowsAllLoop]
  | fuel + 1, [], t :: ts, _, _, hs => by cases hs
  | fuel + 1, o :: os, t :: ts, hf, hw, hs => by
    simp only [VC.unionAllowsAllLoop]
    by_cases hall : RC.allowsAll o t = true
    · simp only [hall, if_true]
      refine unionAllowsAllLoop_sublist fuel (o :: os) ts (by simp at hf ⊢; omega) hw ?_
      exact (List.sublist_cons_self t ts).trans hs
    · simp only [hall, Bool.false_eq_true, if_false]
      refine unionAllowsAllLoop_sublist fuel os (t :: ts) (by simp at hf ⊢; omega)
        (fun c hc => hw c (by simp [hc])) ?_
      cases hs with
      | cons _ h => exact h
      | cons_cons _ h =>
        exact absurd (RC.allowsAll_self o (hw o (by simp))) hall

/-- **a union allows all of itself** -/
theorem union_allowsAll_self (rs : List RC) (hw : ∀ c ∈ rs, c.WF) :
    VC.allowsAll (.union rs) (.union rs) = .ok true :=
  unionAllowsAllLoop_sublist _ rs rs (by simp [VC.flatten]) hw (List.Sublist.refl rs)

/-- **a (non-empty) union allows any of itself** -/
theorem union_allowsAny_self (rs : List RC) (hne : rs ≠ []) (hw : ∀ c ∈ rs, c.WF ∧ c.NE) :
    VC.allowsAny (.union rs) (.union rs) = .ok true := by
  cases rs with
  | nil => exact absurd rfl hne
  | cons o os =>
    have := RC.allowsAny_self o (hw o (by simp)).1 (hw o (by simp)).2
    simp [VC.allowsAny, VC.flatten, VC.unionAllowsAnyLoop, this, bind, Except.bind, pure, Except.pure]

/-! ### `allows_any` is "the intersection is not empty", for unions -/

theorem RC.intersect_ok (a b : RC) (ha : a.WF) (hb : b.WF) : ∃ i, RC.intersect a b = .ok i := by
  cases a with
  | ver x => cases b <;> exact ⟨_, rfl⟩
  | rng r =>
    cases b with
    | ver y => exact ⟨_, rfl⟩
    | rng s =>
      rcases VRange.intersect_den r s ha hb with ⟨h, _⟩ | ⟨x, h, _⟩ | ⟨x, h, _⟩ <;> exact ⟨_, h⟩

/-- a collected part: a non-empty, non-union constraint -/
def IsPart (q : VC) : Prop := q.isEmpty = false ∧ q.notUnion

/-- the two walks in lockstep: `allows_any` answers yes exactly when the intersection walk collects a part -/
theorem anyLoop_vs_intersectLoop : ∀ (fuel : Nat) (ours theirs : List RC) (acc : List VC),
    ours.length + theirs.length < fuel → (∀ c ∈ ours, c.WF ∧ c.NE) → (∀ c ∈ theirs, c.WF ∧ c.NE) →
    ∃ b extra, VC.unionAllowsAnyLoop fuel ours theirs = .ok b ∧
      VC.unionIntersectLoop fuel ours theirs acc = .ok (acc ++ extra) ∧
      (∀ q ∈ extra, IsPart q) ∧ (b = true ↔ extra ≠ [])
  | 0, _, _, _, hf, _, _ => by omega
  | fuel + 1, [], theirs, acc, _, _, _ => by
    exact ⟨false, [], by simp [VC.unionAllowsAnyLoop], by simp [VC.unionIntersectLoop], by simp, by simp⟩
  | fuel + 1, o :: os, [], acc, _, _, _ => by
    exact ⟨false, [], by simp [VC.unionAllowsAnyLoop], by simp [VC.unionIntersectLoop], by simp, by simp⟩
  | fuel + 1, o :: os, t :: ts, acc, hf, ho, ht => by
    have how := ho o (by simp)
    have htw := ht t (by simp)
    obtain ⟨i, hi⟩ := RC.intersect_ok o t how.1 htw.1
    have hany : RC.allowsAny o t = .ok (!i.isEmpty) := by
      rw [RC.allowsAny_eq_intersect o t how.1 htw.1 how.2 htw.2, hi]; rfl
    have hnu := RC.intersect_notUnion o t i hi
    -- whichever way the walks advance, they advance together
    have step : ∀ (ours' theirs' : List RC), ours'.length + theirs'.length < fuel →
        (∀ c ∈ ours', c.WF ∧ c.NE) → (∀ c ∈ theirs', c.WF ∧ c.NE) →
        ∃ b extra, (if i.isEmpty = true then VC.unionAllowsAnyLoop fuel ours' theirs' else .ok true) = .ok b ∧
          VC.unionIntersectLoop fuel ours' theirs' (if i.isEmpty = true then acc else acc ++ [i]) = .ok (acc ++ extra) ∧
          (∀ q ∈ extra, IsPart q) ∧ (b = true ↔ extra ≠ []) := by
      intro ours' theirs' hf' ho' ht'
      by_cases he : i.isEmpty = true
      · simp only [he, if_true]
        exact anyLoop_vs_intersectLoop fuel ours' theirs' acc hf' ho' ht'
      · simp only [he, Bool.false_eq_true, if_false]
        obtain ⟨_, extra, _, h2, h3, _⟩ := anyLoop_vs_intersectLoop fuel ours' theirs' (acc ++ [i]) hf' ho' ht'
        refine ⟨true, i :: extra, rfl, by simpa using h2, ?_, by simp⟩
        intro q hq
        simp only [List.mem_cons] at hq
        rcases hq with rfl | hq
        · exact ⟨by simpa using he, hnu⟩
        · exact h3 q hq
    simp only [VC.unionAllowsAnyLoop, VC.unionIntersectLoop, hany, hi, bind, Except.bind, pure, Except.pure]
    by_cases hh : t.view.allowsHigher o.view = true
    · obtain ⟨b, extra, h1, h2, h3, h4⟩ := step os (t :: ts) (by simp at hf ⊢; omega)
        (fun c hc => ho c (by simp [hc])) ht
      refine ⟨b, extra, ?_, ?_, h3, h4⟩
      · cases he : i.isEmpty <;> simp [he, hh] at h1 ⊢ <;> exact h1
      · simpa [hh] using h2
    · obtain ⟨b, extra, h1, h2, h3, h4⟩ := step (o :: os) ts (by simp at hf ⊢; omega)
        ho (fun c hc => ht c (by simp [hc]))
      refine ⟨b, extra, ?_, ?_, h3, h4⟩
      · cases he : i.isEmpty <;> simp [he, hh] at h1 ⊢ <;> exact h1
      · simpa [hh] using h2

theorem unionOfFlat_isEmpty (l : List RC) (res : VC) (h : unionOfFlat l = .ok res) : res.isEmpty = l.isEmpty := by
  unfold unionOfFlat at h
  by_cases h1 : l.isEmpty = true
  · simp only [h1, if_true, Except.ok.injEq] at h; subst h; simp [VC.isEmpty, h1]
  · simp only [h1, Bool.false_eq_true, if_false] at h
    simp only [Bool.not_eq_true] at h1
    rw [h1]
    by_cases h2 : l.any RC.isAny = true
    · simp only [h2, if_true, Except.ok.injEq] at h; subst h; rfl
    · simp only [h2, Bool.false_eq_true, if_false, bind, Except.bind] at h
      cases hm : mergeLoop (sortRCs l) [] with
      | error e => simp [hm] at h
      | ok merged =>
        simp only [hm] at h
        cases merged with
        | nil => simp [pure, Except.pure] at h; subst h; rfl
        | cons a as =>
          cases as with
          | nil => simp [pure, Except.pure] at h; subst h; rfl
          | cons b bs => simp [pure, Except.pure] at h; subst h; rfl

/-- **`union.allows_any(b)` never raises, and is yes exactly when `union.intersect(b)` — whenever that returns —
is not the empty constraint** -/
theorem union_allowsAny_iff_intersect (rs : List RC) (b : VC)
    (ho : ∀ c ∈ rs, c.WF ∧ c.NE) (ht : ∀ c ∈ b.flatten, c.WF ∧ c.NE) :
    ∃ y, VC.allowsAny (.union rs) b = .ok y ∧
      ∀ res, VC.intersect (.union rs) b = .ok res → y = !res.isEmpty := by
  obtain ⟨y, extra, h1, h2, h3, h4⟩ := anyLoop_vs_intersectLoop (rs.length + b.flatten.length + 1) rs b.flatten []
    (by omega) ho ht
  refine ⟨y, h1, fun res hres => ?_⟩
  simp only [VC.intersect, h2, bind, Except.bind, List.nil_append, VC.unionOf] at hres
  rw [unionOfFlat_isEmpty _ res hres]
  cases extra with
  | nil =>
    have : y = false := by
      cases y
      · rfl
      · exact absurd (h4.1 rfl) (by simp)
    simp [this]
  | cons q qs =>
    have hy : y = true := h4.2 (by simp)
    have hq := h3 q (by simp)
    have : q.flatten ≠ [] := by
      cases q with
      | empty => simp [IsPart, VC.isEmpty] at hq
      | single c => simp [VC.flatten]
      | union ds => exact absurd hq.2 (by simp [VC.notUnion])
    rw [hy]
    cases hf : q.flatten with
    | nil => exact absurd hf this
    | cons c cs => simp [hf]

end Poetry
