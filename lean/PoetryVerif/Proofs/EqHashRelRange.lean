/-
C18 helper lemmas, part 12 (layer 2 of the `allows` congruence): the comparisons between ranges and the
range-constraint level — `allows_lower`, `allows_higher`, `is_strictly_lower/higher`, `is_adjacent_to`, `_cmp`, `<`,
`allows`, `allows_any`, `is_any`, `a.union(b)` when it is a single range constraint — respect the structural relation.
-/
import PoetryVerif.Proofs.EqHashRel

set_option linter.unusedSimpArgs false
set_option linter.unusedVariables false

namespace Poetry.EqHash
open Poetry Poetry.Version Poetry.Marker

/-- a three-way comparison of two optional ends that only uses `<`, `>` of the versions -/
theorem ltgt_congr {a a' b b' : Version} (h1 : SameBound a a') (h2 : SameBound b b') :
    Version.lt a b = Version.lt a' b' ∧ Version.gt a b = Version.gt a' b' := ⟨lt_congr2 h1 h2, gt_congr2 h1 h2⟩

theorem allowsLower_congr {a a' b b' : VRange} (ha : RRel a a') (hb : RRel b b') :
    a.allowsLower b = a'.allowsLower b' := by
  unfold VRange.allowsLower VRange.allowedMin
  rcases ha.min.cases with ⟨h1, h2⟩ | ⟨x, x', h1, h2, hx⟩ <;> rcases hb.min.cases with ⟨h3, h4⟩ | ⟨y, y', h3, h4, hy⟩ <;>
    simp only [h1, h2, h3, h4, Option.isSome_none, Option.isSome_some]
  rw [lt_congr2 hx hy, gt_congr2 hx hy, ha.imin, hb.imin]

theorem allowsHigher_congr {a a' b b' : VRange} (ha : RRel a a') (hb : RRel b b') :
    a.allowsHigher b = a'.allowsHigher b' := by
  have hA := allowedMax_rel ha
  have hB := allowedMax_rel hb
  unfold VRange.allowsHigher
  rcases hA.cases with ⟨h1, h2⟩ | ⟨x, x', h1, h2, hx⟩ <;> rcases hB.cases with ⟨h3, h4⟩ | ⟨y, y', h3, h4, hy⟩ <;>
    simp only [h1, h2, h3, h4, Option.isSome_none, Option.isSome_some]
  rw [lt_congr2 hx hy, gt_congr2 hx hy, ha.imax, hb.imax]

theorem isStrictlyLower_congr {a a' b b' : VRange} (ha : RRel a a') (hb : RRel b b') :
    a.isStrictlyLower b = a'.isStrictlyLower b' := by
  have hA := allowedMax_rel ha
  unfold VRange.isStrictlyLower VRange.allowedMin
  rcases hA.cases with ⟨h1, h2⟩ | ⟨x, x', h1, h2, hx⟩ <;> rcases hb.min.cases with ⟨h3, h4⟩ | ⟨y, y', h3, h4, hy⟩ <;>
    simp only [h1, h2, h3, h4]
  rw [lt_congr2 hx hy, gt_congr2 hx hy, ha.imax, hb.imin]

theorem isStrictlyHigher_congr {a a' b b' : VRange} (ha : RRel a a') (hb : RRel b b') :
    a.isStrictlyHigher b = a'.isStrictlyHigher b' := isStrictlyLower_congr hb ha

theorem isAdjacentTo_congr {a a' b b' : VRange} (ha : RRel a a') (hb : RRel b b') :
    a.isAdjacentTo b = a'.isAdjacentTo b' := by
  unfold VRange.isAdjacentTo
  rw [optVerEq_congr2 ha.max hb.min, ha.imax, hb.imin]

theorem compareMax_congr {a a' b b' : VRange} (ha : RRel a a') (hb : RRel b b') :
    a.compareMax b = a'.compareMax b' := by
  unfold VRange.compareMax
  rcases ha.max.cases with ⟨h1, h2⟩ | ⟨x, x', h1, h2, hx⟩ <;> rcases hb.max.cases with ⟨h3, h4⟩ | ⟨y, y', h3, h4, hy⟩ <;>
    simp only [h1, h2, h3, h4]
  rw [lt_congr2 hx hy, gt_congr2 hx hy, ha.imax, hb.imax]

theorem cmp_congr {a a' b b' : VRange} (ha : RRel a a') (hb : RRel b b') : a.cmp b = a'.cmp b' := by
  have hc := compareMax_congr ha hb
  unfold VRange.cmp
  rcases ha.min.cases with ⟨h1, h2⟩ | ⟨x, x', h1, h2, hx⟩ <;> rcases hb.min.cases with ⟨h3, h4⟩ | ⟨y, y', h3, h4, hy⟩ <;>
    simp only [h1, h2, h3, h4, hc]
  rw [lt_congr2 hx hy, gt_congr2 hx hy, ha.imin, hb.imin]

theorem isAny_congr {a a' : VRange} (ha : RRel a a') : a.isAny = a'.isAny := by
  unfold VRange.isAny; rw [ha.min.isNone, ha.max.isNone]

/-! ### range constraints -/

theorem view_rel {a b : RC} (h : CRel a b) : RRel a.view b.view := by
  cases a <;> cases b <;> simp only [CRel] at h
  · exact ⟨by simpa [RC.view, RC.min, ORel] using h, by simpa [RC.view, RC.max, ORel] using h, rfl, rfl⟩
  · exact ⟨h.min, h.max, h.imin, h.imax⟩

theorem rcMin_rel {a b : RC} (h : CRel a b) : ORel a.min b.min := (view_rel h).min
theorem rcMax_rel {a b : RC} (h : CRel a b) : ORel a.max b.max := (view_rel h).max
theorem rcImin_eq {a b : RC} (h : CRel a b) : a.imin = b.imin := (view_rel h).imin
theorem rcImax_eq {a b : RC} (h : CRel a b) : a.imax = b.imax := (view_rel h).imax

/-- `c.allows(v)`, both arguments -/
theorem rcAllows_congr2 {a b : RC} (h : CRel a b) {v w : Version} (hv : SameBound v w) : a.allows v = b.allows w := by
  cases a <;> cases b <;> simp only [CRel] at h
  · exact verAllows_congr2 h hv
  · exact rangeAllows_congr2 h hv

theorem rcIsAny_congr {a b : RC} (h : CRel a b) : a.isAny = b.isAny := by
  cases a <;> cases b <;> simp only [CRel] at h
  · rfl
  · exact isAny_congr h

theorem rcLt_congr {a a' b b' : RC} (ha : CRel a a') (hb : CRel b b') : RC.lt a b = RC.lt a' b' := by
  cases a <;> cases a' <;> simp only [CRel] at ha <;> cases b <;> cases b' <;> simp only [CRel] at hb
  · exact lt_congr2 ha hb
  · simp only [RC.lt]; rw [cmp_congr hb (view_rel (a := .ver _) (b := .ver _) ha)]
  · simp only [RC.lt]; rw [cmp_congr ha (view_rel (a := .ver _) (b := .ver _) hb)]
  · simp only [RC.lt]; rw [cmp_congr ha (view_rel (a := .rng _) (b := .rng _) hb)]

/-- `a.allows_any(b)` on range constraints: the same Boolean (never raises) -/
theorem rcAllowsAny_congr {a a' b b' : RC} (ha : CRel a a') (hb : CRel b b') :
    RC.allowsAny a b = RC.allowsAny a' b' := by
  cases a <;> cases a' <;> simp only [CRel] at ha <;> cases b <;> cases b' <;> simp only [CRel] at hb
  · -- version, version
    simp only [RC.allowsAny, RC.intersect, RC.verIntersectVer, bind, Except.bind, pure, Except.pure]
    rw [verAllows_congr2 ha hb, verAllows_congr2 hb ha]
    split
    · rfl
    · split <;> rfl
  · -- version, range
    rename_i x x' r r'
    simp only [RC.allowsAny, RC.intersect, RC.rngIntersectVer, bind, Except.bind, pure, Except.pure]
    rw [rangeAllows_congr2 hb ha]
    split
    · rfl
    · rcases hb.min.cases with ⟨h1, h2⟩ | ⟨m, m', h1, h2, hm⟩
      · simp [h1, h2]
      · simp only [h1, h2, hm.loc, verAllows_congr2 ha hm]
        split <;> rfl
  · -- range, version
    rename_i r r' x x'
    simp only [RC.allowsAny]
    rw [rangeAllows_congr2 ha hb]
    rcases ha.min.cases with ⟨h1, h2⟩ | ⟨m, m', h1, h2, hm⟩
    · simp [h1, h2]
    · simp only [h1, h2, hm.loc, verAllows_congr2 hb hm]
  · -- range, range
    simp only [RC.allowsAny]
    rw [isStrictlyLower_congr hb ha, isStrictlyHigher_congr hb ha]

theorem allowsAny_ok (a b : RC) : ∃ r, RC.allowsAny a b = .ok r := by
  cases a <;> cases b <;> exact ⟨_, rfl⟩

/-! ### `a.union(b)` as `VersionUnion.of` uses it -/

/-- optional range constraints -/
def OCRel : Option RC → Option RC → Prop
  | none, none => True
  | some a, some b => CRel a b
  | _, _ => False

theorem rcUnionSingle_congr {a a' b b' : RC} (ha : CRel a a') (hb : CRel b b') :
    PRel OCRel (rcUnionSingle a b) (rcUnionSingle a' b') := by
  cases a <;> cases a' <;> simp only [CRel] at ha
  · -- a version
    rename_i x x'
    cases b <;> cases b' <;> simp only [CRel] at hb
    · rename_i y y'
      have e1 : (RC.ver y).allows x = (RC.ver y').allows x' := verAllows_congr2 hb ha
      have e2 := verAllows_congr2 ha hb
      simp only [rcUnionSingle, RC.min, RC.max, RC.imin, RC.imax, e1, e2]
      by_cases c1 : (RC.ver y').allows x' = true
      · simp only [c1, if_true]; exact hb
      · by_cases c2 : x'.allows y' = true
        · simp only [c1, c2, if_true, if_false]; exact ha
        · simp only [c1, c2, if_false]; trivial
    · rename_i r r'
      have e1 : (RC.rng r).allows x = (RC.rng r').allows x' := rangeAllows_congr2 hb ha
      have hi1 := hb.imin
      have hi2 := hb.imax
      rcases hb.min.cases with ⟨h1, h2⟩ | ⟨m, m', h1, h2, hm⟩
      · rcases hb.max.cases with ⟨h3, h4⟩ | ⟨M, M', h3, h4, hM⟩
        ·
          simp only [rcUnionSingle, RC.min, RC.max, RC.imin, RC.imax, e1, h1, h2, h3, h4]
          by_cases c1 : (RC.rng r').allows x' = true
          · simp only [c1, if_true]; exact hb
          · simp only [c1, Bool.false_eq_true, if_false]
            trivial
        ·
          simp only [rcUnionSingle, RC.min, RC.max, RC.imin, RC.imax, e1, h1, h2, h3, h4]
          by_cases c1 : (RC.rng r').allows x' = true
          · simp only [c1, if_true]; exact hb
          · simp only [c1, Bool.false_eq_true, if_false]
            rw [verAllows_congr2 ha hM]
            split
            · exact ⟨by simp [ORel], by simpa [ORel] using hM, hi1, rfl⟩
            · trivial
      · rcases hb.max.cases with ⟨h3, h4⟩ | ⟨M, M', h3, h4, hM⟩
        ·
          simp only [rcUnionSingle, RC.min, RC.max, RC.imin, RC.imax, e1, h1, h2, h3, h4]
          by_cases c1 : (RC.rng r').allows x' = true
          · simp only [c1, if_true]; exact hb
          · simp only [c1, Bool.false_eq_true, if_false]
            rw [verAllows_congr2 ha hm]
            split
            · exact ⟨by simpa [ORel] using hm, by simp [ORel], rfl, hi2⟩
            · trivial
        ·
          simp only [rcUnionSingle, RC.min, RC.max, RC.imin, RC.imax, e1, h1, h2, h3, h4]
          by_cases c1 : (RC.rng r').allows x' = true
          · simp only [c1, if_true]; exact hb
          · simp only [c1, Bool.false_eq_true, if_false]
            rw [verAllows_congr2 ha hm, verAllows_congr2 ha hM]
            split
            · exact ⟨by simpa [ORel] using hm, by simpa [ORel] using hM, rfl, hi2⟩
            · split
              · exact ⟨by simpa [ORel] using hm, by simpa [ORel] using hM, hi1, rfl⟩
              · trivial
  · -- a range
    rename_i r r'
    cases b <;> cases b' <;> simp only [CRel] at hb
    · rename_i v v'
      simp only [rcUnionSingle]
      rw [rangeAllows_congr2 ha hb]
      split
      · exact ha
      · rw [optVerEq_congr2 (x := some v) (x' := some v') (by simpa [ORel] using hb) ha.min]
        split
        · exact ⟨ha.min, ha.max, rfl, ha.imax⟩
        · rw [optVerEq_congr2 (x := some v) (x' := some v') (by simpa [ORel] using hb) ha.max]
          split
          · exact ⟨ha.min, ha.max, ha.imin, rfl⟩
          · trivial
    · rename_i s s'
      simp only [rcUnionSingle, RC.allowsAny, bind, Except.bind, pure, Except.pure]
      rw [optVerEq_congr2 ha.max hb.min, optVerEq_congr2 ha.min hb.max, ha.imax, ha.imin, hb.imin, hb.imax,
        isStrictlyLower_congr hb ha, isStrictlyHigher_congr hb ha, allowsLower_congr ha hb, allowsHigher_congr ha hb]
      split
      · trivial
      · refine ⟨?_, ?_, ?_, ?_⟩
        · simp only; split
          · exact ha.min
          · exact hb.min
        · simp only; split
          · exact ha.max
          · exact hb.max
        · simp only; split <;> rfl
        · simp only; split <;> rfl

end Poetry.EqHash
