/-
The constraints the normalised python clauses parse to are constraints of C05's regular setting (well-formed,
tidy, inhabited members over Python bounds), and the clause texts have the shape the multi-clause parser lemmas
need (helper lemmas for C11 `SplitSound`).
-/
import PoetryVerif.Proofs.PyConvNorm
import PoetryVerif.Proofs.VRangeSepV
import PoetryVerif.Proofs.PyConvSplit
set_option linter.unusedSimpArgs false
set_option linter.unusedVariables false

namespace Poetry
open Poetry.Marker Poetry.Version VParser Std

/-- a parsed clause in the "regular setting" of C05: a well-formed constraint whose members are well-formed, tidy,
inhabited and bounded by Python bounds -/
def PyVCok (vc : VC) : Prop :=
  vc.WF ∧ ∀ c ∈ vc.flatten, c.WF ∧ c.Tidy ∧ c.NE ∧ ∀ e ∈ c.bounds, PyBound e = true

theorem ok_lo (v : Version) (imin : Bool) (hb : PyBound v = true) :
    PyVCok (.single (.rng ⟨some v, none, imin, false⟩)) := by
  have hwf : (RC.rng ⟨some v, none, imin, false⟩).WF :=
    ⟨by intro e he; simp [VRange.bounds] at he; subst he; exact PyBound_wf hb, by intro m M _ hM; simp at hM⟩
  have hne : (RC.rng ⟨some v, none, imin, false⟩).NE := by
    show VRange.isStrictlyLower _ _ = false
    simp [VRange.isStrictlyLower, VRange.allowedMax]
  refine ⟨⟨hwf, hne⟩, ?_⟩
  intro c hc
  simp only [VC.flatten, List.mem_singleton] at hc; subst hc
  refine ⟨hwf, ⟨by intro h; simp at h, fun _ => rfl⟩, hne, ?_⟩
  intro e he; simp [RC.bounds, RC.view, RC.min, RC.max, VRange.bounds] at he; subst he; exact hb

theorem ok_hi (v : Version) (imax : Bool) (hb : PyBound v = true) :
    PyVCok (.single (.rng ⟨none, some v, false, imax⟩)) := by
  have hwf : (RC.rng ⟨none, some v, false, imax⟩).WF :=
    ⟨by intro e he; simp [VRange.bounds] at he; subst he; exact PyBound_wf hb, by intro m M hm _; simp at hm⟩
  have hne : (RC.rng ⟨none, some v, false, imax⟩).NE := by
    show VRange.isStrictlyLower _ _ = false
    unfold VRange.isStrictlyLower
    simp only [VRange.allowedMin]
    split <;> simp_all
  refine ⟨⟨hwf, hne⟩, ?_⟩
  intro c hc
  simp only [VC.flatten, List.mem_singleton] at hc; subst hc
  refine ⟨hwf, ⟨fun _ => rfl, by intro h; simp at h⟩, hne, ?_⟩
  intro e he; simp [RC.bounds, RC.view, RC.min, RC.max, VRange.bounds] at he; subst he; exact hb


theorem pyBound_plain {v : Version} (h : PyBound v = true) :
    v.epoch = 0 ∧ v.pre = none ∧ v.post = none ∧ v.dev = none ∧ v.loc = none := by
  obtain ⟨h1, h2, h3, h4, h5, _, _⟩ := PyBound_parts h
  exact ⟨h1, h2, h3, h4, h5⟩

theorem pyBound_unstable {v : Version} (h : PyBound v = true) : v.isUnstable = false := by
  obtain ⟨_, h2, _, h4, _⟩ := pyBound_plain h
  simp [Version.isUnstable, Version.isPrerelease, Version.isDevrelease, h2, h4]

/-- for two Python bounds with `v < w`: `v` is also below `w.dev0` -/
theorem firstDev_gt_of_lt {v w : Version} (hv : PyBound v = true) (hw : PyBound w = true)
    (h : Version.cmp v w = .lt) : Version.cmp v w.firstDevrelease = .lt := by
  rw [cmp_plain (pyBound_plain hv) (pyBound_plain hw)] at h
  exact cmp_lt_of_rel_lt (a := v) (b := w.firstDevrelease) (by simp [Version.firstDevrelease, Version.mk', (pyBound_plain hv).1, (pyBound_plain hw).1]) (by simpa [Version.firstDevrelease, Version.mk'] using h)

theorem firstDev_lt_self {v : Version} (hv : PyBound v = true) : Version.cmp v.firstDevrelease v = .lt :=
  (vk_lt_iff _ _).1 (firstDev_lt (pyBound_unstable hv))

theorem ok_both (v w : Version) (hv : PyBound v = true) (hw : PyBound w = true) (h : Version.cmp v w = .lt) :
    PyVCok (.single (.rng ⟨some v, some w, true, false⟩)) := by
  have hvw : vk v < vk w := (vk_lt_iff v w).2 h
  have hwf : (RC.rng ⟨some v, some w, true, false⟩).WF :=
    ⟨by intro e he; simp [VRange.bounds] at he; rcases he with rfl | rfl; exact PyBound_wf hv; exact PyBound_wf hw,
     by intro m M hm hM; simp at hm hM; subst hm; subst hM; exact hvw⟩
  have heq : Version.eqv v w = false := by simp [Version.eqv, h]
  have hfd := firstDev_gt_of_lt hv hw h
  have hne : (RC.rng ⟨some v, some w, true, false⟩).NE := by
    show VRange.isStrictlyLower _ _ = false
    have hlt : Version.lt w.firstDevrelease v = false := by
      simp [Version.lt, Version.cmp_swap w.firstDevrelease v, hfd]
    have hgt : Version.gt w.firstDevrelease v = true := by
      simp [Version.gt, Version.cmp_swap w.firstDevrelease v, hfd]
    simp [VRange.isStrictlyLower, VRange.allowedMax, VRange.allowedMin, pyBound_unstable hw, optVerEq, heq, hlt, hgt]
  refine ⟨⟨hwf, hne⟩, ?_⟩
  intro c hc
  simp only [VC.flatten, List.mem_singleton] at hc; subst hc
  refine ⟨hwf, ⟨by intro h; simp at h, by intro h; simp at h⟩, hne, ?_⟩
  intro e he
  simp [RC.bounds, RC.view, RC.min, RC.max, VRange.bounds] at he
  rcases he with rfl | rfl
  · exact hv
  · exact hw

theorem ok_ver (v : Version) (hv : PyBound v = true) : PyVCok (.single (.ver v)) := by
  refine ⟨⟨PyBound_wf hv, trivial⟩, ?_⟩
  intro c hc
  simp only [VC.flatten, List.mem_singleton] at hc; subst hc
  refine ⟨PyBound_wf hv, trivial, trivial, ?_⟩
  intro e he
  simp [RC.bounds, RC.view, RC.min, RC.max, VRange.bounds] at he
  rcases he with rfl | rfl <;> exact hv


/-- `<v || >=w` / `<v || >w` with `v ≤ w` in the right sense: the two-member unions the `!=` clauses parse to -/
theorem ok_two (v w : Version) (iw : Bool) (hv : PyBound v = true) (hw : PyBound w = true)
    (hlt : Version.lt v.firstDevrelease w = true) (hadj : (Version.eqv v w && iw) = false) :
    PyVCok (.union [.rng ⟨none, some v, false, false⟩, .rng ⟨some w, none, iw, false⟩]) := by
  have h1 := ok_hi v false hv
  have h2 := ok_lo w iw hw
  have m1 := h1.2 (.rng ⟨none, some v, false, false⟩) (by simp [VC.flatten])
  have m2 := h2.2 (.rng ⟨some w, none, iw, false⟩) (by simp [VC.flatten])
  have hsl : VRange.isStrictlyLower (RC.rng ⟨none, some v, false, false⟩).view (RC.rng ⟨some w, none, iw, false⟩).view = true := by
    simp [RC.view, RC.min, RC.max, RC.imin, RC.imax, VRange.isStrictlyLower, VRange.allowedMax, VRange.allowedMin,
      pyBound_unstable hv, optVerEq, hlt]
  refine ⟨⟨by simp, ?_, ?_, ?_⟩, ?_⟩
  · intro c hc
    simp only [List.mem_cons, List.mem_singleton, List.not_mem_nil, or_false] at hc
    rcases hc with rfl | rfl
    · exact ⟨m1.1, m1.2.2.1⟩
    · exact ⟨m2.1, m2.2.2.1⟩
  · simp only [SortedRC, List.pairwise_cons, List.mem_singleton, forall_eq, List.not_mem_nil, false_imp_iff,
      implies_true, List.Pairwise.nil, and_true]
    exact hsl
  · refine ⟨⟨hsl, ?_⟩, trivial⟩
    cases iw <;> simp_all [RC.view, RC.min, RC.max, RC.imin, RC.imax, VRange.isAdjacentTo, optVerEq]
  · intro c hc
    simp only [VC.flatten, List.mem_cons, List.mem_singleton, List.not_mem_nil, or_false] at hc
    rcases hc with rfl | rfl
    · exact m1
    · exact m2

theorem ok_ne (v : Version) (hv : PyBound v = true) :
    PyVCok (.union [.rng ⟨none, some v, false, false⟩, .rng ⟨some v, none, false, false⟩]) :=
  ok_two v v false hv hv (by simp [Version.lt, firstDev_lt_self hv]) (by simp)

theorem ok_neStar (v w : Version) (hv : PyBound v = true) (hw : PyBound w = true) (h : Version.cmp v w = .lt) :
    PyVCok (.union [.rng ⟨none, some v, false, false⟩, .rng ⟨some w, none, true, false⟩]) := by
  refine ok_two v w true hv hw ?_ (by simp [Version.eqv, h])
  have h1 := firstDev_lt_self hv
  simp only [Version.lt, beq_iff_eq]
  exact Version.cmp_lt_trans h1 h


/-! ### the shape of a normalised clause -/

/-- the clause text is splittable (no separators inside, may follow / be followed by a separator) and parses, as a
single clause, to a constraint of C05's regular setting -/
def ItemShape (item : String) : Prop :=
  ItemOK item.toList ∧ item.toList ≠ ['*'] ∧ ∃ vc, parseSingle item.toList true = .ok vc ∧ PyVCok vc

theorem digit_lastOK {l : Char} (h : isDigit l = true) : badPrev l = false ∧ l ≠ '-' := by
  have hp : plainChar l = true := by simp [plainChar, h]
  refine ⟨?_, plain_ne hp (by decide)⟩
  have h1 : l ≠ '^' := plain_ne hp (by decide)
  have h2 : l ≠ '~' := plain_ne hp (by decide)
  have h3 : l ≠ '=' := plain_ne hp (by decide)
  have h4 : l ≠ '>' := plain_ne hp (by decide)
  have h5 : l ≠ '<' := plain_ne hp (by decide)
  have h6 : l ≠ ' ' := plain_ne hp (by decide)
  have h7 : l ≠ ',' := plain_ne hp (by decide)
  simp [badPrev, h1, h2, h3, h4, h5, h6, h7]

theorem relChars_last_digit (a : Nat) (r : List Nat) : ∃ l, (relChars (a :: r)).getLast? = some l ∧ isDigit l = true := by
  induction r generalizing a with
  | nil =>
    simp only [relChars, tailChars, List.append_nil]
    have hne := D_ne_nil a
    exact ⟨(D a).getLast hne, List.getLast?_eq_some_getLast hne, D_isDigit a _ (List.getLast_mem hne)⟩
  | cons b r ih =>
    obtain ⟨l, hl, hd⟩ := ih b
    refine ⟨l, ?_, hd⟩
    have : relChars (a :: b :: r) = (D a ++ ['.']) ++ relChars (b :: r) := by simp [relChars, tailChars]
    rw [this, List.getLast?_append, hl]; rfl

theorem lastOK_rel (pre : List Char) (a : Nat) (r : List Nat) :
    ∃ l, (pre ++ relChars (a :: r)).getLast? = some l ∧ badPrev l = false ∧ l ≠ '-' := by
  obtain ⟨l, hl, hd⟩ := relChars_last_digit a r
  exact ⟨l, by rw [List.getLast?_append, hl]; rfl, digit_lastOK hd⟩

theorem lastOK_star (pre : List Char) : ∃ l, (pre ++ ['.', '*']).getLast? = some l ∧ badPrev l = false ∧ l ≠ '-' :=
  ⟨'*', by rw [List.getLast?_append]; rfl, by decide, by decide⟩

theorem itemShape_mk (item : String) (cs : List Char) (hcs : item.toList = cs) (hns : NoSep cs)
    (hne : cs ≠ ['*']) (hstart : ∃ c t, cs = c :: t ∧ startOK c)
    (hlast : ∃ l, cs.getLast? = some l ∧ badPrev l = false ∧ l ≠ '-')
    (vc : VC) (hp : parseSingle cs true = .ok vc) (hok : PyVCok vc) : ItemShape item := by
  rw [← hcs] at hns hne hstart hlast hp
  exact ⟨⟨hns, hstart, hlast⟩, hne, vc, hp, hok⟩

theorem startOK_op {c : Char} (h : c = '~' ∨ c = '=' ∨ c = '!' ∨ c = '<' ∨ c = '>') : startOK c := by
  rcases h with rfl | rfl | rfl | rfl | rfl <;> (unfold startOK; decide)


theorem cmp_finalV (l1 l2 : List Nat) :
    Version.cmp (finalV l1) (finalV l2) = compare (stripZeros l1) (stripZeros l2) :=
  cmp_plain ⟨rfl, rfl, rfl, rfl, rfl⟩ ⟨rfl, rfl, rfl, rfl, rfl⟩

theorem lt_minor2 (a b : Nat) : Version.cmp (finalV [a, b]) (finalV [a, b + 1]) = .lt := by
  rw [cmp_finalV, sz_cmp_cons]; exact sz_cmp_lt_head (by omega) _ _
theorem lt_major2 (a b : Nat) : Version.cmp (finalV [a, b]) (finalV [a + 1, 0]) = .lt := by
  rw [cmp_finalV]; exact sz_cmp_lt_head (by omega) _ _
theorem lt_minor3 (a b c : Nat) : Version.cmp (finalV [a, b, c]) (finalV [a, b + 1, 0]) = .lt := by
  rw [cmp_finalV, sz_cmp_cons]; exact sz_cmp_lt_head (by omega) _ _

theorem pb (l : List Nat) (h1 : 1 ≤ l.length := by simp) (h3 : l.length ≤ 3 := by simp) : PyBound (finalV l) = true :=
  PyBound_finalV l h1 h3

section
variable (a b c : Nat)
local notation "ns1" => noSep_cons (sp (by simp)) (noSep_rel _)
local notation "ns2" => noSep_cons (sp (by simp)) (noSep_cons (sp (by simp)) (noSep_rel _))

theorem shape2_eq : ∃ item, normalizePyPair "==" (relText [a, b]) = .ok item ∧ ItemShape item := by
  refine ⟨_, by rw [normPair2], itemShape_mk _ ('~' :: relChars [a, b]) (by simp [relText_toList]) ns1 (by simp)
    ⟨_, _, rfl, startOK_op (by simp)⟩ (lastOK_rel ['~'] a [b]) _ (parseSingle_tilde a [b] true) ?_⟩
  have := ok_both (finalV [a, b]) (finalV [a, b + 1]) (pb _) (pb _) (lt_minor2 a b)
  have hprec : (finalV [a, b]).precision = 2 := rfl
  simpa [finalV_stable, finalV_nextMinor, hprec, relNextMinor, zeros] using this

theorem shape2_ne : ∃ item, normalizePyPair "!=" (relText [a, b]) = .ok item ∧ ItemShape item := by
  refine ⟨_, by rw [normPair2], itemShape_mk _ ('!' :: '=' :: (relChars [a, b] ++ ['.', '*'])) (by simp [relText_toList])
    (noSep_cons (sp (by simp)) (noSep_cons (sp (by simp)) (noSep_append (noSep_rel _)
      (noSep_cons (sp (by simp)) (noSep_cons (sp (by simp)) (fun _ h => by cases h))))))
    (by simp) ⟨_, _, rfl, startOK_op (by simp)⟩ (lastOK_star ('!' :: '=' :: relChars [a, b])) _
    ((parseSingle_neStar true a [b] (xCore_star2 true a b)).trans (xRange_inv2 a b))
    (ok_neStar _ _ (pb _) (pb _) (lt_minor2 a b))⟩

theorem shape2_lt : ∃ item, normalizePyPair "<" (relText [a, b]) = .ok item ∧ ItemShape item :=
  ⟨_, by rw [normPair2], itemShape_mk _ ('<' :: relChars [a, b]) (by simp [relText_toList]) ns1 (by simp)
    ⟨_, _, rfl, startOK_op (by simp)⟩ (lastOK_rel ['<'] a [b]) _ (parseSingle_lt a [b] true) (ok_hi _ false (pb _))⟩
theorem shape2_le : ∃ item, normalizePyPair "<=" (relText [a, b]) = .ok item ∧ ItemShape item :=
  ⟨_, by rw [normPair2], itemShape_mk _ ('<' :: relChars [a, b + 1]) (by simp [relText_toList]) ns1 (by simp)
    ⟨_, _, rfl, startOK_op (by simp)⟩ (lastOK_rel ['<'] a [b + 1]) _ (parseSingle_lt a [b + 1] true) (ok_hi _ false (pb _))⟩
theorem shape2_gt : ∃ item, normalizePyPair ">" (relText [a, b]) = .ok item ∧ ItemShape item :=
  ⟨_, by rw [normPair2], itemShape_mk _ ('>' :: '=' :: relChars [a, b + 1]) (by simp [relText_toList]) ns2 (by simp)
    ⟨_, _, rfl, startOK_op (by simp)⟩ (lastOK_rel ['>', '='] a [b + 1]) _ (parseSingle_ge a [b + 1] true) (ok_lo _ true (pb _))⟩
theorem shape2_ge : ∃ item, normalizePyPair ">=" (relText [a, b]) = .ok item ∧ ItemShape item :=
  ⟨_, by rw [normPair2], itemShape_mk _ ('>' :: '=' :: relChars [a, b]) (by simp [relText_toList]) ns2 (by simp)
    ⟨_, _, rfl, startOK_op (by simp)⟩ (lastOK_rel ['>', '='] a [b]) _ (parseSingle_ge a [b] true) (ok_lo _ true (pb _))⟩

theorem shape2_compat : ∃ item, normalizePyPair "~=" (relText [a, b]) = .ok item ∧ ItemShape item := by
  refine ⟨_, by rw [normPair2], itemShape_mk _ ('~' :: '=' :: relChars [a, b]) (by simp [relText_toList]) ns2 (by simp)
    ⟨_, _, rfl, startOK_op (by simp)⟩ (lastOK_rel ['~', '='] a [b]) _ (parseSingle_compat a [b] true) ?_⟩
  have := ok_both (finalV [a, b]) (finalV [a + 1, 0]) (pb _) (pb _) (lt_major2 a b)
  have hprec : (finalV [a, b]).precision = 2 := rfl
  simpa [finalV_stable, finalV_nextMajor, hprec, relNextMajor, relMajor, zeros] using this

theorem shape3_eq : ∃ item, normalizePyPair "==" (relText [a, b, c]) = .ok item ∧ ItemShape item :=
  ⟨_, by rw [normPair3], itemShape_mk _ ('=' :: '=' :: relChars [a, b, c]) (by simp [relText_toList]) ns2 (by simp)
    ⟨_, _, rfl, startOK_op (by simp)⟩ (lastOK_rel ['=', '='] a [b, c]) _
    (parseSingle_eq true a [b, c] (xCore_none3 false a b c)) (ok_ver _ (pb _))⟩
theorem shape3_ne : ∃ item, normalizePyPair "!=" (relText [a, b, c]) = .ok item ∧ ItemShape item :=
  ⟨_, by rw [normPair3], itemShape_mk _ ('!' :: '=' :: relChars [a, b, c]) (by simp [relText_toList]) ns2 (by simp)
    ⟨_, _, rfl, startOK_op (by simp)⟩ (lastOK_rel ['!', '='] a [b, c]) _
    (parseSingle_ne true a [b, c] (xCore_none3 true a b c)) (ok_ne _ (pb _))⟩
theorem shape3_lt : ∃ item, normalizePyPair "<" (relText [a, b, c]) = .ok item ∧ ItemShape item :=
  ⟨_, by rw [normPair3], itemShape_mk _ ('<' :: relChars [a, b, c]) (by simp [relText_toList]) ns1 (by simp)
    ⟨_, _, rfl, startOK_op (by simp)⟩ (lastOK_rel ['<'] a [b, c]) _ (parseSingle_lt a [b, c] true) (ok_hi _ false (pb _))⟩
theorem shape3_le : ∃ item, normalizePyPair "<=" (relText [a, b, c]) = .ok item ∧ ItemShape item :=
  ⟨_, by rw [normPair3], itemShape_mk _ ('<' :: '=' :: relChars [a, b, c]) (by simp [relText_toList]) ns2 (by simp)
    ⟨_, _, rfl, startOK_op (by simp)⟩ (lastOK_rel ['<', '='] a [b, c]) _ (parseSingle_le a [b, c] true) (ok_hi _ true (pb _))⟩
theorem shape3_gt : ∃ item, normalizePyPair ">" (relText [a, b, c]) = .ok item ∧ ItemShape item :=
  ⟨_, by rw [normPair3], itemShape_mk _ ('>' :: relChars [a, b, c]) (by simp [relText_toList]) ns1 (by simp)
    ⟨_, _, rfl, startOK_op (by simp)⟩ (lastOK_rel ['>'] a [b, c]) _ (parseSingle_gt a [b, c] true) (ok_lo _ false (pb _))⟩
theorem shape3_ge : ∃ item, normalizePyPair ">=" (relText [a, b, c]) = .ok item ∧ ItemShape item :=
  ⟨_, by rw [normPair3], itemShape_mk _ ('>' :: '=' :: relChars [a, b, c]) (by simp [relText_toList]) ns2 (by simp)
    ⟨_, _, rfl, startOK_op (by simp)⟩ (lastOK_rel ['>', '='] a [b, c]) _ (parseSingle_ge a [b, c] true) (ok_lo _ true (pb _))⟩

theorem shape3_compat : ∃ item, normalizePyPair "~=" (relText [a, b, c]) = .ok item ∧ ItemShape item := by
  refine ⟨_, by rw [normPair3], itemShape_mk _ ('~' :: '=' :: relChars [a, b, c]) (by simp [relText_toList]) ns2 (by simp)
    ⟨_, _, rfl, startOK_op (by simp)⟩ (lastOK_rel ['~', '='] a [b, c]) _ (parseSingle_compat a [b, c] true) ?_⟩
  have := ok_both (finalV [a, b, c]) (finalV [a, b + 1, 0]) (pb _) (pb _) (lt_minor3 a b c)
  have hprec : (finalV [a, b, c]).precision = 3 := rfl
  simpa [finalV_stable, finalV_nextMinor, hprec, relNextMinor, zeros] using this

end

/-- **every normalised clause has the shape the multi-clause parser lemmas need** -/
theorem normPair_shape (n op : String) (lit : List Nat) (hop : RelOp op) (hi : PyItem n lit) :
    ∃ item, normalizePyPair op (relText lit) = .ok item ∧ ItemShape item := by
  cases hi with
  | short a b =>
    rcases hop with rfl | rfl | rfl | rfl | rfl | rfl | rfl
    · exact shape2_eq a b
    · exact shape2_ne a b
    · exact shape2_lt a b
    · exact shape2_le a b
    · exact shape2_gt a b
    · exact shape2_ge a b
    · exact shape2_compat a b
  | full a b c =>
    rcases hop with rfl | rfl | rfl | rfl | rfl | rfl | rfl
    · exact shape3_eq a b c
    · exact shape3_ne a b c
    · exact shape3_lt a b c
    · exact shape3_le a b c
    · exact shape3_gt a b c
    · exact shape3_ge a b c
    · exact shape3_compat a b c

end Poetry
