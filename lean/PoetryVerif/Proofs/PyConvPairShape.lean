/-
What `_merge_single_markers` returns on two single markers on the same version-like variable other than
`python_version`: the empty marker, the universal marker, one of the operands, or the marker built from the
merged constraint when that is simple (helper lemma for the python_version / python_full_version pairing).
-/
import PoetryVerif.Proofs.PyConvPair

set_option linter.unusedSimpArgs false
set_option linter.unusedVariables false

namespace Poetry.Marker
open Poetry

set_option hygiene false in
macro "shape_tail" : tactic => `(tactic| (
  by_cases q1 : (LeafC.ver r0).isEmpty = true
  · rw [if_pos q1, pure_ok] at h; cases h
    exact Or.inl ⟨by simpa [LeafC.isEmpty] using q1, rfl⟩
  rw [if_neg q1] at h
  by_cases q2 : (LeafC.ver r0).isAny = true
  · rw [if_pos q2, pure_ok] at h; cases h
    exact Or.inr (Or.inl ⟨by simpa [LeafC.isAny] using q2, rfl⟩)
  rw [if_neg q2] at h
  by_cases q3 : (LeafC.ver r0).eqv (LeafC.ver v1) = true
  · rw [if_pos q3, pure_ok] at h; cases h
    exact Or.inr (Or.inr (Or.inl ⟨by simpa [LeafC.eqv] using q3, rfl⟩))
  rw [if_neg q3] at h
  by_cases q4 : (LeafC.ver r0).eqv (LeafC.ver v2) = true
  · rw [if_pos q4, pure_ok] at h; cases h
    exact Or.inr (Or.inr (Or.inr (Or.inl ⟨by simpa [LeafC.eqv] using q4, rfl⟩)))
  rw [if_neg q4] at h
  obtain ⟨b, hb, h⟩ := bind_ok.1 h
  cases b
  · rw [if_neg Bool.false_ne_true] at h
    dsimp only at h
    rw [if_pos (by simpa using hpv)] at h
    rw [pure_ok] at h; cases h
  · rw [if_pos rfl] at h
    obtain ⟨s, hs, h⟩ := bind_ok.1 h
    rw [pure_ok] at h; cases h
    exact Or.inr (Or.inr (Or.inr (Or.inr ⟨s, by simpa [LeafC.isEmpty] using q1, by simpa [LeafC.isAny] using q2,
      hb, hs, rfl⟩)))))

theorem mergeSingle_ver_shape (d : Nat) (n : String) (hpv : (n == "python_version") = false)
    (s1 s2 : Single) (hn1 : s1.name = n) (hn2 : s2.name = n) (v1 v2 : VC) (hv1 : s1.c = .ver v1)
    (hv2 : s2.c = .ver v2) (im : Bool) (mm : M)
    (h : mergeSingle d (.single s1) (.single s2) im = .ok (some mm)) :
    ∃ r0, (if im then v1.intersect v2 else v1.unionWith v2) = .ok r0 ∧
      ((r0.isEmpty = true ∧ mm = .empty) ∨ (r0.isAny = true ∧ mm = .any) ∨
       (VC.eqv r0 v1 = true ∧ mm = .leaf (.single s1)) ∨ (VC.eqv r0 v2 = true ∧ mm = .leaf (.single s2)) ∨
       ∃ s, r0.isEmpty = false ∧ r0.isAny = false ∧ r0.isSimple = .ok true ∧
         mkSingleOfC n (.ver r0) = .ok s ∧ mm = .leaf (.single s)) := by
  rw [mergeSingle.eq_def] at h
  dsimp only at h
  simp only [Leaf.name, hn1, hn2, hpv, Bool.false_and, Bool.and_false, Bool.or_self, Bool.false_eq_true,
    if_false, bne_self_eq_false, Leaf.c, hv1, hv2] at h
  cases im
  · simp only [Bool.false_eq_true, if_false] at h ⊢
    obtain ⟨rc, hrc, h⟩ := bind_ok.1 h
    obtain ⟨r0, hr0, rfl⟩ : ∃ r0, v1.unionWith v2 = .ok r0 ∧ rc = .ver r0 := by
      simp only [LeafC.union] at hrc
      cases hu : v1.unionWith v2 with
      | error e => rw [hu] at hrc; cases hrc
      | ok r0 => rw [hu] at hrc; cases hrc; exact ⟨r0, rfl, rfl⟩
    refine ⟨r0, hr0, ?_⟩
    shape_tail
  · simp only [if_true] at h ⊢
    obtain ⟨rc, hrc, h⟩ := bind_ok.1 h
    obtain ⟨r0, hr0, rfl⟩ : ∃ r0, v1.intersect v2 = .ok r0 ∧ rc = .ver r0 := by
      simp only [LeafC.intersect] at hrc
      cases hu : v1.intersect v2 with
      | error e => rw [hu] at hrc; cases hrc
      | ok r0 => rw [hu] at hrc; cases hrc; exact ⟨r0, rfl, rfl⟩
    refine ⟨r0, hr0, ?_⟩
    shape_tail

end Poetry.Marker
