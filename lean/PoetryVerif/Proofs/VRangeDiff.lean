/-
Difference of range constraints and the union of two members, on regular probes
(helper lemmas for C05).
-/
import PoetryVerif.Proofs.VRangeMerge

set_option linter.unusedSimpArgs false
set_option linter.unusedVariables false

namespace Poetry
open Version

namespace VRange

/-- `allows_higher` (which compares the *effective* upper ends) agrees with the written upper ends -/
def EndsConsistent (a b : VRange) : Prop :=
  a.allowsHigher b = true → ∀ x y, b.max = some x → a.max = some y →
    vk x < vk y ∨ (vk x = vk y ∧ a.imax = true ∧ b.imax = false)

/-- the piece of `a` below `b` -/
def beforeRng (a b : VRange) : VRange := ⟨a.min, b.min, a.imin, !b.imin⟩
/-- the piece of `a` above `b` -/
def afterRng (a b : VRange) : VRange := ⟨b.max, a.max, !b.imax, a.imax⟩

theorem allowsLower_none_right {a b : VRange} (h : a.allowsLower b = true) : ∃ y, b.min = some y := by
  unfold allowsLower allowedMin at h
  cases hb : b.min with
  | some y => exact ⟨y, rfl⟩
  | none => cases ha : a.min <;> simp [ha, hb] at h

theorem allowsHigher_none_right {a b : VRange} (h : a.allowsHigher b = true) : ∃ y, b.max = some y := by
  unfold allowsHigher at h
  cases hb : b.max with
  | some y => exact ⟨y, rfl⟩
  | none => cases ha : a.allowedMax <;> simp [ha, allowedMax_none hb] at h

theorem beforeRng_raw (a b : VRange) (y : Version) (hy : b.min = some y) (p : Version) :
    (beforeRng a b).raw p ↔ a.denLo p ∧ ¬ b.denLo p := by
  simp only [raw, beforeRng, denLo, rawHi, hy]
  cases b.imin <;> simp

theorem afterRng_raw (a b : VRange) (x : Version) (hx : b.max = some x) (p : Version) :
    (afterRng a b).raw p ↔ a.rawHi p ∧ ¬ b.rawHi p := by
  simp only [raw, afterRng, denLo, rawHi, hx]
  cases b.imax <;> simp <;> exact And.comm

/-- lower ends equal and `a` reaches lower: `a` includes the end, `b` does not -/
theorem allowsLower_eq_flags {a b : VRange} (h : a.allowsLower b = true) {x y : Version}
    (hx : a.min = some x) (hy : b.min = some y) (he : vk x = vk y) : a.imin = true ∧ b.imin = false := by
  unfold allowsLower allowedMin at h
  rw [hx, hy] at h
  have h1 : Version.lt x y = false := by rw [lt_false_iff, he]
  have h2 : Version.gt x y = false := by rw [gt_false_iff, he]
  simpa [h1, h2] using h

theorem allowsLower_lt {a b : VRange} (h : a.allowsLower b = true) {x y : Version}
    (hx : a.min = some x) (hy : b.min = some y) (hne : vk x ≠ vk y) : vk x < vk y :=
  lt_of_le_of_ne (allowsLower_true_le h hx hy) hne

/-- the `before` piece of `VersionRange.difference` -/
def beforePiece (a b : VRange) : PyM (Option RC) :=
  if !a.allowsLower b then .ok none
  else if optVerEq a.min b.min then
    (match a.min with | some m => .ok (some (.ver m)) | none => .error .attribute)
  else .ok (some (.rng ⟨a.min, b.min, a.imin, !b.imin⟩))

/-- the `after` piece of `VersionRange.difference` -/
def afterPiece (a b : VRange) : PyM (Option RC) :=
  if !a.allowsHigher b then .ok none
  else if optVerEq a.max b.max then
    (match a.max with | some m => .ok (some (.ver m)) | none => .error .attribute)
  else .ok (some (.rng ⟨b.max, a.max, !b.imax, a.imax⟩))

theorem rngDifferenceRng_eq (a b : VRange) :
    RC.rngDifferenceRng a b = (do
      let any ← RC.allowsAny (.rng a) (.rng b)
      if !any then pure (.single (.rng a))
      else
        match ← beforePiece a b, ← afterPiece a b with
        | none, none => pure .empty
        | none, some x => pure (.single x)
        | some x, none => pure (.single x)
        | some x, some y => unionOfFlat [x, y]) := rfl

/-- what a piece must satisfy: nothing there and the corresponding inclusion holds, or a well-formed member
with the given meaning -/
def PieceSpec (a b : VRange) (src : Option Version) (o : Option RC) (inc : Version → Prop)
    (mean : Version → Prop) : Prop :=
  match o with
  | none => ∀ p, inc p
  | some x => x.WF ∧ x.Tidy ∧ (∀ e ∈ x.bounds, e ∈ a.bounds ∨ e ∈ b.bounds) ∧ (∀ p, (x.sem p ↔ mean p)) ∧
      ∀ v, x = .ver v → src = some v

theorem beforePiece_spec (a b : VRange) (ha : a.WF) (hb : b.WF) (hta : a.Tidy) :
    ∃ o, beforePiece a b = .ok o ∧
      PieceSpec a b a.min o (fun p => a.denLo p → b.denLo p) (fun p => a.denLo p ∧ ¬ b.denLo p) := by
  unfold beforePiece
  cases h1 : a.allowsLower b
  · exact ⟨none, by simp, fun p => allowsLower_false h1 p⟩
  · obtain ⟨y, hy⟩ := allowsLower_none_right h1
    simp only [Bool.not_true, Bool.false_eq_true, if_false]
    cases hx : a.min with
    | none =>
      have hne : optVerEq none b.min = false := by simp [hy, optVerEq]
      simp only [hne, Bool.false_eq_true, if_false]
      refine ⟨_, rfl, ⟨?_, ?_⟩, ⟨fun _ => hta.1 hx, fun h => by simp [hy] at h⟩, ?_, ?_, fun v hv => by cases hv⟩
      · intro e he; simp [VRange.bounds, hy] at he; subst he; exact hb.1 e (mem_bounds_min hy)
      · intro m M hm; simp at hm
      · intro e he; simp [RC.bounds, RC.view, VRange.bounds, hy, RC.min, RC.max] at he; subst he
        exact Or.inr (mem_bounds_min hy)
      · intro p
        have := beforeRng_raw a b y hy p
        simp only [beforeRng, hx] at this
        exact this
    | some x =>
      by_cases he : vk x = vk y
      · have heq : optVerEq (some x) b.min = true := by simp [hy, optVerEq, eqv_iff, he]
        simp only [heq, if_true]
        obtain ⟨f1, f2⟩ := allowsLower_eq_flags h1 hx hy he
        refine ⟨_, rfl, ha.1 x (mem_bounds_min hx), trivial, ?_, ?_, fun v hv => by cases hv; rfl⟩
        · intro e he'; simp [RC.bounds_ver] at he'; subst he'; exact Or.inl (mem_bounds_min hx)
        · intro p
          rw [RC.sem_ver]
          simp only [denLo, hx, hy, f1, f2, if_true, Bool.false_eq_true, if_false, he]
          constructor
          · intro h; rw [h]; exact ⟨le_refl _, lt_irrefl _⟩
          · intro h; exact le_antisymm (not_lt.1 h.2) h.1
      · have hne : optVerEq (some x) b.min = false := by simp [hy, optVerEq, eqv_false_iff, he]
        simp only [hne, Bool.false_eq_true, if_false]
        refine ⟨_, rfl, ⟨?_, ?_⟩, ⟨fun h => by simp at h, fun h => by simp [hy] at h⟩, ?_, ?_, fun v hv => by cases hv⟩
        · intro e he'
          simp [VRange.bounds, hy] at he'
          rcases he' with rfl | rfl
          · exact ha.1 _ (mem_bounds_min hx)
          · exact hb.1 _ (mem_bounds_min hy)
        · intro m M hm hM
          simp at hm; simp [hy] at hM; subst hm; subst hM
          exact allowsLower_lt h1 hx hy he
        · intro e he'
          simp [RC.bounds, RC.view, VRange.bounds, hy, RC.min, RC.max] at he'
          rcases he' with rfl | rfl
          · exact Or.inl (mem_bounds_min hx)
          · exact Or.inr (mem_bounds_min hy)
        · intro p
          have := beforeRng_raw a b y hy p
          simp only [beforeRng, hx] at this
          exact this

theorem afterPiece_spec (a b : VRange) (ha : a.WF) (hb : b.WF) (hta : a.Tidy) (hec : EndsConsistent a b) :
    ∃ o, afterPiece a b = .ok o ∧
      PieceSpec a b a.max o (fun p => a.denHi p → b.denHi p) (fun p => a.rawHi p ∧ ¬ b.rawHi p) := by
  unfold afterPiece
  cases h1 : a.allowsHigher b
  · exact ⟨none, by simp, fun p => allowsHigher_false h1 p⟩
  · obtain ⟨x, hx⟩ := allowsHigher_none_right h1
    simp only [Bool.not_true, Bool.false_eq_true, if_false]
    cases hy : a.max with
    | none =>
      have hne : optVerEq none b.max = false := by simp [hx, optVerEq]
      simp only [hne, Bool.false_eq_true, if_false]
      refine ⟨_, rfl, ⟨?_, ?_⟩, ⟨fun h => by simp [hx] at h, fun _ => hta.2 hy⟩, ?_, ?_, fun v hv => by cases hv⟩
      · intro e he; simp [VRange.bounds, hx] at he; subst he; exact hb.1 e (mem_bounds_max hx)
      · intro m M _ hM; simp at hM
      · intro e he; simp [RC.bounds, RC.view, VRange.bounds, hx, RC.min, RC.max] at he; subst he
        exact Or.inr (mem_bounds_max hx)
      · intro p
        have := afterRng_raw a b x hx p
        simp only [afterRng, hy] at this
        exact this
    | some y =>
      rcases hec h1 x y hx hy with hlt | ⟨he, f1, f2⟩
      · have hne : optVerEq (some y) b.max = false := by
          simp [hx, optVerEq, eqv_false_iff]; exact fun e => (ne_of_lt hlt) e.symm
        simp only [hne, Bool.false_eq_true, if_false]
        refine ⟨_, rfl, ⟨?_, ?_⟩, ⟨fun h => by simp [hx] at h, fun h => by simp at h⟩, ?_, ?_, fun v hv => by cases hv⟩
        · intro e he'
          simp [VRange.bounds, hx] at he'
          rcases he' with rfl | rfl
          · exact hb.1 _ (mem_bounds_max hx)
          · exact ha.1 _ (mem_bounds_max hy)
        · intro m M hm hM
          simp [hx] at hm; simp at hM; subst hm; subst hM
          exact hlt
        · intro e he'
          simp [RC.bounds, RC.view, VRange.bounds, hx, RC.min, RC.max] at he'
          rcases he' with rfl | rfl
          · exact Or.inr (mem_bounds_max hx)
          · exact Or.inl (mem_bounds_max hy)
        · intro p
          have := afterRng_raw a b x hx p
          simp only [afterRng, hy] at this
          exact this
      · have heq : optVerEq (some y) b.max = true := by simp [hx, optVerEq, eqv_iff, he]
        simp only [heq, if_true]
        refine ⟨_, rfl, ha.1 y (mem_bounds_max hy), trivial, ?_, ?_, fun v hv => by cases hv; rfl⟩
        · intro e he'; simp [RC.bounds_ver] at he'; subst he'; exact Or.inl (mem_bounds_max hy)
        · intro p
          rw [RC.sem_ver]
          simp only [rawHi, hx, hy, f1, f2, if_true, Bool.false_eq_true, if_false, he]
          constructor
          · intro h; rw [h]; exact ⟨le_refl _, lt_irrefl _⟩
          · intro h; exact le_antisymm h.1 (not_lt.1 h.2)

/-- the propositional core of the difference: with no gap between the operands, `a ∖ b` is the part of
`a` below `b`'s lower end or above `b`'s upper end -/
theorem diff_core {La Lb Ha Hb : Prop} (c1 : Ha ∨ Lb) (c2 : Hb ∨ La) :
    ((La ∧ Ha) ∧ ¬ (Lb ∧ Hb)) ↔ ((La ∧ ¬ Lb) ∨ (Ha ∧ ¬ Hb)) := by
  by_cases La <;> by_cases Lb <;> by_cases Ha <;> by_cases Hb <;> simp_all

/-- **range ∖ range is exact** whenever it returns.  `hec`: `allows_higher` agrees with the written upper
ends. -/
theorem difference_exact (a b : VRange) (ha : a.WF) (hb : b.WF) (hta : a.Tidy) (htb : b.Tidy)
    (hec : EndsConsistent a b)
    (res : VC) (h : RC.rngDifferenceRng a b = .ok res) :
    ∀ p, p.wf = true → Regular (a.bounds ++ b.bounds) p →
      res.allowsPlain p = (a.allows p && !b.allows p) := by
  intro p hp hreg
  rw [rngDifferenceRng_eq] at h
  have hA := allows_iff_raw a p ha.1 hp hreg.append_left
  have hB := allows_iff_raw b p hb.1 hp hreg.append_right
  have hra : ∀ M, a.max = some M → Reg1 p M := fun M hM => hreg.reg1 (by simp [bounds, hM])
  have hrb : ∀ M, b.max = some M → Reg1 p M := fun M hM => hreg.reg1 (by simp [bounds, hM])
  have eHa := denHi_iff_rawHi a p hra
  have eHb := denHi_iff_rawHi b p hrb
  have target : ∀ (X : Prop), (X ↔ (a.raw p ∧ ¬ b.raw p)) → ∀ r : Bool, (r = true ↔ X) →
      r = (a.allows p && !b.allows p) := by
    intro X hX r hr
    apply bool_eq_of_iff
    rw [hr, hX, Bool.and_eq_true, Bool.not_eq_true', ← Bool.not_eq_true, hA, hB]
  cases hany : RC.allowsAny (.rng a) (.rng b) with
  | error e => simp [RC.allowsAny] at hany
  | ok any =>
    simp only [hany, bind, Except.bind] at h
    cases any with
    | false =>
      simp only [Bool.not_false, if_true, pure, Except.pure, Except.ok.injEq] at h
      subst h
      have hno := RC.allowsAny_false_sound (.rng a) (.rng b) ha hb hany p hp hreg
      simp only [RC.allows] at hno
      simp only [VC.allowsPlain, VC.flatten, List.any_cons, List.any_nil, Bool.or_false, RC.allows]
      cases h1 : a.allows p <;> cases h2 : b.allows p <;> simp_all
    | true =>
      simp only [Bool.not_true, Bool.false_eq_true, if_false] at h
      simp only [RC.allowsAny, isStrictlyHigher, Except.ok.injEq, Bool.not_eq_true', Bool.or_eq_false_iff] at hany
      have c1 : a.rawHi p ∨ b.denLo p := by
        rcases strictlyLower_false_cover hany.2 p with h1 | h1
        · exact Or.inl (eHa.1 h1)
        · exact Or.inr h1
      have c2 : b.rawHi p ∨ a.denLo p := by
        rcases strictlyLower_false_cover hany.1 p with h1 | h1
        · exact Or.inl (eHb.1 h1)
        · exact Or.inr h1
      have core : (a.raw p ∧ ¬ b.raw p) ↔ ((a.denLo p ∧ ¬ b.denLo p) ∨ (a.rawHi p ∧ ¬ b.rawHi p)) :=
        diff_core c1 c2
      obtain ⟨o1, e1, s1⟩ := beforePiece_spec a b ha hb hta
      obtain ⟨o2, e2, s2⟩ := afterPiece_spec a b ha hb hta hec
      simp only [e1, e2] at h
      have memb : ∀ x : RC, x.WF → (∀ e ∈ x.bounds, e ∈ a.bounds ∨ e ∈ b.bounds) →
          (x.allows p = true ↔ x.sem p) := fun x hx hxb =>
        RC.allows_iff_sem x p hx.wfB hp (hreg.mono (fun e he => by simpa using hxb e he))
      cases o1 with
      | none =>
        have inc1 : a.denLo p → b.denLo p := s1 p
        cases o2 with
        | none =>
          have inc2 : a.rawHi p → b.rawHi p := fun h => eHb.1 (s2 p (eHa.2 h))
          simp only [pure, Except.pure, Except.ok.injEq] at h
          subst h
          exact target False (by rw [core]; constructor; exact False.elim; rintro (⟨h1, h2⟩ | ⟨h1, h2⟩); exact h2 (inc1 h1); exact h2 (inc2 h1))
            _ (by simp [VC.allowsPlain, VC.flatten])
        | some y =>
          obtain ⟨ywf, _, yb, ysem, _⟩ := s2
          simp only [pure, Except.pure, Except.ok.injEq] at h
          subst h
          refine target (y.sem p) ?_ _ (by simpa [VC.allowsPlain, VC.flatten] using memb y ywf yb)
          rw [core, ysem p]
          constructor
          · exact Or.inr
          · rintro (⟨h1, h2⟩ | h1); exact absurd (inc1 h1) h2; exact h1
      | some x =>
        obtain ⟨xwf, xt, xb, xsem, xsrc⟩ := s1
        cases o2 with
        | none =>
          have inc2 : a.rawHi p → b.rawHi p := fun h => eHb.1 (s2 p (eHa.2 h))
          simp only [pure, Except.pure, Except.ok.injEq] at h
          subst h
          refine target (x.sem p) ?_ _ (by simpa [VC.allowsPlain, VC.flatten] using memb x xwf xb)
          rw [core, xsem p]
          constructor
          · exact Or.inl
          · rintro (h1 | ⟨h1, h2⟩); exact h1; exact absurd (inc2 h1) h2
        | some y =>
          obtain ⟨ywf, yt, yb, ysem, ysrc⟩ := s2
          simp only at h
          have hgood : Good [x, y] := by
            intro c hc
            simp only [List.mem_cons, List.mem_nil_iff, or_false] at hc
            rcases hc with rfl | rfl
            · exact ⟨xwf, xt⟩
            · exact ⟨ywf, yt⟩
          obtain ⟨_, _, g3⟩ := unionOfFlat_sem [x, y] res h hgood
          have hregxy : Regular (boundsOf [x, y]) p := hreg.mono (by
            intro e he
            simp only [boundsOf, List.flatMap_cons, List.flatMap_nil, List.append_nil, List.mem_append] at he
            rcases he with he | he
            · simpa using xb e he
            · simpa using yb e he)
          rw [g3 p hp hregxy]
          refine target (x.sem p ∨ y.sem p) ?_ _ ?_
          · rw [core, xsem p, ysem p]
          · simp only [anyAllows, List.any_cons, List.any_nil, Bool.or_false, Bool.or_eq_true]
            rw [memb x xwf xb, memb y ywf yb]

end VRange

namespace RC

/-- `Version ∖ member` -/
theorem verDifference_exact (a : Version) (c : RC) (ha : a.wf = true) (hc : c.WF)
    (p : Version) (hp : p.wf = true) (hreg : Regular ((ver a).bounds ++ c.bounds) p) :
    (verDifference a c).allowsPlain p = (a.allows p && !c.allows p) := by
  have hra : Reg1 p a := hreg.reg1 (by simp [bounds_ver])
  have key : a.allows p = true → c.allows p = c.allows a := fun h =>
    allows_congr c hc hp ha hreg.append_right ((ver_allows_iff a p ha hp hra).1 h)
  unfold verDifference
  by_cases h1 : c.allows a = true
  · rw [if_pos h1]
    simp only [VC.allowsPlain, VC.flatten, List.any_nil]
    cases h2 : a.allows p
    · simp
    · simp [key h2, h1]
  · rw [if_neg h1]
    simp only [VC.allowsPlain, VC.flatten, List.any_cons, List.any_nil, Bool.or_false]
    show a.allows p = _
    cases h2 : a.allows p
    · simp
    · simp only [Bool.not_eq_true] at h1
      simp [key h2, h1]

/-- the two-member union (`a.union(b)`), whenever it returns -/
theorem union_exact (x y : RC) (hx : x.WF) (hy : y.WF) (htx : x.Tidy) (hty : y.Tidy)
    (res : VC) (h : RC.union x y = .ok res) :
    ∀ p, p.wf = true → Regular (x.bounds ++ y.bounds) p → res.allowsPlain p = (x.allows p || y.allows p) := by
  intro p hp hreg
  unfold RC.union at h
  cases hu : rcUnionSingle x y with
  | error e => simp [hu, bind, Except.bind] at h
  | ok o =>
    simp only [hu, bind, Except.bind] at h
    cases o with
    | some u =>
      simp only [pure, Except.pure, Except.ok.injEq] at h
      subst h
      obtain ⟨_, _, _, hex⟩ := rcUnionSingle_exact x y hx hy htx hty u hu
      simpa [VC.allowsPlain, VC.flatten] using hex p hp hreg
    | none =>
      simp only at h
      have hgood : Good [x, y] := by
        intro c hc
        simp only [List.mem_cons, List.mem_nil_iff, or_false] at hc
        rcases hc with rfl | rfl
        · exact ⟨hx, htx⟩
        · exact ⟨hy, hty⟩
      obtain ⟨_, _, g3⟩ := unionOfFlat_sem [x, y] res h hgood
      rw [g3 p hp (hreg.mono (by intro e he; simpa [boundsOf] using he))]
      simp [anyAllows]

/-- `VersionRange ∖ Version`, whenever it returns; `hv`: the version is regular for the range's bounds -/
theorem rngDifferenceVer_exact (r : VRange) (v : Version) (hr : r.WF) (htr : r.Tidy) (hv : v.wf = true)
    (hvreg : Regular r.bounds v) (res : VC) (h : rngDifferenceVer r v = .ok res) :
    ∀ p, p.wf = true → Regular (r.bounds ++ (ver v).bounds) p →
      res.allowsPlain p = (r.allows p && !v.allows p) := by
  intro p hp hreg
  have hrv : Reg1 p v := hreg.reg1 (by simp [bounds_ver])
  have hpv := ver_allows_iff v p hv hp hrv
  have hR := VRange.allows_iff_raw r p hr.1 hp hreg.append_left
  have hRv := VRange.allows_iff_raw r v hr.1 hv hvreg
  have key : v.allows p = true → r.allows p = r.allows v := fun h' =>
    VRange.allows_congr r hr.1 hp hv hreg.append_left (hpv.1 h')
  have single : ∀ s : VRange, s.wfB → Regular s.bounds p → (s.raw p ↔ (r.raw p ∧ ¬ vk p = vk v)) →
      (VC.single (rng s)).allowsPlain p = (r.allows p && !v.allows p) := by
    intro s hs hsr hsem
    apply bool_eq_of_iff
    simp only [VC.allowsPlain, VC.flatten, List.any_cons, List.any_nil, Bool.or_false, RC.allows]
    rw [VRange.allows_iff_raw s p hs hp hsr, hsem, Bool.and_eq_true, Bool.not_eq_true', ← Bool.not_eq_true, hR, hpv]
  unfold rngDifferenceVer at h
  by_cases h1 : r.allows v = true
  · simp only [h1, Bool.not_true, Bool.false_eq_true, if_false] at h
    have hraw := hRv.1 h1
    by_cases h2 : optVerEq (some v) r.min = true
    · cases hm : r.min with
      | none => simp [hm, optVerEq] at h2
      | some m =>
        simp only [hm, optVerEq, eqv_iff] at h2
        simp only [hm, optVerEq, (eqv_iff _ _).2 h2, if_true] at h
        cases hi : r.imin
        · exfalso
          have := hraw.1
          simp only [VRange.denLo, hm, hi, Bool.false_eq_true, if_false] at this
          rw [h2] at this
          exact lt_irrefl _ this
        · simp only [hi, Bool.not_true, Bool.false_eq_true, if_false, Except.ok.injEq] at h
          subst h
          refine single _ (by intro e he; exact hr.1 e (by simpa [VRange.bounds, hm] using he))
            (hreg.append_left.mono (by intro e he; simpa [VRange.bounds, hm] using he)) ?_
          simp only [VRange.raw, VRange.denLo, VRange.rawHi, hm, hi, if_true, Bool.false_eq_true, if_false, h2]
          constructor
          · rintro ⟨h3, h4⟩; exact ⟨⟨le_of_lt h3, h4⟩, fun e => (ne_of_lt h3) e.symm⟩
          · rintro ⟨⟨h3, h4⟩, h5⟩; exact ⟨lt_of_le_of_ne h3 (fun e => h5 e.symm), h4⟩
    · simp only [h2, Bool.false_eq_true, if_false] at h
      by_cases h3 : optVerEq (some v) r.max = true
      · cases hM : r.max with
        | none => simp [hM, optVerEq] at h3
        | some M =>
          simp only [hM, optVerEq, eqv_iff] at h3
          simp only [hM, optVerEq, (eqv_iff _ _).2 h3, if_true] at h
          cases hi : r.imax
          · exfalso
            have := hraw.2
            simp only [VRange.rawHi, hM, hi, Bool.false_eq_true, if_false] at this
            rw [h3] at this
            exact lt_irrefl _ this
          · simp only [hi, Bool.not_true, Bool.false_eq_true, if_false, Except.ok.injEq] at h
            subst h
            refine single _ (by intro e he; exact hr.1 e (by simpa [VRange.bounds, hM] using he))
              (hreg.append_left.mono (by intro e he; simpa [VRange.bounds, hM] using he)) ?_
            simp only [VRange.raw, VRange.denLo, VRange.rawHi, hM, hi, if_true, Bool.false_eq_true, if_false, h3]
            constructor
            · rintro ⟨h4, h5⟩; exact ⟨⟨h4, le_of_lt h5⟩, ne_of_lt h5⟩
            · rintro ⟨⟨h4, h5⟩, h6⟩; exact ⟨h4, lt_of_le_of_ne h5 h6⟩
      · simp only [h3, Bool.false_eq_true, if_false] at h
        -- the genuine split: min < v < max
        have hlo : ∀ m, r.min = some m → vk m < vk v := by
          intro m hm
          have hne : vk v ≠ vk m := by
            intro e; simp [hm, optVerEq, (eqv_iff _ _).2 e] at h2
          have := hraw.1
          simp only [VRange.denLo, hm] at this
          cases hi : r.imin <;> simp [hi] at this
          · exact this
          · exact lt_of_le_of_ne this (fun e => hne e.symm)
        have hhi : ∀ M, r.max = some M → vk v < vk M := by
          intro M hM
          have hne : vk v ≠ vk M := by
            intro e; simp [hM, optVerEq, (eqv_iff _ _).2 e] at h3
          have := hraw.2
          simp only [VRange.rawHi, hM] at this
          cases hi : r.imax <;> simp [hi] at this
          · exact this
          · exact lt_of_le_of_ne this hne
        have hgood : Good [rng ⟨r.min, some v, r.imin, false⟩, rng ⟨some v, r.max, false, r.imax⟩] := by
          intro c hc
          simp only [List.mem_cons, List.mem_nil_iff, or_false] at hc
          rcases hc with rfl | rfl
          · refine ⟨⟨?_, ?_⟩, ⟨fun e => htr.1 e, fun e => by simp at e⟩⟩
            · intro e he
              simp only [VRange.bounds, List.mem_append, Option.mem_toList] at he
              rcases he with he | he
              · exact hr.1 e (VRange.mem_bounds_min he)
              · simp at he; subst he; exact hv
            · intro m M hm hM; simp at hM; subst hM; exact hlo m hm
          · refine ⟨⟨?_, ?_⟩, ⟨fun e => by simp at e, fun e => htr.2 e⟩⟩
            · intro e he
              simp only [VRange.bounds, List.mem_append, Option.mem_toList] at he
              rcases he with he | he
              · simp at he; subst he; exact hv
              · exact hr.1 e (VRange.mem_bounds_max he)
            · intro m M hm hM; simp at hm; subst hm; exact hhi M hM
        obtain ⟨_, _, g3⟩ := unionOfFlat_sem _ res h hgood
        have hregP : Regular (boundsOf [rng ⟨r.min, some v, r.imin, false⟩, rng ⟨some v, r.max, false, r.imax⟩]) p := by
          intro e he
          simp only [boundsOf, List.flatMap_cons, List.flatMap_nil, List.append_nil, List.mem_append, bounds_rng,
            VRange.bounds, Option.mem_toList] at he
          apply hreg e
          simp only [List.mem_append, bounds_rng, bounds_ver, VRange.bounds, Option.mem_toList, List.mem_cons]
          grind
        rw [g3 p hp hregP]
        apply bool_eq_of_iff
        have w1' : (⟨r.min, some v, r.imin, false⟩ : VRange).WF :=
          (hgood (rng ⟨r.min, some v, r.imin, false⟩) (by simp)).1
        have w2' : (⟨some v, r.max, false, r.imax⟩ : VRange).WF :=
          (hgood (rng ⟨some v, r.max, false, r.imax⟩) (by simp)).1
        have w1 := w1'.1
        have w2 := w2'.1
        simp only [anyAllows, List.any_cons, List.any_nil, Bool.or_false, Bool.or_eq_true, RC.allows]
        rw [VRange.allows_iff_raw _ p w1 hp (hregP.mono (fun e he =>
              mem_boundsOf (c := rng ⟨r.min, some v, r.imin, false⟩) (by simp) he)),
          VRange.allows_iff_raw _ p w2 hp (hregP.mono (fun e he =>
              mem_boundsOf (c := rng ⟨some v, r.max, false, r.imax⟩) (by simp) he)),
          Bool.and_eq_true, Bool.not_eq_true', ← Bool.not_eq_true, hR, hpv]
        simp only [VRange.raw, VRange.denLo, VRange.rawHi, Bool.false_eq_true, if_false]
        constructor
        · rintro (⟨h4, h5⟩ | ⟨h4, h5⟩)
          · refine ⟨⟨h4, ?_⟩, ne_of_lt h5⟩
            cases hM : r.max with
            | none => trivial
            | some M =>
              have := lt_trans h5 (hhi M hM)
              simp only; split <;> [exact le_of_lt this; exact this]
          · refine ⟨⟨?_, h5⟩, fun e => (ne_of_lt h4) e.symm⟩
            cases hm : r.min with
            | none => trivial
            | some m =>
              have := lt_trans (hlo m hm) h4
              simp only; split <;> [exact le_of_lt this; exact this]
        · rintro ⟨⟨h4, h5⟩, h6⟩
          rcases lt_or_gt_of_ne h6 with h7 | h7
          · exact Or.inl ⟨h4, h7⟩
          · exact Or.inr ⟨h7, h5⟩
  · simp only [h1, Bool.not_false, if_true, Except.ok.injEq] at h
    subst h
    simp only [VC.allowsPlain, VC.flatten, List.any_cons, List.any_nil, Bool.or_false, RC.allows]
    cases h2 : v.allows p
    · simp
    · simp only [Bool.not_eq_true] at h1
      simp [key h2, h1]

end RC
/-! ### defined-ness, for members whose lower bounds are not local builds -/

theorem rcUnionSingle_ok (x y : RC) : ∃ o, rcUnionSingle x y = .ok o := by
  cases x with
  | ver a =>
    simp only [rcUnionSingle]
    repeat' split
    all_goals exact ⟨_, rfl⟩
  | rng r =>
    cases y with
    | ver v =>
      simp only [rcUnionSingle]
      split
      · exact ⟨_, rfl⟩
      · split
        · exact ⟨_, rfl⟩
        · split <;> exact ⟨_, rfl⟩
    | rng s =>
      cases hc : (!(VRange.edgesTouch r s) && (s.isStrictlyLower r || r.isStrictlyLower s))
      · exact ⟨_, VRange.rcUnionSingle_rng_some r s hc⟩
      · exact ⟨_, VRange.rcUnionSingle_rng_none r s hc⟩

namespace RC

/-- **`a.union(b)` for two members is defined and exact** -/
theorem union_total (x y : RC) (hx : x.WF) (hy : y.WF) (htx : x.Tidy) (hty : y.Tidy)
    (hn : NoLocalLower [x, y]) :
    ∃ res, RC.union x y = .ok res ∧
      ∀ p, p.wf = true → Regular (x.bounds ++ y.bounds) p → res.allowsPlain p = (x.allows p || y.allows p) := by
  have hex : ∃ res, RC.union x y = .ok res := by
    unfold RC.union
    obtain ⟨o, ho⟩ := rcUnionSingle_ok x y
    simp only [ho, bind, Except.bind]
    cases o with
    | some u => exact ⟨_, rfl⟩
    | none =>
      have hgood : Good [x, y] := by
        intro c hc
        simp only [List.mem_cons, List.mem_nil_iff, or_false] at hc
        rcases hc with rfl | rfl
        · exact ⟨hx, htx⟩
        · exact ⟨hy, hty⟩
      obtain ⟨res, hres, _⟩ := unionOfFlat_total [x, y] hgood hn
      exact ⟨res, hres⟩
  obtain ⟨res, hres⟩ := hex
  exact ⟨res, hres, union_exact x y hx hy htx hty res hres⟩

end RC

namespace VRange

/-- **range ∖ range is defined and exact** (hypotheses of `difference_exact`, and none of `a.min`, `a.max`,
`b.max` is a local build) -/
theorem difference_total (a b : VRange) (ha : a.WF) (hb : b.WF) (hta : a.Tidy) (htb : b.Tidy)
    (hec : EndsConsistent a b)
    (hloc : ∀ m, (a.min = some m ∨ a.max = some m ∨ b.max = some m) → m.isLocal = false) :
    ∃ res, RC.rngDifferenceRng a b = .ok res ∧
      ∀ p, p.wf = true → Regular (a.bounds ++ b.bounds) p → res.allowsPlain p = (a.allows p && !b.allows p) := by
  have hex : ∃ res, RC.rngDifferenceRng a b = .ok res := by
    rw [rngDifferenceRng_eq]
    obtain ⟨any, hany⟩ := RC.allowsAny_ok (.rng a) (.rng b)
    simp only [hany, bind, Except.bind]
    cases any with
    | false => exact ⟨_, rfl⟩
    | true =>
      simp only [Bool.not_true, Bool.false_eq_true, if_false]
      obtain ⟨o1, e1, s1⟩ := beforePiece_spec a b ha hb hta
      obtain ⟨o2, e2, s2⟩ := afterPiece_spec a b ha hb hta hec
      simp only [e1, e2]
      cases o1 with
      | none => cases o2 <;> exact ⟨_, rfl⟩
      | some x =>
        cases o2 with
        | none => exact ⟨_, rfl⟩
        | some y =>
          obtain ⟨xwf, xt, xb, xsem, xsrc⟩ := s1
          obtain ⟨ywf, yt, yb, ysem, ysrc⟩ := s2
          have hgood : Good [x, y] := by
            intro c hc
            simp only [List.mem_cons, List.mem_nil_iff, or_false] at hc
            rcases hc with rfl | rfl
            · exact ⟨xwf, xt⟩
            · exact ⟨ywf, yt⟩
          -- lower bounds of the pieces: `a.min` resp. `b.max` / `a.max`
          have hx : ∀ m, x.min = some m → a.min = some m := by
            intro m hm
            unfold beforePiece at e1
            split at e1
            · cases e1
            · split at e1
              · split at e1
                · cases e1; simpa [RC.min] using hm ▸ (by assumption)
                · cases e1
              · cases e1; simpa [RC.min] using hm
          have hy : ∀ m, y.min = some m → (a.max = some m ∨ b.max = some m) := by
            intro m hm
            unfold afterPiece at e2
            split at e2
            · cases e2
            · split at e2
              · split at e2
                · cases e2; left; simpa [RC.min] using hm ▸ (by assumption)
                · cases e2
              · cases e2; right; simpa [RC.min] using hm
          have hn : NoLocalLower [x, y] := by
            intro c hc m hm
            simp only [List.mem_cons, List.mem_nil_iff, or_false] at hc
            rcases hc with rfl | rfl
            · exact hloc m (Or.inl (hx m hm))
            · rcases hy m hm with h | h
              · exact hloc m (Or.inr (Or.inl h))
              · exact hloc m (Or.inr (Or.inr h))
          obtain ⟨res, hres, _⟩ := unionOfFlat_total [x, y] hgood hn
          exact ⟨res, hres⟩
  obtain ⟨res, hres⟩ := hex
  exact ⟨res, hres, difference_exact a b ha hb hta htb hec res hres⟩

end VRange
end Poetry
