/-
Inverting a `python_full_version` leaf with an ordering operator (`<`, `<=`, `>`, `>=`) and a full `X.Y.Z…`
literal: `SingleMarker.invert` re-parses `python_full_version <flipped op> "X.Y.Z"`; the text is read back by the
character-level theorem, the constructor by C06's `mkSingle_pfv3`, and the flipped clause is the complement of
the original on regular probes by C05's bound semantics (`lower_allows`, `upper_allows`).
-/
import PoetryVerif.Proofs.MarkerAlgSoundVerEqv
import PoetryVerif.Proofs.MarkerAlgSoundInvert
import PoetryVerif.Proofs.MarkerLeafVersionText

set_option linter.unusedSimpArgs false
set_option linter.unusedVariables false

namespace Poetry.Marker
open Poetry Poetry.Version

/-- the range of `op V` for an ordering operator -/
def ineqRange : Spec.SOp → Version → VRange
  | .lt, V => ⟨none, some V, false, false⟩
  | .le, V => ⟨none, some V, false, true⟩
  | .gt, V => ⟨some V, none, false, false⟩
  | _, V => ⟨some V, none, true, false⟩

/-- operator, its text, the operator `invert` flips it to, and that operator's text -/
def ineqOps : List (Spec.SOp × String × Spec.SOp × String) :=
  [(.lt, "<", .ge, ">="), (.le, "<=", .gt, ">"), (.gt, ">", .le, "<="), (.ge, ">=", .lt, "<")]

/-- `python_full_version op "X.Y.Z…"` with an ordering operator -/
def ineqLeaf (sop : Spec.SOp) (ops : String) (x : Nat) (r : List Nat) : Single :=
  ⟨"python_full_version", ops, Version.relText (x :: r), false, .ver (.single (.rng (ineqRange sop (litV x r))))⟩

theorem ineq_clause {sop ops sop' ops'} (h : (sop, ops, sop', ops') ∈ ineqOps) (V : Version) :
    clauseVC sop V = .ok (.single (.rng (ineqRange sop V))) ∧
    clauseVC sop' V = .ok (.single (.rng (ineqRange sop' V))) ∧
    (sop, ops) ∈ verOpTable ∧ (sop', ops') ∈ verOpTable ∧ invertOp? ops = some ops' ∧ ops' ∈ Marker.ops ∧
    (ops == "~=") = false ∧ ops' ≠ "<special>" := by
  simp only [ineqOps, List.mem_cons, List.mem_nil_iff, or_false, Prod.mk.injEq] at h
  rcases h with ⟨rfl, rfl, rfl, rfl⟩ | ⟨rfl, rfl, rfl, rfl⟩ | ⟨rfl, rfl, rfl, rfl⟩ | ⟨rfl, rfl, rfl, rfl⟩ <;>
    refine ⟨rfl, rfl, by decide, by decide, by decide, by decide, by decide, by decide⟩

theorem mkSingle_ineq {sop ops sop' ops'} (h : (sop, ops, sop', ops') ∈ ineqOps) (x : Nat) (r : List Nat)
    (hr : 2 ≤ r.length) :
    mkSingle "python_full_version" (ops ++ Version.relText (x :: r)) false = .ok (ineqLeaf sop ops x r) ∧
    mkSingle "python_full_version" (ops' ++ Version.relText (x :: r)) false = .ok (ineqLeaf sop' ops' x r) := by
  obtain ⟨c1, c2, t1, t2, _⟩ := ineq_clause h (litV x r)
  exact ⟨mkSingle_pfv3 sop ops t1 x r hr _ c1, mkSingle_pfv3 sop' ops' t2 x r hr _ c2⟩

theorem ineqRange_member {B : List Version} (sop : Spec.SOp) (hs : sop = .lt ∨ sop = .le ∨ sop = .gt ∨ sop = .ge)
    (V : Version) (hV : V.wf = true) (hB : V ∈ B) : RegMember B (.rng (ineqRange sop V)) := by
  rcases hs with rfl | rfl | rfl | rfl
  all_goals
    refine ⟨⟨?_, ?_⟩, ⟨?_, ?_⟩, ?_, ?_⟩
    · intro e he; simp [ineqRange, VRange.bounds] at he; subst he; exact hV
    · intro m M hm hM; simp [ineqRange] at hm hM
    · intro h; first | (simp [ineqRange] at h; done) | rfl
    · intro h; first | (simp [ineqRange] at h; done) | rfl
    · show VRange.isStrictlyLower _ _ = false
      simp [VRange.isStrictlyLower, VRange.allowedMin, VRange.allowedMax, ineqRange]
    · intro e he; simp [ineqRange, RC.bounds, RC.view, VRange.bounds, RC.min, RC.max] at he; subst he; exact hB

theorem ineq_sops {sop ops sop' ops'} (h : (sop, ops, sop', ops') ∈ ineqOps) :
    (sop = .lt ∨ sop = .le ∨ sop = .gt ∨ sop = .ge) ∧ (sop' = .lt ∨ sop' = .le ∨ sop' = .gt ∨ sop' = .ge) := by
  simp only [ineqOps, List.mem_cons, List.mem_nil_iff, or_false, Prod.mk.injEq] at h
  rcases h with ⟨rfl, rfl, rfl, rfl⟩ | ⟨rfl, rfl, rfl, rfl⟩ | ⟨rfl, rfl, rfl, rfl⟩ | ⟨rfl, rfl, rfl, rfl⟩ <;> simp

/-- such a leaf belongs to the version fragment -/
theorem verLeaf_ineq {B : List Version} {sop ops sop' ops'} (h : (sop, ops, sop', ops') ∈ ineqOps)
    (x : Nat) (r : List Nat) (hr : 2 ≤ r.length) (hB : litV x r ∈ B) :
    VerLeaf B "python_full_version" (.single (ineqLeaf sop ops x r)) := by
  have hm := ineqRange_member (B := B) sop (ineq_sops h).1 (litV x r) (litV_wf x r) hB
  refine ⟨rfl, ?_, _, rfl, ⟨hm.1, hm.2.2.1⟩, ?_⟩
  · simp only [Single.coherent, ineqLeaf, itemConstraintString, Bool.false_eq_true, if_false]
    rw [(mkSingle_ineq h x r hr).1]
    simp [ineqLeaf]
  · intro c hc
    simp only [VC.flatten, List.mem_cons, List.mem_nil_iff, or_false] at hc
    subst hc; exact hm

theorem relText_valOk (x : Nat) (r : List Nat) : ValOk (Version.relText (x :: r)) := by
  intro c hc
  rw [relText_toList] at hc
  rcases relChars_chars x r c hc with h | rfl
  · exact ⟨digit_ne c '"' h (by decide), digit_ne c '\\' h (by decide), digit_ne c '\n' h (by decide)⟩
  · decide

/-- `invert()` of such a leaf is the leaf with the flipped operator -/
theorem invert_ineq {sop ops sop' ops'} (h : (sop, ops, sop', ops') ∈ ineqOps) (x : Nat) (r : List Nat)
    (hr : 2 ≤ r.length) :
    Leaf.invert (.single (ineqLeaf sop ops x r)) = .ok (.leaf (.single (ineqLeaf sop' ops' x r))) := by
  obtain ⟨_, _, _, _, hinv, hops, htilde, hsp⟩ := ineq_clause h (litV x r)
  have h1 : Leaf.invert (.single (ineqLeaf sop ops x r)) =
      parseItemMarker (leafText "python_full_version" ops' (Version.relText (x :: r)) false) := by
    simp only [Leaf.invert, ineqLeaf, htilde, Bool.false_eq_true, if_false, invertSimple, hinv, invertedLeafText]
  rw [h1, parseItemMarker_leafText _ _ _ false (by decide) hops (relText_valOk x r)]
  simp only [itemConstraintString, Bool.false_eq_true, if_false, (mkSingle_ineq h x r hr).2]

/-- the flipped clause is the complement on regular probes -/
theorem ineq_complement {sop ops sop' ops'} (h : (sop, ops, sop', ops') ∈ ineqOps) (V p : Version)
    (hV : V.wf = true) (hp : p.wf = true) (hreg : Reg1 p V) :
    (ineqRange sop' V).allows p = !(ineqRange sop V).allows p := by
  have hl := fun b => lower_allows V p b hV hp hreg
  have hu := fun b => upper_allows V p b hV hp hreg
  simp only [ineqOps, List.mem_cons, List.mem_nil_iff, or_false, Prod.mk.injEq] at h
  rcases h with ⟨rfl, rfl, rfl, rfl⟩ | ⟨rfl, rfl, rfl, rfl⟩ | ⟨rfl, rfl, rfl, rfl⟩ | ⟨rfl, rfl, rfl, rfl⟩ <;>
    (simp only [ineqRange]
     rw [Bool.eq_iff_iff]
     simp only [Bool.not_eq_true', ← Bool.not_eq_true, hl, hu, if_true, if_false, Bool.false_eq_true]
     first | exact not_lt.symm | exact not_le.symm)

/-- **inverting an ordering leaf on `python_full_version` is sound** in the regular setting -/
theorem invOK_ineq {B : List Version} (hB : RegB B) {E : Env} {p : Version}
    (hE : VerEnv B E "python_full_version" p) {sop ops sop' ops'} (h : (sop, ops, sop', ops') ∈ ineqOps)
    (x : Nat) (r : List Nat) (hr : 2 ≤ r.length) (hm : litV x r ∈ B) :
    InvOK (leafEval E) (VerLeaf B "python_full_version") (.single (ineqLeaf sop ops x r)) := by
  intro res hi
  rw [invert_ineq h x r hr] at hi
  cases hi
  have h' : (sop', ops', sop, ops) ∈ ineqOps := by
    simp only [ineqOps, List.mem_cons, List.mem_nil_iff, or_false, Prod.mk.injEq] at h ⊢
    rcases h with ⟨rfl, rfl, rfl, rfl⟩ | ⟨rfl, rfl, rfl, rfl⟩ | ⟨rfl, rfl, rfl, rfl⟩ | ⟨rfl, rfl, rfl, rfl⟩ <;> simp
  have g1 := verLeaf_ineq (B := B) h x r hr hm
  have g2 := verLeaf_ineq (B := B) h' x r hr hm
  refine ⟨(M.good_leaf _).2 g2, ?_⟩
  obtain ⟨_, _, v1, hv1, hw1, hm1⟩ := g1
  obtain ⟨_, _, v2, hv2, hw2, hm2⟩ := g2
  have e1 := verLeaf_eval hB hE (by decide) (s := ineqLeaf sop ops x r) rfl hv1 hw1 hm1
  have e2 := verLeaf_eval hB hE (by decide) (s := ineqLeaf sop' ops' x r) rfl hv2 hw2 hm2
  simp only [ineqLeaf] at hv1 hv2
  cases hv1; cases hv2
  rw [M.sem_leaf]
  simp only [leafEval, e1, e2, VC.allowsPlain, VC.flatten, List.any_cons, List.any_nil, Bool.or_false, RC.allows]
  exact ineq_complement h (litV x r) p (litV_wf x r) hE.wf ((hE.reg).reg1 hm)

/-! ### inversion on the combined domain -/

/-- quotable string / `extra` leaves together with `python_full_version` leaves -/
def DomInvLeaf (B : List Version) (E : Env) (l : Leaf) : Prop :=
  InvLeaf E l ∨ VerLeaf B "python_full_version" l

/-- leaves of the combined domain that are ready to be inverted -/
def DomInvReady (B : List Version) (E : Env) (l : Leaf) : Prop :=
  InvReady E l ∨ ∃ sop ops sop' ops' x r, (sop, ops, sop', ops') ∈ ineqOps ∧ 2 ≤ r.length ∧ litV x r ∈ B ∧
    l = .single (ineqLeaf sop ops x r)

theorem invLeaf_name {E : Env} {l : Leaf} (h : InvLeaf E l) : l.name = "extra" ∨ l.name ∈ plainStringVars := by
  rcases h with h | h
  · exact Or.inr h.2.1
  · exact Or.inl (xLeaf_name h.1)

theorem leafSpec_domInv {B : List Version} (hB : RegB B) {E : Env} {ex : List String} (hX : E.extras = some ex)
    {p : Version} (hE : VerEnv B E "python_full_version" p) (HM : MkVerOK B "python_full_version" p) :
    LeafSpec (leafEval E) (DomInvLeaf B E) := by
  refine LeafSpec.or (leafSpec_inv hX) (leafSpec_ver' hB hE (by decide) (by decide) HM) ?_
  intro a b ha hb
  have hb' := verLeaf_name hb
  rcases invLeaf_name ha with h | h
  · rw [pyPair, pyPair, h, hb']; decide
  · simp only [plainStringVars, List.mem_cons, List.mem_nil_iff, or_false] at h
    rcases h with h | h | h | h | h | h | h <;> (rw [pyPair, pyPair, h, hb']; decide)

theorem InvOK.mono {ev : Leaf → Bool} {G G' : Leaf → Prop} (hGG : ∀ l, G l → G' l) {l : Leaf}
    (h : InvOK ev G l) : InvOK ev G' l :=
  fun r hr => ⟨M.good_mono hGG r (h r hr).1, (h r hr).2⟩

/-- **`invert` preserves truth on the combined domain** (string, `extra`, ordering leaves on
`python_full_version`), in the regular setting -/
theorem M.invert_sound_dom {B : List Version} (hB : RegB B) {E : Env} {ex : List String}
    (hX : E.extras = some ex) {p : Version} (hE : VerEnv B E "python_full_version" p)
    (HM : MkVerOK B "python_full_version" p) {a r : M} (ha : M.Good (DomInvReady B E) a)
    (h : M.invert a = .ok r) :
    M.Good (DomInvLeaf B E) r ∧ M.sem (leafEval E) r = !M.sem (leafEval E) a := by
  refine M.invert_sound_on (leafSpec_domInv hB hX hE HM) a r (M.good_mono ?_ a ha) h
  intro l hl
  rcases hl with hl | ⟨sop, ops, sop', ops', x, r', hi, hr, hm, rfl⟩
  · obtain ⟨g, ok⟩ := invReady_ok hX hl
    exact ⟨Or.inl g, ok.mono (fun l hl => Or.inl hl)⟩
  · exact ⟨Or.inr (verLeaf_ineq hi x r' hr hm), (invOK_ineq hB hE hi x r' hr hm).mono (fun l hl => Or.inr hl)⟩

theorem domInvLeaf_evaluable {B : List Version} (hB : RegB B) {E : Env} {ex : List String}
    (hX : E.extras = some ex) {p : Version} (hE : VerEnv B E "python_full_version" p) {l : Leaf}
    (h : DomInvLeaf B E l) : ∃ b, l.validate E = .ok b := by
  rcases h with h | h
  · exact invLeaf_evaluable hX h
  · exact verLeaf_evaluable hB hE (by decide) h

end Poetry.Marker
