/-
Marker text for `==` / `!=` leaves on string variables and `extra` whose value may hold a double quote (written in
single quotes): the per-leaf hypotheses of the marker-text theorem (`LeafPrintOK`, `Leaf.LexableQ`) on the fragment
`QLeaf E`, and the domains built on it.  Copy of Proofs/MarkerPrintDom.lean over `QuoteValue` / `LexableQ`.
-/
import PoetryVerif.Proofs.MarkerAlgSoundQuote
import PoetryVerif.Proofs.MarkerAlgSoundRevQuote
import PoetryVerif.Proofs.MarkerPrintDom
import PoetryVerif.Proofs.MarkerPrint4LL

set_option linter.unusedSimpArgs false
set_option linter.unusedVariables false

namespace Poetry.Marker
open Poetry.Generic

/-- `==` / `!=` leaves (and their atomic multi / union leaves) on the canonical string variables, values that may hold
a double quote -/
def QStrLeaf (E : Env) : Leaf → Prop := StrLeafW (fun n => n ∈ plainStringVars) QuoteValue E

/-- … together with the `extra` leaves -/
def QLeaf (E : Env) (l : Leaf) : Prop := QStrLeaf E l ∨ XLeafW QuoteValue l

theorem leafSpec_q {E : Env} {ex : List String} (hE : E.extras = some ex) :
    LeafSpec (leafEval E) (QLeaf E) := by
  refine LeafSpec.or (leafSpec_strW (mkAtomOKW_quote E)) (leafSpec_extraW mkExtraOKW_quote hE) ?_
  intro a b ha hb
  obtain ⟨hx, hp, _⟩ := strLeaf_view ha.1
  have hb' := xLeaf_name hb.1
  obtain ⟨p1, p2⟩ := isPyName_false hp
  refine ⟨?_, ?_, ?_⟩
  · rw [hb']; simpa using hx
  · simp [pyPair, p1, p2]
  · simp [pyPair, p1, p2]

theorem qLeaf_evaluable {E : Env} {ex : List String} (hE : E.extras = some ex) {l : Leaf}
    (h : QLeaf E l) : ∃ b, l.validate E = .ok b := by
  rcases h with h | h
  · exact strLeaf_evaluable h.1
  · exact xLeaf_evaluable mkExtraOKW_quote hE h

theorem qLeaf_name {E : Env} {l : Leaf} (h : QLeaf E l) : l.name = "extra" ∨ l.name ∈ plainStringVars := by
  rcases h with h | h
  · exact Or.inr h.2.1
  · exact Or.inl (xLeaf_name h.1)

/-- the constructor on the item text of an atom (string variables) -/
theorem compactAtom_strQ (n : String) (hn : n ∈ plainStringVars) (a : Generic.Atom) (hx : a.x = false)
    (he : a.isEqNe = true) (hq : QuoteValue a.value) :
    compactAtom (.item n a.op.str a.value false) = .ok (.leaf (.single (strLeafOf n a))) := by
  obtain ⟨hn1, hn2⟩ := plainStringVars_facts n hn
  cases a with | mk v op x =>
  simp only at hx hq; subst hx
  cases op with
  | eq =>
    have := mkSingle_string_eqG n v hn1 hq.1.1 hq.1.2
    simp [compactAtom, itemConstraintString, Generic.Op.str, this, hn2, strLeafOf, bind, Except.bind, pure, Except.pure]
  | ne =>
    have := mkSingle_string_neG n v hn1 hq.1.1
    simp [compactAtom, itemConstraintString, Generic.Op.str, this, hn2, strLeafOf, bind, Except.bind, pure, Except.pure]
  | in_ => simp [Atom.isEqNe] at he
  | nc => simp [Atom.isEqNe] at he

theorem compactAtom_extraQ (a : Generic.Atom) (hx : a.x = true) (he : a.isEqNe = true) (hq : QuoteValue a.value) :
    compactAtom (.item "extra" a.op.str a.value false) = .ok (.leaf (.single (sOfAtom a))) := by
  cases a with | mk v op x =>
  simp only at hx hq; subst hx
  cases op with
  | eq =>
    have := mkSingle_extra_eqG v hq.1.1 hq.1.2
    simp [compactAtom, itemConstraintString, Generic.Op.str, this, sOfAtom, bind, Except.bind, pure, Except.pure]
  | ne =>
    have := mkSingle_extra_neG v hq.1.1
    simp [compactAtom, itemConstraintString, Generic.Op.str, this, sOfAtom, bind, Except.bind, pure, Except.pure]
  | in_ => simp [Atom.isEqNe] at he
  | nc => simp [Atom.isEqNe] at he

/-- **re-reading the text of a string-fragment leaf gives its truth value back** -/
theorem printOK_strQ {E : Env} {l : Leaf} (h : QStrLeaf E l) : LeafPrintOK (leafEval E) (QStrLeaf E) l := by
  obtain ⟨hs, hN, hW⟩ := h
  have hs' := hs
  cases l with
  | single s =>
    obtain ⟨hx, hp, ⟨ve, hve⟩, hsw, a, hc, hax, hae, hop, hval⟩ := hs
    have hq : QuoteValue a.value := hW a (by simp [leafAtoms, Leaf.c, hc, GC.atoms, GS.atoms])
    have hca := compactAtom_strQ s.name hN a hax hae hq
    apply leafPrintOK_single (⟨hs', hN, hW⟩ : QStrLeaf E (.single s))
    simp only [compactAtom, bind, Except.bind, pure, Except.pure] at hca
    rw [hsw, hop, hval]
    cases hm : mkSingle s.name (itemConstraintString a.op.str a.value false) false with
    | error e => simp [hm] at hca
    | ok s' =>
      simp only [hm, Except.ok.injEq, M.leaf.injEq, Leaf.single.injEq] at hca
      subst hca
      cases s
      simp_all [strLeafOf]
  | amulti n c =>
    obtain ⟨hx, hp, ⟨ve, hve⟩, hw⟩ := hs
    intro t ht
    cases c with
    | union _ => simp [Leaf.toSyn] at ht
    | s gs =>
      cases gs with
      | multi x cs =>
        simp only [Leaf.toSyn] at ht
        obtain ⟨_, hcs⟩ := wfG_multi hw
        have hat : ∀ a ∈ cs, compactAtom (.item n a.op.str a.value false) = .ok (.leaf (.single (strLeafOf n a))) := by
          intro a ha
          exact compactAtom_strQ n hN a (hcs a ha).1 (by simp [Atom.isEqNe, (hcs a ha).2])
            (hW a (by simp [leafAtoms, Leaf.c, GC.atoms, GS.atoms, ha]))
        have hg := (compactGroups_atomItems n (strLeafOf n) cs t hat).1 ht
        have hleaf : ∀ a ∈ cs, QStrLeaf E (.single (strLeafOf n a)) ∧
            leafEval E (.single (strLeafOf n a)) = a.den ve := by
          intro a ha
          have hsl : StrLeaf E (.single (strLeafOf n a)) :=
            ⟨hx, hp, ⟨ve, hve⟩, rfl, a, rfl, (hcs a ha).1, by simp [Atom.isEqNe, (hcs a ha).2], rfl, rfl⟩
          refine ⟨⟨hsl, hN, ?_⟩, ?_⟩
          · intro y hy
            simp only [leafAtoms, Leaf.c, strLeafOf, GC.atoms, GS.atoms, List.mem_singleton] at hy
            rw [hy]
            exact hW a (by simp [leafAtoms, Leaf.c, GC.atoms, GS.atoms, ha])
          · rw [strLeaf_atomic_eval hsl rfl hve]; simp [GC.den, GC.sem, GS.sem]
        refine ⟨_, hg, ?_, ?_, fun _ => ⟨_, rfl⟩⟩
        · intro g hgm x hx'
          simp only [List.mem_singleton] at hgm; subst hgm
          simp only [List.mem_map] at hx'
          obtain ⟨a, ha, rfl⟩ := hx'
          exact (M.good_leaf _).2 (hleaf a ha).1
        · rw [strLeaf_atomic_eval hs' rfl hve]
          simp only [gsem, List.any_cons, List.any_nil, Bool.or_false, List.all_map, Function.comp_def, M.sem_leaf,
            GC.den, GC.sem, GS.sem]
          apply list_all_congr
          intro a ha
          exact (hleaf a ha).2
      | _ => simp [Leaf.toSyn] at ht
  | aunion n c =>
    obtain ⟨hx, hp, ⟨ve, hve⟩, hw⟩ := hs
    intro t ht
    cases c with
    | s _ => simp [Leaf.toSyn] at ht
    | union ms =>
      simp only [Leaf.toSyn, Option.bind_eq_some_iff] at ht
      obtain ⟨as, hga, ht⟩ := ht
      have hms := gsAtoms_eq ms as hga
      subst hms
      have hcs : ∀ a ∈ as, a.x = false ∧ a.isEqNe = true := by
        intro a ha
        have := hw
        simp only [GC.wfG, Bool.and_eq_true, List.all_eq_true, List.mem_map] at this
        have := this.2 (.atom a) ⟨a, ha, rfl⟩
        simpa [GS.wfG] using this
      have hWa : ∀ a ∈ as, QuoteValue a.value := by
        intro a ha
        apply hW a
        simp only [leafAtoms, Leaf.c, GC.atoms, List.mem_flatMap, List.mem_map]
        exact ⟨.atom a, ⟨a, ha, rfl⟩, by simp [GS.atoms]⟩
      have hat : ∀ a ∈ as, compactAtom (.item n a.op.str a.value false) = .ok (.leaf (.single (strLeafOf n a))) :=
        fun a ha => compactAtom_strQ n hN a (hcs a ha).1 (hcs a ha).2 (hWa a ha)
      have hg := (compactGroups_atomItems n (strLeafOf n) as t hat).2 ht
      have hleaf : ∀ a ∈ as, QStrLeaf E (.single (strLeafOf n a)) ∧
          leafEval E (.single (strLeafOf n a)) = a.den ve := by
        intro a ha
        have hsl : StrLeaf E (.single (strLeafOf n a)) :=
          ⟨hx, hp, ⟨ve, hve⟩, rfl, a, rfl, (hcs a ha).1, (hcs a ha).2, rfl, rfl⟩
        refine ⟨⟨hsl, hN, ?_⟩, ?_⟩
        · intro y hy
          simp only [leafAtoms, Leaf.c, strLeafOf, GC.atoms, GS.atoms, List.mem_singleton] at hy
          rw [hy]
          exact hWa a ha
        · rw [strLeaf_atomic_eval hsl rfl hve]; simp [GC.den, GC.sem, GS.sem]
      refine ⟨_, hg, ?_, ?_, fun hno => absurd rfl (hno n _)⟩
      · intro g hgm x hx'
        simp only [List.mem_map] at hgm
        obtain ⟨a, ha, rfl⟩ := hgm
        simp only [List.mem_singleton] at hx'; subst hx'
        exact (M.good_leaf _).2 (hleaf a ha).1
      · rw [strLeaf_atomic_eval hs' rfl hve]
        simp only [gsem, List.any_map, Function.comp_def, List.all_cons, List.all_nil, Bool.and_true, M.sem_leaf,
          GC.den, GC.sem, GS.sem]
        apply list_any_congr
        intro a ha
        exact (hleaf a ha).2

/-- **…and of an `extra` leaf** -/
theorem printOK_extraQ {E : Env} {ex : List String} (hE : E.extras = some ex) {l : Leaf}
    (h : XLeafW QuoteValue l) : LeafPrintOK (leafEval E) (XLeafW QuoteValue) l := by
  have h' := h
  obtain ⟨hs, hW⟩ := h
  have hsingle : ∀ a : Generic.Atom, a.x = true → a.isEqNe = true → QuoteValue a.value →
      XLeafW QuoteValue (.single (sOfAtom a)) ∧
      leafEval E (.single (sOfAtom a)) = a.denX (extrasPred ex) := by
    intro a hx he hq
    have hsl : XLeafW QuoteValue (.single (sOfAtom a)) := by
      refine ⟨⟨rfl, rfl, a, rfl, hx, he, rfl, rfl⟩, ?_⟩
      intro y hy
      simp only [leafAtoms, Leaf.c, sOfAtom, GC.atoms, GS.atoms, List.mem_singleton] at hy
      rw [hy]; exact hq
    exact ⟨hsl, by rw [xLeaf_eval mkExtraOKW_quote hE hsl rfl]; simp [GC.denX, GC.sem, GS.sem]⟩
  cases l with
  | single s =>
    obtain ⟨hnm, hsw, a, hc, hax, hae, hop, hval⟩ := hs
    have hq : QuoteValue a.value := hW a (by simp [leafAtoms, Leaf.c, hc, GC.atoms, GS.atoms])
    have hca := compactAtom_extraQ a hax hae hq
    apply leafPrintOK_single h'
    simp only [compactAtom, bind, Except.bind, pure, Except.pure] at hca
    rw [hsw, hop, hval, hnm]
    cases hm : mkSingle "extra" (itemConstraintString a.op.str a.value false) false with
    | error e => simp [hm] at hca
    | ok s' =>
      simp only [hm, Except.ok.injEq, M.leaf.injEq, Leaf.single.injEq] at hca
      subst hca
      cases s
      simp_all [sOfAtom]
  | amulti n c =>
    obtain ⟨rfl, hw, x, cs, rfl⟩ := hs
    intro t ht
    simp only [Leaf.toSyn] at ht
    obtain ⟨_, hcs, _⟩ := wfX_multi hw
    have hWa : ∀ a ∈ cs, QuoteValue a.value :=
      fun a ha => hW a (by simp [leafAtoms, Leaf.c, GC.atoms, GS.atoms, ha])
    have hat : ∀ a ∈ cs, compactAtom (.item "extra" a.op.str a.value false) = .ok (.leaf (.single (sOfAtom a))) :=
      fun a ha => compactAtom_extraQ a (hcs a ha).1 (hcs a ha).2 (hWa a ha)
    have hg := (compactGroups_atomItems "extra" sOfAtom cs t hat).1 ht
    refine ⟨_, hg, ?_, ?_, fun _ => ⟨_, rfl⟩⟩
    · intro g hgm y hy
      simp only [List.mem_singleton] at hgm; subst hgm
      simp only [List.mem_map] at hy
      obtain ⟨a, ha, rfl⟩ := hy
      exact (M.good_leaf _).2 (hsingle a (hcs a ha).1 (hcs a ha).2 (hWa a ha)).1
    · rw [xLeaf_eval mkExtraOKW_quote hE h' rfl]
      simp only [gsem, List.any_cons, List.any_nil, Bool.or_false, List.all_map, Function.comp_def, M.sem_leaf,
        GC.denX, GC.sem, GS.sem]
      apply list_all_congr
      intro a ha
      exact (hsingle a (hcs a ha).1 (hcs a ha).2 (hWa a ha)).2
  | aunion n c =>
    obtain ⟨rfl, hw, ms, rfl, hall⟩ := hs
    intro t ht
    simp only [Leaf.toSyn, Option.bind_eq_some_iff] at ht
    obtain ⟨as, hga, ht⟩ := ht
    have hms := gsAtoms_eq ms as hga
    subst hms
    have hcs : ∀ a ∈ as, a.x = true ∧ a.isEqNe = true := by
      intro a ha
      have := hw
      simp only [GC.wfX, Bool.and_eq_true, List.all_eq_true, List.mem_map] at this
      have := this.2 (.atom a) ⟨a, ha, rfl⟩
      simpa [GS.wfX] using this
    have hWa : ∀ a ∈ as, QuoteValue a.value := by
      intro a ha
      apply hW a
      simp only [leafAtoms, Leaf.c, GC.atoms, List.mem_flatMap, List.mem_map]
      exact ⟨.atom a, ⟨a, ha, rfl⟩, by simp [GS.atoms]⟩
    have hat : ∀ a ∈ as, compactAtom (.item "extra" a.op.str a.value false) = .ok (.leaf (.single (sOfAtom a))) :=
      fun a ha => compactAtom_extraQ a (hcs a ha).1 (hcs a ha).2 (hWa a ha)
    have hg := (compactGroups_atomItems "extra" sOfAtom as t hat).2 ht
    refine ⟨_, hg, ?_, ?_, fun hno => absurd rfl (hno "extra" _)⟩
    · intro g hgm y hy
      simp only [List.mem_map] at hgm
      obtain ⟨a, ha, rfl⟩ := hgm
      simp only [List.mem_singleton] at hy; subst hy
      exact (M.good_leaf _).2 (hsingle a (hcs a ha).1 (hcs a ha).2 (hWa a ha)).1
    · rw [xLeaf_eval mkExtraOKW_quote hE h' rfl]
      simp only [gsem, List.any_map, Function.comp_def, List.all_cons, List.all_nil, Bool.and_true, M.sem_leaf,
        GC.denX, GC.sem, GS.sem]
      apply list_any_congr
      intro a ha
      exact (hsingle a (hcs a ha).1 (hcs a ha).2 (hWa a ha)).2

/-- **the per-leaf text hypothesis holds on the whole quotable fragment** -/
theorem printOK_q {E : Env} {ex : List String} (hE : E.extras = some ex) :
    ∀ l, QLeaf E l → LeafPrintOK (leafEval E) (QLeaf E) l := by
  intro l hl
  rcases hl with hl | hl
  · exact (printOK_strQ hl).mono (fun l h => Or.inl h)
  · exact (printOK_extraQ hE hl).mono (fun l h => Or.inr h)

/-! ### lexability -/

theorem atomItems_lexableQ (n : String) (hn : n ∈ names) (isOr : Bool) : ∀ (as : List Generic.Atom) (t : Syn),
    (∀ a ∈ as, a.isEqNe = true ∧ ValOkQ a.value) → atomItems n isOr as = some t → t.LexableQ
  | [], t, _, h => by simp [atomItems] at h
  | [a], t, ha, h => by
      simp only [atomItems, Option.some.injEq] at h; subst h
      have := ha a (by simp)
      refine ⟨hn, ?_, this.2⟩
      cases a with | mk v op x => cases op <;> simp_all [Atom.isEqNe, Generic.Op.str] <;> decide
  | a :: b :: rest, t, ha, h => by
      simp only [atomItems, Option.map_eq_some_iff] at h
      obtain ⟨t', h', rfl⟩ := h
      have := ha a (by simp)
      refine ⟨⟨hn, ?_, this.2⟩, atomItems_lexableQ n hn isOr (b :: rest) t' (fun x hx => ha x (by simp [hx])) h'⟩
      cases a with | mk v op x => cases op <;> simp_all [Atom.isEqNe, Generic.Op.str] <;> decide

theorem qLeaf_atoms {E : Env} {l : Leaf} (h : QLeaf E l) :
    l.name ∈ names ∧ ∀ a ∈ leafAtoms l, a.isEqNe = true ∧ ValOkQ a.value := by
  rcases h with h | h
  · refine ⟨plainStringVars_names _ h.2.1, fun a ha => ⟨?_, (h.2.2 a ha).2⟩⟩
    obtain ⟨_, _, gc, v, hc, hw, _⟩ := strLeaf_view h.1
    simp only [leafAtoms, hc] at ha
    cases gc with
    | s gs =>
      cases gs with
      | atom b => simp [GC.atoms, GS.atoms] at ha; subst ha; have := hw; simp [GC.wfG, GS.wfG] at this; exact this.2
      | multi x cs =>
        simp [GC.atoms, GS.atoms] at ha
        have := (wfG_multi hw).2 a ha
        simp [Atom.isEqNe, this.2]
      | any => simp [GC.atoms, GS.atoms] at ha
      | empty => simp [GC.atoms, GS.atoms] at ha
    | union ms =>
      simp only [GC.atoms, List.mem_flatMap] at ha
      obtain ⟨m, hm, ham⟩ := ha
      have := hw
      simp only [GC.wfG, Bool.and_eq_true, List.all_eq_true] at this
      have hmw := this.2 m hm
      cases m with
      | atom b => simp [GS.atoms] at ham; subst ham; have := hmw; simp [GS.wfG] at this; exact this.2
      | multi x cs =>
        simp [GS.atoms] at ham
        have := (wfG_multi hmw).2 a ham
        simp [Atom.isEqNe, this.2]
      | any => simp [GS.atoms] at ham
      | empty => simp [GS.atoms] at ham
  · have hn := xLeaf_name h.1
    refine ⟨by rw [hn]; decide, fun a ha => ⟨?_, (h.2 a ha).2⟩⟩
    cases l with
    | single s =>
      obtain ⟨_, _, b, hc, _, hbe, _, _⟩ := h.1
      simp [leafAtoms, Leaf.c, hc, GC.atoms, GS.atoms] at ha; subst ha; exact hbe
    | amulti n c =>
      obtain ⟨_, hw, x, cs, rfl⟩ := h.1
      simp [leafAtoms, Leaf.c, GC.atoms, GS.atoms] at ha
      exact ((wfX_multi hw).2.1 a ha).2
    | aunion n c =>
      obtain ⟨_, hw, ms, rfl, hall⟩ := h.1
      obtain ⟨as, rfl⟩ := atoms_of_all ms hall
      simp only [leafAtoms, Leaf.c, GC.atoms, List.mem_flatMap, List.mem_map] at ha
      obtain ⟨m, ⟨b, hb, rfl⟩, ham⟩ := ha
      simp [GS.atoms] at ham; subst ham
      have := hw
      simp only [GC.wfX, Bool.and_eq_true, List.all_eq_true, List.mem_map] at this
      have := this.2 (.atom a) ⟨a, hb, rfl⟩
      simp [GS.wfX] at this; exact this.2

/-- **the texts of the fragment's leaves are lexable** -/
theorem lexableQ_q {E : Env} : ∀ l, QLeaf E l → Leaf.LexableQ l := by
  intro l hl t ht
  obtain ⟨hn, hat⟩ := qLeaf_atoms hl
  cases l with
  | single s =>
    simp only [Leaf.toSyn, Option.some.injEq] at ht; subst ht
    have hop : s.op ∈ ops ∧ ValOkQ s.value := by
      rcases hl with hl | hl
      · obtain ⟨_, _, _, _, a, hc, _, hae, hop, hval⟩ := hl.1
        have := hat a (by simp [leafAtoms, Leaf.c, hc, GC.atoms, GS.atoms])
        rw [hop, hval]
        refine ⟨?_, this.2⟩
        cases a with | mk v op x => cases op <;> simp_all [Atom.isEqNe, Generic.Op.str] <;> decide
      · obtain ⟨_, _, a, hc, _, hae, hop, hval⟩ := hl.1
        have := hat a (by simp [leafAtoms, Leaf.c, hc, GC.atoms, GS.atoms])
        rw [hop, hval]
        refine ⟨?_, this.2⟩
        cases a with | mk v op x => cases op <;> simp_all [Atom.isEqNe, Generic.Op.str] <;> decide
    exact ⟨hn, hop.1, hop.2⟩
  | amulti n c =>
    cases c with
    | union _ => simp [Leaf.toSyn] at ht
    | s gs =>
      cases gs with
      | multi x cs =>
        simp only [Leaf.toSyn] at ht
        exact atomItems_lexableQ n hn false cs t (fun a ha => hat a (by simp [leafAtoms, Leaf.c, GC.atoms, GS.atoms, ha])) ht
      | _ => simp [Leaf.toSyn] at ht
  | aunion n c =>
    cases c with
    | s _ => simp [Leaf.toSyn] at ht
    | union ms =>
      simp only [Leaf.toSyn, Option.bind_eq_some_iff] at ht
      obtain ⟨as, hga, ht⟩ := ht
      have hms := gsAtoms_eq ms as hga
      subst hms
      refine atomItems_lexableQ n hn true as t (fun a ha => hat a ?_) ht
      simp only [leafAtoms, Leaf.c, GC.atoms, List.mem_flatMap, List.mem_map]
      exact ⟨.atom a, ⟨a, ha, rfl⟩, by simp [GS.atoms]⟩


/-! ### the four-operator fragment -/

/-- string leaves with the four operators, `==` / `!=` values that may hold a double quote -/
def Str4QQ (C : String → Prop) (E : Env) (l : Leaf) : Prop := Str4LeafW QuoteValue ValOk C E l

theorem leafSpec_str4QQ {C : String → Prop} (hC : ∀ u v, C u → C v → strIn u v = true ∨ strIn v u = true)
    (E : Env) : LeafSpec (leafEval E) (Str4QQ C E) := leafSpec_str4K (mkAtomOKW_quote E) hC

theorem printOK_str4QQ {C : String → Prop} {E : Env} : ∀ l, Str4QQ C E l → LeafPrintOK (leafEval E) (Str4QQ C E) l := by
  intro l hl
  have hl' := hl
  rcases hl with hl | ⟨n, ops, gop, v, hop, hn, hv, hq, hev, hC, rfl⟩
  · exact (printOK_strQ hl).mono (fun l h => Or.inl h)
  · obtain ⟨hn1, hn2⟩ := plainStringVars_facts n hn
    refine leafPrintOK_single hl' ?_
    have := mkSingle_rev n v hn1 hv ops gop hop
    rw [hn2] at this
    exact this

theorem lexableQ_str4QQ {C : String → Prop} {E : Env} : ∀ l, Str4QQ C E l → Leaf.LexableQ l := by
  intro l hl
  rcases hl with hl | ⟨n, ops, gop, v, hop, hn, hv, hq, hev, hC, rfl⟩
  · exact lexableQ_q (E := E) l (Or.inl hl)
  · exact leafLexableQ_single (plainStringVars_names' hn) (inOps_ops hop) (Or.inl hq)

/-- four-operator strings and `extra`, `==` / `!=` values that may hold a double quote -/
def Plain4QQ (C : String → Prop) (E : Env) (l : Leaf) : Prop := Str4QQ C E l ∨ XLeafW QuoteValue l

theorem leafSpec_plain4QQ {C : String → Prop} (hC : ∀ u v, C u → C v → strIn u v = true ∨ strIn v u = true)
    {E : Env} {ex : List String} (hX : E.extras = some ex) : LeafSpec (leafEval E) (Plain4QQ C E) := by
  refine LeafSpec.or (leafSpec_str4QQ hC E) (leafSpec_extraW mkExtraOKW_quote hX) ?_
  intro a b ha hb
  obtain ⟨hx, hp, _⟩ := str4Leaf_view ha
  have hb' := xLeaf_name hb.1
  obtain ⟨p1, p2⟩ := isPyName_false hp
  refine ⟨?_, ?_, ?_⟩
  · rw [hb']; simpa using hx
  · simp [pyPair, p1, p2]
  · simp [pyPair, p1, p2]

theorem plain4QQ_name {C : String → Prop} {E : Env} {l : Leaf} (h : Plain4QQ C E l) :
    l.name = "extra" ∨ l.name ∈ plainStringVars := by
  rcases h with h | h
  · exact Or.inr (str4Leaf_view h).2.2.1
  · exact Or.inl (xLeaf_name h.1)

theorem plain4QQ_evaluable {C : String → Prop} {E : Env} {ex : List String} (hX : E.extras = some ex) {l : Leaf}
    (h : Plain4QQ C E l) : ∃ b, l.validate E = .ok b := by
  rcases h with h | h
  · exact str4Leaf_evaluable h
  · exact xLeaf_evaluable mkExtraOKW_quote hX h

theorem printOK_plain4QQ {C : String → Prop} {E : Env} {ex : List String} (hX : E.extras = some ex) :
    ∀ l, Plain4QQ C E l → LeafPrintOK (leafEval E) (Plain4QQ C E) l := by
  intro l hl
  rcases hl with hl | hl
  · exact (printOK_str4QQ l hl).mono (fun l h => Or.inl h)
  · exact (printOK_extraQ hX hl).mono (fun l h => Or.inr h)

theorem lexableQ_plain4QQ {C : String → Prop} {E : Env} : ∀ l, Plain4QQ C E l → Leaf.LexableQ l := by
  intro l hl
  rcases hl with hl | hl
  · exact lexableQ_str4QQ l hl
  · exact lexableQ_q (E := E) l (Or.inr hl)

/-! ### the printable domain with lists on both python variables -/

/-- four-operator strings, `extra` (`==` / `!=` values that may hold a double quote), `python_version` with the seven
operators and lists, `python_full_version` with the seven operators and lists -/
def FullQQ (C : String → Prop) (E : Env) (l : Leaf) : Prop := Plain4QQ C E l ∨ PyLeafLL l

theorem leafSpec_fullQQ {C : String → Prop} (hC : ∀ u v, C u → C v → strIn u v = true ∨ strIn v u = true)
    {E : Env} {ex : List String} (hX : E.extras = some ex) {X Y Z : Nat} (hE : EnvPy E X Y Z) :
    LeafSpec (leafEval E) (FullQQ C E) := by
  refine LeafSpec.or (leafSpec_plain4QQ hC hX) (leafSpec_pyLL hE) ?_
  intro a b ha hb
  have hb' := pyLeafLL_name hb
  rcases plain4QQ_name ha with h | h
  · rcases hb' with hb' | hb' <;> (rw [pyPair, pyPair, h, hb']; decide)
  · simp only [plainStringVars, List.mem_cons, List.mem_nil_iff, or_false] at h
    rcases hb' with hb' | hb' <;>
      rcases h with h | h | h | h | h | h | h <;> (rw [pyPair, pyPair, h, hb']; decide)

theorem printOK_fullQQ {C : String → Prop} {E : Env} {ex : List String} (hX : E.extras = some ex) :
    ∀ l, FullQQ C E l → LeafPrintOK (leafEval E) (FullQQ C E) l := by
  intro l hl
  rcases hl with hl | hl
  · exact (printOK_plain4QQ hX l hl).mono (fun l h => Or.inl h)
  · exact (printOK_pyLL l hl).mono (fun l h => Or.inr h)

theorem lexableQ_fullQQ {C : String → Prop} {E : Env} : ∀ l, FullQQ C E l → Leaf.LexableQ l := by
  intro l hl
  rcases hl with hl | hl
  · exact lexableQ_plain4QQ l hl
  · exact (lexable_pyLL l hl).toQ

theorem fullQQ_evaluable {C : String → Prop} {E : Env} {ex : List String} (hX : E.extras = some ex) {X Y Z : Nat}
    (hE : EnvPy E X Y Z) {l : Leaf} (h : FullQQ C E l) : ∃ b, l.validate E = .ok b := by
  rcases h with h | h
  · exact plain4QQ_evaluable hX h
  · exact pyLeafLL_evaluable hE h

/-- the quotable domain is part of it -/
theorem fullQLL_fullQQ {C : String → Prop} {E : Env} {l : Leaf} (h : FullQLL C E l) : FullQQ C E l := by
  rcases h with (h | h) | h
  · refine Or.inl (Or.inl ?_)
    rcases h with h | h
    · exact Or.inl ⟨h.1, h.2.1, fun x hx => (h.2.2 x hx).quote⟩
    · exact Or.inr h
  · exact Or.inl (Or.inr ⟨h.1, fun x hx => (h.2 x hx).quote⟩)
  · exact Or.inr h

/-! ### the four-operator fragment, reversed-operand literals with quotes -/

/-- string leaves with the four operators, all values may hold a double quote -/
def Str4QR (C : String → Prop) (E : Env) (l : Leaf) : Prop := Str4LeafT GTok QuoteValue ValOkQ C E l

theorem leafSpec_str4QR {C : String → Prop} (hC : ∀ u v, C u → C v → strIn u v = true ∨ strIn v u = true)
    (E : Env) : LeafSpec (leafEval E) (Str4QR C E) := leafSpec_str4K (T := GTok) (mkAtomOKW_quote E) hC

theorem printOK_str4QR {C : String → Prop} {E : Env} : ∀ l, Str4QR C E l → LeafPrintOK (leafEval E) (Str4QR C E) l := by
  intro l hl
  have hl' := hl
  rcases hl with hl | ⟨n, ops, gop, v, hop, hn, hv, hq, hev, hC, rfl⟩
  · exact (printOK_strQ hl).mono (fun l h => Or.inl h)
  · obtain ⟨hn1, hn2⟩ := plainStringVars_facts n hn
    refine leafPrintOK_single hl' ?_
    have := mkSingle_revQ n v hn1 hv ops gop hop
    rw [hn2] at this
    exact this

theorem lexableQ_str4QR {C : String → Prop} {E : Env} : ∀ l, Str4QR C E l → Leaf.LexableQ l := by
  intro l hl
  rcases hl with hl | ⟨n, ops, gop, v, hop, hn, hv, hq, hev, hC, rfl⟩
  · exact lexableQ_q (E := E) l (Or.inl hl)
  · exact leafLexableQ_single (plainStringVars_names' hn) (inOps_ops hop) hq

/-- four-operator strings and `extra`, all values may hold a double quote -/
def Plain4QR (C : String → Prop) (E : Env) (l : Leaf) : Prop := Str4QR C E l ∨ XLeafW QuoteValue l

theorem leafSpec_plain4QR {C : String → Prop} (hC : ∀ u v, C u → C v → strIn u v = true ∨ strIn v u = true)
    {E : Env} {ex : List String} (hX : E.extras = some ex) : LeafSpec (leafEval E) (Plain4QR C E) := by
  refine LeafSpec.or (leafSpec_str4QR hC E) (leafSpec_extraW mkExtraOKW_quote hX) ?_
  intro a b ha hb
  obtain ⟨hx, hp, _⟩ := str4Leaf_view ha
  have hb' := xLeaf_name hb.1
  obtain ⟨p1, p2⟩ := isPyName_false hp
  refine ⟨?_, ?_, ?_⟩
  · rw [hb']; simpa using hx
  · simp [pyPair, p1, p2]
  · simp [pyPair, p1, p2]

theorem plain4QR_name {C : String → Prop} {E : Env} {l : Leaf} (h : Plain4QR C E l) :
    l.name = "extra" ∨ l.name ∈ plainStringVars := by
  rcases h with h | h
  · exact Or.inr (str4Leaf_view h).2.2.1
  · exact Or.inl (xLeaf_name h.1)

theorem plain4QR_evaluable {C : String → Prop} {E : Env} {ex : List String} (hX : E.extras = some ex) {l : Leaf}
    (h : Plain4QR C E l) : ∃ b, l.validate E = .ok b := by
  rcases h with h | h
  · exact str4Leaf_evaluable h
  · exact xLeaf_evaluable mkExtraOKW_quote hX h

theorem printOK_plain4QR {C : String → Prop} {E : Env} {ex : List String} (hX : E.extras = some ex) :
    ∀ l, Plain4QR C E l → LeafPrintOK (leafEval E) (Plain4QR C E) l := by
  intro l hl
  rcases hl with hl | hl
  · exact (printOK_str4QR l hl).mono (fun l h => Or.inl h)
  · exact (printOK_extraQ hX hl).mono (fun l h => Or.inr h)

theorem lexableQ_plain4QR {C : String → Prop} {E : Env} : ∀ l, Plain4QR C E l → Leaf.LexableQ l := by
  intro l hl
  rcases hl with hl | hl
  · exact lexableQ_str4QR l hl
  · exact lexableQ_q (E := E) l (Or.inr hl)

/-! ### the printable domain, reversed-operand literals with quotes -/

/-- four-operator strings, `extra` (all values may hold a double quote), `python_version` with the seven
operators and lists, `python_full_version` with the seven operators and lists -/
def FullQR (C : String → Prop) (E : Env) (l : Leaf) : Prop := Plain4QR C E l ∨ PyLeafLL l

theorem leafSpec_fullQR {C : String → Prop} (hC : ∀ u v, C u → C v → strIn u v = true ∨ strIn v u = true)
    {E : Env} {ex : List String} (hX : E.extras = some ex) {X Y Z : Nat} (hE : EnvPy E X Y Z) :
    LeafSpec (leafEval E) (FullQR C E) := by
  refine LeafSpec.or (leafSpec_plain4QR hC hX) (leafSpec_pyLL hE) ?_
  intro a b ha hb
  have hb' := pyLeafLL_name hb
  rcases plain4QR_name ha with h | h
  · rcases hb' with hb' | hb' <;> (rw [pyPair, pyPair, h, hb']; decide)
  · simp only [plainStringVars, List.mem_cons, List.mem_nil_iff, or_false] at h
    rcases hb' with hb' | hb' <;>
      rcases h with h | h | h | h | h | h | h <;> (rw [pyPair, pyPair, h, hb']; decide)

theorem printOK_fullQR {C : String → Prop} {E : Env} {ex : List String} (hX : E.extras = some ex) :
    ∀ l, FullQR C E l → LeafPrintOK (leafEval E) (FullQR C E) l := by
  intro l hl
  rcases hl with hl | hl
  · exact (printOK_plain4QR hX l hl).mono (fun l h => Or.inl h)
  · exact (printOK_pyLL l hl).mono (fun l h => Or.inr h)

theorem lexableQ_fullQR {C : String → Prop} {E : Env} : ∀ l, FullQR C E l → Leaf.LexableQ l := by
  intro l hl
  rcases hl with hl | hl
  · exact lexableQ_plain4QR l hl
  · exact (lexable_pyLL l hl).toQ

theorem fullQR_evaluable {C : String → Prop} {E : Env} {ex : List String} (hX : E.extras = some ex) {X Y Z : Nat}
    (hE : EnvPy E X Y Z) {l : Leaf} (h : FullQR C E l) : ∃ b, l.validate E = .ok b := by
  rcases h with h | h
  · exact plain4QR_evaluable hX h
  · exact pyLeafLL_evaluable hE h

/-- the domain with quote-free reversed-operand literals is part of it -/
theorem fullQQ_fullQR {C : String → Prop} {E : Env} {l : Leaf} (h : FullQQ C E l) : FullQR C E l := by
  rcases h with (h | h) | h
  · refine Or.inl (Or.inl ?_)
    rcases h with h | ⟨n, ops, gop, v, hop, hn, hv, hq, hev, hC, rfl⟩
    · exact Or.inl h
    · exact Or.inr ⟨n, ops, gop, v, hop, hn, hv.gTok, Or.inl hq, hev, hC, rfl⟩
  · exact Or.inl (Or.inr h)
  · exact Or.inr h

end Poetry.Marker
