/-
Inversion on the python leaves: `python_version <op> "X.Y"` and `python_full_version <op> "X.Y.Z"` with the six
comparison operators.  `invert()` re-parses the leaf's text with the flipped operator (`==`↔`!=`, `<`↔`>=`,
`<=`↔`>`); the flipped clause is the complement at every final release (C05's bound semantics).
-/
import PoetryVerif.Proofs.MarkerAlgSoundPfv

set_option linter.unusedSimpArgs false
set_option linter.unusedVariables false

namespace Poetry.Marker
open Poetry Poetry.Version

/-- operator, its text, the operator `invert` flips it to, and that operator's text -/
def flipOps : List (Spec.SOp × String × Spec.SOp × String) :=
  [(.eq, "==", .ne, "!="), (.ne, "!=", .eq, "=="),
   (.lt, "<", .ge, ">="), (.le, "<=", .gt, ">"), (.gt, ">", .le, "<="), (.ge, ">=", .lt, "<")]

theorem flip_facts {sop ops sop' ops'} (h : (sop, ops, sop', ops') ∈ flipOps) :
    (sop, ops) ∈ pvOps ∧ (sop', ops') ∈ pvOps ∧ invertOp? ops = some ops' ∧ ops' ∈ Marker.ops ∧
    (ops == "~=") = false ∧ ops' ≠ "<special>" ∧ (sop', ops', sop, ops) ∈ flipOps := by
  simp only [flipOps, List.mem_cons, List.mem_nil_iff, or_false, Prod.mk.injEq] at h
  rcases h with ⟨rfl, rfl, rfl, rfl⟩ | ⟨rfl, rfl, rfl, rfl⟩ | ⟨rfl, rfl, rfl, rfl⟩ | ⟨rfl, rfl, rfl, rfl⟩ |
      ⟨rfl, rfl, rfl, rfl⟩ | ⟨rfl, rfl, rfl, rfl⟩ <;>
    refine ⟨by decide, by decide, by decide, by decide, by decide, by decide, by decide⟩

theorem pvOps_flip {sop ops} (h : (sop, ops) ∈ pvOps) : ∃ sop' ops', (sop, ops, sop', ops') ∈ flipOps := by
  simp only [pvOps, List.mem_cons, List.mem_nil_iff, or_false, Prod.mk.injEq] at h
  rcases h with ⟨rfl, rfl⟩ | ⟨rfl, rfl⟩ | ⟨rfl, rfl⟩ | ⟨rfl, rfl⟩ | ⟨rfl, rfl⟩ | ⟨rfl, rfl⟩
  · exact ⟨.ne, "!=", by decide⟩
  · exact ⟨.eq, "==", by decide⟩
  · exact ⟨.ge, ">=", by decide⟩
  · exact ⟨.gt, ">", by decide⟩
  · exact ⟨.le, "<=", by decide⟩
  · exact ⟨.lt, "<", by decide⟩

/-- `invert()` of a `python_version` leaf is the leaf with the flipped operator -/
theorem invert_pv {sop ops sop' ops'} (h : (sop, ops, sop', ops') ∈ flipOps) (a b : Nat) :
    Leaf.invert (.single (pvLeafOf sop ops a b)) = .ok (.leaf (.single (pvLeafOf sop' ops' a b))) := by
  obtain ⟨_, h2, hinv, hops, htilde, hsp, _⟩ := flip_facts h
  have h1 : Leaf.invert (.single (pvLeafOf sop ops a b)) =
      parseItemMarker (leafText "python_version" ops' (Version.relText [a, b]) false) := by
    simp only [Leaf.invert, pvLeafOf, htilde, Bool.false_eq_true, if_false, invertSimple, hinv, invertedLeafText]
  rw [h1, parseItemMarker_leafText _ _ _ false (by decide) hops (relText_valOk a [b])]
  simp only [itemConstraintString, Bool.false_eq_true, if_false, mkSingle_pvLeaf h2 a b]

/-- `invert()` of a `python_full_version` leaf is the leaf with the flipped operator -/
theorem invert_pfv3 {sop ops sop' ops'} (h : (sop, ops, sop', ops') ∈ flipOps) (a b c : Nat) :
    Leaf.invert (.single (pfvLeafOf sop ops a [b, c])) = .ok (.leaf (.single (pfvLeafOf sop' ops' a [b, c]))) := by
  obtain ⟨_, h2, hinv, hops, htilde, hsp, _⟩ := flip_facts h
  have h1 : Leaf.invert (.single (pfvLeafOf sop ops a [b, c])) =
      parseItemMarker (leafText "python_full_version" ops' (Version.relText [a, b, c]) false) := by
    simp only [Leaf.invert, pfvLeafOf, htilde, Bool.false_eq_true, if_false, invertSimple, hinv, invertedLeafText]
  rw [h1, parseItemMarker_leafText _ _ _ false (by decide) hops (relText_valOk a [b, c])]
  simp only [itemConstraintString, Bool.false_eq_true, if_false, mkSingle_pfvLeaf h2 a [b, c]]
  rfl

/-- the flipped clause is the complement on regular probes -/
theorem pvClause_complement {sop ops sop' ops'} (h : (sop, ops, sop', ops') ∈ flipOps) (V p : Version)
    (hV : V.wf = true) (hp : p.wf = true) (hreg : Reg1 p V) :
    (pvClause sop' V).allowsPlain p = !(pvClause sop V).allowsPlain p := by
  have hl := fun b => lower_allows V p b hV hp hreg
  have hu := fun b => upper_allows V p b hV hp hreg
  have hv := RC.ver_allows_iff V p hV hp hreg
  simp only [flipOps, List.mem_cons, List.mem_nil_iff, or_false, Prod.mk.injEq] at h
  rcases h with ⟨rfl, rfl, rfl, rfl⟩ | ⟨rfl, rfl, rfl, rfl⟩ | ⟨rfl, rfl, rfl, rfl⟩ | ⟨rfl, rfl, rfl, rfl⟩ |
      ⟨rfl, rfl, rfl, rfl⟩ | ⟨rfl, rfl, rfl, rfl⟩ <;>
    (simp only [pvClause, ineqRange, VC.allowsPlain, VC.flatten, List.any_cons, List.any_nil, Bool.or_false, RC.allows]
     rw [Bool.eq_iff_iff]
     simp only [Bool.or_eq_true, Bool.not_eq_true', ← Bool.not_eq_true, hl, hu, hv, if_true, if_false,
       Bool.false_eq_true, not_or, not_lt, not_le] <;>
     first
      | exact not_lt.symm
      | exact not_le.symm
      | exact ⟨fun h => by rcases h with h | h; exact ne_of_lt h; exact fun e => (ne_of_lt h) e.symm,
          fun h => lt_or_gt_of_ne h⟩
      | exact ⟨fun h => by rw [h]; exact ⟨le_refl _, le_refl _⟩, fun h => le_antisymm h.2 h.1⟩)

/-- **inverting a `python_version` leaf is sound** -/
theorem invOK_pv {E : Env} {X Y : Nat} (hE : E.get? "python_version" = some (Version.relText [X, Y]))
    {sop ops} (h : (sop, ops) ∈ pvOps) (a b : Nat) :
    InvOK (leafEval E) PvLeaf (.single (pvLeafOf sop ops a b)) := by
  obtain ⟨sop', ops', hf⟩ := pvOps_flip h
  obtain ⟨_, h2, _⟩ := flip_facts hf
  intro res hi
  rw [invert_pv hf a b] at hi; cases hi
  refine ⟨(M.good_leaf _).2 ⟨sop', ops', a, b, h2, rfl⟩, ?_⟩
  rw [M.sem_leaf]
  have hc := pvClause_complement hf (litV a [b]) (pvProbe X Y) (litV_wf a [b]) (litV_wf X [Y])
    (reg1_final [X, Y] (pb2 a b))
  simpa [leafEval, pvLeaf_eval hE h2 a b, pvLeaf_eval hE h a b] using hc

/-- **inverting a `python_full_version` leaf is sound** -/
theorem invOK_pfv3 {E : Env} {X : Nat} {R : List Nat}
    (hE : E.get? "python_full_version" = some (Version.relText (X :: R)))
    {sop ops} (h : (sop, ops) ∈ pvOps) (a b c : Nat) :
    InvOK (leafEval E) Pfv3Leaf (.single (pfvLeafOf sop ops a [b, c])) := by
  obtain ⟨sop', ops', hf⟩ := pvOps_flip h
  obtain ⟨_, h2, _⟩ := flip_facts hf
  intro res hi
  rw [invert_pfv3 hf a b c] at hi; cases hi
  refine ⟨(M.good_leaf _).2 ⟨sop', ops', a, b, c, h2, rfl⟩, ?_⟩
  rw [M.sem_leaf]
  have hc := pvClause_complement hf (litV a [b, c]) (litV X R) (litV_wf a [b, c]) (litV_wf X R)
    (reg1_final (X :: R) (pb [a, b, c]))
  simpa [leafEval, pfv3_eval hE h2 a b c, pfv3_eval hE h a b c] using hc

theorem invOK_py {E : Env} {X Y Z : Nat} (hE : EnvPy E X Y Z) {l : Leaf} (h : PyLeaf l) :
    InvOK (leafEval E) PyLeaf l := by
  rcases h with ⟨sop, ops, a, b, hm, rfl⟩ | ⟨sop, ops, a, b, c, hm, rfl⟩
  · exact (invOK_pv hE.1 hm a b).mono (fun l hl => Or.inl hl)
  · exact (invOK_pfv3 hE.2 hm a b c).mono (fun l hl => Or.inr hl)

/-! ### inversion on the full comparison-operator domain -/

/-- quotable string / `extra` leaves together with the python leaves -/
def FullInvLeaf (E : Env) (l : Leaf) : Prop := InvLeaf E l ∨ PyLeaf l

/-- leaves of that domain that are ready to be inverted -/
def FullInvReady (E : Env) (l : Leaf) : Prop := InvReady E l ∨ PyLeaf l

theorem pyLeaf_name {l : Leaf} (h : PyLeaf l) : l.name = "python_version" ∨ l.name = "python_full_version" := by
  rcases h with h | h
  · exact Or.inl (pvLeaf_name h)
  · exact Or.inr (pfv3_name h)

theorem leafSpec_fullInv {E : Env} {ex : List String} (hX : E.extras = some ex) {X Y Z : Nat} (hE : EnvPy E X Y Z)
    (HP : PairSound (leafEval E) PvLeaf Pfv3Leaf) : LeafSpec (leafEval E) (FullInvLeaf E) := by
  refine LeafSpec.or (leafSpec_inv hX) (leafSpec_py hE HP) ?_
  intro a b ha hb
  have hb' := pyLeaf_name hb
  rcases invLeaf_name ha with h | h
  · rcases hb' with hb' | hb' <;> (rw [pyPair, pyPair, h, hb']; decide)
  · simp only [plainStringVars, List.mem_cons, List.mem_nil_iff, or_false] at h
    rcases hb' with hb' | hb' <;>
      rcases h with h | h | h | h | h | h | h <;> (rw [pyPair, pyPair, h, hb']; decide)

/-- **`invert` preserves truth on the full comparison-operator domain** (relative to the pairing) -/
theorem M.invert_sound_full {E : Env} {ex : List String} (hX : E.extras = some ex) {X Y Z : Nat}
    (hE : EnvPy E X Y Z) (HP : PairSound (leafEval E) PvLeaf Pfv3Leaf) {a r : M}
    (ha : M.Good (FullInvReady E) a) (h : M.invert a = .ok r) :
    M.Good (FullInvLeaf E) r ∧ M.sem (leafEval E) r = !M.sem (leafEval E) a := by
  refine M.invert_sound_on (leafSpec_fullInv hX hE HP) a r (M.good_mono ?_ a ha) h
  intro l hl
  rcases hl with hl | hl
  · obtain ⟨g, ok⟩ := invReady_ok hX hl
    exact ⟨Or.inl g, ok.mono (fun l hl => Or.inl hl)⟩
  · exact ⟨Or.inr hl, (invOK_py hE hl).mono (fun l hl => Or.inr hl)⟩

theorem fullInvLeaf_evaluable {E : Env} {ex : List String} (hX : E.extras = some ex) {X Y Z : Nat}
    (hE : EnvPy E X Y Z) {l : Leaf} (h : FullInvLeaf E l) : ∃ b, l.validate E = .ok b := by
  rcases h with h | h
  · exact invLeaf_evaluable hX h
  · exact pyLeaf_evaluable hE h

end Poetry.Marker
