/-
C02's composition on the domain where C07's leaf specification is PROVED (`FullLeafLLs E`: plain string variables,
`extra`, `python_version` / `python_full_version` with a comparison operator, `~=` or an `in` / `not in` list): the
marker `Factory.create_dependency` computes means the declared conditions, with domain conditions only.
-/
import PoetryVerif.Proofs.Dep02
import PoetryVerif.Proofs.PyConvFullLL
import PoetryVerif.Proofs.PyConvFullNested

set_option linter.unusedSimpArgs false
set_option linter.unusedVariables false

namespace Poetry.Dep02
open Poetry Poetry.Marker Poetry.Dep Poetry.Spec.Pep508

variable {E : Env}

/-- the text is empty or parses to a tree of C06's proved domain on `E` (`agree`, `coh`) whose items build leaves of
`FullLeafLLs E` — a condition on the text alone -/
def TextDomLL (E : Env) (txt : String) : Prop :=
  txt.isEmpty = true ∨ ∃ syn, parseText txt = .ok syn ∧ syn.agree E ∧ syn.coh = true ∧ SynItems (FullLeafLLs E) syn

/-- `parse_marker` of a text of the domain: a marker of `FullLeafLLs E` with the reference's value — no hypothesis -/
theorem parseMarker_sem_LL {ex : List String} (hX : E.extras = some ex) {X Y Z : Nat} (hE : EnvPy E X Y Z)
    (txt : String) (b : Bool) (m : M) (ha : TextDomLL E txt) (hr : refEval E txt = some b)
    (hm : parseMarker txt = .ok m) : M.Good (FullLeafLLs E) m ∧ M.sem (leafEval E) m = b := by
  have S := leafSpec_fullLLs hX hE
  unfold refEval at hr
  rcases ha with he | ⟨syn, hp, hag, hco, hit⟩
  · simp only [he, if_true, Option.some.injEq] at hr
    have : txt = "" := by simpa [String.isEmpty_iff] using he
    subst this
    simp [parseMarker] at hm
    subst hm; subst hr; simp
  · have he' : txt.isEmpty = false := by
      cases h : txt.isEmpty with
      | false => rfl
      | true =>
        have : txt = "" := by simpa [String.isEmpty_iff] using h
        rw [this, parseText_empty] at hp; cases hp
    simp only [he', Bool.false_eq_true, if_false, hp] at hr
    have h1 : (txt == "<empty>") = false := by
      cases h : txt == "<empty>" with
      | false => rfl
      | true =>
        have : txt = "<empty>" := by simpa using h
        subst this
        have : parseText "<empty>" = .error .syntax := rfl
        rw [this] at hp; cases hp
    have h2 : (txt == "*") = false := by
      cases h : txt == "*" with
      | false => rfl
      | true =>
        have : txt = "*" := by simpa using h
        subst this
        have : parseText "*" = .error .syntax := rfl
        rw [this] at hp; cases hp
    simp only [parseMarker, h1, he', h2, Bool.false_eq_true, if_false, Bool.or_false, hp, bind, Except.bind] at hm
    split at hm
    · cases hm
    · rename_i subs hs
      have hca := compactSub_agree_gen E S (fun l hl => fullLeafLLs_evaluable hX hE hl) syn subs b hs hit hag hco hr
      have := unionF_sound S hca.1 hm
      exact ⟨this.1, by rw [this.2, hca.2]⟩

/-- the declared python range, in C11's domain with bounds of two or three components -/
def PyDecl2 (o : Option String) (X Y Z : Nat) (b : Bool) : Prop :=
  if truthy o then ∃ c, VParser.parseConstraint (o.getD "") = .ok c ∧ PyDomVC c = true ∧ PyPrec2 c ∧
      b = c.allowsPlain (pyV X Y Z)
  else b = true

def MarkersDomLL (E : Env) (o : Option String) : Prop := truthy o = true → TextDomLL E (o.getD "")

def PlatformDomLL (E : Env) (o : Option String) : Prop :=
  truthy o = true → ∀ gc txt, Generic.parseConstraint (o.getD "") = .ok gc →
    (if gc.isAny then pure "" else nestedGC "sys_platform" gc) = .ok txt → TextDomLL E txt

theorem fullLeaf_LLs {l : Leaf} (h : FullLeaf E l) : FullLeafLLs E l := fullLeafLs_LLs (fullLeafC_Ls (fullLeaf_C h))

/-- **the marker `create_dependency` computes means the declared conditions — domain conditions only** -/
theorem declMarker_sem_LL {ex : List String} (hX : E.extras = some ex) {X Y Z : Nat} (hE : EnvPy E X Y Z) (D : Decl)
    (bM bPy bPl : Bool) (m : M) (hM : declRef E D.markers = some bM) (hMa : MarkersDomLL E D.markers)
    (hPy : PyDecl2 D.python X Y Z bPy) (hPl : PlatformDecl E D.platform bPl) (hPa : PlatformDomLL E D.platform)
    (h : declMarker D = .ok m) :
    M.Good (FullLeafLLs E) m ∧ M.sem (leafEval E) m = (bM && bPy && bPl) := by
  have S := leafSpec_fullLLs hX hE
  unfold declMarker at h
  cases h0 : stepMarkers D.markers with
  | error e => simp [h0, bind, Except.bind] at h
  | ok m0 =>
    simp only [h0, bind, Except.bind] at h
    cases h1 : stepPython m0 D.python with
    | error e => simp [h1] at h
    | ok m1 =>
      simp only [h1] at h
      have s0 : M.Good (FullLeafLLs E) m0 ∧ M.sem (leafEval E) m0 = bM := by
        unfold stepMarkers at h0
        unfold declRef at hM
        by_cases ht : truthy D.markers = true
        · simp only [ht, if_true] at h0 hM
          exact parseMarker_sem_LL hX hE _ bM m0 (hMa ht) hM h0
        · simp only [ht, Bool.false_eq_true, if_false, pure, Except.pure] at h0 hM
          cases h0; cases hM
          simp [M.Good, M.sem]
      have s1 : M.Good (FullLeafLLs E) m1 ∧ M.sem (leafEval E) m1 = (M.sem (leafEval E) m0 && bPy) := by
        unfold stepPython at h1
        unfold PyDecl2 at hPy
        by_cases ht : truthy D.python = true
        · simp only [ht, if_true] at h1 hPy
          obtain ⟨c, hc, hdom, hp2, hb⟩ := hPy
          simp only [hc, bind, Except.bind] at h1
          cases htx : createNestedMarker "python_version" c with
          | error e => simp [htx] at h1
          | ok txt =>
            simp only [htx] at h1
            cases hpm : parseMarker txt with
            | error e => simp [hpm] at h1
            | ok pm =>
              simp only [hpm] at h1
              have hp := createNested_full hX hE c hdom hp2 txt pm htx hpm
              have hpg : M.Good (FullLeafLLs E) pm := M.good_mono (fun l hl => fullLeaf_LLs hl) pm hp.1
              have := mIntersect_sound S s0.1 hpg h1
              exact ⟨this.1, by rw [this.2, hp.2, hb]⟩
        · simp only [ht, Bool.false_eq_true, if_false, pure, Except.pure] at h1 hPy
          cases h1
          subst hPy
          simp [s0.1]
      have s2 : M.Good (FullLeafLLs E) m ∧ M.sem (leafEval E) m = (M.sem (leafEval E) m1 && bPl) := by
        unfold stepPlatform at h
        unfold PlatformDecl at hPl
        by_cases ht : truthy D.platform = true
        · simp only [ht, if_true] at h hPl
          cases hg : Generic.parseConstraint (D.platform.getD "") with
          | error e => simp [hg, bind, Except.bind] at h
          | ok gc =>
            simp only [hg, bind, Except.bind] at h
            cases htx : (if gc.isAny then (pure "" : PyM String) else nestedGC "sys_platform" gc) with
            | error e => simp [htx] at h
            | ok txt =>
              simp only [htx] at h
              cases hpm : parseMarker txt with
              | error e => simp [hpm] at h
              | ok pm =>
                simp only [hpm] at h
                have hr := hPl gc txt hg htx
                have hp := parseMarker_sem_LL hX hE txt bPl pm (hPa ht gc txt hg htx) hr hpm
                have := mIntersect_sound S s1.1 hp.1 h
                exact ⟨this.1, by rw [this.2, hp.2]⟩
        · simp only [ht, Bool.false_eq_true, if_false, pure, Except.pure] at h hPl
          cases h
          subst hPl
          simp [s1.1]
      exact ⟨s2.1, by rw [s2.2, s1.2, s0.2]⟩

end Poetry.Dep02
