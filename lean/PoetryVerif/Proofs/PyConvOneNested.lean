/-
`create_nested_marker` then `parse_marker` and `validate` on a SECOND decidable domain (C11): ranges of `PyDomVC`
whose lower bounds are inclusive and upper bounds exclusive, all with one or two components (`>=3`, `^3`, `^3.8`,
`>=2.7,<3 || >=3.5,<4`), no lower bound `a.b` meeting an upper bound `a.(b+1)` anywhere in the constraint.  The
marker read back consists of leaves `python_version >= "L"` / `python_version < "H"` and validates, on every
environment of interpreter `X.Y.Z`, to exactly `allows(X.Y.Z)`.
-/
import PoetryVerif.Proofs.PyConvOneSpec

set_option linter.unusedSimpArgs false
set_option linter.unusedVariables false

namespace Poetry.Marker
open Poetry Poetry.Spec.Pep508

/-- the releases of the lower bounds of the ranges of `c` -/
def loLits (c : VC) (lit : List Nat) : Prop := ∃ r, RC.rng r ∈ c.flatten ∧ ∃ m, r.min = some m ∧ m.release = lit
/-- the releases of the upper bounds -/
def hiLits (c : VC) (lit : List Nat) : Prop := ∃ r, RC.rng r ∈ c.flatten ∧ ∃ m, r.max = some m ∧ m.release = lit

/-- the items `create_nested_marker` prints on the domain -/
def Q1 (Lo Hi : List Nat → Prop) : String → String → List Nat → Prop :=
  fun n op lit => n = "python_version" ∧ ((op = ">=" ∧ Lo lit) ∨ (op = "<" ∧ Hi lit)) ∧ lit.length ≤ 2

/-- lower bound inclusive, upper bound exclusive, at most two components -/
def oneRng (r : VRange) : Bool :=
  (match r.min with | none => true | some m => r.imin && decide (m.release.length ≤ 2)) &&
  (match r.max with | none => true | some M => !r.imax && decide (M.release.length ≤ 2))

def oneDomB (c : VC) : Bool :=
  c.flatten.all fun rc => match rc with
    | .ver _ => false
    | .rng r => oneRng r

/-- no lower bound `a.b` with an upper bound equal to `a.(b+1)` -/
def noAdjB (c : VC) : Bool :=
  c.flatten.all fun rc1 => c.flatten.all fun rc2 =>
    match rc1, rc2 with
    | .rng r1, .rng r2 =>
      (match r1.min, r2.max with
       | some m, some M =>
         (match m.release with
          | [a, b] => !(Version.eqv (finalV [a, b + 1]) M)
          | _ => true)
       | _, _ => true)
    | _, _ => true

/-- **the second decidable domain** -/
def nestedDomain1 (c : VC) : Bool := PyDomVC c && oneDomB c && noAdjB c

theorem pyBound_eq_litV {M : Version} (h : PyBound M = true) {a : Nat} {t : List Nat} (hr : M.release = a :: t) :
    M = litV a t := by
  obtain ⟨h1, h2, h3, h4, h5, ht, _⟩ := PyBound_parts h
  obtain ⟨ep, rel, pre, post, dev, loc, text⟩ := M
  simp only at h1 h2 h3 h4 h5 ht hr
  subst h1 h2 h3 h4 h5 hr
  subst ht
  rfl

mutual
theorem atomItems_one {Lo Hi : List Nat → Prop} : ∀ a : Atom, PyAtomQ (Q1 Lo Hi) a → AtomItems (OneG Lo Hi) a
  | .item n op v sw, h => by
    simp only [PyAtomQ] at h
    obtain ⟨rfl, lit, hn, hop, hne, _, hq, rfl⟩ := h
    obtain ⟨rfl, hq2, hlen⟩ := hq
    intro s hs'
    simp only [itemConstraintString, Bool.false_eq_true, if_false] at hs'
    obtain ⟨a, t, rfl, ht⟩ : ∃ a t, lit = a :: t ∧ t.length ≤ 1 := by
      match lit, hne, hlen with
      | a :: t, _, hl => exact ⟨a, t, rfl, by simpa using hl⟩
    rcases hq2 with ⟨rfl, hl⟩ | ⟨rfl, hl⟩
    · rw [mkSingle_geLeaf a t] at hs'
      cases hs'
      exact Or.inl ⟨a, t, ht, hl, rfl⟩
    · rw [mkSingle_ltLeaf a t] at hs'
      cases hs'
      exact Or.inr ⟨a, t, ht, hl, rfl⟩
  | .paren m, h => by
    simp only [AtomItems]
    exact synItems_one m (by simpa [PyAtomQ] using h)
theorem synItems_one {Lo Hi : List Nat → Prop} : ∀ s : Syn, PySynQ (Q1 Lo Hi) s → SynItems (OneG Lo Hi) s
  | .one a, h => by
    simp only [SynItems]
    exact atomItems_one a (by simpa [PySynQ] using h)
  | .more a _ rest, h => by
    simp only [PySynQ] at h
    exact ⟨atomItems_one a h.1, synItems_one rest h.2⟩
end


theorem rcBoundQ1 (c : VC) (hd : oneDomB c = true) (rc : RC) (hrc : rc ∈ c.flatten) :
    RCBoundQ (Q1 (loLits c) (hiLits c)) rc := by
  have h := List.all_eq_true.1 hd rc hrc
  cases rc with
  | ver v => simp at h
  | rng r =>
    simp only [oneRng, Bool.and_eq_true] at h
    refine ⟨?_, ?_⟩
    · intro m hm
      have h1 := h.1
      simp only [hm, Bool.and_eq_true, decide_eq_true_eq] at h1
      have hlo : ∀ lit, m.release = lit → loLits c lit := fun lit e => ⟨r, hrc, m, hm, e⟩
      refine ⟨?_, ?_, ?_⟩
      · intro a e; rw [if_pos h1.1]; exact ⟨rfl, Or.inl ⟨rfl, hlo _ e⟩, by simp⟩
      · intro a b e; rw [if_pos h1.1]; exact ⟨rfl, Or.inl ⟨rfl, hlo _ e⟩, by simp⟩
      · intro a b c' e; have := h1.2; rw [e] at this; simp at this
    · intro m hm
      have h2 := h.2
      simp only [hm, Bool.and_eq_true, Bool.not_eq_true', decide_eq_true_eq] at h2
      have hhi : ∀ lit, m.release = lit → hiLits c lit := fun lit e => ⟨r, hrc, m, hm, e⟩
      have hf : ¬ (r.imax = true) := by simp [h2.1]
      refine ⟨?_, ?_, ?_⟩
      · intro a e; rw [if_neg hf]; exact ⟨rfl, Or.inr ⟨rfl, hhi _ e⟩, by simp⟩
      · intro a b e; rw [if_neg hf]; exact ⟨rfl, Or.inr ⟨rfl, hhi _ e⟩, by simp⟩
      · intro a b c' e; have := h2.2; rw [e] at this; simp at this

theorem noAdj_of_check (c : VC) (hpb : ∀ rc ∈ c.flatten, ∀ e ∈ rc.bounds, PyBound e = true)
    (h : noAdjB c = true) : NoAdj (loLits c) (hiLits c) := by
  intro a b a' t' hlo hhi
  obtain ⟨r1, hr1, m, hm, em⟩ := hlo
  obtain ⟨r2, hr2, M, hM, eM⟩ := hhi
  have := List.all_eq_true.1 (List.all_eq_true.1 h _ hr1) _ hr2
  simp only [hm, hM, em, Bool.not_eq_true'] at this
  have hMb : PyBound M = true := hpb _ hr2 M (by simp [RC.bounds, RC.view, VRange.bounds, RC.min, RC.max, hM])
  rw [← pyBound_eq_litV hMb eM]
  exact this

theorem pyDomVC_bounds (c : VC) (hd : PyDomVC c = true) : ∀ rc ∈ c.flatten, ∀ e ∈ rc.bounds, PyBound e = true := by
  have key : ∀ rc : RC, rc.isAny = true ∨ PyDom rc = true → ∀ e ∈ rc.bounds, PyBound e = true := by
    intro rc h e he
    cases rc with
    | ver v =>
      rcases h with h | h
      · simp [RC.isAny] at h
      · simp only [PyDom, Bool.and_eq_true] at h
        simp [RC.bounds, RC.view, VRange.bounds, RC.min, RC.max] at he
        rcases he with rfl | rfl <;> exact h.1
    | rng r =>
      rcases h with h | h
      · simp only [RC.isAny, VRange.isAny, Bool.and_eq_true, Option.isNone_iff_eq_none] at h
        simp [RC.bounds, RC.view, VRange.bounds, RC.min, RC.max, h.1, h.2] at he
      · simp only [PyDom, PyRange, Bool.and_eq_true] at h
        simp only [RC.bounds, RC.view, VRange.bounds, RC.min, RC.max, List.mem_append, Option.mem_toList] at he
        rcases he with he | he
        · have := h.1.1; simpa [he] using this
        · have := h.1.2; simpa [he] using this
  cases c with
  | empty => simp [PyDomVC] at hd
  | single rc =>
    intro rc' hrc'
    simp only [VC.flatten, List.mem_cons, List.mem_nil_iff, or_false] at hrc'
    subst hrc'
    simp only [PyDomVC, Bool.or_eq_true] at hd
    exact key _ hd
  | union rs =>
    intro rc hrc
    simp only [PyDomVC, Bool.and_eq_true, List.all_eq_true] at hd
    exact key _ (Or.inr (hd.2 rc (by simpa [VC.flatten] using hrc)))

/-- the leaves of the second domain, without the bookkeeping of which literals occur -/
def OneCompLeaf (l : Leaf) : Prop := OneG (fun _ => True) (fun _ => True) l

theorem oneG_comp {Lo Hi : List Nat → Prop} {l : Leaf} (h : OneG Lo Hi l) : OneCompLeaf l := by
  rcases h with ⟨a, t, ht, _, rfl⟩ | ⟨a, t, ht, _, rfl⟩
  · exact Or.inl ⟨a, t, ht, trivial, rfl⟩
  · exact Or.inr ⟨a, t, ht, trivial, rfl⟩

/-- **`create_nested_marker` then `parse_marker` and `validate` on the second decidable domain** -/
theorem createNested_domain1 {E : Env} {X Y Z : Nat} (hE : EnvPy E X Y Z) (c : VC) (hdom : nestedDomain1 c = true)
    (txt : String) (m : M) (ht : createNestedMarker "python_version" c = .ok txt) (hm : parseMarker txt = .ok m) :
    M.Good OneCompLeaf m ∧ M.validate E m = .ok (c.allowsPlain (pyV X Y Z)) := by
  simp only [nestedDomain1, Bool.and_eq_true] at hdom
  obtain ⟨⟨hd, hone⟩, hadj⟩ := hdom
  have hN := noAdj_of_check c (pyDomVC_bounds c hd) hadj
  have S := leafSpec_oneG hN hE.1
  have hev : ∀ l, OneG (loLits c) (hiLits c) l → ∃ b, l.validate E = .ok b := fun l hl => oneG_evaluable hE.1 hl
  have key : M.Good (OneG (loLits c) (hiLits c)) m ∧ M.sem (leafEval E) m = c.allowsPlain (pyV X Y Z) := by
    obtain ⟨txt', ht', hcase⟩ := createNested_synQ (Q := Q1 (loLits c) (hiLits c)) E c hd
      (fun rc hrc => rcBoundQ1 c hone rc hrc) X Y Z hE
    rw [ht] at ht'; injection ht' with ht'; subst ht'
    rcases hcase with ⟨rfl, hall⟩ | ⟨hne, syn, hp, he, hpy⟩
    · simp [parseMarker] at hm; subst hm; simp [hall]
    · have h1 : (txt == "<empty>") = false := by
        cases h : txt == "<empty>" with
        | false => rfl
        | true =>
          have : txt = "<empty>" := by simpa using h
          subst this
          have : parseText "<empty>" = .error .syntax := rfl
          rw [this] at hp; cases hp
      have h2 : (txt == "*") = false := by
        cases h : txt == "*" with
        | false => rfl
        | true =>
          have : txt = "*" := by simpa using h
          subst this
          have : parseText "*" = .error .syntax := rfl
          rw [this] at hp; cases hp
      simp only [parseMarker, h1, hne, h2, Bool.false_eq_true, if_false, Bool.or_false, hp, bind, Except.bind] at hm
      split at hm
      · cases hm
      · rename_i subs hs
        obtain ⟨ha, hc⟩ := pySyn_agree E X Y Z hE syn hpy
        have hca := compactSub_agree_gen E S hev syn subs _ hs (synItems_one syn hpy) ha hc he
        have := unionF_sound S hca.1 hm
        exact ⟨this.1, by rw [this.2, hca.2]⟩
  exact ⟨M.good_mono (fun l hl => oneG_comp hl) m key.1,
    by rw [M.validate_eq_sem E m (M.good_mono (fun l hl => hev l hl) m key.1), key.2]⟩

end Poetry.Marker
