import PoetryVerif.Proofs.VRangeInterAt
import PoetryVerif.Proofs.VRangeInv

/-!
# `VersionRange.difference(VersionRange)` on every probe, for half-open ranges with unstable ends

`RC.DevDev`: a half-open range member (`>=m`, `<M`), bounds non-local, BOTH ends unstable (`X.dev0`, `X.rc1`, …).  The
class is closed under `difference` (the pieces are `[a.min, b.min)` and `[b.max, a.max)`), and on it the difference is
exact at EVERY well-formed probe — no regularity of the probe or of the bounds among themselves.  With a stable upper
end the statement is false (`adjacent-union-gap`: the piece above `b` starts at `b.max`, while `b` ends at
`b.max.dev0`).
-/

namespace Poetry

open VRange

/-- a half-open range member with non-local bounds and both ends unstable -/
def RC.DevDev (x : RC) : Prop := x.HalfOpenDev ∧ ∀ M, x.view.max = some M → M.isUnstable = true

namespace VRange

/-- with an unstable upper end the effective end is the written one -/
theorem denHi_iff_rawHi_unstable (r : VRange) (h : ∀ M, r.max = some M → M.isUnstable = true) (p : Version) :
    r.denHi p ↔ r.rawHi p := by
  unfold denHi rawHi allowedMax
  cases hM : r.max with
  | none => simp
  | some M => simp [h M hM]

theorem allowedMax_unstable (r : VRange) (h : ∀ M, r.max = some M → M.isUnstable = true) :
    r.allowedMax = r.max := by
  unfold allowedMax
  cases hM : r.max with
  | none => rfl
  | some M => simp [h M hM]

/-- a proper range that excludes an unstable upper end is inhabited -/
theorem NE_of_unstable_max {r : VRange} (hp : r.Proper) (h : ∀ M, r.max = some M → M.isUnstable = true) : r.NE := by
  unfold NE isStrictlyLower allowedMin
  rw [allowedMax_unstable r h]
  cases hM : r.max with
  | none => rfl
  | some M =>
    cases hm : r.min with
    | none => rfl
    | some m =>
      have := hp m M hm hM
      simp [(lt_false_iff M m).2 (le_of_lt this), (gt_iff M m).2 this]

end VRange

/-- members of the class answer `allows` by their written interval, on every probe -/
theorem RC.DevDev.allows_iff_sem {x : RC} (h : x.DevDev) (p : Version) (hp : p.wf = true) :
    x.allows p = true ↔ x.sem p := by
  obtain ⟨⟨r, rfl, hm, ho, _, _⟩, hM⟩ := h
  have fine : r.OKat p := ⟨fun m hm' => Or.inl (ho.1 m hm'), fun M hM' => Or.inl (ho.2 M hM')⟩
  have hwf : r.WF := hm.1
  show r.allows p = true ↔ r.raw p
  rw [VRange.allows_iff_den_at r p hwf.1 hp fine]
  unfold VRange.den VRange.raw
  rw [VRange.denHi_iff_rawHi_unstable r hM p]

/-- building a member of the class from its parts -/
theorem RC.DevDev.mk' (r : VRange) (hwf : r.WF) (ht : r.Tidy) (ho : r.HalfOpen)
    (hb : ∀ e ∈ r.bounds, e.isLocal = false ∧ e.isUnstable = true) : RC.DevDev (.rng r) := by
  have hM : ∀ M, r.max = some M → M.isUnstable = true := fun M h => (hb M (VRange.mem_bounds_max h)).2
  refine ⟨⟨r, rfl, ⟨hwf, ht, VRange.NE_of_unstable_max hwf.2 hM, ⟨r, rfl⟩⟩, ho, fun e he => (hb e he).1,
    fun m h => (hb m (VRange.mem_bounds_min h)).2⟩, hM⟩

theorem RC.DevDev.parts {r : VRange} (h : RC.DevDev (.rng r)) :
    r.WF ∧ r.Tidy ∧ r.HalfOpen ∧ ∀ e ∈ r.bounds, e.isLocal = false ∧ e.isUnstable = true := by
  obtain ⟨⟨r', e, hm, ho, hnl, hu⟩, hM⟩ := h
  cases e
  refine ⟨hm.1, hm.2.1, ho, fun e he => ⟨hnl e he, ?_⟩⟩
  simp only [VRange.bounds, List.mem_append, Option.mem_toList] at he
  rcases he with he | he
  · exact hu e he
  · exact hM e he

theorem RC.DevDev.wf_ne {x : RC} (h : x.DevDev) : x.WF ∧ x.NE := by
  obtain ⟨⟨r, rfl, hm, _⟩, _⟩ := h
  exact ⟨hm.1, hm.2.2.1⟩

namespace VRange

/-- on the class `allows_higher` agrees with the written upper ends -/
theorem endsConsistent_devdev {a b : VRange} (ha : RC.DevDev (.rng a)) (hb : RC.DevDev (.rng b)) :
    EndsConsistent a b := by
  obtain ⟨_, _, aho, ab⟩ := ha.parts
  obtain ⟨_, _, _, bb⟩ := hb.parts
  intro h x y hx hy
  unfold allowsHigher at h
  rw [allowedMax_unstable a (fun M hM => (ab M (mem_bounds_max hM)).2),
    allowedMax_unstable b (fun M hM => (bb M (mem_bounds_max hM)).2), hx, hy] at h
  simp only at h
  have hi : a.imax = false := aho.2 y hy
  rw [hi] at h
  left
  by_cases h1 : Version.lt y x = true
  · simp [h1] at h
  · by_cases h2 : Version.gt y x = true
    · exact (gt_iff y x).1 h2
    · simp [h1, h2] at h

/-- the piece of `a` below `b` stays in the class -/
theorem beforePiece_devdev {a b : VRange} (ha : RC.DevDev (.rng a)) (hb : RC.DevDev (.rng b)) {x : RC}
    (h : beforePiece a b = .ok (some x)) : x.DevDev := by
  obtain ⟨awf, atd, aho, ab⟩ := ha.parts
  obtain ⟨bwf, _, bho, bb⟩ := hb.parts
  obtain ⟨o, e, s⟩ := beforePiece_spec a b awf bwf atd
  rw [h] at e; cases e
  obtain ⟨xwf, xt, xb, _, _⟩ := s
  obtain ⟨hal, hsh⟩ := beforePiece_some h
  obtain ⟨y, hy⟩ := allowsLower_none_right hal
  rcases hsh with ⟨m, hm, rfl⟩ | rfl
  · exfalso
    by_cases he : vk m = vk y
    · have := (allowsLower_eq_flags hal hm hy he).2
      rw [bho.1 y hy] at this; cases this
    · unfold beforePiece at h
      simp [hal, hm, hy, optVerEq, eqv_false_iff, he] at h
  · refine RC.DevDev.mk' _ xwf xt ⟨fun m hm => aho.1 m hm, fun M hM => ?_⟩ ?_
    · have : b.imin = true := bho.1 M hM
      simp [this]
    · intro e he
      rcases xb e he with h1 | h1
      · exact ab e h1
      · exact bb e h1

/-- the piece of `a` above `b` stays in the class -/
theorem afterPiece_devdev {a b : VRange} (ha : RC.DevDev (.rng a)) (hb : RC.DevDev (.rng b)) {x : RC}
    (h : afterPiece a b = .ok (some x)) : x.DevDev := by
  obtain ⟨awf, atd, aho, ab⟩ := ha.parts
  obtain ⟨bwf, _, bho, bb⟩ := hb.parts
  have hec := endsConsistent_devdev ha hb
  obtain ⟨o, e, s⟩ := afterPiece_spec a b awf bwf atd hec
  rw [h] at e; cases e
  obtain ⟨xwf, xt, xb, _, _⟩ := s
  obtain ⟨hal, hsh⟩ := afterPiece_some h
  obtain ⟨y, hy⟩ := allowsHigher_none_right hal
  rcases hsh with ⟨M, hM, rfl⟩ | rfl
  · exfalso
    have hi : a.imax = false := aho.2 M hM
    rcases hec hal y M hy hM with hlt | ⟨_, h2, _⟩
    · have he : ¬ vk M = vk y := fun h' => by rw [h'] at hlt; exact lt_irrefl _ hlt
      unfold afterPiece at h
      simp [hal, hM, hy, optVerEq, eqv_false_iff, he] at h
    · rw [hi] at h2; cases h2
  · refine RC.DevDev.mk' _ xwf xt ⟨fun m hm => ?_, fun M hM => aho.2 M hM⟩ ?_
    · have : b.imax = false := bho.2 m hm
      simp [this]
    · intro e he
      rcases xb e he with h1 | h1
      · exact ab e h1
      · exact bb e h1

end VRange

end Poetry
