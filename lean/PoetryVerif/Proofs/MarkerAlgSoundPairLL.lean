/-
The python_version / python_full_version pairing of `_merge_single_markers` with LIST leaves on both sides:
`python_version` with the seven operators and `in` / `not in` lists of two-component versions against
`python_full_version` with the seven operators and `in` / `not in` lists of two- and three-component versions.

`PairCtxM` is the pairing structure `PairCtx` with the "text of the merged marker" fact split in two: a merged
single marker other than the converted operand is either a list marker (`in` / `not in`: returned as merged, no
rewriting) that is an admissible result, or a marker with known text that is rewritten and parsed again.
-/
import PoetryVerif.Proofs.MarkerAlgSoundListCtor
import PoetryVerif.Proofs.MarkerAlgSoundPfvLists

set_option linter.unusedSimpArgs false
set_option linter.unusedVariables false

namespace Poetry.Marker
open Poetry Poetry.Spec Poetry.Spec.Pep508 Poetry.VParser Poetry.Version Poetry.Generic

/-- the component facts of the pairing, list markers included -/
structure PairCtxM (ev : Leaf → Bool) (G Go F : Leaf → Prop) (T : Single → Prop) (NC : VC → Prop) (p : Version) :
    Prop where
  out : ∀ l, G l → Go l
  gpc : ∀ (vm : Single) (nc : VC), G (.single vm) → vm.name = "python_version" → gpcLeaf (.single vm) = .ok nc →
    NC nc ∧ nc.allowsPlain p = ev (.single vm)
  mkpfv : ∀ (nc : VC) (nm : Single), NC nc → mkSingleOfC "python_full_version" (.ver nc) = .ok nm →
    F (.single nm) ∧ ev (.single nm) = nc.allowsPlain p
  fm : ∀ (fm : Single), G (.single fm) → fm.name = "python_full_version" → F (.single fm)
  single : ∀ l, F l → ∃ s, l = .single s ∧ s.name = "python_full_version"
  congr : ∀ a b, F a → F b → Leaf.beq a b = true → ev a = ev b
  inner : ∀ (d : Nat) (nm fm : Single) (im : Bool) (mm : M), F (.single nm) → F (.single fm) →
    mergeSingle d (.single nm) (.single fm) im = .ok (some mm) →
    M.Good F mm ∧ M.sem ev mm = (if im then (ev (.single nm) && ev (.single fm)) else (ev (.single nm) || ev (.single fm)))
  leafOnly : ∀ (d : Nat) (nm fm : Single) (im : Bool) (mm : M), F (.single nm) → F (.single fm) →
    mergeSingle d (.single nm) (.single fm) im = .ok (some mm) → mm = .any ∨ mm = .empty ∨ ∃ l, mm = .leaf l
  /-- a merged single marker other than the converted operand: a list marker that is an admissible result (returned
  as merged), or a marker with known text (rewritten) -/
  text : ∀ (d : Nat) (nc : VC) (nm fm ms : Single) (im : Bool), NC nc →
    mkSingleOfC "python_full_version" (.ver nc) = .ok nm → G (.single fm) → fm.name = "python_full_version" →
    mergeSingle d (.single nm) (.single fm) im = .ok (some (.leaf (.single ms))) →
    Leaf.beq (.single ms) (.single nm) = false →
    ((ms.op == "in" || ms.op == "not in") = true ∧ Go (.single ms)) ∨
    ((ms.op == "in" || ms.op == "not in") = false ∧ T ms)
  rewrite : ∀ (ms : Single) (r : M), F (.single ms) → T ms → parseItemMarker (pyRewrite ms) = .ok r →
    M.Good Go r ∧ M.sem ev r = ev (.single ms)

section
variable {ev : Leaf → Bool} {G Go F : Leaf → Prop} {T : Single → Prop} {NC : VC → Prop} {p : Version}

/-- **`_merge_python_version_single_markers` is sound, list markers included**, given the component facts. -/
theorem mergePythonVersion_soundM (C : PairCtxM ev G Go F T NC p) (depth : Nat) (s1 s2 : Single) (im : Bool) (r : M)
    (h1 : G (.single s1)) (h2 : G (.single s2))
    (hpair : (s1.name = "python_version" ∧ s2.name = "python_full_version") ∨
             (s1.name = "python_full_version" ∧ s2.name = "python_version"))
    (h : mergePythonVersion depth s1 s2 im = .ok (some r)) :
    M.Good Go r ∧ M.sem ev r =
      (if im then (ev (.single s1) && ev (.single s2)) else (ev (.single s1) || ev (.single s2))) := by
  obtain ⟨vm, fm, hvf, hvm, hfm, hgv, hgf, hsem⟩ : ∃ vm fm,
      (if s1.name == "python_version" then (s1, s2) else (s2, s1)) = (vm, fm) ∧
      vm.name = "python_version" ∧ fm.name = "python_full_version" ∧ G (.single vm) ∧ G (.single fm) ∧
      (if im then (ev (.single s1) && ev (.single s2)) else (ev (.single s1) || ev (.single s2))) =
        (if im then (ev (.single vm) && ev (.single fm)) else (ev (.single vm) || ev (.single fm))) := by
    rcases hpair with ⟨a, b⟩ | ⟨a, b⟩
    · exact ⟨s1, s2, by simp [a], a, b, h1, h2, rfl⟩
    · refine ⟨s2, s1, by simp [a], b, a, h2, h1, ?_⟩
      cases im <;> simp [Bool.and_comm, Bool.or_comm]
  rw [hsem]
  rw [mergePythonVersion.eq_def] at h
  dsimp only at h
  rw [hvf] at h
  dsimp only at h
  obtain ⟨nc, hnc, h⟩ := bind_ok.1 h
  obtain ⟨nm, hnm, h⟩ := bind_ok.1 h
  obtain ⟨merged, hmerged, h⟩ := bind_ok.1 h
  obtain ⟨hNC, hncp⟩ := C.gpc vm nc hgv hvm hnc
  obtain ⟨hFnm, hevnm⟩ := C.mkpfv nc nm hNC hnm
  have hFfm := C.fm fm hgf hfm
  cases merged with
  | none => simp only [pure_ok] at h; cases h
  | some mm =>
    obtain ⟨hgmm, hsmm⟩ := C.inner depth nm fm im mm hFnm hFfm hmerged
    have hmean : M.sem ev mm =
        (if im then (ev (.single vm) && ev (.single fm)) else (ev (.single vm) || ev (.single fm))) := by
      rw [hsmm, hevnm, hncp]
    simp only at h
    by_cases hb : M.beq mm (.leaf (.single nm)) = true
    · rw [if_pos hb, pure_ok] at h
      cases h
      refine ⟨by simpa using C.out _ hgv, ?_⟩
      cases mm with
      | leaf l =>
        have hl : F l := by simpa using hgmm
        have := C.congr l (.single nm) hl hFnm (by simpa [M.beq] using hb)
        rw [← hmean, M.sem_leaf, M.sem_leaf, this, hevnm, hncp]
      | any => simp [M.beq] at hb
      | empty => simp [M.beq] at hb
      | multi xs => simp [M.beq] at hb
      | union xs => simp [M.beq] at hb
    · rw [if_neg hb] at h
      cases mm with
      | leaf l =>
        have hl : F l := by simpa using hgmm
        obtain ⟨ms, rfl, _⟩ := C.single l hl
        simp only at h
        rcases C.text depth nc nm fm ms im hNC hnm hgf hfm hmerged (by simpa [M.beq] using hb) with
          ⟨hop, hgo⟩ | ⟨hop, hT⟩
        · rw [if_pos hop, pure_ok] at h
          cases h
          exact ⟨by simpa using hgo, hmean⟩
        · rw [if_neg (by simp [hop])] at h
          obtain ⟨w, hw, h⟩ := bind_ok.1 h
          rw [pure_ok] at h
          obtain rfl : w = r := by simpa using h
          obtain ⟨hgw, hsw⟩ := C.rewrite ms w hl hT hw
          exact ⟨hgw, by rw [hsw, ← hmean, M.sem_leaf]⟩
      | any => simp only [pure_ok] at h; cases h; exact ⟨by simp [M.Good], hmean⟩
      | empty => simp only [pure_ok] at h; cases h; exact ⟨by simp [M.Good], hmean⟩
      | multi xs =>
        rcases C.leafOnly depth nm fm im _ hFnm hFfm hmerged with e | e | ⟨l, e⟩ <;> cases e
      | union xs =>
        rcases C.leafOnly depth nm fm im _ hFnm hFfm hmerged with e | e | ⟨l, e⟩ <;> cases e
end

/-- the leaves of the python pair, lists on both variables -/
def PyLeafLL (l : Leaf) : Prop := PvLeafL l ∨ PfvLeafL l

/-- the operators of a comparison / `~=` leaf are not list operators -/
theorem pfv3LeafC_notList {ms : Single} (h : Pfv3LeafC (.single ms)) :
    (ms.op == "in" || ms.op == "not in") = false := by
  rcases h with ⟨s, o, a', b', c', hm, he⟩ | ⟨a', b', c', he⟩
  · cases he
    simp only [pvOps, List.mem_cons, Prod.mk.injEq, List.mem_nil_iff, or_false] at hm
    rcases hm with ⟨_, rfl⟩ | ⟨_, rfl⟩ | ⟨_, rfl⟩ | ⟨_, rfl⟩ | ⟨_, rfl⟩ | ⟨_, rfl⟩ <;> simp only [pfvLeafOf] <;> decide
  · cases he
    simp only [pfvCompatOf]; decide

theorem pfvListLeaf_isList {ms : Single} (h : PfvListLeaf (.single ms)) :
    (ms.op == "in" || ms.op == "not in") = true := by
  obtain ⟨isIn, _, _, _, _, _, he⟩ := h
  cases he
  cases isIn <;> simp [listOp]

/-- printing, rewriting and re-parsing a merged comparison / `~=` marker keeps its meaning -/
theorem rewrite_pfv3C {E : Env} {X Y Z : Nat} (hE : EnvPy E X Y Z) (ms : Single) (r : M)
    (hT : Pfv3LeafC (.single ms)) (hr : parseItemMarker (pyRewrite ms) = .ok r) :
    M.Good PyLeafLL r ∧ M.sem (leafEval E) r = leafEval E (.single ms) := by
  rcases hT with ⟨s, o, a', b', c', hm, he⟩ | ⟨a', b', c', he⟩
  · cases he
    have := reparse_rewrite hm a' b' c' (pfvLeafOf s o a' [b', c']).c
    rw [show (⟨"python_full_version", o, Version.relText [a', b', c'], false, (pfvLeafOf s o a' [b', c']).c⟩ : Single) =
      pfvLeafOf s o a' [b', c'] from rfl, hr] at this
    injection this with this
    subst this
    by_cases hc : ((o == "<" || o == ">=") && c' == 0) = true
    · rw [if_pos hc]
      simp only [Bool.and_eq_true, Bool.or_eq_true, beq_iff_eq] at hc
      obtain ⟨hlg, rfl⟩ := hc
      refine ⟨by simp only [M.good_leaf]; exact Or.inl (Or.inl (Or.inl ⟨s, o, a', b', hm, rfl⟩)), ?_⟩
      rw [M.sem_leaf, pv_pfv_same hE hm hlg a' b']
      rfl
    · rw [if_neg hc]
      exact ⟨by simp only [M.good_leaf]; exact Or.inr (Or.inl (Or.inl ⟨s, o, a', b', c', hm, rfl⟩)), rfl⟩
  · cases he
    have := reparse_compat a' b' c' (pfvCompatOf a' b' c').c
    rw [show (⟨"python_full_version", "~=", Version.relText [a', b', c'], false, (pfvCompatOf a' b' c').c⟩ : Single) =
      pfvCompatOf a' b' c' from rfl, hr] at this
    injection this with this
    subst this
    exact ⟨by simp only [M.good_leaf]; exact Or.inr (Or.inl (Or.inr ⟨a', b', c', rfl⟩)), rfl⟩

/-- the conversion of a `python_version` leaf (seven operators or a list), and the constructor on it, over every
pad-closed list of Python bounds that holds the bounds `B0` of the conversion -/
theorem pvLeafL_conv {E : Env} {X Y Z : Nat} (hE : EnvPy E X Y Z) {vl : Leaf} (hv : PvLeafL vl) :
    ∃ (vm : Single) (nc : VC) (B0 : List Version), vl = .single vm ∧ vm.name = "python_version" ∧
      gpcLeaf (.single vm) = .ok nc ∧ nc.allowsPlain (pyV X Y Z) = leafEval E (.single vm) ∧
      (∀ e ∈ B0, PyBound e = true) ∧
      ∀ B : List Version, (∀ e ∈ B, PyBound e = true) → (∀ x r, litV x r ∈ B → litV x (padR r) ∈ B) →
        (∀ e ∈ B0, e ∈ B) → ∀ nm, mkSingleOfC "python_full_version" (.ver nc) = .ok nm →
          VerLeaf B "python_full_version" (.single nm) ∧ leafEval E (.single nm) = nc.allowsPlain (pyV X Y Z) := by
  rcases hv with (⟨sop, ops, a, b, hmem, rfl⟩ | ⟨a, b, rfl⟩) | ⟨isIn, p0, rest, res, hs, hres, rfl⟩
  · refine ⟨_, gpcOf sop a b, pairBounds a b 0 0 0, rfl, rfl, gpcLeaf_pvLeafOf hmem a b, gpcOf_exact hE hmem a b,
      pairBounds_py a b 0 0 0, ?_⟩
    intro B hpb hpad hB nm hnm
    obtain ⟨g, e⟩ := mkpfv_py hE hmem a b 0 0 0 nm hnm
    exact ⟨verLeaf_mono hB g, e⟩
  · refine ⟨_, rng2 a b (a + 1) 0, [finalV [a, b], finalV [a + 1, 0]], rfl, rfl, gpcLeaf_pvCompat a b,
      rng2_compat_exact hE a b, ?_, ?_⟩
    · intro e he
      simp only [List.mem_cons, List.mem_nil_iff, or_false] at he
      rcases he with rfl | rfl <;> exact pb _
    intro B hpb hpad hB nm hnm
    obtain ⟨g, e⟩ := mkSingleOfC_rng2 hpb a b (a + 1) 0 (hB _ (by simp)) (hB _ (by simp)) X Y Z nm hnm
    obtain ⟨_, _, vc, hvc, _, _⟩ := id g
    exact ⟨g, by rw [verLeaf_ev hpb hE g vc hvc]; exact e vc hvc⟩
  · obtain ⟨res', B0, hres', hreg, hpb0, hlit⟩ := parse_list_reg isIn p0 (rest.map (·.2))
    rw [hres] at hres'; cases hres'
    obtain ⟨hex, hne, hna⟩ := list_exact hE isIn p0 rest hs hres
    refine ⟨_, res, B0, rfl, rfl, by rw [gpcLeaf_pvList isIn p0 rest hs, hres], hex, hpb0, ?_⟩
    intro B hpb hpad hB nm hnm
    exact mkListOK hE res B hpb hpad (RegVC.mono hB hreg) (lit2_of_reg hlit hreg) hne hna nm hnm

/-- **the python_version / python_full_version pairing is sound with lists on both variables** -/
theorem pairSound_pyLL {E : Env} {X Y Z : Nat} (hE : EnvPy E X Y Z) : PairSound (leafEval E) PvLeafL PfvLeafL := by
  intro l1 l2 im r hG hm
  obtain ⟨vl, fl, hv, hf, hsw⟩ : ∃ vl fl, PvLeafL vl ∧ PfvLeafL fl ∧ ((l1 = vl ∧ l2 = fl) ∨ (l1 = fl ∧ l2 = vl)) := by
    rcases hG with ⟨h1, h2⟩ | ⟨h1, h2⟩
    · exact ⟨l1, l2, h1, h2, Or.inl ⟨rfl, rfl⟩⟩
    · exact ⟨l2, l1, h2, h1, Or.inr ⟨rfl, rfl⟩⟩
  obtain ⟨fm, rfl, _⟩ := pfvLeafL_self hf
  have hfn : fm.name = "python_full_version" := by simpa [Leaf.name] using pfvLeafL_name hf
  obtain ⟨vm, nc, B0, rfl, hvn, hgpc, hex, hpb0, hmk0⟩ := pvLeafL_conv hE hv
  -- the bounds: those of the conversion and of the `python_full_version` operand, with their padded forms
  let B : List Version := padClose (B0 ++ pfvCBounds (.single fm))
  have hpy0 : ∀ e ∈ B0 ++ pfvCBounds (.single fm), PyBound e = true := by
    intro e he
    rcases List.mem_append.1 he with he | he
    · exact hpb0 e he
    · exact pfvLeafL_py hf e he
  have hpb : ∀ e ∈ B, PyBound e = true := padClose_py hpy0
  have hpad : ∀ x r, litV x r ∈ B → litV x (padR r) ∈ B := padClose_pad hpy0
  have hmk := hmk0 B hpb hpad (fun e he => padClose_sub _ e (List.mem_append_left _ he))
  have hfF : VerLeaf B "python_full_version" (.single fm) :=
    pfvLeafL_verLeaf hf (fun e he => padClose_sub _ e (List.mem_append_right _ he))
  have C : PairCtxM (leafEval E) (fun l => l = .single vm ∨ l = .single fm) PyLeafLL
      (VerLeaf B "python_full_version") (fun ms => Pfv3LeafC (.single ms)) (fun c => c = nc) (pyV X Y Z) :=
    { out := by
        rintro l (rfl | rfl)
        · exact Or.inl hv
        · exact Or.inr hf
      gpc := by
        rintro v c (hv' | hv') hn hg
        · cases hv'
          rw [hgpc] at hg
          cases hg
          exact ⟨rfl, hex⟩
        · cases hv'
          rw [hfn] at hn
          exact absurd hn (by decide)
      mkpfv := by
        rintro c nm rfl hm'
        exact hmk nm hm'
      fm := by
        rintro f (hv' | hv') hn
        · cases hv'
          rw [hvn] at hn
          exact absurd hn (by decide)
        · cases hv'
          exact hfF
      single := by
        intro l hl
        cases l with
        | single s => exact ⟨s, rfl, hl.1⟩
        | amulti _ _ => exact hl.elim
        | aunion _ _ => exact hl.elim
      congr := verLeaf_congr (regB_of_pyBound _ hpb) (verEnv_py hpb hE) (by decide)
      inner := by
        intro dd nm f im' mm h1 h2 hm'
        obtain ⟨g, e, _⟩ := verLeaf_merge_text hpb hpad hE.2 dd _ _ im' mm h1 h2 hm'
        exact ⟨g, e⟩
      leafOnly := by
        intro dd nm f im' mm h1 h2 hm'
        obtain ⟨_, _, o⟩ := verLeaf_merge_text hpb hpad hE.2 dd _ _ im' mm h1 h2 hm'
        rcases o with rfl | rfl | rfl | rfl | ⟨s, rfl, _⟩
        · exact Or.inr (Or.inl rfl)
        · exact Or.inl rfl
        · exact Or.inr (Or.inr ⟨_, rfl⟩)
        · exact Or.inr (Or.inr ⟨_, rfl⟩)
        · exact Or.inr (Or.inr ⟨_, rfl⟩)
      text := by
        rintro dd c nm f ms im' rfl hm' (hg | hg) hn hmg hb
        · cases hg
          rw [hvn] at hn
          exact absurd hn (by decide)
        cases hg
        obtain ⟨g, _⟩ := hmk nm hm'
        obtain ⟨_, _, o⟩ := verLeaf_merge_text hpb hpad hE.2 dd _ _ im' _ g hfF hmg
        rcases o with e | e | e | e | ⟨s, e, hs'⟩
        · cases e
        · cases e
        · cases e
          simp [Leaf.beq] at hb
        · cases e
          rcases hf with hf | hf
          · exact Or.inr ⟨pfv3LeafC_notList hf, hf⟩
          · exact Or.inl ⟨pfvListLeaf_isList hf, Or.inr (Or.inr hf)⟩
        · cases e
          exact Or.inr ⟨pfv3LeafC_notList (Or.inl hs'), Or.inl hs'⟩
      rewrite := fun ms r _ hT hr => rewrite_pfv3C hE ms r hT hr }
  rcases hsw with ⟨rfl, rfl⟩ | ⟨rfl, rfl⟩
  · have hcall : mergeLeaves (.single vm) (.single fm) im = mergePythonVersion 1 vm fm im := by
      simp only [mergeLeaves]
      rw [mergeSingle.eq_def]
      dsimp only
      simp [Leaf.name, hvn, hfn]
    rw [hcall] at hm
    exact mergePythonVersion_soundM C 1 vm fm im r (Or.inl rfl) (Or.inr rfl) (Or.inl ⟨hvn, hfn⟩) hm
  · have hcall : mergeLeaves (.single fm) (.single vm) im = mergePythonVersion 1 fm vm im := by
      simp only [mergeLeaves]
      rw [mergeSingle.eq_def]
      dsimp only
      simp [Leaf.name, hvn, hfn]
    rw [hcall] at hm
    exact mergePythonVersion_soundM C 1 fm vm im r (Or.inr rfl) (Or.inl rfl) (Or.inr ⟨hfn, hvn⟩) hm

/-- **`LeafSpec` on the python pair with lists on both variables** -/
theorem leafSpec_pyLL {E : Env} {X Y Z : Nat} (hE : EnvPy E X Y Z) : LeafSpec (leafEval E) PyLeafLL :=
  LeafSpec.pair (leafSpec_pvL hE.1) (leafSpec_pfvL hE.2)
    (fun a b ha hb => by rw [pvLeafL_name ha, pfvLeafL_name hb]; decide) (pairSound_pyLL hE)

theorem pyLeafLL_name {l : Leaf} (h : PyLeafLL l) : l.name = "python_version" ∨ l.name = "python_full_version" := by
  rcases h with h | h
  · exact Or.inl (pvLeafL_name h)
  · exact Or.inr (pfvLeafL_name h)

theorem pyLeafLL_evaluable {E : Env} {X Y Z : Nat} (hE : EnvPy E X Y Z) {l : Leaf} (h : PyLeafLL l) :
    ∃ b, l.validate E = .ok b := by
  rcases h with h | h
  · exact pvLeafL_evaluable hE.1 h
  · exact pfvLeafL_evaluable hE.2 h

/-- strings with the four operators, `extra`, `python_version` and `python_full_version` with the seven operators
and lists, `platform_release` over `B` -/
def FullLeafLL (C : String → Prop) (B : List Version) (E : Env) (l : Leaf) : Prop :=
  (Plain4Leaf C E l ∨ PyLeafLL l) ∨ VerLeaf B "platform_release" l

theorem leafSpec_fullLL {C : String → Prop} (hC : ∀ u v, C u → C v → strIn u v = true ∨ strIn v u = true)
    {B : List Version} (hpb : ∀ e ∈ B, PyBound e = true) {E : Env} {ex : List String}
    (hX : E.extras = some ex) {X Y Z : Nat} (hE : EnvPy E X Y Z)
    {P : Nat} {Q : List Nat} (hP : E.get? "platform_release" = some (Version.relText (P :: Q))) :
    LeafSpec (leafEval E) (FullLeafLL C B E) := by
  have S1 : LeafSpec (leafEval E) (fun l => Plain4Leaf C E l ∨ PyLeafLL l) := by
    refine LeafSpec.or (leafSpec_plain4 hC hX) (leafSpec_pyLL hE) ?_
    intro a b ha hb
    have hb' := pyLeafLL_name hb
    rcases plain4Leaf_name ha with h | h
    · rcases hb' with hb' | hb' <;> (rw [pyPair, pyPair, h, hb']; decide)
    · simp only [plainStringVars, List.mem_cons, List.mem_nil_iff, or_false] at h
      rcases hb' with hb' | hb' <;>
        rcases h with h | h | h | h | h | h | h <;> (rw [pyPair, pyPair, h, hb']; decide)
  refine LeafSpec.or S1 (leafSpec_pr hpb hP) ?_
  intro a b ha hb
  have hb' := verLeaf_name hb
  have ha' : a.name = "extra" ∨ a.name ∈ plainStringVars ∨ a.name = "python_version" ∨
      a.name = "python_full_version" := by
    rcases ha with ha | ha
    · rcases plain4Leaf_name ha with h | h
      · exact Or.inl h
      · exact Or.inr (Or.inl h)
    · rcases pyLeafLL_name ha with h | h
      · exact Or.inr (Or.inr (Or.inl h))
      · exact Or.inr (Or.inr (Or.inr h))
  rcases ha' with h | h | h | h
  · rw [pyPair, pyPair, h, hb']; decide
  · simp only [plainStringVars, List.mem_cons, List.mem_nil_iff, or_false] at h
    rcases h with h | h | h | h | h | h | h <;> (rw [pyPair, pyPair, h, hb']; decide)
  · rw [pyPair, pyPair, h, hb']; decide
  · rw [pyPair, pyPair, h, hb']; decide

theorem fullLeafLL_evaluable {C : String → Prop} {B : List Version} (hpb : ∀ e ∈ B, PyBound e = true) {E : Env}
    {ex : List String} (hX : E.extras = some ex) {X Y Z : Nat} (hE : EnvPy E X Y Z) {P : Nat} {Q : List Nat}
    (hP : E.get? "platform_release" = some (Version.relText (P :: Q))) {l : Leaf} (h : FullLeafLL C B E l) :
    ∃ b, l.validate E = .ok b := by
  rcases h with (h | h) | h
  · exact plain4Leaf_evaluable hX h
  · exact pyLeafLL_evaluable hE h
  · exact verLeaf_evaluable (regB_of_pyBound B hpb) (verEnv_pr hpb P Q hP) (by decide) h

end Poetry.Marker
