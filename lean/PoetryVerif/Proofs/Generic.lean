/-
Helper lemmas for C16 (generic string constraints).  The union-level lemmas are parametric in the meaning
`f : Atom → Bool` of atoms at one fixed probe and in the member invariant `P`, so that they serve both the
single-valued semantics (`den`) and the `extra` semantics (`denX`).
-/
import PoetryVerif.Model.Generic

set_option linter.unusedSimpArgs false
set_option linter.unusedVariables false

namespace Poetry.Generic

/-! ## tables -/

theorem multiOps_false : multiOps false = ["!=", "in", "not in"] := by decide
theorem multiOps_true : multiOps true = ["==", "!="] := by decide

theorem Op.inv_eq (v : String) (x : Bool) : Atom.invert ⟨v, .eq, x⟩ = .ok ⟨v, .ne, x⟩ := by
  cases x <;> rfl
theorem Op.inv_ne (v : String) (x : Bool) : Atom.invert ⟨v, .ne, x⟩ = .ok ⟨v, .eq, x⟩ := by
  cases x <;> rfl
theorem Op.inv_in (v : String) : Atom.invert ⟨v, .in_, false⟩ = .ok ⟨v, .nc, false⟩ := rfl
theorem Op.inv_nc (v : String) : Atom.invert ⟨v, .nc, false⟩ = .ok ⟨v, .in_, false⟩ := rfl

/-! ## `allows` on an `==` atom never raises and is `allowsV`; `allowsV` is the denotation -/

theorem Atom.allowsV_eq_den (a : Atom) (v : String) : a.allowsV v = a.den v := by
  obtain ⟨av, o, x⟩ := a
  cases o <;> simp [Atom.allowsV, Atom.den, Op.apply]

theorem GS.allowsV_eq_den (c : GS) (v : String) : c.allowsV v = c.den v := by
  cases c <;> simp [GS.allowsV, GS.den, GS.sem, Atom.allowsV_eq_den]

theorem GC.allowsV_eq_den (c : GC) (v : String) : c.allowsV v = c.den v := by
  cases c <;> simp [GC.allowsV, GC.den, GC.sem, GS.allowsV_eq_den, GS.den]

theorem allM_ok {α : Type} (f : α → PyM Bool) (g : α → Bool) (l : List α) (h : ∀ a ∈ l, f a = .ok (g a)) :
    allM f l = .ok (l.all g) := by
  induction l with
  | nil => rfl
  | cons a as ih =>
    simp only [allM, h a (by simp)]
    cases hg : g a <;> simp [hg]
    exact ih (fun b hb => h b (by simp [hb]))

theorem anyM_ok {α : Type} (f : α → PyM Bool) (g : α → Bool) (l : List α) (h : ∀ a ∈ l, f a = .ok (g a)) :
    anyM f l = .ok (l.any g) := by
  induction l with
  | nil => rfl
  | cons a as ih =>
    simp only [anyM, h a (by simp)]
    cases hg : g a <;> simp [hg]
    exact ih (fun b hb => h b (by simp [hb]))

theorem GS.allows_eqAtom (c : GS) (v : String) (x : Bool) :
    c.allows (.atom ⟨v, .eq, x⟩) = .ok (c.allowsV v) := by
  cases c with
  | any => rfl
  | empty => rfl
  | atom a => simp [GS.allows, Atom.allows, GS.allowsV]
  | multi y cs =>
    simp only [GS.allows, GS.allowsV]
    exact allM_ok _ _ _ (fun a _ => by simp [Atom.allows])

/-- `c.allows(Constraint(v))` never raises and answers the denotation. -/
theorem GC.allows_eqAtom (c : GC) (v : String) (x : Bool) :
    c.allows (.atom ⟨v, .eq, x⟩) = .ok (c.den v) := by
  rw [← GC.allowsV_eq_den]
  cases c with
  | s c => exact GS.allows_eqAtom c v x
  | union ms =>
    simp only [GC.allows, GC.allowsV]
    exact anyM_ok _ _ _ (fun a _ => GS.allows_eqAtom a v x)

/-! ## single-valued variant: atom and multi level -/

theorem mkMulti_false_ok (cs : List Atom) (h : ∀ c ∈ cs, c.op = .ne) : mkMulti false cs = .ok (.multi false cs) := by
  unfold mkMulti
  rw [if_neg]
  simp only [List.any_eq_true, not_exists, not_and, multiOps_false]
  intro c hc
  simp [h c hc, Op.str]

theorem mkMulti_true_ok (cs : List Atom) (h : ∀ c ∈ cs, c.isEqNe = true) : mkMulti true cs = .ok (.multi true cs) := by
  unfold mkMulti
  rw [if_neg]
  simp only [List.any_eq_true, not_exists, not_and, multiOps_true]
  intro c hc
  have := h c hc
  simp only [Atom.isEqNe, Bool.or_eq_true, beq_iff_eq] at this
  rcases this with h | h <;> simp [h, Op.str]

theorem Atom.intersectA_G (a o : Atom) (ha : (GS.atom a).wfG = true) (ho : (GS.atom o).wfG = true) :
    ∃ r, a.intersectA o = .ok r ∧ r.wfG = true ∧ ∀ v, r.den v = (a.den v && o.den v) := by
  obtain ⟨av, aop, ax⟩ := a
  obtain ⟨ov, oop, ox⟩ := o
  simp only [GS.wfG, Atom.isEqNe, Bool.and_eq_true, Bool.not_eq_true', Bool.or_eq_true, beq_iff_eq] at ha ho
  obtain ⟨rfl, ha⟩ := ha
  obtain ⟨rfl, ho⟩ := ho
  by_cases h : av = ov
  · subst h
    rcases ha with rfl | rfl <;> rcases ho with rfl | rfl <;>
      simp [Atom.intersectA, Atom.allowsAllA, Atom.allowsAnyS, Atom.allowsAnyA, Atom.allowsV, Op.apply, mkMulti,
        multiOps_false, GS.den, GS.sem, Atom.den, GS.wfG, Atom.isEqNe, GS.allowsV, Op.str]
  · have h' : ¬ ov = av := fun e => h e.symm
    rcases ha with rfl | rfl <;> rcases ho with rfl | rfl <;>
      simp [Atom.intersectA, Atom.allowsAllA, Atom.allowsAnyS, Atom.allowsAnyA, Atom.allowsV, Op.apply, mkMulti,
        multiOps_false, GS.den, GS.sem, Atom.den, GS.wfG, Atom.isEqNe, GS.allowsV, h, h', Op.str]

theorem Atom.unionA_G (a o : Atom) (ha : (GS.atom a).wfG = true) (ho : (GS.atom o).wfG = true) :
    ∃ r, a.unionA o = .ok r ∧ r.wfG = true ∧ ∀ v, r.den v = (a.den v || o.den v) := by
  obtain ⟨av, aop, ax⟩ := a
  obtain ⟨ov, oop, ox⟩ := o
  simp only [GS.wfG, Atom.isEqNe, Bool.and_eq_true, Bool.not_eq_true', Bool.or_eq_true, beq_iff_eq] at ha ho
  obtain ⟨rfl, ha⟩ := ha
  obtain ⟨rfl, ho⟩ := ho
  by_cases h : av = ov
  · subst h
    rcases ha with rfl | rfl <;> rcases ho with rfl | rfl <;>
      simp [Atom.unionA, Atom.allowsAllA, Atom.allowsV, Op.apply, GC.den, GC.sem, GS.sem, Atom.den, GC.wfG, GS.wfG,
        Atom.isEqNe, Op.inv_eq, Op.inv_ne] <;> (intro v; grind)
  · have h' : ¬ ov = av := fun e => h e.symm
    rcases ha with rfl | rfl <;> rcases ho with rfl | rfl <;>
      simp [Atom.unionA, Atom.allowsAllA, Atom.allowsV, Op.apply, GC.den, GC.sem, GS.sem, Atom.den, GC.wfG, GS.wfG,
        Atom.isEqNe, Op.inv_eq, Op.inv_ne, h, h'] <;> (intro v; grind)

theorem all_and_of_mem {α : Type} (f : α → Bool) (l : List α) (a : α) (h : a ∈ l) :
    (l.all f && f a) = l.all f := by
  cases hl : l.all f
  · simp
  · simp [List.all_eq_true] at hl; simp [hl a h]

/-- shape of a well-formed single-valued multi -/
theorem wfG_multi {x : Bool} {cs : List Atom} (h : (GS.multi x cs).wfG = true) :
    x = false ∧ ∀ c ∈ cs, c.x = false ∧ c.op = .ne := by
  simp only [GS.wfG, Bool.and_eq_true, Bool.not_eq_true', List.all_eq_true, beq_iff_eq] at h
  exact h

theorem wfG_multi_mk {cs : List Atom} (h : ∀ c ∈ cs, c.x = false ∧ c.op = .ne) : (GS.multi false cs).wfG = true := by
  simp only [GS.wfG, Bool.and_eq_true, Bool.not_eq_true', List.all_eq_true, beq_iff_eq]
  exact ⟨trivial, h⟩

theorem wfG_atom {a : Atom} (h : (GS.atom a).wfG = true) : a.x = false ∧ (a.op = .eq ∨ a.op = .ne) := by
  simpa [GS.wfG, Atom.isEqNe] using h

theorem Atom.den_ne {a : Atom} (h : a.op = .ne) (v : String) : a.den v = (v != a.value) := by
  simp [Atom.den, h]
theorem Atom.den_eq {a : Atom} (h : a.op = .eq) (v : String) : a.den v = (v == a.value) := by
  simp [Atom.den, h]

theorem onlyNe_of_wfG {cs : List Atom} (h : ∀ c ∈ cs, c.x = false ∧ c.op = .ne) : onlyNe cs = true := by
  simp only [onlyNe, List.all_eq_true, beq_iff_eq]
  exact fun c hc => (h c hc).2

theorem multiIntersectA_G (cs : List Atom) (o : Atom) (hcs : (GS.multi false cs).wfG = true)
    (ho : (GS.atom o).wfG = true) :
    ∃ r, multiIntersectA false cs o = .ok r ∧ r.wfG = true ∧
      ∀ v, r.den v = (cs.all (fun c => c.den v) && o.den v) := by
  have hcs' := (wfG_multi hcs).2
  obtain ⟨hox, hoo⟩ := wfG_atom ho
  unfold multiIntersectA
  by_cases h1 : cs.contains o = true
  · simp only [h1, if_true]
    refine ⟨_, rfl, hcs, fun v => ?_⟩
    simp only [GS.den, GS.sem]
    exact (all_and_of_mem _ cs o (by simpa using h1)).symm
  · simp only [h1, Bool.false_eq_true, if_false]
    rcases hoo with hoe | hon
    · have hcond : (o.op == Op.eq && !(multiOps false).contains "==") = true := by
        simp [hoe, multiOps_false]
      rw [if_pos hcond]
      have hall : (GS.multi false cs).allowsV o.value = cs.all (fun c => c.den o.value) := by
        simp [GS.allowsV, Atom.allowsV_eq_den]
      by_cases h2 : (GS.multi false cs).allowsV o.value = true
      · rw [if_pos h2]
        refine ⟨_, rfl, ho, fun v => ?_⟩
        simp only [GS.den, GS.sem]
        cases hov : o.den v
        · simp
        · have hv : v = o.value := by simpa [Atom.den_eq hoe] using hov
          rw [hv, ← hall, h2]; rfl
      · rw [if_neg h2]
        refine ⟨_, rfl, rfl, fun v => ?_⟩
        simp only [GS.den, GS.sem]
        cases hov : o.den v
        · simp
        · have hv : v = o.value := by simpa [Atom.den_eq hoe] using hov
          rw [hv, ← hall]
          simp only [Bool.not_eq_true] at h2
          simp [h2]
    · have hcond : ¬ (o.op == Op.eq && !(multiOps false).contains "==") = true := by
        simp [hon]
      rw [if_neg hcond]
      have hinv : o.invert = .ok ⟨o.value, .eq, false⟩ := by
        obtain ⟨ov, oop, ox⟩ := o
        simp only at hon hox; subst hon; subst hox
        exact Op.inv_ne ov false
      rw [hinv]
      simp only
      have hni : ¬ cs.contains (⟨o.value, .eq, false⟩ : Atom) = true := by
        simp only [List.contains_eq_mem, decide_eq_true_eq]
        intro hm
        have := (hcs' _ hm).2
        simp at this
      rw [if_neg hni]
      have hall : ∀ c ∈ cs ++ [o], c.x = false ∧ c.op = .ne := by
        intro c hc
        rcases List.mem_append.mp hc with h | h
        · exact hcs' c h
        · simp at h; subst h; exact ⟨hox, hon⟩
      rw [mkMulti_false_ok _ (fun c hc => (hall c hc).2)]
      refine ⟨_, rfl, wfG_multi_mk hall, fun v => ?_⟩
      simp [GS.den, GS.sem, List.all_append]

theorem all_append_filter_not_mem {α : Type} [DecidableEq α] (f : α → Bool) (cs ds : List α) :
    (cs ++ ds.filter (fun c => !cs.contains c)).all f = (cs.all f && ds.all f) := by
  rw [Bool.eq_iff_iff]
  simp only [List.all_eq_true, List.mem_append, List.mem_filter, Bool.and_eq_true, Bool.not_eq_true',
    List.contains_eq_mem, decide_eq_false_iff_not]
  constructor
  · intro h
    refine ⟨fun c hc => h c (Or.inl hc), fun d hd => ?_⟩
    by_cases hm : d ∈ cs
    · exact h d (Or.inl hm)
    · exact h d (Or.inr ⟨hd, hm⟩)
  · rintro ⟨h1, h2⟩ c (hc | ⟨hc, _⟩)
    · exact h1 c hc
    · exact h2 c hc

theorem multiIntersectM_G (cs ds : List Atom) (hcs : (GS.multi false cs).wfG = true)
    (hds : (GS.multi false ds).wfG = true) :
    ∃ r, multiIntersectM false cs ds = .ok r ∧ r.wfG = true ∧
      ∀ v, r.den v = (cs.all (fun c => c.den v) && ds.all (fun c => c.den v)) := by
  have hcs' := (wfG_multi hcs).2
  have hds' := (wfG_multi hds).2
  have hall : ∀ c ∈ cs ++ ds.filter (fun c => !cs.contains c), c.x = false ∧ c.op = .ne := by
    intro c hc
    rcases List.mem_append.mp hc with h | h
    · exact hcs' c h
    · exact hds' c (List.mem_filter.mp h).1
  simp only [multiIntersectM, Bool.false_and, Bool.false_eq_true, if_false]
  rw [mkMulti_false_ok _ (fun c hc => (hall c hc).2)]
  refine ⟨_, rfl, wfG_multi_mk hall, fun v => ?_⟩
  simp only [GS.den, GS.sem]
  exact all_append_filter_not_mem _ cs ds

/-- a `!=` atom of the single-valued variant is determined by its value -/
theorem neAtom_ext {c d : Atom} (hc : c.x = false ∧ c.op = .ne) (hd : d.x = false ∧ d.op = .ne)
    (h : c.value = d.value) : c = d := by
  obtain ⟨cv, cop, cx⟩ := c; obtain ⟨dv, dop, dx⟩ := d
  simp at hc hd h; simp [hc, hd, h]

theorem multiUnionM_G (cs ds : List Atom) (y : Bool) (hcs : (GS.multi false cs).wfG = true)
    (hds : (GS.multi y ds).wfG = true) :
    ∃ r, multiUnionM false cs y ds = .ok r ∧ r.wfG = true ∧
      ∀ v, r.den v = (cs.all (fun c => c.den v) || ds.all (fun c => c.den v)) := by
  have hcs' := (wfG_multi hcs).2
  have hds' := (wfG_multi hds).2
  have hcom : ∀ c ∈ cs.filter (fun c => ds.contains c), c.x = false ∧ c.op = .ne :=
    fun c hc => hcs' c (List.mem_filter.mp hc).1
  have key : ∀ v, (cs.filter (fun c => ds.contains c)).all (fun c => c.den v) =
      (cs.all (fun c => c.den v) || ds.all (fun c => c.den v)) := by
    intro v
    rw [Bool.eq_iff_iff]
    simp only [List.all_eq_true, List.mem_filter, Bool.or_eq_true, List.contains_eq_mem, decide_eq_true_eq]
    constructor
    · intro h
      by_cases h1 : ∀ c ∈ cs, c.den v = true
      · exact Or.inl h1
      · right
        intro d hd
        obtain ⟨c, hc'⟩ := Classical.not_forall.mp h1
        obtain ⟨hc, hcv⟩ := Classical.not_imp.mp hc'
        rw [Atom.den_ne (hcs' c hc).2] at hcv
        rw [Atom.den_ne (hds' d hd).2]
        simp only [bne_iff_ne, ne_eq, Decidable.not_not] at hcv
        simp only [bne_iff_ne, ne_eq]
        intro hvd
        have hcd : c = d := neAtom_ext (hcs' c hc) (hds' d hd) (by rw [← hcv, ← hvd])
        have := h c ⟨hc, hcd ▸ hd⟩
        rw [Atom.den_ne (hcs' c hc).2] at this
        simp [hcv] at this
    · rintro (h | h) c ⟨hc, hd⟩
      · exact h c hc
      · exact h c hd
  simp only [multiUnionM, Bool.false_eq_true, if_false, onlyNe_of_wfG hcs', onlyNe_of_wfG hds', Bool.and_self,
    Bool.not_true]
  by_cases he : (cs.filter (fun c => ds.contains c)).isEmpty = true
  · simp only [he, if_true]
    refine ⟨_, rfl, rfl, fun v => ?_⟩
    rw [← key v]
    simp only [List.isEmpty_iff] at he
    rw [he]; rfl
  · simp only [he, Bool.false_eq_true, if_false]
    rw [mkMulti_false_ok _ (fun c hc => (hcom c hc).2)]
    refine ⟨_, rfl, wfG_multi_mk hcom, fun v => ?_⟩
    rw [← key v]
    simp [GC.den, GC.sem, GS.sem]

/-- meaning of `match l with | [c] => atom c | l => multi l` -/
theorem den_single_or_multi (l : List Atom) (v : String) (r : GC)
    (h : (match l with
          | [] => (.ok GC.any : PyM GC)
          | [c] => (.ok (GC.atom c) : PyM GC)
          | l => match mkMulti false l with
            | .error e => .error e
            | .ok m => .ok (.s m)) = .ok r) (hl : ∀ c ∈ l, c.x = false ∧ c.op = .ne) :
    r.wfG = true ∧ r.den v = l.all (fun c => c.den v) := by
  match l, h, hl with
  | [c], h, hl =>
    simp only [Except.ok.injEq] at h; subst h
    have := hl c (by simp)
    simp [GC.wfG, GS.wfG, Atom.isEqNe, this, GC.den, GC.sem, GS.sem]
  | [], h, hl =>
    simp only [Except.ok.injEq] at h; subst h
    simp [GC.wfG, GS.wfG, GC.den, GC.sem, GS.sem]
  | a :: b :: t, h, hl =>
    dsimp only at h
    rw [mkMulti_false_ok _ (fun c hc => (hl c hc).2)] at h
    simp only [Except.ok.injEq] at h; subst h
    exact ⟨wfG_multi_mk hl, by simp [GC.den, GC.sem, GS.sem]⟩

theorem single_or_multi_ok (l : List Atom) (hl : ∀ c ∈ l, c.x = false ∧ c.op = .ne) :
    ∃ r, (match l with
          | [] => (.ok GC.any : PyM GC)
          | [c] => (.ok (GC.atom c) : PyM GC)
          | l => match mkMulti false l with
            | .error e => .error e
            | .ok m => .ok (.s m)) = .ok r := by
  match l, hl with
  | [c], _ => exact ⟨_, rfl⟩
  | [], hl => exact ⟨_, rfl⟩
  | a :: b :: t, hl => dsimp only; rw [mkMulti_false_ok _ (fun c hc => (hl c hc).2)]; exact ⟨_, rfl⟩

theorem multiUnionA_G (cs : List Atom) (o : Atom) (hcs : (GS.multi false cs).wfG = true)
    (ho : (GS.atom o).wfG = true) :
    ∃ r, multiUnionA false cs o = .ok r ∧ r.wfG = true ∧
      ∀ v, r.den v = (cs.all (fun c => c.den v) || o.den v) := by
  have hcs' := (wfG_multi hcs).2
  obtain ⟨hox, hoo⟩ := wfG_atom ho
  unfold multiUnionA
  simp only [Bool.false_eq_true, if_false]
  by_cases h1 : cs.contains o = true
  · simp only [h1, if_true]
    refine ⟨_, rfl, ho, fun v => ?_⟩
    simp only [GC.den, GC.sem, GS.sem]
    have hm : o ∈ cs := by simpa using h1
    cases hall : cs.all (fun c => c.den v)
    · simp
    · simp only [List.all_eq_true] at hall; simp [hall o hm]
  · simp only [h1, Bool.false_eq_true, if_false]
    have hfrag : ¬ (!(onlyNe cs && (o.op == Op.eq || o.op == Op.ne))) = true := by
      rcases hoo with h | h <;> simp [onlyNe_of_wfG hcs', h]
    rw [if_neg hfrag]
    by_cases h2 : (cs.map (fun c => c.value)).contains o.value = true
    · -- same value, other operator: `o` is `==`
      simp only [h2, Bool.not_true, Bool.false_eq_true, if_false]
      have h2' := h2
      simp only [List.contains_iff_mem, List.mem_map] at h2'
      obtain ⟨c, hc, hcv⟩ := h2'
      have hoe : o.op = .eq := by
        rcases hoo with h | h
        · exact h
        · exfalso; apply h1
          have : c = o := neAtom_ext (hcs' c hc) ⟨hox, h⟩ hcv
          simpa [this] using hc
      have hl : ∀ c ∈ cs.filter (fun c => c.value != o.value), c.x = false ∧ c.op = .ne :=
        fun c hc => hcs' c (List.mem_filter.mp hc).1
      obtain ⟨r, hr⟩ := single_or_multi_ok _ hl
      refine ⟨r, hr, (den_single_or_multi _ "" r hr hl).1, fun v => ?_⟩
      rw [(den_single_or_multi _ v r hr hl).2, Atom.den_eq hoe, Bool.eq_iff_iff]
      simp only [List.all_eq_true, List.mem_filter, Bool.or_eq_true, bne_iff_ne, ne_eq, beq_iff_eq, and_imp]
      constructor
      · intro h
        by_cases hv : v = o.value
        · exact Or.inr hv
        · left; intro d hd
          by_cases hdv : d.value = o.value
          · rw [Atom.den_ne (hcs' d hd).2]; simp [hdv, hv]
          · exact h d hd hdv
      · rintro (h | h) d hd hdv
        · exact h d hd
        · rw [Atom.den_ne (hcs' d hd).2, h]; simp; exact fun e => hdv e.symm
    · simp only [h2, Bool.not_false, if_true]
      have hnot : ∀ c ∈ cs, c.value ≠ o.value := by
        intro c hc e; apply h2
        simp only [List.contains_iff_mem, List.mem_map]; exact ⟨c, hc, e⟩
      rcases hoo with hoe | hon
      · simp only [hoe, show (Op.eq == Op.ne) = false from rfl, Bool.false_eq_true, if_false]
        refine ⟨_, rfl, hcs, fun v => ?_⟩
        simp only [GC.den, GC.sem, GS.sem, Atom.den_eq hoe]
        cases hv : v == o.value
        · simp
        · simp only [beq_iff_eq] at hv
          simp only [Bool.or_true, List.all_eq_true]
          intro c hc
          rw [Atom.den_ne (hcs' c hc).2, hv]; simp; exact fun e => hnot c hc e.symm
      · simp only [hon, beq_self_eq_true, if_true]
        refine ⟨_, rfl, rfl, fun v => ?_⟩
        simp only [GC.den, GC.sem, GS.sem, Atom.den_ne hon]
        cases hv : v != o.value
        · simp only [bne_eq_false_iff_eq] at hv
          simp only [Bool.or_false, Bool.true_eq, List.all_eq_true]
          intro c hc
          rw [Atom.den_ne (hcs' c hc).2, hv]; simp; exact fun e => hnot c hc e.symm
        · simp

theorem GS.intersectS_G (a b : GS) (ha : a.wfG = true) (hb : b.wfG = true) :
    ∃ r, a.intersectS b = .ok r ∧ r.wfG = true ∧ ∀ v, r.den v = (a.den v && b.den v) := by
  cases a with
  | any => exact ⟨b, rfl, hb, fun v => by simp [GS.den, GS.sem]⟩
  | empty => exact ⟨.empty, rfl, rfl, fun v => by simp [GS.den, GS.sem]⟩
  | atom a =>
    cases b with
    | any => exact ⟨_, rfl, ha, fun v => by simp [GS.den, GS.sem]⟩
    | empty => exact ⟨.empty, rfl, rfl, fun v => by simp [GS.den, GS.sem]⟩
    | atom o => exact Atom.intersectA_G a o ha hb
    | multi x cs =>
      obtain rfl := (wfG_multi hb).1
      obtain ⟨r, h1, h2, h3⟩ := multiIntersectA_G cs a hb ha
      exact ⟨r, h1, h2, fun v => by rw [h3 v, Bool.and_comm]; rfl⟩
  | multi x cs =>
    obtain rfl := (wfG_multi ha).1
    cases b with
    | any => exact ⟨_, rfl, ha, fun v => by simp [GS.den, GS.sem]⟩
    | empty => exact ⟨.empty, rfl, rfl, fun v => by simp [GS.den, GS.sem]⟩
    | atom o => exact multiIntersectA_G cs o ha hb
    | multi y ds =>
      obtain rfl := (wfG_multi hb).1
      exact multiIntersectM_G cs ds ha hb

theorem GS.unionS_G (a b : GS) (ha : a.wfG = true) (hb : b.wfG = true) :
    ∃ r, a.unionS b = .ok r ∧ r.wfG = true ∧ ∀ v, r.den v = (a.den v || b.den v) := by
  cases a with
  | any => exact ⟨.any, rfl, rfl, fun v => by simp [GS.den, GC.den, GC.sem, GS.sem]⟩
  | empty => exact ⟨.s b, rfl, hb, fun v => by simp [GS.den, GC.den, GC.sem, GS.sem]⟩
  | atom a =>
    cases b with
    | any => exact ⟨.any, rfl, rfl, fun v => by simp [GS.den, GC.den, GC.sem, GS.sem]⟩
    | empty => exact ⟨_, rfl, ha, fun v => by simp [GS.den, GC.den, GC.sem, GS.sem]⟩
    | atom o => exact Atom.unionA_G a o ha hb
    | multi x cs =>
      obtain rfl := (wfG_multi hb).1
      obtain ⟨r, h1, h2, h3⟩ := multiUnionA_G cs a hb ha
      exact ⟨r, h1, h2, fun v => by rw [h3 v, Bool.or_comm]; rfl⟩
  | multi x cs =>
    obtain rfl := (wfG_multi ha).1
    cases b with
    | any => exact ⟨.any, rfl, rfl, fun v => by simp [GS.den, GC.den, GC.sem, GS.sem]⟩
    | empty => exact ⟨_, rfl, ha, fun v => by simp [GS.den, GC.den, GC.sem, GS.sem]⟩
    | atom o => exact multiUnionA_G cs o ha hb
    | multi y ds => exact multiUnionM_G cs ds y ha hb

/-! ## union level, parametric in the member invariant `P` and the family `F` of atom meanings -/

/-- lift of a member invariant to constraint objects: unions are non-empty -/
def Pc (P : GS → Prop) : GC → Prop
  | .s c => P c
  | .union ms => ms ≠ [] ∧ ∀ m ∈ ms, P m

/-- what the union-level algorithms need from the member level -/
structure MemberAlgR (P : GS → Prop) (F : (Atom → Bool) → Prop) (R : GS → GS → Prop) : Prop where
  empty : P .empty
  atoms : ∀ x cs, P (.multi x cs) → ∀ c ∈ cs, P (.atom c)
  inter : ∀ a b, P a → P b → ∃ r, a.intersectS b = .ok r ∧ P r ∧ ∀ f, F f → r.sem f = (a.sem f && b.sem f)
  /-- `R` excludes the member pairs on which `union` is known to be wrong -/
  union : ∀ a b, P a → P b → R a b →
    ∃ r, a.unionS b = .ok r ∧ Pc P r ∧ ∀ f, F f → r.sem f = (a.sem f || b.sem f)

/-- the same without a restriction on member pairs (`union` right everywhere) -/
structure MemberAlg (P : GS → Prop) (F : (Atom → Bool) → Prop) : Prop where
  empty : P .empty
  atoms : ∀ x cs, P (.multi x cs) → ∀ c ∈ cs, P (.atom c)
  inter : ∀ a b, P a → P b → ∃ r, a.intersectS b = .ok r ∧ P r ∧ ∀ f, F f → r.sem f = (a.sem f && b.sem f)
  union : ∀ a b, P a → P b → ∃ r, a.unionS b = .ok r ∧ Pc P r ∧ ∀ f, F f → r.sem f = (a.sem f || b.sem f)

theorem MemberAlg.toR {P : GS → Prop} {F : (Atom → Bool) → Prop} (A : MemberAlg P F) :
    MemberAlgR P F (fun _ _ => True) :=
  ⟨A.empty, A.atoms, A.inter, fun a b ha hb _ => A.union a b ha hb⟩

theorem any_sem_of_subset (f : Atom → Bool) (a b : List GS) (h : subsetL a b = true)
    (ha : a.any (fun c => c.sem f) = true) : b.any (fun c => c.sem f) = true := by
  simp only [subsetL, List.all_eq_true, List.contains_eq_mem, decide_eq_true_eq] at h
  simp only [List.any_eq_true] at ha ⊢
  obtain ⟨c, hc, hcf⟩ := ha
  exact ⟨c, h c hc, hcf⟩

theorem all_of_subset {α : Type} [DecidableEq α] (f : α → Bool) (a b : List α) (h : subsetL a b = true)
    (hb : b.all f = true) : a.all f = true := by
  simp only [subsetL, List.all_eq_true, List.contains_eq_mem, decide_eq_true_eq] at h
  simp only [List.all_eq_true] at hb ⊢
  exact fun c hc => hb c (h c hc)

theorem addUnseen_mem (new : List GS) (c m : GS) (h : m ∈ addUnseen new c) : m ∈ new ∨ m = c := by
  unfold addUnseen at h
  by_cases hc : (c.isEmpty || new.contains c || sameMultiSeen new c) = true
  · rw [if_pos hc] at h; exact Or.inl h
  · rw [if_neg hc] at h; simpa using h

theorem addUnseen_sem (f : Atom → Bool) (new : List GS) (c : GS) :
    (addUnseen new c).any (fun c => c.sem f) = (new.any (fun c => c.sem f) || c.sem f) := by
  unfold addUnseen
  by_cases h : (c.isEmpty || new.contains c || sameMultiSeen new c) = true
  · rw [if_pos h]
    simp only [Bool.or_eq_true] at h
    cases hc : c.sem f
    · simp
    · rcases h with (h | h) | h
      · cases c <;> simp [GS.isEmpty] at h; simp [GS.sem] at hc
      · simp only [Bool.or_true, List.any_eq_true]
        exact ⟨c, by simpa using h, hc⟩
      · cases c with
        | multi x cs =>
          simp only [sameMultiSeen, List.any_eq_true] at h
          obtain ⟨n, hn, hnc⟩ := h
          cases n with
          | multi y ds =>
            simp only [Bool.and_eq_true] at hnc
            simp only [Bool.or_true, List.any_eq_true]
            refine ⟨_, hn, ?_⟩
            simp only [GS.sem] at hc ⊢
            exact all_of_subset f ds cs hnc.1 hc
          | _ => simp at hnc
        | _ => simp [sameMultiSeen] at h
  · rw [if_neg h]; simp [List.any_append]

theorem finishIntersect_sem (f : Atom → Bool) (l : List GS) :
    (finishIntersect l).sem f = l.any (fun c => c.sem f) := by
  match l with
  | [] => rfl
  | [c] => simp [finishIntersect, GC.sem]
  | a :: b :: t => simp [finishIntersect, GC.sem]

theorem finishIntersect_Pc (P : GS → Prop) (hE : P .empty) (l : List GS) (h : ∀ m ∈ l, P m) :
    Pc P (finishIntersect l) := by
  match l, h with
  | [], _ => exact hE
  | [c], h => exact h c (by simp)
  | a :: b :: t, h => exact ⟨by simp, h⟩

section
variable {P : GS → Prop} {F : (Atom → Bool) → Prop} {R : GS → GS → Prop} (A : MemberAlgR P F R)
include A

theorem crossRow_exact (our : GS) (hour : P our) (ns : List GS) (hns : ∀ n ∈ ns, P n) :
    ∀ new : List GS, (∀ m ∈ new, P m) →
    ∃ new', crossRow our ns new = .ok new' ∧ (∀ m ∈ new', P m) ∧
      ∀ f, F f → new'.any (fun c => c.sem f) =
        (new.any (fun c => c.sem f) || (our.sem f && ns.any (fun c => c.sem f))) := by
  induction ns with
  | nil => intro new hnew; exact ⟨new, rfl, hnew, fun f _ => by simp⟩
  | cons their ns ih =>
    intro new hnew
    obtain ⟨r, h1, h2, h3⟩ := A.inter our their hour (hns their (by simp))
    have hnew2 : ∀ m ∈ addUnseen new r, P m := fun m hm => by
      rcases addUnseen_mem new r m hm with h | h
      · exact hnew m h
      · exact h ▸ h2
    obtain ⟨new', g1, g2, g3⟩ := ih (fun n hn => hns n (by simp [hn])) (addUnseen new r) hnew2
    refine ⟨new', by simp only [crossRow, h1]; exact g1, g2, fun f hf => ?_⟩
    rw [g3 f hf, addUnseen_sem, h3 f hf]
    simp only [List.any_cons]
    cases our.sem f <;> cases their.sem f <;> simp

theorem crossAll_exact (ns : List GS) (hns : ∀ n ∈ ns, P n) (ms : List GS) (hms : ∀ m ∈ ms, P m) :
    ∀ new : List GS, (∀ m ∈ new, P m) →
    ∃ new', crossAll ms ns new = .ok new' ∧ (∀ m ∈ new', P m) ∧
      ∀ f, F f → new'.any (fun c => c.sem f) =
        (new.any (fun c => c.sem f) || (ms.any (fun c => c.sem f) && ns.any (fun c => c.sem f))) := by
  induction ms with
  | nil => intro new hnew; exact ⟨new, rfl, hnew, fun f _ => by simp⟩
  | cons our ms ih =>
    intro new hnew
    obtain ⟨n1, h1, h2, h3⟩ := crossRow_exact A our (hms our (by simp)) ns hns new hnew
    obtain ⟨new', g1, g2, g3⟩ := ih (fun n hn => hms n (by simp [hn])) n1 h2
    refine ⟨new', by simp only [crossAll, h1]; exact g1, g2, fun f hf => ?_⟩
    rw [g3 f hf, h3 f hf]
    simp only [List.any_cons]
    cases our.sem f <;> cases ns.any (fun c => c.sem f) <;> simp

theorem foldIntersect_exactR (ds : List Atom) (hds : ∀ d ∈ ds, P (.atom d)) :
    ∀ c : GS, P c → ∃ r, foldIntersect c ds = .ok r ∧ P r ∧ ∀ f, F f → r.sem f = (c.sem f && ds.all f) := by
  induction ds with
  | nil => intro c hc; exact ⟨c, rfl, hc, fun f _ => by simp⟩
  | cons d ds ih =>
    intro c hc
    obtain ⟨r, h1, h2, h3⟩ := A.inter c (.atom d) hc (hds d (by simp))
    obtain ⟨r', g1, g2, g3⟩ := ih (fun n hn => hds n (by simp [hn])) r h2
    refine ⟨r', by simp only [foldIntersect, h1]; exact g1, g2, fun f hf => ?_⟩
    rw [g3 f hf, h3 f hf]
    simp [GS.sem, Bool.and_assoc]

theorem distAll_exact (ds : List Atom) (hds : ∀ d ∈ ds, P (.atom d)) (ms : List GS) (hms : ∀ m ∈ ms, P m) :
    ∀ new : List GS, (∀ m ∈ new, P m) →
    ∃ new', distAll ms ds new = .ok new' ∧ (∀ m ∈ new', P m) ∧
      ∀ f, F f → new'.any (fun c => c.sem f) =
        (new.any (fun c => c.sem f) || (ms.any (fun c => c.sem f) && ds.all f)) := by
  induction ms with
  | nil => intro new hnew; exact ⟨new, rfl, hnew, fun f _ => by simp⟩
  | cons our ms ih =>
    intro new hnew
    obtain ⟨r, h1, h2, h3⟩ := foldIntersect_exactR A ds hds our (hms our (by simp))
    have hnew2 : ∀ m ∈ addUnseen new r, P m := fun m hm => by
      rcases addUnseen_mem new r m hm with h | h
      · exact hnew m h
      · exact h ▸ h2
    obtain ⟨new', g1, g2, g3⟩ := ih (fun n hn => hms n (by simp [hn])) (addUnseen new r) hnew2
    refine ⟨new', by simp only [distAll, h1]; exact g1, g2, fun f hf => ?_⟩
    rw [g3 f hf, addUnseen_sem, h3 f hf]
    simp only [List.any_cons]
    cases our.sem f <;> cases ds.all f <;> simp

end

theorem and_eq_left_of_imp {a b : Bool} (h : a = true → b = true) : a = (a && b) := by
  cases a <;> simp_all
theorem and_eq_right_of_imp {a b : Bool} (h : b = true → a = true) : b = (a && b) := by
  cases b <;> simp_all

section
variable {P : GS → Prop} {F : (Atom → Bool) → Prop} {R : GS → GS → Prop} (A : MemberAlgR P F R)
include A

/-- the `isinstance(other, UnionConstraint)` part of `UnionConstraint.intersect` -/
theorem unionIntersectU_exact (ms ns : List GS) (hms : Pc P (.union ms)) (hns : Pc P (.union ns)) :
    ∃ r, (if subsetL ms ns = true then (.ok (.union ms) : PyM GC)
          else if subsetL ns ms = true then
            (match ns with
             | [n] => .ok (.s n)
             | _ => .ok (.union ns))
          else
            match crossAll ms ns [] with
            | .error e => .error e
            | .ok new => .ok (finishIntersect new)) = .ok r ∧ Pc P r ∧
      ∀ f, F f → r.sem f = (ms.any (fun c => c.sem f) && ns.any (fun c => c.sem f)) := by
  by_cases h1 : subsetL ms ns = true
  · rw [if_pos h1]
    exact ⟨_, rfl, hms, fun f _ => and_eq_left_of_imp (any_sem_of_subset f ms ns h1)⟩
  · rw [if_neg h1]
    by_cases h2 : subsetL ns ms = true
    · rw [if_pos h2]
      have hsem : ∀ f, ns.any (fun c => c.sem f) = (ms.any (fun c => c.sem f) && ns.any (fun c => c.sem f)) :=
        fun f => and_eq_right_of_imp (any_sem_of_subset f ns ms h2)
      match ns, hns, hsem with
      | [n], hns, hsem => exact ⟨_, rfl, hns.2 n (by simp), fun f _ => by rw [← hsem f]; simp [GC.sem]⟩
      | [], hns, hsem => exact ⟨_, rfl, hns, fun f _ => hsem f⟩
      | a :: b :: t, hns, hsem => exact ⟨_, rfl, hns, fun f _ => hsem f⟩
    · rw [if_neg h2]
      obtain ⟨new, g1, g2, g3⟩ := crossAll_exact A ns hns.2 ms hms.2 [] (by simp)
      rw [g1]
      refine ⟨_, rfl, finishIntersect_Pc P A.empty new g2, fun f hf => ?_⟩
      rw [finishIntersect_sem, g3 f hf]; simp

theorem unionIntersect_exact (ms : List GS) (hms : Pc P (.union ms)) (other : GC) (ho : Pc P other) :
    ∃ r, unionIntersect ms other = .ok r ∧ Pc P r ∧
      ∀ f, F f → r.sem f = ((GC.union ms).sem f && other.sem f) := by
  match other, ho with
  | .s .any, _ => exact ⟨_, rfl, hms, fun f _ => by simp [GC.sem, GS.sem]⟩
  | .s .empty, ho => exact ⟨_, rfl, ho, fun f _ => by simp [GC.sem, GS.sem]⟩
  | .union ns, ho =>
    simp only [unionIntersect, GC.isAny, GC.isEmpty, Bool.false_eq_true, if_false]
    by_cases h0 : (subsetL ns ms && subsetL ms ns) = true
    · rw [if_pos h0]
      simp only [Bool.and_eq_true] at h0
      exact ⟨_, rfl, hms, fun f _ => and_eq_left_of_imp (any_sem_of_subset f ms ns h0.2)⟩
    · rw [if_neg h0]
      exact unionIntersectU_exact A ms ns hms ho
  | .s (.atom o), ho =>
    simp only [unionIntersect, GC.isAny, GS.isAny, GC.isEmpty, GS.isEmpty, Bool.false_eq_true, if_false]
    by_cases h0 : (o.x && ms.contains (.atom o)) = true
    · rw [if_pos h0]
      simp only [Bool.and_eq_true, List.contains_eq_mem, decide_eq_true_eq] at h0
      refine ⟨_, rfl, ho, fun f _ => ?_⟩
      simp only [GC.sem]
      apply and_eq_right_of_imp
      intro h; simp only [List.any_eq_true]; exact ⟨_, h0.2, h⟩
    · rw [if_neg h0]
      have hns : Pc P (.union [.atom o]) := ⟨by simp, fun m hm => by simp at hm; exact hm ▸ ho⟩
      obtain ⟨r, g1, g2, g3⟩ := unionIntersectU_exact A ms [.atom o] hms hns
      exact ⟨r, g1, g2, fun f hf => by rw [g3 f hf]; simp [GC.sem]⟩
  | .s (.multi y ds), ho =>
    simp only [unionIntersect, GC.isAny, GS.isAny, GC.isEmpty, GS.isEmpty, Bool.false_eq_true, if_false]
    obtain ⟨new, g1, g2, g3⟩ := distAll_exact A ds (A.atoms y ds ho) ms hms.2 [] (by simp)
    rw [g1]
    refine ⟨_, rfl, finishIntersect_Pc P A.empty new g2, fun f hf => ?_⟩
    rw [finishIntersect_sem, g3 f hf]; simp [GC.sem, GS.sem]

/-- `GC.intersect` is total and exact on objects satisfying the invariant -/
theorem GC.intersect_exactR (hAny : P .any) (a b : GC) (ha : Pc P a) (hb : Pc P b) :
    ∃ r, a.intersect b = .ok r ∧ Pc P r ∧ ∀ f, F f → r.sem f = (a.sem f && b.sem f) := by
  match a, ha with
  | .union ms, ha => exact unionIntersect_exact A ms ha b hb
  | .s .any, _ => exact ⟨b, rfl, hb, fun f _ => by simp [GC.sem, GS.sem]⟩
  | .s .empty, ha => exact ⟨_, rfl, ha, fun f _ => by simp [GC.sem, GS.sem]⟩
  | .s (.atom x), ha =>
    match b, hb with
    | .s b, hb =>
      obtain ⟨r, g1, g2, g3⟩ := A.inter (.atom x) b ha hb
      exact ⟨.s r, by simp only [GC.intersect, g1], g2, fun f hf => by simp [GC.sem, g3 f hf]⟩
    | .union ns, hb =>
      obtain ⟨r, g1, g2, g3⟩ := unionIntersect_exact A ns hb (.s (.atom x)) ha
      exact ⟨r, g1, g2, fun f hf => by rw [g3 f hf, Bool.and_comm]⟩
  | .s (.multi y cs), ha =>
    match b, hb with
    | .s b, hb =>
      obtain ⟨r, g1, g2, g3⟩ := A.inter (.multi y cs) b ha hb
      exact ⟨.s r, by simp only [GC.intersect, g1], g2, fun f hf => by simp [GC.sem, g3 f hf]⟩
    | .union ns, hb =>
      obtain ⟨r, g1, g2, g3⟩ := unionIntersect_exact A ns hb (.s (.multi y cs)) ha
      exact ⟨r, g1, g2, fun f hf => by rw [g3 f hf, Bool.and_comm]⟩
end

theorem foldIntersect_exact {P : GS → Prop} {F : (Atom → Bool) → Prop} (A : MemberAlg P F)
    (ds : List Atom) (hds : ∀ d ∈ ds, P (.atom d)) :
    ∀ c : GS, P c → ∃ r, foldIntersect c ds = .ok r ∧ P r ∧ ∀ f, F f → r.sem f = (c.sem f && ds.all f) :=
  foldIntersect_exactR A.toR ds hds

theorem GC.intersect_exact {P : GS → Prop} {F : (Atom → Bool) → Prop} (A : MemberAlg P F)
    (hAny : P .any) (a b : GC) (ha : Pc P a) (hb : Pc P b) :
    ∃ r, a.intersect b = .ok r ∧ Pc P r ∧ ∀ f, F f → r.sem f = (a.sem f && b.sem f) :=
  GC.intersect_exactR A.toR hAny a b ha hb

/-! ## the single-valued instance -/

/-- the family of atom meanings of the single-valued semantics: one per probe value -/
def FG (f : Atom → Bool) : Prop := ∃ v : String, f = fun a => a.den v

theorem Pc_wfG (c : GC) : Pc (fun c => c.wfG = true) c ↔ c.wfG = true := by
  cases c with
  | s c => rfl
  | union ms =>
    simp only [Pc, GC.wfG, Bool.and_eq_true, Bool.not_eq_true', List.all_eq_true, ne_eq]
    constructor
    · rintro ⟨h1, h2⟩; exact ⟨by cases ms <;> simp_all, h2⟩
    · rintro ⟨h1, h2⟩; exact ⟨by cases ms <;> simp_all, h2⟩

theorem algG : MemberAlg (fun c => c.wfG = true) FG where
  empty := rfl
  atoms := fun x cs h c hc => by
    have := (wfG_multi h).2 c hc
    simp [GS.wfG, Atom.isEqNe, this]
  inter := fun a b ha hb => by
    obtain ⟨r, h1, h2, h3⟩ := GS.intersectS_G a b ha hb
    exact ⟨r, h1, h2, fun f ⟨v, hf⟩ => by subst hf; exact h3 v⟩
  union := fun a b ha hb => by
    obtain ⟨r, h1, h2, h3⟩ := GS.unionS_G a b ha hb
    exact ⟨r, h1, (Pc_wfG r).mpr h2, fun f ⟨v, hf⟩ => by subst hf; exact h3 v⟩

theorem GC.intersect_G (a b : GC) (ha : a.wfG = true) (hb : b.wfG = true) :
    ∃ r, a.intersect b = .ok r ∧ r.wfG = true ∧ ∀ v, r.den v = (a.den v && b.den v) := by
  obtain ⟨r, h1, h2, h3⟩ := GC.intersect_exact algG rfl a b ((Pc_wfG a).mpr ha) ((Pc_wfG b).mpr hb)
  exact ⟨r, h1, (Pc_wfG r).mp h2, fun v => h3 _ ⟨v, rfl⟩⟩

/-! ### `UnionConstraint.union` -/

theorem addNew_sem (f : Atom → Bool) (l : List GS) (c : GS) :
    (addNew l c).any (fun c => c.sem f) = (l.any (fun c => c.sem f) || c.sem f) := by
  unfold addNew
  by_cases h : l.contains c = true
  · rw [if_pos h]
    cases hc : c.sem f
    · simp
    · simp only [Bool.or_true, List.any_eq_true]; exact ⟨c, by simpa using h, hc⟩
  · rw [if_neg h]; simp [List.any_append]

theorem addNew_mem (l : List GS) (c m : GS) (h : m ∈ addNew l c) : m ∈ l ∨ m = c := by
  unfold addNew at h
  by_cases hc : l.contains c = true
  · rw [if_pos hc] at h; exact Or.inl h
  · rw [if_neg hc] at h; simpa using h

theorem addNew_ne_nil (l : List GS) (c : GS) : addNew l c ≠ [] := by
  unfold addNew
  by_cases hc : l.contains c = true
  · rw [if_pos hc]; intro e; subst e; simp at hc
  · rw [if_neg hc]; simp

theorem addNew_ne_nil_of (l : List GS) (c : GS) (h : l ≠ []) : addNew l c ≠ [] := addNew_ne_nil l c

theorem foldl_addNew_sem (f : Atom → Bool) (l2 : List GS) : ∀ l1 : List GS,
    (l2.foldl addNew l1).any (fun c => c.sem f) = (l1.any (fun c => c.sem f) || l2.any (fun c => c.sem f)) := by
  induction l2 with
  | nil => intro l1; simp
  | cons c l2 ih => intro l1; simp only [List.foldl_cons, ih, addNew_sem, List.any_cons, Bool.or_assoc]

theorem foldl_addNew_mem (l2 : List GS) : ∀ (l1 : List GS) (m : GS), m ∈ l2.foldl addNew l1 → m ∈ l1 ∨ m ∈ l2 := by
  induction l2 with
  | nil => intro l1 m h; exact Or.inl h
  | cons c l2 ih =>
    intro l1 m h
    rcases ih _ m h with h | h
    · rcases addNew_mem l1 c m h with h | h
      · exact Or.inl h
      · exact Or.inr (by simp [h])
    · exact Or.inr (by simp [h])

theorem foldl_addNew_ne_nil (l2 : List GS) : ∀ (l1 : List GS), (l1 ≠ [] ∨ l2 ≠ []) → l2.foldl addNew l1 ≠ [] := by
  induction l2 with
  | nil => intro l1 h; rcases h with h | h; exact h; exact absurd rfl h
  | cons c l2 ih => intro l1 _; exact ih _ (Or.inl (addNew_ne_nil l1 c))

/-- what the three lists of the loop state cover -/
def UState.cov (st : UState) (f : Atom → Bool) : Bool :=
  st.ours.any (fun c => c.sem f) || st.theirs.any (fun c => c.sem f) || st.merged.any (fun c => c.sem f)

def UState.all (st : UState) (P : GS → Prop) : Prop :=
  (∀ m ∈ st.ours, P m) ∧ (∀ m ∈ st.theirs, P m) ∧ (∀ m ∈ st.merged, P m)

def UState.nonempty (st : UState) : Prop := st.ours ≠ [] ∨ st.theirs ≠ [] ∨ st.merged ≠ []

theorem all_addNew {P : GS → Prop} {l : List GS} {c : GS} (hl : ∀ m ∈ l, P m) (hc : P c) :
    ∀ m ∈ addNew l c, P m := fun m hm => by
  rcases addNew_mem l c m hm with h | h
  · exact hl m h
  · exact h ▸ hc

section
variable {P : GS → Prop} {F : (Atom → Bool) → Prop} {R : GS → GS → Prop} (A : MemberAlgR P F R)
include A

theorem uStep_exact (st : UState) (hst : st.all P) (our their : GS) (hour : P our) (htheir : P their)
    (hR : R our their) :
    (uStep st our their = .ok none ∧ ∀ f, F f → (our.sem f || their.sem f) = true) ∨
    (∃ st', uStep st our their = .ok (some st') ∧ st'.all P ∧ st'.nonempty ∧
      ∀ f, F f → st'.cov f = (st.cov f || our.sem f || their.sem f)) := by
  obtain ⟨u, h1, h2, h3⟩ := A.union our their hour htheir hR
  unfold uStep
  rw [h1]
  simp only
  by_cases hany : u.isAny = true
  · left
    rw [if_pos hany]
    refine ⟨rfl, fun f hf => ?_⟩
    rw [← h3 f hf]
    match u, hany with
    | .s .any, _ => rfl
  · right
    rw [if_neg hany]
    obtain ⟨ho, ht, hm⟩ := hst
    match u, h2, h3 with
    | .s (.atom a), h2, h3 =>
      simp only
      by_cases e1 : (GS.atom a == our) = true
      · rw [if_pos e1]
        have e1' : GS.atom a = our := by simpa using e1
        refine ⟨_, rfl, ⟨all_addNew ho h2, ht, hm⟩, Or.inl (addNew_ne_nil _ _), fun f hf => ?_⟩
        have := h3 f hf
        simp only [GC.sem, e1'] at this
        simp only [UState.cov, addNew_sem, e1']
        cases h4 : our.sem f <;> cases h5 : their.sem f <;> simp_all
      · rw [if_neg e1]
        by_cases e2 : (GS.atom a == their) = true
        · rw [if_pos e2]
          have e2' : GS.atom a = their := by simpa using e2
          refine ⟨_, rfl, ⟨ho, all_addNew ht htheir, hm⟩, Or.inr (Or.inl (addNew_ne_nil _ _)), fun f hf => ?_⟩
          have := h3 f hf
          simp only [GC.sem, e2'] at this
          simp only [UState.cov, addNew_sem]
          cases h4 : our.sem f <;> cases h5 : their.sem f <;> simp_all
        · rw [if_neg e2]
          refine ⟨_, rfl, ⟨ho, ht, all_addNew hm h2⟩, Or.inr (Or.inr (addNew_ne_nil _ _)), fun f hf => ?_⟩
          have := h3 f hf
          simp only [GC.sem] at this
          simp only [UState.cov, addNew_sem, this]
          cases h4 : our.sem f <;> cases h5 : their.sem f <;> simp
    | .s .any, _, _ => exact absurd rfl hany
    | .s .empty, _, _ =>
      refine ⟨_, rfl, ⟨all_addNew ho hour, all_addNew ht htheir, hm⟩, Or.inl (addNew_ne_nil _ _), fun f hf => ?_⟩
      simp only [UState.cov, addNew_sem]
      cases h4 : our.sem f <;> cases h5 : their.sem f <;> simp
    | .s (.multi _ _), _, _ =>
      refine ⟨_, rfl, ⟨all_addNew ho hour, all_addNew ht htheir, hm⟩, Or.inl (addNew_ne_nil _ _), fun f hf => ?_⟩
      simp only [UState.cov, addNew_sem]
      cases h4 : our.sem f <;> cases h5 : their.sem f <;> simp
    | .union _, _, _ =>
      refine ⟨_, rfl, ⟨all_addNew ho hour, all_addNew ht htheir, hm⟩, Or.inl (addNew_ne_nil _ _), fun f hf => ?_⟩
      simp only [UState.cov, addNew_sem]
      cases h4 : our.sem f <;> cases h5 : their.sem f <;> simp
end

section
variable {P : GS → Prop} {F : (Atom → Bool) → Prop} {R : GS → GS → Prop} (A : MemberAlgR P F R)
include A

theorem uRow_exact (their : GS) (htheir : P their) (ms : List GS) (hms : ∀ m ∈ ms, P m)
    (hR : ∀ m ∈ ms, R m their) :
    ∀ st : UState, st.all P →
    (uRow their ms st = .ok none ∧ ∀ f, F f → (ms.any (fun c => c.sem f) || their.sem f) = true) ∨
    (∃ st', uRow their ms st = .ok (some st') ∧ st'.all P ∧ (st.nonempty ∨ ms ≠ [] → st'.nonempty) ∧
      ∀ f, F f → st'.cov f = (st.cov f || ms.any (fun c => c.sem f) || (!ms.isEmpty && their.sem f))) := by
  induction ms with
  | nil => intro st hst; right; exact ⟨st, rfl, hst, fun h => h.elim id (fun h => absurd rfl h), fun f _ => by simp⟩
  | cons our ms ih =>
    intro st hst
    rcases uStep_exact A st hst our their (hms our (by simp)) htheir (hR our (by simp)) with ⟨h1, h2⟩ | ⟨st1, h1, h2, h3, h4⟩
    · left
      refine ⟨by simp only [uRow, h1], fun f hf => ?_⟩
      have := h2 f hf
      simp only [List.any_cons]
      cases h5 : our.sem f <;> cases h6 : their.sem f <;> simp_all
    · rcases ih (fun m hm => hms m (by simp [hm])) (fun m hm => hR m (by simp [hm])) st1 h2 with ⟨g1, g2⟩ | ⟨st', g1, g2, g3, g4⟩
      · left
        refine ⟨by simp only [uRow, h1]; exact g1, fun f hf => ?_⟩
        have := g2 f hf
        simp only [List.any_cons]
        cases h5 : our.sem f <;> cases h6 : their.sem f <;> simp_all
      · right
        refine ⟨st', by simp only [uRow, h1]; exact g1, g2, fun _ => g3 (Or.inl h3), fun f hf => ?_⟩
        rw [g4 f hf, h4 f hf]
        simp only [List.any_cons, List.isEmpty_cons, Bool.not_false, Bool.true_and]
        cases h5 : our.sem f <;> cases h6 : their.sem f <;> cases h7 : st.cov f <;> simp

theorem uLoop_exact (ms : List GS) (hms : ∀ m ∈ ms, P m) (hne : ms ≠ []) (ns : List GS) (hns : ∀ n ∈ ns, P n)
    (hR : ∀ m ∈ ms, ∀ n ∈ ns, R m n) :
    ∀ st : UState, st.all P →
    (uLoop ns ms st = .ok none ∧ ∀ f, F f → (ms.any (fun c => c.sem f) || ns.any (fun c => c.sem f)) = true) ∨
    (∃ st', uLoop ns ms st = .ok (some st') ∧ st'.all P ∧ (st.nonempty ∨ ns ≠ [] → st'.nonempty) ∧
      ∀ f, F f → st'.cov f =
        (st.cov f || (!ns.isEmpty && ms.any (fun c => c.sem f)) || ns.any (fun c => c.sem f))) := by
  induction ns with
  | nil => intro st hst; right; exact ⟨st, rfl, hst, fun h => h.elim id (fun h => absurd rfl h), fun f _ => by simp⟩
  | cons their ns ih =>
    intro st hst
    rcases uRow_exact A their (hns their (by simp)) ms hms (fun m hm => hR m hm their (by simp)) st hst with ⟨h1, h2⟩ | ⟨st1, h1, h2, h3, h4⟩
    · left
      refine ⟨by simp only [uLoop, h1], fun f hf => ?_⟩
      have := h2 f hf
      simp only [List.any_cons]
      cases h5 : ms.any (fun c => c.sem f) <;> cases h6 : their.sem f <;> simp_all
    · rcases ih (fun m hm => hns m (by simp [hm])) (fun m hm n hn => hR m hm n (by simp [hn])) st1 h2 with ⟨g1, g2⟩ | ⟨st', g1, g2, g3, g4⟩
      · left
        refine ⟨by simp only [uLoop, h1]; exact g1, fun f hf => ?_⟩
        have := g2 f hf
        simp only [List.any_cons]
        cases h5 : ms.any (fun c => c.sem f) <;> cases h6 : their.sem f <;> simp_all
      · right
        refine ⟨st', by simp only [uLoop, h1]; exact g1, g2, fun _ => g3 (Or.inl (h3 (Or.inr hne))), fun f hf => ?_⟩
        rw [g4 f hf, h4 f hf]
        have : ms.isEmpty = false := by cases ms <;> simp_all
        simp only [List.any_cons, List.isEmpty_cons, Bool.not_false, Bool.true_and, this]
        cases h5 : ms.any (fun c => c.sem f) <;> cases h6 : their.sem f <;> cases h7 : st.cov f <;>
          cases h8 : ns.isEmpty <;> simp

end

theorem finishUnion_sem (f : Atom → Bool) (l : List GS) :
    (finishUnion l).sem f = l.any (fun c => c.sem f) := by
  match l with
  | [] => rfl
  | [c] => simp [finishUnion, GC.sem]
  | a :: b :: t => simp [finishUnion, GC.sem]

theorem finishUnion_Pc (P : GS → Prop) (l : List GS) (h : ∀ m ∈ l, P m) (hne : l ≠ []) :
    Pc P (finishUnion l) := by
  match l, h, hne with
  | [], _, hne => exact absurd rfl hne
  | [c], h, _ => exact h c (by simp)
  | a :: b :: t, h, _ => exact ⟨by simp, h⟩

section
variable {P : GS → Prop} {F : (Atom → Bool) → Prop} {R : GS → GS → Prop} (A : MemberAlgR P F R)
include A

/-- the `isinstance(other, UnionConstraint)` part of `UnionConstraint.union` -/
theorem unionUnionU_exact (hAny : P .any) (ms ns : List GS) (hms : Pc P (.union ms)) (hns : Pc P (.union ns))
    (hR : ∀ m ∈ ms, ∀ n ∈ ns, R m n) :
    ∃ r, (match uLoop ns ms ⟨[], [], []⟩ with
          | .error e => (.error e : PyM GC)
          | .ok none => .ok .any
          | .ok (some st) => .ok (finishUnion ((st.theirs ++ st.merged).foldl addNew st.ours))) = .ok r ∧
      Pc P r ∧ ∀ f, F f → r.sem f = (ms.any (fun c => c.sem f) || ns.any (fun c => c.sem f)) := by
  have h0 : (⟨[], [], []⟩ : UState).all P := ⟨by simp, by simp, by simp⟩
  rcases uLoop_exact A ms hms.2 hms.1 ns hns.2 hR ⟨[], [], []⟩ h0 with ⟨h1, h2⟩ | ⟨st, h1, h2, h3, h4⟩
  · rw [h1]
    exact ⟨_, rfl, hAny, fun f hf => by rw [h2 f hf]; rfl⟩
  · rw [h1]
    have hne := h3 (Or.inr hns.1)
    refine ⟨_, rfl, finishUnion_Pc P _ ?_ ?_, fun f hf => ?_⟩
    · intro m hm
      rcases foldl_addNew_mem _ _ m hm with h | h
      · exact h2.1 m h
      · rcases List.mem_append.mp h with h | h
        · exact h2.2.1 m h
        · exact h2.2.2 m h
    · apply foldl_addNew_ne_nil
      rcases hne with h | h | h
      · exact Or.inl h
      · exact Or.inr (by simp [h])
      · exact Or.inr (by simp [h])
    · rw [finishUnion_sem, foldl_addNew_sem, List.any_append]
      have := h4 f hf
      simp only [UState.cov] at this
      rw [Bool.or_assoc] at this
      rw [this]
      have : ns.isEmpty = false := by cases ns <;> simp_all [Pc]
      simp [this]

theorem unionUnion_exact (hAny : P .any) (ms : List GS) (hms : Pc P (.union ms)) (other : GC) (ho : Pc P other)
    (hR : ∀ m ∈ ms, ∀ n ∈ other.members, R m n) :
    ∃ r, unionUnion ms other = .ok r ∧ Pc P r ∧
      ∀ f, F f → r.sem f = ((GC.union ms).sem f || other.sem f) := by
  match other, ho, hR with
  | .s .any, ho, _ => exact ⟨_, rfl, ho, fun f _ => by simp [GC.sem, GS.sem]⟩
  | .s .empty, ho, _ => exact ⟨_, rfl, hms, fun f _ => by simp [GC.sem, GS.sem]⟩
  | .union ns, ho, hR =>
    simp only [unionUnion, GC.isAny, GC.isEmpty, Bool.false_eq_true, if_false]
    by_cases h0 : (GC.union ns == GC.union ms) = true
    · rw [if_pos h0]
      have : ns = ms := by simpa using h0
      subst this
      exact ⟨_, rfl, hms, fun f _ => by simp [GC.sem]⟩
    · rw [if_neg h0]
      exact unionUnionU_exact A hAny ms ns hms ho hR
  | .s (.atom o), ho, hR =>
    simp only [unionUnion, GC.isAny, GS.isAny, GC.isEmpty, GS.isEmpty, Bool.false_eq_true, if_false]
    have h0 : ¬ (GC.s (.atom o) == GC.union ms) = true := by simp
    rw [if_neg h0]
    have hns : Pc P (.union [.atom o]) := ⟨by simp, fun m hm => by simp at hm; exact hm ▸ ho⟩
    obtain ⟨r, g1, g2, g3⟩ := unionUnionU_exact A hAny ms [.atom o] hms hns hR
    exact ⟨r, g1, g2, fun f hf => by rw [g3 f hf]; simp [GC.sem]⟩
  | .s (.multi y ds), ho, _ =>
    simp only [unionUnion, GC.isAny, GS.isAny, GC.isEmpty, GS.isEmpty, Bool.false_eq_true, if_false]
    have h0 : ¬ (GC.s (.multi y ds) == GC.union ms) = true := by simp
    rw [if_neg h0]
    by_cases h1 : (ms.any (atomIn ds)) = true
    · rw [if_pos h1]
      refine ⟨_, rfl, hms, fun f _ => ?_⟩
      simp only [List.any_eq_true] at h1
      obtain ⟨c, hc, hcd⟩ := h1
      simp only [GC.sem, GS.sem]
      cases hall : ds.all f
      · simp
      · simp only [Bool.or_true, List.any_eq_true]
        match c, hc, hcd with
        | .atom a, hc, hcd =>
          refine ⟨_, hc, ?_⟩
          simp only [List.all_eq_true] at hall
          exact hall a (by simpa [atomIn] using hcd)
    · rw [if_neg h1]
      refine ⟨_, rfl, finishUnion_Pc P _ ?_ (by simp), fun f _ => ?_⟩
      · intro m hm
        rcases List.mem_append.mp hm with h | h
        · exact hms.2 m h
        · simp at h; exact h ▸ ho
      · rw [finishUnion_sem]; simp [GC.sem, GS.sem, List.any_append]

/-- `GC.unionWith` is total and exact on objects satisfying the invariant -/
theorem GC.unionWith_exactR (hAny : P .any) (hsym : ∀ a b, R a b → R b a) (a b : GC) (ha : Pc P a) (hb : Pc P b)
    (hR : ∀ m ∈ a.members, ∀ n ∈ b.members, R m n) :
    ∃ r, a.unionWith b = .ok r ∧ Pc P r ∧ ∀ f, F f → r.sem f = (a.sem f || b.sem f) := by
  match a, ha, hR with
  | .union ms, ha, hR => exact unionUnion_exact A hAny ms ha b hb hR
  | .s .any, ha, _ => exact ⟨_, rfl, ha, fun f _ => by simp [GC.sem, GS.sem]⟩
  | .s .empty, _, _ => exact ⟨b, rfl, hb, fun f _ => by simp [GC.sem, GS.sem]⟩
  | .s (.atom x), ha, hR =>
    match b, hb, hR with
    | .s b, hb, hR =>
      obtain ⟨r, g1, g2, g3⟩ := A.union (.atom x) b ha hb (hR _ (by simp [GC.members]) _ (by simp [GC.members]))
      exact ⟨r, g1, g2, fun f hf => by rw [g3 f hf]; rfl⟩
    | .union ns, hb, hR =>
      have hx : Pc P (.union [.atom x]) := ⟨by simp, fun m hm => by simp at hm; exact hm ▸ ha⟩
      obtain ⟨r, g1, g2, g3⟩ := unionUnion_exact A hAny [.atom x] hx (.union ns) hb hR
      exact ⟨r, g1, g2, fun f hf => by rw [g3 f hf]; simp [GC.sem]⟩
  | .s (.multi y cs), ha, hR =>
    match b, hb, hR with
    | .s b, hb, hR =>
      obtain ⟨r, g1, g2, g3⟩ := A.union (.multi y cs) b ha hb (hR _ (by simp [GC.members]) _ (by simp [GC.members]))
      exact ⟨r, g1, g2, fun f hf => by rw [g3 f hf]; rfl⟩
    | .union ns, hb, hR =>
      obtain ⟨r, g1, g2, g3⟩ := unionUnion_exact A hAny ns hb (.s (.multi y cs)) ha
        (fun m hm n hn => hsym _ _ (hR n hn m hm))
      exact ⟨r, g1, g2, fun f hf => by rw [g3 f hf, Bool.or_comm]⟩
end

/-! the unrestricted forms (member algebra right on every pair) -/

theorem GC.unionWith_exact {P : GS → Prop} {F : (Atom → Bool) → Prop} (A : MemberAlg P F)
    (hAny : P .any) (a b : GC) (ha : Pc P a) (hb : Pc P b) :
    ∃ r, a.unionWith b = .ok r ∧ Pc P r ∧ ∀ f, F f → r.sem f = (a.sem f || b.sem f) :=
  GC.unionWith_exactR A.toR hAny (fun _ _ _ => trivial) a b ha hb (fun _ _ _ _ => trivial)

theorem GC.unionWith_G (a b : GC) (ha : a.wfG = true) (hb : b.wfG = true) :
    ∃ r, a.unionWith b = .ok r ∧ r.wfG = true ∧ ∀ v, r.den v = (a.den v || b.den v) := by
  obtain ⟨r, h1, h2, h3⟩ := GC.unionWith_exact algG rfl a b ((Pc_wfG a).mpr ha) ((Pc_wfG b).mpr hb)
  exact ⟨r, h1, (Pc_wfG r).mp h2, fun v => h3 _ ⟨v, rfl⟩⟩

/-! ### `invert` -/

theorem Op.inv_in_x (v : String) : Atom.invert ⟨v, .in_, true⟩ = .error .value := rfl
theorem Op.inv_nc_x (v : String) : Atom.invert ⟨v, .nc, true⟩ = .error .value := rfl

/-- inverting an atom complements its single-valued meaning (all four operators) -/
theorem Atom.invert_den {a b : Atom} (h : a.invert = .ok b) (v : String) : b.den v = !a.den v := by
  obtain ⟨av, o, x⟩ := a
  cases o <;> cases x <;>
    simp only [Op.inv_eq, Op.inv_ne, Op.inv_in, Op.inv_nc, Op.inv_in_x, Op.inv_nc_x, Except.ok.injEq,
      reduceCtorEq] at h <;> subst h <;> simp [Atom.den, bne]

theorem mkMulti_eq_ok {x : Bool} {cs : List Atom} {m : GS} (h : mkMulti x cs = .ok m) : m = .multi x cs := by
  unfold mkMulti at h
  split at h
  · cases h
  · cases h; rfl

section
variable (f : Atom → Bool) (Q : Atom → Prop) (hf : ∀ a b, Q a → a.invert = .ok b → f b = !f a)
include hf

theorem mapE_invert_sem : ∀ (cs l : List Atom), (∀ c ∈ cs, Q c) → mapE Atom.invert cs = .ok l →
    (l.map GS.atom).any (fun c => c.sem f) = !cs.all f := by
  intro cs
  induction cs with
  | nil => intro l _ h; cases h; rfl
  | cons c cs ih =>
    intro l hq h
    simp only [mapE] at h
    cases hc : c.invert with
    | error e => simp [hc] at h
    | ok b =>
      cases hm : mapE Atom.invert cs with
      | error e => simp [hc, hm] at h
      | ok bs =>
        simp only [hc, hm, Except.ok.injEq] at h
        subst h
        have := ih bs (fun c hc => hq c (by simp [hc])) hm
        have e := hf c b (hq c (by simp)) hc
        rw [List.map_cons, List.any_cons, List.all_cons, this]
        simp only [GS.sem, e]
        cases f c <;> simp

def GS.atomsQ (Q : Atom → Prop) : GS → Prop
  | .atom a => Q a
  | .multi _ cs => ∀ c ∈ cs, Q c
  | _ => True

theorem GS.invert_sem (c : GS) (hq : c.atomsQ Q) (r : GC) (h : c.invert = .ok r) : r.sem f = !c.sem f := by
  cases c with
  | any => cases h; rfl
  | empty => cases h; rfl
  | atom a =>
    simp only [GS.invert] at h
    cases ha : a.invert with
    | error e => simp [ha] at h
    | ok b =>
      simp only [ha, Except.ok.injEq] at h; subst h
      simp [GC.sem, GS.sem, hf a b hq ha]
  | multi x cs =>
    simp only [GS.invert] at h
    cases hm : mapE Atom.invert cs with
    | error e => simp [hm] at h
    | ok l =>
      simp only [hm, Except.ok.injEq] at h; subst h
      simp only [GC.sem, GS.sem]
      exact mapE_invert_sem f Q hf cs l hq hm

theorem unionInvert_aux : ∀ (ms : List GS) (inv : List GC) (as : List Atom), (∀ m ∈ ms, m.atomsQ Q) →
    mapE GS.invert ms = .ok inv → atomsOf? inv = some as → as.all f = !ms.any (fun c => c.sem f) := by
  intro ms
  induction ms with
  | nil => intro inv as _ h1 h2; cases h1; simp [atomsOf?] at h2; subst h2; rfl
  | cons m ms ih =>
    intro inv as hq h1 h2
    simp only [mapE] at h1
    cases hm : m.invert with
    | error e => simp [hm] at h1
    | ok i =>
      cases hms : mapE GS.invert ms with
      | error e => simp [hm, hms] at h1
      | ok inv' =>
        simp only [hm, hms, Except.ok.injEq] at h1
        subst h1
        match i, hm, h2 with
        | .s (.atom a), hm, h2 =>
          simp only [atomsOf?] at h2
          cases ha : atomsOf? inv' with
          | none => simp [ha] at h2
          | some as' =>
            simp only [ha, Option.map_some, Option.some.injEq] at h2
            subst h2
            have h3 := ih inv' as' (fun m hm => hq m (by simp [hm])) hms ha
            have h4 : f a = !m.sem f := GS.invert_sem f Q hf m (hq m (by simp)) _ hm
            rw [List.all_cons, List.any_cons, h3, h4]
            cases m.sem f <;> simp
        | .s .any, _, h2 => simp [atomsOf?] at h2
        | .s .empty, _, h2 => simp [atomsOf?] at h2
        | .s (.multi _ _), _, h2 => simp [atomsOf?] at h2
        | .union _, _, h2 => simp [atomsOf?] at h2

def GC.atomsQ (Q : Atom → Prop) : GC → Prop
  | .s c => c.atomsQ Q
  | .union ms => ∀ m ∈ ms, m.atomsQ Q

/-- inversion, where it returns, is the complement (for any atom meaning that `Atom.invert` complements) -/
theorem GC.invert_sem (c : GC) (hq : c.atomsQ Q) (r : GC) (h : c.invert = .ok r) : r.sem f = !c.sem f := by
  cases c with
  | s c => exact GS.invert_sem f Q hf c hq r h
  | union ms =>
    simp only [GC.invert, unionInvert] at h
    cases hm : mapE GS.invert ms with
    | error e => simp [hm] at h
    | ok inv =>
      simp only [hm] at h
      cases ha : atomsOf? inv with
      | none => simp [ha] at h
      | some as =>
        simp only [ha] at h
        cases hmk : mkMulti (as.any fun a => a.x) as with
        | error e => simp [hmk] at h
        | ok m =>
          have hm' := mkMulti_eq_ok hmk
          subst hm'
          simp only [hmk, Except.ok.injEq] at h; subst h
          exact unionInvert_aux f Q hf ms inv as hq hm ha
end

theorem GC.atomsQ_true (c : GC) : c.atomsQ (fun _ => True) := by
  cases c with
  | s c => cases c <;> simp [GC.atomsQ, GS.atomsQ]
  | union ms => intro m _; cases m <;> simp [GS.atomsQ]

theorem GC.invert_G (c r : GC) (h : c.invert = .ok r) (v : String) : r.den v = !c.den v :=
  GC.invert_sem (fun a => a.den v) (fun _ => True) (fun a b _ hab => Atom.invert_den hab v) c
    (GC.atomsQ_true c) r h

/-! ### `allows_all` / `allows_any` are never wrong (single-valued `==`/`!=` fragment) -/

/-- every atom of the object has operator `==` or `!=` -/
def GS.frag : GS → Bool
  | .atom a => a.isEqNe
  | .multi _ cs => cs.all Atom.isEqNe
  | _ => true

def GC.frag : GC → Bool
  | .s c => c.frag
  | .union ms => ms.all GS.frag

theorem GS.frag_of_wfG {c : GS} (h : c.wfG = true) : c.frag = true := by
  cases c with
  | any => rfl
  | empty => rfl
  | atom a => simp only [GS.wfG, Bool.and_eq_true] at h; exact h.2
  | multi x cs =>
    have := (wfG_multi h).2
    simp only [GS.frag, List.all_eq_true]
    intro c hc; simp [Atom.isEqNe, (this c hc).2]

theorem GC.frag_of_wfG {c : GC} (h : c.wfG = true) : c.frag = true := by
  cases c with
  | s c => exact GS.frag_of_wfG h
  | union ms =>
    simp only [GC.wfG, Bool.and_eq_true, List.all_eq_true] at h
    simp only [GC.frag, List.all_eq_true]
    exact fun m hm => GS.frag_of_wfG (h.2 m hm)

theorem isEqNe_iff {a : Atom} : a.isEqNe = true ↔ a.op = .eq ∨ a.op = .ne := by
  simp [Atom.isEqNe]

theorem Atom.allowsAllA_sound (a o : Atom) (ho : o.isEqNe = true) (h : a.allowsAllA o = true) (v : String)
    (hv : o.den v = true) : a.den v = true := by
  unfold Atom.allowsAllA at h
  rcases isEqNe_iff.mp ho with hoe | hon
  · simp only [hoe, beq_self_eq_true, if_true] at h
    have : v = o.value := by simpa [Atom.den_eq hoe] using hv
    rw [this, ← Atom.allowsV_eq_den]; exact h
  · have e1 : (o.op == Op.eq) = false := by simp [hon]
    have e2 : (o.op == Op.in_) = false := by simp [hon]
    have e3 : (o.op == Op.nc) = false := by simp [hon]
    simp only [e1, e2, e3, Bool.false_and, Bool.false_eq_true, if_false] at h
    have : a = o := by simpa using h
    rw [this]; exact hv

theorem Atom.allowsAllS_sound (a : Atom) (o : GS) (ho : o.frag = true) (h : a.allowsAllS o = true) (v : String)
    (hv : o.den v = true) : a.den v = true := by
  cases o with
  | any => simp [Atom.allowsAllS] at h
  | empty => simp [GS.den, GS.sem] at hv
  | atom o => exact Atom.allowsAllA_sound a o ho h v hv
  | multi y cs =>
    simp only [Atom.allowsAllS, List.any_eq_true] at h
    obtain ⟨c, hc, hac⟩ := h
    simp only [GS.frag, List.all_eq_true] at ho
    simp only [GS.den, GS.sem, List.all_eq_true] at hv
    exact Atom.allowsAllA_sound a c (ho c hc) hac v (hv c hc)

theorem GS.allowsAllS_sound (a o : GS) (ho : o.frag = true) (h : a.allowsAllS o = true) (v : String)
    (hv : o.den v = true) : a.den v = true := by
  cases a with
  | any => rfl
  | empty =>
    cases o <;> simp [GS.allowsAllS, GS.isEmpty] at h
    simp [GS.den, GS.sem] at hv
  | atom a => exact Atom.allowsAllS_sound a o ho h v hv
  | multi x cs =>
    cases o with
    | multi y ds =>
      simp only [GS.allowsAllS, List.all_eq_true, List.contains_eq_mem, decide_eq_true_eq] at h
      simp only [GS.den, GS.sem, List.all_eq_true] at hv ⊢
      exact fun c hc => hv c (h c hc)
    | any =>
      simp only [GS.allowsAllS, List.all_eq_true] at h
      simp only [GS.den, GS.sem, List.all_eq_true]
      exact fun c hc => Atom.allowsAllS_sound c _ ho (h c hc) v hv
    | empty => simp [GS.den, GS.sem] at hv
    | atom o =>
      simp only [GS.allowsAllS, List.all_eq_true] at h
      simp only [GS.den, GS.sem, List.all_eq_true]
      exact fun c hc => Atom.allowsAllS_sound c _ ho (h c hc) v hv

theorem Atom.allowsAll_union_sound (a : Atom) (ns : List GS) (ho : (GC.union ns).frag = true)
    (h : a.allowsAll (.union ns) = true) (v : String) (hv : (GC.union ns).den v = true) : a.den v = true := by
  simp only [Atom.allowsAll, List.all_eq_true] at h
  simp only [GC.den, GC.sem, List.any_eq_true] at hv
  simp only [GC.frag, List.all_eq_true] at ho
  obtain ⟨n, hn, hnv⟩ := hv
  exact Atom.allowsAllS_sound a n (ho n hn) (h n hn) v hnv

theorem GS.allowsAll_sound (a : GS) (o : GC) (ho : o.frag = true) (h : a.allowsAll o = true) (v : String)
    (hv : o.den v = true) : a.den v = true := by
  cases o with
  | s o =>
    have h' : a.allowsAllS o = true := by cases a <;> exact h
    exact GS.allowsAllS_sound a o ho h' v hv
  | union ns =>
    cases a with
    | any => rfl
    | empty => simp [GS.allowsAll] at h
    | atom a => exact Atom.allowsAll_union_sound a ns ho h v hv
    | multi x cs =>
      simp only [GS.allowsAll, List.all_eq_true] at h
      simp only [GS.den, GS.sem, List.all_eq_true]
      exact fun c hc => Atom.allowsAll_union_sound c ns ho (h c hc) v hv

/-- `allows_all` answering yes is never wrong (needs only that the *second* operand is in the fragment) -/
theorem GC.allowsAll_sound (a o : GC) (ho : o.frag = true) (h : a.allowsAll o = true) (v : String)
    (hv : o.den v = true) : a.den v = true := by
  cases a with
  | s a => exact GS.allowsAll_sound a o ho h v hv
  | union ms =>
    cases o with
    | s o =>
      simp only [GC.allowsAll, List.any_eq_true] at h
      obtain ⟨c, hc, hco⟩ := h
      simp only [GC.den, GC.sem, List.any_eq_true]
      exact ⟨c, hc, GS.allowsAllS_sound c o ho hco v hv⟩
    | union ns =>
      simp only [GC.allowsAll, List.all_eq_true, List.any_eq_true] at h
      simp only [GC.den, GC.sem, List.any_eq_true] at hv ⊢
      simp only [GC.frag, List.all_eq_true] at ho
      obtain ⟨n, hn, hnv⟩ := hv
      obtain ⟨c, hc, hcn⟩ := h n hn
      exact ⟨c, hc, GS.allowsAllS_sound c n (ho n hn) hcn v hnv⟩

theorem Atom.allowsAnyS_sound (a : Atom) (o : GS) (ha : a.isEqNe = true) (ho : o.frag = true) (v : String)
    (hav : a.den v = true) (hov : o.den v = true) : a.allowsAnyS o = true := by
  unfold Atom.allowsAnyS
  rcases isEqNe_iff.mp ha with hae | han
  · simp only [hae, beq_self_eq_true, if_true]
    have : v = a.value := by simpa [Atom.den_eq hae] using hav
    rw [GS.allowsV_eq_den, ← this]; exact hov
  · have e1 : (a.op == Op.eq) = false := by simp [han]
    simp only [e1, Bool.false_eq_true, if_false]
    cases o with
    | any => rfl
    | empty => simp [GS.den, GS.sem] at hov
    | multi _ _ => rfl
    | atom o =>
      simp only
      unfold Atom.allowsAnyA
      rcases isEqNe_iff.mp ho with hoe | hon
      · simp only [hoe, beq_self_eq_true, if_true]
        have : v = o.value := by simpa [GS.den, GS.sem, Atom.den_eq hoe] using hov
        rw [Atom.allowsV_eq_den, ← this]; exact hav
      · simp [hon, han]

theorem Atom.allowsAny_union_sound (a : Atom) (ns : List GS) (ha : a.isEqNe = true)
    (ho : (GC.union ns).frag = true) (v : String) (hav : a.den v = true) (hov : (GC.union ns).den v = true) :
    a.allowsAny (.union ns) = true := by
  unfold Atom.allowsAny
  rcases isEqNe_iff.mp ha with hae | han
  · simp only [hae, beq_self_eq_true, if_true]
    have : v = a.value := by simpa [Atom.den_eq hae] using hav
    rw [GC.allowsV_eq_den, ← this]; exact hov
  · have e1 : (a.op == Op.eq) = false := by simp [han]
    simp only [e1, Bool.false_eq_true, if_false, List.any_eq_true]
    simp only [GC.den, GC.sem, List.any_eq_true] at hov
    simp only [GC.frag, List.all_eq_true] at ho
    obtain ⟨n, hn, hnv⟩ := hov
    exact ⟨n, hn, Atom.allowsAnyS_sound a n ha (ho n hn) v hav hnv⟩

theorem GS.allowsAnyS_sound (a o : GS) (ha : a.frag = true) (ho : o.frag = true) (v : String)
    (hav : a.den v = true) (hov : o.den v = true) : a.allowsAnyS o = true := by
  cases a with
  | any => rfl
  | empty => simp [GS.den, GS.sem] at hav
  | atom a => exact Atom.allowsAnyS_sound a o ha ho v hav hov
  | multi x cs =>
    cases o with
    | any => rfl
    | empty => simp [GS.den, GS.sem] at hov
    | multi _ _ => rfl
    | atom o =>
      simp only [GS.allowsAnyS]
      rcases isEqNe_iff.mp ho with hoe | hon
      · simp only [hoe, beq_self_eq_true, if_true]
        have : v = o.value := by simpa [GS.den, GS.sem, Atom.den_eq hoe] using hov
        rw [GS.allowsV_eq_den, ← this]; exact hav
      · simp [hon]

theorem GS.allowsAny_sound (a : GS) (o : GC) (ha : a.frag = true) (ho : o.frag = true) (v : String)
    (hav : a.den v = true) (hov : o.den v = true) : a.allowsAny o = true := by
  cases o with
  | s o =>
    have : a.allowsAny (.s o) = a.allowsAnyS o := by cases a <;> rfl
    rw [this]; exact GS.allowsAnyS_sound a o ha ho v hav hov
  | union ns =>
    cases a with
    | any => rfl
    | empty => simp [GS.den, GS.sem] at hav
    | atom a => exact Atom.allowsAny_union_sound a ns ha ho v hav hov
    | multi x cs =>
      simp only [GS.allowsAny, List.any_eq_true, List.all_eq_true]
      simp only [GC.den, GC.sem, List.any_eq_true] at hov
      simp only [GC.frag, List.all_eq_true] at ho
      simp only [GS.frag, List.all_eq_true] at ha
      simp only [GS.den, GS.sem, List.all_eq_true] at hav
      obtain ⟨n, hn, hnv⟩ := hov
      exact ⟨n, hn, fun c hc => Atom.allowsAnyS_sound c n (ha c hc) (ho n hn) v (hav c hc) hnv⟩

/-- `allows_any` answering no is never wrong: a common value forces the answer yes -/
theorem GC.allowsAny_sound (a o : GC) (ha : a.frag = true) (ho : o.frag = true) (v : String)
    (hav : a.den v = true) (hov : o.den v = true) : a.allowsAny o = true := by
  cases a with
  | s a => exact GS.allowsAny_sound a o ha ho v hav hov
  | union ms =>
    simp only [GC.den, GC.sem, List.any_eq_true] at hav
    simp only [GC.frag, List.all_eq_true] at ha
    obtain ⟨m, hm, hmv⟩ := hav
    cases o with
    | s o =>
      simp only [GC.allowsAny, List.any_eq_true]
      exact ⟨m, hm, GS.allowsAnyS_sound m o (ha m hm) ho v hmv hov⟩
    | union ns =>
      simp only [GC.allowsAny, List.any_eq_true]
      simp only [GC.den, GC.sem, List.any_eq_true] at hov
      simp only [GC.frag, List.all_eq_true] at ho
      obtain ⟨n, hn, hnv⟩ := hov
      exact ⟨m, hm, n, hn, GS.allowsAnyS_sound m n (ha m hm) (ho n hn) v hmv hnv⟩

/-! ### `extra` variant: inversion -/

theorem Atom.invert_denX {a b : Atom} (ha : a.isEqNe = true) (h : a.invert = .ok b) (E : String → Bool) :
    b.denX E = !a.denX E := by
  obtain ⟨av, o, x⟩ := a
  rcases isEqNe_iff.mp ha with h1 | h1 <;> simp only at h1 <;> subst h1 <;>
    simp only [Op.inv_eq, Op.inv_ne, Except.ok.injEq] at h <;> subst h <;> simp [Atom.denX]

theorem GC.atomsQ_of_frag (c : GC) (h : c.frag = true) : c.atomsQ (fun a => a.isEqNe = true) := by
  cases c with
  | s c =>
    cases c with
    | any => trivial
    | empty => trivial
    | atom a => exact h
    | multi x cs => simpa [GC.atomsQ, GS.atomsQ, GC.frag, GS.frag] using h
  | union ms =>
    simp only [GC.frag, List.all_eq_true] at h
    intro m hm
    have := h m hm
    cases m with
    | any => trivial
    | empty => trivial
    | atom a => exact this
    | multi x cs => simpa [GS.atomsQ, GS.frag] using this

theorem GC.invert_X (c r : GC) (hc : c.frag = true) (h : c.invert = .ok r) (E : String → Bool) :
    r.denX E = !c.denX E :=
  GC.invert_sem (fun a => a.denX E) (fun a => a.isEqNe = true) (fun a b ha hab => Atom.invert_denX ha hab E) c
    (GC.atomsQ_of_frag c hc) r h

theorem GS.frag_of_wfX {c : GS} (h : c.wfX = true) : c.frag = true := by
  cases c with
  | any => rfl
  | empty => rfl
  | atom a => simp only [GS.wfX, Bool.and_eq_true] at h; exact h.2
  | multi x cs =>
    simp only [GS.wfX, Bool.and_eq_true, List.all_eq_true] at h
    simp only [GS.frag, List.all_eq_true]
    exact fun c hc => (h.1.2 c hc).2

theorem GC.frag_of_wfX {c : GC} (h : c.wfX = true) : c.frag = true := by
  cases c with
  | s c => exact GS.frag_of_wfX h
  | union ms =>
    simp only [GC.wfX, Bool.and_eq_true, List.all_eq_true] at h
    simp only [GC.frag, List.all_eq_true]
    exact fun m hm => GS.frag_of_wfX (h.2 m hm)

/-! ## `extra` variant: atom and multi level -/

def FX (f : Atom → Bool) : Prop := ∃ E : String → Bool, f = fun a => a.denX E

theorem wfX_atom {a : Atom} (h : (GS.atom a).wfX = true) : a.x = true ∧ a.isEqNe = true := by
  simpa [GS.wfX] using h

theorem wfX_multi {x : Bool} {cs : List Atom} (h : (GS.multi x cs).wfX = true) :
    x = true ∧ (∀ c ∈ cs, c.x = true ∧ c.isEqNe = true) ∧ (cs.map (fun c => c.value)).Nodup := by
  simp only [GS.wfX, Bool.and_eq_true, List.all_eq_true, decide_eq_true_eq] at h
  exact ⟨h.1.1, h.1.2, h.2⟩

theorem wfX_multi_mk {cs : List Atom} (h1 : ∀ c ∈ cs, c.x = true ∧ c.isEqNe = true)
    (h2 : (cs.map (fun c => c.value)).Nodup) : (GS.multi true cs).wfX = true := by
  simp only [GS.wfX, Bool.and_eq_true, List.all_eq_true, decide_eq_true_eq]
  exact ⟨⟨trivial, h1⟩, h2⟩

/-- two `extra` atoms on the same value are equal or complementary -/
theorem xAtom_same_value {a o : Atom} (ha : a.x = true ∧ a.isEqNe = true) (ho : o.x = true ∧ o.isEqNe = true)
    (hv : a.value = o.value) : a = o ∨ (a.op ≠ o.op ∧ ∀ E, a.denX E = !o.denX E) := by
  obtain ⟨av, aop, ax⟩ := a; obtain ⟨ov, oop, ox⟩ := o
  simp only at hv ha ho; subst hv
  obtain ⟨rfl, ha⟩ := ha; obtain ⟨rfl, ho⟩ := ho
  rcases isEqNe_iff.mp ha with h | h <;> rcases isEqNe_iff.mp ho with h' | h' <;> simp only at h h' <;>
    subst h <;> subst h' <;> simp [Atom.denX]

theorem Atom.intersectA_X (a o : Atom) (ha : (GS.atom a).wfX = true) (ho : (GS.atom o).wfX = true) :
    ∃ r, a.intersectA o = .ok r ∧ r.wfX = true ∧ ∀ E, r.denX E = (a.denX E && o.denX E) := by
  have ha' := wfX_atom ha
  have ho' := wfX_atom ho
  unfold Atom.intersectA
  rw [if_pos ha'.1]
  by_cases h1 : (o == a) = true
  · rw [if_pos h1]
    have : o = a := by simpa using h1
    subst this
    exact ⟨_, rfl, ha, fun E => by simp [GS.denX, GS.sem]⟩
  · rw [if_neg h1]
    have hne : ¬ a = o := fun e => h1 (by simp [e])
    by_cases h2 : (a.value == o.value && a.op != o.op) = true
    · rw [if_pos h2]
      simp only [Bool.and_eq_true, beq_iff_eq] at h2
      rcases xAtom_same_value ha' ho' h2.1 with h | ⟨_, h⟩
      · exact absurd h hne
      · exact ⟨_, rfl, rfl, fun E => by simp [GS.denX, GS.sem, h E]⟩
    · rw [if_neg h2]
      have hv : a.value ≠ o.value := by
        intro e
        rcases xAtom_same_value ha' ho' e with h | ⟨h, _⟩
        · exact hne h
        · apply h2; simp [e, h]
      rw [mkMulti_true_ok _ (by intro c hc; simp at hc; rcases hc with rfl | rfl; exact ha'.2; exact ho'.2)]
      refine ⟨_, rfl, wfX_multi_mk ?_ ?_, fun E => by simp [GS.denX, GS.sem]⟩
      · intro c hc; simp at hc; rcases hc with rfl | rfl; exact ha'; exact ho'
      · simp [hv]

theorem Atom.unionA_X (a o : Atom) (ha : (GS.atom a).wfX = true) (ho : (GS.atom o).wfX = true) :
    ∃ r, a.unionA o = .ok r ∧ r.wfX = true ∧ ∀ E, r.denX E = (a.denX E || o.denX E) := by
  have ha' := wfX_atom ha
  have ho' := wfX_atom ho
  unfold Atom.unionA
  rw [if_pos ha'.1]
  by_cases h1 : (o == a) = true
  · rw [if_pos h1]
    have : o = a := by simpa using h1
    subst this
    exact ⟨_, rfl, ha, fun E => by simp [GC.denX, GC.sem, GS.sem]⟩
  · rw [if_neg h1]
    have hne : ¬ a = o := fun e => h1 (by simp [e])
    by_cases h2 : (a.value == o.value && a.op != o.op) = true
    · rw [if_pos h2]
      simp only [Bool.and_eq_true, beq_iff_eq] at h2
      rcases xAtom_same_value ha' ho' h2.1 with h | ⟨_, h⟩
      · exact absurd h hne
      · exact ⟨_, rfl, rfl, fun E => by simp [GC.denX, GC.sem, GS.sem, h E]⟩
    · rw [if_neg h2]
      refine ⟨_, rfl, ?_, fun E => by simp [GC.denX, GC.sem, GS.sem]⟩
      simp only [GC.wfX, List.isEmpty_cons, Bool.not_false, List.all_cons, List.all_nil, Bool.and_true,
        Bool.true_and, Bool.and_eq_true]
      exact ⟨ha, ho⟩

theorem Atom.invert_X_ok {o : Atom} (ho : o.x = true ∧ o.isEqNe = true) :
    ∃ i, o.invert = .ok i ∧ i.x = true ∧ i.isEqNe = true ∧ i.value = o.value ∧ i.op ≠ o.op ∧
      ∀ E, i.denX E = !o.denX E := by
  obtain ⟨ov, oop, ox⟩ := o
  obtain ⟨h1, h2⟩ := ho
  simp only at h1; subst h1
  rcases isEqNe_iff.mp h2 with h | h <;> simp only at h <;> subst h
  · exact ⟨_, Op.inv_eq ov true, rfl, rfl, rfl, by simp, fun E => by simp [Atom.denX]⟩
  · exact ⟨_, Op.inv_ne ov true, rfl, rfl, rfl, by simp, fun E => by simp [Atom.denX]⟩

theorem multiIntersectA_X (cs : List Atom) (o : Atom) (hcs : (GS.multi true cs).wfX = true)
    (ho : (GS.atom o).wfX = true) :
    ∃ r, multiIntersectA true cs o = .ok r ∧ r.wfX = true ∧
      ∀ E, r.denX E = (cs.all (fun c => c.denX E) && o.denX E) := by
  obtain ⟨_, hcs1, hcs2⟩ := wfX_multi hcs
  have ho' := wfX_atom ho
  unfold multiIntersectA
  by_cases h1 : cs.contains o = true
  · rw [if_pos h1]
    refine ⟨_, rfl, hcs, fun E => ?_⟩
    simp only [GS.denX, GS.sem]
    exact (all_and_of_mem _ cs o (by simpa using h1)).symm
  · rw [if_neg h1]
    have hcond : ¬ (o.op == Op.eq && !(multiOps true).contains "==") = true := by
      simp [multiOps_true]
    rw [if_neg hcond]
    obtain ⟨i, hi, hix, hie, hiv, hiop, hiden⟩ := Atom.invert_X_ok ho'
    rw [hi]
    simp only
    by_cases h2 : cs.contains i = true
    · rw [if_pos h2]
      refine ⟨_, rfl, rfl, fun E => ?_⟩
      have him : i ∈ cs := by simpa using h2
      simp only [GS.denX, GS.sem]
      cases hov : o.denX E
      · simp
      · have : cs.all (fun c => c.denX E) = false := by
          simp only [List.all_eq_false]; exact ⟨i, him, by simp [hiden E, hov]⟩
        simp [this]
    · rw [if_neg h2]
      have hall : ∀ c ∈ cs ++ [o], c.x = true ∧ c.isEqNe = true := by
        intro c hc
        rcases List.mem_append.mp hc with h | h
        · exact hcs1 c h
        · simp at h; subst h; exact ho'
      rw [mkMulti_true_ok _ (fun c hc => (hall c hc).2)]
      refine ⟨_, rfl, wfX_multi_mk hall ?_, fun E => by simp [GS.denX, GS.sem, List.all_append]⟩
      rw [List.map_append, List.nodup_append]
      refine ⟨hcs2, by simp, ?_⟩
      intro a ha b hb
      simp only [List.map_cons, List.map_nil, List.mem_singleton] at hb
      subst hb
      simp only [List.mem_map] at ha
      obtain ⟨c, hc, hcv⟩ := ha
      intro e
      rcases xAtom_same_value (hcs1 c hc) ho' (hcv.trans e) with h | ⟨h, _⟩
      · apply h1; simpa [h] using hc
      · -- c is the inverse of o
        apply h2
        have : c = i := by
          rcases xAtom_same_value (hcs1 c hc) ⟨hix, hie⟩ ((hcv.trans e).trans hiv.symm) with h' | ⟨h', _⟩
          · exact h'
          · exfalso
            have hc2 := isEqNe_iff.mp (hcs1 c hc).2
            have ho2 := isEqNe_iff.mp ho'.2
            have hi2 := isEqNe_iff.mp hie
            rcases hc2 with a1 | a1 <;> rcases ho2 with a2 | a2 <;> rcases hi2 with a3 | a3 <;> simp_all
        simpa [this] using hc

theorem eqNeClash_iff (l : List Atom) :
    eqNeClash l = true ↔ ∃ c ∈ l, ∃ d ∈ l, c.op = .eq ∧ d.op = .ne ∧ d.value = c.value := by
  simp only [eqNeClash, List.any_eq_true, List.mem_filter, beq_iff_eq]
  constructor
  · rintro ⟨c, ⟨hc, hce⟩, d, ⟨hd, hdn⟩, hv⟩
    refine ⟨c, hc, d, hd, ?_, ?_, hv⟩
    · cases h : c.op <;> simp [h, Op.str] at hce ⊢
    · cases h : d.op <;> simp [h, Op.str] at hdn ⊢
  · rintro ⟨c, hc, d, hd, hce, hdn, hv⟩
    exact ⟨c, ⟨hc, by simp [hce, Op.str]⟩, d, ⟨hd, by simp [hdn, Op.str]⟩, hv⟩

theorem multiIntersectM_X (cs ds : List Atom) (hcs : (GS.multi true cs).wfX = true)
    (hds : (GS.multi true ds).wfX = true) :
    ∃ r, multiIntersectM true cs ds = .ok r ∧ r.wfX = true ∧
      ∀ E, r.denX E = (cs.all (fun c => c.denX E) && ds.all (fun c => c.denX E)) := by
  obtain ⟨_, hcs1, hcs2⟩ := wfX_multi hcs
  obtain ⟨_, hds1, hds2⟩ := wfX_multi hds
  unfold multiIntersectM
  by_cases hcl : eqNeClash (cs ++ ds) = true
  · rw [if_pos (by simp [hcl])]
    refine ⟨_, rfl, rfl, fun E => ?_⟩
    obtain ⟨c, hc, d, hd, hce, hdn, hv⟩ := (eqNeClash_iff _).mp hcl
    rw [← List.all_append]
    simp only [GS.denX, GS.sem]
    symm
    simp only [List.all_eq_false]
    by_cases hE : E c.value = true
    · exact ⟨d, hd, by simp [Atom.denX, hdn, hv, hE]⟩
    · exact ⟨c, hc, by simp [Atom.denX, hce, hE]⟩
  · rw [if_neg (by simp [hcl])]
    have hall : ∀ c ∈ cs ++ ds.filter (fun c => !cs.contains c), c.x = true ∧ c.isEqNe = true := by
      intro c hc
      rcases List.mem_append.mp hc with h | h
      · exact hcs1 c h
      · exact hds1 c (List.mem_filter.mp h).1
    rw [mkMulti_true_ok _ (fun c hc => (hall c hc).2)]
    refine ⟨_, rfl, wfX_multi_mk hall ?_, fun E => ?_⟩
    · rw [List.map_append, List.nodup_append]
      refine ⟨hcs2, ?_, ?_⟩
      · exact List.Nodup.sublist (List.Sublist.map _ List.filter_sublist) hds2
      · intro a ha b hb e
        simp only [List.mem_map, List.mem_filter, Bool.not_eq_true', List.contains_eq_mem,
          decide_eq_false_iff_not] at ha hb
        obtain ⟨c, hc, hcv⟩ := ha
        obtain ⟨d, ⟨hd, hdn⟩, hdv⟩ := hb
        rcases xAtom_same_value (hcs1 c hc) (hds1 d hd) (by rw [hcv, hdv, e]) with h | ⟨h, _⟩
        · exact hdn (h ▸ hc)
        · apply hcl
          rw [eqNeClash_iff]
          have hc2 := isEqNe_iff.mp (hcs1 c hc).2
          have hd2 := isEqNe_iff.mp (hds1 d hd).2
          have hcv' : c.value = d.value := by rw [hcv, hdv, e]
          rcases hc2 with a1 | a1 <;> rcases hd2 with a2 | a2
          · exact absurd (a1.trans a2.symm) h
          · exact ⟨c, by simp [hc], d, by simp [hd], a1, a2, hcv'.symm⟩
          · exact ⟨d, by simp [hd], c, by simp [hc], a2, a1, hcv'⟩
          · exact absurd (a1.trans a2.symm) h
    · simp only [GS.denX, GS.sem]
      exact all_append_filter_not_mem _ cs ds

theorem all_of_subsetL_or (f : Atom → Bool) (cs ds : List Atom) (h : subsetL cs ds = true) :
    (cs.all f || ds.all f) = cs.all f := by
  cases hd : ds.all f
  · simp
  · simp [all_of_subset f cs ds h hd]

theorem multiUnionM_X (cs ds : List Atom) (y : Bool) (hcs : (GS.multi true cs).wfX = true)
    (hds : (GS.multi y ds).wfX = true) :
    ∃ r, multiUnionM true cs y ds = .ok r ∧ r.wfX = true ∧
      ∀ E, r.denX E = (cs.all (fun c => c.denX E) || ds.all (fun c => c.denX E)) := by
  unfold multiUnionM
  rw [if_pos rfl]
  by_cases h1 : subsetL cs ds = true
  · rw [if_pos h1]
    exact ⟨_, rfl, hcs, fun E => by simp only [GC.denX, GC.sem, GS.sem]; exact (all_of_subsetL_or _ cs ds h1).symm⟩
  · rw [if_neg h1]
    by_cases h2 : subsetL ds cs = true
    · rw [if_pos h2]
      exact ⟨_, rfl, hds, fun E => by
        simp only [GC.denX, GC.sem, GS.sem]; rw [Bool.or_comm]; exact (all_of_subsetL_or _ ds cs h2).symm⟩
    · rw [if_neg h2]
      refine ⟨_, rfl, ?_, fun E => by simp [GC.denX, GC.sem, GS.sem]⟩
      simp only [GC.wfX, List.isEmpty_cons, Bool.not_false, List.all_cons, List.all_nil, Bool.and_true,
        Bool.true_and, Bool.and_eq_true]
      exact ⟨hcs, hds⟩

theorem eraseDups_of_nodup : ∀ (l : List String), l.Nodup → l.eraseDups = l := by
  intro l
  induction l with
  | nil => intro _; exact List.eraseDups_nil
  | cons a l ih =>
    intro h
    rw [List.nodup_cons] at h
    rw [List.eraseDups_cons]
    have : l.filter (fun b => !b == a) = l := by
      rw [List.filter_eq_self]
      intro b hb
      simp only [Bool.not_eq_true', beq_eq_false_iff_ne, ne_eq]
      intro e; exact h.1 (e ▸ hb)
    rw [this, ih h.2]

theorem multiUnionA_X (cs : List Atom) (o : Atom) (hcs : (GS.multi true cs).wfX = true)
    (ho : (GS.atom o).wfX = true) :
    ∃ r, multiUnionA true cs o = .ok r ∧ r.wfX = true ∧
      ∀ E, r.denX E = (cs.all (fun c => c.denX E) || o.denX E) := by
  obtain ⟨_, hcs1, hcs2⟩ := wfX_multi hcs
  have ho' := wfX_atom ho
  unfold multiUnionA
  rw [if_pos rfl]
  by_cases h1 : cs.contains o = true
  · rw [if_pos h1]
    refine ⟨_, rfl, ho, fun E => ?_⟩
    have hm : o ∈ cs := by simpa using h1
    simp only [GC.denX, GC.sem, GS.sem]
    cases hall : cs.all (fun c => c.denX E)
    · simp
    · simp only [List.all_eq_true] at hall; simp [hall o hm]
  · rw [if_neg h1]
    by_cases h2 : ((cs.map (fun c => c.value)).eraseDups.length == 2 &&
        (cs.map (fun c => c.value)).contains o.value) = true
    · rw [if_pos h2]
      rw [eraseDups_of_nodup _ hcs2] at h2
      simp only [Bool.and_eq_true, beq_iff_eq, List.length_map, List.contains_eq_mem, decide_eq_true_eq] at h2
      obtain ⟨hlen, hmem⟩ := h2
      obtain ⟨c1, c2, rfl⟩ : ∃ c1 c2, cs = [c1, c2] := by
        match cs, hlen with
        | [c1, c2], _ => exact ⟨c1, c2, rfl⟩
      have hc1 := hcs1 c1 (by simp)
      have hc2 := hcs1 c2 (by simp)
      have hno1 : ¬ c1 = o := fun e => h1 (by simp [e])
      have hno2 : ¬ c2 = o := fun e => h1 (by simp [e])
      have hdist : c1.value ≠ c2.value := by
        simp only [List.map_cons, List.map_nil, List.nodup_cons, List.mem_singleton] at hcs2
        exact hcs2.1
      simp only [List.map_cons, List.map_nil, List.mem_cons, List.not_mem_nil, or_false] at hmem
      have wfu : ∀ c : Atom, c.x = true ∧ c.isEqNe = true → (GC.union [.atom c, .atom o]).wfX = true := by
        intro c hc
        simp only [GC.wfX, List.isEmpty_cons, Bool.not_false, List.all_cons, List.all_nil, Bool.and_true,
          Bool.true_and, Bool.and_eq_true, GS.wfX]
        exact ⟨by simp [hc.1, hc.2], by simp [ho'.1, ho'.2]⟩
      rcases hmem with e | e
      · -- c1 carries o's value: it is o's complement and is dropped
        have hf : [c1, c2].filter (fun c => c.value != o.value) = [c2] := by
          have a1 : (c1.value != o.value) = false := by simp [e]
          have a2 : (c2.value != o.value) = true := by
            simp only [bne_iff_ne, ne_eq]; intro e2; exact hdist (e ▸ e2.symm)
          simp [List.filter, a1, a2]
        rw [hf]
        rcases xAtom_same_value hc1 ho' e.symm with h | ⟨_, h⟩
        · exact absurd h hno1
        · refine ⟨_, rfl, wfu c2 hc2, fun E => ?_⟩
          simp only [List.map_cons, List.map_nil, List.cons_append, List.nil_append, GC.denX, GC.sem, GS.sem,
            List.any_cons, List.any_nil, List.all_cons, List.all_nil, Bool.or_false, Bool.and_true, h E]
          cases o.denX E <;> cases c2.denX E <;> rfl
      · have hf : [c1, c2].filter (fun c => c.value != o.value) = [c1] := by
          have a2 : (c2.value != o.value) = false := by simp [e]
          have a1 : (c1.value != o.value) = true := by
            simp only [bne_iff_ne, ne_eq]; intro e1; exact hdist (e ▸ e1)
          simp [List.filter, a1, a2]
        rw [hf]
        rcases xAtom_same_value hc2 ho' e.symm with h | ⟨_, h⟩
        · exact absurd h hno2
        · refine ⟨_, rfl, wfu c1 hc1, fun E => ?_⟩
          simp only [List.map_cons, List.map_nil, List.cons_append, List.nil_append, GC.denX, GC.sem, GS.sem,
            List.any_cons, List.any_nil, List.all_cons, List.all_nil, Bool.or_false, Bool.and_true, h E]
          cases o.denX E <;> cases c1.denX E <;> rfl
    · rw [if_neg h2]
      refine ⟨_, rfl, ?_, fun E => by simp [GC.denX, GC.sem, GS.sem]⟩
      simp only [GC.wfX, List.isEmpty_cons, Bool.not_false, List.all_cons, List.all_nil, Bool.and_true,
        Bool.true_and, Bool.and_eq_true]
      exact ⟨hcs, ho⟩

theorem GS.intersectS_X (a b : GS) (ha : a.wfX = true) (hb : b.wfX = true) :
    ∃ r, a.intersectS b = .ok r ∧ r.wfX = true ∧ ∀ E, r.denX E = (a.denX E && b.denX E) := by
  cases a with
  | any => exact ⟨b, rfl, hb, fun E => by simp [GS.denX, GS.sem]⟩
  | empty => exact ⟨.empty, rfl, rfl, fun E => by simp [GS.denX, GS.sem]⟩
  | atom a =>
    cases b with
    | any => exact ⟨_, rfl, ha, fun E => by simp [GS.denX, GS.sem]⟩
    | empty => exact ⟨.empty, rfl, rfl, fun E => by simp [GS.denX, GS.sem]⟩
    | atom o => exact Atom.intersectA_X a o ha hb
    | multi x cs =>
      obtain rfl := (wfX_multi hb).1
      obtain ⟨r, h1, h2, h3⟩ := multiIntersectA_X cs a hb ha
      exact ⟨r, h1, h2, fun E => by rw [h3 E, Bool.and_comm]; rfl⟩
  | multi x cs =>
    obtain rfl := (wfX_multi ha).1
    cases b with
    | any => exact ⟨_, rfl, ha, fun E => by simp [GS.denX, GS.sem]⟩
    | empty => exact ⟨.empty, rfl, rfl, fun E => by simp [GS.denX, GS.sem]⟩
    | atom o => exact multiIntersectA_X cs o ha hb
    | multi y ds =>
      obtain rfl := (wfX_multi hb).1
      exact multiIntersectM_X cs ds ha hb

theorem GS.unionS_X (a b : GS) (ha : a.wfX = true) (hb : b.wfX = true) :
    ∃ r, a.unionS b = .ok r ∧ r.wfX = true ∧ ∀ E, r.denX E = (a.denX E || b.denX E) := by
  cases a with
  | any => exact ⟨.any, rfl, rfl, fun E => by simp [GS.denX, GC.denX, GC.sem, GS.sem]⟩
  | empty => exact ⟨.s b, rfl, hb, fun E => by simp [GS.denX, GC.denX, GC.sem, GS.sem]⟩
  | atom a =>
    cases b with
    | any => exact ⟨.any, rfl, rfl, fun E => by simp [GS.denX, GC.denX, GC.sem, GS.sem]⟩
    | empty => exact ⟨_, rfl, ha, fun E => by simp [GS.denX, GC.denX, GC.sem, GS.sem]⟩
    | atom o => exact Atom.unionA_X a o ha hb
    | multi x cs =>
      obtain rfl := (wfX_multi hb).1
      obtain ⟨r, h1, h2, h3⟩ := multiUnionA_X cs a hb ha
      exact ⟨r, h1, h2, fun E => by rw [h3 E, Bool.or_comm]; rfl⟩
  | multi x cs =>
    obtain rfl := (wfX_multi ha).1
    cases b with
    | any => exact ⟨.any, rfl, rfl, fun E => by simp [GS.denX, GC.denX, GC.sem, GS.sem]⟩
    | empty => exact ⟨_, rfl, ha, fun E => by simp [GS.denX, GC.denX, GC.sem, GS.sem]⟩
    | atom o => exact multiUnionA_X cs o ha hb
    | multi y ds => exact multiUnionM_X cs ds y ha hb

theorem Pc_wfX (c : GC) : Pc (fun c => c.wfX = true) c ↔ c.wfX = true := by
  cases c with
  | s c => rfl
  | union ms =>
    simp only [Pc, GC.wfX, Bool.and_eq_true, Bool.not_eq_true', List.all_eq_true, ne_eq]
    constructor
    · rintro ⟨h1, h2⟩; exact ⟨by cases ms <;> simp_all, h2⟩
    · rintro ⟨h1, h2⟩; exact ⟨by cases ms <;> simp_all, h2⟩

theorem algX : MemberAlg (fun c => c.wfX = true) FX where
  empty := rfl
  atoms := fun x cs h c hc => by
    have := (wfX_multi h).2.1 c hc
    simp [GS.wfX, this.1, this.2]
  inter := fun a b ha hb => by
    obtain ⟨r, h1, h2, h3⟩ := GS.intersectS_X a b ha hb
    exact ⟨r, h1, h2, fun f ⟨E, hf⟩ => by subst hf; exact h3 E⟩
  union := fun a b ha hb => by
    obtain ⟨r, h1, h2, h3⟩ := GS.unionS_X a b ha hb
    exact ⟨r, h1, (Pc_wfX r).mpr h2, fun f ⟨E, hf⟩ => by subst hf; exact h3 E⟩

theorem GC.intersect_X (a b : GC) (ha : a.wfX = true) (hb : b.wfX = true) :
    ∃ r, a.intersect b = .ok r ∧ r.wfX = true ∧ ∀ E, r.denX E = (a.denX E && b.denX E) := by
  obtain ⟨r, h1, h2, h3⟩ := GC.intersect_exact algX rfl a b ((Pc_wfX a).mpr ha) ((Pc_wfX b).mpr hb)
  exact ⟨r, h1, (Pc_wfX r).mp h2, fun E => h3 _ ⟨E, rfl⟩⟩

theorem GC.unionWith_X (a b : GC) (ha : a.wfX = true) (hb : b.wfX = true) :
    ∃ r, a.unionWith b = .ok r ∧ r.wfX = true ∧ ∀ E, r.denX E = (a.denX E || b.denX E) := by
  obtain ⟨r, h1, h2, h3⟩ := GC.unionWith_exact algX rfl a b ((Pc_wfX a).mpr ha) ((Pc_wfX b).mpr hb)
  exact ⟨r, h1, (Pc_wfX r).mp h2, fun E => h3 _ ⟨E, rfl⟩⟩

/-! ### the `extra` parser only produces well-formed constraints -/

theorem mapE_all {α β : Type} (f : α → PyM β) (Q : β → Prop) (hf : ∀ a b, f a = .ok b → Q b) :
    ∀ (l : List α) (r : List β), mapE f l = .ok r → (∀ b ∈ r, Q b) ∧ r.length = l.length := by
  intro l
  induction l with
  | nil => intro r h; cases h; exact ⟨by simp, rfl⟩
  | cons a l ih =>
    intro r h
    simp only [mapE] at h
    cases ha : f a with
    | error e => simp [ha] at h
    | ok b =>
      cases hl : mapE f l with
      | error e => simp [ha, hl] at h
      | ok bs =>
        simp only [ha, hl, Except.ok.injEq] at h
        subst h
        obtain ⟨h1, h2⟩ := ih bs hl
        refine ⟨?_, by simp [h2]⟩
        intro c hc
        simp only [List.mem_cons] at hc
        rcases hc with rfl | hc
        · exact hf a _ ha
        · exact h1 c hc

theorem Atom.mk?_true_wfX {v s : String} {a : Atom} (h : Atom.mk? true v s = .ok a) :
    (GS.atom a).wfX = true := by
  unfold Atom.mk? at h
  simp only at h
  split at h
  · cases h
  · rename_i o _
    split at h
    · cases h
    · rename_i hc
      cases h
      cases o <;> simp [Op.str] at hc <;> simp [GS.wfX, Atom.isEqNe]

theorem parseSingle_true_wfX {cs : List Char} {a : Atom} (h : parseSingle true cs = .ok a) :
    (GS.atom a).wfX = true := by
  unfold parseSingle at h
  split at h
  · exact Atom.mk?_true_wfX h
  · split at h
    · exact Atom.mk?_true_wfX h
    · cases h

theorem parseGroup_true_wfX {g : List Char} {c : GS} (h : parseGroup true g = .ok c) : c.wfX = true := by
  unfold parseGroup at h
  cases hm : mapE (parseSingle true) (reSplit sepComma g) with
  | error e => simp [hm] at h
  | ok l =>
    simp only [hm] at h
    have hall := (mapE_all (parseSingle true) (fun a => (GS.atom a).wfX = true)
      (fun _ _ hab => parseSingle_true_wfX hab) _ l hm).1
    match l, h, hall with
    | [], h, _ => dsimp only at h; cases h
    | a :: as, h, hall =>
      obtain ⟨r, h1, h2, _⟩ := foldIntersect_exact algX as (fun d hd => hall d (by simp [hd])) (.atom a)
        (hall a (by simp))
      dsimp only at h; rw [h1] at h; cases h; exact h2

theorem splitBy_ne_nil (sep : List Char → Option (List Char)) :
    ∀ (n : Nat) (l acc : List Char), splitBy sep n l acc ≠ [] := by
  intro n
  induction n with
  | zero => intro l acc; simp [splitBy]
  | succ n ih =>
    intro l acc
    cases l with
    | nil => simp [splitBy]
    | cons c cs =>
      simp only [splitBy]
      cases sep (c :: cs) with
      | some rest => simp
      | none => exact ih cs (c :: acc)

theorem parseExtra_wfX (s : String) (c : GC) (h : parseExtraConstraint s = .ok c) : c.wfX = true := by
  unfold parseExtraConstraint parseWith at h
  split at h
  · cases h; rfl
  · cases hm : mapE (parseGroup true) (reSplit sepOr (strip s.toList)) with
    | error e => simp [hm] at h
    | ok l =>
      simp only [hm] at h
      obtain ⟨hall, hlen⟩ := mapE_all (parseGroup true) (fun c => c.wfX = true)
        (fun _ _ hab => parseGroup_true_wfX hab) _ l hm
      match l, h, hall, hlen with
      | [g], h, hall, _ => cases h; exact hall g (by simp)
      | [], h, _, hlen =>
        exfalso
        have := splitBy_ne_nil sepOr ((strip s.toList).length + 1) (strip s.toList) []
        unfold reSplit at hlen
        simp only [List.length_nil] at hlen
        exact this (List.length_eq_zero_iff.mp hlen.symm)
      | a :: b :: t, h, hall, _ =>
        cases h
        simp only [GC.wfX, List.isEmpty_cons, Bool.not_false, Bool.true_and, List.all_eq_true]
        exact hall

/-! ## substring facts (`in` / `not in`) -/

theorem isInfixL_iff (p s : List Char) : isInfixL p s = true ↔ p <:+: s := by
  induction s with
  | nil =>
    simp only [isInfixL, List.isEmpty_iff]
    constructor
    · rintro rfl; exact List.infix_refl _
    · intro h; exact List.eq_nil_of_infix_nil h
  | cons c cs ih =>
    simp only [isInfixL, Bool.or_eq_true, ih, List.infix_cons_iff, List.isPrefixOf_iff_prefix]

theorem strIn_iff (a b : String) : strIn a b = true ↔ a.toList <:+: b.toList := isInfixL_iff _ _

theorem strIn_refl (a : String) : strIn a a = true := (strIn_iff a a).mpr (List.infix_refl _)

theorem strIn_trans {a b c : String} (h1 : strIn a b = true) (h2 : strIn b c = true) : strIn a c = true :=
  (strIn_iff a c).mpr (List.IsInfix.trans ((strIn_iff a b).mp h1) ((strIn_iff b c).mp h2))

theorem strIn_append_left (a b : String) : strIn a (a ++ b) = true := by
  rw [strIn_iff, String.toList_append]; exact (List.prefix_append _ _).isInfix

theorem strIn_append_right (a b : String) : strIn b (a ++ b) = true := by
  rw [strIn_iff, String.toList_append]; exact (List.suffix_append _ _).isInfix

/-! ## all four operators: `allows_all` / `allows_any` are never wrong (no hypothesis on the objects) -/

theorem Atom.den_in {a : Atom} (h : a.op = .in_) (v : String) : a.den v = strIn a.value v := by
  simp [Atom.den, h]
theorem Atom.den_nc {a : Atom} (h : a.op = .nc) (v : String) : a.den v = !strIn a.value v := by
  simp [Atom.den, h]

theorem Atom.allowsAllA_sound4 (a o : Atom) (h : a.allowsAllA o = true) (v : String)
    (hv : o.den v = true) : a.den v = true := by
  unfold Atom.allowsAllA at h
  by_cases e1 : (o.op == Op.eq) = true
  · rw [if_pos e1] at h
    have hoe : o.op = .eq := by simpa using e1
    have : v = o.value := by simpa [Atom.den_eq hoe] using hv
    rw [this, ← Atom.allowsV_eq_den]; exact h
  · rw [if_neg e1] at h
    by_cases e2 : (o.op == Op.in_ && a.op == Op.in_) = true
    · rw [if_pos e2] at h
      simp only [Bool.and_eq_true, beq_iff_eq] at e2
      rw [Atom.den_in e2.1] at hv
      rw [Atom.den_in e2.2]
      exact strIn_trans h hv
    · rw [if_neg e2] at h
      by_cases e3 : (o.op == Op.nc && a.op == Op.nc) = true
      · rw [if_pos e3] at h
        simp only [Bool.and_eq_true, beq_iff_eq] at e3
        rw [Atom.den_nc e3.1] at hv
        rw [Atom.den_nc e3.2]
        simp only [Bool.not_eq_true', Bool.not_eq_eq_eq_not, Bool.not_true] at hv ⊢
        cases hc : strIn a.value v
        · rfl
        · rw [strIn_trans h hc] at hv; cases hv
      · rw [if_neg e3] at h
        by_cases e4 : (o.op == Op.nc && a.op == Op.ne) = true
        · rw [if_pos e4] at h
          simp only [Bool.and_eq_true, beq_iff_eq] at e4
          rw [Atom.den_nc e4.1] at hv
          rw [Atom.den_ne e4.2]
          simp only [Bool.not_eq_true', Bool.not_eq_eq_eq_not, Bool.not_true, bne_iff_ne, ne_eq] at hv ⊢
          intro e
          rw [e, h] at hv; cases hv
        · rw [if_neg e4] at h
          have : a = o := by simpa using h
          rw [this]; exact hv

theorem Atom.allowsAllS_sound4 (a : Atom) (o : GS) (h : a.allowsAllS o = true) (v : String)
    (hv : o.den v = true) : a.den v = true := by
  cases o with
  | any => simp [Atom.allowsAllS] at h
  | empty => simp [GS.den, GS.sem] at hv
  | atom o => exact Atom.allowsAllA_sound4 a o h v hv
  | multi y cs =>
    simp only [Atom.allowsAllS, List.any_eq_true] at h
    obtain ⟨c, hc, hac⟩ := h
    simp only [GS.den, GS.sem, List.all_eq_true] at hv
    exact Atom.allowsAllA_sound4 a c hac v (hv c hc)

theorem GS.allowsAllS_sound4 (a o : GS) (h : a.allowsAllS o = true) (v : String)
    (hv : o.den v = true) : a.den v = true := by
  cases a with
  | any => rfl
  | empty =>
    cases o <;> simp [GS.allowsAllS, GS.isEmpty] at h
    simp [GS.den, GS.sem] at hv
  | atom a => exact Atom.allowsAllS_sound4 a o h v hv
  | multi x cs =>
    cases o with
    | multi y ds =>
      simp only [GS.allowsAllS, List.all_eq_true, List.contains_eq_mem, decide_eq_true_eq] at h
      simp only [GS.den, GS.sem, List.all_eq_true] at hv ⊢
      exact fun c hc => hv c (h c hc)
    | any =>
      simp only [GS.allowsAllS, List.all_eq_true] at h
      simp only [GS.den, GS.sem, List.all_eq_true]
      exact fun c hc => Atom.allowsAllS_sound4 c _ (h c hc) v hv
    | empty => simp [GS.den, GS.sem] at hv
    | atom o =>
      simp only [GS.allowsAllS, List.all_eq_true] at h
      simp only [GS.den, GS.sem, List.all_eq_true]
      exact fun c hc => Atom.allowsAllS_sound4 c _ (h c hc) v hv

theorem Atom.allowsAll_union_sound4 (a : Atom) (ns : List GS)
    (h : a.allowsAll (.union ns) = true) (v : String) (hv : (GC.union ns).den v = true) : a.den v = true := by
  simp only [Atom.allowsAll, List.all_eq_true] at h
  simp only [GC.den, GC.sem, List.any_eq_true] at hv
  obtain ⟨n, hn, hnv⟩ := hv
  exact Atom.allowsAllS_sound4 a n (h n hn) v hnv

theorem GS.allowsAll_sound4 (a : GS) (o : GC) (h : a.allowsAll o = true) (v : String)
    (hv : o.den v = true) : a.den v = true := by
  cases o with
  | s o =>
    have h' : a.allowsAllS o = true := by cases a <;> exact h
    exact GS.allowsAllS_sound4 a o h' v hv
  | union ns =>
    cases a with
    | any => rfl
    | empty => simp [GS.allowsAll] at h
    | atom a => exact Atom.allowsAll_union_sound4 a ns h v hv
    | multi x cs =>
      simp only [GS.allowsAll, List.all_eq_true] at h
      simp only [GS.den, GS.sem, List.all_eq_true]
      exact fun c hc => Atom.allowsAll_union_sound4 c ns (h c hc) v hv

/-- `allows_all` answering yes is never wrong — every constraint object, all four operators -/
theorem GC.allowsAll_sound4 (a o : GC) (h : a.allowsAll o = true) (v : String)
    (hv : o.den v = true) : a.den v = true := by
  cases a with
  | s a => exact GS.allowsAll_sound4 a o h v hv
  | union ms =>
    cases o with
    | s o =>
      simp only [GC.allowsAll, List.any_eq_true] at h
      obtain ⟨c, hc, hco⟩ := h
      simp only [GC.den, GC.sem, List.any_eq_true]
      exact ⟨c, hc, GS.allowsAllS_sound4 c o hco v hv⟩
    | union ns =>
      simp only [GC.allowsAll, List.all_eq_true, List.any_eq_true] at h
      simp only [GC.den, GC.sem, List.any_eq_true] at hv ⊢
      obtain ⟨n, hn, hnv⟩ := hv
      obtain ⟨c, hc, hcn⟩ := h n hn
      exact ⟨c, hc, GS.allowsAllS_sound4 c n hcn v hnv⟩

theorem Atom.allowsAnyA_sound4 (a o : Atom) (v : String) (hav : a.den v = true) (hov : o.den v = true) :
    a.allowsAnyA o = true := by
  unfold Atom.allowsAnyA
  by_cases e1 : (o.op == Op.eq) = true
  · rw [if_pos e1]
    have hoe : o.op = .eq := by simpa using e1
    have : v = o.value := by simpa [Atom.den_eq hoe] using hov
    rw [Atom.allowsV_eq_den, ← this]; exact hav
  · rw [if_neg e1]
    by_cases e2 : (o.op == Op.ne && a.op == Op.eq) = true
    · rw [if_pos e2]
      simp only [Bool.and_eq_true, beq_iff_eq] at e2
      have h1 : v = a.value := by simpa [Atom.den_eq e2.2] using hav
      have h2 : v ≠ o.value := by simpa [Atom.den_ne e2.1] using hov
      simp only [bne_iff_ne, ne_eq]; rw [← h1]; exact h2
    · rw [if_neg e2]
      by_cases e3 : (o.op == Op.nc && a.op == Op.in_) = true
      · rw [if_pos e3]
        simp only [Bool.and_eq_true, beq_iff_eq] at e3
        rw [Atom.den_nc e3.1] at hov
        rw [Atom.den_in e3.2] at hav
        cases hc : strIn o.value a.value
        · rfl
        · rw [strIn_trans hc hav] at hov; cases hov
      · rw [if_neg e3]
        by_cases e4 : (o.op == Op.in_ && a.op == Op.nc) = true
        · rw [if_pos e4]
          simp only [Bool.and_eq_true, beq_iff_eq] at e4
          rw [Atom.den_in e4.1] at hov
          rw [Atom.den_nc e4.2] at hav
          cases hc : strIn a.value o.value
          · rfl
          · rw [strIn_trans hc hov] at hav; cases hav
        · rw [if_neg e4]

theorem Atom.allowsAnyS_sound4 (a : Atom) (o : GS) (v : String)
    (hav : a.den v = true) (hov : o.den v = true) : a.allowsAnyS o = true := by
  unfold Atom.allowsAnyS
  by_cases e1 : (a.op == Op.eq) = true
  · rw [if_pos e1]
    have hae : a.op = .eq := by simpa using e1
    have : v = a.value := by simpa [Atom.den_eq hae] using hav
    rw [GS.allowsV_eq_den, ← this]; exact hov
  · rw [if_neg e1]
    cases o with
    | any => rfl
    | empty => simp [GS.den, GS.sem] at hov
    | multi _ _ => rfl
    | atom o => exact Atom.allowsAnyA_sound4 a o v hav hov

theorem Atom.allowsAny_union_sound4 (a : Atom) (ns : List GS) (v : String) (hav : a.den v = true)
    (hov : (GC.union ns).den v = true) : a.allowsAny (.union ns) = true := by
  unfold Atom.allowsAny
  dsimp only
  by_cases e1 : (a.op == Op.eq) = true
  · rw [if_pos e1]
    have hae : a.op = .eq := by simpa using e1
    have : v = a.value := by simpa [Atom.den_eq hae] using hav
    rw [GC.allowsV_eq_den, ← this]; exact hov
  · rw [if_neg e1]
    simp only [GC.den, GC.sem, List.any_eq_true] at hov ⊢
    obtain ⟨n, hn, hnv⟩ := hov
    exact ⟨n, hn, Atom.allowsAnyS_sound4 a n v hav hnv⟩

theorem GS.allowsAnyS_sound4 (a o : GS) (v : String)
    (hav : a.den v = true) (hov : o.den v = true) : a.allowsAnyS o = true := by
  cases a with
  | any => rfl
  | empty => simp [GS.den, GS.sem] at hav
  | atom a => exact Atom.allowsAnyS_sound4 a o v hav hov
  | multi x cs =>
    cases o with
    | any => rfl
    | empty => simp [GS.den, GS.sem] at hov
    | multi _ _ => rfl
    | atom o =>
      simp only [GS.allowsAnyS]
      by_cases e1 : (o.op == Op.eq) = true
      · rw [if_pos e1]
        have hoe : o.op = .eq := by simpa using e1
        have : v = o.value := by simpa [GS.den, GS.sem, Atom.den_eq hoe] using hov
        rw [GS.allowsV_eq_den, ← this]; exact hav
      · rw [if_neg e1]

theorem GS.allowsAny_sound4 (a : GS) (o : GC) (v : String)
    (hav : a.den v = true) (hov : o.den v = true) : a.allowsAny o = true := by
  cases o with
  | s o =>
    have : a.allowsAny (.s o) = a.allowsAnyS o := by cases a <;> rfl
    rw [this]; exact GS.allowsAnyS_sound4 a o v hav hov
  | union ns =>
    cases a with
    | any => rfl
    | empty => simp [GS.den, GS.sem] at hav
    | atom a => exact Atom.allowsAny_union_sound4 a ns v hav hov
    | multi x cs =>
      simp only [GS.allowsAny, List.any_eq_true, List.all_eq_true]
      simp only [GC.den, GC.sem, List.any_eq_true] at hov
      simp only [GS.den, GS.sem, List.all_eq_true] at hav
      obtain ⟨n, hn, hnv⟩ := hov
      exact ⟨n, hn, fun c hc => Atom.allowsAnyS_sound4 c n v (hav c hc) hnv⟩

/-- `allows_any` answering no is never wrong — every constraint object, all four operators -/
theorem GC.allowsAny_sound4 (a o : GC) (v : String)
    (hav : a.den v = true) (hov : o.den v = true) : a.allowsAny o = true := by
  cases a with
  | s a => exact GS.allowsAny_sound4 a o v hav hov
  | union ms =>
    simp only [GC.den, GC.sem, List.any_eq_true] at hav
    obtain ⟨m, hm, hmv⟩ := hav
    cases o with
    | s o =>
      simp only [GC.allowsAny, List.any_eq_true]
      exact ⟨m, hm, GS.allowsAnyS_sound4 m o v hmv hov⟩
    | union ns =>
      simp only [GC.allowsAny, List.any_eq_true]
      simp only [GC.den, GC.sem, List.any_eq_true] at hov
      obtain ⟨n, hn, hnv⟩ := hov
      exact ⟨m, hm, n, hn, GS.allowsAnyS_sound4 m n v hmv hnv⟩

/-! ## single-valued variant, all four operators: atom level -/

theorem mkMulti_false_ok4 (cs : List Atom) (h : ∀ c ∈ cs, c.op ≠ .eq) : mkMulti false cs = .ok (.multi false cs) := by
  unfold mkMulti
  rw [if_neg]
  simp only [List.any_eq_true, not_exists, not_and, multiOps_false]
  intro c hc
  have := h c hc
  cases hop : c.op <;> simp [hop, Op.str] at this ⊢

theorem Atom.invert_false_ok (a : Atom) (ha : a.x = false) :
    ∃ i, a.invert = .ok i ∧ i.x = false ∧ i.value = a.value ∧ ∀ v, i.den v = !a.den v := by
  obtain ⟨av, o, x⟩ := a
  simp only at ha; subst ha
  cases o
  · exact ⟨_, Op.inv_eq av false, rfl, rfl, fun v => Atom.invert_den (Op.inv_eq av false) v⟩
  · exact ⟨_, Op.inv_ne av false, rfl, rfl, fun v => Atom.invert_den (Op.inv_ne av false) v⟩
  · exact ⟨_, Op.inv_in av, rfl, rfl, fun v => Atom.invert_den (Op.inv_in av) v⟩
  · exact ⟨_, Op.inv_nc av, rfl, rfl, fun v => Atom.invert_den (Op.inv_nc av) v⟩

theorem Atom.intersectA_4 (a o : Atom) (ha : a.x = false) (ho : o.x = false) :
    ∃ r, a.intersectA o = .ok r ∧ r.wf4 = true ∧ ∀ v, r.den v = (a.den v && o.den v) := by
  unfold Atom.intersectA
  rw [if_neg (by simp [ha])]
  by_cases h1 : (o == a) = true
  · rw [if_pos h1]
    have : o = a := by simpa using h1
    subst this
    exact ⟨_, rfl, by simp [GS.wf4, ha], fun v => by simp [GS.den, GS.sem]⟩
  · rw [if_neg h1]
    by_cases h2 : a.allowsAllA o = true
    · rw [if_pos h2]
      exact ⟨_, rfl, by simp [GS.wf4, ho], fun v => and_eq_right_of_imp (Atom.allowsAllA_sound4 a o h2 v)⟩
    · rw [if_neg h2]
      by_cases h3 : o.allowsAllA a = true
      · rw [if_pos h3]
        exact ⟨_, rfl, by simp [GS.wf4, ha], fun v => and_eq_left_of_imp (Atom.allowsAllA_sound4 o a h3 v)⟩
      · rw [if_neg h3]
        by_cases h4 : (!a.allowsAnyS (.atom o) || !o.allowsAnyS (.atom a)) = true
        · rw [if_pos h4]
          refine ⟨_, rfl, rfl, fun v => ?_⟩
          simp only [GS.den, GS.sem]
          cases hav : a.den v <;> cases hov : o.den v <;> simp
          have e1 := Atom.allowsAnyS_sound4 a (.atom o) v hav hov
          have e2 := Atom.allowsAnyS_sound4 o (.atom a) v hov hav
          simp [e1, e2] at h4
        · rw [if_neg h4]
          simp only [Bool.or_eq_true, Bool.not_eq_true', not_or, Bool.not_eq_false] at h4
          have hae : a.op ≠ .eq := by
            intro e
            apply h3
            have := h4.1
            simp only [Atom.allowsAnyS, e, beq_self_eq_true, if_true, GS.allowsV] at this
            simp only [Atom.allowsAllA, e, beq_self_eq_true, if_true]; exact this
          have hoe : o.op ≠ .eq := by
            intro e
            apply h2
            have := h4.2
            simp only [Atom.allowsAnyS, e, beq_self_eq_true, if_true, GS.allowsV] at this
            simp only [Atom.allowsAllA, e, beq_self_eq_true, if_true]; exact this
          rw [mkMulti_false_ok4 _ (by intro c hc; simp at hc; rcases hc with rfl | rfl; exact hae; exact hoe)]
          refine ⟨_, rfl, ?_, fun v => by simp [GS.den, GS.sem]⟩
          simp [GS.wf4, ha, ho, hae, hoe]

theorem or_eq_left_of_imp {a b : Bool} (h : b = true → a = true) : a = (a || b) := by
  cases b <;> simp_all
theorem or_eq_right_of_imp {a b : Bool} (h : a = true → b = true) : b = (a || b) := by
  cases a <;> simp_all

/-- the `return AnyConstraint()` condition of `Constraint.union` is right, the `not in`/`not in` shortcut excepted -/
theorem Atom.unionA_anyCond (av ov : String) (aop oop : Op)
    (hne : ¬ (⟨ov, oop, false⟩ : Atom) = ⟨av, aop, false⟩)
    (h2 : (⟨av, aop, false⟩ : Atom).allowsAllA ⟨ov, oop, false⟩ = false)
    (h3 : (⟨ov, oop, false⟩ : Atom).allowsAllA ⟨av, aop, false⟩ = false)
    (hc : ncClash ⟨av, aop, false⟩ ⟨ov, oop, false⟩ = false)
    (hcond : (((aop == .ne && oop == .ne) || (aop == .nc && oop == .nc)) ||
      (((aop == .in_ && oop == .ne) || (aop == .ne && oop == .in_) ||
                (aop == .in_ && oop == .nc) || (aop == .nc && oop == .in_)) && (aop == .in_ && strIn av ov) ||
        (oop == .in_ && strIn ov av))) = true) (v : String) :
    ((⟨av, aop, false⟩ : Atom).den v || (⟨ov, oop, false⟩ : Atom).den v) = true := by
  cases aop <;> cases oop <;>
    simp [Atom.allowsAllA, Atom.allowsV, Op.apply, ncClash, Atom.den] at hne h2 h3 hc hcond ⊢
  · rw [h3] at hcond; cases hcond
  · by_cases e : v = av
    · right; intro e2; exact hne (e2.symm.trans e)
    · exact Or.inl e
  · by_cases e : v = av
    · right; rw [e]; exact hcond
    · exact Or.inl e
  · by_cases e : v = ov
    · left; rw [e]; exact hcond
    · exact Or.inr e
  · rw [h3] at hcond; cases hcond
  · cases e : strIn ov v
    · exact Or.inr rfl
    · exact Or.inl (strIn_trans hcond e)
  · cases e : strIn av v
    · exact Or.inl rfl
    · exact Or.inr (strIn_trans hcond e)
  · rw [hc h3] at h2; cases h2

/-- `Constraint.union` of two atoms is exact unless it hits the `not in` ∪ `not in` shortcut -/
theorem Atom.unionA_4 (a o : Atom) (ha : a.x = false) (ho : o.x = false) (hc : ncClash a o = false) :
    ∃ r, a.unionA o = .ok r ∧ r.wf4 = true ∧ ∀ v, r.den v = (a.den v || o.den v) := by
  unfold Atom.unionA
  rw [if_neg (by simp [ha])]
  by_cases h1 : (o == a) = true
  · rw [if_pos h1]
    have : o = a := by simpa using h1
    subst this
    exact ⟨_, rfl, by simp [GC.wf4, GS.wf4, ha], fun v => by simp [GC.den, GC.sem, GS.sem]⟩
  · rw [if_neg h1]
    have hne : ¬ o = a := by simpa using h1
    by_cases h2 : a.allowsAllA o = true
    · rw [if_pos h2]
      exact ⟨_, rfl, by simp [GC.wf4, GS.wf4, ha], fun v => or_eq_left_of_imp (Atom.allowsAllA_sound4 a o h2 v)⟩
    · rw [if_neg h2]
      by_cases h3 : o.allowsAllA a = true
      · rw [if_pos h3]
        exact ⟨_, rfl, by simp [GC.wf4, GS.wf4, ho], fun v => or_eq_right_of_imp (Atom.allowsAllA_sound4 o a h3 v)⟩
      · rw [if_neg h3]
        obtain ⟨av, aop, ax⟩ := a
        obtain ⟨ov, oop, ox⟩ := o
        simp only at ha ho; subst ha; subst ho
        simp only [Bool.not_eq_true] at h2 h3
        dsimp only
        by_cases hcond : (((aop == .ne && oop == .ne) || (aop == .nc && oop == .nc)) ||
            (((aop == .in_ && oop == .ne) || (aop == .ne && oop == .in_) ||
              (aop == .in_ && oop == .nc) || (aop == .nc && oop == .in_)) && (aop == .in_ && strIn av ov) ||
            (oop == .in_ && strIn ov av))) = true
        · rw [if_pos hcond]
          refine ⟨_, rfl, rfl, fun v => ?_⟩
          rw [Atom.unionA_anyCond av ov aop oop hne h2 h3 hc hcond v]; rfl
        · rw [if_neg hcond]
          obtain ⟨i, hi, hix, hiv, hid⟩ := Atom.invert_false_ok ⟨av, aop, false⟩ rfl
          rw [hi]
          dsimp only
          by_cases h5 : (i == (⟨ov, oop, false⟩ : Atom)) = true
          · rw [if_pos h5]
            have : i = ⟨ov, oop, false⟩ := by simpa using h5
            refine ⟨_, rfl, rfl, fun v => ?_⟩
            rw [← this, hid v]
            cases (⟨av, aop, false⟩ : Atom).den v <;> rfl
          · rw [if_neg h5]
            exact ⟨_, rfl, by simp [GC.wf4, GS.wf4], fun v => by simp [GC.den, GC.sem, GS.sem]⟩

/-! ## single-valued variant, all four operators: multi level -/

theorem wf4_multi {x : Bool} {cs : List Atom} (h : (GS.multi x cs).wf4 = true) :
    x = false ∧ ∀ c ∈ cs, c.x = false ∧ c.op ≠ .eq := by
  simp only [GS.wf4, Bool.and_eq_true, Bool.not_eq_true', List.all_eq_true, bne_iff_ne, ne_eq] at h
  exact h

theorem wf4_multi_mk {cs : List Atom} (h : ∀ c ∈ cs, c.x = false ∧ c.op ≠ .eq) : (GS.multi false cs).wf4 = true := by
  simp only [GS.wf4, Bool.and_eq_true, Bool.not_eq_true', List.all_eq_true, bne_iff_ne, ne_eq]
  exact ⟨trivial, h⟩

theorem GS.wf4_of_wfG {c : GS} (h : c.wfG = true) : c.wf4 = true := by
  cases c with
  | any => rfl
  | empty => rfl
  | atom a => simp only [GS.wfG, Bool.and_eq_true] at h; simpa [GS.wf4] using h.1
  | multi x cs =>
    obtain ⟨rfl, h'⟩ := wfG_multi h
    exact wf4_multi_mk (fun c hc => ⟨(h' c hc).1, by simp [(h' c hc).2]⟩)

theorem GC.wf4_of_wfG {c : GC} (h : c.wfG = true) : c.wf4 = true := by
  cases c with
  | s c => exact GS.wf4_of_wfG h
  | union ms =>
    simp only [GC.wfG, Bool.and_eq_true, List.all_eq_true] at h
    simp only [GC.wf4, Bool.and_eq_true, List.all_eq_true]
    exact ⟨h.1, fun m hm => GS.wf4_of_wfG (h.2 m hm)⟩

theorem multiIntersectA_4 (cs : List Atom) (o : Atom) (hcs : (GS.multi false cs).wf4 = true)
    (ho : o.x = false) :
    ∃ r, multiIntersectA false cs o = .ok r ∧ r.wf4 = true ∧
      ∀ v, r.den v = (cs.all (fun c => c.den v) && o.den v) := by
  have hcs' := (wf4_multi hcs).2
  unfold multiIntersectA
  by_cases h1 : cs.contains o = true
  · rw [if_pos h1]
    refine ⟨_, rfl, hcs, fun v => ?_⟩
    simp only [GS.den, GS.sem]
    exact (all_and_of_mem _ cs o (by simpa using h1)).symm
  · rw [if_neg h1]
    by_cases hoe : o.op = .eq
    · have hcond : (o.op == Op.eq && !(multiOps false).contains "==") = true := by
        simp [hoe, multiOps_false]
      rw [if_pos hcond]
      have hall : (GS.multi false cs).allowsV o.value = cs.all (fun c => c.den o.value) := by
        simp [GS.allowsV, Atom.allowsV_eq_den]
      by_cases h2 : (GS.multi false cs).allowsV o.value = true
      · rw [if_pos h2]
        refine ⟨_, rfl, by simp [GS.wf4, ho], fun v => ?_⟩
        simp only [GS.den, GS.sem]
        cases hov : o.den v
        · simp
        · have hv : v = o.value := by simpa [Atom.den_eq hoe] using hov
          rw [hv, ← hall, h2]; rfl
      · rw [if_neg h2]
        refine ⟨_, rfl, rfl, fun v => ?_⟩
        simp only [GS.den, GS.sem]
        cases hov : o.den v
        · simp
        · have hv : v = o.value := by simpa [Atom.den_eq hoe] using hov
          rw [hv, ← hall]
          simp only [Bool.not_eq_true] at h2
          simp [h2]
    · have hcond : ¬ (o.op == Op.eq && !(multiOps false).contains "==") = true := by
        simp [hoe]
      rw [if_neg hcond]
      obtain ⟨i, hi, hix, hiv, hid⟩ := Atom.invert_false_ok o ho
      rw [hi]
      dsimp only
      by_cases h2 : cs.contains i = true
      · rw [if_pos h2]
        refine ⟨_, rfl, rfl, fun v => ?_⟩
        have him : i ∈ cs := by simpa using h2
        simp only [GS.den, GS.sem]
        cases hov : o.den v
        · simp
        · have : cs.all (fun c => c.den v) = false := by
            simp only [List.all_eq_false]; exact ⟨i, him, by simp [hid v, hov]⟩
          simp [this]
      · rw [if_neg h2]
        have hall : ∀ c ∈ cs ++ [o], c.x = false ∧ c.op ≠ .eq := by
          intro c hc
          rcases List.mem_append.mp hc with h | h
          · exact hcs' c h
          · simp at h; subst h; exact ⟨ho, hoe⟩
        rw [mkMulti_false_ok4 _ (fun c hc => (hall c hc).2)]
        exact ⟨_, rfl, wf4_multi_mk hall, fun v => by simp [GS.den, GS.sem, List.all_append]⟩

theorem multiIntersectM_4 (cs ds : List Atom) (hcs : (GS.multi false cs).wf4 = true)
    (hds : (GS.multi false ds).wf4 = true) :
    ∃ r, multiIntersectM false cs ds = .ok r ∧ r.wf4 = true ∧
      ∀ v, r.den v = (cs.all (fun c => c.den v) && ds.all (fun c => c.den v)) := by
  have hcs' := (wf4_multi hcs).2
  have hds' := (wf4_multi hds).2
  have hall : ∀ c ∈ cs ++ ds.filter (fun c => !cs.contains c), c.x = false ∧ c.op ≠ .eq := by
    intro c hc
    rcases List.mem_append.mp hc with h | h
    · exact hcs' c h
    · exact hds' c (List.mem_filter.mp h).1
  simp only [multiIntersectM, Bool.false_and, Bool.false_eq_true, if_false]
  rw [mkMulti_false_ok4 _ (fun c hc => (hall c hc).2)]
  refine ⟨_, rfl, wf4_multi_mk hall, fun v => ?_⟩
  simp only [GS.den, GS.sem]
  exact all_append_filter_not_mem _ cs ds

theorem wfG_multi_of_onlyNe {cs : List Atom} (h4 : (GS.multi false cs).wf4 = true) (h : onlyNe cs = true) :
    (GS.multi false cs).wfG = true := by
  simp only [onlyNe, List.all_eq_true, beq_iff_eq] at h
  exact wfG_multi_mk (fun c hc => ⟨((wf4_multi h4).2 c hc).1, h c hc⟩)

theorem multiUnionA_4 (cs : List Atom) (o : Atom) (hcs : (GS.multi false cs).wf4 = true) (ho : o.x = false) :
    ∃ r, multiUnionA false cs o = .ok r ∧ r.wf4 = true ∧
      ∀ v, r.den v = (cs.all (fun c => c.den v) || o.den v) := by
  by_cases hfrag : (onlyNe cs && (o.op == .eq || o.op == .ne)) = true
  · simp only [Bool.and_eq_true, Bool.or_eq_true, beq_iff_eq] at hfrag
    have ho' : (GS.atom o).wfG = true := by
      simp only [GS.wfG, Atom.isEqNe, Bool.and_eq_true, Bool.not_eq_true', Bool.or_eq_true, beq_iff_eq]
      exact ⟨ho, hfrag.2⟩
    obtain ⟨r, h1, h2, h3⟩ := multiUnionA_G cs o (wfG_multi_of_onlyNe hcs hfrag.1) ho'
    exact ⟨r, h1, GC.wf4_of_wfG h2, h3⟩
  · unfold multiUnionA
    simp only [Bool.false_eq_true, if_false]
    by_cases h1 : cs.contains o = true
    · rw [if_pos h1]
      refine ⟨_, rfl, by simp [GC.wf4, GS.wf4, ho], fun v => ?_⟩
      have hm : o ∈ cs := by simpa using h1
      simp only [GC.den, GC.sem, GS.sem]
      cases hall : cs.all (fun c => c.den v)
      · simp
      · simp only [List.all_eq_true] at hall; simp [hall o hm]
    · rw [if_neg h1]
      rw [if_pos (by simp only [Bool.not_eq_true'] ; simpa using hfrag)]
      by_cases h2 : (o.op == Op.eq && (GS.multi false cs).allowsV o.value) = true
      · rw [if_pos h2]
        simp only [Bool.and_eq_true, beq_iff_eq] at h2
        refine ⟨_, rfl, hcs, fun v => ?_⟩
        apply or_eq_left_of_imp
        intro hov
        have hv : v = o.value := by simpa [Atom.den_eq h2.1] using hov
        have := h2.2
        rw [GS.allowsV_eq_den] at this
        rw [hv]; exact this
      · rw [if_neg h2]
        refine ⟨_, rfl, ?_, fun v => by simp [GC.den, GC.sem, GS.sem]⟩
        simp only [GC.wf4, List.isEmpty_cons, Bool.not_false, List.all_cons, List.all_nil, Bool.and_true,
          Bool.true_and, Bool.and_eq_true]
        exact ⟨hcs, by simp [GS.wf4, ho]⟩

theorem multiUnionM_4 (cs ds : List Atom) (y : Bool) (hcs : (GS.multi false cs).wf4 = true)
    (hds : (GS.multi y ds).wf4 = true) :
    ∃ r, multiUnionM false cs y ds = .ok r ∧ r.wf4 = true ∧
      ∀ v, r.den v = (cs.all (fun c => c.den v) || ds.all (fun c => c.den v)) := by
  obtain rfl := (wf4_multi hds).1
  by_cases hfrag : (onlyNe cs && onlyNe ds) = true
  · simp only [Bool.and_eq_true] at hfrag
    obtain ⟨r, h1, h2, h3⟩ := multiUnionM_G cs ds false (wfG_multi_of_onlyNe hcs hfrag.1)
      (wfG_multi_of_onlyNe hds hfrag.2)
    exact ⟨r, h1, GC.wf4_of_wfG h2, h3⟩
  · unfold multiUnionM
    simp only [Bool.false_eq_true, if_false]
    rw [if_pos (by simp only [Bool.not_eq_true']; simpa using hfrag)]
    by_cases h1 : subsetL cs ds = true
    · rw [if_pos h1]
      exact ⟨_, rfl, hcs, fun v => by simp only [GC.den, GC.sem, GS.sem]; exact (all_of_subsetL_or _ cs ds h1).symm⟩
    · rw [if_neg h1]
      by_cases h2 : subsetL ds cs = true
      · rw [if_pos h2]
        exact ⟨_, rfl, hds, fun v => by
          simp only [GC.den, GC.sem, GS.sem]; rw [Bool.or_comm]; exact (all_of_subsetL_or _ ds cs h2).symm⟩
      · rw [if_neg h2]
        refine ⟨_, rfl, ?_, fun v => by simp [GC.den, GC.sem, GS.sem]⟩
        simp only [GC.wf4, List.isEmpty_cons, Bool.not_false, List.all_cons, List.all_nil, Bool.and_true,
          Bool.true_and, Bool.and_eq_true]
        exact ⟨hcs, hds⟩

/-! ## single-valued variant, all four operators: member level and the instance -/

theorem wf4_atom {a : Atom} (h : (GS.atom a).wf4 = true) : a.x = false := by simpa [GS.wf4] using h

theorem GS.intersectS_4 (a b : GS) (ha : a.wf4 = true) (hb : b.wf4 = true) :
    ∃ r, a.intersectS b = .ok r ∧ r.wf4 = true ∧ ∀ v, r.den v = (a.den v && b.den v) := by
  cases a with
  | any => exact ⟨b, rfl, hb, fun v => by simp [GS.den, GS.sem]⟩
  | empty => exact ⟨.empty, rfl, rfl, fun v => by simp [GS.den, GS.sem]⟩
  | atom a =>
    cases b with
    | any => exact ⟨_, rfl, ha, fun v => by simp [GS.den, GS.sem]⟩
    | empty => exact ⟨.empty, rfl, rfl, fun v => by simp [GS.den, GS.sem]⟩
    | atom o => exact Atom.intersectA_4 a o (wf4_atom ha) (wf4_atom hb)
    | multi x cs =>
      obtain rfl := (wf4_multi hb).1
      obtain ⟨r, h1, h2, h3⟩ := multiIntersectA_4 cs a hb (wf4_atom ha)
      exact ⟨r, h1, h2, fun v => by rw [h3 v, Bool.and_comm]; rfl⟩
  | multi x cs =>
    obtain rfl := (wf4_multi ha).1
    cases b with
    | any => exact ⟨_, rfl, ha, fun v => by simp [GS.den, GS.sem]⟩
    | empty => exact ⟨.empty, rfl, rfl, fun v => by simp [GS.den, GS.sem]⟩
    | atom o => exact multiIntersectA_4 cs o ha (wf4_atom hb)
    | multi y ds =>
      obtain rfl := (wf4_multi hb).1
      exact multiIntersectM_4 cs ds ha hb

theorem ncClash_symm (a o : Atom) : ncClash a o = ncClash o a := by
  simp only [ncClash]
  cases a.op == Op.nc <;> cases o.op == Op.nc <;> cases strIn a.value o.value <;>
    cases strIn o.value a.value <;> rfl

theorem GS.ncClash_symm (a b : GS) : GS.ncClash a b = GS.ncClash b a := by
  cases a <;> cases b <;> simp [GS.ncClash, Generic.ncClash_symm]

theorem GS.unionS_4 (a b : GS) (ha : a.wf4 = true) (hb : b.wf4 = true) (hc : GS.ncClash a b = false) :
    ∃ r, a.unionS b = .ok r ∧ r.wf4 = true ∧ ∀ v, r.den v = (a.den v || b.den v) := by
  cases a with
  | any => exact ⟨.any, rfl, rfl, fun v => by simp [GS.den, GC.den, GC.sem, GS.sem]⟩
  | empty => exact ⟨.s b, rfl, hb, fun v => by simp [GS.den, GC.den, GC.sem, GS.sem]⟩
  | atom a =>
    cases b with
    | any => exact ⟨.any, rfl, rfl, fun v => by simp [GS.den, GC.den, GC.sem, GS.sem]⟩
    | empty => exact ⟨_, rfl, ha, fun v => by simp [GS.den, GC.den, GC.sem, GS.sem]⟩
    | atom o => exact Atom.unionA_4 a o (wf4_atom ha) (wf4_atom hb) hc
    | multi x cs =>
      obtain rfl := (wf4_multi hb).1
      obtain ⟨r, h1, h2, h3⟩ := multiUnionA_4 cs a hb (wf4_atom ha)
      exact ⟨r, h1, h2, fun v => by rw [h3 v, Bool.or_comm]; rfl⟩
  | multi x cs =>
    obtain rfl := (wf4_multi ha).1
    cases b with
    | any => exact ⟨.any, rfl, rfl, fun v => by simp [GS.den, GC.den, GC.sem, GS.sem]⟩
    | empty => exact ⟨_, rfl, ha, fun v => by simp [GS.den, GC.den, GC.sem, GS.sem]⟩
    | atom o => exact multiUnionA_4 cs o ha (wf4_atom hb)
    | multi y ds => exact multiUnionM_4 cs ds y ha hb

theorem Pc_wf4 (c : GC) : Pc (fun c => c.wf4 = true) c ↔ c.wf4 = true := by
  cases c with
  | s c => rfl
  | union ms =>
    simp only [Pc, GC.wf4, Bool.and_eq_true, Bool.not_eq_true', List.all_eq_true, ne_eq]
    constructor
    · rintro ⟨h1, h2⟩; exact ⟨by cases ms <;> simp_all, h2⟩
    · rintro ⟨h1, h2⟩; exact ⟨by cases ms <;> simp_all, h2⟩

theorem alg4 : MemberAlgR (fun c => c.wf4 = true) FG (fun a b => GS.ncClash a b = false) where
  empty := rfl
  atoms := fun x cs h c hc => by
    have := (wf4_multi h).2 c hc
    simp [GS.wf4, this.1]
  inter := fun a b ha hb => by
    obtain ⟨r, h1, h2, h3⟩ := GS.intersectS_4 a b ha hb
    exact ⟨r, h1, h2, fun f ⟨v, hf⟩ => by subst hf; exact h3 v⟩
  union := fun a b ha hb hc => by
    obtain ⟨r, h1, h2, h3⟩ := GS.unionS_4 a b ha hb hc
    exact ⟨r, h1, (Pc_wf4 r).mpr h2, fun f ⟨v, hf⟩ => by subst hf; exact h3 v⟩

/-- `intersect` is total and exact for all four operators -/
theorem GC.intersect_4 (a b : GC) (ha : a.wf4 = true) (hb : b.wf4 = true) :
    ∃ r, a.intersect b = .ok r ∧ r.wf4 = true ∧ ∀ v, r.den v = (a.den v && b.den v) := by
  obtain ⟨r, h1, h2, h3⟩ := GC.intersect_exactR alg4 rfl a b ((Pc_wf4 a).mpr ha) ((Pc_wf4 b).mpr hb)
  exact ⟨r, h1, (Pc_wf4 r).mp h2, fun v => h3 _ ⟨v, rfl⟩⟩

theorem ncCompat_iff (a b : GC) :
    a.ncCompat b = true ↔ ∀ m ∈ a.members, ∀ n ∈ b.members, GS.ncClash m n = false := by
  simp [GC.ncCompat]

/-- `union` is total and exact for all four operators, away from the `not in` ∪ `not in` call site -/
theorem GC.unionWith_4 (a b : GC) (ha : a.wf4 = true) (hb : b.wf4 = true) (hc : a.ncCompat b = true) :
    ∃ r, a.unionWith b = .ok r ∧ r.wf4 = true ∧ ∀ v, r.den v = (a.den v || b.den v) := by
  obtain ⟨r, h1, h2, h3⟩ := GC.unionWith_exactR alg4 rfl (fun x y h => by rw [GS.ncClash_symm]; exact h) a b
    ((Pc_wf4 a).mpr ha) ((Pc_wf4 b).mpr hb) ((ncCompat_iff a b).mp hc)
  exact ⟨r, h1, (Pc_wf4 r).mp h2, fun v => h3 _ ⟨v, rfl⟩⟩

/-! ## no `MultiConstraint` / `UnionConstraint` of nothing is ever built (both variants) -/

theorem mkMulti_nondeg {x : Bool} {cs : List Atom} {m : GS} (h : mkMulti x cs = .ok m) (hne : cs ≠ []) :
    m.nondeg = true := by
  rw [mkMulti_eq_ok h]; cases cs <;> simp_all [GS.nondeg]

theorem nondeg_multi {x : Bool} {cs : List Atom} (h : (GS.multi x cs).nondeg = true) : cs ≠ [] := by
  cases cs <;> simp_all [GS.nondeg]

theorem nondeg_union2 (a b : GS) (ha : a.nondeg = true) (hb : b.nondeg = true) :
    (GC.union [a, b]).nondeg = true := by simp [GC.nondeg, ha, hb]

theorem Atom.intersectA_nondeg (a o : Atom) (r : GS) (h : a.intersectA o = .ok r) : r.nondeg = true := by
  unfold Atom.intersectA at h
  by_cases hx : a.x = true
  · rw [if_pos hx] at h
    by_cases h1 : (o == a) = true
    · rw [if_pos h1] at h; cases h; rfl
    · rw [if_neg h1] at h
      by_cases h2 : (a.value == o.value && a.op != o.op) = true
      · rw [if_pos h2] at h; cases h; rfl
      · rw [if_neg h2] at h; exact mkMulti_nondeg h (by simp)
  · rw [if_neg hx] at h
    by_cases h1 : (o == a) = true
    · rw [if_pos h1] at h; cases h; rfl
    · rw [if_neg h1] at h
      by_cases h2 : a.allowsAllA o = true
      · rw [if_pos h2] at h; cases h; rfl
      · rw [if_neg h2] at h
        by_cases h3 : o.allowsAllA a = true
        · rw [if_pos h3] at h; cases h; rfl
        · rw [if_neg h3] at h
          by_cases h4 : (!a.allowsAnyS (.atom o) || !o.allowsAnyS (.atom a)) = true
          · rw [if_pos h4] at h; cases h; rfl
          · rw [if_neg h4] at h; exact mkMulti_nondeg h (by simp)

theorem multiIntersectA_nondeg (x : Bool) (cs : List Atom) (o : Atom) (r : GS)
    (hcs : (GS.multi x cs).nondeg = true) (h : multiIntersectA x cs o = .ok r) : r.nondeg = true := by
  unfold multiIntersectA at h
  by_cases h1 : cs.contains o = true
  · rw [if_pos h1] at h; cases h; exact hcs
  · rw [if_neg h1] at h
    by_cases h2 : (o.op == Op.eq && !(multiOps x).contains "==") = true
    · rw [if_pos h2] at h
      by_cases h3 : (GS.multi x cs).allowsV o.value = true
      · rw [if_pos h3] at h; cases h; rfl
      · rw [if_neg h3] at h; cases h; rfl
    · rw [if_neg h2] at h
      cases hi : o.invert with
      | error e => rw [hi] at h; cases h
      | ok i =>
        rw [hi] at h
        dsimp only at h
        by_cases h3 : cs.contains i = true
        · rw [if_pos h3] at h; cases h; rfl
        · rw [if_neg h3] at h; exact mkMulti_nondeg h (by simp)

theorem multiIntersectM_nondeg (x : Bool) (cs ds : List Atom) (r : GS)
    (hcs : (GS.multi x cs).nondeg = true) (h : multiIntersectM x cs ds = .ok r) : r.nondeg = true := by
  unfold multiIntersectM at h
  by_cases h1 : (x && eqNeClash (cs ++ ds)) = true
  · rw [if_pos h1] at h; cases h; rfl
  · rw [if_neg h1] at h
    exact mkMulti_nondeg h (by have := nondeg_multi hcs; cases cs <;> simp_all)

theorem GS.intersectS_nondeg (a b r : GS) (ha : a.nondeg = true) (hb : b.nondeg = true)
    (h : a.intersectS b = .ok r) : r.nondeg = true := by
  cases a with
  | any => cases h; exact hb
  | empty => cases h; rfl
  | atom a =>
    cases b with
    | any => cases h; rfl
    | empty => cases h; rfl
    | atom o => exact Atom.intersectA_nondeg a o r h
    | multi x cs => exact multiIntersectA_nondeg x cs a r hb h
  | multi x cs =>
    cases b with
    | any => cases h; exact ha
    | empty => cases h; rfl
    | atom o => exact multiIntersectA_nondeg x cs o r ha h
    | multi y ds => exact multiIntersectM_nondeg x cs ds r ha h

theorem Atom.unionA_nondeg (a o : Atom) (r : GC) (h : a.unionA o = .ok r) : r.nondeg = true := by
  unfold Atom.unionA at h
  by_cases hx : a.x = true
  · rw [if_pos hx] at h
    by_cases h1 : (o == a) = true
    · rw [if_pos h1] at h; cases h; rfl
    · rw [if_neg h1] at h
      by_cases h2 : (a.value == o.value && a.op != o.op) = true
      · rw [if_pos h2] at h; cases h; rfl
      · rw [if_neg h2] at h; cases h; rfl
  · rw [if_neg hx] at h
    by_cases h1 : (o == a) = true
    · rw [if_pos h1] at h; cases h; rfl
    · rw [if_neg h1] at h
      by_cases h2 : a.allowsAllA o = true
      · rw [if_pos h2] at h; cases h; rfl
      · rw [if_neg h2] at h
        by_cases h3 : o.allowsAllA a = true
        · rw [if_pos h3] at h; cases h; rfl
        · rw [if_neg h3] at h
          dsimp only at h
          split at h
          · cases h; rfl
          · cases hi : a.invert with
            | error e => rw [hi] at h; cases h
            | ok i =>
              rw [hi] at h
              dsimp only at h
              split at h
              · cases h; rfl
              · cases h; rfl

theorem multiUnionA_nondeg (x : Bool) (cs : List Atom) (o : Atom) (r : GC)
    (hcs : (GS.multi x cs).nondeg = true) (h : multiUnionA x cs o = .ok r) : r.nondeg = true := by
  unfold multiUnionA at h
  by_cases hx : x = true
  · rw [if_pos hx] at h
    by_cases h1 : cs.contains o = true
    · rw [if_pos h1] at h; cases h; rfl
    · rw [if_neg h1] at h
      split at h
      · cases h
        simp only [GC.nondeg, Bool.and_eq_true, Bool.not_eq_true', List.all_eq_true]
        refine ⟨by cases (List.filter (fun c => c.value != o.value) cs) <;> rfl, ?_⟩
        intro m hm
        rcases List.mem_append.mp hm with h' | h'
        · obtain ⟨c, _, rfl⟩ := List.mem_map.mp h'; rfl
        · simp at h'; subst h'; rfl
      · cases h; exact nondeg_union2 _ _ hcs rfl
  · rw [if_neg hx] at h
    by_cases h1 : cs.contains o = true
    · rw [if_pos h1] at h; cases h; rfl
    · rw [if_neg h1] at h
      split at h
      · split at h
        · cases h; exact hcs
        · cases h; exact nondeg_union2 _ _ hcs rfl
      · split at h
        · split at h
          · cases h; rfl
          · cases h; exact hcs
        · split at h
          · cases h; rfl
          · cases h; rfl
          · rename_i l hl1 hl2
            cases hm : mkMulti x (cs.filter (fun c => c.value != o.value)) with
            | error e => rw [hm] at h; cases h
            | ok m =>
              rw [hm] at h; cases h
              exact mkMulti_nondeg hm (fun e => hl1 e)

theorem multiUnionM_nondeg (x : Bool) (cs : List Atom) (y : Bool) (ds : List Atom) (r : GC)
    (hcs : (GS.multi x cs).nondeg = true) (hds : (GS.multi y ds).nondeg = true)
    (h : multiUnionM x cs y ds = .ok r) : r.nondeg = true := by
  unfold multiUnionM at h
  have sub : ∀ r : GC, (if subsetL cs ds = true then (.ok (.multi x cs) : PyM GC)
       else if subsetL ds cs = true then .ok (.multi y ds)
       else .ok (.union [.multi x cs, .multi y ds])) = .ok r → r.nondeg = true := by
    intro r h
    split at h
    · cases h; exact hcs
    · split at h
      · cases h; exact hds
      · cases h; exact nondeg_union2 _ _ hcs hds
  by_cases hx : x = true
  · rw [if_pos hx] at h; exact sub r h
  · rw [if_neg hx] at h
    split at h
    · exact sub r h
    · dsimp only at h
      split at h
      · cases h; rfl
      · rename_i hne
        cases hm : mkMulti x (cs.filter (fun c => ds.contains c)) with
        | error e => rw [hm] at h; cases h
        | ok m =>
          rw [hm] at h; cases h
          exact mkMulti_nondeg hm (fun e => hne (by rw [e]; rfl))

theorem GS.unionS_nondeg (a b : GS) (r : GC) (ha : a.nondeg = true) (hb : b.nondeg = true)
    (h : a.unionS b = .ok r) : r.nondeg = true := by
  cases a with
  | any => cases h; rfl
  | empty => cases h; exact hb
  | atom a =>
    cases b with
    | any => cases h; rfl
    | empty => cases h; rfl
    | atom o => exact Atom.unionA_nondeg a o r h
    | multi x cs => exact multiUnionA_nondeg x cs a r hb h
  | multi x cs =>
    cases b with
    | any => cases h; rfl
    | empty => cases h; exact ha
    | atom o => exact multiUnionA_nondeg x cs o r ha h
    | multi y ds => exact multiUnionM_nondeg x cs y ds r ha hb h

theorem Pc_and_nondeg {P : GS → Prop} {r : GC} (h1 : Pc P r) (h2 : r.nondeg = true) :
    Pc (fun c => P c ∧ c.nondeg = true) r := by
  cases r with
  | s c => exact ⟨h1, h2⟩
  | union ms =>
    simp only [GC.nondeg, Bool.and_eq_true, List.all_eq_true] at h2
    exact ⟨h1.1, fun m hm => ⟨h1.2 m hm, h2.2 m hm⟩⟩

theorem Pc_and_nondeg_iff {P : GS → Prop} (r : GC) :
    Pc (fun c => P c ∧ c.nondeg = true) r ↔ Pc P r ∧ r.nondeg = true := by
  constructor
  · intro h
    cases r with
    | s c => exact h
    | union ms =>
      refine ⟨⟨h.1, fun m hm => (h.2 m hm).1⟩, ?_⟩
      simp only [GC.nondeg, Bool.and_eq_true, List.all_eq_true, Bool.not_eq_true']
      exact ⟨by have := h.1; cases ms <;> simp_all, fun m hm => (h.2 m hm).2⟩
  · rintro ⟨h1, h2⟩; exact Pc_and_nondeg h1 h2

/-- any member algebra also preserves non-degeneracy -/
theorem MemberAlgR.withNondeg {P : GS → Prop} {F : (Atom → Bool) → Prop} {R : GS → GS → Prop}
    (A : MemberAlgR P F R) : MemberAlgR (fun c => P c ∧ c.nondeg = true) F R where
  empty := ⟨A.empty, rfl⟩
  atoms := fun x cs h c hc => ⟨A.atoms x cs h.1 c hc, rfl⟩
  inter := fun a b ha hb => by
    obtain ⟨r, h1, h2, h3⟩ := A.inter a b ha.1 hb.1
    exact ⟨r, h1, ⟨h2, GS.intersectS_nondeg a b r ha.2 hb.2 h1⟩, h3⟩
  union := fun a b ha hb hR => by
    obtain ⟨r, h1, h2, h3⟩ := A.union a b ha.1 hb.1 hR
    exact ⟨r, h1, Pc_and_nondeg h2 (GS.unionS_nondeg a b r ha.2 hb.2 h1), h3⟩

/-! ### `invert` never builds a degenerate object out of a non-degenerate one -/

theorem mapE_length {α β : Type} (f : α → PyM β) : ∀ (l : List α) (r : List β), mapE f l = .ok r → r.length = l.length :=
  fun l r h => (mapE_all f (fun _ => True) (fun _ _ _ => trivial) l r h).2

theorem atomsOf?_length : ∀ (inv : List GC) (as : List Atom), atomsOf? inv = some as → as.length = inv.length := by
  intro inv
  induction inv with
  | nil => intro as h; simp [atomsOf?] at h; subst h; rfl
  | cons i inv ih =>
    intro as h
    match i, h with
    | .s (.atom a), h =>
      simp only [atomsOf?] at h
      cases ha : atomsOf? inv with
      | none => simp [ha] at h
      | some as' =>
        simp only [ha, Option.map_some, Option.some.injEq] at h
        subst h; simp [ih as' ha]
    | .s .any, h => simp [atomsOf?] at h
    | .s .empty, h => simp [atomsOf?] at h
    | .s (.multi _ _), h => simp [atomsOf?] at h
    | .union _, h => simp [atomsOf?] at h

theorem GC.invert_nondeg (c r : GC) (hc : c.nondeg = true) (h : c.invert = .ok r) : r.nondeg = true := by
  cases c with
  | s c =>
    cases c with
    | any => cases h; rfl
    | empty => cases h; rfl
    | atom a =>
      simp only [GC.invert, GS.invert] at h
      cases ha : a.invert with
      | error e => simp [ha] at h
      | ok b => simp only [ha, Except.ok.injEq] at h; subst h; rfl
    | multi x cs =>
      simp only [GC.invert, GS.invert] at h
      cases hm : mapE Atom.invert cs with
      | error e => simp [hm] at h
      | ok l =>
        simp only [hm, Except.ok.injEq] at h; subst h
        have hl := mapE_length _ _ _ hm
        have hne := nondeg_multi (x := x) (cs := cs) hc
        simp only [GC.nondeg, Bool.and_eq_true, Bool.not_eq_true', List.all_eq_true]
        refine ⟨by cases l <;> cases cs <;> simp_all, ?_⟩
        intro m hm'
        obtain ⟨a, _, rfl⟩ := List.mem_map.mp hm'; rfl
  | union ms =>
    simp only [GC.invert, unionInvert] at h
    cases hm : mapE GS.invert ms with
    | error e => simp [hm] at h
    | ok inv =>
      simp only [hm] at h
      cases ha : atomsOf? inv with
      | none => simp [ha] at h
      | some as =>
        simp only [ha] at h
        cases hmk : mkMulti (as.any fun a => a.x) as with
        | error e => simp [hmk] at h
        | ok m =>
          simp only [hmk, Except.ok.injEq] at h; subst h
          have h1 := mapE_length _ _ _ hm
          have h2 := atomsOf?_length _ _ ha
          simp only [GC.nondeg, Bool.and_eq_true, Bool.not_eq_true'] at hc
          exact mkMulti_nondeg hmk (by cases as <;> cases ms <;> simp_all)

/-! ### what the parsers return -/

theorem parseWith_Pc {P : GS → Prop} {F : (Atom → Bool) → Prop} {R : GS → GS → Prop} (A : MemberAlgR P F R)
    (x : Bool) (hAny : P .any) (hatom : ∀ cs a, parseSingle x cs = .ok a → P (.atom a))
    (s : String) (c : GC) (h : parseWith x s = .ok c) : Pc P c := by
  have hgroup : ∀ g c, parseGroup x g = .ok c → P c := by
    intro g c h
    unfold parseGroup at h
    cases hm : mapE (parseSingle x) (reSplit sepComma g) with
    | error e => simp [hm] at h
    | ok l =>
      simp only [hm] at h
      have hall := (mapE_all (parseSingle x) (fun a => P (.atom a)) (fun cs a hab => hatom cs a hab) _ l hm).1
      match l, h, hall with
      | [], h, _ => dsimp only at h; cases h
      | a :: as, h, hall =>
        obtain ⟨r, h1, h2, _⟩ := foldIntersect_exactR A as (fun d hd => hall d (by simp [hd])) (.atom a)
          (hall a (by simp))
        dsimp only at h; rw [h1] at h; cases h; exact h2
  unfold parseWith at h
  split at h
  · cases h; exact hAny
  · cases hm : mapE (parseGroup x) (reSplit sepOr (strip s.toList)) with
    | error e => simp [hm] at h
    | ok l =>
      simp only [hm] at h
      obtain ⟨hall, hlen⟩ := mapE_all (parseGroup x) P hgroup _ l hm
      match l, h, hall, hlen with
      | [g], h, hall, _ => cases h; exact hall g (by simp)
      | [], h, _, hlen =>
        exfalso
        have := splitBy_ne_nil sepOr ((strip s.toList).length + 1) (strip s.toList) []
        unfold reSplit at hlen
        simp only [List.length_nil] at hlen
        exact this (List.length_eq_zero_iff.mp hlen.symm)
      | a :: b :: t, h, hall, _ => cases h; exact ⟨by simp, hall⟩

theorem Atom.mk?_x {x : Bool} {v s : String} {a : Atom} (h : Atom.mk? x v s = .ok a) : a.x = x := by
  unfold Atom.mk? at h
  simp only at h
  split at h
  · cases h
  · split at h
    · cases h
    · cases h; rfl

theorem parseSingle_x {x : Bool} {cs : List Char} {a : Atom} (h : parseSingle x cs = .ok a) : a.x = x := by
  unfold parseSingle at h
  split at h
  · exact Atom.mk?_x h
  · split at h
    · exact Atom.mk?_x h
    · cases h

/-- everything `parse_constraint` returns is well-formed (four operators) and non-degenerate -/
theorem parse_wf4 (s : String) (c : GC) (h : parseConstraint s = .ok c) : c.wf4 = true ∧ c.nondeg = true := by
  have := parseWith_Pc alg4.withNondeg false ⟨rfl, rfl⟩
    (fun cs a hab => ⟨by simp [GS.wf4, parseSingle_x hab], rfl⟩) s c h
  rw [Pc_and_nondeg_iff, Pc_wf4] at this
  exact this

/-- everything `parse_extra_constraint` returns is non-degenerate -/
theorem parseExtra_nondeg (s : String) (c : GC) (h : parseExtraConstraint s = .ok c) : c.nondeg = true := by
  have := parseWith_Pc algX.toR.withNondeg true ⟨rfl, rfl⟩
    (fun cs a hab => ⟨parseSingle_true_wfX hab, rfl⟩) s c h
  rw [Pc_and_nondeg_iff] at this
  exact this.2

theorem GS.wfG_of_wf4_frag {c : GS} (h4 : c.wf4 = true) (hf : c.frag = true) : c.wfG = true := by
  cases c with
  | any => rfl
  | empty => rfl
  | atom a => simp only [GS.wfG, Bool.and_eq_true, Bool.not_eq_true']; exact ⟨wf4_atom h4, hf⟩
  | multi x cs =>
    obtain ⟨rfl, h'⟩ := wf4_multi h4
    simp only [GS.frag, List.all_eq_true] at hf
    refine wfG_multi_mk (fun c hc => ⟨(h' c hc).1, ?_⟩)
    rcases isEqNe_iff.mp (hf c hc) with e | e
    · exact absurd e (h' c hc).2
    · exact e

theorem GC.wfG_of_wf4_frag {c : GC} (h4 : c.wf4 = true) (hf : c.frag = true) : c.wfG = true := by
  cases c with
  | s c => exact GS.wfG_of_wf4_frag h4 hf
  | union ms =>
    simp only [GC.wf4, Bool.and_eq_true, List.all_eq_true] at h4
    simp only [GC.frag, List.all_eq_true] at hf
    simp only [GC.wfG, Bool.and_eq_true, List.all_eq_true]
    exact ⟨h4.1, fun m hm => GS.wfG_of_wf4_frag (h4.2 m hm) (hf m hm)⟩

theorem ncCompat_of_frag (a b : GC) (ha : a.frag = true) : a.ncCompat b = true := by
  rw [ncCompat_iff]
  intro m hm n _
  have hmf : m.frag = true := by
    cases a with
    | s c => simp [GC.members] at hm; subst hm; exact ha
    | union ms => simp only [GC.frag, List.all_eq_true] at ha; exact ha m hm
  cases m with
  | atom x =>
    cases n with
    | atom y =>
      simp only [GS.ncClash, ncClash]
      rcases isEqNe_iff.mp hmf with e | e <;> simp [e]
    | _ => rfl
  | _ => rfl

/-- results on non-degenerate operands are non-degenerate (single-valued, four operators) -/
theorem GC.intersect_nondeg4 (a b : GC) (ha : a.wf4 = true) (hb : b.wf4 = true) (hna : a.nondeg = true)
    (hnb : b.nondeg = true) : ∃ r, a.intersect b = .ok r ∧ r.nondeg = true := by
  obtain ⟨r, h1, h2, _⟩ := GC.intersect_exactR alg4.withNondeg ⟨rfl, rfl⟩ a b
    ((Pc_and_nondeg_iff a).mpr ⟨(Pc_wf4 a).mpr ha, hna⟩) ((Pc_and_nondeg_iff b).mpr ⟨(Pc_wf4 b).mpr hb, hnb⟩)
  exact ⟨r, h1, ((Pc_and_nondeg_iff r).mp h2).2⟩

theorem GC.unionWith_nondeg4 (a b : GC) (ha : a.wf4 = true) (hb : b.wf4 = true) (hc : a.ncCompat b = true)
    (hna : a.nondeg = true) (hnb : b.nondeg = true) : ∃ r, a.unionWith b = .ok r ∧ r.nondeg = true := by
  obtain ⟨r, h1, h2, _⟩ := GC.unionWith_exactR alg4.withNondeg ⟨rfl, rfl⟩
    (fun x y h => by rw [GS.ncClash_symm]; exact h) a b
    ((Pc_and_nondeg_iff a).mpr ⟨(Pc_wf4 a).mpr ha, hna⟩) ((Pc_and_nondeg_iff b).mpr ⟨(Pc_wf4 b).mpr hb, hnb⟩)
    ((ncCompat_iff a b).mp hc)
  exact ⟨r, h1, ((Pc_and_nondeg_iff r).mp h2).2⟩

theorem GC.intersect_nondegX (a b : GC) (ha : a.wfX = true) (hb : b.wfX = true) (hna : a.nondeg = true)
    (hnb : b.nondeg = true) : ∃ r, a.intersect b = .ok r ∧ r.nondeg = true := by
  obtain ⟨r, h1, h2, _⟩ := GC.intersect_exactR algX.toR.withNondeg ⟨rfl, rfl⟩ a b
    ((Pc_and_nondeg_iff a).mpr ⟨(Pc_wfX a).mpr ha, hna⟩) ((Pc_and_nondeg_iff b).mpr ⟨(Pc_wfX b).mpr hb, hnb⟩)
  exact ⟨r, h1, ((Pc_and_nondeg_iff r).mp h2).2⟩

theorem GC.unionWith_nondegX (a b : GC) (ha : a.wfX = true) (hb : b.wfX = true)
    (hna : a.nondeg = true) (hnb : b.nondeg = true) : ∃ r, a.unionWith b = .ok r ∧ r.nondeg = true := by
  obtain ⟨r, h1, h2, _⟩ := GC.unionWith_exactR algX.toR.withNondeg ⟨rfl, rfl⟩ (fun _ _ _ => trivial) a b
    ((Pc_and_nondeg_iff a).mpr ⟨(Pc_wfX a).mpr ha, hna⟩) ((Pc_and_nondeg_iff b).mpr ⟨(Pc_wfX b).mpr hb, hnb⟩)
    (fun _ _ _ _ => trivial)
  exact ⟨r, h1, ((Pc_and_nondeg_iff r).mp h2).2⟩

theorem Atom.invert_x {a b : Atom} (h : a.invert = .ok b) : b.x = a.x := by
  unfold Atom.invert at h
  split at h
  · cases h
  · exact Atom.mk?_x h

theorem mkMulti_false_ops {cs : List Atom} {m : GS} (h : mkMulti false cs = .ok m) : ∀ c ∈ cs, c.op ≠ .eq := by
  unfold mkMulti at h
  split at h
  · cases h
  · rename_i hn
    simp only [List.any_eq_true, not_exists, not_and, multiOps_false, Bool.not_eq_true', Bool.not_eq_false] at hn
    intro c hc e
    have := hn c hc
    simp [e, Op.str] at this

theorem unionInvert_atoms_x : ∀ (ms : List GS) (inv : List GC) (as : List Atom), (∀ m ∈ ms, m.wf4 = true) →
    mapE GS.invert ms = .ok inv → atomsOf? inv = some as → ∀ a ∈ as, a.x = false := by
  intro ms
  induction ms with
  | nil => intro inv as _ h1 h2; cases h1; simp [atomsOf?] at h2; subst h2; simp
  | cons m ms ih =>
    intro inv as hq h1 h2
    simp only [mapE] at h1
    cases hm : m.invert with
    | error e => simp [hm] at h1
    | ok i =>
      cases hms : mapE GS.invert ms with
      | error e => simp [hm, hms] at h1
      | ok inv' =>
        simp only [hm, hms, Except.ok.injEq] at h1
        subst h1
        match i, hm, h2 with
        | .s (.atom a), hm, h2 =>
          simp only [atomsOf?] at h2
          cases ha : atomsOf? inv' with
          | none => simp [ha] at h2
          | some as' =>
            simp only [ha, Option.map_some, Option.some.injEq] at h2
            subst h2
            intro b hb
            simp only [List.mem_cons] at hb
            rcases hb with rfl | hb
            · -- the member is an atom
              cases m with
              | atom c =>
                simp only [GS.invert] at hm
                cases hc : c.invert with
                | error e => simp [hc] at hm
                | ok d =>
                  simp only [hc, Except.ok.injEq, GC.s.injEq, GS.atom.injEq] at hm
                  subst hm
                  rw [Atom.invert_x hc]; exact wf4_atom (hq _ (by simp))
              | any => simp [GS.invert] at hm
              | empty => simp [GS.invert] at hm
              | multi y cs =>
                simp only [GS.invert] at hm
                cases hc : mapE Atom.invert cs with
                | error e => simp [hc] at hm
                | ok l => simp [hc] at hm
            · exact ih inv' as' (fun m hm => hq m (by simp [hm])) hms ha b hb
        | .s .any, _, h2 => simp [atomsOf?] at h2
        | .s .empty, _, h2 => simp [atomsOf?] at h2
        | .s (.multi _ _), _, h2 => simp [atomsOf?] at h2
        | .union _, _, h2 => simp [atomsOf?] at h2

theorem mapE_invert_x : ∀ (cs l : List Atom), (∀ c ∈ cs, c.x = false) → mapE Atom.invert cs = .ok l →
    ∀ b ∈ l, b.x = false := by
  intro cs
  induction cs with
  | nil => intro l _ h; cases h; simp
  | cons c cs ih =>
    intro l hq h
    simp only [mapE] at h
    cases hc : c.invert with
    | error e => simp [hc] at h
    | ok b =>
      cases hm : mapE Atom.invert cs with
      | error e => simp [hc, hm] at h
      | ok bs =>
        simp only [hc, hm, Except.ok.injEq] at h
        subst h
        intro d hd
        simp only [List.mem_cons] at hd
        rcases hd with rfl | hd
        · rw [Atom.invert_x hc]; exact hq c (by simp)
        · exact ih bs (fun c hc' => hq c (by simp [hc'])) hm d hd

/-- `invert`, where it returns, maps well-formed non-degenerate objects to well-formed ones (four operators) -/
theorem GC.invert_wf4 (c r : GC) (hc : c.wf4 = true) (hn : c.nondeg = true) (h : c.invert = .ok r) :
    r.wf4 = true := by
  cases c with
  | s c =>
    cases c with
    | any => cases h; rfl
    | empty => cases h; rfl
    | atom a =>
      simp only [GC.invert, GS.invert] at h
      cases ha : a.invert with
      | error e => simp [ha] at h
      | ok b =>
        simp only [ha, Except.ok.injEq] at h; subst h
        simp [GC.wf4, GS.wf4, Atom.invert_x ha, wf4_atom hc]
    | multi x cs =>
      simp only [GC.invert, GS.invert] at h
      cases hm : mapE Atom.invert cs with
      | error e => simp [hm] at h
      | ok l =>
        simp only [hm, Except.ok.injEq] at h; subst h
        have hl := mapE_length _ _ _ hm
        have hne := nondeg_multi (x := x) (cs := cs) hn
        have hx := mapE_invert_x cs l (fun c hc' => ((wf4_multi hc).2 c hc').1) hm
        simp only [GC.wf4, Bool.and_eq_true, Bool.not_eq_true', List.all_eq_true]
        refine ⟨by cases l <;> cases cs <;> simp_all, ?_⟩
        intro m hm'
        obtain ⟨b, hb, rfl⟩ := List.mem_map.mp hm'
        simp [GS.wf4, hx b hb]
  | union ms =>
    simp only [GC.invert, unionInvert] at h
    cases hm : mapE GS.invert ms with
    | error e => simp [hm] at h
    | ok inv =>
      simp only [hm] at h
      cases ha : atomsOf? inv with
      | none => simp [ha] at h
      | some as =>
        simp only [ha] at h
        simp only [GC.wf4, Bool.and_eq_true, List.all_eq_true] at hc
        have hx := unionInvert_atoms_x ms inv as hc.2 hm ha
        have hany : (as.any fun a => a.x) = false := by
          simp only [List.any_eq_false]; intro a ha'; simp [hx a ha']
        rw [hany] at h
        cases hmk : mkMulti false as with
        | error e => simp [hmk] at h
        | ok m =>
          simp only [hmk, Except.ok.injEq] at h; subst h
          have hops := mkMulti_false_ops hmk
          rw [mkMulti_eq_ok hmk]
          exact wf4_multi_mk (fun c hc' => ⟨hx c hc', hops c hc'⟩)

/-- the remaining unsound call site, exactly: `Constraint.union` on two `not in` atoms neither of whose values
contains the other returns `AnyConstraint`, although the concatenation of the two values is in neither. -/
theorem Atom.unionA_ncClash (a o : Atom) (ha : a.x = false) (ho : o.x = false) (hc : ncClash a o = true) :
    a.unionA o = .ok .any ∧ (a.den (a.value ++ o.value) || o.den (a.value ++ o.value)) = false := by
  obtain ⟨av, aop, ax⟩ := a
  obtain ⟨ov, oop, ox⟩ := o
  simp only at ha ho; subst ha; subst ho
  simp only [ncClash, Bool.and_eq_true, beq_iff_eq, Bool.not_eq_true'] at hc
  obtain ⟨⟨⟨rfl, rfl⟩, h1⟩, h2⟩ := hc
  have hne : ¬ ov = av := by intro e; rw [e, strIn_refl] at h1; cases h1
  refine ⟨?_, ?_⟩
  · simp [Atom.unionA, Atom.allowsAllA, h1, h2, hne]
  · simp [Atom.den, strIn_append_left, strIn_append_right]

/-- … and it is the only one: for plain atoms `Constraint.union` is exact if and only if it is not hit -/
theorem Atom.unionA_exact_iff (a o : Atom) (ha : a.x = false) (ho : o.x = false) :
    (∃ r, a.unionA o = .ok r ∧ ∀ v, r.den v = (a.den v || o.den v)) ↔ ncClash a o = false := by
  constructor
  · intro ⟨r, h1, h2⟩
    cases hc : ncClash a o
    · rfl
    · obtain ⟨g1, g2⟩ := Atom.unionA_ncClash a o ha ho hc
      rw [g1] at h1; cases h1
      have := h2 (a.value ++ o.value)
      rw [g2] at this
      simp [GC.den, GC.sem, GS.sem] at this
  · intro hc
    obtain ⟨r, h1, _, h3⟩ := Atom.unionA_4 a o ha ho hc
    exact ⟨r, h1, h3⟩

end Poetry.Generic
