/-
The merge walk of `VersionUnion.intersect` returns exactly the pairwise non-empty intersections, in order, for
lists of ANY length (helper lemmas for C05): on sorted lists of range members the pairs the walk skips have empty
intersections, so the staircase it visits loses nothing — no dependence on the number of members.
-/
import PoetryVerif.Proofs.VRangeSep
import PoetryVerif.Proofs.VRangeInterU

set_option linter.unusedSimpArgs false
set_option linter.unusedVariables false

namespace Poetry
open Version

namespace VRange

/-- if `t` reaches at least as high as `o`, what lies strictly above `t` lies strictly above `o` -/
theorem sl_of_higher {t o x : VRange} (h : t.allowsHigher o = true) (h1 : t.isStrictlyLower x = true) :
    o.isStrictlyLower x = true := by
  unfold allowsHigher at h
  unfold isStrictlyLower allowedMin at *
  cases ht : t.allowedMax <;> cases ho : o.allowedMax <;> cases hx : x.min <;>
    cases hit : t.imax <;> cases hio : o.imax <;> cases hix : x.imin <;>
    simp [ht, ho, hx, hit, hio, hix, lt_iff, gt_iff] at * <;> grind

/-- if `t` does not reach higher than `o`, what lies strictly above `o` lies strictly above `t` -/
theorem sl_of_not_higher {t o x : VRange} (h : t.allowsHigher o = false) (h1 : o.isStrictlyLower x = true) :
    t.isStrictlyLower x = true := by
  unfold allowsHigher at h
  unfold isStrictlyLower allowedMin at *
  cases ht : t.allowedMax <;> cases ho : o.allowedMax <;> cases hx : x.min <;>
    cases hit : t.imax <;> cases hio : o.imax <;> cases hix : x.imin <;>
    simp [ht, ho, hx, hit, hio, hix, lt_iff, gt_iff] at * <;> grind

/-- a range strictly below another has an empty intersection with it (either order of the operands) -/
theorem intersect_empty_of_sl (a b : VRange) (hne : a.NE) (h : a.isStrictlyLower b = true) :
    RC.rngIntersectRng a b = .ok .empty ∧ RC.rngIntersectRng b a = .ok .empty := by
  have hlow : a.allowsLower b = true := by
    unfold NE at hne
    unfold allowsLower isStrictlyLower allowedMin at *
    cases ha : a.allowedMax <;> cases ham : a.min <;> cases hb : b.min <;>
      cases hia : a.imax <;> cases him : a.imin <;> cases hib : b.imin <;>
      simp [ha, ham, hb, hia, him, hib, lt_iff, gt_iff] at * <;> grind
  have hlow' : b.allowsLower a = false := by
    unfold NE at hne
    unfold allowsLower isStrictlyLower allowedMin at *
    cases ha : a.allowedMax <;> cases ham : a.min <;> cases hb : b.min <;>
      cases hia : a.imax <;> cases him : a.imin <;> cases hib : b.imin <;>
      simp [ha, ham, hb, hia, him, hib, lt_iff, gt_iff] at * <;> grind
  constructor
  · rw [rngIntersectRng_eq]; simp [hlow, h]
  · rw [rngIntersectRng_eq]; simp [hlow', h]

end VRange

theorem filterMap_cons_toList {α β : Type} (f : α → Option β) (a : α) (l : List α) :
    (a :: l).filterMap f = (f a).toList ++ l.filterMap f := by
  rw [List.filterMap_cons]; cases f a <;> simp

theorem flatMap_congr_mem {α β : Type} (f g : α → List β) : ∀ (l : List α), (∀ a ∈ l, f a = g a) →
    l.flatMap f = l.flatMap g
  | [], _ => rfl
  | a :: l, h => by
    simp only [List.flatMap_cons, h a (by simp), flatMap_congr_mem f g l (fun x hx => h x (by simp [hx]))]

/-- the non-empty intersection of two members, if any -/
def pairPart (o t : RC) : Option VC :=
  match RC.intersect o t with
  | .ok i => if i.isEmpty then none else some i
  | .error _ => none

/-- all pairwise non-empty intersections, `ours` outer, `theirs` inner -/
def pairwiseParts (ours theirs : List RC) : List VC := ours.flatMap (fun o => theirs.filterMap (pairPart o))

theorem pairPart_none_of_sl {o t : RC} (ho : RngMember o) (ht : RngMember t)
    (h : o.view.isStrictlyLower t.view = true) : pairPart o t = none ∧ pairPart t o = none := by
  obtain ⟨r, rfl⟩ := ho.2.2.2
  obtain ⟨s, rfl⟩ := ht.2.2.2
  obtain ⟨h1, h2⟩ := VRange.intersect_empty_of_sl r s ho.2.2.1 h
  exact ⟨by simp [pairPart, RC.intersect, h1, VC.isEmpty], by simp [pairPart, RC.intersect, h2, VC.isEmpty]⟩

/-- **the merge walk returns the pairwise non-empty intersections in order, whatever the lengths of the lists** -/
theorem unionIntersectLoop_eq_pairwise : ∀ (fuel : Nat) (ours theirs : List RC) (acc : List VC),
    ours.length + theirs.length < fuel →
    (∀ c ∈ ours, RngMember c) → (∀ c ∈ theirs, RngMember c) → SortedRC ours → SortedRC theirs →
    VC.unionIntersectLoop fuel ours theirs acc = .ok (acc ++ pairwiseParts ours theirs)
  | 0, ours, theirs, acc, hf, _, _, _, _ => by omega
  | fuel + 1, [], theirs, acc, _, _, _, _, _ => by simp [VC.unionIntersectLoop, pairwiseParts]
  | fuel + 1, o :: os, [], acc, _, _, _, _, _ => by simp [VC.unionIntersectLoop, pairwiseParts]
  | fuel + 1, o :: os, t :: ts, acc, hf, ho, ht, hso, hst => by
    have hom := ho o (by simp)
    have htm := ht t (by simp)
    obtain ⟨r, hr⟩ := hom.2.2.2
    obtain ⟨s, hs⟩ := htm.2.2.2
    have hi : ∃ i, RC.intersect o t = .ok i := by
      subst hr; subst hs
      rcases VRange.intersect_den r s hom.1 htm.1 with ⟨h, _⟩ | ⟨x, h, _⟩ | ⟨u, h, _⟩ <;> exact ⟨_, h⟩
    obtain ⟨i, hi⟩ := hi
    have hacc : (if i.isEmpty then acc else acc ++ [i]) = acc ++ (pairPart o t).toList := by
      simp only [pairPart, hi]
      cases i.isEmpty <;> simp
    simp only [VC.unionIntersectLoop, hi, bind, Except.bind]
    by_cases hh : t.view.allowsHigher o.view = true
    · simp only [hh, if_true]
      rw [unionIntersectLoop_eq_pairwise fuel os (t :: ts) _ (by simp at hf ⊢; omega)
        (fun c hc => ho c (by simp [hc])) ht (List.pairwise_cons.1 hso).2 hst, hacc]
      have hskip : ts.filterMap (pairPart o) = [] := by
        rw [List.filterMap_eq_nil_iff]
        intro t' ht'
        have h2 : t.view.isStrictlyLower t'.view = true := (List.pairwise_cons.1 hst).1 t' ht'
        exact (pairPart_none_of_sl hom (ht t' (by simp [ht'])) (VRange.sl_of_higher hh h2)).1
      simp [pairwiseParts, filterMap_cons_toList, hskip]
    · simp only [hh, Bool.false_eq_true, if_false]
      simp only [Bool.not_eq_true] at hh
      rw [unionIntersectLoop_eq_pairwise fuel (o :: os) ts _ (by simp at hf ⊢; omega)
        ho (fun c hc => ht c (by simp [hc])) hso (List.pairwise_cons.1 hst).2, hacc]
      have hskip : ∀ o' ∈ os, pairPart o' t = none := by
        intro o' ho'
        have h2 : o.view.isStrictlyLower o'.view = true := (List.pairwise_cons.1 hso).1 o' ho'
        exact (pairPart_none_of_sl htm (ho o' (by simp [ho'])) (VRange.sl_of_not_higher hh h2)).2
      have hos : pairwiseParts os (t :: ts) = pairwiseParts os ts := by
        unfold pairwiseParts
        apply flatMap_congr_mem
        intro o' ho'
        simp [filterMap_cons_toList, hskip o' ho']
      simp only [pairwiseParts, List.flatMap_cons] at hos ⊢
      rw [hos, filterMap_cons_toList]
      simp

end Poetry
