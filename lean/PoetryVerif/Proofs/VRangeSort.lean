/-
The sort order of `VersionUnion.of` (`VersionRange._cmp` / `RC.lt`): antisymmetric and transitive, so the
stable insertion sort returns a sorted permutation (helper lemmas for C05).
-/
import PoetryVerif.Proofs.VRangeMerge

set_option linter.unusedSimpArgs false
set_option linter.unusedVariables false

namespace Poetry
open Version

namespace VRange

/-- the lower-end part of `_cmp` -/
def minPart (a b : VRange) : Int :=
  match a.min, b.min with
  | none, none => 0
  | none, some _ => -1
  | some _, none => 1
  | some x, some y =>
    if Version.gt x y then 1
    else if Version.lt x y then -1
    else if a.imin != b.imin then (if a.imin then -1 else 1)
    else 0

theorem cmp_eq (a b : VRange) : cmp a b = if minPart a b = 0 then compareMax a b else minPart a b := by
  unfold cmp minPart
  cases ha : a.min with
  | none => cases hb : b.min <;> simp
  | some x =>
    cases hb : b.min with
    | none => simp
    | some y =>
      cases hg : Version.gt x y <;> cases hl : Version.lt x y <;> cases hia : a.imin <;> cases hib : b.imin <;> simp [hg, hl, hia, hib]

theorem minPart_range (a b : VRange) : minPart a b = -1 ∨ minPart a b = 0 ∨ minPart a b = 1 := by
  unfold minPart
  cases ha : a.min with
  | none => cases hb : b.min <;> simp
  | some x =>
    cases hb : b.min with
    | none => simp
    | some y =>
      cases hg : Version.gt x y <;> cases hl : Version.lt x y <;> cases hia : a.imin <;> cases hib : b.imin <;> simp [hg, hl, hia, hib]

theorem compareMax_range (a b : VRange) : compareMax a b = -1 ∨ compareMax a b = 0 ∨ compareMax a b = 1 := by
  unfold compareMax
  cases ha : a.max with
  | none => cases hb : b.max <;> simp
  | some x =>
    cases hb : b.max with
    | none => simp
    | some y =>
      cases hg : Version.gt x y <;> cases hl : Version.lt x y <;> cases hia : a.imax <;> cases hib : b.imax <;> simp [hg, hl, hia, hib]

theorem minPart_antisymm (a b : VRange) : minPart b a = - minPart a b := by
  unfold minPart
  cases ha : a.min <;> cases hb : b.min <;> cases hia : a.imin <;> cases hib : b.imin <;>
    simp [lt_iff, gt_iff] <;> grind

theorem compareMax_antisymm (a b : VRange) : compareMax b a = - compareMax a b := by
  unfold compareMax
  cases ha : a.max <;> cases hb : b.max <;> cases hia : a.imax <;> cases hib : b.imax <;>
    simp [lt_iff, gt_iff] <;> grind

theorem minPart_trans (a b c : VRange) :
    (minPart a b < 0 → minPart b c ≤ 0 → minPart a c < 0) ∧
    (minPart a b ≤ 0 → minPart b c < 0 → minPart a c < 0) ∧
    (minPart a b = 0 → minPart b c = 0 → minPart a c = 0) := by
  unfold minPart
  cases ha : a.min <;> cases hb : b.min <;> cases hc : c.min <;>
    cases hia : a.imin <;> cases hib : b.imin <;> cases hic : c.imin <;>
    simp [lt_iff, gt_iff] <;> grind

theorem compareMax_trans (a b c : VRange) :
    (compareMax a b < 0 → compareMax b c ≤ 0 → compareMax a c < 0) ∧
    (compareMax a b ≤ 0 → compareMax b c < 0 → compareMax a c < 0) ∧
    (compareMax a b = 0 → compareMax b c = 0 → compareMax a c = 0) := by
  unfold compareMax
  cases ha : a.max <;> cases hb : b.max <;> cases hc : c.max <;>
    cases hia : a.imax <;> cases hib : b.imax <;> cases hic : c.imax <;>
    simp [lt_iff, gt_iff] <;> grind

/-- `_cmp` is antisymmetric -/
theorem cmp_antisymm (a b : VRange) : cmp b a = - cmp a b := by
  rw [cmp_eq, cmp_eq, minPart_antisymm a b, compareMax_antisymm a b]
  rcases minPart_range a b with h | h | h <;> simp [h]

/-- `_cmp` is transitive -/
theorem cmp_trans (a b c : VRange) (h1 : cmp a b < 0) (h2 : cmp b c < 0) : cmp a c < 0 := by
  rw [cmp_eq] at *
  obtain ⟨m1, m2, m3⟩ := minPart_trans a b c
  obtain ⟨x1, x2, x3⟩ := compareMax_trans a b c
  have r1 := minPart_range a b
  have r2 := minPart_range b c
  have r3 := minPart_range a c
  generalize minPart a b = mab at *
  generalize minPart b c = mbc at *
  generalize minPart a c = mac at *
  generalize compareMax a b = xab at *
  generalize compareMax b c = xbc at *
  generalize compareMax a c = xac at *
  split at h1 <;> split at h2 <;> split <;> omega

theorem cmp_self (a : VRange) : cmp a a = 0 := by
  have := cmp_antisymm a a; omega

end VRange

namespace RC

theorem cmp_view_ver (a b : Version) : VRange.cmp (RC.ver a).view (RC.ver b).view < 0 ↔ Version.lt a b = true := by
  simp only [VRange.cmp, VRange.compareMax, view, RC.min, RC.max, RC.imin, RC.imax]
  cases hg : Version.gt a b <;> cases hl : Version.lt a b <;> simp [hg, hl]
  · rw [gt_iff] at hg; rw [lt_iff] at hl; exact absurd hl (lt_asymm hg)

/-- Python `<` on members is `_cmp(…) < 0` on their (min, max, include_min, include_max) views -/
theorem lt_iff_cmp (x y : RC) : RC.lt x y = true ↔ VRange.cmp x.view y.view < 0 := by
  cases x with
  | ver a =>
    cases y with
    | ver b => rw [cmp_view_ver]; rfl
    | rng r =>
      simp only [RC.lt, decide_eq_true_eq]
      have := VRange.cmp_antisymm r (ver a).view
      show _ ↔ VRange.cmp (ver a).view r < 0
      omega
  | rng r => simp [RC.lt]

theorem lt_trans' {x y z : RC} (h1 : RC.lt x y = true) (h2 : RC.lt y z = true) : RC.lt x z = true := by
  rw [lt_iff_cmp] at *; exact VRange.cmp_trans _ _ _ h1 h2

theorem lt_asymm' {x y : RC} (h : RC.lt x y = true) : RC.lt y x = false := by
  rw [← Bool.not_eq_true, lt_iff_cmp]
  rw [lt_iff_cmp] at h
  rw [VRange.cmp_antisymm]; omega

end RC

/-! ### the insertion sort returns a sorted list -/

/-- sorted for Python's `<`: no later element is smaller than an earlier one -/
def SortedLt (l : List RC) : Prop := l.Pairwise (fun x y => RC.lt y x = false)

theorem insertSorted_sorted (x : RC) : ∀ l : List RC, SortedLt l → SortedLt (insertSorted x l)
  | [], _ => by simp [insertSorted, SortedLt]
  | y :: ys, h => by
    have hy := List.pairwise_cons.1 h
    simp only [insertSorted]
    by_cases hxy : RC.lt x y = true
    · simp only [hxy, if_true]
      refine List.pairwise_cons.2 ⟨?_, h⟩
      intro z hz
      simp only [List.mem_cons] at hz
      rcases hz with rfl | hz
      · exact RC.lt_asymm' hxy
      · -- z ≥ y > x
        cases hzx : RC.lt z x
        · rfl
        · have := RC.lt_trans' hzx hxy
          rw [hy.1 z hz] at this; cases this
    · simp only [hxy, Bool.false_eq_true, if_false]
      refine List.pairwise_cons.2 ⟨?_, insertSorted_sorted x ys hy.2⟩
      intro z hz
      rw [mem_insertSorted] at hz
      rcases hz with rfl | hz
      · simpa using hxy
      · exact hy.1 z hz

theorem foldl_insert_sorted : ∀ (l acc : List RC), SortedLt acc →
    SortedLt (l.foldl (fun acc x => insertSorted x acc) acc)
  | [], acc, h => h
  | x :: xs, acc, h => foldl_insert_sorted xs _ (insertSorted_sorted x acc h)

/-- **`list.sort()` as modelled returns a sorted permutation** -/
theorem sortRCs_sorted (l : List RC) : SortedLt (sortRCs l) ∧ ∀ c, c ∈ sortRCs l ↔ c ∈ l :=
  ⟨foldl_insert_sorted l [] List.Pairwise.nil, fun c => mem_sortRCs c l⟩

end Poetry
