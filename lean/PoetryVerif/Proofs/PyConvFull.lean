/-
C11 / C17 on the domain where C07's leaf specification is proved with no hypothesis (`FullLeaf E`: plain string
variables, `extra`, `python_version op "a.b"`, `python_full_version op "a.b.c"` with comparison operators), under
`EnvPy E X Y Z` with a set of active extras: the pairing theorem `pairSound_py` closes `LeafSpec`, so the
theorems against poetry's own `validate` hold without a leaf-level hypothesis.
-/
import PoetryVerif.Proofs.PyConvPairFinal
import PoetryVerif.Proofs.PyConvLeaf

set_option linter.unusedSimpArgs false
set_option linter.unusedVariables false

namespace Poetry.Marker
open Poetry Poetry.Spec.Pep508

/-! ### the theorems against `validate`, for any invariant with a proved leaf specification -/

theorem good_evaluable {G : Leaf → Prop} (E : Env) (hev : ∀ l, G l → ∃ b, l.validate E = .ok b) (m : M)
    (h : M.Good G m) : M.Evaluable E m :=
  M.good_mono (fun l hl => hev l hl) m h

theorem gpc_upper_validate_gen {G : Leaf → Prop} (E : Env) (X Y Z : Nat) (S : LeafSpec (leafEval E) G)
    (hev : ∀ l, G l → ∃ b, l.validate E = .ok b)
    (hcl : ∀ l, G l → convKey l.name = pyKey → LeafClause (leafEval E) X Y Z l)
    (m : M) (g : VC) (hg : M.Good G m) (h : gpc m = .ok g)
    (hv : M.validate E m = .ok true) : g.allowsPlain (pyV X Y Z) = true := by
  rw [M.validate_eq_sem E m (good_evaluable E hev m hg)] at hv
  injection hv with hv
  exact gpc_upper S X Y Z m g hg hcl (splitSound_holds X Y Z) h hv

theorem gpc_exact_validate_gen {G : Leaf → Prop} (E : Env) (X Y Z : Nat) (S : LeafSpec (leafEval E) G)
    (hev : ∀ l, G l → ∃ b, l.validate E = .ok b)
    (hcl : ∀ l, G l → convKey l.name = pyKey → LeafClause (leafEval E) X Y Z l)
    (hcanon : ∀ l, G l → Canon l)
    (m : M) (g : VC) (hg : M.Good G m) (hvars : ∀ n ∈ M.vars m, pyNames.contains n = true)
    (h : gpc m = .ok g) : M.validate E m = .ok (g.allowsPlain (pyV X Y Z)) := by
  rw [M.validate_eq_sem E m (good_evaluable E hev m hg)]
  congr 1
  refine gpc_exact S X Y Z m g hg hvars hcl (splitSound_holds X Y Z) ?_ h
  intro d hd l hl
  have hv := dnf_vars S hcanon _ _ m d hg hd l.name (leaf_name_mem_vars d l hl)
  exact convKey_of_pyNames (hvars _ hv)

/-! ### the python leaves of the full domain are leaves of C11's exact shape -/

theorem pvLeaf_comp {E : Env} {X Y : Nat} (hE : E.get? "python_version" = some (Version.relText [X, Y]))
    {l : Leaf} (h : PvLeaf l) : CompLeaf E l ∧ PyShaped l := by
  obtain ⟨sop, ops, a, b, hm, rfl⟩ := h
  refine ⟨⟨_, rfl, ?_, ⟨_, pvLeaf_eval hE hm a b⟩, by simp [Canon, Leaf.name, pvLeafOf]; decide⟩, ?_⟩
  · simp only [Single.coherent, pvLeafOf, itemConstraintString, Bool.false_eq_true, if_false, mkSingle_pvLeaf hm a b]
    simp [pvLeafOf]
  · intro _
    exact ⟨_, [a, b], rfl, rfl, (pvOps_facts hm (litV a [b])).2.2, .short a b, rfl⟩

theorem pfv3Leaf_comp {E : Env} {X Y Z : Nat}
    (hE : E.get? "python_full_version" = some (Version.relText [X, Y, Z])) {l : Leaf} (h : Pfv3Leaf l) :
    CompLeaf E l ∧ PyShaped l := by
  obtain ⟨sop, ops, a, b, c, hm, rfl⟩ := h
  refine ⟨⟨_, rfl, ?_, ⟨_, pfv3_eval hE hm a b c⟩, by simp [Canon, Leaf.name, pfvLeafOf]; decide⟩, ?_⟩
  · exact (pfv3_verLeaf (B := [litV a [b, c]]) hm a b c (by simp)).2.1
  · intro _
    exact ⟨_, [a, b, c], rfl, rfl, (pvOps_facts hm (litV a [b, c])).2.2, .full a b c, rfl⟩

theorem fullLeaf_clause {E : Env} {X Y Z : Nat} (hE : EnvPy E X Y Z) (l : Leaf) (h : FullLeaf E l)
    (hk : convKey l.name = pyKey) : LeafClause (leafEval E) X Y Z l := by
  rcases h with h | h | h
  · exfalso
    rcases pyName_of_convKey hk with hn | hn
    · rcases plainLeaf_name h with h' | h'
      · rw [hn] at h'; exact absurd h' (by decide)
      · rw [hn] at h'; exact absurd h' (by decide)
    · rcases plainLeaf_name h with h' | h'
      · rw [hn] at h'; exact absurd h' (by decide)
      · rw [hn] at h'; exact absurd h' (by decide)
  · obtain ⟨hc, hs⟩ := pvLeaf_comp hE.1 h
    exact leafClause_of_comp E X Y Z hE l hc hs hk
  · obtain ⟨hc, hs⟩ := pfv3Leaf_comp hE.2 h
    exact leafClause_of_comp E X Y Z hE l hc hs hk

theorem fullLeaf_canon {E : Env} (l : Leaf) (h : FullLeaf E l) : Canon l := by
  rcases h with h | h | h
  · rcases plainLeaf_name h with h' | h'
    · simp only [Canon]; rw [h']; decide
    · simp only [Canon]; exact (plainStringVars_facts _ h').2
  · simp only [Canon]; rw [pvLeaf_name h]; decide
  · simp only [Canon]; rw [pfv3_name h]; decide

/-- **C07's leaf specification on the full domain, no hypothesis left** -/
theorem leafSpec_fullDomain {E : Env} {ex : List String} (hX : E.extras = some ex) {X Y Z : Nat}
    (hE : EnvPy E X Y Z) : LeafSpec (leafEval E) (FullLeaf E) :=
  leafSpec_full hX hE (pairSound_py hE)

/-- **`get_python_constraint_from_marker` is an upper bound against `validate`**, full domain -/
theorem gpc_upper_validate_full {E : Env} {ex : List String} (hX : E.extras = some ex) {X Y Z : Nat}
    (hE : EnvPy E X Y Z) (m : M) (g : VC) (hg : M.Good (FullLeaf E) m) (h : gpc m = .ok g)
    (hv : M.validate E m = .ok true) : g.allowsPlain (pyV X Y Z) = true :=
  gpc_upper_validate_gen E X Y Z (leafSpec_fullDomain hX hE) (fun l hl => fullLeaf_evaluable hX hE hl)
    (fun l hl hk => fullLeaf_clause hE l hl hk) m g hg h hv

/-- **`get_python_constraint_from_marker` is exact against `validate`** on python-only markers, full domain -/
theorem gpc_exact_validate_full {E : Env} {ex : List String} (hX : E.extras = some ex) {X Y Z : Nat}
    (hE : EnvPy E X Y Z) (m : M) (g : VC) (hg : M.Good (FullLeaf E) m)
    (hvars : ∀ n ∈ M.vars m, pyNames.contains n = true) (h : gpc m = .ok g) :
    M.validate E m = .ok (g.allowsPlain (pyV X Y Z)) :=
  gpc_exact_validate_gen E X Y Z (leafSpec_fullDomain hX hE) (fun l hl => fullLeaf_evaluable hX hE hl)
    (fun l hl hk => fullLeaf_clause hE l hl hk) fullLeaf_canon m g hg hvars h

/-- **`only` mentions only the requested variables**, full domain -/
theorem only_mentions_full {E : Env} {ex : List String} (hX : E.extras = some ex) {X Y Z : Nat}
    (hE : EnvPy E X Y Z) (names : List String) (m r : M) (hg : M.Good (FullLeaf E) m)
    (h : m.only names = .ok r) : ∀ n ∈ M.vars r, n ∈ names :=
  only_mentions_thm (leafSpec_fullDomain hX hE) fullLeaf_canon names m r hg h

end Poetry.Marker
