/-
Text level of the constraint round trip (helper lemmas for C15): the wildcard spellings `==X.*` / `!=X.*` of
the constraints `parse_constraint` builds for wildcard clauses — the printer's wildcard detection
(`_is_wildcard_candidate`, `_single_wildcard_range_string`) on them, and the three routes `X_CONSTRAINT` /
`BASIC_CONSTRAINT` take on the printed text.
-/
import PoetryVerif.Proofs.VRangeTextU
import PoetryVerif.Proofs.VRangeTextV

set_option linter.unusedSimpArgs false
set_option linter.unusedVariables false
set_option linter.unnecessarySeqFocus false

namespace Poetry
open Poetry.Marker
open Version

/-! ### `Release.next` on the release of a final version: the last number is incremented -/

theorem incrLast_length : ∀ r : List Nat, (incrLast r).length = r.length
  | [] => rfl
  | [x] => rfl
  | x :: y :: rest => by
    have := incrLast_length (y :: rest)
    simp only [incrLast, List.length_cons] at this ⊢
    omega

theorem incrLast_ne_nil : ∀ r : List Nat, r ≠ [] → incrLast r ≠ []
  | [], h => absurd rfl h
  | [x], _ => by simp [incrLast]
  | x :: y :: rest, _ => by simp [incrLast]

theorem incrLast_dropLast : ∀ r : List Nat, (incrLast r).dropLast = r.dropLast
  | [] => rfl
  | [x] => rfl
  | x :: y :: rest => by
    have ih := incrLast_dropLast (y :: rest)
    have hne := incrLast_ne_nil (y :: rest) (by simp)
    obtain ⟨a, as, ha⟩ := List.exists_cons_of_ne_nil hne
    show (x :: incrLast (y :: rest)).dropLast = _
    rw [ha] at ih ⊢
    simp only [List.dropLast_cons₂] at ih ⊢
    rw [ih]

theorem incrLast_getLast : ∀ r : List Nat, r ≠ [] →
    ∃ l, r.getLast? = some l ∧ (incrLast r).getLast? = some (l + 1)
  | [], h => absurd rfl h
  | [x], _ => ⟨x, rfl, rfl⟩
  | x :: y :: rest, _ => by
    obtain ⟨l, h1, h2⟩ := incrLast_getLast (y :: rest) (by simp)
    have hne := incrLast_ne_nil (y :: rest) (by simp)
    obtain ⟨a, as, ha⟩ := List.exists_cons_of_ne_nil hne
    refine ⟨l, by simpa [List.getLast?_cons_cons] using h1, ?_⟩
    show (x :: incrLast (y :: rest)).getLast? = _
    rw [ha] at h2 ⊢
    simpa [List.getLast?_cons_cons] using h2

theorem stripZeros_incrLast : ∀ r : List Nat, r ≠ [] → stripZeros (incrLast r) = incrLast r
  | [], h => absurd rfl h
  | [x], _ => by simp [incrLast, stripZeros]
  | x :: y :: rest, _ => by
    have ih := stripZeros_incrLast (y :: rest) (by simp)
    have hne := incrLast_ne_nil (y :: rest) (by simp)
    show stripZeros (x :: incrLast (y :: rest)) = x :: incrLast (y :: rest)
    simp only [stripZeros, ih]
    obtain ⟨a, as, ha⟩ := List.exists_cons_of_ne_nil hne
    rw [ha]; simp

theorem dropLast_append_last (r : List Nat) (l : Nat) (h : r.getLast? = some l) : r.dropLast ++ [l] = r := by
  have hne : r ≠ [] := by intro e; simp [e] at h
  have := List.dropLast_concat_getLast hne
  have hl : r.getLast hne = l := by
    have h2 := List.getLast?_eq_some_getLast hne
    rw [h] at h2; injection h2 with h2; exact h2.symm
  rw [hl] at this; exact this

/-! ### the two ends of a wildcard range -/

/-- `X.dev0` -/
def wD (e : Nat) (rel : List Nat) : Version := mk' e rel none none (some ⟨.dev, 0⟩) none
/-- `next(X).dev0` -/
def wE (e : Nat) (rel : List Nat) : Version := mk' e (relNext rel) none none (some ⟨.dev, 0⟩) none

theorem wD_of_final (V : Version) (h : V.isFinal = true) : V.firstDevrelease = wD V.epoch V.release := by
  obtain ⟨h1, h2, h3, h4⟩ := final_parts h
  simp [firstDevrelease, wD, h1, h2]

theorem wE_of_final (V : Version) (h : V.isFinal = true) : V.nextStable.firstDevrelease = wE V.epoch V.release := by
  obtain ⟨h1, h2, h3, h4⟩ := final_parts h
  have hs : V.isStable = true := by simp [isStable, isUnstable, isPrerelease, isDevrelease, h1, h3]
  simp [firstDevrelease, nextStable, wE, hs, mk']

/-- **the printer recognises the wildcard range**, in both orders of its arguments -/
theorem isWildcardCandidate_w (e : Nat) (rel : List Nat) (hne : rel ≠ []) :
    isWildcardCandidate (wD e rel) (wE e rel) false = true ∧ isWildcardCandidate (wE e rel) (wD e rel) true = true := by
  obtain ⟨l, hl1, hl2⟩ := incrLast_getLast rel hne
  have hP : stripZeros (relNext rel) = incrLast rel := by
    rw [relNext_eq_incrLast rel hne]; exact stripZeros_incrLast rel hne
  have hPne : (incrLast rel).isEmpty = false := by
    obtain ⟨a, as, ha⟩ := List.exists_cons_of_ne_nil (incrLast_ne_nil rel hne)
    rw [ha]; rfl
  have hlen := incrLast_length rel
  have hdl := incrLast_dropLast rel
  have e1 : Version.eqv (wD e rel).firstDevrelease (wD e rel) = true := by
    have : (wD e rel).firstDevrelease = wD e rel := rfl
    rw [this]; unfold Version.eqv; rw [cmp_refl]; rfl
  have e2 : Version.eqv (wE e rel).firstDevrelease (wE e rel) = true := by
    have : (wE e rel).firstDevrelease = wE e rel := rfl
    rw [this]; unfold Version.eqv; rw [cmp_refl]; rfl
  have r1 : (wD e rel).release = rel := rfl
  have r2 : (wE e rel).release = relNext rel := rfl
  have fin : ¬stripZeros (relNext rel) = [] ∧
      (∀ (x : Nat), x ∈ List.drop (stripZeros (relNext rel)).length
              (rel ++ List.replicate ((stripZeros (relNext rel)).length - rel.length) 0) → x = 0) ∧
      (List.take (stripZeros (relNext rel)).length
              (rel ++ List.replicate ((stripZeros (relNext rel)).length - rel.length) 0)).dropLast =
          (stripZeros (relNext rel)).dropLast ∧
        (match (List.take (stripZeros (relNext rel)).length
                (rel ++ List.replicate ((stripZeros (relNext rel)).length - rel.length) 0)).getLast?,
            (stripZeros (relNext rel)).getLast? with
          | some a, some b => a + 1 == b
          | _, _ => false) = true := by
    rw [hP, hlen]
    simp only [Nat.sub_self, List.replicate_zero, List.append_nil, List.drop_length, List.take_length, hdl, hl1, hl2]
    exact ⟨incrLast_ne_nil rel hne, by simp, trivial, by simp⟩
  constructor
  · unfold isWildcardCandidate
    simp only [e1, e2]
    simp [wD, wE, mk', isLocal, isPrerelease, isPostrelease, isDevrelease, zeros]
    exact fin
  · unfold isWildcardCandidate
    simp only [e1, e2]
    simp [wD, wE, mk', isLocal, isPrerelease, isPostrelease, isDevrelease, zeros]
    exact fin

/-- the characters of `X.*` with its epoch -/
def wildChars (e x : Nat) (r : List Nat) : List Char := epochChars e ++ relChars x r ++ ['.', '*']

/-- **the printer writes `X.*`** -/
theorem singleWildcardRangeString_w (e x : Nat) (r : List Nat) :
    singleWildcardRangeString (wD e (x :: r)) (wE e (x :: r)) = .ok (String.ofList (wildChars e x r)) := by
  have hne : x :: r ≠ [] := by simp
  obtain ⟨l, hl1, hl2⟩ := incrLast_getLast (x :: r) hne
  have hP : stripZeros (relNext (x :: r)) = incrLast (x :: r) := by
    rw [relNext_eq_incrLast _ hne]; exact stripZeros_incrLast _ hne
  have hdl := incrLast_dropLast (x :: r)
  have hbase : (x :: r).dropLast ++ [l] = x :: r := dropLast_append_last _ l hl1
  have hpost : (wD e (x :: r)).isPostrelease = false := rfl
  have r2 : (wE e (x :: r)).release = relNext (x :: r) := rfl
  have ep : (wE e (x :: r)).epoch = e := rfl
  unfold singleWildcardRangeString
  simp only [hpost, Bool.false_eq_true, if_false, r2, hP, hl2, hdl, Nat.add_sub_cancel, hbase, ep]
  have hz : (l + 1 == 0) = false := by simp
  simp only [hz, Bool.false_eq_true, if_false]
  congr 1
  apply str_eq_of_toList
  have hrt : (joinWith "." (natToString x :: r.map natToString)).toList = relChars x r := joinWith_dot_toList x r
  by_cases he : e = 0
  · simp [wildChars, epochChars, he, hrt]
  · simp [wildChars, epochChars, he, hrt, dg]

/-! ### `X_CONSTRAINT` / `BASIC_CONSTRAINT` on `X.*` -/

def dotStar : List Char := ['.', '*']

theorem xtry_dotStar (inv : Bool) (ver : List Char) : xtry inv ver dotStar = some (inv, String.ofList ver) := by
  simp [xtry, dotStar, VParser.xConstraint?.stars, VParser.atEnd]

theorem xtry_other (inv : Bool) (ver s : List Char) (h : ∀ t, s ≠ '.' :: '*' :: t) : xtry inv ver s = none := by
  have : VParser.xConstraint?.stars (s.length + 1) s 0 = none := by
    rw [VParser.xConstraint?.stars.eq_def]
    split
    · rfl
    · split
      · exact absurd rfl (h _)
      · simp
  simp [xtry, this]

theorem relTail_cons_not_dotStar (y : Nat) (r : List Nat) (S : List Char) :
    ∀ t, relTail (y :: r) ++ S ≠ '.' :: '*' :: t := by
  intro t h
  obtain ⟨d, ds, hd, hdig⟩ := dg_cons y
  simp [relTail, hd] at h
  exact digit_ne d '*' hdig (by decide) h.1

theorem xmore_dotStar : xmore dotStar = ([], dotStar) := by
  simp [xmore, dotStar, takeDigits, isDigit]

theorem xmore_relTail_cons (y : Nat) (r : List Nat) :
    xmore (relTail (y :: r) ++ dotStar) = ('.' :: dg y, relTail r ++ dotStar) := by
  have ht := takeDigits_append (dg y) (relTail r ++ dotStar) (dg_isDigit y) (by
    intro c hc
    cases r with
    | nil => simp [relTail, dotStar] at hc; subst hc; decide
    | cons z r' => simp [relTail] at hc; subst hc; decide)
  have hne : (dg y).isEmpty = false := by
    obtain ⟨d, ds, hd, _⟩ := dg_cons y; rw [hd]; rfl
  simp [xmore, relTail, ht, hne]

/-- `X_CONSTRAINT` on `X.*` (no epoch): it matches the whole text when `X` has at most three numbers, and does
not match otherwise -/
theorem xcore2_wild (inv : Bool) (x : Nat) (r : List Nat) :
    xcore2 inv (relChars x r ++ dotStar) = none ∨
      xcore2 inv (relChars x r ++ dotStar) = some (inv, String.ofList (relChars x r)) := by
  have ht : takeDigits (relChars x r ++ dotStar) = (dg x, relTail r ++ dotStar) := by
    have := takeDigits_append (dg x) (relTail r ++ dotStar) (dg_isDigit x) (by
      intro c hc
      cases r with
      | nil => simp [relTail, dotStar] at hc; subst hc; decide
      | cons z r' => simp [relTail] at hc; subst hc; decide)
    simpa [relChars] using this
  have hne : (dg x).isEmpty = false := by
    obtain ⟨d, ds, hd, _⟩ := dg_cons x; rw [hd]; rfl
  have hney : ∀ y, ('.' :: dg y).isEmpty = false := fun _ => rfl
  unfold xcore2
  simp only [ht, hne, Bool.false_eq_true, if_false]
  match r with
  | [] =>
    right
    simp [relTail, xmore_dotStar, xtry_dotStar, relChars]
  | [y] =>
    right
    have h2 : xmore ('.' :: (dg y ++ dotStar)) = ('.' :: dg y, dotStar) := by
      simpa [relTail] using xmore_relTail_cons y []
    simp [relTail, h2, xmore_dotStar, xtry_dotStar, relChars]
  | [y, z] =>
    right
    have h2 : xmore ('.' :: (dg y ++ '.' :: (dg z ++ dotStar))) = ('.' :: dg y, '.' :: (dg z ++ dotStar)) := by
      simpa [relTail] using xmore_relTail_cons y [z]
    have h3 : xmore ('.' :: (dg z ++ dotStar)) = ('.' :: dg z, dotStar) := by
      simpa [relTail] using xmore_relTail_cons z []
    simp [relTail, h2, h3, xtry_dotStar, relChars]
  | y :: z :: w :: r' =>
    left
    have h2 := xmore_relTail_cons y (z :: w :: r')
    have h3 := xmore_relTail_cons z (w :: r')
    rw [h2]
    simp only [hney, Bool.false_eq_true, if_false, h3]
    rw [xtry_other inv _ _ (relTail_cons_not_dotStar w r' dotStar),
      xtry_other inv _ _ (relTail_cons_not_dotStar z (w :: r') dotStar),
      xtry_other inv _ _ (relTail_cons_not_dotStar y (z :: w :: r') dotStar)]

/-- the text `N!X` or `X` -/
def baseChars (e x : Nat) (r : List Nat) : List Char := epochChars e ++ relChars x r

theorem baseChars_head (e x : Nat) (r : List Nat) : ∃ d ds, baseChars e x r = d :: ds ∧ isDigit d = true := by
  by_cases he : e = 0
  · obtain ⟨d, ds, hd, hdig⟩ := relChars_cons x r
    exact ⟨d, ds, by simp [baseChars, epochChars, he, hd], hdig⟩
  · obtain ⟨d, ds, hd, hdig⟩ := dg_cons e
    exact ⟨d, ds ++ '!' :: relChars x r, by simp [baseChars, epochChars, he, hd], hdig⟩

theorem baseChars_nchar (e x : Nat) (r : List Nat) : ∀ c ∈ baseChars e x r, nchar c = true := by
  intro c hc
  have := bodyChars_nchar e x r none none none none (by intro segs h; cases h) c (by
    simpa [bodyChars, baseChars, preChars, dotTagChars, locChars] using hc)
  exact this

theorem xcore_wild (inv : Bool) (e x : Nat) (r : List Nat) :
    xcore inv (baseChars e x r ++ dotStar) = none ∨
      xcore inv (baseChars e x r ++ dotStar) = some (inv, String.ofList (baseChars e x r)) := by
  obtain ⟨d, ds, hd, hdig⟩ := baseChars_head e x r
  have hs : vstrip (dropSpaces (baseChars e x r ++ dotStar)) = baseChars e x r ++ dotStar := by
    rw [hd, List.cons_append, dropSpaces_of_head d _ (digit_not_space d hdig), vstrip_digit d _ hdig]
  unfold xcore
  rw [hs]
  by_cases he : e = 0
  · have : baseChars e x r = relChars x r := by simp [baseChars, epochChars, he]
    rw [this]; exact xcore2_wild inv x r
  · left
    have hb : baseChars e x r ++ dotStar = dg e ++ '!' :: (relChars x r ++ dotStar) := by
      simp [baseChars, epochChars, he]
    have hte := takeDigits_append (dg e) ('!' :: (relChars x r ++ dotStar)) (dg_isDigit e)
      (fun c hc => by simp at hc; subst hc; decide)
    have hnee : (dg e).isEmpty = false := by
      obtain ⟨d', ds', hd', _⟩ := dg_cons e; rw [hd']; rfl
    have hxm : xmore ('!' :: (relChars x r ++ dotStar)) = ([], '!' :: (relChars x r ++ dotStar)) := by
      simp [xmore]
    have hxt : ∀ ver, xtry inv ver ('!' :: (relChars x r ++ dotStar)) = none :=
      fun ver => xtry_other inv ver _ (by intro t h; injection h with h _; exact absurd h (by decide))
    rw [hb]
    unfold xcore2
    simp [hte, hnee, hxm, hxt]

theorem dotStar_parsers : parsePre dotStar = (none, dotStar) ∧ parsePost dotStar = (none, dotStar) ∧
    parseDev dotStar = (none, dotStar) ∧ parseLocal dotStar = (none, dotStar) := by
  refine ⟨by decide, by decide, by decide, by decide⟩

theorem relStop_dotStar : RelStop dotStar :=
  ⟨by intro c hc; simp [dotStar] at hc; subst hc; exact ⟨by decide, by decide⟩,
   by intro c cs h; simp [dotStar] at h; rw [← h.1]; decide⟩

theorem parseBody_wild (e x : Nat) (r : List Nat) :
    parseBody "" (baseChars e x r ++ dotStar) =
      some ({ epoch := e, release := x :: r, pre := none, post := none, dev := none, loc := none, text := "" }, dotStar) := by
  obtain ⟨d, ds, hd, hdig⟩ := baseChars_head e x r
  have hsv : stripV (baseChars e x r ++ dotStar) = baseChars e x r ++ dotStar := by
    rw [hd, List.cons_append]; exact stripV_digit d _ hdig
  have h1 := parseEpochRelease_tail e x r dotStar relStop_dotStar
  obtain ⟨p1, p2, p3, p4⟩ := dotStar_parsers
  unfold parseBody
  rw [hsv]
  simp only [baseChars, List.append_assoc, h1, p1, p2, p3, p4]

theorem basicVersion?_wild (e x : Nat) (r : List Nat) :
    VParser.basicVersion? (baseChars e x r ++ dotStar) = some (String.ofList (baseChars e x r), true) := by
  have hl : (baseChars e x r ++ dotStar).map lowerChar = baseChars e x r ++ dotStar := by
    rw [List.map_append, map_lower_nchar _ (baseChars_nchar e x r)]; rfl
  unfold VParser.basicVersion?
  simp only [hl, parseBody_wild]
  simp [dotStar, VParser.atEnd]

/-- the final version with these numbers, in normal-form text -/
def baseV (e x : Nat) (r : List Nat) : Version := mk' e (x :: r) none none none none

theorem baseV_text (e x : Nat) (r : List Nat) : (baseV e x r).text = String.ofList (baseChars e x r) := by
  apply str_eq_of_toList
  show (Version.toStr e (x :: r) none none none none).toList = _
  rw [toStr_toList, String.toList_ofList]
  have : bodyChars e x r none none none none = baseChars e x r := by
    simp [bodyChars, baseChars, preChars, dotTagChars, locChars]
  rw [this, map_lower_nchar _ (baseChars_nchar e x r)]

theorem baseV_textOK (e x : Nat) (r : List Nat) : TextOK (baseV e x r) :=
  textOK_mk' e (x :: r) none none none none (by simp [mk', Version.wf, optAll]) (by intro segs h; cases h)

theorem baseChars_ne_dev (e x : Nat) (r : List Nat) : (String.ofList (baseChars e x r) == "dev") = false := by
  rw [← baseV_text]; exact text_ne_dev (baseV_textOK e x r)

/-- **`parse_single_constraint("==X.*")` and `("!=X.*")`**, whichever of `X_CONSTRAINT` / `BASIC_CONSTRAINT`
takes the text: `_make_x_constraint_range` on the final version `X` -/
theorem parseSingle_wild (b inv : Bool) (e x : Nat) (r : List Nat) :
    VParser.parseSingle ((if inv then '!' else '=') :: '=' :: (baseChars e x r ++ dotStar)) b =
      VParser.makeXConstraintRange (baseV e x r) inv b := by
  have hp : Version.parse (String.ofList (baseChars e x r)) = .ok (baseV e x r) := by
    rw [← baseV_text]; exact (baseV_textOK e x r).parse
  obtain ⟨d, ds, hd, hdig⟩ := baseChars_head e x r
  have hds : dropSpaces (baseChars e x r ++ dotStar) = baseChars e x r ++ dotStar := by
    rw [hd, List.cons_append]; exact dropSpaces_of_head d _ (digit_not_space d hdig)
  have hbv := basicVersion?_wild e x r
  have hdev := baseChars_ne_dev e x r
  rcases xcore_wild inv e x r with hx | hx
  · cases inv
    · unfold VParser.parseSingle
      simp [VParser.isAnyPattern, xConstraint?_eq, xprefix, hx, VParser.basicOp, hds, hbv, hdev,
        VParser.parseVersionText, hp, bind, Except.bind, pure, Except.pure,
        show (VParser.BasicOp.eq == VParser.BasicOp.ne) = false from by decide]
    · unfold VParser.parseSingle
      simp [VParser.isAnyPattern, xConstraint?_eq, xprefix, hx, VParser.basicOp, hds, hbv, hdev,
        VParser.parseVersionText, hp, bind, Except.bind, pure, Except.pure,
        show (VParser.BasicOp.eq == VParser.BasicOp.ne) = false from by decide]
  · cases inv
    · unfold VParser.parseSingle
      simp [VParser.isAnyPattern, xConstraint?_eq, xprefix, hx, VParser.parseVersionText, hp, bind, Except.bind,
        pure, Except.pure]
    · unfold VParser.parseSingle
      simp [VParser.isAnyPattern, xConstraint?_eq, xprefix, hx, VParser.parseVersionText, hp, bind, Except.bind,
        pure, Except.pure]

/-! ### the round trip of the wildcard constraints -/

theorem wild_vPlain (c0 : Char) (h0 : vPlain c0) (e x : Nat) (r : List Nat) :
    ∀ c ∈ c0 :: '=' :: (baseChars e x r ++ dotStar), vPlain c := by
  intro c hc
  simp only [List.mem_cons, List.mem_append, dotStar, List.mem_nil_iff, or_false] at hc
  rcases hc with rfl | rfl | hc | rfl | rfl
  · exact h0
  · unfold vPlain; decide
  · exact vchar_plain c (nchar_vchar c (baseChars_nchar e x r c hc))
  · unfold vPlain; decide
  · unfold vPlain; decide

theorem parseConstraint_wild (inv : Bool) (e x : Nat) (r : List Nat) :
    VParser.parseConstraint (String.ofList ((if inv then '!' else '=') :: '=' :: (baseChars e x r ++ dotStar))) =
      VParser.makeXConstraintRange (baseV e x r) inv false := by
  have hpl := wild_vPlain (if inv then '!' else '=') (by cases inv <;> (unfold vPlain; decide)) e x r
  unfold VParser.parseConstraint
  rw [parseConstraintAux_one false _ (groupText_of_vPlain _ hpl (by simp)) (by cases inv <;> simp),
    parseGroup_plain false _ hpl]
  exact parseSingle_wild false inv e x r

theorem baseV_final (e x : Nat) (r : List Nat) : (baseV e x r).isFinal = true ∧ (baseV e x r).wf = true := by
  constructor
  · simp [baseV, mk', isFinal]
  · simp [baseV, mk', Version.wf, optAll]

/-- **`==X.*` round-trips identically**: the range `parse_constraint` builds for the clause `==X.*` (X final)
prints as `==X.*` and that text is parsed to the very same range -/
theorem eqStar_roundtrip (e x : Nat) (r : List Nat) :
    (VC.single (.rng ⟨some (wD e (x :: r)), some (wE e (x :: r)), true, false⟩)).toStr =
      .ok (String.ofList ('=' :: '=' :: (baseChars e x r ++ dotStar))) ∧
    VParser.parseConstraint (String.ofList ('=' :: '=' :: (baseChars e x r ++ dotStar))) =
      .ok (VC.single (.rng ⟨some (wD e (x :: r)), some (wE e (x :: r)), true, false⟩)) := by
  constructor
  · have hw := (isWildcardCandidate_w e (x :: r) (by simp)).1
    have hs := singleWildcardRangeString_w e x r
    simp only [VC.toStr, RC.toStr, VRange.toStr, VRange.isSingleWildcardRange, hw, hs, Bool.not_true, Bool.false_or, Bool.false_eq_true,
      if_false, if_true, bind, Except.bind, pure, Except.pure]
    congr 1
    exact str_eq_of_toList (by simp [wildChars, baseChars, dotStar])
  · have := parseConstraint_wild false e x r
    simp only [Bool.false_eq_true, if_false] at this
    rw [this]
    obtain ⟨hf, hwf⟩ := baseV_final e x r
    rw [(eqStar_range _ hf).1, wD_of_final _ hf, wE_of_final _ hf]
    rfl

/-- **`!=X.*` round-trips identically** -/
theorem neStar_roundtrip (e x : Nat) (r : List Nat) :
    (VC.union [.rng ⟨none, some (wD e (x :: r)), false, false⟩,
        .rng ⟨some (wE e (x :: r)), none, true, false⟩]).toStr =
      .ok (String.ofList ('!' :: '=' :: (baseChars e x r ++ dotStar))) ∧
    VParser.parseConstraint (String.ofList ('!' :: '=' :: (baseChars e x r ++ dotStar))) =
      .ok (VC.union [.rng ⟨none, some (wD e (x :: r)), false, false⟩,
        .rng ⟨some (wE e (x :: r)), none, true, false⟩]) := by
  obtain ⟨hf, hwf⟩ := baseV_final e x r
  have hlt : vk (wD e (x :: r)) < vk (wE e (x :: r)) := by
    have := wildcard_ends_lt _ hf hwf
    rwa [wD_of_final _ hf, wE_of_final _ hf] at this
  constructor
  · have hw := (isWildcardCandidate_w e (x :: r) (by simp)).2
    have hs := singleWildcardRangeString_w e x r
    have hinv := inverted_two_sided _ _ hlt
    simp only [VC.toStr, VC.excludedSingleVersion, hinv, VC.excludedWildcard, RC.max, RC.min, RC.imax, RC.imin, hw, hs,
      Option.isSome_some, Option.isSome_none, if_true, Bool.false_or, Bool.not_true, Bool.false_eq_true, if_false,
      bind, Except.bind, pure, Except.pure]
    congr 1
    exact str_eq_of_toList (by simp [wildChars, baseChars, dotStar])
  · have := parseConstraint_wild true e x r
    simp only [if_true] at this
    rw [this, neStar_range _ hf hwf, wD_of_final _ hf, wE_of_final _ hf]
    rfl

end Poetry
