/-
The python_version / python_full_version pairing of `_merge_single_markers` with `~=` leaves:
`python_version ~= "a.b"` converts to the range `[a.b, (a+1).0)`, printed `>=a.b,<(a+1).0`; a merged
`python_full_version ~= "a.b.c"` is re-printed unchanged.  `pairSound_pyC` extends `pairSound_py`.
-/
import PoetryVerif.Proofs.PyConvPairFinal
import PoetryVerif.Proofs.MarkerAlgSoundPfvC

set_option linter.unusedSimpArgs false
set_option linter.unusedVariables false

namespace Poetry.Marker
open Poetry Poetry.Version VParser

/-! ### `SingleMarker("python_full_version", ">=a.b,<a'.b'")` -/

/-- the text of the value group of `>=a.b,<a'.b'` -/
def rngValue (a b a' b' : Nat) : String := Version.relText [a, b] ++ ",<" ++ Version.relText [a', b']

theorem rngValue_toList (a b a' b' : Nat) :
    (rngValue a b a' b').toList = _root_.Poetry.relChars [a, b] ++ ',' :: '<' :: _root_.Poetry.relChars [a', b'] := by
  simp [rngValue, String.toList_append, _root_.Poetry.relText_toList]

theorem rngValue_ok (a b a' b' : Nat) : valueOk (rngValue a b a' b').toList := by
  rw [rngValue_toList]
  refine ⟨by simp, ?_⟩
  intro c hc
  simp only [List.mem_append, List.mem_cons] at hc
  rcases hc with h | rfl | rfl | h
  · exact relChars_notSpace _ c h
  · decide
  · decide
  · exact relChars_notSpace _ c h

theorem rngValue_dots (a b a' b' : Nat) : countChar '.' (rngValue a b a' b') = 2 := by
  have h1 := countChar_relText a [b]
  have h2 := countChar_relText a' [b']
  simp only [List.length_cons, List.length_nil] at h1 h2
  have h3 : countChar '.' ",<" = 0 := by decide
  simp [rngValue, countChar_append, h1, h2, h3]

theorem leafPrepare_rng2 (a b a' b' : Nat) :
    leafPrepare "python_full_version" (">=" ++ rngValue a b a' b') false =
      .ok { name := "python_full_version", op := ">=", value := rngValue a b a' b', swapped := false,
            cstr := ">=" ++ rngValue a b a' b', kind := .version true } := by
  have hv := rngValue_ok a b a' b'
  obtain ⟨d, ds, hd⟩ : ∃ d ds, (rngValue a b a' b').toList = d :: ds := by
    cases h : (rngValue a b a' b').toList with
    | nil => exact absurd h hv.1
    | cons d ds => exact ⟨d, ds, rfl⟩
  have hm : matchPattern1 (">=" ++ rngValue a b a' b').toList = some (some ">=", rngValue a b a' b') := by
    have : (">=" ++ rngValue a b a' b').toList = '>' :: '=' :: d :: ds := by simp [String.toList_append, hd]
    rw [this, matchPattern1_ge d ds (hd ▸ hv), ← hd, String.ofList_toList]
  unfold leafPrepare
  simp only [Bool.false_eq_true, if_false, hm, Option.getD_some]
  have f1 : Gen.versionLikeMarkerNames.contains "python_full_version" = true := by decide
  have f1' : "python_full_version" ∈ Gen.versionLikeMarkerNames := by decide
  have f3 : aliasName "python_full_version" = "python_full_version" := by decide
  have f4 : ("python_full_version" != "platform_release") = true := by decide
  have g1 : (">=" == "in") = false := by decide
  have g2 : (">=" == "not in") = false := by decide
  simp [f1, f1', f3, f4, g1, g2, rngValue_dots]

/-- the two-sided range `[a.b, a'.b')` -/
def rng2 (a b a' b' : Nat) : VC := .single (.rng ⟨some (finalV [a, b]), some (finalV [a', b']), true, false⟩)

theorem mkSingle_rng2 {B : List Version} (hpb : ∀ e ∈ B, PyBound e = true) (a b a' b' : Nat)
    (h1 : finalV [a, b] ∈ B) (h2 : finalV [a', b'] ∈ B) (X Y Z : Nat) :
    ∃ res, mkSingle "python_full_version" (">=" ++ rngValue a b a' b') false =
        .ok ⟨"python_full_version", ">=", rngValue a b a' b', false, .ver res⟩ ∧ RegVC B res ∧
      res.allowsPlain (pyV X Y Z) = (rng2 a b a' b').allowsPlain (pyV X Y Z) := by
  obtain ⟨res, hres, hreg, hex⟩ := parse_commaPair hpb X Y Z
    ('>' :: '=' :: _root_.Poetry.relChars [a, b], .single (.rng ⟨some (finalV [a, b]), none, true, false⟩))
    ('<' :: _root_.Poetry.relChars [a', b'], .single (.rng ⟨none, some (finalV [a', b']), false, false⟩))
    ⟨itemOK_ge [b] a, _root_.Poetry.parseSingle_ge a [b] true, regVC_lo _ true (pb _) h1⟩
    ⟨itemOK_lt [b'] a', _root_.Poetry.parseSingle_lt a' [b'] true, regVC_hi _ false (pb _) h2⟩
    (">=" ++ rngValue a b a' b') (by simp [String.toList_append, rngValue_toList])
  refine ⟨res, ?_, hreg, ?_⟩
  · simp [mkSingle, leafPrepare_rng2, bind, Except.bind, parseByKind_ver _ res hres, pure, Except.pure]
  · rw [hex, Bool.eq_iff_iff]
    simp only [rng2, VC.allowsPlain, VC.flatten, List.any_cons, List.any_nil, Bool.or_false, RC.allows,
      Bool.and_eq_true, allows_lo _ true (pb [a, b]), allows_hi _ false (pb [a', b']),
      allows_both _ _ true false (pb [a, b]) (pb [a', b'])]

theorem toStr_rng2 (a b a' b' : Nat) : (rng2 a b a' b').toStr = .ok (">=" ++ rngValue a b a' b') := by
  have hw : VRange.isSingleWildcardRange ⟨some (finalV [a, b]), some (finalV [a', b']), true, false⟩ = false := by
    simp [VRange.isSingleWildcardRange, wildcardCandidate_final _ _ false (pb [a, b])]
  simp only [rng2, VC.toStr, RC.toStr, VRange.toStr, hw, Bool.false_eq_true, if_false, if_true]
  simp [rngValue, finalV, String.append_assoc]

/-- **`SingleMarker("python_full_version", range)` for a two-sided range over two-component bounds** -/
theorem mkSingleOfC_rng2 {B : List Version} (hpb : ∀ e ∈ B, PyBound e = true) (a b a' b' : Nat)
    (h1 : finalV [a, b] ∈ B) (h2 : finalV [a', b'] ∈ B) (X Y Z : Nat) (nm : Single)
    (h : mkSingleOfC "python_full_version" (.ver (rng2 a b a' b')) = .ok nm) :
    VerLeaf B "python_full_version" (.single nm) ∧
      ∀ vc, nm.c = .ver vc → vc.allowsPlain (pyV X Y Z) = (rng2 a b a' b').allowsPlain (pyV X Y Z) := by
  obtain ⟨res, hmk, hreg, hex⟩ := mkSingle_rng2 hpb a b a' b' h1 h2 X Y Z
  simp only [mkSingleOfC, LeafC.toStr, toStr_rng2, bind, Except.bind, hmk] at h
  cases h
  refine ⟨⟨rfl, ?_, res, rfl, hreg.1, hreg.2⟩, fun vc hvc => by cases hvc; exact hex⟩
  simp only [Single.coherent, itemConstraintString, Bool.false_eq_true, if_false, hmk]
  simp

/-! ### the conversion of `python_version ~= "a.b"` -/

theorem rng2_compat (a b : Nat) : rng2 a b (a + 1) 0 = compatVC (litV a [b]) (litV (a + 1) [0]) := rfl

/-- `get_python_constraint_from_marker(python_version ~= "a.b")` is `[a.b, (a+1).0)` -/
theorem gpcLeaf_pvCompat (a b : Nat) : gpcLeaf (.single (pvCompatOf a b)) = .ok (rng2 a b (a + 1) 0) := by
  have hitem : normalizePyPair "~=" (Version.relText [a, b]) = .ok ("~=" ++ Version.relText [a, b]) := by
    rw [normPair2]; rfl
  have hprec : (finalV [a, b]).precision = 2 := rfl
  have hp := _root_.Poetry.parseSingle_compat a [b] true
  simp only [finalV_stable, finalV_nextMajor, hprec, beq_self_eq_true, if_true] at hp
  have hl : ("~=" ++ Version.relText [a, b]).toList = '~' :: '=' :: _root_.Poetry.relChars [a, b] := by
    simp [String.toList_append, _root_.Poetry.relText_toList]
  have hns : NoSep ("~=" ++ Version.relText [a, b]).toList := by
    rw [hl]; exact noSep_cons (sp (by simp)) (noSep_cons (sp (by simp)) (noSep_rel _))
  have hne : "~=" ++ Version.relText [a, b] ≠ "*" := by
    intro e
    have := congrArg String.toList e
    rw [hl] at this
    simp at this
  rw [gpcLeaf_single (pvCompatOf a b) _ (show isPyName "python_version" = true by decide) relOp_compat hitem,
    VParser.parseMarkerVersionConstraint, parseConstraintAux_single _ true hns hne, hl, hp]
  simp [rng2, relNextMajor, relMajor, zeros]

/-- … and it is exact at `X.Y.Z` for poetry's own truth of the leaf -/
theorem rng2_compat_exact {E : Env} {X Y Z : Nat} (hE : EnvPy E X Y Z) (a b : Nat) :
    (rng2 a b (a + 1) 0).allowsPlain (pyV X Y Z) = leafEval E (.single (pvCompatOf a b)) := by
  have e1 := pvCompat_eval hE.1 a b
  simp only [leafEval, e1]
  rw [← allowsPlain_pad (compatVC_ok2 a b), ← rng2_compat, Bool.eq_iff_iff]
  simp only [rng2, VC.allowsPlain, VC.flatten, List.any_cons, List.any_nil, Bool.or_false, RC.allows,
    allows_both _ _ true false (pb [a, b]) (pb [a + 1, 0]), if_true, Bool.false_eq_true, if_false]
  simp only [finalV, pad3, lex3_lt, lex3_gt, ne_eq]
  simp only [Nat.not_lt_zero, and_false, or_false, and_true]
  try (constructor <;> intro hh <;> omega)

/-! ### the back-conversion of a merged `python_full_version ~= "a.b.c"` -/

theorem pyRewrite_compat (a b c : Nat) (cst : LeafC) :
    pyRewrite ⟨"python_full_version", "~=", Version.relText [a, b, c], false, cst⟩ =
      leafText "python_full_version" "~=" (Version.relText [a, b, c]) false := by
  have hprec : countChar '.' (leafText "python_full_version" "~=" (Version.relText [a, b, c]) false) + 1 = 3 := by
    have h1 := countChar_relText a [b, c]
    have h2 : countChar '.' "python_full_version" = 0 := by decide
    have h3 : countChar '.' "~=" = 0 := by decide
    simp only [List.length_cons, List.length_nil] at h1
    rw [leafText_dots _ _ _ (relText_nodq _), h1, h2, h3]
  have hlg : (("~=" : String) == "<" || ("~=" : String) == ">=") = false := by decide
  unfold pyRewrite
  simp only [hprec, Nat.lt_irrefl, if_false, hlg, Bool.and_false, Bool.false_and, Bool.false_eq_true]

theorem reparse_compat (a b c : Nat) (cst : LeafC) :
    parseItemMarker (pyRewrite ⟨"python_full_version", "~=", Version.relText [a, b, c], false, cst⟩) =
      .ok (.leaf (.single (pfvCompatOf a b c))) := by
  rw [pyRewrite_compat, parseItemMarker_leafText _ _ _ false (by decide) (by decide) (relText_valOk a [b, c])]
  simp only [itemConstraintString, Bool.false_eq_true, if_false, mkSingle_pfvCompat a b c]

/-! ### the pairing, for abstract operands -/

/-- the component facts of the pairing for a `python_version` operand `vm` whose conversion `nc` is known and a
`python_full_version` operand `fm` of the regular fragment, over a bound list closed under the constructor's
padding -/
theorem pairCtx_gen {E : Env} {X Y Z : Nat} (hE : EnvPy E X Y Z) (B : List Version)
    (hpb : ∀ e ∈ B, PyBound e = true) (hpad : ∀ x r, litV x r ∈ B → litV x (padR r) ∈ B)
    (vm fm : Single) (nc : VC) (hvn : vm.name = "python_version") (hfn : fm.name = "python_full_version")
    (hvo : PvLeafC (.single vm)) (hgpc : gpcLeaf (.single vm) = .ok nc)
    (hex : nc.allowsPlain (pyV X Y Z) = leafEval E (.single vm))
    (hmk : ∀ nm, mkSingleOfC "python_full_version" (.ver nc) = .ok nm →
      VerLeaf B "python_full_version" (.single nm) ∧ leafEval E (.single nm) = nc.allowsPlain (pyV X Y Z))
    (hfF : VerLeaf B "python_full_version" (.single fm)) (hfT : Pfv3LeafC (.single fm)) :
    PairCtx (leafEval E)
      (fun l => l = .single vm ∨ l = .single fm)
      (fun l => PvLeafC l ∨ Pfv3LeafC l)
      (VerLeaf B "python_full_version")
      (fun ms => Pfv3LeafC (.single ms))
      (fun c => c = nc)
      (pyV X Y Z) where
  out := by
    rintro l (rfl | rfl)
    · exact Or.inl hvo
    · exact Or.inr hfT
  gpc := by
    rintro v c (hv | hv) hn hg
    · cases hv
      rw [hgpc] at hg
      cases hg
      exact ⟨rfl, hex⟩
    · cases hv
      rw [hfn] at hn
      exact absurd hn (by decide)
  mkpfv := by
    rintro c nm rfl hm
    exact hmk nm hm
  fm := by
    rintro f (hv | hv) hn
    · cases hv
      rw [hvn] at hn
      exact absurd hn (by decide)
    · cases hv
      exact ⟨hfF, hfT⟩
  single := by
    intro l hl
    cases l with
    | single s => exact ⟨s, rfl, hl.1⟩
    | amulti _ _ => exact hl.elim
    | aunion _ _ => exact hl.elim
  congr := verLeaf_congr (regB_of_pyBound _ hpb) (verEnv_py hpb hE) (by decide)
  inner := by
    intro dd nm f im mm h1 h2 hm
    obtain ⟨g, e, _⟩ := verLeaf_merge_text hpb hpad hE.2 dd _ _ im mm h1 h2 hm
    exact ⟨g, e⟩
  leafOnly := by
    intro dd nm f im mm h1 h2 hm
    obtain ⟨_, _, o⟩ := verLeaf_merge_text hpb hpad hE.2 dd _ _ im mm h1 h2 hm
    rcases o with rfl | rfl | rfl | rfl | ⟨s, rfl, _⟩
    · exact Or.inr (Or.inl rfl)
    · exact Or.inl rfl
    · exact Or.inr (Or.inr ⟨_, rfl⟩)
    · exact Or.inr (Or.inr ⟨_, rfl⟩)
    · exact Or.inr (Or.inr ⟨_, rfl⟩)
  text := by
    rintro dd c nm f ms im rfl hm' hF hT hm hb
    obtain ⟨g, _⟩ := hmk nm hm'
    obtain ⟨_, _, o⟩ := verLeaf_merge_text hpb hpad hE.2 dd _ _ im _ g hF hm
    rcases o with e | e | e | e | ⟨s, e, hs⟩
    · cases e
    · cases e
    · cases e
      simp [Leaf.beq] at hb
    · cases e; exact hT
    · cases e; exact Or.inl hs
  notList := by
    rintro ms (⟨s, o, a', b', c', hm, he⟩ | ⟨a', b', c', he⟩)
    · cases he
      simp only [pvOps, List.mem_cons, Prod.mk.injEq, List.mem_nil_iff, or_false] at hm
      rcases hm with ⟨_, rfl⟩ | ⟨_, rfl⟩ | ⟨_, rfl⟩ | ⟨_, rfl⟩ | ⟨_, rfl⟩ | ⟨_, rfl⟩ <;> simp only [pfvLeafOf] <;> decide
    · cases he
      simp only [pfvCompatOf]; decide
  rewrite := by
    rintro ms r hF (⟨s, o, a', b', c', hm, he⟩ | ⟨a', b', c', he⟩) hr
    · cases he
      have := reparse_rewrite hm a' b' c' (pfvLeafOf s o a' [b', c']).c
      rw [show (⟨"python_full_version", o, Version.relText [a', b', c'], false, (pfvLeafOf s o a' [b', c']).c⟩ : Single) =
        pfvLeafOf s o a' [b', c'] from rfl, hr] at this
      injection this with this
      subst this
      by_cases hc : ((o == "<" || o == ">=") && c' == 0) = true
      · rw [if_pos hc]
        simp only [Bool.and_eq_true, Bool.or_eq_true, beq_iff_eq] at hc
        obtain ⟨hlg, rfl⟩ := hc
        refine ⟨by simp only [M.good_leaf]; exact Or.inl (Or.inl ⟨s, o, a', b', hm, rfl⟩), ?_⟩
        rw [M.sem_leaf, pv_pfv_same hE hm hlg a' b']
        rfl
      · rw [if_neg hc]
        exact ⟨by simp only [M.good_leaf]; exact Or.inr (Or.inl ⟨s, o, a', b', c', hm, rfl⟩), rfl⟩
    · cases he
      have := reparse_compat a' b' c' (pfvCompatOf a' b' c').c
      rw [show (⟨"python_full_version", "~=", Version.relText [a', b', c'], false, (pfvCompatOf a' b' c').c⟩ : Single) =
        pfvCompatOf a' b' c' from rfl, hr] at this
      injection this with this
      subst this
      exact ⟨by simp only [M.good_leaf]; exact Or.inr (Or.inr ⟨a', b', c', rfl⟩), rfl⟩

/-! ### the bound lists -/

theorem verLeaf_mono {B B' : List Version} (h : ∀ e ∈ B, e ∈ B') {n : String} {l : Leaf} (hl : VerLeaf B n l) :
    VerLeaf B' n l := by
  cases l with
  | single s =>
    obtain ⟨h1, h2, vc, h3, h4, h5⟩ := hl
    exact ⟨h1, h2, vc, h3, h4, fun c hc => ⟨(h5 c hc).1, (h5 c hc).2.1, (h5 c hc).2.2.1,
      fun e he => h e ((h5 c hc).2.2.2 e he)⟩⟩
  | amulti _ _ => exact hl.elim
  | aunion _ _ => exact hl.elim

/-- two-component bounds with their padded forms, then the bounds of the `python_full_version` operand -/
def pairB (L : List (Nat × Nat)) (fm : Leaf) : List Version :=
  L.flatMap (fun p => [finalV [p.1, p.2], finalV [p.1, p.2, 0]]) ++ pfvCBounds fm

theorem pairB_py (L : List (Nat × Nat)) {fm : Leaf} (hf : Pfv3LeafC fm) : ∀ v ∈ pairB L fm, PyBound v = true := by
  intro v hv
  rcases List.mem_append.1 hv with hv | hv
  · simp only [List.mem_flatMap, List.mem_cons, List.mem_nil_iff, or_false] at hv
    obtain ⟨p, _, rfl | rfl⟩ := hv <;> exact pb _
  · obtain ⟨a, b, c, rfl⟩ := pfv3LeafC_bounds3 hf v hv
    exact pb [a, b, c]

theorem pairB_pad (L : List (Nat × Nat)) {fm : Leaf} (hf : Pfv3LeafC fm) :
    ∀ x r, litV x r ∈ pairB L fm → litV x (padR r) ∈ pairB L fm := by
  intro x r h
  have hrel : ∀ l, litV x r = finalV l → x :: r = l := fun l h => congrArg Version.release h
  rcases List.mem_append.1 h with h | h
  · simp only [List.mem_flatMap, List.mem_cons, List.mem_nil_iff, or_false] at h
    obtain ⟨p, hp, h | h⟩ := h
    · have := hrel _ h; simp only [List.cons.injEq] at this
      obtain ⟨rfl, rfl⟩ := this
      apply List.mem_append_left
      simp only [List.mem_flatMap, List.mem_cons, List.mem_nil_iff, or_false]
      exact ⟨p, hp, Or.inr (by simp [padR, litV_eq_finalV])⟩
    · have := hrel _ h; simp only [List.cons.injEq] at this
      obtain ⟨rfl, rfl⟩ := this
      apply List.mem_append_left
      simp only [List.mem_flatMap, List.mem_cons, List.mem_nil_iff, or_false]
      exact ⟨p, hp, Or.inr (by simp [padR, litV_eq_finalV])⟩
  · obtain ⟨a, b, c, he⟩ := pfv3LeafC_bounds3 hf _ h
    have := congrArg Version.release he
    simp only [litV_release, List.cons.injEq] at this
    obtain ⟨rfl, rfl⟩ := this
    rw [show padR [b, c] = [b, c] from rfl]
    exact List.mem_append_right _ h

theorem pairB_mem2 (L : List (Nat × Nat)) (fm : Leaf) (p : Nat × Nat) (hp : p ∈ L) :
    finalV [p.1, p.2] ∈ pairB L fm ∧ finalV [p.1, p.2, 0] ∈ pairB L fm := by
  constructor <;>
  · apply List.mem_append_left
    simp only [List.mem_flatMap, List.mem_cons, List.mem_nil_iff, or_false]
    exact ⟨p, hp, by simp⟩

/-- the first bound of a `python_full_version` leaf of the fragment -/
theorem pfv3LeafC_bound {l : Leaf} (h : Pfv3LeafC l) : ∃ c d f, litV c [d, f] ∈ pfvCBounds l := by
  rcases h with ⟨sop, ops, a, b, c, hm, rfl⟩ | ⟨a, b, c, rfl⟩
  · refine ⟨a, b, c, ?_⟩
    simp only [pfvCBounds, pfvLeafOf, boundsOf, List.mem_flatMap]
    simp only [pvOps, List.mem_cons, List.mem_nil_iff, or_false, Prod.mk.injEq] at hm
    rcases hm with ⟨rfl, rfl⟩ | ⟨rfl, rfl⟩ | ⟨rfl, rfl⟩ | ⟨rfl, rfl⟩ | ⟨rfl, rfl⟩ | ⟨rfl, rfl⟩ <;>
      simp [pvClause, ineqRange, VC.flatten, RC.bounds, RC.view, VRange.bounds, RC.min, RC.max]
  · refine ⟨a, b, c, ?_⟩
    simp [pfvCBounds, pfvCompatOf, compatVC, boundsOf, VC.flatten, RC.bounds, RC.view, VRange.bounds, RC.min, RC.max]

/-- **the python_version / python_full_version pairing is sound, `~=` leaves included** -/
theorem pairSound_pyC {E : Env} {X Y Z : Nat} (hE : EnvPy E X Y Z) : PairSound (leafEval E) PvLeafC Pfv3LeafC := by
  intro l1 l2 im r hG hm
  -- the two operands, and which is which
  obtain ⟨vl, fl, hv, hf, hsw⟩ : ∃ vl fl, PvLeafC vl ∧ Pfv3LeafC fl ∧ ((l1 = vl ∧ l2 = fl) ∨ (l1 = fl ∧ l2 = vl)) := by
    rcases hG with ⟨h1, h2⟩ | ⟨h1, h2⟩
    · exact ⟨l1, l2, h1, h2, Or.inl ⟨rfl, rfl⟩⟩
    · exact ⟨l2, l1, h2, h1, Or.inr ⟨rfl, rfl⟩⟩
  obtain ⟨fm, rfl⟩ : ∃ fm, fl = .single fm := by
    rcases hf with ⟨_, _, _, _, _, _, rfl⟩ | ⟨_, _, _, rfl⟩ <;> exact ⟨_, rfl⟩
  have hfn : fm.name = "python_full_version" := by simpa [Leaf.name] using pfv3LeafC_name hf
  obtain ⟨c, d, f, hcdf⟩ := pfv3LeafC_bound hf
  -- the conversion of the `python_version` operand, and the constructor on it
  obtain ⟨vm, L, nc, rfl, hvn, hgpc, hex, hmk⟩ : ∃ vm L nc, vl = .single vm ∧ vm.name = "python_version" ∧
      gpcLeaf (.single vm) = .ok nc ∧ nc.allowsPlain (pyV X Y Z) = leafEval E (.single vm) ∧
      ∀ nm, mkSingleOfC "python_full_version" (.ver nc) = .ok nm →
        VerLeaf (pairB L (.single fm)) "python_full_version" (.single nm) ∧
          leafEval E (.single nm) = nc.allowsPlain (pyV X Y Z) := by
    rcases hv with ⟨sop, ops, a, b, hmem, rfl⟩ | ⟨a, b, rfl⟩
    · refine ⟨_, [(a, b), (a, b + 1)], gpcOf sop a b, rfl, rfl, gpcLeaf_pvLeafOf hmem a b, gpcOf_exact hE hmem a b, ?_⟩
      intro nm hnm
      obtain ⟨g, e⟩ := mkpfv_py hE hmem a b c d f nm hnm
      refine ⟨verLeaf_mono ?_ g, e⟩
      intro v hv
      simp only [pairBounds, List.mem_cons, List.mem_nil_iff, or_false] at hv
      rcases hv with rfl | rfl | rfl | rfl | rfl
      · exact (pairB_mem2 _ _ (a, b) (by simp)).1
      · exact (pairB_mem2 _ _ (a, b + 1) (by simp)).1
      · exact (pairB_mem2 _ _ (a, b) (by simp)).2
      · exact (pairB_mem2 _ _ (a, b + 1) (by simp)).2
      · exact List.mem_append_right _ hcdf
    · refine ⟨_, [(a, b), (a + 1, 0)], rng2 a b (a + 1) 0, rfl, rfl, gpcLeaf_pvCompat a b,
        rng2_compat_exact hE a b, ?_⟩
      intro nm hnm
      have hpb := pairB_py [(a, b), (a + 1, 0)] hf
      obtain ⟨g, e⟩ := mkSingleOfC_rng2 hpb a b (a + 1) 0 (pairB_mem2 _ _ (a, b) (by simp)).1
        (pairB_mem2 _ _ (a + 1, 0) (by simp)).1 X Y Z nm hnm
      obtain ⟨_, _, vc, hvc, _, _⟩ := id g
      exact ⟨g, by rw [verLeaf_ev hpb hE g vc hvc]; exact e vc hvc⟩
  have hpb := pairB_py L hf
  have hpad := pairB_pad L hf
  have hfF : VerLeaf (pairB L (.single fm)) "python_full_version" (.single fm) :=
    pfv3LeafC_verLeaf hf (fun e he => List.mem_append_right _ he)
  have C := pairCtx_gen hE _ hpb hpad vm fm nc hvn hfn hv hgpc hex hmk hfF hf
  -- `_merge_single_markers` calls the pairing
  rcases hsw with ⟨rfl, rfl⟩ | ⟨rfl, rfl⟩
  · have hcall : mergeLeaves (.single vm) (.single fm) im = mergePythonVersion 1 vm fm im := by
      simp only [mergeLeaves]
      rw [mergeSingle.eq_def]
      dsimp only
      simp [Leaf.name, hvn, hfn]
    rw [hcall] at hm
    exact mergePythonVersion_sound C 1 vm fm im r (Or.inl rfl) (Or.inr rfl) (Or.inl ⟨hvn, hfn⟩) hm
  · have hcall : mergeLeaves (.single fm) (.single vm) im = mergePythonVersion 1 fm vm im := by
      simp only [mergeLeaves]
      rw [mergeSingle.eq_def]
      dsimp only
      simp [Leaf.name, hvn, hfn]
    rw [hcall] at hm
    exact mergePythonVersion_sound C 1 fm vm im r (Or.inr rfl) (Or.inl rfl) (Or.inr ⟨hfn, hvn⟩) hm

end Poetry.Marker
