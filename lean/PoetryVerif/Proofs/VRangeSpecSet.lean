/-
Comma-joined specifier sets of any length: `parse_constraint` folds `intersect` over the clauses' constraints
(helper lemmas for C04).
-/
import PoetryVerif.Proofs.VRangeSpecFinal
import PoetryVerif.Proofs.VRangeWalk
import PoetryVerif.Proofs.VRangeDiffU
import PoetryVerif.Proofs.VRangeSharp

set_option linter.unusedSimpArgs false
set_option linter.unusedVariables false

namespace Poetry
open Version Spec

/-- `parse_constraint` on a comma-joined group: the clauses' members intersected from left to right -/
def groupVC (first : RC) (rest : List RC) : PyM VC :=
  rest.foldlM (fun acc n => VC.intersect acc (.single n)) (.single first)

/-- the fold, from an accumulator that is empty or a single well-formed member -/
theorem foldIntersect_exact (L : List Version) (hL : ∀ e ∈ L, e.loc = none) (v : Version) (hv : v.wf = true)
    (hreg : ∀ e ∈ L, Reg1 v e) :
    ∀ (rest : List RC) (acc : VC) (b : Bool), acc.notUnion → (∀ c ∈ acc.flatten, c.WF) →
      (∀ e ∈ acc.bounds, e ∈ L) → acc.allows v = .ok b →
      (∀ n ∈ rest, n.WF ∧ ∀ e ∈ n.bounds, e ∈ L) →
      ∃ c, rest.foldlM (fun acc n => VC.intersect acc (.single n)) acc = .ok c ∧
        c.allows v = .ok (b && rest.all (fun n => n.allows v))
  | [], acc, b, _, _, _, hb, _ => ⟨acc, rfl, by simpa using hb⟩
  | n :: ns, acc, b, hnu, hw, hbd, hb, hrest => by
    have hn := hrest n (by simp)
    simp only [List.foldlM_cons, bind, Except.bind]
    cases acc with
    | union ds => exact absurd hnu (by simp [VC.notUnion])
    | empty =>
      simp only [VC.intersect]
      have hb' : b = false := by simpa [VC.allows] using hb.symm
      obtain ⟨c, hc1, hc2⟩ := foldIntersect_exact L hL v hv hreg ns .empty false trivial (by simp [VC.flatten])
        (by simp [VC.bounds]) rfl (fun x hx => hrest x (by simp [hx]))
      exact ⟨c, hc1, by rw [hc2, hb']; simp⟩
    | single m =>
      have hmw : m.WF := hw m (by simp [VC.flatten])
      have hmb : ∀ e ∈ m.bounds, e ∈ L := fun e he => hbd e (by simpa [VC.bounds] using he)
      have hnl : ∀ r x, (m = .rng r ∧ n = .ver x) ∨ (m = .ver x ∧ n = .rng r) → ¬ RC.LocalMinCase r x := by
        rintro r x hx ⟨_, mm, hmm, hloc, _⟩
        have : mm ∈ L := by
          rcases hx with ⟨h1, _⟩ | ⟨_, h1⟩
          · exact hmb mm (by rw [h1]; exact VRange.mem_bounds_min hmm)
          · exact hn.2 mm (by rw [h1]; exact VRange.mem_bounds_min hmm)
        simp [isLocal, hL mm this] at hloc
      obtain ⟨i, hi, hex⟩ := RC.intersect_exact m n hmw hn.1 hnl
      obtain ⟨s1, s2, s3⟩ := RC.intersect_struct m n hmw hn.1 hnl i hi
      have hregmn : Regular (m.bounds ++ n.bounds) v := by
        intro e he
        simp only [List.mem_append] at he
        have heL : e ∈ L := by
          rcases he with h1 | h1
          · exact hmb e h1
          · exact hn.2 e h1
        rcases hreg e heL with h | h
        · exact Or.inl ((vk_eq_iff _ _).1 h)
        · exact Or.inr h
      have hb' : b = m.allows v := by simpa [VC.allows] using hb.symm
      simp only [VC.intersect, hi]
      obtain ⟨c, hc1, hc2⟩ := foldIntersect_exact L hL v hv hreg ns i (m.allows v && n.allows v) s1 s2
        (fun e he => by
          rcases s3 e he with h1 | h1
          · exact hmb e h1
          · exact hn.2 e h1)
        (hex v hv hregmn) (fun x hx => hrest x (by simp [hx]))
      exact ⟨c, hc1, by rw [hc2, hb']; simp [Bool.and_assoc]⟩

/-! ### sets with any operator, in the regular setting -/

/-- a fold of `intersect` over well-formed constraints with regular members: defined, closed, exact -/
theorem foldIntersect_reg {B : List Version} (hB : RegB B) : ∀ (cs : List VC) (c : VC), c.WF →
    (∀ x ∈ c.flatten, RegMember B x) → (∀ d ∈ cs, d.WF ∧ ∀ x ∈ d.flatten, RegMember B x) →
    ∃ res, cs.foldlM VC.intersect c = .ok res ∧ res.WF ∧ (∀ x ∈ res.flatten, RegMember B x) ∧
      ∀ p, p.wf = true → Regular B p → res.allowsPlain p = (c.allowsPlain p && cs.all (fun d => d.allowsPlain p))
  | [], c, hc, hm, _ => ⟨c, rfl, hc, hm, fun p _ _ => by simp⟩
  | d :: ds, c, hc, hm, hds => by
    obtain ⟨hd, hdm⟩ := hds d (by simp)
    obtain ⟨r, hr, hrwf, hrm, hrsem⟩ := VC.intersect_reg hB c d hc hd hm hdm
    obtain ⟨res, h1, h2, h3, h4⟩ := foldIntersect_reg hB ds r hrwf hrm (fun e he => hds e (by simp [he]))
    refine ⟨res, by simp only [List.foldlM_cons, bind, Except.bind, hr]; exact h1, h2, h3, fun p hp hreg => ?_⟩
    rw [h4 p hp hreg, hrsem p hp (hreg.mono (by
      intro e he
      simp only [List.mem_append, boundsOf, List.mem_flatMap] at he
      rcases he with ⟨x, hx, hxe⟩ | ⟨x, hx, hxe⟩
      · exact (hm x hx).2.2.2 e hxe
      · exact (hdm x hx).2.2.2 e hxe))]
    simp [Bool.and_assoc]

/-- the bounds of the constraint the parser builds for a clause (literals and derived upper ends) -/
def clauseBounds : SOp → Version → List Version
  | .compat, V => [V, compatHigh V]
  | .eqStar, V => [V.firstDevrelease, V.nextStable.firstDevrelease]
  | .neStar, V => [V.firstDevrelease, V.nextStable.firstDevrelease]
  | _, V => [V]

theorem oneSided_lower_reg (B : List Version) (V : Version) (incl : Bool) (hV : V.wf = true) (hm : V ∈ B) :
    RegMember B (.rng ⟨some V, none, incl, false⟩) := by
  refine ⟨⟨?_, ?_⟩, ⟨fun h => by simp at h, fun _ => rfl⟩, ?_, ?_⟩
  · intro e he; simp [VRange.bounds] at he; subst he; exact hV
  · intro m M _ hM; simp at hM
  · show VRange.isStrictlyLower _ _ = false
    simp [VRange.isStrictlyLower, VRange.allowedMax]
  · intro e he; simp [RC.bounds, RC.view, VRange.bounds, RC.min, RC.max] at he; subst he; exact hm

theorem oneSided_upper_reg (B : List Version) (V : Version) (incl : Bool) (hV : V.wf = true) (hm : V ∈ B) :
    RegMember B (.rng ⟨none, some V, false, incl⟩) := by
  refine ⟨⟨?_, ?_⟩, ⟨fun _ => rfl, fun h => by simp at h⟩, ?_, ?_⟩
  · intro e he; simp [VRange.bounds] at he; subst he; exact hV
  · intro m M hm'; simp at hm'
  · show VRange.isStrictlyLower _ _ = false
    unfold VRange.isStrictlyLower VRange.allowedMin
    cases (⟨none, some V, false, incl⟩ : VRange).allowedMax <;> rfl
  · intro e he; simp [RC.bounds, RC.view, VRange.bounds, RC.min, RC.max] at he; subst he; exact hm

theorem twoSided_union_wf {B : List Version} (D E : Version) (hD : D.wf = true) (hE : E.wf = true)
    (hle : vk D ≤ vk E) (incl : Bool) (hinc : incl = true → vk D < vk E) (hDm : D ∈ B) (hEm : E ∈ B) :
    (VC.union [.rng ⟨none, some D, false, false⟩, .rng ⟨some E, none, incl, false⟩]).WF ∧
    ∀ x ∈ (VC.union [.rng ⟨none, some D, false, false⟩, .rng ⟨some E, none, incl, false⟩]).flatten, RegMember B x := by
  have m1 := oneSided_upper_reg B D false hD hDm
  have m2 := oneSided_lower_reg B E incl hE hEm
  have hsl : (⟨none, some D, false, false⟩ : VRange).isStrictlyLower ⟨some E, none, incl, false⟩ = true :=
    VRange.sl_of_max_le_min_excl (M := D) (m := E) rfl rfl hle rfl
  have hadj : (⟨none, some D, false, false⟩ : VRange).isAdjacentTo ⟨some E, none, incl, false⟩ = false := by
    unfold VRange.isAdjacentTo
    cases incl with
    | false => simp
    | true =>
      have := hinc rfl
      simp [optVerEq, (eqv_false_iff D E).2 (ne_of_lt this)]
  refine ⟨⟨by simp, ?_, ?_, ⟨⟨hsl, hadj⟩, trivial⟩⟩, ?_⟩
  · intro c hc
    simp only [List.mem_cons, List.mem_nil_iff, or_false] at hc
    rcases hc with rfl | rfl
    · exact ⟨m1.1, m1.2.2.1⟩
    · exact ⟨m2.1, m2.2.2.1⟩
  · simp only [SortedRC, List.pairwise_cons, List.mem_singleton, forall_eq, List.not_mem_nil, false_implies,
      implies_true, List.Pairwise.nil, and_true]
    exact hsl
  · intro c hc
    simp only [VC.flatten, List.mem_cons, List.mem_nil_iff, or_false] at hc
    rcases hc with rfl | rfl
    · exact m1
    · exact m2

/-- the grammar's side conditions on a clause, with the wildcard literals final -/
def ClauseOk' (op : SOp) (V : Version) : Prop :=
  V.wf = true ∧ (op ≠ .eq → op ≠ .ne → V.loc = none) ∧ (op = .compat → 2 ≤ V.precision) ∧
  ((op = .eqStar ∨ op = .neStar) → V.isFinal = true)

/-- **every clause's constraint is a well-formed constraint over regular members** (over a regular bound set
containing the clause's bounds) -/
theorem clauseVC_reg {B : List Version} (hB : RegB B) (op : SOp) (V : Version) (hok : ClauseOk' op V)
    (hb : ∀ e ∈ clauseBounds op V, e ∈ B) :
    ∃ c, clauseVC op V = .ok c ∧ c.WF ∧ ∀ x ∈ c.flatten, RegMember B x := by
  obtain ⟨hV, hloc, hprec, hfin⟩ := hok
  have single : ∀ m : RC, RegMember B m → (VC.single m).WF ∧ ∀ x ∈ (VC.single m).flatten, RegMember B x :=
    fun m hm => ⟨⟨hm.1, hm.2.2.1⟩, fun x hx => by simp [VC.flatten] at hx; subst hx; exact hm⟩
  cases op with
  | eq =>
    exact ⟨_, rfl, single (.ver V) ⟨hV, trivial, trivial, by
      intro e he; simp [RC.bounds_ver] at he; subst he; exact hb e (by simp [clauseBounds])⟩⟩
  | lt => exact ⟨_, rfl, single _ (oneSided_upper_reg B V false hV (hb V (by simp [clauseBounds])))⟩
  | le => exact ⟨_, rfl, single _ (oneSided_upper_reg B V true hV (hb V (by simp [clauseBounds])))⟩
  | gt => exact ⟨_, rfl, single _ (oneSided_lower_reg B V false hV (hb V (by simp [clauseBounds])))⟩
  | ge => exact ⟨_, rfl, single _ (oneSided_lower_reg B V true hV (hb V (by simp [clauseBounds])))⟩
  | ne =>
    have hVB := hb V (by simp [clauseBounds])
    exact ⟨_, rfl, twoSided_union_wf V V hV hV (le_refl _) false (fun h => by cases h) hVB hVB⟩
  | compat =>
    obtain ⟨hHfin, hlt, hHwf, _, _, _, _⟩ := compat_facts V hV (hprec rfl)
    refine ⟨_, rfl, single _ (regMember_of_good hB _ ⟨?_, ?_⟩ ⟨fun h => by simp at h, fun h => by simp at h⟩ ?_)⟩
    · intro e he; simp [VRange.bounds] at he; rcases he with rfl | rfl; exact hV; exact hHwf
    · intro m M hm hM; simp at hm hM; subst hm; subst hM; exact hlt
    · intro e he
      simp [RC.bounds, RC.view, VRange.bounds, RC.min, RC.max] at he
      exact hb e (by simpa [clauseBounds] using he)
  | eqStar =>
    have hf := hfin (Or.inl rfl)
    have hN := (eqStar_range V hf).2
    have hlt := wildcard_ends_lt V hf hV
    have hNwf : V.nextStable.wf = true := by
      obtain ⟨h1, h2, h3, h4⟩ := final_parts hf
      have hs : V.isStable = true := by simp [isStable, isUnstable, isPrerelease, isDevrelease, h1, h3]
      have hne := wf_release_ne hV
      have : V.nextStable = mk' V.epoch (incrLast V.release) none none none none := by
        simp [nextStable, hs, h4, relNext_eq_incrLast _ hne]
      rw [this]
      exact wf_final _ _ (by
        cases hr : V.release with
        | nil => exact absurd hr hne
        | cons a as => cases as <;> simp [incrLast])
    refine ⟨_, (eqStar_range V hf).1, single _ (regMember_of_good hB _ ⟨?_, ?_⟩
      ⟨fun h => by simp at h, fun h => by simp at h⟩ ?_)⟩
    · intro e he; simp [VRange.bounds] at he
      rcases he with rfl | rfl
      · exact wf_firstDev hV
      · exact wf_firstDev hNwf
    · intro m M hm hM; simp at hm hM; subst hm; subst hM; exact hlt
    · intro e he
      simp [RC.bounds, RC.view, VRange.bounds, RC.min, RC.max] at he
      exact hb e (by simpa [clauseBounds] using he)
  | neStar =>
    have hf := hfin (Or.inr rfl)
    have hlt := wildcard_ends_lt V hf hV
    have hNwf : V.nextStable.wf = true := by
      obtain ⟨h1, h2, h3, h4⟩ := final_parts hf
      have hs : V.isStable = true := by simp [isStable, isUnstable, isPrerelease, isDevrelease, h1, h3]
      have hne := wf_release_ne hV
      have : V.nextStable = mk' V.epoch (incrLast V.release) none none none none := by
        simp [nextStable, hs, h4, relNext_eq_incrLast _ hne]
      rw [this]
      exact wf_final _ _ (by
        cases hr : V.release with
        | nil => exact absurd hr hne
        | cons a as => cases as <;> simp [incrLast])
    exact ⟨_, neStar_range V hf hV, twoSided_union_wf _ _ (wf_firstDev hV) (wf_firstDev hNwf) (le_of_lt hlt) true
      (fun _ => hlt) (hb _ (by simp [clauseBounds])) (hb _ (by simp [clauseBounds]))⟩

/-- `parse_constraint`'s left-to-right fold over the remaining clauses of a comma-joined set, in the regular
setting: defined, closed, and its membership is the conjunction -/
theorem foldClauses_reg {B : List Version} (hB : RegB B) (p : Version) (hp : p.wf = true) (hreg : Regular B p) :
    ∀ (cs : List Spec.Clause) (acc : VC), acc.WF → (∀ x ∈ acc.flatten, RegMember B x) →
    (∀ d ∈ cs, ClauseOk' d.op d.lit ∧ (∀ e ∈ clauseBounds d.op d.lit, e ∈ B) ∧
      ∀ c, clauseVC d.op d.lit = .ok c → c.allows p = .ok (d.contains p)) →
    ∃ res, cs.foldlM (fun acc d => do VC.intersect acc (← clauseVC d.op d.lit)) acc = .ok res ∧ res.WF ∧
      (∀ x ∈ res.flatten, RegMember B x) ∧
      res.allowsPlain p = (acc.allowsPlain p && cs.all (fun d => d.contains p))
  | [], acc, hc, hm, _ => ⟨acc, rfl, hc, hm, by simp⟩
  | d :: ds, acc, hc, hm, hds => by
    obtain ⟨hok, hb, hsem⟩ := hds d (by simp)
    obtain ⟨c, hcl, cwf, cm⟩ := clauseVC_reg hB d.op d.lit hok hb
    obtain ⟨r, hr, hrwf, hrm, hrsem⟩ := VC.intersect_reg hB acc c hc cwf hm cm
    obtain ⟨res, h1, h2, h3, h4⟩ := foldClauses_reg hB p hp hreg ds r hrwf hrm (fun e he => hds e (by simp [he]))
    have hcp : c.allowsPlain p = d.contains p := by
      have a := VC.allows_of_reg hB c cwf cm p
      rw [hsem c hcl] at a
      injection a with a; exact a.symm
    refine ⟨res, by simp only [List.foldlM_cons, bind, Except.bind, hcl, hr]; exact h1, h2, h3, ?_⟩
    rw [h4, hrsem p hp (hreg.mono (by
      intro e he
      simp only [List.mem_append, boundsOf, List.mem_flatMap] at he
      rcases he with ⟨x, hx, hxe⟩ | ⟨x, hx, hxe⟩
      · exact (hm x hx).2.2.2 e hxe
      · exact (cm x hx).2.2.2 e hxe)), hcp]
    simp [Bool.and_assoc]

/-! ### deciding the regular setting on concrete bound sets -/

/-- a Boolean check of `RegB` -/
def regBCheck (B : List Version) : Bool :=
  B.all (fun x => !x.isLocal && B.all (fun y => Version.eqv x y || decide (relKey x ≠ relKey y)))

theorem RegB.of_check {B : List Version} (h : regBCheck B = true) : RegB B := by
  simp only [regBCheck, List.all_eq_true, Bool.and_eq_true, Bool.not_eq_true', Bool.or_eq_true,
    decide_eq_true_eq] at h
  refine ⟨fun x hx y hy => ?_, fun e he => (h e he).1⟩
  rcases (h x hx).2 y hy with h1 | h1
  · exact Or.inl ((eqv_iff x y).1 h1)
  · exact Or.inr h1

/-- a Boolean check of `Regular` -/
def regularCheck (B : List Version) (v : Version) : Bool :=
  B.all (fun e => Version.eqv v e || decide (relKey v ≠ relKey e))

theorem Regular.of_check {B : List Version} {v : Version} (h : regularCheck B v = true) : Regular B v := by
  simp only [regularCheck, List.all_eq_true, Bool.or_eq_true, decide_eq_true_eq] at h
  intro e he
  rcases h e he with h1 | h1
  · exact Or.inl ((vk_eq_iff v e).1 ((eqv_iff v e).1 h1))
  · exact Or.inr h1

/-! ### sets of single-range clauses: no mutual regularity needed -/

/-- the member the parser builds for a clause that is a single version or range (every operator but `!=`,
`!=V.*`) -/
def clauseMember : SOp → Version → RC
  | .eq, V => .ver V
  | .lt, V => .rng ⟨none, some V, false, false⟩
  | .le, V => .rng ⟨none, some V, false, true⟩
  | .gt, V => .rng ⟨some V, none, false, false⟩
  | .ge, V => .rng ⟨some V, none, true, false⟩
  | .compat, V => .rng ⟨some V, some (compatHigh V), true, false⟩
  | _, V => .rng ⟨some V.firstDevrelease, some V.nextStable.firstDevrelease, true, false⟩

theorem final_nextStable_wf (V : Version) (hf : V.isFinal = true) (hV : V.wf = true) : V.nextStable.wf = true := by
  obtain ⟨h1, h2, h3, h4⟩ := final_parts hf
  have hs : V.isStable = true := by simp [isStable, isUnstable, isPrerelease, isDevrelease, h1, h3]
  have hne := wf_release_ne hV
  have : V.nextStable = mk' V.epoch (incrLast V.release) none none none none := by
    simp [nextStable, hs, h4, relNext_eq_incrLast _ hne]
  rw [this]
  exact wf_final _ _ (by
    cases hr : V.release with
    | nil => exact absurd hr hne
    | cons a as => cases as <;> simp [incrLast])

/-- the clause's constraint is that member; it is well-formed, its bounds are the clause's bounds and carry no
local label when the literal carries none -/
theorem clauseMember_spec (op : SOp) (V : Version) (hok : ClauseOk' op V) (hop : op ≠ .ne ∧ op ≠ .neStar)
    (hloc : V.loc = none) :
    clauseVC op V = .ok (.single (clauseMember op V)) ∧ (clauseMember op V).WF ∧
    (∀ e ∈ (clauseMember op V).bounds, e ∈ clauseBounds op V) ∧ ∀ e ∈ clauseBounds op V, e.loc = none := by
  obtain ⟨hV, _, hprec, hfin⟩ := hok
  have oneLo : ∀ i : Bool, (RC.rng ⟨some V, none, i, false⟩).WF := fun i =>
    ⟨by intro e he; simp [VRange.bounds] at he; subst he; exact hV, by intro m M _ hM; simp at hM⟩
  have oneHi : ∀ j : Bool, (RC.rng ⟨none, some V, false, j⟩).WF := fun j =>
    ⟨by intro e he; simp [VRange.bounds] at he; subst he; exact hV, by intro m M hm; simp at hm⟩
  cases op with
  | eq => exact ⟨rfl, hV, by simp [clauseMember, clauseBounds, RC.bounds_ver], by simp [clauseBounds, hloc]⟩
  | ne => exact absurd rfl hop.1
  | lt => exact ⟨rfl, oneHi false, by simp [clauseMember, clauseBounds, RC.bounds, RC.view, VRange.bounds, RC.min, RC.max],
      by simp [clauseBounds, hloc]⟩
  | le => exact ⟨rfl, oneHi true, by simp [clauseMember, clauseBounds, RC.bounds, RC.view, VRange.bounds, RC.min, RC.max],
      by simp [clauseBounds, hloc]⟩
  | gt => exact ⟨rfl, oneLo false, by simp [clauseMember, clauseBounds, RC.bounds, RC.view, VRange.bounds, RC.min, RC.max],
      by simp [clauseBounds, hloc]⟩
  | ge => exact ⟨rfl, oneLo true, by simp [clauseMember, clauseBounds, RC.bounds, RC.view, VRange.bounds, RC.min, RC.max],
      by simp [clauseBounds, hloc]⟩
  | compat =>
    obtain ⟨hHfin, hlt, hHwf, _, _, _, _⟩ := compat_facts V hV (hprec rfl)
    refine ⟨rfl, ⟨?_, ?_⟩, by simp [clauseMember, clauseBounds, RC.bounds, RC.view, VRange.bounds, RC.min, RC.max], ?_⟩
    · intro e he; simp [VRange.bounds] at he; rcases he with rfl | rfl; exact hV; exact hHwf
    · intro m M hm hM; simp at hm hM; subst hm; subst hM; exact hlt
    · intro e he
      simp only [clauseBounds, List.mem_cons, List.mem_nil_iff, or_false] at he
      rcases he with rfl | rfl
      · exact hloc
      · exact (final_parts hHfin).2.2.2
  | eqStar =>
    have hf := hfin (Or.inl rfl)
    have hlt := wildcard_ends_lt V hf hV
    refine ⟨(eqStar_range V hf).1, ⟨?_, ?_⟩,
      by simp [clauseMember, clauseBounds, RC.bounds, RC.view, VRange.bounds, RC.min, RC.max], ?_⟩
    · intro e he; simp [VRange.bounds] at he
      rcases he with rfl | rfl
      · exact wf_firstDev hV
      · exact wf_firstDev (final_nextStable_wf V hf hV)
    · intro m M hm hM; simp at hm hM; subst hm; subst hM; exact hlt
    · intro e he
      simp only [clauseBounds, List.mem_cons, List.mem_nil_iff, or_false] at he
      rcases he with rfl | rfl <;> rfl
  | neStar => exact absurd rfl hop.2

/-- `parse_constraint`'s fold over clauses that are single members is the fold over the members -/
theorem foldClauses_members : ∀ (cs : List Spec.Clause) (acc : VC),
    (∀ d ∈ cs, clauseVC d.op d.lit = .ok (.single (clauseMember d.op d.lit))) →
    cs.foldlM (fun acc d => do VC.intersect acc (← clauseVC d.op d.lit)) acc =
      (cs.map (fun d => clauseMember d.op d.lit)).foldlM (fun acc n => VC.intersect acc (.single n)) acc
  | [], acc, _ => rfl
  | d :: ds, acc, h => by
    simp only [List.foldlM_cons, List.map_cons, h d (by simp), bind, Except.bind]
    cases VC.intersect acc (.single (clauseMember d.op d.lit)) with
    | error e => rfl
    | ok r => exact foldClauses_members ds r (fun x hx => h x (by simp [hx]))

/-- the member of a single-range clause, at a candidate that is regular for the literal: well-formed, the candidate
is fine for it (`RC.OKat`: the derived ends — `~=`'s exclusive upper end, the wildcard's `.dev0` ends — need no
regularity), and its range bounds carry no local label -/
theorem clauseMember_at (op : SOp) (V : Version) (hok : ClauseOk' op V) (hop : op ≠ .ne ∧ op ≠ .neStar)
    (v : Version) (hreg : Reg1 v V) :
    clauseVC op V = .ok (.single (clauseMember op V)) ∧ (clauseMember op V).WF ∧ (clauseMember op V).OKat v ∧
      (clauseMember op V).RngNoLocal := by
  obtain ⟨hV, hloc, hprec, hfin⟩ := hok
  have nl : op ≠ .eq → V.isLocal = false := fun h => by simp [isLocal, hloc h hop.1]
  have oneLo : ∀ i : Bool, (RC.rng ⟨some V, none, i, false⟩).WF := fun i =>
    ⟨by intro e he; simp [VRange.bounds] at he; subst he; exact hV, by intro m M _ hM; simp at hM⟩
  have oneHi : ∀ j : Bool, (RC.rng ⟨none, some V, false, j⟩).WF := fun j =>
    ⟨by intro e he; simp [VRange.bounds] at he; subst he; exact hV, by intro m M hm; simp at hm⟩
  have okLo : ∀ i : Bool, (RC.rng ⟨some V, none, i, false⟩).OKat v := fun i =>
    ⟨by intro m hm; simp at hm; subst hm; exact Or.inr hreg, by intro M hM; simp at hM⟩
  have okHi : ∀ j : Bool, (RC.rng ⟨none, some V, false, j⟩).OKat v := fun j =>
    ⟨by intro m hm; simp at hm, by intro M hM; simp at hM; subst hM; exact Or.inr hreg⟩
  have nlLo : op ≠ .eq → ∀ i : Bool, (RC.rng ⟨some V, none, i, false⟩).RngNoLocal := fun h i => by
    intro e he; simp [VRange.bounds] at he; subst he; exact nl h
  have nlHi : op ≠ .eq → ∀ j : Bool, (RC.rng ⟨none, some V, false, j⟩).RngNoLocal := fun h j => by
    intro e he; simp [VRange.bounds] at he; subst he; exact nl h
  cases op with
  | eq => exact ⟨rfl, hV, hreg, trivial⟩
  | ne => exact absurd rfl hop.1
  | lt => exact ⟨rfl, oneHi false, okHi false, nlHi (by simp) false⟩
  | le => exact ⟨rfl, oneHi true, okHi true, nlHi (by simp) true⟩
  | gt => exact ⟨rfl, oneLo false, okLo false, nlLo (by simp) false⟩
  | ge => exact ⟨rfl, oneLo true, okLo true, nlLo (by simp) true⟩
  | compat =>
    obtain ⟨hHfin, hlt, hHwf, _, _, _, _⟩ := compat_facts V hV (hprec rfl)
    refine ⟨rfl, ⟨?_, ?_⟩, ⟨?_, ?_⟩, ?_⟩
    · intro e he; simp [VRange.bounds] at he; rcases he with rfl | rfl; exact hV; exact hHwf
    · intro m M hm hM; simp at hm hM; subst hm; subst hM; exact hlt
    · intro m hm; exact Or.inl rfl
    · intro M hM; exact Or.inl rfl
    · intro e he
      simp [clauseMember, VRange.bounds] at he
      rcases he with rfl | rfl
      · exact nl (by simp)
      · simp [isLocal, (final_parts hHfin).2.2.2]
  | eqStar =>
    have hf := hfin (Or.inl rfl)
    have hlt := wildcard_ends_lt V hf hV
    refine ⟨(eqStar_range V hf).1, ⟨?_, ?_⟩, ⟨?_, ?_⟩, ?_⟩
    · intro e he; simp [VRange.bounds] at he
      rcases he with rfl | rfl
      · exact wf_firstDev hV
      · exact wf_firstDev (final_nextStable_wf V hf hV)
    · intro m M hm hM; simp at hm hM; subst hm; subst hM; exact hlt
    · intro m hm; exact Or.inl rfl
    · intro M hM; exact Or.inl rfl
    · intro e he
      simp [clauseMember, VRange.bounds] at he
      rcases he with rfl | rfl <;> rfl
  | neStar => exact absurd rfl hop.2

/-- a fold of `intersect` with single members never builds a union -/
theorem fold_single_notUnion : ∀ (ms : List RC) (acc res : VC), acc.notUnion →
    ms.foldlM (fun acc n => VC.intersect acc (.single n)) acc = .ok res → res.notUnion
  | [], acc, res, h, hr => by simp only [List.foldlM_nil, pure, Except.pure, Except.ok.injEq] at hr; subst hr; exact h
  | n :: ns, acc, res, h, hr => by
    simp only [List.foldlM_cons, bind, Except.bind] at hr
    cases hi : VC.intersect acc (.single n) with
    | error e => simp [hi] at hr
    | ok i =>
      simp only [hi] at hr
      have hin : i.notUnion := by
        cases acc with
        | union ds => exact absurd h (by simp [VC.notUnion])
        | empty => simp only [VC.intersect, Except.ok.injEq] at hi; subst hi; trivial
        | single m => exact RC.intersect_notUnion m n i hi
      exact fold_single_notUnion ns i res hin hr

end Poetry
