/-
Comma-joined specifier sets of any length: `parse_constraint` folds `intersect` over the clauses' constraints
(helper lemmas for C04).
-/
import PoetryVerif.Proofs.VRangeSpecFinal
import PoetryVerif.Proofs.VRangeWalk

set_option linter.unusedSimpArgs false
set_option linter.unusedVariables false

namespace Poetry
open Version Spec

/-- `parse_constraint` on a comma-joined group: the clauses' members intersected from left to right -/
def groupVC (first : RC) (rest : List RC) : PyM VC :=
  rest.foldlM (fun acc n => VC.intersect acc (.single n)) (.single first)

/-- the fold, from an accumulator that is empty or a single well-formed member -/
theorem foldIntersect_exact (L : List Version) (hL : ∀ e ∈ L, e.loc = none) (v : Version) (hv : v.wf = true)
    (hreg : ∀ e ∈ L, Reg1 v e) :
    ∀ (rest : List RC) (acc : VC) (b : Bool), acc.notUnion → (∀ c ∈ acc.flatten, c.WF) →
      (∀ e ∈ acc.bounds, e ∈ L) → acc.allows v = .ok b →
      (∀ n ∈ rest, n.WF ∧ ∀ e ∈ n.bounds, e ∈ L) →
      ∃ c, rest.foldlM (fun acc n => VC.intersect acc (.single n)) acc = .ok c ∧
        c.allows v = .ok (b && rest.all (fun n => n.allows v))
  | [], acc, b, _, _, _, hb, _ => ⟨acc, rfl, by simpa using hb⟩
  | n :: ns, acc, b, hnu, hw, hbd, hb, hrest => by
    have hn := hrest n (by simp)
    simp only [List.foldlM_cons, bind, Except.bind]
    cases acc with
    | union ds => exact absurd hnu (by simp [VC.notUnion])
    | empty =>
      simp only [VC.intersect]
      have hb' : b = false := by simpa [VC.allows] using hb.symm
      obtain ⟨c, hc1, hc2⟩ := foldIntersect_exact L hL v hv hreg ns .empty false trivial (by simp [VC.flatten])
        (by simp [VC.bounds]) rfl (fun x hx => hrest x (by simp [hx]))
      exact ⟨c, hc1, by rw [hc2, hb']; simp⟩
    | single m =>
      have hmw : m.WF := hw m (by simp [VC.flatten])
      have hmb : ∀ e ∈ m.bounds, e ∈ L := fun e he => hbd e (by simpa [VC.bounds] using he)
      have hnl : ∀ r x, (m = .rng r ∧ n = .ver x) ∨ (m = .ver x ∧ n = .rng r) → ¬ RC.LocalMinCase r x := by
        rintro r x hx ⟨_, mm, hmm, hloc, _⟩
        have : mm ∈ L := by
          rcases hx with ⟨h1, _⟩ | ⟨_, h1⟩
          · exact hmb mm (by rw [h1]; exact VRange.mem_bounds_min hmm)
          · exact hn.2 mm (by rw [h1]; exact VRange.mem_bounds_min hmm)
        simp [isLocal, hL mm this] at hloc
      obtain ⟨i, hi, hex⟩ := RC.intersect_exact m n hmw hn.1 hnl
      obtain ⟨s1, s2, s3⟩ := RC.intersect_struct m n hmw hn.1 hnl i hi
      have hregmn : Regular (m.bounds ++ n.bounds) v := by
        intro e he
        simp only [List.mem_append] at he
        have heL : e ∈ L := by
          rcases he with h1 | h1
          · exact hmb e h1
          · exact hn.2 e h1
        rcases hreg e heL with h | h
        · exact Or.inl ((vk_eq_iff _ _).1 h)
        · exact Or.inr h
      have hb' : b = m.allows v := by simpa [VC.allows] using hb.symm
      simp only [VC.intersect, hi]
      obtain ⟨c, hc1, hc2⟩ := foldIntersect_exact L hL v hv hreg ns i (m.allows v && n.allows v) s1 s2
        (fun e he => by
          rcases s3 e he with h1 | h1
          · exact hmb e h1
          · exact hn.2 e h1)
        (hex v hv hregmn) (fun x hx => hrest x (by simp [hx]))
      exact ⟨c, hc1, by rw [hc2, hb']; simp [Bool.and_assoc]⟩

end Poetry
