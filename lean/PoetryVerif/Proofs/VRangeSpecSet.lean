/-
Comma-joined specifier sets of any length: `parse_constraint` folds `intersect` over the clauses' constraints
(helper lemmas for C04).
-/
import PoetryVerif.Proofs.VRangeSpecFinal
import PoetryVerif.Proofs.VRangeWalk

set_option linter.unusedSimpArgs false
set_option linter.unusedVariables false

namespace Poetry
open Version Spec

/-- shape of a member-level intersection: not a union, members well-formed, bounds among the operands' -/
theorem RC.intersect_struct (a b : RC) (ha : a.WF) (hb : b.WF)
    (hcase : ∀ r x, (a = .rng r ∧ b = .ver x) ∨ (a = .ver x ∧ b = .rng r) → ¬ RC.LocalMinCase r x)
    (i : VC) (h : RC.intersect a b = .ok i) :
    i.notUnion ∧ (∀ c ∈ i.flatten, c.WF) ∧ (∀ e ∈ i.bounds, e ∈ a.bounds ∨ e ∈ b.bounds) := by
  refine ⟨RC.intersect_notUnion a b i h, ?_⟩
  have verCase : ∀ (r : VRange) (x : Version), x.wf = true → ¬ RC.LocalMinCase r x →
      (∀ c ∈ (RC.rngIntersectVer r x).flatten, c.WF) ∧
      (∀ e ∈ (RC.rngIntersectVer r x).bounds, e = x) := by
    intro r x hx hnl
    unfold RC.rngIntersectVer
    by_cases h1 : r.allows x = true
    · simp only [h1, if_true]
      exact ⟨by intro c hc; simp [VC.flatten] at hc; subst hc; exact hx,
        by intro e he; simpa [VC.bounds, RC.bounds_ver] using he⟩
    · rw [if_neg h1]
      cases hm : r.min with
      | none => simp [VC.flatten, VC.bounds]
      | some m =>
        simp only
        by_cases h3 : (m.isLocal && x.allows m) = true
        · exfalso
          simp only [Bool.and_eq_true] at h3
          exact hnl ⟨by simpa using h1, m, hm, h3.1, h3.2⟩
        · rw [if_neg h3]; simp [VC.flatten, VC.bounds]
  cases a with
  | ver x =>
    cases b with
    | ver y =>
      simp only [RC.intersect, Except.ok.injEq] at h; subst h
      unfold RC.verIntersectVer
      split
      · exact ⟨by intro c hc; simp [VC.flatten] at hc; subst hc; exact hb,
          by intro e he; exact Or.inr (by simpa [VC.bounds] using he)⟩
      · split
        · exact ⟨by intro c hc; simp [VC.flatten] at hc; subst hc; exact ha,
            by intro e he; exact Or.inl (by simpa [VC.bounds] using he)⟩
        · simp [VC.flatten, VC.bounds]
    | rng s =>
      simp only [RC.intersect, Except.ok.injEq] at h; subst h
      obtain ⟨h1, h2⟩ := verCase s x ha (hcase s x (Or.inr ⟨rfl, rfl⟩))
      exact ⟨h1, fun e he => Or.inl (by rw [h2 e he]; simp [RC.bounds_ver])⟩
  | rng s =>
    cases b with
    | ver y =>
      simp only [RC.intersect, Except.ok.injEq] at h; subst h
      obtain ⟨h1, h2⟩ := verCase s y hb (hcase s y (Or.inl ⟨rfl, rfl⟩))
      exact ⟨h1, fun e he => Or.inr (by rw [h2 e he]; simp [RC.bounds_ver])⟩
    | rng t =>
      simp only [RC.intersect] at h
      rcases VRange.intersect_den s t ha hb with ⟨h', _⟩ | ⟨x, h', hx, _⟩ | ⟨r, h', hr, hrb, _⟩
      · rw [h'] at h; cases h; simp [VC.flatten, VC.bounds]
      · rw [h'] at h; cases h
        have hxwf : x.wf = true := by
          rcases hx with hx | hx
          · exact ha.1 x hx
          · exact hb.1 x hx
        exact ⟨by intro c hc; simp [VC.flatten] at hc; subst hc; exact hxwf,
          by intro e he; simp [VC.bounds, RC.bounds_ver] at he; subst he; exact hx⟩
      · rw [h'] at h; cases h
        exact ⟨by intro c hc; simp [VC.flatten] at hc; subst hc; exact hr,
          by intro e he; exact hrb e (by simpa [VC.bounds, RC.bounds_rng] using he)⟩

/-- `parse_constraint` on a comma-joined group: the clauses' members intersected from left to right -/
def groupVC (first : RC) (rest : List RC) : PyM VC :=
  rest.foldlM (fun acc n => VC.intersect acc (.single n)) (.single first)

/-- the fold, from an accumulator that is empty or a single well-formed member -/
theorem foldIntersect_exact (L : List Version) (hL : ∀ e ∈ L, e.loc = none) (v : Version) (hv : v.wf = true)
    (hreg : ∀ e ∈ L, Reg1 v e) :
    ∀ (rest : List RC) (acc : VC) (b : Bool), acc.notUnion → (∀ c ∈ acc.flatten, c.WF) →
      (∀ e ∈ acc.bounds, e ∈ L) → acc.allows v = .ok b →
      (∀ n ∈ rest, n.WF ∧ ∀ e ∈ n.bounds, e ∈ L) →
      ∃ c, rest.foldlM (fun acc n => VC.intersect acc (.single n)) acc = .ok c ∧
        c.allows v = .ok (b && rest.all (fun n => n.allows v))
  | [], acc, b, _, _, _, hb, _ => ⟨acc, rfl, by simpa using hb⟩
  | n :: ns, acc, b, hnu, hw, hbd, hb, hrest => by
    have hn := hrest n (by simp)
    simp only [List.foldlM_cons, bind, Except.bind]
    cases acc with
    | union ds => exact absurd hnu (by simp [VC.notUnion])
    | empty =>
      simp only [VC.intersect]
      have hb' : b = false := by simpa [VC.allows] using hb.symm
      obtain ⟨c, hc1, hc2⟩ := foldIntersect_exact L hL v hv hreg ns .empty false trivial (by simp [VC.flatten])
        (by simp [VC.bounds]) rfl (fun x hx => hrest x (by simp [hx]))
      exact ⟨c, hc1, by rw [hc2, hb']; simp⟩
    | single m =>
      have hmw : m.WF := hw m (by simp [VC.flatten])
      have hmb : ∀ e ∈ m.bounds, e ∈ L := fun e he => hbd e (by simpa [VC.bounds] using he)
      have hnl : ∀ r x, (m = .rng r ∧ n = .ver x) ∨ (m = .ver x ∧ n = .rng r) → ¬ RC.LocalMinCase r x := by
        rintro r x hx ⟨_, mm, hmm, hloc, _⟩
        have : mm ∈ L := by
          rcases hx with ⟨h1, _⟩ | ⟨_, h1⟩
          · exact hmb mm (by rw [h1]; exact VRange.mem_bounds_min hmm)
          · exact hn.2 mm (by rw [h1]; exact VRange.mem_bounds_min hmm)
        simp [isLocal, hL mm this] at hloc
      obtain ⟨i, hi, hex⟩ := RC.intersect_exact m n hmw hn.1 hnl
      obtain ⟨s1, s2, s3⟩ := RC.intersect_struct m n hmw hn.1 hnl i hi
      have hregmn : Regular (m.bounds ++ n.bounds) v := by
        intro e he
        simp only [List.mem_append] at he
        have heL : e ∈ L := by
          rcases he with h1 | h1
          · exact hmb e h1
          · exact hn.2 e h1
        rcases hreg e heL with h | h
        · exact Or.inl ((vk_eq_iff _ _).1 h)
        · exact Or.inr h
      have hb' : b = m.allows v := by simpa [VC.allows] using hb.symm
      simp only [VC.intersect, hi]
      obtain ⟨c, hc1, hc2⟩ := foldIntersect_exact L hL v hv hreg ns i (m.allows v && n.allows v) s1 s2
        (fun e he => by
          rcases s3 e he with h1 | h1
          · exact hmb e h1
          · exact hn.2 e h1)
        (hex v hv hregmn) (fun x hx => hrest x (by simp [hx]))
      exact ⟨c, hc1, by rw [hc2, hb']; simp [Bool.and_assoc]⟩

end Poetry
