/-
C14: the bounds of every constraint `parse_constraint` returns from a text without CR / LF carry texts without
CR / LF (`BoundsLineFree`), so `str(constraint)`, `create_nested_marker` and `format_python_constraint` write one
line (`MetaConstraintText`).  Core Lean only.
-/
import PoetryVerif.Proofs.MetaConstraintText

set_option linter.unusedSimpArgs false
set_option linter.unusedVariables false

namespace Poetry.Meta
open Poetry Poetry.Marker Poetry.Version Poetry.VParser Poetry.Spec Poetry.Spec.Rfc822

/-! ### the parser keeps the raw text -/

theorem parse_text (t : String) (v : Version) (h : Version.parse t = .ok v) : v.text = t := by
  unfold Version.parse at h
  simp only at h
  rw [parseBody_text] at h
  cases hb : Version.parseBody "" (dropSpaces (t.toList.map lowerChar)) with
  | none => rw [hb] at h; cases h
  | some pr =>
    obtain ⟨v', rest⟩ := pr
    rw [hb] at h
    simp only [Option.map_some] at h
    split at h
    · cases h; rfl
    · cases h

end Poetry.Meta

/-! helper lemmas live in their own namespace (no clash with the other `Meta*` files) -/
namespace Poetry.Meta.ParseBounds
open Poetry Poetry.Marker Poetry.Version Poetry.VParser Poetry.Spec Poetry.Spec.Rfc822

/-- the text of a bound holds no CR / LF -/
def LF (v : Version) : Prop := SingleLine v.text

theorem parse_LF (t : String) (v : Version) (h : Version.parse t = .ok v) (ht : SingleLine t) : LF v := by
  unfold LF; rw [parse_text t v h]; exact ht

/-! ### characters of the pieces are characters of the input -/

theorem dropSpaces_mem : ∀ (s : List Char), ∀ c ∈ dropSpaces s, c ∈ s
  | [], c, hc => by simp [dropSpaces] at hc
  | x :: xs, c, hc => by
    unfold dropSpaces at hc
    split at hc
    · exact List.mem_cons_of_mem _ (dropSpaces_mem xs c hc)
    · exact hc

theorem noNL_dropSpaces {s : List Char} (h : NoNL s) : NoNL (dropSpaces s) :=
  noNL_of_subset (dropSpaces_mem s) h

theorem noNL_tail {c : Char} {s : List Char} (h : NoNL (c :: s)) : NoNL s :=
  fun x hx => h x (List.mem_cons_of_mem _ hx)

theorem noNL_reverse {s : List Char} (h : NoNL s) : NoNL s.reverse :=
  fun x hx => h x (List.mem_reverse.1 hx)

theorem noNL_take {s : List Char} (n : Nat) (h : NoNL s) : NoNL (s.take n) :=
  fun x hx => h x (List.mem_of_mem_take hx)

theorem noNL_drop {s : List Char} (n : Nat) (h : NoNL s) : NoNL (s.drop n) :=
  fun x hx => h x (List.mem_of_mem_drop hx)

theorem noNL_dropWhile {s : List Char} (p : Char → Bool) (h : NoNL s) : NoNL (s.dropWhile p) :=
  fun x hx => h x ((List.dropWhile_sublist p).subset hx)

theorem noNL_append {a b : List Char} (ha : NoNL a) (hb : NoNL b) : NoNL (a ++ b) := by
  intro x hx
  rcases List.mem_append.1 hx with h | h
  · exact ha x h
  · exact hb x h

theorem noNL_nil : NoNL [] := by intro x hx; cases hx

theorem noNL_cons {c : Char} {s : List Char} (hc : isNL c = false) (hs : NoNL s) : NoNL (c :: s) := by
  intro x hx
  rcases List.mem_cons.1 hx with rfl | h
  · exact hc
  · exact hs x h

theorem versionToEnd?_singleLine (s : List Char) (t : String) (h : versionToEnd? s = some t) (hs : NoNL s) :
    SingleLine t := by
  unfold versionToEnd? at h
  simp only at h
  split at h
  · split at h
    · cases h
      rw [singleLine_ofList]
      split
      · exact fun x hx => hs x ((List.dropLast_sublist _).subset hx)
      · exact hs
    · cases h
  · cases h

theorem takeDigits_fst_mem : ∀ (s : List Char), ∀ c ∈ (takeDigits s).1, c ∈ s
  | [], c, hc => by simp [takeDigits] at hc
  | x :: xs, c, hc => by
    unfold takeDigits at hc
    by_cases hx : isDigit x = true
    · simp only [hx, if_true] at hc
      rcases List.mem_cons.1 hc with rfl | hc
      · simp
      · exact List.mem_cons_of_mem _ (takeDigits_fst_mem xs c hc)
    · simp only [hx] at hc
      cases hc

theorem xmore_fst_mem (r : List Char) : ∀ c ∈ (xmore r).1, c ∈ r := by
  intro c hc
  unfold xmore at hc
  split at hc
  · rename_i cs
    by_cases he : (takeDigits cs).1.isEmpty = true
    · simp only [he, if_true] at hc; cases hc
    · simp only [he] at hc
      rcases List.mem_cons.1 hc with rfl | hc
      · simp
      · exact List.mem_cons_of_mem _ (takeDigits_fst_mem cs c hc)
  · cases hc

theorem xtry_ver (inv : Bool) (ver r : List Char) (x : Bool × String) (h : xtry inv ver r = some x) :
    x.2 = String.ofList ver := by
  unfold xtry at h
  split at h
  · cases h; rfl
  · cases h

theorem xcore2_singleLine (inv : Bool) (s : List Char) (x : Bool × String) (h : xcore2 inv s = some x)
    (hs : NoNL s) : SingleLine x.2 := by
  unfold xcore2 at h
  have a1 := takeDigits_mem s
  have b1 := takeDigits_fst_mem s
  generalize takeDigits s = p1 at a1 b1 h
  obtain ⟨d1, r1⟩ := p1
  simp only at a1 b1 h
  split at h
  · cases h
  · have a2 := xmore_mem r1
    have b2 := xmore_fst_mem r1
    generalize xmore r1 = p2 at a2 b2 h
    obtain ⟨d2, r2⟩ := p2
    simp only at a2 b2 h
    have hd1 : NoNL d1 := noNL_of_subset b1 hs
    have hr1 : NoNL r1 := noNL_of_subset a1 hs
    have hd2 : NoNL d2 := noNL_of_subset b2 hr1
    have hr2 : NoNL r2 := noNL_of_subset a2 hr1
    have key : ∀ (d3 r3 : List Char), NoNL d3 →
        (match xtry inv (d1 ++ d2 ++ d3) r3 with
          | some x => some x
          | none => match xtry inv (d1 ++ d2) r2 with
            | some x => some x
            | none => xtry inv d1 r1) = some x → SingleLine x.2 := by
      intro d3 r3 hd3 h
      split at h
      · rename_i y hy
        cases h
        rw [xtry_ver _ _ _ _ hy, singleLine_ofList]
        exact noNL_append (noNL_append hd1 hd2) hd3
      · split at h
        · rename_i y hy
          cases h
          rw [xtry_ver _ _ _ _ hy, singleLine_ofList]
          exact noNL_append hd1 hd2
        · rw [xtry_ver _ _ _ _ h, singleLine_ofList]
          exact hd1
    by_cases he : d2.isEmpty = true
    · simp only [he, if_true] at h
      exact key [] r2 noNL_nil h
    · simp only [he] at h
      have b3 := xmore_fst_mem r2
      generalize xmore r2 = p3 at b3 h
      obtain ⟨d3, r3⟩ := p3
      simp only at b3 h
      exact key d3 r3 (noNL_of_subset b3 hr2) h

theorem xConstraint?_singleLine (s : List Char) (x : Bool × String) (h : xConstraint? s = some x)
    (hs : NoNL s) : SingleLine x.2 := by
  rw [xConstraint?_eq] at h
  have hp : NoNL (xprefix s).2 := by
    unfold xprefix
    split
    · exact noNL_tail (noNL_tail hs)
    · exact noNL_tail (noNL_tail hs)
    · exact hs
  unfold xcore at h
  refine xcore2_singleLine _ _ x h ?_
  have hd := noNL_dropSpaces hp
  unfold vstrip
  split
  · rename_i r hr; rw [hr] at hd; exact noNL_tail hd
  · exact hd

theorem basicOp_noNL (s : List Char) (hs : NoNL s) : NoNL (basicOp s).2 := by
  unfold basicOp
  split <;> first | exact noNL_tail (noNL_tail hs) | exact noNL_tail hs | exact hs

theorem finish_take (s : List Char) (n : Nat) (rest : List Char) (x : String × Bool)
    (h : (match rest with
      | '.' :: '*' :: r => if atEnd r = true then some (String.ofList (s.take n), true) else none
      | r => if atEnd r = true then some (String.ofList (s.take n), false) else none) = some x) :
    x.1 = String.ofList (s.take n) := by
  split at h <;> split at h <;> cases h <;> rfl

theorem basicVersion?_take (s : List Char) (x : String × Bool) (h : basicVersion? s = some x) :
    ∃ n, x.1 = String.ofList (s.take n) := by
  unfold basicVersion? at h
  simp only at h
  split at h
  · rename_i y hy
    cases h
    split at hy
    · split at hy
      · rename_i z hz
        cases hy
        exact ⟨_, finish_take s _ _ _ hz⟩
      · split at hy
        · exact ⟨_, finish_take s _ _ _ hy⟩
        · cases hy
    · cases hy
  · split at h
    · exact ⟨_, finish_take s _ _ _ h⟩
    · cases h

theorem basicVersion?_singleLine (s : List Char) (t : String) (w : Bool) (h : basicVersion? s = some (t, w))
    (hs : NoNL s) : SingleLine t := by
  obtain ⟨n, hn⟩ := basicVersion?_take s (t, w) h
  simp only at hn
  rw [hn]
  exact singleLine_ofList.2 (noNL_take _ hs)

/-! ### the bounds a clause builds -/

theorem mk'_noLocal_LF (e : Nat) (r : List Nat) (pre post dev : Option Tag) : LF (Version.mk' e r pre post dev none) := by
  simp only [LF, Version.mk']
  exact toStr_noLocal_singleLine _ _ _ _ _

theorem relNext_cons (x : Nat) (r : List Nat) : ∃ y ys, relNext (x :: r) = y :: ys := by
  unfold relNext
  split
  · exact ⟨_, _, rfl⟩
  · exact ⟨_, _, rfl⟩
  · cases r with
    | nil => exact ⟨_, _, rfl⟩
    | cons a r =>
      cases r with
      | nil => exact ⟨_, _, rfl⟩
      | cons b r => exact ⟨_, _, rfl⟩
  · cases r with
    | nil => exact ⟨_, _, rfl⟩
    | cons a r =>
      cases r with
      | nil => exact ⟨_, _, rfl⟩
      | cons b r => exact ⟨_, _, rfl⟩
  · cases r with
    | nil => exact ⟨_, _, rfl⟩
    | cons a r => exact ⟨_, _, rfl⟩

/-- what the parser guarantees about a version: line-free text, a release, a local label as the parser stores it -/
structure PV (v : Version) : Prop where
  lf : LF v
  rel : ∃ x r, v.release = x :: r
  loc : LocOK v.loc

theorem parse_PV (t : String) (v : Version) (h : Version.parse t = .ok v) (ht : SingleLine t) : PV v := by
  refine ⟨parse_LF t v h ht, ?_, parse_locOK t v h⟩
  have hwf := parse_wf t v h
  simp only [Version.wf, Bool.and_eq_true, Bool.not_eq_true'] at hwf
  obtain ⟨⟨⟨⟨hrel, _⟩, _⟩, _⟩, _⟩ := hwf
  cases hr : v.release with
  | nil => rw [hr] at hrel; simp at hrel
  | cons x r => exact ⟨x, r, rfl⟩

theorem nextStable_LF (v : Version) (h : PV v) : LF v.nextStable := by
  obtain ⟨x, r, hr⟩ := h.rel
  simp only [LF, Version.nextStable, Version.mk', hr]
  split
  · obtain ⟨y, ys, hy⟩ := relNext_cons x r
    rw [hy]
    exact toStr_singleLine _ _ _ _ _ _ _ h.loc
  · exact toStr_singleLine _ _ _ _ _ _ _ h.loc

theorem xnext_LF (v : Version) (h : PV v) :
    LF (if v.isDevrelease then v.nextDevrelease
      else if v.isPostrelease then v.nextPostrelease
      else if v.isStable then v.nextStable
      else v.nextPrerelease) := by
  split
  · exact mk'_noLocal_LF _ _ _ _ _
  · split
    · exact mk'_noLocal_LF _ _ _ _ _
    · split
      · exact nextStable_LF v h
      · exact mk'_noLocal_LF _ _ _ _ _

theorem makeXConstraintRange_LF (v : Version) (inv m : Bool) (c : VC) (h : makeXConstraintRange v inv m = .ok c)
    (hv : PV v) : VCP LF c := by
  unfold makeXConstraintRange at h
  simp only at h
  have hnext := xnext_LF v hv
  generalize (if v.isDevrelease then v.nextDevrelease
      else if v.isPostrelease then v.nextPostrelease
      else if v.isStable then v.nextStable
      else v.nextPrerelease) = next at hnext h
  have hr : RCP LF (.rng ⟨some (if m = true then v else v.firstDevrelease),
      some (if m = true then next else if (!next.isDevrelease) = true then next.firstDevrelease else next), true, false⟩) := by
    apply rcp_rng
    · intro x hx
      cases hx
      split
      · exact hv.lf
      · exact mk'_noLocal_LF _ _ _ _ _
    · intro x hx
      cases hx
      split
      · exact hnext
      · split
        · exact mk'_noLocal_LF _ _ _ _ _
        · exact hnext
  split at h
  · simp only [VC.difference, VC.any] at h
    exact difference_P LF _ _ c h ((vcp_any LF) _ (by simp [VC.any, VC.flatten])) hr
  · cases h
    exact vcp_single LF hr

theorem rangeBranch (t : String) (f : Version → Version) (c : VC) (hf : ∀ v, LF (f v)) (ht : SingleLine t)
    (h : (do
      let v ← parseVersionText t
      pure (VC.single (RC.rng ⟨some v, some (f v), true, false⟩))) = Except.ok c) : VCP LF c := by
  simp only [parseVersionText, bind, Except.bind, pure, Except.pure] at h
  cases hp : Version.parse t with
  | error e => simp [hp] at h
  | ok v =>
    simp only [hp, Except.ok.injEq] at h
    subst h
    apply vcp_single
    apply rcp_rng
    · intro x hx; cases hx; exact parse_LF t v hp ht
    · intro x hx; cases hx; exact hf v

theorem parseSingle_LF (cs : List Char) (b : Bool) (c : VC) (h : parseSingle cs b = .ok c) (hs : NoNL cs) :
    VCP LF c := by
  unfold parseSingle at h
  simp only at h
  split at h
  · cases h; exact vcp_any LF
  · split at h
    · rename_i t heq
      refine rangeBranch t _ c ?_ ?_ h
      · intro v; split
        · exact nextMajor_text_singleLine _
        · exact nextMinor_text_singleLine _
      · split at heq
        · cases heq
        · exact versionToEnd?_singleLine _ _ heq (noNL_dropSpaces (noNL_tail hs))
        · cases heq
    · split at h
      · rename_i t heq
        refine rangeBranch t _ c ?_ ?_ h
        · intro v; split
          · exact nextMajor_text_singleLine _
          · split
            · exact nextMinor_text_singleLine _
            · exact mk'_noLocal_LF _ _ _ _ _
        · split at heq
          · exact versionToEnd?_singleLine _ _ heq (noNL_dropSpaces (noNL_tail (noNL_tail hs)))
          · cases heq
      · split at h
        · rename_i t heq
          refine rangeBranch t _ c ?_ ?_ h
          · intro v; exact nextBreaking_text_singleLine _
          · split at heq
            · exact versionToEnd?_singleLine _ _ heq (noNL_dropSpaces (noNL_tail hs))
            · cases heq
        · split at h
          · rename_i inv t heq
            have ht := xConstraint?_singleLine cs (inv, t) heq hs
            simp only [parseVersionText, bind, Except.bind] at h
            cases hp : Version.parse t with
            | error e => simp [hp] at h
            | ok v =>
              simp only [hp] at h
              exact makeXConstraintRange_LF v inv b c h (parse_PV t v hp ht)
          · have hr := noNL_dropSpaces (basicOp_noNL cs hs)
            generalize (basicOp cs).fst = op at h
            generalize dropSpaces (basicOp cs).snd = r at h hr
            split at h
            · rename_i t w hbv
              have ht0 := basicVersion?_singleLine r t w hbv hr
              have ht : SingleLine (if (t == "dev") = true then "0.0-dev" else t) := by
                split
                · decide
                · exact ht0
              generalize (if (t == "dev") = true then "0.0-dev" else t) = t' at h ht
              simp only [parseVersionText, bind, Except.bind] at h
              cases hp : Version.parse t' with
              | error e => simp [hp] at h
              | ok v =>
                simp only [hp] at h
                have hpv := parse_PV t' v hp ht
                have hmin : ∀ x, some v = some x → LF x := by intro x hx; cases hx; exact hpv.lf
                have hnone : ∀ x, (none : Option Version) = some x → LF x := by intro x hx; cases hx
                split at h
                · cases h; exact vcp_single LF (rcp_rng LF hnone hmin)
                · cases h; exact vcp_single LF (rcp_rng LF hnone hmin)
                · cases h; exact vcp_single LF (rcp_rng LF hmin hnone)
                · cases h; exact vcp_single LF (rcp_rng LF hmin hnone)
                · split at h
                  · exact makeXConstraintRange_LF v _ b c h hpv
                  · split at h
                    · cases h
                      intro m hm
                      simp only [VC.flatten, List.mem_cons, List.mem_nil_iff, or_false] at hm
                      rcases hm with rfl | rfl
                      · exact rcp_rng LF hnone hmin
                      · exact rcp_rng LF hmin hnone
                    · cases h
                      exact vcp_single LF (rcp_ver LF hpv.lf)
            · cases h

/-! ### the pieces of the splitters -/

theorem rstripSpaces_noNL {s : List Char} (h : NoNL s) : NoNL (rstripSpaces s) :=
  noNL_reverse (noNL_dropSpaces (noNL_reverse h))

theorem rstripCommas_noNL {s : List Char} (h : NoNL s) : NoNL (rstripCommas s) :=
  noNL_reverse (noNL_dropWhile _ (noNL_reverse h))

theorem strip_noNL {s : List Char} (h : NoNL s) : NoNL (strip s) :=
  rstripSpaces_noNL (noNL_dropSpaces h)

theorem orSep?_noNL (s r : List Char) (h : orSep? s = some r) (hs : NoNL s) : NoNL r := by
  unfold orSep? at h
  have hd := noNL_dropSpaces hs
  split at h
  · rename_i t ht; rw [ht] at hd; cases h; exact noNL_dropSpaces (noNL_tail (noNL_tail hd))
  · rename_i t ht; rw [ht] at hd; cases h; exact noNL_dropSpaces (noNL_tail hd)
  · cases h

theorem splitOrAux_noNL (fuel : Nat) : ∀ (s cur : List Char), NoNL s → NoNL cur →
    ∀ p ∈ splitOrAux fuel s cur, NoNL p := by
  induction fuel with
  | zero =>
    intro s cur _ hc p hp
    unfold splitOrAux at hp
    simp only [List.mem_singleton] at hp; subst hp; exact noNL_reverse hc
  | succ fuel ih =>
    intro s cur hs hc p hp
    cases s with
    | nil =>
      unfold splitOrAux at hp
      simp only [List.mem_singleton] at hp; subst hp; exact noNL_reverse hc
    | cons x xs =>
      unfold splitOrAux at hp
      simp only at hp
      split at hp
      · rename_i r hr
        rcases List.mem_cons.1 hp with rfl | hp
        · exact noNL_reverse hc
        · exact ih r [] (orSep?_noNL _ r hr hs) noNL_nil p hp
      · exact ih xs (x :: cur) (noNL_tail hs) (noNL_cons (hs x (by simp)) hc) p hp

theorem splitOr_noNL (s : List Char) (hs : NoNL s) : ∀ p ∈ splitOr s, NoNL p :=
  splitOrAux_noNL _ s [] hs noNL_nil

theorem andSepTail_go_noNL (s : List Char) (hs : NoNL s) : ∀ (fuel k : Nat) (r : List Char),
    andSepTail.go s k fuel = some r → NoNL r
  | 0, k, r, h => by simp [andSepTail.go] at h
  | fuel + 1, k, r, h => by
    unfold andSepTail.go at h
    split at h
    · split at h
      · cases h
      · exact andSepTail_go_noNL s hs fuel _ r h
    · split at h
      · cases h
      · exact andSepTail_go_noNL s hs fuel _ r h
    · split at h
      · cases h
      · exact andSepTail_go_noNL s hs fuel _ r h
    · cases h; exact noNL_drop _ hs

theorem andSepTail_noNL (s r : List Char) (h : andSepTail s = some r) (hs : NoNL s) : NoNL r := by
  unfold andSepTail at h
  split at h
  · cases h
  · exact andSepTail_go_noNL s hs _ _ r h

theorem andSep?_go_noNL (s : List Char) (p : Char) (hs : NoNL s) : ∀ (fuel j : Nat) (r : List Char),
    andSep?.go s p j fuel = some r → NoNL r
  | 0, j, r, h => by simp [andSep?.go] at h
  | fuel + 1, j, r, h => by
    unfold andSep?.go at h
    simp only at h
    split at h
    · rename_i r' hr'
      cases h
      have hd := noNL_drop j hs
      have key : ∀ (b : Bool), (if b = true then none else match s.drop j with
            | ',' :: r => andSepTail r
            | ' ' :: r => andSepTail r
            | _ => none) = some r → NoNL r := by
        intro b hb
        split at hb
        · cases hb
        · split at hb
          · rename_i t ht; rw [ht] at hd; exact andSepTail_noNL _ _ hb (noNL_tail hd)
          · rename_i t ht; rw [ht] at hd; exact andSepTail_noNL _ _ hb (noNL_tail hd)
          · cases hb
      exact key _ hr'
    · split at h
      · cases h
      · exact andSep?_go_noNL s p hs fuel _ r h

theorem andSep?_noNL (prev : Option Char) (s r : List Char) (h : andSep? prev s = some r) (hs : NoNL s) :
    NoNL r := by
  unfold andSep? at h
  split at h
  · cases h
  · split at h
    · cases h
    · exact andSep?_go_noNL s _ hs _ _ r h

theorem splitAndAux_noNL (fuel : Nat) : ∀ (prev : Option Char) (s cur : List Char), NoNL s → NoNL cur →
    ∀ p ∈ splitAndAux fuel prev s cur, NoNL p := by
  induction fuel with
  | zero =>
    intro prev s cur _ hc p hp
    unfold splitAndAux at hp
    simp only [List.mem_singleton] at hp; subst hp; exact noNL_reverse hc
  | succ fuel ih =>
    intro prev s cur hs hc p hp
    cases s with
    | nil =>
      unfold splitAndAux at hp
      simp only [List.mem_singleton] at hp; subst hp; exact noNL_reverse hc
    | cons x xs =>
      unfold splitAndAux at hp
      simp only at hp
      split at hp
      · rename_i r hr
        rcases List.mem_cons.1 hp with rfl | hp
        · exact noNL_reverse hc
        · exact ih _ r [] (andSep?_noNL _ _ r hr hs) noNL_nil p hp
      · exact ih _ xs (x :: cur) (noNL_tail hs) (noNL_cons (hs x (by simp)) hc) p hp

theorem splitAnd_noNL (s : List Char) (hs : NoNL s) : ∀ p ∈ splitAnd s, NoNL p :=
  splitAndAux_noNL _ none s [] hs noNL_nil

/-! ### the bounds of an intersection: bounds of the operands, or the next patch release of one of them -/

section Inter
variable (P : Version → Prop) (hP : ∀ v : Version, P v.stable.nextPatch)
include hP

omit hP in
theorem rngIntersectRng_P (a b : VRange) (c : VC) (h : RC.rngIntersectRng a b = .ok c)
    (ha : RCP P (.rng a)) (hb : RCP P (.rng b)) : VCP P c := by
  rw [rcp_iff] at ha hb
  simp only [RC.min, RC.max] at ha hb
  unfold RC.rngIntersectRng at h
  simp only at h
  split at h
  · cases h; exact vcp_empty P
  · rename_i imn iimn hlo
    have himn : ∀ m, imn = some m → P m := by
      split at hlo <;> split at hlo
      · cases hlo
      · cases hlo; exact hb.1
      · cases hlo
      · cases hlo; exact ha.1
    have himx : ∀ m, (if a.allowsHigher b = true then (b.max, b.imax) else (a.max, a.imax)).fst = some m → P m := by
      split
      · exact hb.2
      · exact ha.2
    generalize (if a.allowsHigher b = true then (b.max, b.imax) else (a.max, a.imax)) = hi at h himx
    split at h
    · cases h; exact vcp_any P
    · split at h
      · split at h
        · split at h
          · cases h
            exact vcp_single P (rcp_ver P (himn _ rfl))
          · cases h
        · cases h
      · cases h
        exact vcp_single P (rcp_rng P himn himx)

theorem rngIntersectVer_P (r : VRange) (v : Version) (hr : RCP P (.rng r)) (hv : P v) :
    VCP P (RC.rngIntersectVer r v) := by
  rw [rcp_iff] at hr
  simp only [RC.min, RC.max] at hr
  unfold RC.rngIntersectVer
  split
  · exact vcp_single P (rcp_ver P hv)
  · split
    · rename_i m hm
      split
      · apply vcp_single
        apply rcp_rng
        · intro x hx; cases hx; exact hr.1 m hm
        · intro x hx; cases hx; exact hP v
      · exact vcp_empty P
    · exact vcp_empty P

theorem rcIntersect_P (a b : RC) (c : VC) (h : RC.intersect a b = .ok c) (ha : RCP P a) (hb : RCP P b) :
    VCP P c := by
  cases a with
  | ver x =>
    have hx : P x := ha x (by simp [RC.bounds_ver])
    cases b with
    | ver y =>
      have hy : P y := hb y (by simp [RC.bounds_ver])
      simp only [RC.intersect, Except.ok.injEq] at h
      subst h
      unfold RC.verIntersectVer
      split
      · exact vcp_single P hb
      · split
        · exact vcp_single P ha
        · exact vcp_empty P
    | rng r =>
      simp only [RC.intersect, Except.ok.injEq] at h
      subst h
      exact rngIntersectVer_P P hP r x hb hx
  | rng r =>
    cases b with
    | ver y =>
      have hy : P y := hb y (by simp [RC.bounds_ver])
      simp only [RC.intersect, Except.ok.injEq] at h
      subst h
      exact rngIntersectVer_P P hP r y ha hy
    | rng t =>
      simp only [RC.intersect] at h
      exact rngIntersectRng_P P r t c h ha hb

theorem unionIntersectLoop_P : ∀ (fuel : Nat) (ours theirs : List RC) (acc res : List VC),
    VC.unionIntersectLoop fuel ours theirs acc = .ok res → (∀ c ∈ ours, RCP P c) → (∀ c ∈ theirs, RCP P c) →
    (∀ x ∈ acc, VCP P x) → ∀ x ∈ res, VCP P x
  | 0, ours, theirs, acc, res, h, _, _, _ => by simp [VC.unionIntersectLoop] at h
  | fuel + 1, ours, theirs, acc, res, h, ho, ht, hacc => by
    unfold VC.unionIntersectLoop at h
    split at h
    · rename_i o os t ts
      simp only [bind, Except.bind] at h
      cases hi : RC.intersect o t with
      | error e => simp [hi] at h
      | ok i =>
        simp only [hi] at h
        have hiP := rcIntersect_P P hP o t i hi (ho o (by simp)) (ht t (by simp))
        have hacc' : ∀ x ∈ (if i.isEmpty = true then acc else acc ++ [i]), VCP P x := by
          intro x hx
          split at hx
          · exact hacc x hx
          · rcases List.mem_append.1 hx with hx | hx
            · exact hacc x hx
            · simp only [List.mem_singleton] at hx; subst hx; exact hiP
        split at h
        · exact unionIntersectLoop_P fuel os (t :: ts) _ res h (fun c hc => ho c (by simp [hc])) ht hacc'
        · exact unionIntersectLoop_P fuel (o :: os) ts _ res h ho (fun c hc => ht c (by simp [hc])) hacc'
    · cases h; exact hacc

omit hP in
theorem unionOf_P (cs : List VC) (res : VC) (h : VC.unionOf cs = .ok res) (hcs : ∀ x ∈ cs, VCP P x) :
    VCP P res := by
  unfold VC.unionOf at h
  refine unionOfFlat_P P _ res h ?_
  intro c hc
  obtain ⟨x, hx, hcx⟩ := List.mem_flatMap.1 hc
  exact hcs x hx c hcx

theorem vcIntersect_P (a b c : VC) (h : VC.intersect a b = .ok c) (ha : VCP P a) (hb : VCP P b) : VCP P c := by
  cases a with
  | empty => simp only [VC.intersect] at h; cases h; exact vcp_empty P
  | single x =>
    have hx : RCP P x := ha x (by simp [VC.flatten])
    cases b with
    | empty => simp only [VC.intersect] at h; cases h; exact vcp_empty P
    | single y =>
      simp only [VC.intersect] at h
      exact rcIntersect_P P hP x y c h hx (hb y (by simp [VC.flatten]))
    | union rs =>
      simp only [VC.intersect, bind, Except.bind] at h
      cases hl : VC.unionIntersectLoop (rs.length + 2) rs [x] [] with
      | error e => simp [hl] at h
      | ok parts =>
        simp only [hl] at h
        refine unionOf_P P parts c h ?_
        exact unionIntersectLoop_P P hP _ rs [x] [] parts hl (fun r hr => hb r (by simpa [VC.flatten] using hr))
          (fun r hr => by simp only [List.mem_singleton] at hr; subst hr; exact hx) (by simp)
  | union rs =>
    simp only [VC.intersect, bind, Except.bind] at h
    cases hl : VC.unionIntersectLoop (rs.length + b.flatten.length + 1) rs b.flatten [] with
    | error e => simp [hl] at h
    | ok parts =>
      simp only [hl] at h
      refine unionOf_P P parts c h ?_
      exact unionIntersectLoop_P P hP _ rs b.flatten [] parts hl (fun r hr => ha r (by simpa [VC.flatten] using hr))
        hb (by simp)

end Inter

/-! ### `,` and `||` -/

theorem LF_nextPatch (v : Version) : LF v.stable.nextPatch := nextPatch_text_singleLine _

theorem mapM_ok_mem' {α β : Type} (f : α → PyM β) : ∀ (l : List α) (ys : List β), l.mapM f = .ok ys →
    ∀ y ∈ ys, ∃ x ∈ l, f x = .ok y
  | [], ys, h, y, hy => by simp [pure, Except.pure] at h; rw [h] at hy; simp at hy
  | x :: xs, ys, h, y, hy => by
    simp only [List.mapM_cons, bind, Except.bind] at h
    cases hx : f x with
    | error e => simp [hx] at h
    | ok b =>
      simp only [hx] at h
      cases hr : xs.mapM f with
      | error e => simp [hr] at h
      | ok bs =>
        simp only [hr, pure, Except.pure, Except.ok.injEq] at h
        rw [← h] at hy
        simp only [List.mem_cons] at hy
        rcases hy with rfl | hy
        · exact ⟨x, by simp, hx⟩
        · obtain ⟨z, hz, hfz⟩ := mapM_ok_mem' f xs bs hr y hy
          exact ⟨z, by simp [hz], hfz⟩

theorem foldlM_intersect_LF : ∀ (l : List VC) (c res : VC), l.foldlM (fun acc n => VC.intersect acc n) c = .ok res →
    VCP LF c → (∀ x ∈ l, VCP LF x) → VCP LF res
  | [], c, res, h, hc, _ => by simp [pure, Except.pure] at h; rw [← h]; exact hc
  | x :: xs, c, res, h, hc, hl => by
    simp only [List.foldlM_cons, bind, Except.bind] at h
    cases hi : VC.intersect c x with
    | error e => simp [hi] at h
    | ok i =>
      simp only [hi] at h
      exact foldlM_intersect_LF xs i res h (vcIntersect_P LF LF_nextPatch c x i hi hc (hl x (by simp)))
        (fun y hy => hl y (by simp [hy]))

theorem parseGroup_LF (g : List Char) (b : Bool) (c : VC) (h : parseGroup g b = .ok c) (hg : NoNL g) :
    VCP LF c := by
  simp only [parseGroup, bind, Except.bind] at h
  cases hm : (splitAnd (rstripSpaces (rstripCommas g))).mapM (fun p => parseSingle p b) with
  | error e => simp [hm] at h
  | ok objs =>
    simp only [hm] at h
    have hall : ∀ x ∈ objs, VCP LF x := by
      intro x hx
      obtain ⟨p, hp, hpx⟩ := mapM_ok_mem' _ _ objs hm x hx
      exact parseSingle_LF p b x hpx (splitAnd_noNL _ (rstripSpaces_noNL (rstripCommas_noNL hg)) p hp)
    cases objs with
    | nil => simp at h
    | cons c0 rest =>
      simp only at h
      exact foldlM_intersect_LF rest c0 c h (hall c0 (by simp)) (fun x hx => hall x (by simp [hx]))

theorem parseConstraintAux_LF (s : String) (b : Bool) (c : VC) (h : parseConstraintAux s b = .ok c)
    (hs : SingleLine s) : VCP LF c := by
  unfold parseConstraintAux at h
  split at h
  · cases h; exact vcp_any LF
  · simp only [bind, Except.bind] at h
    cases hm : (splitOr (strip s.toList)).mapM (fun g => parseGroup g b) with
    | error e => simp [hm] at h
    | ok groups =>
      simp only [hm] at h
      have hall : ∀ x ∈ groups, VCP LF x := by
        intro x hx
        obtain ⟨g, hg, hgx⟩ := mapM_ok_mem' _ _ groups hm x hx
        exact parseGroup_LF g b x hgx (splitOr_noNL _ (strip_noNL hs) g hg)
      split at h
      · simp only [pure, Except.pure, Except.ok.injEq] at h; rw [← h]; exact hall _ (by simp)
      · exact unionOf_P LF groups c h hall

end Poetry.Meta.ParseBounds

namespace Poetry.Meta
open Poetry Poetry.Marker Poetry.Version Poetry.VParser Poetry.Spec Poetry.Spec.Rfc822

/-- **the bounds of every constraint `parse_constraint` / `parse_marker_version_constraint` returns from a text
without CR / LF carry texts without CR / LF** -/
theorem parseConstraintAux_boundsLineFree (s : String) (isMarker : Bool) (c : VC) (hs : SingleLine s)
    (h : parseConstraintAux s isMarker = .ok c) : BoundsLineFree c :=
  (vcp_iff ParseBounds.LF c).1 (ParseBounds.parseConstraintAux_LF s isMarker c h hs)

theorem parseConstraint_boundsLineFree (s : String) (c : VC) (hs : SingleLine s)
    (h : VParser.parseConstraint s = .ok c) : BoundsLineFree c :=
  parseConstraintAux_boundsLineFree s false c hs h

theorem parseMarkerVersionConstraint_boundsLineFree (s : String) (c : VC) (hs : SingleLine s)
    (h : VParser.parseMarkerVersionConstraint s = .ok c) : BoundsLineFree c :=
  parseConstraintAux_boundsLineFree s true c hs h

/-- one clause: `parse_single_constraint` -/
theorem parseSingle_boundsLineFree (cs : List Char) (isMarker : Bool) (c : VC) (hs : NoNL cs)
    (h : VParser.parseSingle cs isMarker = .ok c) : BoundsLineFree c :=
  (vcp_iff ParseBounds.LF c).1 (ParseBounds.parseSingle_LF cs isMarker c h hs)

/-- hence `str(parse_constraint(s))` is one line -/
theorem parseConstraint_toStr_singleLine (s : String) (c : VC) (t : String) (hs : SingleLine s)
    (h : VParser.parseConstraint s = .ok c) (ht : c.toStr = .ok t) : SingleLine t :=
  VC.toStr_singleLine c t ht (parseConstraint_boundsLineFree s c hs h)

end Poetry.Meta

section AxiomCheck
open Poetry.Meta
end AxiomCheck
