/-
Marker-text facts for the Python range ↔ marker conversions (helper lemmas for C11): the marker grammar
recogniser on the texts `create_nested_marker` prints, the reference evaluation of one python item, and
release comparison as arithmetic on padded triples.
-/
import PoetryVerif.Proofs.PyConvText
import PoetryVerif.Proofs.VersionOrder
import PoetryVerif.Proofs.VRangeBump
set_option linter.unusedSimpArgs false
set_option linter.unusedVariables false

namespace Poetry
open Poetry.Marker

theorem plain_toNat {c : Char} (h : plainChar c = true) : (48 ≤ c.toNat ∧ c.toNat ≤ 57) ∨ c = '.' := by
  simp only [plainChar, Bool.or_eq_true, beq_iff_eq] at h
  rcases h with h | h
  · left
    rw [isDigit_iff] at h
    simp only [Char.isDigit, Bool.and_eq_true, decide_eq_true_eq, ge_iff_le] at h
    exact ⟨UInt32.le_iff_toNat_le.1 h.1, UInt32.le_iff_toNat_le.1 h.2⟩
  · right; exact h

theorem plain_ne {c d : Char} (h : plainChar c = true) (hd : d.toNat < 46 ∨ d.toNat = 47 ∨ 57 < d.toNat) : c ≠ d := by
  intro e; subst e
  rcases plain_toNat h with h | h
  · omega
  · subst h; revert hd; decide

/-- no quote, backslash or newline: the characters a quoted marker value may consist of without escapes -/
def QFree (val : List Char) : Prop := ∀ c ∈ val, c ≠ '\n' ∧ c ≠ '"' ∧ c ≠ '\\'

theorem escapedQuoted_plain (l rest : List Char) (h : QFree l) :
    escapedQuoted false (l ++ '"' :: rest) = some (l, rest) := by
  induction l with
  | nil => simp [escapedQuoted]
  | cons c cs ih =>
    have hc := h c (by simp)
    have h1 : c ≠ '\n' := hc.1
    have h2 : c ≠ '"' := hc.2.1
    have h3 : c ≠ '\\' := hc.2.2
    have := ih (fun d hd => h d (by simp [hd]))
    simp only [List.cons_append]
    rw [escapedQuoted]
    · simp [this]
    all_goals simp_all

theorem names_eq : Marker.names = ["platform_python_implementation", "platform.python_implementation", "implementation_version", "python_implementation", "implementation_name", "python_full_version", "platform_release", "platform_version", "platform_machine", "platform.version", "platform.machine", "platform_system", "python_version", "sys_platform", "sys.platform", "os_name", "os.name", "extra"] := by decide

theorem ops_eq : Marker.ops = ["not in", "===", "==", ">=", "<=", "!=", "~=", "in", ">", "<"] := by decide
theorem boolOps_eq : Marker.boolOps = ["and", "or"] := by decide

theorem parseItem_leaf (n op : String) (hn : n = "python_version" ∨ n = "python_full_version")
    (hop : op = ">=" ∨ op = ">" ∨ op = "<=" ∨ op = "<" ∨ op = "==") (val rest : List Char)
    (hv : QFree val) :
    parseItem (n.toList ++ ' ' :: (op.toList ++ ' ' :: '"' :: (val ++ '"' :: rest))) =
      some (.item n op (String.ofList val) false, rest) := by
  have hq := escapedQuoted_plain val rest hv
  rcases hn with rfl | rfl <;> rcases hop with rfl | rfl | rfl | rfl | rfl <;>
    simp [parseItem, markerValue, names_eq, ops_eq, matchWord, stripPrefix?, skipWs, hq]

open Poetry.Spec Poetry.Spec.Pep508 Poetry.Version

def opTest (op : String) (c : Ordering) : Bool :=
  match op with
  | "==" => c == .eq
  | "<" => c == .lt
  | "<=" => c != .gt
  | ">" => c == .gt
  | ">=" => c != .lt
  | _ => false

theorem isFinal_finalV (r : List Nat) (h : r ≠ []) : Pep508.isFinal (finalV r) = true := by
  cases r with
  | nil => exact absurd rfl h
  | cons a r => simp [Pep508.isFinal, finalV]

theorem cmpRef_finalV (a b : List Nat) :
    cmpRef (finalV a) (finalV b) = compare (stripZeros a) (stripZeros b) := by
  simp [cmpRef, finalV, refPre, refPost, refDev, refLocal, Ext.cmp, stripZeros_eq_ref]

theorem parseFinal_relText (a : Nat) (r : List Nat) : parseFinal (relText (a :: r)) = some (finalV (a :: r)) := by
  simp [parseFinal, parse_relText, isFinal_finalV]

theorem evalItem_py (E : Env) (n op : String) (lit cand : List Nat)
    (hn : n = "python_version" ∨ n = "python_full_version")
    (hop : op = ">=" ∨ op = ">" ∨ op = "<=" ∨ op = "<" ∨ op = "==")
    (hlit : lit ≠ []) (hcand : cand ≠ []) (hE : E.get? n = some (relText cand)) :
    evalItem n op (relText lit) false E = some (opTest op (compare (stripZeros cand) (stripZeros lit))) := by
  obtain ⟨a, r, rfl⟩ : ∃ a r, lit = a :: r := by cases lit <;> simp_all
  obtain ⟨b, q, rfl⟩ : ∃ a r, cand = a :: r := by cases cand <;> simp_all
  have hk : canonVar n = n := by rcases hn with rfl | rfl <;> decide
  have hx : (n == "extra") = false := by rcases hn with rfl | rfl <;> decide
  have hv : versionVars.contains n = true := by rcases hn with rfl | rfl <;> decide
  unfold evalItem
  simp only [hk, hx, hE, hv, Bool.false_eq_true, if_false, if_true]
  rcases hop with rfl | rfl | rfl | rfl | rfl <;>
    simp [parseFinal_relText, versionOp, isFinal_finalV, cmpRef_finalV, opTest]

/-! ### release comparison on padded triples -/

attribute [local instance] lexOrd

def lex3 (x y z a b c : Nat) : Ordering := (compare x a).then ((compare y b).then (compare z c))

theorem sz_cmp_gt_head {x y : Nat} (h : y < x) (xs ys : List Nat) :
    compare (stripZeros (x :: xs)) (stripZeros (y :: ys)) = .gt := by
  have := sz_cmp_lt_head h ys xs
  rw [Std.OrientedCmp.gt_iff_lt]
  exact this

theorem sz_cmp_step (x a : Nat) (xs ys : List Nat) :
    compare (stripZeros (x :: xs)) (stripZeros (a :: ys)) =
      (compare x a).then (compare (stripZeros xs) (stripZeros ys)) := by
  rcases Nat.lt_trichotomy x a with h | h | h
  · rw [sz_cmp_lt_head h, Nat.compare_eq_lt.2 h]; rfl
  · subst h; rw [sz_cmp_cons]; simp
  · rw [sz_cmp_gt_head h, Nat.compare_eq_gt.2 h]; rfl

theorem sz3 (x y z a b c : Nat) :
    compare (stripZeros [x, y, z]) (stripZeros [a, b, c]) = lex3 x y z a b c := by
  rw [sz_cmp_step, sz_cmp_step, sz_cmp_step]
  simp [lex3, stripZeros]

theorem sz_pad1 (x : Nat) : stripZeros [x] = stripZeros [x, 0, 0] := by
  simp [stripZeros]
theorem sz_pad2 (x y : Nat) : stripZeros [x, y] = stripZeros [x, y, 0] := by
  simp [stripZeros]

theorem lex3_lt (x y z a b c : Nat) :
    lex3 x y z a b c = .lt ↔ x < a ∨ (x = a ∧ (y < b ∨ (y = b ∧ z < c))) := by
  unfold lex3
  rcases Nat.lt_trichotomy x a with h | h | h
  · simp [Nat.compare_eq_lt.2 h, h]
  · subst h
    rcases Nat.lt_trichotomy y b with h | h | h
    · simp [Nat.compare_eq_lt.2 h, h]
    · subst h; simp [Nat.compare_eq_lt]
    · simp [Nat.compare_eq_gt.2 h]; omega
  · simp [Nat.compare_eq_gt.2 h]; omega

theorem lex3_gt (x y z a b c : Nat) :
    lex3 x y z a b c = .gt ↔ a < x ∨ (x = a ∧ (b < y ∨ (y = b ∧ c < z))) := by
  unfold lex3
  rcases Nat.lt_trichotomy x a with h | h | h
  · simp [Nat.compare_eq_lt.2 h]; omega
  · subst h
    rcases Nat.lt_trichotomy y b with h | h | h
    · simp [Nat.compare_eq_lt.2 h]; omega
    · subst h; simp [Nat.compare_eq_gt]
    · simp [Nat.compare_eq_gt.2 h, h]
  · simp [Nat.compare_eq_gt.2 h, h]

theorem lex3_eq (x y z a b c : Nat) :
    lex3 x y z a b c = .eq ↔ x = a ∧ y = b ∧ z = c := by
  unfold lex3
  simp [Ordering.then_eq_eq, Nat.compare_eq_eq]

/-! ### conjunctions and unions of python items -/

def PyName (n : String) : Prop := n = "python_version" ∨ n = "python_full_version"
def CmpOp (op : String) : Prop := op = ">=" ∨ op = ">" ∨ op = "<=" ∨ op = "<" ∨ op = "=="
def Plain (val : List Char) : Prop := ∀ c ∈ val, plainChar c = true

theorem plain_qfree {val : List Char} (h : Plain val) : QFree val :=
  fun c hc => ⟨plain_ne (h c hc) (by decide), plain_ne (h c hc) (by decide), plain_ne (h c hc) (by decide)⟩

def leafChars (n op : String) (val : List Char) : List Char :=
  n.toList ++ ' ' :: (op.toList ++ ' ' :: '"' :: (val ++ ['"']))

theorem leafText_toList (n op v : String) (hv : ∀ c ∈ v.toList, c ≠ '"' ∧ c ≠ '\\') :
    (leafText n op v false).toList = leafChars n op v.toList := by
  simp [leafText, leafChars, String.toList_append, quoteOf_dq hv]

/-- what may follow a conjunction: the end of the text or a closing parenthesis -/
def EndOk (rest : List Char) : Prop := rest = [] ∨ ∃ r, rest = ')' :: r

theorem noBool_of_endOk {rest : List Char} (h : EndOk rest) : matchWord boolOps (skipWs rest) = none := by
  rcases h with rfl | ⟨r, rfl⟩ <;> simp [boolOps_eq, matchWord, skipWs, stripPrefix?]

theorem parseAtom_leaf (f : Nat) (n op : String) (val rest : List Char) (hn : PyName n) (hop : CmpOp op)
    (hv : QFree val) :
    parseAtom (f + 1) (leafChars n op val ++ rest) = some (.item n op (String.ofList val) false, rest) ∧
    parseAtom (f + 1) (' ' :: (leafChars n op val ++ rest)) = some (.item n op (String.ofList val) false, rest) := by
  have hi := parseItem_leaf n op hn hop val rest hv
  have e : leafChars n op val ++ rest = n.toList ++ ' ' :: (op.toList ++ ' ' :: '"' :: (val ++ '"' :: rest)) := by
    simp [leafChars]
  rw [e]
  rcases hn with rfl | rfl <;> (constructor <;> (unfold parseAtom; simp [skipWs]; simpa using hi))

theorem parseSyn_one (f : Nat) (n op : String) (val rest : List Char) (hn : PyName n) (hop : CmpOp op)
    (hv : QFree val) (hr : EndOk rest) :
    parseSyn (f + 2) (leafChars n op val ++ rest) = some (.one (.item n op (String.ofList val) false), rest) ∧
    parseSyn (f + 2) (' ' :: (leafChars n op val ++ rest)) = some (.one (.item n op (String.ofList val) false), rest) := by
  have h := parseAtom_leaf f n op val rest hn hop hv
  constructor
  · rw [parseSyn]; simp [h.1, noBool_of_endOk hr]
  · rw [parseSyn]; simp [h.2, noBool_of_endOk hr]

theorem parseSyn_two (f : Nat) (n op : String) (val : List Char) (n' op' : String) (val' rest : List Char)
    (hn : PyName n) (hop : CmpOp op) (hv : QFree val) (hn' : PyName n') (hop' : CmpOp op') (hv' : QFree val')
    (hr : EndOk rest) :
    parseSyn (f + 3) (leafChars n op val ++ (" and ".toList ++ (leafChars n' op' val' ++ rest))) =
      some (.more (.item n op (String.ofList val) false) false (.one (.item n' op' (String.ofList val') false)), rest) := by
  have h := (parseAtom_leaf (f + 1) n op val (" and ".toList ++ (leafChars n' op' val' ++ rest)) hn hop hv).1
  have h2 := (parseSyn_one f n' op' val' rest hn' hop' hv' hr).2
  rw [parseSyn]
  simp only [h]
  simp [boolOps_eq, matchWord, skipWs, stripPrefix?, h2]

/-- `cs` is read as the conjunction `s`, whatever follows it inside or after a group -/
def ConjParse (cs : List Char) (s : Syn) : Prop :=
  ∀ f rest, EndOk rest → parseSyn (f + 3) (cs ++ rest) = some (s, rest)

def unionChars : List (List Char) → List Char
  | [] => []
  | [c] => '(' :: (c ++ [')'])
  | c :: cs => '(' :: (c ++ ')' :: (" or ".toList ++ unionChars cs))

def unionSyn : List Syn → Syn
  | [] => .one (.item "" "" "" false)
  | [s] => .one (.paren s)
  | s :: ss => .more (.paren s) true (unionSyn ss)

theorem parseAtom_paren (f : Nat) (c : List Char) (s : Syn) (rest : List Char) (h : ConjParse c s) :
    parseAtom (f + 4) ('(' :: (c ++ ')' :: rest)) = some (.paren s, rest) ∧
    parseAtom (f + 4) (' ' :: '(' :: (c ++ ')' :: rest)) = some (.paren s, rest) := by
  have hp := h f (')' :: rest) (Or.inr ⟨rest, rfl⟩)
  constructor <;> (rw [parseAtom]; simp [skipWs, hp])

theorem parseSyn_union (ms : List (List Char × Syn)) (hne : ms ≠ []) (hm : ∀ p ∈ ms, ConjParse p.1 p.2)
    (f : Nat) (rest : List Char) (hr : EndOk rest) :
    parseSyn (f + ms.length + 4) (unionChars (ms.map (·.1)) ++ rest) = some (unionSyn (ms.map (·.2)), rest) ∧
    parseSyn (f + ms.length + 4) (' ' :: (unionChars (ms.map (·.1)) ++ rest)) =
      some (unionSyn (ms.map (·.2)), rest) := by
  induction ms generalizing f with
  | nil => exact absurd rfl hne
  | cons p ps ih =>
    obtain ⟨c, s⟩ := p
    have hc : ConjParse c s := hm (c, s) (by simp)
    cases ps with
    | nil =>
      have ha := parseAtom_paren f c s rest hc
      simp only [List.map_cons, List.map_nil, unionChars, unionSyn, List.length_cons, List.length_nil,
        List.cons_append, List.append_assoc, List.nil_append]
      constructor
      · rw [show f + (0 + 1) + 4 = (f + 4) + 1 by omega, parseSyn]
        simp only [List.singleton_append, ha.1, noBool_of_endOk hr]
      · rw [show f + (0 + 1) + 4 = (f + 4) + 1 by omega, parseSyn]
        simp only [List.singleton_append, ha.2, noBool_of_endOk hr]
    | cons q qs =>
      have ih' := (ih (by simp) (fun p hp => hm p (by simp [hp])) f).2
      simp only [List.map_cons, unionChars, unionSyn, List.length_cons, List.cons_append,
        List.append_assoc] at ih' ⊢
      have ha := parseAtom_paren (f + qs.length + 1) c s
        (" or ".toList ++ (unionChars (q.1 :: List.map (·.1) qs) ++ rest)) hc
      have e1 : f + (qs.length + 1 + 1) + 4 = (f + qs.length + 1 + 4) + 1 := by omega
      have e2 : f + (qs.length + 1) + 4 = f + qs.length + 5 := by omega
      rw [e2] at ih'
      constructor
      · rw [e1, parseSyn]
        simp only [ha.1]
        simp [boolOps_eq, matchWord, skipWs, stripPrefix?]
        rw [ih']
      · rw [e1, parseSyn]
        simp only [ha.2]
        simp [boolOps_eq, matchWord, skipWs, stripPrefix?]
        rw [ih']

end Poetry
