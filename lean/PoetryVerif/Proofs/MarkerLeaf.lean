/-
Leaf construction and evaluation (helper lemmas for C06): what `SingleMarker.__init__` builds for the
operator × variable kind × literal shapes of the property's domain, proved for all strings / numbers by
symbolic evaluation of the hand matchers and of the constraint parsers.
-/
import PoetryVerif.Proofs.MarkerEval
import PoetryVerif.Proofs.Generic

set_option linter.unusedSimpArgs false
set_option linter.unusedVariables false

namespace Poetry.Marker
open Poetry
open Poetry.Generic (GC GS)

/-! ### characters -/

theorem char_le_iff (a b : Char) : a ≤ b ↔ a.toNat ≤ b.toNat := by
  rw [Char.le_def, UInt32.le_iff_toNat_le]; rfl

theorem char_eq_of_toNat (c d : Char) (h : c.toNat = d.toNat) : c = d :=
  Char.ext (UInt32.toNat_inj.1 h)

theorem digit_range (c : Char) (h : isDigit c = true) : 48 ≤ c.toNat ∧ c.toNat ≤ 57 := by
  simp only [isDigit, Bool.and_eq_true, decide_eq_true_eq, char_le_iff] at h
  exact h

theorem lowerChar_of_not_upper (c : Char) (h : ¬ (65 ≤ c.toNat ∧ c.toNat ≤ 90)) : lowerChar c = c := by
  unfold lowerChar
  split
  · rename_i h2
    simp only [Bool.and_eq_true, decide_eq_true_eq, char_le_iff] at h2
    exact absurd h2 h
  · rfl

theorem digit_lower (c : Char) (h : isDigit c = true) : lowerChar c = c :=
  lowerChar_of_not_upper c (by have := digit_range c h; omega)

theorem digit_not_space (c : Char) (h : isDigit c = true) : isSpace c = false := by
  have := digit_range c h
  simp [isSpace]
  omega

theorem digit_ne (c d : Char) (h : isDigit c = true) (hd : ¬ (48 ≤ d.toNat ∧ d.toNat ≤ 57)) : c ≠ d := by
  intro e; subst e; exact hd (digit_range c h)

theorem toNat_ofNat_small (n : Nat) (h : n < 55296) : (Char.ofNat n).toNat = n := by
  have hv : n.isValidChar := Or.inl h
  unfold Char.ofNat
  rw [dif_pos hv]
  unfold Char.ofNatAux Char.toNat
  show (UInt32.ofNatLT n _).toNat = n
  simp

/-- lower-casing never produces `=` from another character -/
theorem lowerChar_ne_eqsign (c : Char) (h : c ≠ '=') : lowerChar c ≠ '=' := by
  by_cases hu : 65 ≤ c.toNat ∧ c.toNat ≤ 90
  · unfold lowerChar
    have : ('A' ≤ c && c ≤ 'Z') = true := by
      simp only [Bool.and_eq_true, decide_eq_true_eq, char_le_iff]; exact hu
    rw [if_pos this]
    intro e
    have h2 := congrArg Char.toNat e
    rw [toNat_ofNat_small _ (by omega)] at h2
    have : '='.toNat = 61 := rfl
    omega
  · rw [lowerChar_of_not_upper c hu]; exact h

/-! ### lists without white space -/

theorem dropSpaces_of_head (c : Char) (cs : List Char) (h : isSpace c = false) :
    dropSpaces (c :: cs) = c :: cs := by simp [dropSpaces, h]

theorem dropSpaces_noSpace (l : List Char) (h : ∀ c ∈ l, isSpace c = false) : dropSpaces l = l := by
  cases l with
  | nil => rfl
  | cons c cs => exact dropSpaces_of_head c cs (h c (by simp))

theorem gstrip_noSpace (l : List Char) (h : ∀ c ∈ l, isSpace c = false) : Generic.strip l = l := by
  unfold Generic.strip
  rw [dropSpaces_noSpace l h, dropSpaces_noSpace l.reverse (by simpa using h), List.reverse_reverse]

theorem spanNonSpace_noSpace (l : List Char) (h : ∀ c ∈ l, isSpace c = false) :
    Generic.spanNonSpace l = (l, []) := by
  induction l with
  | nil => rfl
  | cons c cs ih =>
    simp only [Generic.spanNonSpace, h c (by simp), Bool.false_eq_true, if_false,
      ih (fun d hd => h d (List.mem_cons_of_mem _ hd))]

theorem matchBasicRest_noSpace (l : List Char) (hne : l ≠ []) (h : ∀ c ∈ l, isSpace c = false) :
    Generic.matchBasicRest l = some l := by
  unfold Generic.matchBasicRest
  rw [dropSpaces_noSpace l h, spanNonSpace_noSpace l h]
  cases l with
  | nil => exact absurd rfl hne
  | cons c cs => simp [dropSpaces]

/-- `re.split` finds no separator when no position can start one -/
theorem splitBy_none (sep : List Char → Option (List Char)) (P : Char → Prop)
    (hsep : ∀ c cs, P c → sep (c :: cs) = none) :
    ∀ (n : Nat) (l acc : List Char), (∀ c ∈ l, P c) → l.length < n →
      Generic.splitBy sep n l acc = [acc.reverse ++ l] := by
  intro n
  induction n with
  | zero => intro l acc _ h; omega
  | succ n ih =>
    intro l acc hl hlen
    cases l with
    | nil => simp [Generic.splitBy]
    | cons c cs =>
      simp only [Generic.splitBy, hsep c cs (hl c (by simp))]
      rw [ih cs (c :: acc) (fun d hd => hl d (List.mem_cons_of_mem _ hd)) (by simpa using hlen)]
      simp

theorem sepOr_none (c : Char) (cs : List Char) (h : isSpace c = false ∧ c ≠ '|') :
    Generic.sepOr (c :: cs) = none := by
  unfold Generic.sepOr
  rw [dropSpaces_of_head c cs h.1]
  split
  · rename_i heq; simp at heq; exact absurd heq.1 h.2
  · rename_i heq; simp at heq; exact absurd heq.1 h.2
  · rfl

theorem sepComma_none (c : Char) (cs : List Char) (h : isSpace c = false ∧ c ≠ ',') :
    Generic.sepComma (c :: cs) = none := by
  unfold Generic.sepComma
  rw [dropSpaces_of_head c cs h.1]
  split
  · rename_i heq; simp at heq; exact absurd heq.1 h.2
  · rfl

/-- a character that cannot take part in any separator of the generic constraint grammar -/
def gPlain (c : Char) : Prop := isSpace c = false ∧ c ≠ '|' ∧ c ≠ ','

theorem reSplit_sepOr_plain (l : List Char) (h : ∀ c ∈ l, gPlain c) :
    Generic.reSplit Generic.sepOr l = [l] := by
  have := splitBy_none Generic.sepOr (fun c => isSpace c = false ∧ c ≠ '|') sepOr_none (l.length + 1) l []
    (fun c hc => ⟨(h c hc).1, (h c hc).2.1⟩) (by omega)
  simpa [Generic.reSplit] using this

theorem reSplit_sepComma_plain (l : List Char) (h : ∀ c ∈ l, gPlain c) :
    Generic.reSplit Generic.sepComma l = [l] := by
  have := splitBy_none Generic.sepComma (fun c => isSpace c = false ∧ c ≠ ',') sepComma_none (l.length + 1) l []
    (fun c hc => ⟨(h c hc).1, (h c hc).2.2⟩) (by omega)
  simpa [Generic.reSplit] using this

/-! ### the generic constraint parser on one clause -/

theorem ofList_ne_star (c : Char) (l : List Char) (h : c ≠ '*') : (String.ofList (c :: l) == "*") = false := by
  rw [beq_eq_false_iff_ne]
  intro e
  have := congrArg String.toList e
  simp at this
  exact h this.1

theorem gparseSingle_eq (x : Bool) (v : List Char) (hne : v ≠ []) (hp : ∀ c ∈ v, isSpace c = false) :
    Generic.parseSingle x ('=' :: '=' :: v) = .ok ⟨String.ofList v, .eq, x⟩ := by
  have h1 := matchBasicRest_noSpace v hne hp
  simp [Generic.parseSingle, Generic.matchStrCmp, Generic.matchBasic, h1, gstrip_noSpace v hp]
  cases x <;> rfl

theorem gparseSingle_ne (x : Bool) (v : List Char) (hne : v ≠ []) (hp : ∀ c ∈ v, isSpace c = false) :
    Generic.parseSingle x ('!' :: '=' :: v) = .ok ⟨String.ofList v, .ne, x⟩ := by
  have h1 := matchBasicRest_noSpace v hne hp
  simp [Generic.parseSingle, Generic.matchStrCmp, Generic.matchBasic, h1, gstrip_noSpace v hp]
  cases x <;> rfl

theorem gPlain_eqsign : gPlain '=' := by unfold gPlain; decide
theorem gPlain_bang : gPlain '!' := by unfold gPlain; decide

/-- the generic parser on `==v` / `!=v` for a value without white space, `|`, `,` -/
theorem gparseWith_eq (x : Bool) (v : List Char) (hne : v ≠ []) (hp : ∀ c ∈ v, gPlain c) :
    Generic.parseWith x (String.ofList ('=' :: '=' :: v)) = .ok (.atom ⟨String.ofList v, .eq, x⟩) := by
  have hall : ∀ c ∈ ('=' :: '=' :: v), gPlain c := by
    intro c hc; simp at hc; rcases hc with rfl | hc
    · exact gPlain_eqsign
    · exact hp c hc
  unfold Generic.parseWith
  rw [ofList_ne_star _ _ (by decide)]
  simp only [Bool.false_eq_true, if_false, String.toList_ofList]
  rw [gstrip_noSpace _ (fun c hc => (hall c hc).1), reSplit_sepOr_plain _ hall]
  simp only [Generic.mapE, Generic.parseGroup, reSplit_sepComma_plain _ hall,
    gparseSingle_eq x v hne (fun c hc => (hp c hc).1), Generic.foldIntersect]

theorem gparseWith_ne (x : Bool) (v : List Char) (hne : v ≠ []) (hp : ∀ c ∈ v, gPlain c) :
    Generic.parseWith x (String.ofList ('!' :: '=' :: v)) = .ok (.atom ⟨String.ofList v, .ne, x⟩) := by
  have hall : ∀ c ∈ ('!' :: '=' :: v), gPlain c := by
    intro c hc; simp at hc; rcases hc with rfl | rfl | hc
    · exact gPlain_bang
    · exact gPlain_eqsign
    · exact hp c hc
  unfold Generic.parseWith
  rw [ofList_ne_star _ _ (by decide)]
  simp only [Bool.false_eq_true, if_false, String.toList_ofList]
  rw [gstrip_noSpace _ (fun c hc => (hall c hc).1), reSplit_sepOr_plain _ hall]
  simp only [Generic.mapE, Generic.parseGroup, reSplit_sepComma_plain _ hall,
    gparseSingle_ne x v hne (fun c hc => (hp c hc).1), Generic.foldIntersect]

/-! ### the regexes of `SingleMarker.__init__` -/

theorem stripPrefixCI?_nil (s : List Char) : stripPrefixCI? [] s = some ([], s) := by
  simp [stripPrefixCI?, lowerStr]

theorem stripPrefixCI?_cons_nil (p : Char) (ps : List Char) : stripPrefixCI? (p :: ps) [] = none := by
  simp [stripPrefixCI?]

theorem stripPrefixCI?_cons (p : Char) (ps : List Char) (c : Char) (cs : List Char) :
    stripPrefixCI? (p :: ps) (c :: cs) =
      if lowerChar c = lowerChar p then (stripPrefixCI? ps cs).map (fun ar => (c :: ar.1, ar.2)) else none := by
  unfold stripPrefixCI?
  by_cases h1 : lowerChar c = lowerChar p
  · by_cases h2 : (ps.length ≤ cs.length && lowerStr (cs.take ps.length) == lowerStr ps) = true
    · have h2' := h2
      simp only [Bool.and_eq_true, decide_eq_true_eq, beq_iff_eq] at h2'
      simp [h1, h2, lowerStr, h2'.1]
    · have h2' := h2
      simp only [Bool.and_eq_true, decide_eq_true_eq, beq_iff_eq, not_and] at h2'
      simp [h1, h2, lowerStr]
  · simp [h1, lowerStr]


/-- no white space at the head, no newline anywhere: `\s*(?P<value>.+)$` takes everything -/
def valueOk (v : List Char) : Prop := v ≠ [] ∧ (∀ c ∈ v, isSpace c = false)

theorem notSpace_ne_newline (c : Char) (h : isSpace c = false) : c ≠ '\n' := by
  intro e; subst e; revert h; decide

theorem takeWhile_all {α : Type} (p : α → Bool) (l : List α) (h : ∀ a ∈ l, p a = true) : l.takeWhile p = l := by
  induction l with
  | nil => rfl
  | cons a as ih => simp [List.takeWhile, h a (by simp), ih (fun b hb => h b (List.mem_cons_of_mem _ hb))]

theorem dropWhile_all {α : Type} (p : α → Bool) (l : List α) (h : ∀ a ∈ l, p a = true) : l.dropWhile p = [] := by
  induction l with
  | nil => rfl
  | cons a as ih => simp [List.dropWhile, h a (by simp), ih (fun b hb => h b (List.mem_cons_of_mem _ hb))]

theorem dotPlusToEnd?_ok (v : List Char) (h : valueOk v) : dotPlusToEnd? v = some v := by
  have hnl : ∀ c ∈ v, (c != '\n') = true := fun c hc => by
    simpa using notSpace_ne_newline c (h.2 c hc)
  have h1 : v.takeWhile (· != '\n') = v := takeWhile_all _ v hnl
  have h2 : v.dropWhile (· != '\n') = [] := dropWhile_all _ v hnl
  unfold dotPlusToEnd?
  simp only [h1, h2]
  cases v with
  | nil => exact absurd rfl h.1
  | cons c cs => simp

theorem spacesThenValue?_ok (v : List Char) (h : valueOk v) : spacesThenValue? v = some v := by
  obtain ⟨hne, hs⟩ := h
  cases v with
  | nil => exact absurd rfl hne
  | cons c cs =>
    have hc := hs c (by simp)
    unfold spacesThenValue?
    simp only [countLeading, hc, Bool.false_eq_true, if_false, Nat.zero_add]
    simp only [spacesThenValue?.go, List.drop_zero, dotPlusToEnd?_ok (c :: cs) ⟨hne, hs⟩]

theorem lc_eq : lowerChar '=' = '=' := by decide
theorem lc_tilde : lowerChar '~' = '~' := by decide
theorem lc_bang : lowerChar '!' = '!' := by decide
theorem lc_gt : lowerChar '>' = '>' := by decide
theorem lc_lt : lowerChar '<' = '<' := by decide
theorem lc_n : lowerChar 'n' = 'n' := by decide
theorem lc_i : lowerChar 'i' = 'i' := by decide
theorem lc_o : lowerChar 'o' = 'o' := by decide
theorem lc_t : lowerChar 't' = 't' := by decide
theorem lc_sp : lowerChar ' ' = ' ' := by decide

theorem p1ops : pattern1Ops.map String.toList =
  [['~','='], ['!','='], ['>','='], ['>'], ['<','='], ['<'], ['=','=','='], ['=','='], ['='],
   ['n','o','t',' ','i','n'], ['i','n']] := by decide

theorem matchPattern1_eq (c : Char) (cs : List Char) (hc : c ≠ '=') (hv : valueOk (c :: cs)) :
    matchPattern1 ('=' :: '=' :: c :: cs) = some (some "==", String.ofList (c :: cs)) := by
  have hl := lowerChar_ne_eqsign c hc
  have hs := spacesThenValue?_ok _ hv
  simp [matchPattern1, matchPattern1.tryOps, pattern1Ops, stripPrefixCI?_cons, stripPrefixCI?_nil,
    lc_eq, lc_tilde, lc_bang, lc_gt, lc_lt, lc_n, lc_i, hl, hs]

theorem matchPattern1_ne (c : Char) (cs : List Char) (hv : valueOk (c :: cs)) :
    matchPattern1 ('!' :: '=' :: c :: cs) = some (some "!=", String.ofList (c :: cs)) := by
  have hs := spacesThenValue?_ok _ hv
  simp [matchPattern1, matchPattern1.tryOps, pattern1Ops, stripPrefixCI?_cons, stripPrefixCI?_nil,
    lc_eq, lc_tilde, lc_bang, lc_gt, lc_lt, hs]

theorem matchPattern1_ge (c : Char) (cs : List Char) (hv : valueOk (c :: cs)) :
    matchPattern1 ('>' :: '=' :: c :: cs) = some (some ">=", String.ofList (c :: cs)) := by
  have hs := spacesThenValue?_ok _ hv
  simp [matchPattern1, matchPattern1.tryOps, pattern1Ops, stripPrefixCI?_cons, stripPrefixCI?_nil,
    lc_eq, lc_tilde, lc_bang, lc_gt, lc_lt, hs]

theorem matchPattern1_le (c : Char) (cs : List Char) (hv : valueOk (c :: cs)) :
    matchPattern1 ('<' :: '=' :: c :: cs) = some (some "<=", String.ofList (c :: cs)) := by
  have hs := spacesThenValue?_ok _ hv
  simp [matchPattern1, matchPattern1.tryOps, pattern1Ops, stripPrefixCI?_cons, stripPrefixCI?_nil,
    lc_eq, lc_tilde, lc_bang, lc_gt, lc_lt, hs]

theorem matchPattern1_compat (c : Char) (cs : List Char) (hv : valueOk (c :: cs)) :
    matchPattern1 ('~' :: '=' :: c :: cs) = some (some "~=", String.ofList (c :: cs)) := by
  have hs := spacesThenValue?_ok _ hv
  simp [matchPattern1, matchPattern1.tryOps, pattern1Ops, stripPrefixCI?_cons, stripPrefixCI?_nil,
    lc_eq, lc_tilde, lc_bang, lc_gt, lc_lt, hs]

theorem matchPattern1_gt (c : Char) (cs : List Char) (hc : c ≠ '=') (hv : valueOk (c :: cs)) :
    matchPattern1 ('>' :: c :: cs) = some (some ">", String.ofList (c :: cs)) := by
  have hl := lowerChar_ne_eqsign c hc
  have hs := spacesThenValue?_ok _ hv
  simp [matchPattern1, matchPattern1.tryOps, pattern1Ops, stripPrefixCI?_cons, stripPrefixCI?_nil,
    lc_eq, lc_tilde, lc_bang, lc_gt, lc_lt, hs, hl]

theorem matchPattern1_lt (c : Char) (cs : List Char) (hc : c ≠ '=') (hv : valueOk (c :: cs)) :
    matchPattern1 ('<' :: c :: cs) = some (some "<", String.ofList (c :: cs)) := by
  have hl := lowerChar_ne_eqsign c hc
  have hs := spacesThenValue?_ok _ hv
  simp [matchPattern1, matchPattern1.tryOps, pattern1Ops, stripPrefixCI?_cons, stripPrefixCI?_nil,
    lc_eq, lc_tilde, lc_bang, lc_gt, lc_lt, hs, hl]

/-! ### string variables -/

/-- the variables compared as strings (canonical names and the aliases of `ALIASES`) -/
def stringVarNames : List String :=
  ["os_name", "sys_platform", "platform_machine", "platform_system", "platform_python_implementation",
   "implementation_name", "platform_version",
   "os.name", "sys.platform", "platform.version", "platform.machine", "platform.python_implementation",
   "python_implementation"]

theorem stringVar_facts (n : String) (h : n ∈ stringVarNames) :
    (n == "extra") = false ∧ Gen.versionLikeMarkerNames.contains n = false ∧
    Gen.pythonVersionMarkers.contains n = false ∧
    aliasName n = Spec.Pep508.canonVar n ∧ (Spec.Pep508.canonVar n == "extra") = false ∧
    Spec.Pep508.versionVars.contains (Spec.Pep508.canonVar n) = false ∧
    (aliasName n == "extra") = false ∧ aliasName n ∈ stringVarNames := by
  simp only [stringVarNames, List.mem_cons, List.mem_nil_iff, or_false] at h
  rcases h with rfl | rfl | rfl | rfl | rfl | rfl | rfl | rfl | rfl | rfl | rfl | rfl | rfl <;> decide

/-- a character of a plain literal: no white space, no quote, no list separator -/
def tokChar (c : Char) : Prop := isSpace c = false ∧ c ≠ '|' ∧ c ≠ ',' ∧ c ≠ '"' ∧ c ≠ '\''

/-- a non-empty literal of such characters -/
def PlainTok (v : String) : Prop := v.toList ≠ [] ∧ ∀ c ∈ v.toList, tokChar c

theorem PlainTok.valueOk {v : String} (h : PlainTok v) : valueOk v.toList :=
  ⟨h.1, fun c hc => (h.2 c hc).1⟩

theorem PlainTok.gPlain {v : String} (h : PlainTok v) : ∀ c ∈ v.toList, gPlain c :=
  fun c hc => ⟨(h.2 c hc).1, (h.2 c hc).2.1, (h.2 c hc).2.2.1⟩

theorem leafPrepare_string_eq (n v : String) (hn : n ∈ stringVarNames) (hv : PlainTok v)
    (h0 : v.toList.head? ≠ some '=') :
    leafPrepare n ("==" ++ v) false =
      .ok { name := aliasName n, op := "==", value := v, swapped := false, cstr := "==" ++ v, kind := .generic } := by
  obtain ⟨f1, f2, f3, _⟩ := stringVar_facts n hn
  have hvo := hv.valueOk
  cases hl : v.toList with
  | nil => exact absurd hl hv.1
  | cons c cs =>
    rw [hl] at hvo h0
    have hc : c ≠ '=' := by simpa using h0
    have hm := matchPattern1_eq c cs hc hvo
    have hvs : String.ofList (c :: cs) = v := by rw [← hl]; simp
    unfold leafPrepare
    simp only [Bool.false_eq_true, if_false, String.toList_append, hl]
    have : "==".toList = ['=', '='] := rfl
    simp only [this, List.cons_append, List.nil_append, hm, hvs, Option.getD_some, f1, f2, Bool.false_and]
    simp

theorem str_eq_of_toList {a b : String} (h : a.toList = b.toList) : a = b := by
  have := congrArg String.ofList h
  simpa using this

theorem mkSingle_string_eq (n v : String) (hn : n ∈ stringVarNames) (hv : PlainTok v)
    (h0 : v.toList.head? ≠ some '=') :
    mkSingle n ("==" ++ v) false =
      .ok ⟨aliasName n, "==", v, false, .gen (.atom ⟨v, .eq, false⟩)⟩ := by
  have hs : "==" ++ v = String.ofList ('=' :: '=' :: v.toList) := str_eq_of_toList (by simp)
  have hp := gparseWith_eq false v.toList hv.1 hv.gPlain
  rw [← hs] at hp
  simp only [String.ofList_toList] at hp
  simp only [mkSingle, leafPrepare_string_eq n v hn hv h0, bind, Except.bind, parseByKind,
    Generic.parseConstraint, hp, Except.map, pure, Except.pure]

theorem mkSingle_string_ne (n v : String) (hn : n ∈ stringVarNames) (hv : PlainTok v) :
    mkSingle n ("!=" ++ v) false =
      .ok ⟨aliasName n, "!=", v, false, .gen (.atom ⟨v, .ne, false⟩)⟩ := by
  obtain ⟨f1, f2, f3, _⟩ := stringVar_facts n hn
  have hvo := hv.valueOk
  have hs : "!=" ++ v = String.ofList ('!' :: '=' :: v.toList) := str_eq_of_toList (by simp)
  have hp := gparseWith_ne false v.toList hv.1 hv.gPlain
  rw [← hs] at hp
  simp only [String.ofList_toList] at hp
  have hprep : leafPrepare n ("!=" ++ v) false =
      .ok { name := aliasName n, op := "!=", value := v, swapped := false, cstr := "!=" ++ v, kind := .generic } := by
    cases hl : v.toList with
    | nil => exact absurd hl hv.1
    | cons c cs =>
      rw [hl] at hvo
      have hm := matchPattern1_ne c cs hvo
      have hvs : String.ofList (c :: cs) = v := by rw [← hl]; simp
      unfold leafPrepare
      simp only [Bool.false_eq_true, if_false, String.toList_append, hl]
      have : "!=".toList = ['!', '='] := rfl
      simp only [this, List.cons_append, List.nil_append, hm, hvs, Option.getD_some, f1, f2, Bool.false_and]
      simp
  simp only [mkSingle, hprep, bind, Except.bind, parseByKind,
    Generic.parseConstraint, hp, Except.map, pure, Except.pure]

theorem validateLike_gen (name : String) (gc : GC) (E : Env) (hne : (name == "extra") = false) (ev : String)
    (hev : E.get? name = some ev) : validateLike name (.gen gc) E = .ok (gc.den ev) := by
  simp only [validateLike, hne, Bool.false_eq_true, if_false, hev, validateValue]
  exact Generic.GC.allows_eqAtom gc ev false

open Spec.Pep508 in
/-- string variable, `==`: model and reference both compare the environment value with the literal -/
theorem agree_string_eq (E : Env) (n v ev : String) (hn : n ∈ stringVarNames) (hv : PlainTok v)
    (h0 : v.toList.head? ≠ some '=') (hev : E.get? (canonVar n) = some ev) :
    itemV E n "==" v false = .ok (ev == v) ∧ evalItem n "==" v false E = some (ev == v) ∧
    itemCoherent n "==" v false = true := by
  obtain ⟨f1, f2, f3, f4, f5, f6, f7, f8⟩ := stringVar_facts n hn
  have hm := mkSingle_string_eq n v hn hv h0
  have hm' := mkSingle_string_eq (aliasName n) v f8 hv h0
  refine ⟨?_, ?_, ?_⟩
  · simp only [itemV, itemConstraintString, Bool.false_eq_true, if_false, hm]
    rw [validateLike_gen _ _ E f7 ev (by rw [f4]; exact hev)]
    simp [Generic.GC.den, Generic.GC.sem, Generic.GS.sem, Generic.Atom.den]
  · have f6' : canonVar n ∉ versionVars := by simpa using f6
    simp [evalItem, f5, hev, f6']
  · simp [itemCoherent, Single.coherent, itemConstraintString, hm, hm']

open Spec.Pep508 in
theorem agree_string_ne (E : Env) (n v ev : String) (hn : n ∈ stringVarNames) (hv : PlainTok v)
    (hev : E.get? (canonVar n) = some ev) :
    itemV E n "!=" v false = .ok (ev != v) ∧ evalItem n "!=" v false E = some (ev != v) ∧
    itemCoherent n "!=" v false = true := by
  obtain ⟨f1, f2, f3, f4, f5, f6, f7, f8⟩ := stringVar_facts n hn
  have hm := mkSingle_string_ne n v hn hv
  have hm' := mkSingle_string_ne (aliasName n) v f8 hv
  refine ⟨?_, ?_, ?_⟩
  · simp only [itemV, itemConstraintString, Bool.false_eq_true, if_false, hm]
    rw [validateLike_gen _ _ E f7 ev (by rw [f4]; exact hev)]
    simp [Generic.GC.den, Generic.GC.sem, Generic.GS.sem, Generic.Atom.den]
  · have f6' : canonVar n ∉ versionVars := by simpa using f6
    simp [evalItem, f5, hev, f6']
  · simp [itemCoherent, Single.coherent, itemConstraintString, hm, hm']

/-! ### `extra` -/

theorem mkSingle_extra_eq (v : String) (hv : PlainTok v) (h0 : v.toList.head? ≠ some '=') :
    mkSingle "extra" ("==" ++ v) false =
      .ok ⟨"extra", "==", v, false, .gen (.atom ⟨v, .eq, true⟩)⟩ := by
  have hvo := hv.valueOk
  have hs : "==" ++ v = String.ofList ('=' :: '=' :: v.toList) := str_eq_of_toList (by simp)
  have hp := gparseWith_eq true v.toList hv.1 hv.gPlain
  rw [← hs] at hp
  simp only [String.ofList_toList] at hp
  have hprep : leafPrepare "extra" ("==" ++ v) false =
      .ok { name := "extra", op := "==", value := v, swapped := false, cstr := "==" ++ v, kind := .extra } := by
    cases hl : v.toList with
    | nil => exact absurd hl hv.1
    | cons c cs =>
      rw [hl] at hvo h0
      have hc : c ≠ '=' := by simpa using h0
      have hm := matchPattern1_eq c cs hc hvo
      have hvs : String.ofList (c :: cs) = v := by rw [← hl]; simp
      unfold leafPrepare
      simp only [Bool.false_eq_true, if_false, String.toList_append, hl]
      have : "==".toList = ['=', '='] := rfl
      have f2 : Gen.versionLikeMarkerNames.contains "extra" = false := by decide
      have f3 : aliasName "extra" = "extra" := by decide
      simp only [this, List.cons_append, List.nil_append, hm, hvs, Option.getD_some, f2, f3, Bool.false_and]
      simp
  simp only [mkSingle, hprep, bind, Except.bind, parseByKind,
    Generic.parseExtraConstraint, hp, Except.map, pure, Except.pure]

theorem mkSingle_extra_ne (v : String) (hv : PlainTok v) :
    mkSingle "extra" ("!=" ++ v) false =
      .ok ⟨"extra", "!=", v, false, .gen (.atom ⟨v, .ne, true⟩)⟩ := by
  have hvo := hv.valueOk
  have hs : "!=" ++ v = String.ofList ('!' :: '=' :: v.toList) := str_eq_of_toList (by simp)
  have hp := gparseWith_ne true v.toList hv.1 hv.gPlain
  rw [← hs] at hp
  simp only [String.ofList_toList] at hp
  have hprep : leafPrepare "extra" ("!=" ++ v) false =
      .ok { name := "extra", op := "!=", value := v, swapped := false, cstr := "!=" ++ v, kind := .extra } := by
    cases hl : v.toList with
    | nil => exact absurd hl hv.1
    | cons c cs =>
      rw [hl] at hvo
      have hm := matchPattern1_ne c cs hvo
      have hvs : String.ofList (c :: cs) = v := by rw [← hl]; simp
      unfold leafPrepare
      simp only [Bool.false_eq_true, if_false, String.toList_append, hl]
      have : "!=".toList = ['!', '='] := rfl
      have f2 : Gen.versionLikeMarkerNames.contains "extra" = false := by decide
      have f3 : aliasName "extra" = "extra" := by decide
      simp only [this, List.cons_append, List.nil_append, hm, hvs, Option.getD_some, f2, f3, Bool.false_and]
      simp
  simp only [mkSingle, hprep, bind, Except.bind, parseByKind,
    Generic.parseExtraConstraint, hp, Except.map, pure, Except.pure]

open Spec.Pep508 in
/-- `extra == "x"`: membership of the normalised name in the normalised set of active extras -/
theorem agree_extra_eq (E : Env) (v : String) (ex : List String) (hv : PlainTok v)
    (h0 : v.toList.head? ≠ some '=') (hex : E.extras = some ex) :
    itemV E "extra" "==" v false = .ok ((ex.map canonName).contains (canonName v)) ∧
    evalItem "extra" "==" v false E = some ((ex.map canonName).contains (canonName v)) ∧
    itemCoherent "extra" "==" v false = true := by
  have hm := mkSingle_extra_eq v hv h0
  have hc : canonVar "extra" = "extra" := by decide
  refine ⟨?_, ?_, ?_⟩
  · simp [itemV, itemConstraintString, hm, validateLike, hex]
  · simp [evalItem, hc, hex]
  · simp [itemCoherent, Single.coherent, itemConstraintString, hm]

open Spec.Pep508 in
theorem agree_extra_ne (E : Env) (v : String) (ex : List String) (hv : PlainTok v)
    (hex : E.extras = some ex) :
    itemV E "extra" "!=" v false = .ok (!(ex.map canonName).contains (canonName v)) ∧
    evalItem "extra" "!=" v false E = some (!(ex.map canonName).contains (canonName v)) ∧
    itemCoherent "extra" "!=" v false = true := by
  have hm := mkSingle_extra_ne v hv
  have hc : canonVar "extra" = "extra" := by decide
  refine ⟨?_, ?_, ?_⟩
  · simp [itemV, itemConstraintString, hm, validateLike, hex]
  · simp [evalItem, hc, hex]
  · simp [itemCoherent, Single.coherent, itemConstraintString, hm]

/-- `ALIASES.get(name, name)` resolves every name like the reference's alias table -/
theorem alias_eq_canon (n : String) : aliasName n = Spec.Pep508.canonVar n := by
  by_cases h1 : n = "os.name"
  · subst h1; decide
  by_cases h2 : n = "sys.platform"
  · subst h2; decide
  by_cases h3 : n = "platform.version"
  · subst h3; decide
  by_cases h4 : n = "platform.machine"
  · subst h4; decide
  by_cases h5 : n = "platform.python_implementation"
  · subst h5; decide
  by_cases h6 : n = "python_implementation"
  · subst h6; decide
  have e1 : ("os.name" == n) = false := beq_eq_false_iff_ne.2 (fun e => h1 e.symm)
  have e2 : ("sys.platform" == n) = false := beq_eq_false_iff_ne.2 (fun e => h2 e.symm)
  have e3 : ("platform.version" == n) = false := beq_eq_false_iff_ne.2 (fun e => h3 e.symm)
  have e4 : ("platform.machine" == n) = false := beq_eq_false_iff_ne.2 (fun e => h4 e.symm)
  have e5 : ("platform.python_implementation" == n) = false := beq_eq_false_iff_ne.2 (fun e => h5 e.symm)
  have e6 : ("python_implementation" == n) = false := beq_eq_false_iff_ne.2 (fun e => h6 e.symm)
  simp [aliasName, Spec.Pep508.canonVar, Gen.markerAliases, Spec.Pep508.refAliases, List.find?, e1, e2, e3, e4, e5, e6]

end Poetry.Marker
