/-
`not in` lists on the version variables (helper lemmas for C06): `!=X.Y.Z, …` / `!=X.Y.*, …` are parsed to a fold
of `VersionUnion ∩ VersionUnion` (`VC.intersect_reg` of the C05 development keeps the fold total and exact over
final bounds); the and-separator of `parse_constraint` across `, `-joined clauses; the leaves.
-/
import PoetryVerif.Proofs.MarkerLeafVersionList
import PoetryVerif.Proofs.VRangeInterU
import PoetryVerif.Proofs.ParserTotalVC

set_option linter.unusedSimpArgs false
set_option linter.unusedVariables false
set_option linter.unnecessarySeqFocus false

namespace Poetry.Marker
open Poetry
open Version

/-! ### `not in` lists on the version variables: a fold of `VersionUnion ∩ VersionUnion` -/

/-- the fold `parse_constraint` runs over the clauses of one `,`-group -/
theorem fold_intersect_reg {B : List Version} (hB : RegB B) (hBf : ∀ e ∈ B, FinalV e) :
    ∀ (cs : List VC) (c : VC), c.WF → (∀ x ∈ c.flatten, RegMember B x) →
      (∀ d ∈ cs, d.WF ∧ ∀ x ∈ d.flatten, RegMember B x) →
      ∃ res, cs.foldlM VC.intersect c = .ok res ∧ res.WF ∧ (∀ x ∈ res.flatten, RegMember B x) ∧
        ∀ p, FinalV p → res.allowsPlain p = (c.allowsPlain p && cs.all (fun d => d.allowsPlain p)) := by
  intro cs
  induction cs with
  | nil =>
    intro c hc hm _
    exact ⟨c, rfl, hc, hm, fun p _ => by simp⟩
  | cons d ds ih =>
    intro c hc hm hds
    obtain ⟨hd, hdm⟩ := hds d (by simp)
    obtain ⟨r, hr, hrwf, hrm, hrsem⟩ := VC.intersect_reg hB c d hc hd hm hdm
    obtain ⟨res, h1, h2, h3, h4⟩ := ih r hrwf hrm (fun e he => hds e (List.mem_cons_of_mem _ he))
    refine ⟨res, ?_, h2, h3, ?_⟩
    · simp only [List.foldlM_cons, hr, bind, Except.bind]; exact h1
    · intro p hp
      have hreg : Regular (boundsOf c.flatten ++ boundsOf d.flatten) p := by
        apply finals_regular _ _ p hp
        intro e he
        simp only [List.mem_append, boundsOf, List.mem_flatMap] at he
        rcases he with ⟨x, hx, hex⟩ | ⟨x, hx, hex⟩
        · exact hBf e ((hm x hx).2.2.2 e hex)
        · exact hBf e ((hdm x hx).2.2.2 e hex)
      rw [h4 p hp, hrsem p hp.2 hreg]
      simp [Bool.and_assoc]

def belowR (V : Version) : RC := .rng ⟨none, some V, false, false⟩
def aboveR (V : Version) (incl : Bool) : RC := .rng ⟨some V, none, incl, false⟩

theorem belowR_reg (B : List Version) (V : Version) (hV : FinalV V) (hm : V ∈ B) : RegMember B (belowR V) := by
  refine ⟨⟨?_, ?_⟩, ⟨fun _ => rfl, fun h => by simp [belowR] at h⟩, ?_, ?_⟩
  · intro e he; simp [VRange.bounds] at he; subst he; exact hV.2
  · intro m M h1 _; simp at h1
  · show VRange.isStrictlyLower _ _ = false
    simp [VRange.isStrictlyLower, VRange.allowedMin]
  · intro e he
    simp [belowR, RC.bounds, RC.view, RC.min, RC.max, VRange.bounds] at he
    subst he; exact hm

theorem aboveR_reg (B : List Version) (V : Version) (incl : Bool) (hV : FinalV V) (hm : V ∈ B) :
    RegMember B (aboveR V incl) := by
  refine ⟨⟨?_, ?_⟩, ⟨fun h => by simp [aboveR] at h, fun _ => rfl⟩, ?_, ?_⟩
  · intro e he; simp [VRange.bounds] at he; subst he; exact hV.2
  · intro m M _ h2; simp at h2
  · show VRange.isStrictlyLower _ _ = false
    simp [VRange.isStrictlyLower, VRange.allowedMax]
  · intro e he
    simp [aboveR, RC.bounds, RC.view, RC.min, RC.max, VRange.bounds] at he
    subst he; exact hm

theorem belowR_allows (V v : Version) (hV : FinalV V) (hv : FinalV v) :
    (belowR V).allows v = true ↔ vk v < vk V := by
  have := upper_allows V v false hV.2 hv.2 (reg1_of_final hv.1 hV.1)
  simpa [belowR, RC.allows] using this

theorem aboveR_allows (V v : Version) (incl : Bool) (hV : FinalV V) (hv : FinalV v) :
    (aboveR V incl).allows v = true ↔ (if incl then vk V ≤ vk v else vk V < vk v) := by
  have := lower_allows V v incl hV.2 hv.2 (reg1_of_final hv.1 hV.1)
  simpa [aboveR, RC.allows] using this

theorem allowedMax_below (V : Version) (hV : FinalV V) :
    VRange.allowedMax ⟨none, some V, false, false⟩ = some V.firstDevrelease := by
  have hst : V.isUnstable = false := isUnstable_of_final hV.isFinal'
  simp [VRange.allowedMax, hst, optVerEq]

/-- `!=V` as the parser builds it: `<V || >V` -/
def neU (V : Version) : VC := .union [belowR V, aboveR V false]

theorem neU_wf (B : List Version) (V : Version) (hV : FinalV V) (hm : V ∈ B) :
    (neU V).WF ∧ ∀ x ∈ (neU V).flatten, RegMember B x := by
  have hb := belowR_reg B V hV hm
  have ha := aboveR_reg B V false hV hm
  have hst : V.isUnstable = false := isUnstable_of_final hV.isFinal'
  have hlt : vk V.firstDevrelease < vk V := firstDev_lt hst
  have hsl : VRange.isStrictlyLower ⟨none, some V, false, false⟩ ⟨some V, none, false, false⟩ = true := by
    unfold VRange.isStrictlyLower
    rw [allowedMax_below V hV]
    simp [VRange.allowedMin, (lt_iff _ _).2 hlt]
  constructor
  · refine ⟨by simp [neU], ?_, ?_, ?_⟩
    · intro c hc
      simp only [neU, List.mem_cons, List.mem_nil_iff, or_false] at hc
      rcases hc with rfl | rfl
      · exact ⟨hb.1, hb.2.2.1⟩
      · exact ⟨ha.1, ha.2.2.1⟩
    · simp only [SortedRC, neU, List.pairwise_cons, List.mem_singleton, forall_eq, List.not_mem_nil, false_implies,
        implies_true, List.Pairwise.nil, and_true]
      exact hsl
    · refine ⟨⟨hsl, ?_⟩, trivial⟩
      simp [VRange.isAdjacentTo, belowR, aboveR, RC.view, RC.min, RC.max, RC.imin, RC.imax]
  · intro x hx
    simp only [neU, VC.flatten, List.mem_cons, List.mem_nil_iff, or_false] at hx
    rcases hx with rfl | rfl
    · exact hb
    · exact ha

theorem neU_allowsPlain (V v : Version) (hV : FinalV V) (hv : FinalV v) :
    (neU V).allowsPlain v = !(Spec.cmpRef v V == .eq) := by
  apply bool_eq_of_iff
  simp only [neU, VC.allowsPlain, VC.flatten, List.any_cons, List.any_nil, Bool.or_false, Bool.or_eq_true,
    belowR_allows V v hV hv, aboveR_allows V v false hV hv, Bool.false_eq_true, if_false, Bool.not_eq_true',
    beq_eq_false_iff_ne, ne_eq]
  rw [← cmp_eq_cmpRef v V hv.2 hV.2, ← vk_eq_iff]
  constructor
  · intro h e; rw [e] at h; rcases h with h | h <;> exact absurd h (lt_irrefl _)
  · intro h; exact lt_or_gt_of_ne h

/-- `!=X.Y.*` in a marker constraint: `* ∖ [X.Y, X.(Y+1))` -/
theorem neStar_reg (B : List Version) (p : Nat × Nat) (hV : litV p.1 [p.2] ∈ B) (hH : H2 p.1 p.2 ∈ B)
    (hB : RegB B) :
    ∃ res, VParser.makeXConstraintRange (litV p.1 [p.2]) true true = .ok res ∧ res.WF ∧
      (∀ x ∈ res.flatten, RegMember B x) ∧
      ∀ x' y', res.allowsPlain (litV x' [y']) = !decide (x' = p.1 ∧ y' = p.2) := by
  have hVf := litV_FinalV p.1 [p.2]
  have hHf := H2_FinalV p.1 p.2
  have hm : ∀ c ∈ [belowR (litV p.1 [p.2]), aboveR (H2 p.1 p.2) true], RegMember B c := by
    intro c hc
    simp only [List.mem_cons, List.mem_nil_iff, or_false] at hc
    rcases hc with rfl | rfl
    · exact belowR_reg B _ hVf hV
    · exact aboveR_reg B _ true hHf hH
  obtain ⟨res, hres, hwf, hmem, hsem⟩ := unionOfFlat_reg hB _ hm
  refine ⟨res, ?_, hwf, hmem, ?_⟩
  · have hn := litV_nextStable p.1 p.2
    have hn' := hn
    simp only [litV, relVersion] at hn'
    have : VParser.makeXConstraintRange (litV p.1 [p.2]) true true =
        VC.difference VC.any (.single (.rng ⟨some (litV p.1 [p.2]), some (H2 p.1 p.2), true, false⟩)) := by
      simp [VParser.makeXConstraintRange, isPostrelease, isStable, isUnstable, isPrerelease, isDevrelease,
        litV, relVersion]
      rw [hn']
    rw [this, ParserTotal.difference_any_halfOpen]
    exact hres
  · intro x' y'
    have hv := litV_FinalV x' [y']
    have hreg : Regular (boundsOf [belowR (litV p.1 [p.2]), aboveR (H2 p.1 p.2) true]) (litV x' [y']) := by
      apply finals_regular _ _ _ hv
      intro e he
      simp [boundsOf, belowR, aboveR, RC.bounds, RC.view, RC.min, RC.max, VRange.bounds] at he
      rcases he with rfl | rfl
      · exact hVf
      · exact hHf
    have hs : (starR p).allows (litV x' [y']) = true ↔
        vk (litV p.1 [p.2]) ≤ vk (litV x' [y']) ∧ vk (litV x' [y']) < vk (H2 p.1 p.2) :=
      halfOpen_allows_final hVf hHf (litV_lt_H2 p.1 p.2) hv
    have hb := belowR_allows _ _ hVf hv
    have ha := aboveR_allows _ _ true hHf hv
    simp only [if_true] at ha
    rw [hsem _ hv.2 hreg, ← starR_allows p x' y']
    simp only [anyAllows, List.any_cons, List.any_nil, Bool.or_false]
    cases h1 : (belowR (litV p.1 [p.2])).allows (litV x' [y']) <;>
    cases h2 : (aboveR (H2 p.1 p.2) true).allows (litV x' [y']) <;>
    cases h3 : (starR p).allows (litV x' [y']) <;> simp
    all_goals
      rw [h1] at hb; rw [h2] at ha; rw [h3] at hs
      simp only [Bool.false_eq_true, false_iff, true_iff, not_lt, not_le, not_and] at hb ha hs
    · exact absurd (hs hb) (not_le.2 ha)
    · exact absurd (lt_of_lt_of_le hs.2 ha) (lt_irrefl _)
    · exact absurd (lt_of_lt_of_le hb hs.1) (lt_irrefl _)
    · exact absurd (lt_of_lt_of_le hb hs.1) (lt_irrefl _)

/-! ### `,`-joined clauses: the and-separator of `parse_constraint` -/

/-- the previous character after reading a piece -/
def lastOr (prev : Option Char) : List Char → Option Char
  | [] => prev
  | c :: cs => lastOr (some c) cs

theorem lastOr_append_singleton (prev : Option Char) (p : List Char) (d : Char) :
    lastOr prev (p ++ [d]) = some d := by
  induction p generalizing prev with
  | nil => rfl
  | cons c cs ih => simp [lastOr, ih]

theorem splitAndAux_piece : ∀ (piece : List Char), (∀ c ∈ piece, vPlain c) → ∀ (m : Nat) (prev : Option Char)
    (rest cur : List Char),
    VParser.splitAndAux (piece.length + m) prev (piece ++ rest) cur =
      VParser.splitAndAux m (lastOr prev piece) rest (piece.reverse ++ cur) := by
  intro piece
  induction piece with
  | nil => intro _ m prev rest cur; simp [lastOr]
  | cons c p ih =>
    intro hp m prev rest cur
    have e : (c :: p).length + m = (p.length + m) + 1 := by simp; omega
    rw [e, VParser.splitAndAux.eq_def]
    simp only [List.cons_append, andSep?_none prev c (p ++ rest) (hp c (by simp))]
    rw [ih (fun d hd => hp d (List.mem_cons_of_mem _ hd)) m (some c) rest (c :: cur)]
    simp [lastOr]

/-- the and-separator `, ` between a clause ending in `d` and a clause starting with `!` -/
theorem andSep?_comma (d : Char) (hd : VParser.badPrev d = false) (hd2 : d ≠ '-') (cs : List Char) :
    VParser.andSep? (some d) (',' :: ' ' :: '!' :: cs) = some ('!' :: cs) := by
  have h2 : (d == '-') = false := by simpa using hd2
  simp [VParser.andSep?, hd, VParser.countSpaces, VParser.andSep?.go, h2, VParser.andSepTail,
    VParser.andSepTail.go]

theorem splitAndAux_join : ∀ (ps : List (List Char)) (p : List Char),
    (∀ q ∈ p :: ps, (∀ c ∈ q, vPlain c) ∧ (∃ cs, q = '!' :: cs) ∧
      ∃ pre d, q = pre ++ [d] ∧ VParser.badPrev d = false ∧ d ≠ '-') →
    ∀ (n : Nat) (prev : Option Char) (cur : List Char), (joinC [',', ' '] (p :: ps)).length < n →
      VParser.splitAndAux n prev (joinC [',', ' '] (p :: ps)) cur = (cur.reverse ++ p) :: ps := by
  intro ps
  induction ps with
  | nil =>
    intro p hp n prev cur hn
    simp only [joinC] at hn ⊢
    obtain ⟨m, rfl⟩ : ∃ m, n = p.length + m := ⟨n - p.length, by omega⟩
    have := splitAndAux_piece p (hp p (by simp)).1 m prev [] cur
    simp only [List.append_nil] at this
    rw [this]
    cases m with
    | zero => omega
    | succ m => rw [VParser.splitAndAux.eq_def]; simp
  | cons q ps ih =>
    intro p hp n prev cur hn
    obtain ⟨hpl, _, pre, d, hpd, hd1, hd2⟩ := hp p (by simp)
    obtain ⟨cs, hq⟩ := (hp q (by simp)).2.1
    have hR : ∃ cs', joinC [',', ' '] (q :: ps) = '!' :: cs' := by
      cases ps with
      | nil => exact ⟨cs, by simp [joinC, hq]⟩
      | cons r rs => exact ⟨cs ++ [',', ' '] ++ joinC [',', ' '] (r :: rs), by simp [joinC, hq]⟩
    obtain ⟨cs', hR⟩ := hR
    have hj : joinC [',', ' '] (p :: q :: ps) = p ++ (',' :: ' ' :: joinC [',', ' '] (q :: ps)) := by
      simp [joinC]
    rw [hj] at hn ⊢
    obtain ⟨m, rfl⟩ : ∃ m, n = p.length + m := ⟨n - p.length, by simp at hn; omega⟩
    rw [splitAndAux_piece p hpl m prev _ cur]
    have hlast : lastOr prev p = some d := by rw [hpd]; exact lastOr_append_singleton prev pre d
    rw [hlast, hR]
    have hlen : (joinC [',', ' '] (q :: ps)).length + 2 < m := by simp at hn; omega
    cases m with
    | zero => omega
    | succ m =>
      rw [VParser.splitAndAux.eq_def]
      simp only [andSep?_comma d hd1 hd2 cs']
      have hcons : ((',' :: ' ' :: '!' :: cs').take ((',' :: ' ' :: '!' :: cs').length - ('!' :: cs').length)).getLast? = some ' ' := by
        have : (',' :: ' ' :: '!' :: cs').length - ('!' :: cs').length = 2 := by simp
        rw [this]; rfl
      simp only [hcons]
      rw [← hR, ih q (fun r hr => hp r (List.mem_cons_of_mem _ hr)) m (some ' ') [] (by omega)]
      simp

theorem joinC_lastP (S : List Char) (P : Char → Prop) : ∀ (ps : List (List Char)) (p : List Char),
    (∀ q ∈ p :: ps, ∃ d, q.getLast? = some d ∧ P d) →
    ∃ d, (joinC S (p :: ps)).getLast? = some d ∧ P d := by
  intro ps
  induction ps with
  | nil => intro p h; simpa [joinC] using h p (by simp)
  | cons q ps ih =>
    intro p h
    obtain ⟨d, hd, hs⟩ := ih q (fun r hr => h r (List.mem_cons_of_mem _ hr))
    refine ⟨d, ?_, hs⟩
    simp only [joinC, List.append_assoc, List.getLast?_append, hd, Option.some_or]

theorem reverse_of_getLast? (l : List Char) (d : Char) (h : l.getLast? = some d) :
    l.reverse = d :: l.dropLast.reverse := by
  have hne : l ≠ [] := by intro e; simp [e] at h
  have hd : l.getLast hne = d := by
    have := List.getLast?_eq_some_getLast hne
    rw [h] at this; simpa using this.symm
  conv => lhs; rw [← List.dropLast_concat_getLast hne]
  simp [hd]

theorem rstripCommas_last (l : List Char) (d : Char) (h : l.getLast? = some d) (hd : d ≠ ',') :
    VParser.rstripCommas l = l := by
  unfold VParser.rstripCommas
  have hr := reverse_of_getLast? l d h
  have hb : (d == ',') = false := by simpa using hd
  rw [hr]
  simp only [List.dropWhile, hb]
  rw [← hr, List.reverse_reverse]

theorem rstripSpaces_last (l : List Char) (d : Char) (h : l.getLast? = some d) (hd : isSpace d = false) :
    VParser.rstripSpaces l = l := by
  unfold VParser.rstripSpaces
  have hr := reverse_of_getLast? l d h
  rw [hr, dropSpaces_of_head d _ hd, ← hr, List.reverse_reverse]

theorem joinC_comma_PieceOk' : ∀ (ps : List (List Char)) (p : List Char),
    (∀ q ∈ p :: ps, (∀ c ∈ q, gPlain c) ∧ ∃ cs, q = '!' :: cs) →
    PieceOk Generic.sepOr (joinC [',', ' '] (p :: ps)) := by
  intro ps
  induction ps with
  | nil =>
    intro p h
    have := PieceOk_plain sepOr_like p [] (h p (by simp)).1 (PieceOk_nil _)
    simpa [joinC] using this
  | cons q ps ih =>
    intro p h
    have h0 : PieceOk Generic.sepOr p := by
      have := PieceOk_plain sepOr_like p [] (h p (by simp)).1 (PieceOk_nil _)
      simpa using this
    have hrest := ih q (fun r hr => h r (List.mem_cons_of_mem _ hr))
    obtain ⟨cs, hq⟩ := (h q (by simp)).2
    have hhead : ∃ cs', joinC [',', ' '] (q :: ps) = '!' :: cs' := by
      cases ps with
      | nil => exact ⟨cs, by simp [joinC, hq]⟩
      | cons r rs => exact ⟨cs ++ [',', ' '] ++ joinC [',', ' '] (r :: rs), by simp [joinC, hq]⟩
    obtain ⟨cs', hcs⟩ := hhead
    have e : joinC [',', ' '] (p :: q :: ps) = p ++ (',' :: ' ' :: joinC [',', ' '] (q :: ps)) := by simp [joinC]
    rw [e]
    apply PieceOk_append _ _ _ h0
    rw [hcs] at hrest ⊢
    exact PieceOk_cons _ ',' _ (fun rest => sepOr_none ',' _ (by decide))
      (PieceOk_space sepOr_like '!' cs' gPlain_bg hrest)

/-- **`parse_marker_version_constraint` on `c0, c1, …`** for clauses `!=…` without blanks, commas, bars: the
fold of `intersect` over the clauses' constraints -/
theorem pmvc_commaJoin {α : Type} (f : α → List Char) (g : α → VC) (a0 : α) (as : List α)
    (hpl : ∀ a, ∀ c ∈ f a, gPlain c) (hbang : ∀ a, ∃ cs, f a = '!' :: cs)
    (hlast : ∀ a, ∃ pre d, f a = pre ++ [d] ∧ VParser.badPrev d = false ∧ d ≠ '-')
    (hparse : ∀ a, VParser.parseSingle (f a) true = .ok (g a)) :
    VParser.parseMarkerVersionConstraint (String.ofList (joinC [',', ' '] ((a0 :: as).map f))) =
      (as.map g).foldlM VC.intersect (g a0) := by
  have hq : ∀ q ∈ f a0 :: as.map f, (∀ c ∈ q, vPlain c) ∧ (∃ cs, q = '!' :: cs) ∧
      ∃ pre d, q = pre ++ [d] ∧ VParser.badPrev d = false ∧ d ≠ '-' := by
    intro q hq
    rw [← List.map_cons] at hq
    obtain ⟨a, _, rfl⟩ := List.mem_map.1 hq
    exact ⟨fun c hc => hpl a c hc, hbang a, hlast a⟩
  have hq2 : ∀ q ∈ f a0 :: as.map f, (∀ c ∈ q, gPlain c) ∧ ∃ cs, q = '!' :: cs := by
    intro q hq
    rw [← List.map_cons] at hq
    obtain ⟨a, _, rfl⟩ := List.mem_map.1 hq
    exact ⟨hpl a, hbang a⟩
  obtain ⟨dl, hdl, hdls, hdlc⟩ := joinC_lastP [',', ' '] (fun d => isSpace d = false ∧ d ≠ ',')
    (as.map f) (f a0) (by
      intro q hq
      rw [← List.map_cons] at hq
      obtain ⟨a, _, rfl⟩ := List.mem_map.1 hq
      obtain ⟨pre, d, hpd, _, _⟩ := hlast a
      have hg := hpl a d (by rw [hpd]; simp)
      exact ⟨d, by rw [hpd]; simp, hg.1, hg.2.2⟩)
  have hhead : (joinC [',', ' '] (f a0 :: as.map f)).head? = some '!' := by
    obtain ⟨cs, hcs⟩ := hbang a0
    cases as <;> simp [joinC, hcs]
  have hstrip : VParser.strip (joinC [',', ' '] (f a0 :: as.map f)) = joinC [',', ' '] (f a0 :: as.map f) :=
    gstrip_hl _ '!' dl hhead hdl (by decide) hdls
  have hst : (String.ofList (joinC [',', ' '] (f a0 :: as.map f)) == "*") = false := by
    cases hj : joinC [',', ' '] (f a0 :: as.map f) with
    | nil => rw [hj] at hhead; simp at hhead
    | cons a as' =>
      rw [hj] at hhead
      have : a = '!' := by simpa using hhead
      subst this
      exact ofList_ne_star _ _ (by decide)
  have hor := reSplit_of_PieceOk _ _ (joinC_comma_PieceOk' (as.map f) (f a0) hq2)
  have hand : VParser.splitAnd (joinC [',', ' '] (f a0 :: as.map f)) = f a0 :: as.map f := by
    have := splitAndAux_join (as.map f) (f a0) hq ((joinC [',', ' '] (f a0 :: as.map f)).length + 1) none []
      (by omega)
    simpa [VParser.splitAnd] using this
  have hobjs : ((a0 :: as).map f).mapM (fun q => VParser.parseSingle q true) = .ok ((a0 :: as).map g) :=
    mapM_map_ok _ _ _ (a0 :: as) (fun a _ => hparse a)
  simp only [List.map_cons] at hobjs
  unfold VParser.parseMarkerVersionConstraint VParser.parseConstraintAux
  simp only [List.map_cons, hst, Bool.false_eq_true, if_false, String.toList_ofList, hstrip, splitOr_eq_reSplit,
    hor]
  rw [List.mapM_cons, List.mapM_nil]
  simp only [VParser.parseGroup, rstripCommas_last _ dl hdl hdlc, rstripSpaces_last _ dl hdl hdls, hand]
  rw [hobjs]
  simp only [bind, Except.bind, pure, Except.pure]
  cases h : (as.map g).foldlM VC.intersect (g a0) <;> simp [h]

theorem relChars_last : ∀ (r : List Nat) (x : Nat), ∃ pre d, relChars x r = pre ++ [d] ∧ isDigit d = true := by
  intro r
  induction r with
  | nil =>
    intro x
    have hne := dg_ne_nil x
    refine ⟨(dg x).dropLast, (dg x).getLast hne, ?_, dg_isDigit x _ (List.getLast_mem hne)⟩
    simp [relChars, relTail, List.dropLast_concat_getLast]
  | cons y r ih =>
    intro x
    obtain ⟨pre, d, h, hd⟩ := ih y
    refine ⟨dg x ++ '.' :: pre, d, ?_, hd⟩
    have : relChars x (y :: r) = dg x ++ '.' :: relChars y r := by simp [relChars, relTail]
    rw [this, h]; simp

theorem digit_andsep (d : Char) (h : isDigit d = true) : VParser.badPrev d = false ∧ d ≠ '-' := by
  rcases digit_cases d h with rfl | rfl | rfl | rfl | rfl | rfl | rfl | rfl | rfl | rfl <;> decide

/-! ### `python_full_version not in "X.Y.Z …"` -/

def neChars (t : VTok) : List Char := '!' :: '=' :: t.chars

theorem neChars_gPlain (t : VTok) : ∀ c ∈ neChars t, gPlain c := by
  intro c hc
  simp only [neChars, VTok.chars, List.mem_cons] at hc
  rcases hc with rfl | rfl | hc
  · exact gPlain_bg
  · exact gPlain_eq
  · rcases relChars_chars t.1 t.2 c hc with h | rfl
    · exact gPlain_of_tokChar c (digit_tokChar c h)
    · unfold gPlain; decide

theorem versionListItems_notin3 (t0 : VTok) (rest : List (String × VTok)) (hs : ∀ q ∈ rest, SepRun q.1)
    (h3 : ∀ t ∈ t0 :: rest.map (·.2), 2 ≤ t.2.length) :
    versionListItems false (verListN t0 rest) = (t0 :: rest.map (·.2)).map (fun t => String.ofList (neChars t)) := by
  simp only [versionListItems, verListN_split t0 rest hs, List.map_map]
  apply List.map_congr_left
  intro t ht
  simp only [Function.comp]
  have hl : (splitDots t.chars).length = t.2.length + 1 := by rw [VTok.chars, splitDots_relChars]; simp
  have h := h3 t ht
  have h1 : ((splitDots t.chars).length == 1) = false := by rw [beq_eq_false_iff_ne, hl]; omega
  have h2 : ((splitDots t.chars).length == 2) = false := by rw [beq_eq_false_iff_ne, hl]; omega
  simp only [h1, h2, Bool.or_false, Bool.false_eq_true, if_false, joinChars_splitDots]
  exact str_eq_of_toList (by simp [neChars, VTok.text, VTok.chars, relText_toList])

/-- `!=X0.Y0.Z0, !=X1.Y1.Z1, …`: defined; admits a final exactly when it equals none of the tokens -/
theorem pmvc_neList (t0 : VTok) (ts : List VTok) (v : Version) (hv : FinalV v) :
    ∃ c, VParser.parseMarkerVersionConstraint
        (String.ofList (joinC [',', ' '] ((t0 :: ts).map neChars))) = .ok c ∧
      c.allows v = .ok (!(t0 :: ts).any fun t => Spec.cmpRef v t.ver == .eq) := by
  have hp := pmvc_commaJoin neChars (fun t => neU t.ver) t0 ts neChars_gPlain
    (by intro a; exact ⟨_, rfl⟩)
    (by
      intro a
      obtain ⟨pre, d, h, hd⟩ := relChars_last a.2 a.1
      exact ⟨'!' :: '=' :: pre, d, by simp [neChars, VTok.chars, h], digit_andsep d hd⟩)
    (by intro a; exact parseSingle_ne a.1 a.2)
  rw [hp]
  let B := (t0 :: ts).map VTok.ver
  have hBf : ∀ e ∈ B, FinalV e := by
    intro e he; obtain ⟨t, _, rfl⟩ := List.mem_map.1 he; exact t.ver_final
  have hB := finals_regB B hBf
  have hmemB : ∀ t ∈ t0 :: ts, t.ver ∈ B := fun t ht => List.mem_map.2 ⟨t, ht, rfl⟩
  obtain ⟨res, h1, h2, h3, h4⟩ := fold_intersect_reg hB hBf (ts.map fun t => neU t.ver) (neU t0.ver)
    (neU_wf B _ t0.ver_final (hmemB t0 (by simp))).1 (neU_wf B _ t0.ver_final (hmemB t0 (by simp))).2
    (by
      intro d hd
      obtain ⟨t, ht, rfl⟩ := List.mem_map.1 hd
      exact neU_wf B _ t.ver_final (hmemB t (List.mem_cons_of_mem _ ht)))
  refine ⟨res, h1, ?_⟩
  rw [VC.allows_of_reg hB res h2 h3 v, h4 v hv]
  congr 1
  rw [neU_allowsPlain _ v t0.ver_final hv, List.any_cons, Bool.not_or, List.all_map]
  congr 1
  have key : ∀ l : List VTok, (l.all ((fun d => d.allowsPlain v) ∘ fun t => neU t.ver)) =
      !l.any fun t => Spec.cmpRef v t.ver == .eq := by
    intro l
    induction l with
    | nil => rfl
    | cons a as ih =>
      simp only [List.all_cons, List.any_cons, Bool.not_or, Function.comp, neU_allowsPlain _ v a.ver_final hv]
      rw [← ih]
  exact key ts

theorem leafPrepare_list_ver (name : String) (hname : name ∈ pyVerNames) (ops : String) (isIn : Bool)
    (hops : (ops = "in" ∧ isIn = true) ∨ (ops = "not in" ∧ isIn = false)) (value : String)
    (hvo : valueOk' value.toList) :
    leafPrepare name (ops ++ value) false =
      .ok { name := name, op := ops, value := value, swapped := false,
            cstr := versionListConstraint isIn value, kind := .version true } := by
  have hn : Gen.versionLikeMarkerNames.contains name = true ∧ name ∈ Gen.versionLikeMarkerNames ∧
      aliasName name = name ∧ (name != "platform_release") = true := by
    simp only [pyVerNames, List.mem_cons, List.mem_nil_iff, or_false] at hname
    rcases hname with rfl | rfl <;> decide
  obtain ⟨f1, f1', f3, f4⟩ := hn
  cases hl : value.toList with
  | nil => exact absurd hl hvo.1
  | cons c cs =>
    have hvo' : valueOk' (c :: cs) := by rw [← hl]; exact hvo
    have hvs : String.ofList (c :: cs) = value := by rw [← hl]; simp
    rcases hops with ⟨rfl, rfl⟩ | ⟨rfl, rfl⟩
    · have hm := matchPattern1_in c cs hvo'
      unfold leafPrepare
      simp only [Bool.false_eq_true, if_false, String.toList_append, hl]
      have : "in".toList = ['i', 'n'] := rfl
      simp only [this, List.cons_append, List.nil_append, hm, hvs, Option.getD_some]
      simp [f1, f1', f3, f4]
    · have hm := matchPattern1_notin c cs hvo'
      unfold leafPrepare
      simp only [Bool.false_eq_true, if_false, String.toList_append, hl]
      have : "not in".toList = ['n', 'o', 't', ' ', 'i', 'n'] := rfl
      simp only [this, List.cons_append, List.nil_append, hm, hvs, Option.getD_some]
      simp [f1, f1', f3, f4]

open Spec.Pep508 in
/-- **`python_full_version not in "X0.Y0.Z0 …"`** (tokens of three or more components) -/
theorem agree_pfv_notin (E : Env) (t0 : VTok) (rest : List (String × VTok)) (hs : ∀ q ∈ rest, SepRun q.1)
    (h3 : ∀ t ∈ t0 :: rest.map (·.2), 2 ≤ t.2.length) (x' : Nat) (r' : List Nat)
    (hev : E.get? "python_full_version" = some (Version.relText (x' :: r'))) :
    ∃ b, itemV E "python_full_version" "not in" (verListN t0 rest) false = .ok b ∧
      evalItem "python_full_version" "not in" (verListN t0 rest) false E = some b ∧
      itemCoherent "python_full_version" "not in" (verListN t0 rest) false = true := by
  obtain ⟨c, hc, hall⟩ := pmvc_neList t0 (rest.map (·.2)) (litV x' r') (litV_FinalV x' r')
  have hcs : versionListConstraint false (verListN t0 rest) =
      String.ofList (joinC [',', ' '] ((t0 :: rest.map (·.2)).map neChars)) := by
    apply str_eq_of_toList
    rw [versionListConstraint, versionListItems_notin3 t0 rest hs h3]
    simp only [Bool.false_eq_true, if_false, joinWith_toList, String.toList_ofList, List.map_map, Function.comp_def]
    rfl
  have hm : mkSingle "python_full_version" ("not in" ++ verListN t0 rest) false =
      .ok ⟨"python_full_version", "not in", verListN t0 rest, false, .ver c⟩ := by
    rw [← hcs] at hc
    have hlp := leafPrepare_list_ver "python_full_version" (by decide) "not in" false (Or.inr ⟨rfl, rfl⟩)
      (verListN t0 rest) (listLit_valueOk _ _ (verListN_ok t0 rest hs))
    simp only [mkSingle, hlp, bind, Except.bind, parseByKind_ver _ c hc, pure, Except.pure]
  refine ⟨!(t0 :: rest.map (·.2)).any fun t => Spec.cmpRef (litV x' r') t.ver == .eq, ?_, ?_, ?_⟩
  · simp only [itemV, itemConstraintString, Bool.false_eq_true, if_false, hm]
    rw [validateLike_ver _ (by decide) c E x' r' hev, hall]
  · have h1 : canonVar "python_full_version" = "python_full_version" := by decide
    have h3' : "python_full_version" ∈ versionVars := by decide
    simp only [evalItem, h1, show ("python_full_version" == "extra") = false by decide, Bool.false_eq_true,
      if_false, hev, List.contains_iff_mem, h3', if_true, parseFinal_relText, verListN_tokens t0 rest hs,
      mapM_parseFinal_toks]
    simp only [List.isEmpty_cons, List.map_cons, Bool.false_eq_true, if_false, if_true, Option.some.injEq,
      List.any_cons, List.any_map, show ("not in" == "in") = false by decide]
    rfl
  · simp [itemCoherent, Single.coherent, itemConstraintString, hm]

/-! ### `python_version not in "X.Y …"` -/

theorem xcore_star' (inv : Bool) (p : Nat × Nat) :
    xcore inv (starChars p) = some (inv, Version.relText [p.1, p.2]) := by
  obtain ⟨x, y⟩ := p
  obtain ⟨d, ds, hd, hdig⟩ := starChars_head (x, y)
  have h1 : vstrip (dropSpaces (starChars (x, y))) = starChars (x, y) := by
    rw [dropSpaces_noSpace _ (fun c hc => (starChars_gPlain (x, y) c hc).1), hd]; exact vstrip_digit d ds hdig
  have ht : takeDigits (starChars (x, y)) = (dg x, '.' :: (dg y ++ ['.', '*'])) := by
    have := takeDigits_append (dg x) ('.' :: (dg y ++ ['.', '*'])) (dg_isDigit x) (by intro c h; simp at h; subst h; decide)
    simpa [starChars, relChars, relTail] using this
  have ht2 : takeDigits (dg y ++ ['.', '*']) = (dg y, ['.', '*']) :=
    takeDigits_append (dg y) ['.', '*'] (dg_isDigit y) (by intro c h; simp at h; subst h; decide)
  have hne : ∀ n, (dg n).isEmpty = false := by
    intro n
    cases h : dg n with
    | nil => exact absurd h (dg_ne_nil n)
    | cons _ _ => rfl
  have hs : String.ofList (dg x ++ '.' :: dg y) = Version.relText [x, y] := by
    rw [← ofList_relChars]; simp [relChars, relTail]
  unfold xcore
  rw [h1]
  unfold xcore2
  simp [ht, hne, xmore, ht2, takeDigits, xtry, VParser.xConstraint?.stars, VParser.atEnd, hs,
    show isDigit '*' = false by decide]

def neStarChars (p : Nat × Nat) : List Char := '!' :: '=' :: starChars p

theorem parseSingle_neStar (p : Nat × Nat) :
    VParser.parseSingle (neStarChars p) true = VParser.makeXConstraintRange (litV p.1 [p.2]) true true := by
  have hx := xcore_star' true p
  have hp := parse_relText p.1 [p.2]
  unfold VParser.parseSingle
  simp [neStarChars, VParser.isAnyPattern, xConstraint?_eq, xprefix, hx, VParser.parseVersionText, hp, litV,
    bind, Except.bind, pure, Except.pure]

/-- the constraint `!=X.Y.*` denotes in a marker constraint -/
def neStarVC (p : Nat × Nat) : VC :=
  match VParser.makeXConstraintRange (litV p.1 [p.2]) true true with
  | .ok c => c
  | .error _ => .empty

/-- the bounds occurring in the clauses of a two-component list -/
def starBounds (ps : List (Nat × Nat)) : List Version := ps.flatMap fun p => [litV p.1 [p.2], H2 p.1 p.2]

theorem starBounds_final (ps : List (Nat × Nat)) : ∀ e ∈ starBounds ps, FinalV e := by
  intro e he
  simp only [starBounds, List.mem_flatMap, List.mem_cons, List.mem_nil_iff, or_false] at he
  obtain ⟨p, _, rfl | rfl⟩ := he
  · exact litV_FinalV _ _
  · exact H2_FinalV _ _

theorem neStarVC_spec (ps : List (Nat × Nat)) (p : Nat × Nat) (hp : p ∈ ps) :
    VParser.makeXConstraintRange (litV p.1 [p.2]) true true = .ok (neStarVC p) ∧ (neStarVC p).WF ∧
      (∀ x ∈ (neStarVC p).flatten, RegMember (starBounds ps) x) ∧
      ∀ x' y', (neStarVC p).allowsPlain (litV x' [y']) = !decide (x' = p.1 ∧ y' = p.2) := by
  obtain ⟨res, h1, h2, h3, h4⟩ := neStar_reg (starBounds ps) p
    (by simp only [starBounds, List.mem_flatMap]; exact ⟨p, hp, by simp⟩)
    (by simp only [starBounds, List.mem_flatMap]; exact ⟨p, hp, by simp⟩)
    (finals_regB _ (starBounds_final ps))
  have e : neStarVC p = res := by simp [neStarVC, h1]
  rw [e]; exact ⟨h1, h2, h3, h4⟩

theorem neStarChars_gPlain (p : Nat × Nat) : ∀ c ∈ neStarChars p, gPlain c := by
  intro c hc
  simp only [neStarChars, List.mem_cons] at hc
  rcases hc with rfl | rfl | hc
  · exact gPlain_bg
  · exact gPlain_eq
  · exact starChars_gPlain p c hc

/-- `!=X0.Y0.*, !=X1.Y1.*, …`: defined; admits a two-component final exactly when it is none of the tokens -/
theorem pmvc_neStarList (p0 : Nat × Nat) (ps : List (Nat × Nat)) (x' y' : Nat) :
    ∃ c, VParser.parseMarkerVersionConstraint
        (String.ofList (joinC [',', ' '] ((p0 :: ps).map neStarChars))) = .ok c ∧
      c.allows (litV x' [y']) = .ok (!(p0 :: ps).any fun p => decide (x' = p.1 ∧ y' = p.2)) := by
  -- the parser's clause constraints are `neStarVC` on the tokens of the list
  have hparse : ∀ p ∈ p0 :: ps, VParser.parseSingle (neStarChars p) true = .ok (neStarVC p) := by
    intro p hp; rw [parseSingle_neStar]; exact (neStarVC_spec (p0 :: ps) p hp).1
  -- `pmvc_commaJoin` wants the parse fact for every index; go through the sub-type of members
  have hp := pmvc_commaJoin (fun (q : {p // p ∈ p0 :: ps}) => neStarChars q.1) (fun q => neStarVC q.1)
    ⟨p0, by simp⟩ (ps.attach.map fun q => ⟨q.1, List.mem_cons_of_mem _ q.2⟩)
    (fun q => neStarChars_gPlain q.1) (fun q => ⟨_, rfl⟩)
    (fun q => ⟨'!' :: '=' :: relChars q.1.1 [q.1.2] ++ ['.'], '*', by simp [neStarChars, starChars], by decide, by decide⟩)
    (fun q => hparse q.1 q.2)
  have e1 : ((⟨p0, by simp⟩ : {p // p ∈ p0 :: ps}) :: ps.attach.map fun q => ⟨q.1, List.mem_cons_of_mem _ q.2⟩).map
      (fun q => neStarChars q.1) = (p0 :: ps).map neStarChars := by
    simp [List.map_map, Function.comp_def]
  have e2 : (ps.attach.map fun q => (⟨q.1, List.mem_cons_of_mem _ q.2⟩ : {p // p ∈ p0 :: ps})).map
      (fun q => neStarVC q.1) = ps.map neStarVC := by
    simp [List.map_map, Function.comp_def]
  rw [e1, e2] at hp
  rw [hp]
  have hBf := starBounds_final (p0 :: ps)
  have hB := finals_regB _ hBf
  obtain ⟨res, h1, h2, h3, h4⟩ := fold_intersect_reg hB hBf (ps.map neStarVC) (neStarVC p0)
    (neStarVC_spec (p0 :: ps) p0 (by simp)).2.1 (neStarVC_spec (p0 :: ps) p0 (by simp)).2.2.1
    (by
      intro d hd
      obtain ⟨p, hp', rfl⟩ := List.mem_map.1 hd
      have := neStarVC_spec (p0 :: ps) p (List.mem_cons_of_mem _ hp')
      exact ⟨this.2.1, this.2.2.1⟩)
  refine ⟨res, h1, ?_⟩
  rw [VC.allows_of_reg hB res h2 h3, h4 _ (litV_FinalV x' [y'])]
  congr 1
  rw [(neStarVC_spec (p0 :: ps) p0 (by simp)).2.2.2 x' y', List.any_cons, Bool.not_or, List.all_map]
  congr 1
  have key : ∀ l : List (Nat × Nat), (∀ p ∈ l, p ∈ p0 :: ps) →
      (l.all ((fun d => d.allowsPlain (litV x' [y'])) ∘ neStarVC)) =
        !l.any fun p => decide (x' = p.1 ∧ y' = p.2) := by
    intro l hl
    induction l with
    | nil => rfl
    | cons a as ih =>
      simp only [List.all_cons, List.any_cons, Bool.not_or, Function.comp,
        (neStarVC_spec (p0 :: ps) a (hl a (by simp))).2.2.2 x' y']
      rw [← ih (fun p hp => hl p (List.mem_cons_of_mem _ hp))]
  exact key ps (fun p hp => List.mem_cons_of_mem _ hp)

theorem versionListItem_two_ne (p : Nat × Nat) :
    ((if false then "" else "!=") ++ joinChars "." (splitDots (relChars p.1 [p.2]) ++ [['*']])).toList =
      neStarChars p := by
  rw [splitDots_relChars]
  simp [joinChars, joinWith, neStarChars, starChars, relChars, relTail]

theorem versionListConstraint_notin2 (p0 : Nat × Nat) (rest : List (String × (Nat × Nat)))
    (hs : ∀ q ∈ rest, SepRun q.1) :
    versionListConstraint false (verList2 p0 rest) =
      String.ofList (joinC [',', ' '] ((p0 :: rest.map (·.2)).map neStarChars)) := by
  have hsplit : splitListValue (verList2 p0 rest).toList = (p0 :: rest.map (·.2)).map (fun p => relChars p.1 [p.2]) := by
    rw [verList2, listLit_toList, splitListValue_join _ _ (verList2_ok p0 rest hs).listOk, ← verList2_toksC]; rfl
  have hitems : versionListItems false (verList2 p0 rest) =
      (p0 :: rest.map (·.2)).map (fun p => String.ofList (neStarChars p)) := by
    simp only [versionListItems, hsplit, List.map_map]
    apply List.map_congr_left
    intro p _
    simp only [Function.comp]
    have h2 : (splitDots (relChars p.1 [p.2])).length = 2 := by rw [splitDots_relChars]; simp
    simp only [h2]
    exact str_eq_of_toList (by rw [String.toList_ofList]; exact versionListItem_two_ne p)
  apply str_eq_of_toList
  rw [versionListConstraint, hitems]
  simp only [Bool.false_eq_true, if_false, joinWith_toList, String.toList_ofList, List.map_map, Function.comp_def]
  rfl

open Spec.Pep508 in
/-- **`python_version not in "X0.Y0 X1.Y1 …"`** on the environment value `X'.Y'` -/
theorem agree_pv_notin (E : Env) (p0 : Nat × Nat) (rest : List (String × (Nat × Nat)))
    (hs : ∀ q ∈ rest, SepRun q.1) (x' y' : Nat)
    (hev : E.get? "python_version" = some (Version.relText [x', y'])) :
    ∃ b, itemV E "python_version" "not in" (verList2 p0 rest) false = .ok b ∧
      evalItem "python_version" "not in" (verList2 p0 rest) false E = some b ∧
      itemCoherent "python_version" "not in" (verList2 p0 rest) false = true := by
  obtain ⟨c, hc, hall⟩ := pmvc_neStarList p0 (rest.map (·.2)) x' y'
  rw [← versionListConstraint_notin2 p0 rest hs] at hc
  have hlp := leafPrepare_list_ver "python_version" (by decide) "not in" false (Or.inr ⟨rfl, rfl⟩)
    (verList2 p0 rest) (listLit_valueOk _ _ (verList2_ok p0 rest hs))
  have hm : mkSingle "python_version" ("not in" ++ verList2 p0 rest) false =
      .ok ⟨"python_version", "not in", verList2 p0 rest, false, .ver c⟩ := by
    simp only [mkSingle, hlp, bind, Except.bind, parseByKind_ver _ c hc, pure, Except.pure]
  have htok : tokens (verList2 p0 rest) = (p0 :: rest.map (·.2)).map tok2 := by
    rw [verList2, tokens_listLit _ _ (verList2_ok p0 rest hs)]
    simp [listToks, List.map_map, Function.comp_def]
  have hmapM : ((p0 :: rest.map (·.2)).map tok2).mapM parseFinal =
      some ((p0 :: rest.map (·.2)).map fun p => litV p.1 [p.2]) := by
    generalize p0 :: rest.map (·.2) = l
    induction l with
    | nil => rfl
    | cons a as ih => simp [List.mapM_cons, tok2, parseFinal_relText, ih]
  refine ⟨!(p0 :: rest.map (·.2)).any fun p => decide (x' = p.1 ∧ y' = p.2), ?_, ?_, ?_⟩
  · simp only [itemV, itemConstraintString, Bool.false_eq_true, if_false, hm]
    rw [validateLike_ver _ (by decide) c E x' [y'] hev, hall]
  · have h1 : canonVar "python_version" = "python_version" := by decide
    have h3 : "python_version" ∈ versionVars := by decide
    simp only [evalItem, h1, show ("python_version" == "extra") = false by decide, Bool.false_eq_true, if_false,
      hev, List.contains_iff_mem, h3, if_true, parseFinal_relText, htok, hmapM]
    simp only [List.isEmpty_cons, List.map_cons, Bool.false_eq_true, if_false, if_true, Option.some.injEq,
      show ("not in" == "in") = false by decide]
    have key : ∀ l : List (Nat × Nat),
        ((l.map fun p => litV p.1 [p.2]).any fun lit => Spec.cmpRef (litV x' [y']) lit == Ordering.eq) =
          l.any fun p => decide (x' = p.1 ∧ y' = p.2) := by
      intro l
      induction l with
      | nil => rfl
      | cons p ps ih =>
        have h1 : (Spec.cmpRef (litV x' [y']) (litV p.1 [p.2]) == Ordering.eq) = decide (x' = p.1 ∧ y' = p.2) := by
          apply bool_eq_of_iff
          rw [beq_iff_eq, cmpRef_final (litV_final x' [y']) (litV_final p.1 [p.2]), decide_eq_true_eq]
          exact sc_pair_eq p.1 p.2 x' y'
        simp only [List.map_cons, List.any_cons, ih, h1]
    have hk := key (p0 :: rest.map (·.2))
    simp only [List.map_cons] at hk
    rw [hk]
  · simp [itemCoherent, Single.coherent, itemConstraintString, hm]

end Poetry.Marker
