/-
The part of the leaf facts that flattening, duplicate removal and `invert` need: marker equality implies equal
truth (`LeafCongr`).  The list-level lemmas of `MarkerSem` and the De Morgan induction of `invert` are restated
over it, so that `invert` can be shown sound on markers whose leaves are outside every fragment closed under
`_merge_single_markers` (`in` / `not in` lists on the version variables, for instance): inversion never merges.
(The text below the structure is the `MarkerSem` / `MarkerAlgSoundInvert` development with `LeafSpec` replaced by
`LeafCongr`; only `congr` was ever used there.)
-/
import PoetryVerif.Proofs.MarkerAlgSoundInvert

set_option linter.unusedSimpArgs false
set_option linter.unusedVariables false

namespace Poetry.Marker

/-- marker equality implies equal truth on the leaves satisfying `G` -/
structure LeafCongr (ev : Leaf → Bool) (G : Leaf → Prop) : Prop where
  congr : ∀ a b, G a → G b → Leaf.beq a b = true → ev a = ev b

theorem LeafSpec.toCongr {ev : Leaf → Bool} {G : Leaf → Prop} (S : LeafSpec ev G) : LeafCongr ev G := ⟨S.congr⟩

variable {ev : Leaf → Bool} {G : Leaf → Prop}

mutual
theorem M.beq_semC (S : LeafCongr ev G) : ∀ a b : M, M.Good G a → M.Good G b → M.beq a b = true →
    M.sem ev a = M.sem ev b
  | .any, b, _, _, h => by cases b <;> simp [M.beq] at h ⊢
  | .empty, b, _, _, h => by cases b <;> simp [M.beq] at h ⊢
  | .leaf l, b, ha, hb, h => by
      cases b <;> simp [M.beq] at h ⊢
      exact S.congr _ _ (by simpa using ha) (by simpa using hb) h
  | .multi as, b, ha, hb, h => by
      cases b <;> simp [M.beq] at h
      simp only [M.sem]
      exact (M.beqList_semC S as _ (by simpa [M.Good] using ha) (by simpa [M.Good] using hb) h).1
  | .union as, b, ha, hb, h => by
      cases b <;> simp [M.beq] at h
      simp only [M.sem]
      exact (M.beqList_semC S as _ (by simpa [M.Good] using ha) (by simpa [M.Good] using hb) h).2
theorem M.beqList_semC (S : LeafCongr ev G) : ∀ as bs : List M, M.GoodAll G as → M.GoodAll G bs →
    M.beqList as bs = true → M.semAll ev as = M.semAll ev bs ∧ M.semAny ev as = M.semAny ev bs
  | [], bs, _, _, h => by cases bs <;> simp [M.beqList] at h ⊢
  | a :: as, [], _, _, h => by simp [M.beqList] at h
  | a :: as, b :: bs, ha, hb, h => by
      simp [M.beqList] at h
      have h1 := M.beq_semC S a b ha.1 hb.1 h.1
      have h2 := M.beqList_semC S as bs ha.2 hb.2 h.2
      simp [M.semAll, M.semAny, h1, h2.1, h2.2]
end


/-- `m in markers` (by `__eq__`): some member has the same truth value -/
theorem M.mem_semC (S : LeafCongr ev G) {m : M} {l : List M} (hm : M.Good G m)
    (hl : ∀ x ∈ l, M.Good G x) (h : M.mem m l = true) : ∃ x ∈ l, M.sem ev x = M.sem ev m := by
  simp only [M.mem, List.any_eq_true] at h
  obtain ⟨x, hx, hb⟩ := h
  exact ⟨x, hx, (M.beq_semC S m x hm (hl x hx) hb).symm⟩

theorem M.mem_allC (S : LeafCongr ev G) {m : M} {l : List M} (hm : M.Good G m)
    (hl : ∀ x ∈ l, M.Good G x) (h : M.mem m l = true) :
    (l.all (M.sem ev) && M.sem ev m) = l.all (M.sem ev) := by
  obtain ⟨x, hx, he⟩ := M.mem_semC S hm hl h
  cases hs : M.sem ev m
  · have : l.all (M.sem ev) = false := by
      simp only [List.all_eq_false]; exact ⟨x, hx, by simp [he, hs]⟩
    simp [this]
  · simp

theorem M.mem_anyC (S : LeafCongr ev G) {m : M} {l : List M} (hm : M.Good G m)
    (hl : ∀ x ∈ l, M.Good G x) (h : M.mem m l = true) :
    (l.any (M.sem ev) || M.sem ev m) = l.any (M.sem ev) := by
  obtain ⟨x, hx, he⟩ := M.mem_semC S hm hl h
  cases hs : M.sem ev m
  · simp
  · have : l.any (M.sem ev) = true := by
      simp only [List.any_eq_true]; exact ⟨x, hx, by simp [he, hs]⟩
    simp [this]

/-! ### duplicates and flattening -/

theorem appendOne_specC (S : LeafCongr ev G) (acc : List M) (m : M) (ha : ∀ x ∈ acc, M.Good G x)
    (hm : M.Good G m) :
    (∀ x ∈ (if M.mem m acc = true then acc else acc ++ [m]), M.Good G x) ∧
    (if M.mem m acc = true then acc else acc ++ [m]).all (M.sem ev) = (acc.all (M.sem ev) && M.sem ev m) ∧
    (if M.mem m acc = true then acc else acc ++ [m]).any (M.sem ev) = (acc.any (M.sem ev) || M.sem ev m) := by
  by_cases h : M.mem m acc = true
  · simp only [h, if_true]
    exact ⟨ha, (M.mem_allC S hm ha h).symm, (M.mem_anyC S hm ha h).symm⟩
  · simp only [h, if_false]
    refine ⟨?_, by simp, by simp⟩
    intro x hx
    simp at hx
    rcases hx with hx | rfl
    · exact ha x hx
    · exact hm

theorem appendNew_specC (S : LeafCongr ev G) (ms : List M) : ∀ (acc : List M), (∀ x ∈ acc, M.Good G x) →
    (∀ x ∈ ms, M.Good G x) →
    (∀ x ∈ appendNew acc ms, M.Good G x) ∧
    (appendNew acc ms).all (M.sem ev) = (acc.all (M.sem ev) && ms.all (M.sem ev)) ∧
    (appendNew acc ms).any (M.sem ev) = (acc.any (M.sem ev) || ms.any (M.sem ev)) := by
  induction ms with
  | nil => intro acc ha _; simp [appendNew]; exact ha
  | cons m ms ih =>
    intro acc ha hm
    have h1 := appendOne_specC S acc m ha (hm m (by simp))
    have h2 := ih (if M.mem m acc = true then acc else acc ++ [m]) h1.1 (fun x hx => hm x (by simp [hx]))
    simp only [appendNew, List.foldl_cons] at h2 ⊢
    refine ⟨h2.1, ?_, ?_⟩
    · rw [h2.2.1, h1.2.1]; simp [Bool.and_assoc]
    · rw [h2.2.2, h1.2.2]; simp [Bool.or_assoc]

theorem flattenAux_multiC (S : LeafCongr ev G) (ms acc : List M) : (∀ x ∈ ms, M.Good G x) →
    (∀ x ∈ acc, M.Good G x) →
    (∀ x ∈ flattenAux true ms acc, M.Good G x) ∧
    (flattenAux true ms acc).all (M.sem ev) = (acc.all (M.sem ev) && ms.all (M.sem ev)) := by
  induction ms, acc using flattenAux.induct true with
  | case1 acc => intro _ ha; rw [flattenAux.eq_def]; simp; exact ha
  | case2 rest acc inner _ ih1 ih2 =>
    intro hm ha
    rw [flattenAux.eq_def]
    simp only
    have hi : ∀ x ∈ inner, M.Good G x := by
      have := hm (.multi inner) (by simp); simpa using this
    have h1 := ih1 hi (by simp)
    have h2 := appendNew_specC S (flattenAux true inner []) acc ha h1.1
    have h3 := ih2 (fun x hx => hm x (by simp [hx])) h2.1
    refine ⟨h3.1, ?_⟩
    rw [h3.2, h2.2.1, h1.2]; simp [Bool.and_assoc]
  | case3 rest acc inner h => exact absurd h (by simp)
  | case4 rest acc m hn1 hn2 ih =>
    intro hm ha
    have h1 := appendOne_specC S acc m ha (hm m (by simp))
    simp only [dite_eq_ite] at ih
    have h3 := ih (fun x hx => hm x (by simp [hx])) h1.1
    rw [flattenAux.eq_def]
    have e : (match m, true with
      | M.multi inner, true => flattenAux true rest (appendNew acc (flattenAux true inner []))
      | M.union inner, false => flattenAux true rest (appendNew acc (flattenAux true inner []))
      | m, x => flattenAux true rest (if m.mem acc = true then acc else acc ++ [m])) =
        flattenAux true rest (if m.mem acc = true then acc else acc ++ [m]) := by
      cases m <;> first | rfl | (exact absurd rfl (fun h => hn1 _ h rfl))
    simp only [e]
    refine ⟨h3.1, ?_⟩
    rw [h3.2, h1.2.1]; simp [Bool.and_assoc]
theorem flattenAux_unionC (S : LeafCongr ev G) (ms acc : List M) : (∀ x ∈ ms, M.Good G x) →
    (∀ x ∈ acc, M.Good G x) →
    (∀ x ∈ flattenAux false ms acc, M.Good G x) ∧
    (flattenAux false ms acc).any (M.sem ev) = (acc.any (M.sem ev) || ms.any (M.sem ev)) := by
  induction ms, acc using flattenAux.induct false with
  | case1 acc => intro _ ha; rw [flattenAux.eq_def]; simp; exact ha
  | case2 rest acc inner h => exact absurd h (by simp)
  | case3 rest acc inner _ ih1 ih2 =>
    intro hm ha
    rw [flattenAux.eq_def]
    simp only
    have hi : ∀ x ∈ inner, M.Good G x := by
      have := hm (.union inner) (by simp); simpa using this
    have h1 := ih1 hi (by simp)
    have h2 := appendNew_specC S (flattenAux false inner []) acc ha h1.1
    have h3 := ih2 (fun x hx => hm x (by simp [hx])) h2.1
    refine ⟨h3.1, ?_⟩
    rw [h3.2, h2.2.2, h1.2]; simp [Bool.or_assoc]
  | case4 rest acc m hn1 hn2 ih =>
    intro hm ha
    have h1 := appendOne_specC S acc m ha (hm m (by simp))
    simp only [dite_eq_ite] at ih
    have h3 := ih (fun x hx => hm x (by simp [hx])) h1.1
    rw [flattenAux.eq_def]
    have e : (match m, false with
      | M.multi inner, true => flattenAux false rest (appendNew acc (flattenAux false inner []))
      | M.union inner, false => flattenAux false rest (appendNew acc (flattenAux false inner []))
      | m, x => flattenAux false rest (if m.mem acc = true then acc else acc ++ [m])) =
        flattenAux false rest (if m.mem acc = true then acc else acc ++ [m]) := by
      cases m <;> first | rfl | (exact absurd rfl (fun h => hn2 _ h rfl))
    simp only [e]
    refine ⟨h3.1, ?_⟩
    rw [h3.2, h1.2.2]; simp [Bool.or_assoc]

theorem flattenMulti_specC (S : LeafCongr ev G) (ms : List M) (hm : ∀ x ∈ ms, M.Good G x) :
    (∀ x ∈ flattenMarkers true ms, M.Good G x) ∧
    (flattenMarkers true ms).all (M.sem ev) = ms.all (M.sem ev) := by
  have := flattenAux_multiC S ms [] hm (by simp)
  simpa [flattenMarkers] using this

theorem flattenUnion_specC (S : LeafCongr ev G) (ms : List M) (hm : ∀ x ∈ ms, M.Good G x) :
    (∀ x ∈ flattenMarkers false ms, M.Good G x) ∧
    (flattenMarkers false ms).any (M.sem ev) = ms.any (M.sem ev) := by
  have := flattenAux_unionC S ms [] hm (by simp)
  simpa [flattenMarkers] using this

theorem mkMulti_specC (S : LeafCongr ev G) (ms : List M) (hm : ∀ x ∈ ms, M.Good G x) :
    M.Good G (mkMulti ms) ∧ M.sem ev (mkMulti ms) = ms.all (M.sem ev) := by
  have := flattenMulti_specC S ms hm
  simpa [mkMulti] using this

theorem mkUnion_specC (S : LeafCongr ev G) (ms : List M) (hm : ∀ x ∈ ms, M.Good G x) :
    M.Good G (mkUnion ms) ∧ M.sem ev (mkUnion ms) = ms.any (M.sem ev) := by
  have := flattenUnion_specC S ms hm
  simpa [mkUnion] using this


mutual
/-- `invert` on a marker all of whose leaves invert soundly (De Morgan over the flattening constructors) -/
theorem M.invert_sound_congr {ev : Leaf → Bool} {G : Leaf → Prop} (S : LeafCongr ev G) :
    ∀ (a r : M), M.Good (InvOK ev G) a → M.invert a = .ok r →
      M.Good G r ∧ M.sem ev r = !M.sem ev a
  | .any, r, _, h => by simp [M.invert] at h; subst h; simp
  | .empty, r, _, h => by simp [M.invert] at h; subst h; simp
  | .leaf l, r, hg, h => by
      simp only [M.invert] at h
      have := ((M.good_leaf l).1 hg) r h
      simpa using this
  | .multi ms, r, hg, h => by
      simp only [M.invert] at h
      obtain ⟨is, h1, h2⟩ := bind_ok.1 h
      rw [pure_ok] at h2; subst h2
      have hl := M.invertList_sound_congr S ms is (by simpa using hg) h1
      have := mkUnion_specC (ev := ev) S is hl.1
      refine ⟨this.1, ?_⟩
      rw [this.2, M.sem_multi, ← any_not_eq]
      have e : ∀ l : List M, l.any (fun m => !M.sem ev m) = (l.map (fun m => !M.sem ev m)).any id := by
        intro l; simp [List.any_map]
      have e' : is.any (M.sem ev) = (is.map (M.sem ev)).any id := by simp [List.any_map]
      rw [e', hl.2, e]
  | .union ms, r, hg, h => by
      simp only [M.invert] at h
      obtain ⟨is, h1, h2⟩ := bind_ok.1 h
      rw [pure_ok] at h2; subst h2
      have hl := M.invertList_sound_congr S ms is (by simpa using hg) h1
      have := mkMulti_specC (ev := ev) S is hl.1
      refine ⟨this.1, ?_⟩
      rw [this.2, M.sem_union, ← all_not_eq]
      have e : ∀ l : List M, l.all (fun m => !M.sem ev m) = (l.map (fun m => !M.sem ev m)).all id := by
        intro l; simp [List.all_map]
      have e' : is.all (M.sem ev) = (is.map (M.sem ev)).all id := by simp [List.all_map]
      rw [e', hl.2, e]
theorem M.invertList_sound_congr {ev : Leaf → Bool} {G : Leaf → Prop} (S : LeafCongr ev G) :
    ∀ (ms rs : List M), (∀ x ∈ ms, M.Good (InvOK ev G) x) → M.invertList ms = .ok rs →
      (∀ x ∈ rs, M.Good G x) ∧ rs.map (M.sem ev) = ms.map (fun m => !M.sem ev m)
  | [], rs, _, h => by simp [M.invertList] at h; subst h; simp
  | m :: ms, rs, hg, h => by
      simp only [M.invertList] at h
      obtain ⟨x, h1, h⟩ := bind_ok.1 h
      obtain ⟨xs, h2, h3⟩ := bind_ok.1 h
      rw [pure_ok] at h3; subst h3
      have a := M.invert_sound_congr S m x (hg m (by simp)) h1
      have b := M.invertList_sound_congr S ms xs (fun y hy => hg y (by simp [hy])) h2
      refine ⟨?_, by simp [a.2, b.2]⟩
      intro y hy; simp at hy; rcases hy with rfl | hy
      · exact a.1
      · exact b.1 y hy
end


end Poetry.Marker
