/-
C14: the two pyproject table styles give the same core metadata when `[project].requires-python` is the text
poetry-core prints (`format_python_constraint`) for the legacy `python` requirement — for ANY parsed requirement
(version, range, union, wildcard spelling).  The printed text need not parse back to the structurally same
constraint (`==3.9.*` reads back with upper end `3.10.dev0`, a union is printed as `>=…, !=X.*, …`); what the
metadata depends on is only which `AVAILABLE_PYTHONS` targets the constraint accepts.
-/
import PoetryVerif.Proofs.MetaStylesRange
import PoetryVerif.Proofs.MetaClassifiers

set_option linter.unusedSimpArgs false
set_option linter.unusedVariables false

namespace Poetry.Meta
open Poetry

/-! ## 1. the classifier loop only looks at `allowsAny` on the targets -/

theorem pythonClassifiersLoop_congr (a b : VC) (vs acc : List String)
    (h : ∀ v ∈ vs, ∀ t, pythonTarget v = .ok t → a.allowsAny t = b.allowsAny t) :
    pythonClassifiersLoop a vs acc = pythonClassifiersLoop b vs acc := by
  induction vs generalizing acc with
  | nil => rfl
  | cons v vs ih =>
    have ih' := fun acc => ih acc (fun w hw => h w (List.mem_cons_of_mem _ hw))
    unfold pythonClassifiersLoop
    cases ht : pythonTarget v with
    | error e => simp only [bind, Except.bind]
    | ok t =>
      have hab := h v List.mem_cons_self t ht
      simp only [bind, Except.bind, hab, ih']

theorem pythonClassifiers_congr (a b : VC)
    (h : ∀ v ∈ Gen.availablePythons, ∀ t, pythonTarget v = .ok t → a.allowsAny t = b.allowsAny t) :
    pythonClassifiers a = pythonClassifiers b :=
  pythonClassifiersLoop_congr a b _ _ (fun v hv => h v (mem_availablePythonsSorted.mp hv))

/-! ## 2. `toMeta` / `toMetaM` for two packages whose `python_versions` accept the same targets -/

/-- `toMeta` depends on `python_versions` only through the `"*"` test and the `AVAILABLE_PYTHONS` targets its parse
accepts; on `requires_python` only through `Requires-Python` -/
theorem toMeta_agree_congr (p q : Pkg) (texts : List String) (t : String) (cp cq : VC)
    (h1 : p.prettyName = q.prettyName) (h2 : p.version = q.version) (h3 : p.authors = q.authors)
    (h4 : p.maintainers = q.maintainers) (h5 : p.description = q.description) (h6 : p.license = q.license)
    (h9 : p.keywords = q.keywords) (h10 : p.classifiers = q.classifiers)
    (h11 : p.dynamicClassifiers = q.dynamicClassifiers) (h12 : p.homepage = q.homepage)
    (h13 : p.repositoryUrl = q.repositoryUrl) (h14 : p.documentationUrl = q.documentationUrl)
    (h15 : p.customUrls = q.customUrls) (h16 : p.readmeContent = q.readmeContent)
    (h17 : p.readmeContentType = q.readmeContentType) (h18 : p.readmes = q.readmes)
    (h19 : p.extras = q.extras) (h20 : p.requiresDist = q.requiresDist)
    (hpne : p.pythonVersions ≠ "*") (hqne : q.pythonVersions ≠ "*")
    (hpp : VParser.parseConstraint p.pythonVersions = .ok cp)
    (hqp : VParser.parseConstraint q.pythonVersions = .ok cq)
    (hagree : ∀ v ∈ Gen.availablePythons, ∀ tv, pythonTarget v = .ok tv → cp.allowsAny tv = cq.allowsAny tv)
    (hpr : p.requiresPython = t) (ht : t ≠ "*") (hqr : q.requiresPython = "*") :
    p.toMeta texts t = q.toMeta texts t := by
  have hcl := pythonClassifiers_congr cp cq hagree
  simp only [Pkg.toMeta, Pkg.allClassifiers, Pkg.classifierPython, Pkg.urls,
    h1, h2, h3, h4, h5, h6, h9, h10, h11, h12, h13, h14, h15, h16, h17, h18, h19, h20,
    hpne, hqne, hpp, hqp, hpr, hqr, ht, if_false, ne_eq, not_true_eq_false, not_false_eq_true, if_true,
    bind, Except.bind, hcl]

/-- the formatted Python constraint of a package whose `python_versions` parses to `c`, printed as `t` -/
theorem toMetaM_of_printed (p : Pkg) (texts : List String) (c : VC) (t : String)
    (hne : p.pythonVersions ≠ "*")
    (hparse : VParser.parseConstraint p.pythonVersions = .ok c)
    (hs : Dep02.formatPythonConstraint c = .ok t) :
    p.toMetaM texts = p.toMeta texts t := by
  simp only [Pkg.toMetaM, hne, if_false, hparse, hs, bind, Except.bind]

/-- with `[project].requires-python` set, `toMeta` does not use the formatted Python constraint -/
theorem toMeta_requiresPython_set (p : Pkg) (texts : List String) (f g : String) (h : p.requiresPython ≠ "*") :
    p.toMeta texts f = p.toMeta texts g := by
  simp only [Pkg.toMeta, h, ne_eq, not_false_eq_true, if_true]

/-- `Metadata.from_package` as the source has it: `format_python_constraint(package.python_constraint)` is only
evaluated in the `elif package.python_versions != "*"` branch, i.e. not when `requires_python` is set.
(`Pkg.toMetaM` evaluates it whenever `python_versions ≠ "*"`, so it can raise where the source does not.) -/
def Pkg.toMetaF (p : Pkg) (texts : List String) : PyM Meta := do
  let fp ← (if p.requiresPython ≠ "*" then pure ""
            else if p.pythonVersions = "*" then pure ""
            else do
              let c ← VParser.parseConstraint p.pythonVersions
              Dep02.formatPythonConstraint c)
  p.toMeta texts fp

theorem toMetaF_of_requiresPython (p : Pkg) (texts : List String) (f : String) (h : p.requiresPython ≠ "*") :
    p.toMetaF texts = p.toMeta texts f := by
  simp only [Pkg.toMetaF, h, ne_eq, not_false_eq_true, if_true, bind, Except.bind, pure, Except.pure]
  exact toMeta_requiresPython_set p texts _ _ h

theorem toMetaF_eq_toMetaM_of_unset (p : Pkg) (texts : List String) (h : p.requiresPython = "*") :
    p.toMetaF texts = p.toMetaM texts := by
  simp only [Pkg.toMetaF, Pkg.toMetaM, h, ne_eq, not_true_eq_false, if_false]

/-- where `toMetaM` succeeds in formatting, it agrees with the source-order `toMetaF` -/
theorem toMetaM_eq_toMetaF (p : Pkg) (texts : List String) (c : VC) (t : String)
    (hne : p.pythonVersions ≠ "*") (hparse : VParser.parseConstraint p.pythonVersions = .ok c)
    (hs : Dep02.formatPythonConstraint c = .ok t) :
    p.toMetaM texts = p.toMetaF texts := by
  rw [toMetaM_of_printed p texts c t hne hparse hs]
  by_cases h : p.requiresPython = "*"
  · rw [toMetaF_eq_toMetaM_of_unset p texts h, toMetaM_of_printed p texts c t hne hparse hs]
  · rw [toMetaF_of_requiresPython p texts t h]

/-- the core of the two theorems below: the two configured packages give the same `toMeta` on the printed text -/
theorem project_eq_legacy_toMeta (c : Common) (spdx : String → Option License) (extras rd texts : List String)
    (r t : String) (cr ct : VC) (hw : c.Wf)
    (hr : VParser.parseConstraint r = .ok cr) (hr' : r ≠ "*") (ht' : t ≠ "*")
    (hrt : VParser.parseConstraint t = .ok ct)
    (hagree : ∀ v ∈ Gen.availablePythons, ∀ tv, pythonTarget v = .ok tv → ct.allowsAny tv = cr.allowsAny tv) :
    (configure ({c with python := some t} : Common).toProject.1 ({c with python := some t} : Common).toProject.2
        spdx none extras rd).toMeta texts t =
      (configure {} ({c with python := some r} : Common).toLegacy spdx none extras rd).toMeta texts t := by
  have hpkg := project_eq_legacy_pkg ({c with python := some t} : Common) spdx extras rd
    hw.name_ne hw.version_ne hw.custom_not_special hw.custom_keys_nodup
  apply toMeta_agree_congr _ _ texts t ct cr
  · have h := congrArg Pkg.prettyName hpkg; exact h
  · have h := congrArg Pkg.version hpkg; exact h
  · have h := congrArg Pkg.authors hpkg; exact h
  · have h := congrArg Pkg.maintainers hpkg; exact h
  · have h := congrArg Pkg.description hpkg; exact h
  · have h := congrArg Pkg.license hpkg; exact h
  · have h := congrArg Pkg.keywords hpkg; exact h
  · have h := congrArg Pkg.classifiers hpkg; exact h
  · have h := congrArg Pkg.dynamicClassifiers hpkg; exact h
  · have h := congrArg Pkg.homepage hpkg; exact h
  · have h := congrArg Pkg.repositoryUrl hpkg; exact h
  · have h := congrArg Pkg.documentationUrl hpkg; exact h
  · have h := congrArg Pkg.customUrls hpkg; exact h
  · have h := congrArg Pkg.readmeContent hpkg; exact h
  · have h := congrArg Pkg.readmeContentType hpkg; exact h
  · have h := congrArg Pkg.readmes hpkg; exact h
  · have h := congrArg Pkg.extras hpkg; exact h
  · have h := congrArg Pkg.requiresDist hpkg; exact h
  · exact ht'
  · exact hr'
  · exact hrt
  · exact hr
  · exact hagree
  · rfl
  · exact ht'
  · rfl

/-- **PEP 621 `requires-python = t` and legacy `python = r` give the same metadata** (`from_package` in source
order) whenever `t` is the text poetry-core prints as `Requires-Python` for the legacy project and `t` reads back to
a constraint accepting the same `AVAILABLE_PYTHONS` targets — `r` may be a version, a range, a union, a wildcard -/
theorem project_eq_legacy_printedF (c : Common) (spdx : String → Option License) (extras rd texts : List String)
    (r t : String) (cr ct : VC) (hw : c.Wf)
    (hr : VParser.parseConstraint r = .ok cr) (hr' : r ≠ "*") (ht' : t ≠ "*")
    (hf : Dep02.formatPythonConstraint cr = .ok t)
    (hrt : VParser.parseConstraint t = .ok ct)
    (hagree : ∀ v ∈ Gen.availablePythons, ∀ tv, pythonTarget v = .ok tv → ct.allowsAny tv = cr.allowsAny tv) :
    (configure ({c with python := some t} : Common).toProject.1 ({c with python := some t} : Common).toProject.2
        spdx none extras rd).toMetaF texts =
      (configure {} ({c with python := some r} : Common).toLegacy spdx none extras rd).toMetaF texts := by
  rw [toMetaF_of_requiresPython _ texts t (by exact ht'),
    toMetaF_eq_toMetaM_of_unset _ texts (by rfl),
    toMetaM_of_printed _ texts cr t (by exact hr') (by exact hr) hf]
  exact project_eq_legacy_toMeta c spdx extras rd texts r t cr ct hw hr hr' ht' hrt hagree

/-- the same for `toMetaM` (which formats the read-back constraint `ct` too, although the source does not: hence
`hfct`, that this succeeds — with whatever text) -/
theorem project_eq_legacy_printed (c : Common) (spdx : String → Option License) (extras rd texts : List String)
    (r t t' : String) (cr ct : VC) (hw : c.Wf)
    (hr : VParser.parseConstraint r = .ok cr) (hr' : r ≠ "*") (ht' : t ≠ "*")
    (hf : Dep02.formatPythonConstraint cr = .ok t)
    (hrt : VParser.parseConstraint t = .ok ct)
    (hfct : Dep02.formatPythonConstraint ct = .ok t')
    (hagree : ∀ v ∈ Gen.availablePythons, ∀ tv, pythonTarget v = .ok tv → ct.allowsAny tv = cr.allowsAny tv) :
    (configure ({c with python := some t} : Common).toProject.1 ({c with python := some t} : Common).toProject.2
        spdx none extras rd).toMetaM texts =
      (configure {} ({c with python := some r} : Common).toLegacy spdx none extras rd).toMetaM texts := by
  rw [toMetaM_of_printed _ texts ct t' (by exact ht') (by exact hrt) hfct,
    toMetaM_of_printed _ texts cr t (by exact hr') (by exact hr) hf,
    toMeta_requiresPython_set _ texts t' t (by exact ht')]
  exact project_eq_legacy_toMeta c spdx extras rd texts r t cr ct hw hr hr' ht' hrt hagree

/-! ## 3. closed instances: every hypothesis on the two texts as one kernel-evaluated Boolean check -/

/-- Boolean form of the agreement hypothesis -/
def agreeB (ct cr : VC) : Bool :=
  Gen.availablePythons.all (fun v => match pythonTarget v with
    | .ok tv => (match ct.allowsAny tv, cr.allowsAny tv with
        | .ok x, .ok y => x == y | .error e, .error e' => e == e' | _, _ => false)
    | .error _ => true)

theorem agree_of_agreeB (ct cr : VC) (h : agreeB ct cr = true) :
    ∀ v ∈ Gen.availablePythons, ∀ tv, pythonTarget v = .ok tv → ct.allowsAny tv = cr.allowsAny tv := by
  intro v hv tv htv
  have := List.all_eq_true.mp h v hv
  simp only [htv] at this
  cases h1 : ct.allowsAny tv <;> cases h2 : cr.allowsAny tv <;> simp_all

/-- all the hypotheses of `project_eq_legacy_printed` on the texts `r` (legacy `python`) and `t`
(`requires-python`), as one Boolean check: neither is `"*"`, `r` parses, `format_python_constraint` of it is `t`,
`t` parses, the two constraints answer `allows_any` alike on every `AVAILABLE_PYTHONS` target, and (for `toMetaM`
only) the read-back constraint can be formatted -/
def printedCheck (r t : String) : Bool :=
  r != "*" && t != "*" &&
  match VParser.parseConstraint r with
  | .error _ => false
  | .ok cr =>
    match Dep02.formatPythonConstraint cr with
    | .error _ => false
    | .ok t0 =>
      t0 == t &&
      match VParser.parseConstraint t with
      | .error _ => false
      | .ok ct =>
        agreeB ct cr &&
        match Dep02.formatPythonConstraint ct with
        | .error _ => false
        | .ok _ => true

theorem printedCheck_spec (r t : String) (h : printedCheck r t = true) :
    r ≠ "*" ∧ t ≠ "*" ∧ ∃ cr ct t', VParser.parseConstraint r = .ok cr ∧
      Dep02.formatPythonConstraint cr = .ok t ∧ VParser.parseConstraint t = .ok ct ∧
      Dep02.formatPythonConstraint ct = .ok t' ∧ agreeB ct cr = true := by
  unfold printedCheck at h
  cases h1 : VParser.parseConstraint r with
  | error e => simp [h1] at h
  | ok cr =>
    cases h2 : Dep02.formatPythonConstraint cr with
    | error e => simp [h1, h2] at h
    | ok t0 =>
      cases h3 : VParser.parseConstraint t with
      | error e => simp [h1, h2, h3] at h
      | ok ct =>
        cases h4 : Dep02.formatPythonConstraint ct with
        | error e => simp [h1, h2, h3, h4] at h
        | ok t' =>
          simp [h1, h2, h3, h4] at h
          obtain ⟨⟨hr, ht⟩, he, ha⟩ := h
          subst he
          exact ⟨hr, ht, cr, ct, t', rfl, h2, rfl, h4, ha⟩

/-- both metadata equalities from the Boolean check -/
theorem project_eq_legacy_of_check (c : Common) (spdx : String → Option License) (extras rd texts : List String)
    (r t : String) (hw : c.Wf) (h : printedCheck r t = true) :
    ((configure ({c with python := some t} : Common).toProject.1 ({c with python := some t} : Common).toProject.2
        spdx none extras rd).toMetaM texts =
      (configure {} ({c with python := some r} : Common).toLegacy spdx none extras rd).toMetaM texts) ∧
    ((configure ({c with python := some t} : Common).toProject.1 ({c with python := some t} : Common).toProject.2
        spdx none extras rd).toMetaF texts =
      (configure {} ({c with python := some r} : Common).toLegacy spdx none extras rd).toMetaF texts) := by
  obtain ⟨hr', ht', cr, ct, t', hr, hf, hrt, hfct, ha⟩ := printedCheck_spec r t h
  exact ⟨project_eq_legacy_printed c spdx extras rd texts r t t' cr ct hw hr hr' ht' hf hrt hfct
      (agree_of_agreeB ct cr ha),
    project_eq_legacy_printedF c spdx extras rd texts r t cr ct hw hr hr' ht' hf hrt (agree_of_agreeB ct cr ha)⟩

/-- what `format_python_constraint` prints for `~2.7 || ^3.6` is built from `PYTHON_VERSION` as generated from the
source -/
example : Gen.pythonVersionList.take 7 = ["2.7.*", "3.0.*", "3.1.*", "3.2.*", "3.3.*", "3.4.*", "3.5.*"] := by
  decide

set_option maxRecDepth 100000 in
theorem printedCheck_union_27_36 :
    printedCheck "~2.7 || ^3.6" ">=2.7, !=3.0.*, !=3.1.*, !=3.2.*, !=3.3.*, !=3.4.*, !=3.5.*" = true := by
  decide +kernel

/-- **(a) a union**: legacy `python = "~2.7 || ^3.6"` vs. PEP 621
`requires-python = ">=2.7, !=3.0.*, !=3.1.*, !=3.2.*, !=3.3.*, !=3.4.*, !=3.5.*"` (the text poetry-core prints; it
reads back to a different union: ends `3.0.dev0`, `3.6.dev0` instead of `2.8`/`3.6`, no upper end `4.0`) -/
theorem project_eq_legacy_union_27_36 (c : Common) (hw : c.Wf) (spdx : String → Option License)
    (extras rd texts : List String) :
    (configure ({c with python := some ">=2.7, !=3.0.*, !=3.1.*, !=3.2.*, !=3.3.*, !=3.4.*, !=3.5.*"} : Common).toProject.1
        ({c with python := some ">=2.7, !=3.0.*, !=3.1.*, !=3.2.*, !=3.3.*, !=3.4.*, !=3.5.*"} : Common).toProject.2
        spdx none extras rd).toMetaM texts =
      (configure {} ({c with python := some "~2.7 || ^3.6"} : Common).toLegacy spdx none extras rd).toMetaM texts :=
  (project_eq_legacy_of_check c spdx extras rd texts _ _ hw printedCheck_union_27_36).1

theorem project_eq_legacy_union_27_36F (c : Common) (hw : c.Wf) (spdx : String → Option License)
    (extras rd texts : List String) :
    (configure ({c with python := some ">=2.7, !=3.0.*, !=3.1.*, !=3.2.*, !=3.3.*, !=3.4.*, !=3.5.*"} : Common).toProject.1
        ({c with python := some ">=2.7, !=3.0.*, !=3.1.*, !=3.2.*, !=3.3.*, !=3.4.*, !=3.5.*"} : Common).toProject.2
        spdx none extras rd).toMetaF texts =
      (configure {} ({c with python := some "~2.7 || ^3.6"} : Common).toLegacy spdx none extras rd).toMetaF texts :=
  (project_eq_legacy_of_check c spdx extras rd texts _ _ hw printedCheck_union_27_36).2

theorem printedCheck_wildcard_39 : printedCheck "3.9.*" "==3.9.*" = true := by decide +kernel

/-- **(b) a wildcard**: legacy `python = "3.9.*"` vs. `requires-python = "==3.9.*"` -/
theorem project_eq_legacy_wildcard_39 (c : Common) (hw : c.Wf) (spdx : String → Option License)
    (extras rd texts : List String) :
    (configure ({c with python := some "==3.9.*"} : Common).toProject.1
        ({c with python := some "==3.9.*"} : Common).toProject.2 spdx none extras rd).toMetaM texts =
      (configure {} ({c with python := some "3.9.*"} : Common).toLegacy spdx none extras rd).toMetaM texts :=
  (project_eq_legacy_of_check c spdx extras rd texts _ _ hw printedCheck_wildcard_39).1

theorem printedCheck_wildcard_39_dev : printedCheck ">=3.9.dev0,<3.10.dev0" "==3.9.*" = true := by decide +kernel

/-- the same wildcard text printed for an explicit range -/
theorem project_eq_legacy_wildcard_39_dev (c : Common) (hw : c.Wf) (spdx : String → Option License)
    (extras rd texts : List String) :
    (configure ({c with python := some "==3.9.*"} : Common).toProject.1
        ({c with python := some "==3.9.*"} : Common).toProject.2 spdx none extras rd).toMetaM texts =
      (configure {} ({c with python := some ">=3.9.dev0,<3.10.dev0"} : Common).toLegacy spdx none extras rd).toMetaM
        texts :=
  (project_eq_legacy_of_check c spdx extras rd texts _ _ hw printedCheck_wildcard_39_dev).1

theorem printedCheck_version_39 : printedCheck "3.9" ">=3.9,<3.10" = true := by decide +kernel

/-- **a bare two-component version**: legacy `python = "3.9"` (a single version) is printed as the range
`>=3.9,<3.10`; the two accept the same targets -/
theorem project_eq_legacy_version_39 (c : Common) (hw : c.Wf) (spdx : String → Option License)
    (extras rd texts : List String) :
    (configure ({c with python := some ">=3.9,<3.10"} : Common).toProject.1
        ({c with python := some ">=3.9,<3.10"} : Common).toProject.2 spdx none extras rd).toMetaM texts =
      (configure {} ({c with python := some "3.9"} : Common).toLegacy spdx none extras rd).toMetaM texts :=
  (project_eq_legacy_of_check c spdx extras rd texts _ _ hw printedCheck_version_39).1

/-- the agreement hypothesis is not vacuous: legacy `python = "3"` (the single version `3`) is printed as
`>=3.0,<4.0`, which accepts the targets `3.4` … `3.13` that the version `3` does not -/
theorem printedCheck_version_3_fails :
    (do let cr ← VParser.parseConstraint "3"; Dep02.formatPythonConstraint cr) = .ok ">=3.0,<4.0" ∧
    printedCheck "3" ">=3.0,<4.0" = false := by decide +kernel

end Poetry.Meta

/-! ## 4. the general wildcard case: any range the printer spells `==X.*` -/

namespace Poetry
open Poetry.Marker
open Version

theorem ltV_congr_right {x y y' : Version} (h : vk y = vk y') : Version.lt x y = Version.lt x y' :=
  bool_eq_of_iff (by rw [lt_iff, lt_iff, h])
theorem ltV_congr_left {x x' y : Version} (h : vk x = vk x') : Version.lt x y = Version.lt x' y :=
  bool_eq_of_iff (by rw [lt_iff, lt_iff, h])
theorem gtV_congr_right {x y y' : Version} (h : vk y = vk y') : Version.gt x y = Version.gt x y' :=
  bool_eq_of_iff (by rw [gt_iff, gt_iff, h])
theorem gtV_congr_left {x x' y : Version} (h : vk x = vk x') : Version.gt x y = Version.gt x' y :=
  bool_eq_of_iff (by rw [gt_iff, gt_iff, h])

/-- `allows_any` of a range against a version or a range only looks at the lower end and the effective upper end up
to `==`, the flags, and (for a version) `allows` -/
theorem RC.rng_allowsAny_congr (a a' : VRange) (m m' A A' : Version)
    (hm : a.min = some m) (hm' : a'.min = some m') (km : vk m' = vk m)
    (hl : m.isLocal = false) (hl' : m'.isLocal = false)
    (himin : a'.imin = a.imin) (himax : a'.imax = a.imax)
    (hA : a.allowedMax = some A) (hA' : a'.allowedMax = some A') (kA : vk A' = vk A)
    (hall : ∀ p, p.wf = true → a'.allows p = a.allows p)
    (c : RC) (hc : ∀ p, c = .ver p → p.wf = true) :
    RC.allowsAny (.rng a') c = RC.allowsAny (.rng a) c := by
  cases c with
  | ver p =>
    simp only [RC.allowsAny, hm, hm', hl, hl', Bool.false_and, Bool.or_false, hall p (hc p rfl)]
  | rng b =>
    simp only [RC.allowsAny, VRange.isStrictlyHigher, VRange.isStrictlyLower, VRange.allowedMin, hm, hm', hA, hA',
      himin, himax]
    congr 2
    cases hbA : b.allowedMax <;> cases hbm : b.min <;>
      simp only [ltV_congr_right km, gtV_congr_right km, ltV_congr_left kA, gtV_congr_left kA]

/-- `wildcard_spelt_roundtrip` with the re-read range and the comparisons of its ends exposed -/
theorem wildcard_spelt_roundtrip_keys (mn mx : Version) (hwf : (⟨some mn, some mx, true, false⟩ : VRange).WF)
    (hw : isWildcardCandidate mn mx false = true) (hnp : mn.isPostrelease = false) :
    ∃ s mn' mx', (VC.single (.rng ⟨some mn, some mx, true, false⟩)).toStr = .ok s ∧ s ≠ "*" ∧
      VParser.parseConstraint s = .ok (.single (.rng ⟨some mn', some mx', true, false⟩)) ∧
      (VC.single (.rng ⟨some mn', some mx', true, false⟩)).toStr = .ok s ∧
      vk mn' = vk mn ∧ mn.isLocal = false ∧ mn'.isLocal = false ∧
      (⟨some mn', some mx', true, false⟩ : VRange).allowedMax = some mx' ∧
      ∃ A, (⟨some mn, some mx, true, false⟩ : VRange).allowedMax = some A ∧ vk mx' = vk A := by
  obtain ⟨g1, g2, g3, g4, g5, g6, g7, g8, l, hPl, hl0, hrel⟩ := wildcardCandidate_facts mn mx hw hnp
  have hlt : vk mn < vk mx := hwf.2 mn mx rfl rfl
  generalize hP : stripZeros mx.release = P at hPl hrel
  have hBne : P.dropLast ++ [l - 1] ≠ [] := by simp
  obtain ⟨b0, bs, hB⟩ := List.exists_cons_of_ne_nil hBne
  have hPeq : P.dropLast ++ [l] = P := dropLast_append_last P l hPl
  have hinc : incrLast (b0 :: bs) = P := by
    rw [← hB, incrLast_append_singleton]
    have : l - 1 + 1 = l := by omega
    rw [this, hPeq]
  let e := mx.epoch
  have hstr : singleWildcardRangeString mn mx = .ok (String.ofList (wildChars e b0 bs)) := by
    unfold singleWildcardRangeString
    simp only [hnp, Bool.false_eq_true, if_false, hP, hPl]
    have hz : (l == 0) = false := by simpa using hl0
    simp only [hz, Bool.false_eq_true, if_false, hB]
    congr 1
    apply str_eq_of_toList
    have hrt : (joinWith "." (natToString b0 :: bs.map natToString)).toList = relChars b0 bs := joinWith_dot_toList b0 bs
    by_cases he : mx.epoch = 0
    · simp [wildChars, epochChars, e, he, hrt]
    · simp [wildChars, epochChars, e, he, hrt, dg]
  have hprint : (VC.single (.rng ⟨some mn, some mx, true, false⟩)).toStr =
      .ok (String.ofList ('=' :: '=' :: (baseChars e b0 bs ++ dotStar))) := by
    simp only [VC.toStr, RC.toStr, VRange.toStr, VRange.isSingleWildcardRange, hw, hstr, Bool.not_true, Bool.false_or,
      Bool.false_eq_true, if_false, if_true, bind, Except.bind, pure, Except.pure]
    congr 1
    exact str_eq_of_toList (by simp [wildChars, baseChars, dotStar])
  obtain ⟨hrt1, hrt2⟩ := eqStar_roundtrip e b0 bs
  have kD : vk (wD e (b0 :: bs)) = vk mn := by
    rw [vk_eq_wD mn g4 hnp g7, g1]
    exact vk_wD_congr e _ _ (by rw [← hB]; exact hrel.symm)
  have hE : wE e (b0 :: bs) = wD e P := by
    show mk' e (relNext (b0 :: bs)) none none (some ⟨.dev, 0⟩) none = _
    rw [relNext_eq_incrLast _ (by simp), hinc]; rfl
  have kMx : vk mx.firstDevrelease = vk (wD e P) := by
    rw [firstDev_eq_wD mx g5 g6]
    exact vk_wD_congr e _ _ (by rw [← hP, stripZeros_idem])
  have hA' : (⟨some (wD e (b0 :: bs)), some (wE e (b0 :: bs)), true, false⟩ : VRange).allowedMax =
      some (wE e (b0 :: bs)) := by
    simp [VRange.allowedMax, wE, mk', isUnstable, isDevrelease]
  have hA := VRange.allowedMax_eq_of_lt (r := ⟨some mn, some mx, true, false⟩) (M := mx) rfl
    (by intro m hm; cases hm; exact ne_of_lt hlt)
  simp only [Bool.false_or] at hA
  refine ⟨_, wD e (b0 :: bs), wE e (b0 :: bs), hprint, ?_, hrt2, hrt1, kD, g2, ?_, hA', _, hA, ?_⟩
  · intro h
    have := congrArg String.toList h
    simp at this
  · simp [wD, mk', isLocal]
  · rw [hE]
    by_cases hu : mx.isUnstable = true
    · simp only [hu, if_true]
      have hdev : mx.isDevrelease = true := by simpa [isUnstable, g5] using hu
      rw [← kMx]; exact ((eqv_iff _ _).1 (g8 hdev))
    · simp only [hu, Bool.false_eq_true, if_false]; exact kMx.symm
end Poetry

namespace Poetry.Meta
open Poetry

/-- every `AVAILABLE_PYTHONS` target is a single well-formed version or a single range -/
def targetsB : Bool :=
  Gen.availablePythons.all (fun v => match pythonTarget v with
    | .ok (.single (.ver p)) => p.wf
    | .ok (.single (.rng _)) => true
    | .ok _ => false
    | .error _ => true)

theorem targetsB_true : targetsB = true := by decide +kernel

theorem target_shape (v : String) (hv : v ∈ Gen.availablePythons) (tv : VC) (h : pythonTarget v = .ok tv) :
    ∃ c, tv = .single c ∧ ∀ p, c = .ver p → p.wf = true := by
  have := List.all_eq_true.mp targetsB_true v hv
  rw [h] at this
  match tv, this with
  | .single (.ver p), this => exact ⟨_, rfl, fun q hq => by cases hq; exact this⟩
  | .single (.rng r), _ => exact ⟨_, rfl, fun q hq => by cases hq⟩

/-- **4. any range the printer spells `==X.*`**: the printed text is not `"*"`, reads back to a range that prints
again, and that range answers `allows_any` like the printed one on every `AVAILABLE_PYTHONS` target -/
theorem wildcard_spelt_agree (mn mx : Version) (hwf : (⟨some mn, some mx, true, false⟩ : VRange).WF)
    (hw : isWildcardCandidate mn mx false = true) (hnp : mn.isPostrelease = false) :
    ∃ t ct, Dep02.formatPythonConstraint (.single (.rng ⟨some mn, some mx, true, false⟩)) = .ok t ∧ t ≠ "*" ∧
      VParser.parseConstraint t = .ok ct ∧ Dep02.formatPythonConstraint ct = .ok t ∧
      ∀ v ∈ Gen.availablePythons, ∀ tv, pythonTarget v = .ok tv →
        ct.allowsAny tv = (VC.single (.rng ⟨some mn, some mx, true, false⟩)).allowsAny tv := by
  obtain ⟨s, mn', mx', hs, hne, hp, hs', kD, hl, hl', hA', A, hA, kA⟩ := wildcard_spelt_roundtrip_keys mn mx hwf hw hnp
  obtain ⟨s2, c2, hs2, hp2, hall⟩ := C15.wildcard_spelt_range_text_roundtrip mn mx hwf hw hnp
  rw [hs] at hs2; injection hs2 with hs2; subst hs2
  rw [hp] at hp2; injection hp2 with hp2; subst hp2
  refine ⟨s, _, hs, hne, hp, hs', fun v hv tv htv => ?_⟩
  obtain ⟨c, rfl, hc⟩ := target_shape v hv tv htv
  show RC.allowsAny _ _ = RC.allowsAny _ _
  refine RC.rng_allowsAny_congr ⟨some mn, some mx, true, false⟩ ⟨some mn', some mx', true, false⟩ mn mn' A mx' rfl rfl kD hl hl' rfl rfl hA hA' kA (fun p hp => ?_) c hc
  have := hall p hp
  simp only [VC.allows, RC.allows] at this
  injection this

/-- **PEP 621 `requires-python = "==X.*"` and a legacy `python` requirement that is ANY range printed so** give the
same metadata -/
theorem project_eq_legacy_wildcard (c : Common) (spdx : String → Option License) (extras rd texts : List String)
    (r : String) (mn mx : Version) (hw : c.Wf)
    (hr : VParser.parseConstraint r = .ok (.single (.rng ⟨some mn, some mx, true, false⟩))) (hr' : r ≠ "*")
    (hwf : (⟨some mn, some mx, true, false⟩ : VRange).WF)
    (hwc : isWildcardCandidate mn mx false = true) (hnp : mn.isPostrelease = false) :
    ∃ t, Dep02.formatPythonConstraint (.single (.rng ⟨some mn, some mx, true, false⟩)) = .ok t ∧
      ((configure ({c with python := some t} : Common).toProject.1 ({c with python := some t} : Common).toProject.2
          spdx none extras rd).toMetaM texts =
        (configure {} ({c with python := some r} : Common).toLegacy spdx none extras rd).toMetaM texts) ∧
      ((configure ({c with python := some t} : Common).toProject.1 ({c with python := some t} : Common).toProject.2
          spdx none extras rd).toMetaF texts =
        (configure {} ({c with python := some r} : Common).toLegacy spdx none extras rd).toMetaF texts) := by
  obtain ⟨t, ct, hf, ht', hrt, hfct, ha⟩ := wildcard_spelt_agree mn mx hwf hwc hnp
  exact ⟨t, hf, project_eq_legacy_printed c spdx extras rd texts r t t _ ct hw hr hr' ht' hf hrt hfct ha,
    project_eq_legacy_printedF c spdx extras rd texts r t _ ct hw hr hr' ht' hf hrt ha⟩

end Poetry.Meta

namespace Poetry.Meta
open Poetry

/-- the hypotheses of `project_eq_legacy_wildcard` are satisfiable beyond what `parse_constraint("==X.*")` builds:
`>=3.9.dev0,<3.10` (upper end the final `3.10`) is printed `==3.9.*` and read back with upper end `3.10.dev0` -/
example (c : Common) (hw : c.Wf) (spdx : String → Option License) (extras rd texts : List String) :
    (configure ({c with python := some "==3.9.*"} : Common).toProject.1
        ({c with python := some "==3.9.*"} : Common).toProject.2 spdx none extras rd).toMetaM texts =
      (configure {} ({c with python := some ">=3.9.dev0,<3.10"} : Common).toLegacy spdx none extras rd).toMetaM texts := by
  obtain ⟨t, hf, h, _⟩ := project_eq_legacy_wildcard c spdx extras rd texts ">=3.9.dev0,<3.10"
    (Version.mk' 0 [3, 9] none none (some ⟨.dev, 0⟩) none) (Version.mk' 0 [3, 10] none none none none)
    hw (by decide +kernel) (by decide)
    ⟨by intro e he; simp [VRange.bounds] at he; rcases he with rfl | rfl <;> decide,
      by intro m M hm hM; cases hm; cases hM; exact (Poetry.lt_iff _ _).1 (by decide +kernel)⟩
    (by decide +kernel) (by decide +kernel)
  have ht : t = "==3.9.*" := by
    have h2 : Dep02.formatPythonConstraint (.single (.rng ⟨some (Version.mk' 0 [3, 9] none none (some ⟨.dev, 0⟩) none),
        some (Version.mk' 0 [3, 10] none none none none), true, false⟩)) = .ok "==3.9.*" := by decide +kernel
    rw [h2] at hf; injection hf with hf; exact hf.symm
  subst ht
  exact h

end Poetry.Meta
