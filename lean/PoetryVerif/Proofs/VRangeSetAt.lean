/-
Comma-joined specifier sets with `!=` / `!=V.*` clauses at one candidate (helper lemmas for C04): every clause's
constraint carries the per-probe invariant of `VC.intersect_at`, so the whole left-to-right fold is exact at a
candidate that is regular for each literal — nothing is asked of the literals among themselves.
-/
import PoetryVerif.Proofs.VRangeInterAt
import PoetryVerif.Proofs.VRangeSpecSet

set_option linter.unusedSimpArgs false
set_option linter.unusedVariables false

namespace Poetry
open Version Spec

/-- the inclusive lower ends a clause contributes -/
def clauseLoI : SOp → Version → List Version
  | .ge, V => [V]
  | .compat, V => [V]
  | .eqStar, V => [V.firstDevrelease]
  | .neStar, V => [V.nextStable.firstDevrelease]
  | _, _ => []

/-- the inclusive upper ends a clause contributes -/
def clauseHiI : SOp → Version → List Version
  | .le, V => [V]
  | _, _ => []

theorem rngMember_of_regMember {B : List Version} {x : RC} (h : RegMember B x) (hr : IsRng x) : RngMember x :=
  ⟨h.1, h.2.1, h.2.2.1, hr⟩

theorem lt_firstDev_of_relKey_ne {V H : Version} (hlt : vk V < vk H) (hne : relKey V ≠ relKey H) :
    vk V < vk H.firstDevrelease :=
  (lt_congr_right (a := H.firstDevrelease) (a' := H) (b := V) (by simp) (by simpa using fun e => hne e.symm)).2 hlt

/-- **the constraint of a clause (any operator but `==`) carries the per-probe invariant** at a candidate that is
regular for the literal -/
theorem clauseVC_at (LoI HiI : List Version) (op : SOp) (V : Version) (hok : ClauseOk' op V) (hop : op ≠ .eq)
    (hloc : V.loc = none) (v : Version) (hreg : Reg1 v V)
    (hlo : ∀ e ∈ clauseLoI op V, e ∈ LoI) (hhi : ∀ e ∈ clauseHiI op V, e ∈ HiI) :
    ∃ c, clauseVC op V = .ok c ∧ c.PInv LoI HiI v := by
  obtain ⟨hV, _, hprec, hfin⟩ := hok
  have hVl : V.isLocal = false := by simp [isLocal, hloc]
  -- one-sided members
  have lower : ∀ i : Bool, (i = true → V ∈ LoI) → RngMember (.rng ⟨some V, none, i, false⟩) ∧
      (RC.rng ⟨some V, none, i, false⟩).PSem LoI HiI v := by
    intro i hi
    have hm := oneSided_lower_reg [V] V i hV (by simp)
    refine ⟨rngMember_of_regMember hm ⟨_, rfl⟩, _, rfl, hm.1, hm.2.1, ?_, ?_, ?_, ⟨?_, ?_⟩⟩
    · intro e he; simp [VRange.bounds] at he; subst he; exact hVl
    · intro m hm'; simp at hm'; subst hm'; exact Or.inl hreg
    · intro M hM; simp at hM
    · intro m hm' hi'; simp at hm' hi'; subst hm'; exact hi hi'
    · intro M hM; simp at hM
  have upper : ∀ j : Bool, (j = true → V ∈ HiI) → RngMember (.rng ⟨none, some V, false, j⟩) ∧
      (RC.rng ⟨none, some V, false, j⟩).PSem LoI HiI v := by
    intro j hj
    have hm := oneSided_upper_reg [V] V j hV (by simp)
    refine ⟨rngMember_of_regMember hm ⟨_, rfl⟩, _, rfl, hm.1, hm.2.1, ?_, ?_, ?_, ⟨?_, ?_⟩⟩
    · intro e he; simp [VRange.bounds] at he; subst he; exact hVl
    · intro m hm'; simp at hm'
    · intro M hM; simp at hM; subst hM; exact Or.inr hreg
    · intro m hm'; simp at hm'
    · intro M hM hj'; simp at hM hj'; subst hM; exact hj hj'
  have single : ∀ r : VRange, (RngMember (.rng r) ∧ (RC.rng r).PSem LoI HiI v) → (VC.single (.rng r)).PInv LoI HiI v :=
    fun r h => ⟨⟨h.1.1, h.1.2.2.1⟩, by intro x hx; simp [VC.flatten] at hx; subst hx; exact h⟩
  cases op with
  | eq => exact absurd rfl hop
  | lt => exact ⟨_, rfl, single _ (upper false (by simp))⟩
  | le => exact ⟨_, rfl, single _ (upper true (fun _ => hhi V (by simp [clauseHiI])))⟩
  | gt => exact ⟨_, rfl, single _ (lower false (by simp))⟩
  | ge => exact ⟨_, rfl, single _ (lower true (fun _ => hlo V (by simp [clauseLoI])))⟩
  | ne =>
    obtain ⟨hwf, _⟩ := twoSided_union_wf (B := [V]) V V hV hV (le_refl _) false (fun h => by cases h) (by simp) (by simp)
    refine ⟨_, rfl, hwf, ?_⟩
    intro x hx
    simp only [VC.flatten, List.mem_cons, List.mem_nil_iff, or_false] at hx
    rcases hx with rfl | rfl
    · exact upper false (by simp)
    · exact lower false (by simp)
  | compat =>
    obtain ⟨hHfin, hlt, hHwf, hrk, _, _, _⟩ := compat_facts V hV (hprec rfl)
    have hwf : (⟨some V, some (compatHigh V), true, false⟩ : VRange).WF :=
      ⟨by intro e he; simp [VRange.bounds] at he; rcases he with rfl | rfl; exact hV; exact hHwf,
       by intro m M hm hM; simp at hm hM; subst hm; subst hM; exact hlt⟩
    have hne : (⟨some V, some (compatHigh V), true, false⟩ : VRange).NE := by
      have hA := VRange.allowedMax_eq_of_lt (r := ⟨some V, some (compatHigh V), true, false⟩) (M := compatHigh V) rfl
        (by intro m hm; cases hm; exact ne_of_lt hlt)
      simp only [Bool.false_or, isUnstable_of_final hHfin, Bool.false_eq_true, if_false] at hA
      have hlt' := lt_firstDev_of_relKey_ne hlt hrk
      unfold VRange.NE VRange.isStrictlyLower VRange.allowedMin
      rw [hA]
      simp [(lt_false_iff _ _).2 (le_of_lt hlt'), (gt_iff _ _).2 hlt']
    refine ⟨_, rfl, single _ ⟨⟨hwf, ⟨fun h => by simp at h, fun h => by simp at h⟩, hne, ⟨_, rfl⟩⟩, _, rfl, hwf,
      ⟨fun h => by simp at h, fun h => by simp at h⟩, ?_, ?_, ?_, ⟨?_, ?_⟩⟩⟩
    · intro e he; simp [VRange.bounds] at he
      rcases he with rfl | rfl
      · exact hVl
      · simp [isLocal, (final_parts hHfin).2.2.2]
    · intro m hm; simp at hm; subst hm; exact Or.inl hreg
    · intro M hM; exact Or.inl rfl
    · intro m hm _; simp at hm; subst hm; exact hlo _ (by simp [clauseLoI])
    · intro M hM hj; simp at hj
  | eqStar =>
    have hf := hfin (Or.inl rfl)
    have hlt := wildcard_ends_lt V hf hV
    have hNwf := final_nextStable_wf V hf hV
    have hwf : (⟨some V.firstDevrelease, some V.nextStable.firstDevrelease, true, false⟩ : VRange).WF :=
      ⟨by intro e he; simp [VRange.bounds] at he
          rcases he with rfl | rfl
          · exact wf_firstDev hV
          · exact wf_firstDev hNwf,
       by intro m M hm hM; simp at hm hM; subst hm; subst hM; exact hlt⟩
    have hne : (⟨some V.firstDevrelease, some V.nextStable.firstDevrelease, true, false⟩ : VRange).NE := by
      have hA : (⟨some V.firstDevrelease, some V.nextStable.firstDevrelease, true, false⟩ : VRange).allowedMax =
          some V.nextStable.firstDevrelease := by
        simp [VRange.allowedMax, firstDevrelease, mk', isUnstable, isDevrelease]
      unfold VRange.NE VRange.isStrictlyLower VRange.allowedMin
      rw [hA]
      simp [(lt_false_iff _ _).2 (le_of_lt hlt), (gt_iff _ _).2 hlt]
    refine ⟨_, (eqStar_range V hf).1, single _ ⟨⟨hwf, ⟨fun h => by simp at h, fun h => by simp at h⟩, hne, ⟨_, rfl⟩⟩,
      _, rfl, hwf, ⟨fun h => by simp at h, fun h => by simp at h⟩, ?_, ?_, ?_, ⟨?_, ?_⟩⟩⟩
    · intro e he; simp [VRange.bounds] at he
      rcases he with rfl | rfl <;> rfl
    · intro m hm; simp at hm; subst hm
      exact Or.inr ⟨rfl, by simp [firstDevrelease, mk', isUnstable, isDevrelease]⟩
    · intro M hM; exact Or.inl rfl
    · intro m hm _; simp at hm; subst hm; exact hlo _ (by simp [clauseLoI])
    · intro M hM hj; simp at hj
  | neStar =>
    have hf := hfin (Or.inr rfl)
    have hlt := wildcard_ends_lt V hf hV
    have hNwf := final_nextStable_wf V hf hV
    obtain ⟨hwf, hmem⟩ := twoSided_union_wf (B := [V.firstDevrelease, V.nextStable.firstDevrelease]) _ _
      (wf_firstDev hV) (wf_firstDev hNwf) (le_of_lt hlt) true (fun _ => hlt) (by simp) (by simp)
    refine ⟨_, neStar_range V hf hV, hwf, ?_⟩
    intro x hx
    have hxm := hmem x hx
    simp only [VC.flatten, List.mem_cons, List.mem_nil_iff, or_false] at hx
    rcases hx with rfl | rfl
    · refine ⟨rngMember_of_regMember hxm ⟨_, rfl⟩, _, rfl, hxm.1, hxm.2.1, ?_, ?_, ?_, ⟨?_, ?_⟩⟩
      · intro e he; simp [VRange.bounds] at he; subst he; rfl
      · intro m hm; simp at hm
      · intro M hM; exact Or.inl rfl
      · intro m hm; simp at hm
      · intro M hM hj; simp at hj
    · refine ⟨rngMember_of_regMember hxm ⟨_, rfl⟩, _, rfl, hxm.1, hxm.2.1, ?_, ?_, ?_, ⟨?_, ?_⟩⟩
      · intro e he; simp [VRange.bounds] at he; subst he; rfl
      · intro m hm; simp at hm; subst hm
        exact Or.inr ⟨rfl, by simp [firstDevrelease, mk', isUnstable, isDevrelease]⟩
      · intro M hM; simp at hM
      · intro m hm _; simp at hm; subst hm; exact hlo _ (by simp [clauseLoI])
      · intro M hM; simp at hM

/-- the fold of `parse_constraint` over the remaining clauses, at the candidate -/
theorem foldClauses_at {LoI HiI : List Version} (hnp : NoPoint LoI HiI) (p : Version) (hp : p.wf = true) :
    ∀ (cs : List Spec.Clause) (acc : VC), acc.PInv LoI HiI p →
    (∀ d ∈ cs, ∃ c, clauseVC d.op d.lit = .ok c ∧ c.PInv LoI HiI p ∧ c.allowsPlain p = d.contains p) →
    ∃ res, cs.foldlM (fun acc d => do VC.intersect acc (← clauseVC d.op d.lit)) acc = .ok res ∧
      res.PInv LoI HiI p ∧ res.allowsPlain p = (acc.allowsPlain p && cs.all (fun d => d.contains p))
  | [], acc, hc, _ => ⟨acc, rfl, hc, by simp⟩
  | d :: ds, acc, hc, hds => by
    obtain ⟨c, hcl, hci, hcs⟩ := hds d (by simp)
    obtain ⟨r, hr, hri, hrs⟩ := VC.intersect_at hnp p hp acc c hc hci
    obtain ⟨res, h1, h2, h3⟩ := foldClauses_at hnp p hp ds r hri (fun e he => hds e (by simp [he]))
    refine ⟨res, by simp only [List.foldlM_cons, bind, Except.bind, hcl, hr]; exact h1, h2, ?_⟩
    rw [h3, hrs, hcs]
    simp [Bool.and_assoc]

/-- for a clause constraint over a literal without local label, `allows` is the member-by-member answer -/
theorem clause_allows_plain (op : SOp) (V : Version) (hV : V.wf = true) (hloc : V.loc = none)
    (hfin : (op = .eqStar ∨ op = .neStar) → V.isFinal = true) (c : VC) (h : clauseVC op V = .ok c) (v : Version) :
    c.allows v = .ok (c.allowsPlain v) := by
  have hVl : V.isLocal = false := by simp [isLocal, hloc]
  cases op with
  | ne =>
    simp only [clauseVC, Except.ok.injEq] at h; subst h
    simp [VC.allows, VC.excludedSingleVersion, inverted_ne, hVl, bind, Except.bind, pure, Except.pure, VC.allowsPlain,
      VC.flatten]
  | neStar =>
    have hf := hfin (Or.inr rfl)
    rw [show clauseVC .neStar V = VParser.makeXConstraintRange V true false from rfl, neStar_range V hf hV] at h
    injection h with h; subst h
    have hinv := inverted_two_sided _ _ (wildcard_ends_lt V hf hV)
    simp [VC.allows, VC.excludedSingleVersion, hinv, bind, Except.bind, pure, Except.pure, VC.allowsPlain, VC.flatten]
  | eqStar =>
    have hf := hfin (Or.inl rfl)
    rw [show clauseVC .eqStar V = VParser.makeXConstraintRange V false false from rfl, (eqStar_range V hf).1] at h
    injection h with h; subst h
    simp [VC.allows, VC.allowsPlain, VC.flatten]
  | eq => simp only [clauseVC, Except.ok.injEq] at h; subst h; simp [VC.allows, VC.allowsPlain, VC.flatten]
  | lt => simp only [clauseVC, Except.ok.injEq] at h; subst h; simp [VC.allows, VC.allowsPlain, VC.flatten]
  | le => simp only [clauseVC, Except.ok.injEq] at h; subst h; simp [VC.allows, VC.allowsPlain, VC.flatten]
  | gt => simp only [clauseVC, Except.ok.injEq] at h; subst h; simp [VC.allows, VC.allowsPlain, VC.flatten]
  | ge => simp only [clauseVC, Except.ok.injEq] at h; subst h; simp [VC.allows, VC.allowsPlain, VC.flatten]
  | compat => simp only [clauseVC, Except.ok.injEq] at h; subst h; simp [VC.allows, VC.allowsPlain, VC.flatten]

/-- the fold at the candidate, `==` clauses included (the accumulator may be a single `Version`) -/
theorem foldClauses_atQ {LoI HiI : List Version} (hnp : NoPoint LoI HiI) (p : Version) (hp : p.wf = true) :
    ∀ (cs : List Spec.Clause) (acc : VC), acc.QInv LoI HiI p →
    (∀ d ∈ cs, ∃ c, clauseVC d.op d.lit = .ok c ∧ c.QInv LoI HiI p ∧ c.allowsPlain p = d.contains p) →
    ∃ res, cs.foldlM (fun acc d => do VC.intersect acc (← clauseVC d.op d.lit)) acc = .ok res ∧
      res.QInv LoI HiI p ∧ res.allowsPlain p = (acc.allowsPlain p && cs.all (fun d => d.contains p))
  | [], acc, hc, _ => ⟨acc, rfl, hc, by simp⟩
  | d :: ds, acc, hc, hds => by
    obtain ⟨c, hcl, hci, hcs⟩ := hds d (by simp)
    obtain ⟨r, hr, hri, hrs⟩ := VC.intersect_atQ hnp p hp acc c hc hci
    obtain ⟨res, h1, h2, h3⟩ := foldClauses_atQ hnp p hp ds r hri (fun e he => hds e (by simp [he]))
    refine ⟨res, by simp only [List.foldlM_cons, bind, Except.bind, hcl, hr]; exact h1, h2, ?_⟩
    rw [h3, hrs, hcs]
    simp [Bool.and_assoc]

end Poetry
