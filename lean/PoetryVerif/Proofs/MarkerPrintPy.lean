/-
Marker text on the python leaves: `python_version <op> "X.Y"` / `python_full_version <op> "X.Y.Z"` print to an
item the grammar reads back and the constructor rebuilds to the same leaf; together with the quotable
string/`extra` fragment this gives the print → parse round trip on the full comparison-operator domain.
-/
import PoetryVerif.Proofs.MarkerPrintDom
import PoetryVerif.Proofs.MarkerAlgSoundPyInv

set_option linter.unusedSimpArgs false
set_option linter.unusedVariables false

namespace Poetry.Marker
open Poetry Poetry.Version

theorem pvOps_ops {sop ops} (h : (sop, ops) ∈ pvOps) : ops ∈ Marker.ops := by
  simp only [pvOps, List.mem_cons, List.mem_nil_iff, or_false, Prod.mk.injEq] at h
  rcases h with ⟨rfl, rfl⟩ | ⟨rfl, rfl⟩ | ⟨rfl, rfl⟩ | ⟨rfl, rfl⟩ | ⟨rfl, rfl⟩ | ⟨rfl, rfl⟩ <;> decide

theorem printOK_py {ev : Leaf → Bool} : ∀ l, PyLeaf l → LeafPrintOK ev PyLeaf l := by
  intro l hl
  have hl' := hl
  rcases hl with ⟨sop, ops, a, b, hm, rfl⟩ | ⟨sop, ops, a, b, c, hm, rfl⟩
  · exact leafPrintOK_single hl' (by simpa [pvLeafOf, itemConstraintString] using mkSingle_pvLeaf hm a b)
  · exact leafPrintOK_single hl' (by
      have := mkSingle_pfvLeaf hm a [b, c]
      simpa [pfvLeafOf, itemConstraintString, padR] using this)

theorem lexable_py : ∀ l, PyLeaf l → Leaf.Lexable l := by
  intro l hl
  rcases hl with ⟨sop, ops, a, b, hm, rfl⟩ | ⟨sop, ops, a, b, c, hm, rfl⟩
  · exact leafLexable_single (show "python_version" ∈ names by decide) (pvOps_ops hm) (relText_valOk a [b])
  · exact leafLexable_single (show "python_full_version" ∈ names by decide) (pvOps_ops hm) (relText_valOk a [b, c])

theorem printOK_fullInv {E : Env} {ex : List String} (hX : E.extras = some ex) :
    ∀ l, FullInvLeaf E l → LeafPrintOK (leafEval E) (FullInvLeaf E) l := by
  intro l hl
  rcases hl with hl | hl
  · exact (printOK_inv hX l hl).mono (fun l h => Or.inl h)
  · exact (printOK_py l hl).mono (fun l h => Or.inr h)

theorem lexable_fullInv {E : Env} : ∀ l, FullInvLeaf E l → Leaf.Lexable l := by
  intro l hl
  rcases hl with hl | hl
  · exact lexable_inv l hl
  · exact lexable_py l hl

end Poetry.Marker
