/-
C18 helper lemmas, part 2: equal ranges admit the same versions (congruence of `allows` in the bounds, on
every probe), and the range constructors of `intersect` never build a degenerate range.
-/
import PoetryVerif.Proofs.EqHash
import PoetryVerif.Proofs.VRangeBump
import PoetryVerif.Proofs.VRangeOps

set_option linter.unusedSimpArgs false
set_option linter.unusedVariables false

namespace Poetry.EqHash
open Poetry Poetry.Version Poetry.Marker

/-! ### congruence of `VersionRange.allows` in the bounds -/

/-- two bounds that compare equal and are both well-formed -/
structure SameBound (m m' : Version) : Prop where
  key : key m = key m'
  loc : m.isLocal = m'.isLocal

theorem sameBound_of_eqv {m m' : Version} (hm : m.wf = true) (hm' : m'.wf = true) (h : Version.eqv m m' = true) :
    SameBound m m' :=
  ⟨(eqv_iff_key m m').1 h, isLocal_of_key_eq hm hm' ((eqv_iff_key m m').1 h)⟩

theorem allowsLo_congr {r s : VRange} (hi : r.imin = s.imin)
    (hmin : (r.min = none ∧ s.min = none) ∨ ∃ m m', r.min = some m ∧ s.min = some m' ∧ SameBound m m')
    (v : Version) : r.allowsLo v = s.allowsLo v := by
  unfold VRange.allowsLo
  rcases hmin with ⟨h1, h2⟩ | ⟨m, m', h1, h2, hb⟩
  · simp [h1, h2]
  · simp only [h1, h2, hi, isPost_of_key_eq hb.key, hb.loc]
    simp only [lt_congr_key hb.key, eqv_congr_key hb.key]

theorem firstDev_isLocal (M : Version) : M.firstDevrelease.isLocal = false := rfl

theorem allowedMax_congr {r s : VRange} (hi : r.imax = s.imax) (hii : r.imin = s.imin)
    (hmin : optVerEq r.min s.min = true)
    {M M' : Version} (h1 : r.max = some M) (h2 : s.max = some M') (hb : SameBound M M') :
    ∃ A A', r.allowedMax = some A ∧ s.allowedMax = some A' ∧ SameBound A A' := by
  unfold VRange.allowedMax
  simp only [h1, h2, hi, hii, isUnstable_of_key_eq hb.key]
  have hopt : optVerEq r.min (some M) = optVerEq s.min (some M') := by
    cases hr : r.min <;> cases hs : s.min <;> simp_all [optVerEq]
    rename_i a b
    rw [eqv_congr_key hb.key a, eqv_congr_key_left ((eqv_iff_key a b).1 hmin) M']
  rw [hopt]
  by_cases c1 : (s.imax || M'.isUnstable) = true
  · simp only [c1, if_true]; exact ⟨M, M', rfl, rfl, hb⟩
  · simp only [c1]
    by_cases c2 : (optVerEq s.min (some M') && (s.imin || s.imax)) = true
    · simp only [c2, if_true]; exact ⟨M, M', rfl, rfl, hb⟩
    · simp only [c2]
      exact ⟨_, _, rfl, rfl, ⟨key_firstDev_of_key_eq hb.key, by simp [firstDev_isLocal]⟩⟩

theorem allowsHi_congr {r s : VRange} (hi : r.imax = s.imax) (hii : r.imin = s.imin)
    (hmin : optVerEq r.min s.min = true)
    (hmax : (r.max = none ∧ s.max = none) ∨ ∃ M M', r.max = some M ∧ s.max = some M' ∧ SameBound M M')
    (v : Version) : r.allowsHi v = s.allowsHi v := by
  rcases hmax with ⟨h1, h2⟩ | ⟨M, M', h1, h2, hb⟩
  · unfold VRange.allowsHi; simp [h1, h2]
  · obtain ⟨A, A', ha, ha', hab⟩ := allowedMax_congr hi hii hmin h1 h2 hb
    unfold VRange.allowsHi
    simp only [h1, h2, ha, ha', hi, hab.loc]
    simp only [gt_congr_key hab.key, eqv_congr_key hab.key, eqv_congr_key hb.key]

/-- **equal ranges admit the same versions** — on every probe, regular or not -/
theorem vrange_allows_congr {r s : VRange} (hr : r.wfB) (hs : s.wfB) (h : VRange.eqv r s = true) (v : Version) :
    r.allows v = s.allows v := by
  simp only [VRange.eqv, Bool.and_eq_true, beq_iff_eq] at h
  obtain ⟨⟨⟨hmin, hmax⟩, himin⟩, himax⟩ := h
  have side : ∀ (x y : Option Version), (∀ e, x = some e → e.wf = true) → (∀ e, y = some e → e.wf = true) →
      optVerEq x y = true → (x = none ∧ y = none) ∨ ∃ m m', x = some m ∧ y = some m' ∧ SameBound m m' := by
    intro x y hx hy hxy
    cases x <;> cases y <;> simp_all [optVerEq]
    exact sameBound_of_eqv hx hy hxy
  have hlo := side r.min s.min (fun e he => hr e (VRange.mem_bounds_min he)) (fun e he => hs e (VRange.mem_bounds_min he)) hmin
  have hhi := side r.max s.max (fun e he => hr e (VRange.mem_bounds_max he)) (fun e he => hs e (VRange.mem_bounds_max he)) hmax
  unfold VRange.allows
  rw [allowsLo_congr himin hlo v, allowsHi_congr himax himin hmin hhi v]

theorem version_allows_congr {a b : Version} (ha : a.wf = true) (hb : b.wf = true) (h : Version.eqv a b = true)
    (v : Version) : a.allows v = b.allows v := by
  have hk := (eqv_iff_key a b).1 h
  unfold Version.allows
  simp only [isLocal_of_key_eq ha hb hk]
  exact eqv_congr_key_left hk _

/-- equal versions are admitted alike: a probe may be replaced by an equal probe -/
theorem rc_allows_congr {a b : RC} (ha : rcNonDegenerate a = true) (hb : rcNonDegenerate b = true)
    (hwa : a.wfB) (hwb : b.wfB) (h : RC.eqv a b = true) (v : Version) : a.allows v = b.allows v := by
  cases a with
  | ver x =>
    cases b with
    | ver y =>
      exact version_allows_congr (hwa x (by simp [RC.bounds, RC.view, VRange.bounds, RC.min]))
        (hwb y (by simp [RC.bounds, RC.view, VRange.bounds, RC.min])) h v
    | rng r => have := degenerate_of_ver_eqv h; simp [rcNonDegenerate, this] at hb
  | rng r =>
    cases b with
    | ver y => have := degenerate_of_rng_eqv_ver h; simp [rcNonDegenerate, this] at ha
    | rng s =>
      simp only [RC.eqv, RC.view, RC.min, RC.max, RC.imin, RC.imax] at h
      exact vrange_allows_congr hwa hwb h v

/-! ### `intersect` never builds a degenerate range -/

theorem interFinish_nonDegenerate (imn : Option Version) (iimn : Bool) (imx : Option Version) (iimx : Bool) (c : VC)
    (h : VRange.interFinish imn iimn imx iimx = .ok c) : vcNonDegenerate c = true := by
  unfold VRange.interFinish at h
  by_cases c1 : (imn.isNone && imx.isNone) = true
  · simp only [c1, if_true, Except.ok.injEq] at h; subst h
    simp [vcNonDegenerate, rcNonDegenerate, degenerate, VRange.any]
  · simp only [c1] at h
    by_cases c2 : optVerEq imn imx = true
    · simp only [c2, if_true] at h
      by_cases c3 : (iimn && iimx) = true
      · simp only [c3, if_true] at h
        cases imn with
        | none => simp at h
        | some v => simp at h; subst h; rfl
      · simp [c3] at h
    · simp only [c2, Bool.false_eq_true, if_false, Except.ok.injEq] at h; subst h
      simp only [vcNonDegenerate, rcNonDegenerate, degenerate]
      cases imn <;> cases imx <;> simp_all [optVerEq]

theorem rngIntersectRng_nonDegenerate (a b : VRange) (c : VC) (h : RC.rngIntersectRng a b = .ok c) :
    vcNonDegenerate c = true := by
  rw [VRange.rngIntersectRng_eq] at h
  have he : vcNonDegenerate VC.empty = true := rfl
  split at h
  · split at h
    · cases h; exact he
    · split at h <;> exact interFinish_nonDegenerate _ _ _ _ c h
  · split at h
    · cases h; exact he
    · split at h <;> exact interFinish_nonDegenerate _ _ _ _ c h

theorem relKey_stable_nextPatch_ne (v : Version) : relKey v ≠ relKey v.stable.nextPatch := by
  intro h
  simp only [relKey, Prod.mk.injEq] at h
  have hrel := h.2
  rw [stable_nextPatch_release] at hrel
  by_cases hr : v.release = []
  · rw [hr] at hrel; revert hrel; decide
  · have := relNextPatch_gt v.release hr
    rw [← hrel] at this
    simp [compare_self_eq] at this

theorem rngIntersectVer_nonDegenerate (r : VRange) (v : Version) : vcNonDegenerate (RC.rngIntersectVer r v) = true := by
  unfold RC.rngIntersectVer
  split
  · rfl
  · split
    · rename_i m hm
      split
      · rename_i hc
        simp only [Bool.and_eq_true] at hc
        have hrel := Version.allows_relKey hc.2
        simp only [vcNonDegenerate, rcNonDegenerate, degenerate, Bool.not_eq_true']
        rw [Bool.eq_false_iff]
        intro he
        have hk := (eqv_iff_key _ _).1 he
        have : relKey m = relKey v.stable.nextPatch := relKey_of_vk_eq ((vk_eq_iff_key _ _).2 hk)
        exact relKey_stable_nextPatch_ne v (hrel.trans this)
      · rfl
    · rfl

/-- **`a.intersect(b)` between range constraints never returns a degenerate `VersionRange`**: where both ends
coincide it returns the `Version` (or fails its assertion) -/
theorem rc_intersect_nonDegenerate (a b : RC) (c : VC) (h : RC.intersect a b = .ok c) : vcNonDegenerate c = true := by
  cases a with
  | ver x =>
    cases b with
    | ver y =>
      simp only [RC.intersect, Except.ok.injEq] at h; subst h
      unfold RC.verIntersectVer; split <;> [rfl; (split <;> rfl)]
    | rng s => simp only [RC.intersect, Except.ok.injEq] at h; subst h; exact rngIntersectVer_nonDegenerate s x
  | rng r =>
    cases b with
    | ver y => simp only [RC.intersect, Except.ok.injEq] at h; subst h; exact rngIntersectVer_nonDegenerate r y
    | rng s => exact rngIntersectRng_nonDegenerate r s c h

end Poetry.EqHash

namespace Poetry.EqHash
open Poetry Poetry.Version Poetry.Marker

/-- members of two equal unions admit alike, position by position -/
theorem rcList_any_allows_congr : ∀ {as bs : List RC}, as.all rcNonDegenerate = true → bs.all rcNonDegenerate = true →
    (∀ c ∈ as, c.wfB) → (∀ c ∈ bs, c.wfB) → rcListEqv as bs = true → ∀ v : Version,
    as.any (fun c => c.allows v) = bs.any (fun c => c.allows v)
  | [], [], _, _, _, _, _, _ => rfl
  | [], _ :: _, _, _, _, _, h, _ => by simp [rcListEqv_nil_cons] at h
  | _ :: _, [], _, _, _, _, h, _ => by simp [rcListEqv_cons_nil] at h
  | a :: as, b :: bs, ha, hb, hwa, hwb, h, v => by
    rw [rcListEqv_cons, Bool.and_eq_true] at h
    simp only [List.all_cons, Bool.and_eq_true] at ha hb
    simp only [List.any_cons]
    rw [rc_allows_congr ha.1 hb.1 (hwa a (by simp)) (hwb b (by simp)) h.1 v,
      rcList_any_allows_congr ha.2 hb.2 (fun c hc => hwa c (by simp [hc])) (fun c hc => hwb c (by simp [hc])) h.2 v]

/-! ### xor is order-insensitive -/

theorem evalList_eq_map (H : HFun) : ∀ xs : List HIn, HIn.evalList H xs = xs.map (HIn.eval H)
  | [] => by simp [HIn.evalList]
  | x :: xs => by simp [HIn.evalList, evalList_eq_map H xs]

theorem foldl_xor_perm {l₁ l₂ : List Nat} (p : l₁.Perm l₂) : ∀ b, l₁.foldl Nat.xor b = l₂.foldl Nat.xor b := by
  induction p with
  | nil => intro b; rfl
  | cons x _ ih => intro b; simp only [List.foldl_cons]; exact ih _
  | swap x y l =>
    intro b
    simp only [List.foldl_cons]
    congr 1
    show (b ^^^ y) ^^^ x = (b ^^^ x) ^^^ y
    rw [Nat.xor_assoc, Nat.xor_comm y x, ← Nat.xor_assoc]
  | trans _ _ ih1 ih2 => intro b; rw [ih1 b, ih2 b]

end Poetry.EqHash
