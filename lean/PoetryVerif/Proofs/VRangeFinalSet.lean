/-
Ranges over final versions (helper lemmas for C04): the members `parse_constraint` builds for clauses whose literals
are final releases — ends that are final versions, or the `.dev0` ends of a wildcard / the final upper end of `~=` —
are intersected exactly at EVERY probe, the pre/post/dev/local siblings of the literals included: the two halves of
`allows` have an explicit reading on every probe, and the bound comparisons are sound for it.
-/
import PoetryVerif.Proofs.VRangeCmp
import PoetryVerif.Proofs.VRangeSpecSet

set_option linter.unusedSimpArgs false
set_option linter.unusedVariables false

namespace Poetry
open Version Spec

/-- a final version, or the first dev-release of one -/
def FD (e : Version) : Prop :=
  e.wf = true ∧ (e.isFinal = true ∨ ∃ X : Version, X.isFinal = true ∧ X.wf = true ∧ e = X.firstDevrelease)

theorem vk_eq_of_final_relKey {F G : Version} (hF : F.isFinal = true) (hG : G.isFinal = true)
    (h : relKey F = relKey G) : vk F = vk G := by
  obtain ⟨f1, f2, f3, f4⟩ := final_parts hF
  obtain ⟨g1, g2, g3, g4⟩ := final_parts hG
  rw [vk_eq_iff_key]
  have he : F.epoch = G.epoch := (Prod.mk.inj h).1
  have hr : stripZeros F.release = stripZeros G.release := (Prod.mk.inj h).2
  simp [key, he, hr, preK, postK, devK, f1, f2, f3, f4, g1, g2, g3, g4]

theorem FD.loc {e : Version} (h : FD e) : e.loc = none := by
  rcases h.2 with hf | ⟨X, _, _, rfl⟩
  · exact (final_parts hf).2.2.2
  · rfl

theorem FD.notLocal {e : Version} (h : FD e) : e.isLocal = false := by simp [isLocal, h.loc]

theorem final_stable {F : Version} (hF : F.isFinal = true) : F.isUnstable = false := by
  obtain ⟨f1, _, f3, _⟩ := final_parts hF
  simp [isUnstable, isPrerelease, isDevrelease, f1, f3]

/-- above a final version, a version of the class is of another release -/
theorem FD.above_final {F e : Version} (hF : F.isFinal = true) (he : FD e) (hlt : vk F < vk e) :
    relKey e ≠ relKey F := by
  intro hr
  rcases he.2 with hf | ⟨X, hX, _, rfl⟩
  · exact absurd (vk_eq_of_final_relKey hF hf hr.symm) (ne_of_lt hlt)
  · have hk : vk X = vk F := vk_eq_of_final_relKey hX hF (by simpa using hr)
    have := firstDev_lt (final_stable hX)
    rw [hk] at this
    exact absurd hlt (not_lt.2 (le_of_lt this))

/-- between two versions of one release there are only versions of that release -/
theorem relKey_sandwich {a b c : Version} (h1 : vk a ≤ vk b) (h2 : vk b ≤ vk c) (h : relKey a = relKey c) :
    relKey b = relKey a := by
  by_contra hne
  have hab : relKey a ≠ relKey b := fun e => hne e.symm
  have hbc : relKey b ≠ relKey c := fun e => hne (e.trans h.symm)
  have c1 := cmp_of_relKey_ne a b hab
  have c2 := cmp_of_relKey_ne b c hbc
  rw [← h] at c2
  have hlt1 : vk a < vk b := lt_of_le_of_ne h1 (vk_ne_of_relKey_ne hab)
  have hlt2 : vk b < vk c := lt_of_le_of_ne h2 (vk_ne_of_relKey_ne hbc)
  rw [vk_lt_iff] at hlt1 hlt2
  rw [c1] at hlt1; rw [c2] at hlt2
  have c3 := cmp_of_relKey_ne b a (fun e => hab e.symm)
  have c4 : Version.cmp b a = (Version.cmp a b).swap := cmp_swap b a
  rw [c3, hlt2, c1, hlt1] at c4
  cases c4

namespace VRange

/-- the lower end is of the class; an exclusive one is a final version -/
def FLo (r : VRange) : Prop := ∀ m, r.min = some m → FD m ∧ (r.imin = false → m.isFinal = true)
/-- the upper end is of the class; an inclusive one is a final version -/
def FHi (r : VRange) : Prop := ∀ M, r.max = some M → FD M ∧ (r.imax = true → M.isFinal = true)

/-- **the lower half on every probe**: an exclusive final lower end excludes its whole release -/
theorem allowsLo_final (r : VRange) (h : r.FLo) (p : Version) (hp : p.wf = true) :
    r.allowsLo p = true ↔
      (∀ m, r.min = some m → if r.imin then vk m ≤ vk p else vk m < vk p ∧ relKey p ≠ relKey m) := by
  cases hm : r.min with
  | none => simp [allowsLo, hm]
  | some m =>
    obtain ⟨hfd, hex⟩ := h m hm
    simp only [Option.some.injEq, forall_eq']
    cases hi : r.imin with
    | true => simpa [hi] using allowsLo_incl r p m hp hm hi
    | false =>
      have hF := hex hi
      simp only [Bool.false_eq_true, if_false]
      have e : r.allowsLo p = (⟨some m, none, false, false⟩ : VRange).allowsLo p := by
        unfold allowsLo; simp only [hm, hi]
      rw [e]
      by_cases hr : relKey p = relKey m
      · have := (gt_final m p hfd.1 hF hp hr).1
        simp only [allows, Bool.and_eq_false_iff] at this
        have hhi : (⟨some m, none, false, false⟩ : VRange).allowsHi p = true := by simp [allowsHi]
        rcases this with h1 | h1
        · simp [h1, hr]
        · rw [hhi] at h1; cases h1
      · rw [allowsLo_iff_denLo _ p hp (fun m' hm' => by
          simp only [Option.some.injEq] at hm'; subst hm'; exact ⟨hfd.1, Or.inr hr⟩)]
        simp [denLo, hr]

/-- **the upper half on every probe** (for a proper range): an inclusive final upper end admits its local builds -/
theorem allowsHi_final (r : VRange) (h : r.FHi) (hpr : r.Proper) (p : Version) (hp : p.wf = true) :
    r.allowsHi p = true ↔
      (∀ M A, r.max = some M → r.allowedMax = some A → if r.imax then vk (dropLoc p) ≤ vk M else vk p < vk A) := by
  cases hM : r.max with
  | none => simp [allowsHi, hM]
  | some M =>
    obtain ⟨hfd, hin⟩ := h M hM
    cases hA : r.allowedMax with
    | none => have := allowedMax_isSome (r := r); simp [hA, hM] at this
    | some A =>
      simp only [Option.some.injEq, forall_eq']
      cases hi : r.imax with
      | false => simpa [hi] using allowsHi_excl r p M A hp hM hA hi
      | true =>
        have hAM : A = M := by
          have : r.allowedMax = some M := by simp [allowedMax, hM, hi]
          rw [hA] at this; injection this
        subst hAM
        simp only [if_true]
        unfold allowsHi
        simp only [hM, hA, hi, Bool.not_true, Bool.false_and, Bool.false_eq_true, if_false, hfd.notLocal,
          Bool.not_false, Bool.true_and]
        have : (if p.isLocal = true then p.withoutLocal else p) = dropLoc p := rfl
        rw [this]
        cases hg : Version.gt (dropLoc p) A
        · simp [(gt_false_iff _ _).1 hg]
        · simp [not_le.2 ((gt_iff _ _).1 hg)]

/-! ### what the three comparisons say -/

theorem allowsLower_dec {a b : VRange} :
    (a.allowsLower b = true → a.min = none ∨ ∃ x y, a.min = some x ∧ b.min = some y ∧
      (vk x < vk y ∨ (vk x = vk y ∧ a.imin = true ∧ b.imin = false))) ∧
    (a.allowsLower b = false → b.min = none ∨ ∃ x y, a.min = some x ∧ b.min = some y ∧
      (vk y < vk x ∨ (vk x = vk y ∧ (a.imin = false ∨ b.imin = true)))) := by
  unfold allowsLower allowedMin
  cases ha : a.min with
  | none => cases hb : b.min <;> simp
  | some x =>
    cases hb : b.min with
    | none => simp
    | some y =>
      rcases lt_trichotomy (vk x) (vk y) with h | h | h
      · have l : Version.lt x y = true := (lt_iff _ _).2 h
        simp [l, h]
      · have l : Version.lt x y = false := (lt_false_iff _ _).2 (le_of_eq h.symm)
        have g : Version.gt x y = false := (gt_false_iff _ _).2 (le_of_eq h)
        simp only [l, g, Bool.false_eq_true, if_false, Option.some.injEq, reduceCtorEq, false_or]
        constructor
        · intro hc; simp only [Bool.and_eq_true, Bool.not_eq_true'] at hc
          exact ⟨x, y, rfl, rfl, Or.inr ⟨h, hc.1, hc.2⟩⟩
        · intro hc
          refine ⟨x, y, rfl, rfl, Or.inr ⟨h, ?_⟩⟩
          cases hi : a.imin <;> cases hj : b.imin <;> simp_all
      · have l : Version.lt x y = false := (lt_false_iff _ _).2 (le_of_lt h)
        have g : Version.gt x y = true := (gt_iff _ _).2 h
        simp [l, g, h]

theorem allowsHigher_dec {a b : VRange} :
    (a.allowsHigher b = true → a.allowedMax = none ∨ ∃ x y, a.allowedMax = some x ∧ b.allowedMax = some y ∧
      (vk y < vk x ∨ (vk x = vk y ∧ a.imax = true ∧ b.imax = false))) ∧
    (a.allowsHigher b = false → b.allowedMax = none ∨ ∃ x y, a.allowedMax = some x ∧ b.allowedMax = some y ∧
      (vk x < vk y ∨ (vk x = vk y ∧ (a.imax = false ∨ b.imax = true)))) := by
  unfold allowsHigher
  cases ha : a.allowedMax with
  | none => cases hb : b.allowedMax <;> simp
  | some x =>
    cases hb : b.allowedMax with
    | none => simp
    | some y =>
      rcases lt_trichotomy (vk x) (vk y) with h | h | h
      · have l : Version.lt x y = true := (lt_iff _ _).2 h
        simp [l, h]
      · have l : Version.lt x y = false := (lt_false_iff _ _).2 (le_of_eq h.symm)
        have g : Version.gt x y = false := (gt_false_iff _ _).2 (le_of_eq h)
        simp only [l, g, Bool.false_eq_true, if_false, Option.some.injEq, reduceCtorEq, false_or]
        constructor
        · intro hc; simp only [Bool.and_eq_true, Bool.not_eq_true'] at hc
          exact ⟨x, y, rfl, rfl, Or.inr ⟨h, hc.1, hc.2⟩⟩
        · intro hc
          refine ⟨x, y, rfl, rfl, Or.inr ⟨h, ?_⟩⟩
          cases hi : a.imax <;> cases hj : b.imax <;> simp_all
      · have l : Version.lt x y = false := (lt_false_iff _ _).2 (le_of_lt h)
        have g : Version.gt x y = true := (gt_iff _ _).2 h
        simp [l, g, h]

theorem strictlyLower_dec {a b : VRange} (h : a.isStrictlyLower b = true) :
    ∃ A y, a.allowedMax = some A ∧ b.min = some y ∧
      (vk A < vk y ∨ (vk A = vk y ∧ (a.imax = false ∨ b.imin = false))) := by
  unfold isStrictlyLower allowedMin at h
  cases ha : a.allowedMax with
  | none => simp [ha] at h
  | some A =>
    cases hb : b.min with
    | none => simp [ha, hb] at h
    | some y =>
      refine ⟨A, y, rfl, rfl, ?_⟩
      simp only [ha, hb] at h
      by_cases h1 : Version.lt A y = true
      · exact Or.inl ((lt_iff _ _).1 h1)
      · simp only [h1, Bool.false_eq_true, if_false] at h
        by_cases h2 : Version.gt A y = true
        · simp [h2] at h
        · simp only [h2, Bool.false_eq_true, if_false] at h
          have e : vk A = vk y := le_antisymm ((gt_false_iff _ _).1 (by simpa using h2))
            ((lt_false_iff _ _).1 (by simpa using h1))
          refine Or.inr ⟨e, ?_⟩
          cases hi : a.imax <;> cases hj : b.imin <;> simp_all

/-! ### the comparisons are sound at every probe -/

theorem lt_dropLoc_iff {V v : Version} (hVl : V.loc = none) (hv : v.wf = true) :
    vk (dropLoc v) < vk V ↔ vk v < vk V := by
  rw [← not_le, ← not_le, le_dropLoc_iff hVl hv]

/-- a weaker lower end admits what a stronger one admits -/
theorem lo_mono (u c : VRange) (fu : u.FLo) (fc : c.FLo) (p : Version) (hp : p.wf = true)
    (h : u.min = none ∨ ∃ x y, u.min = some x ∧ c.min = some y ∧
      (vk x < vk y ∨ (vk x = vk y ∧ (u.imin = true ∨ c.imin = false)))) :
    c.allowsLo p = true → u.allowsLo p = true := by
  intro hc
  rcases h with hn | ⟨x, y, hx, hy, hxy⟩
  · simp [allowsLo, hn]
  · rw [allowsLo_final c fc p hp] at hc
    rw [allowsLo_final u fu p hp]
    have sc := hc y hy
    intro x' hx'
    rw [hx] at hx'; injection hx' with hx'; subst hx'
    have hyp : vk y ≤ vk p := by
      cases hi : c.imin <;> simp [hi] at sc
      · exact le_of_lt sc.1
      · exact sc
    rcases hxy with hlt | ⟨heq, hfl⟩
    · cases hi : u.imin with
      | true => simp only [if_true]; exact le_trans (le_of_lt hlt) hyp
      | false =>
        simp only [Bool.false_eq_true, if_false]
        have hxF := (fu x hx).2 hi
        refine ⟨lt_of_lt_of_le hlt hyp, fun hr => ?_⟩
        have hne := FD.above_final hxF (fc y hy).1 hlt
        exact hne (relKey_sandwich (le_of_lt hlt) hyp hr.symm)
    · cases hi : u.imin with
      | true => simp only [if_true]; rw [heq]; exact hyp
      | false =>
        simp only [Bool.false_eq_true, if_false]
        have hcf : c.imin = false := by rcases hfl with h | h; · rw [hi] at h; cases h
                                        · exact h
        simp [hcf] at sc
        rw [heq, relKey_of_vk_eq heq]
        exact sc

/-- a weaker upper end admits what a stronger one admits -/
theorem hi_mono (u c : VRange) (fu : u.FHi) (fc : c.FHi) (pu : u.Proper) (pc : c.Proper) (p : Version)
    (hp : p.wf = true)
    (h : u.allowedMax = none ∨ ∃ x y, u.allowedMax = some x ∧ c.allowedMax = some y ∧
      (vk y < vk x ∨ (vk x = vk y ∧ (u.imax = true ∨ c.imax = false)))) :
    c.allowsHi p = true → u.allowsHi p = true := by
  intro hc
  rcases h with hn | ⟨x, y, hx, hy, hxy⟩
  · have : u.max = none := by
      cases hM : u.max with
      | none => rfl
      | some M => have := allowedMax_isSome (r := u); simp [hn, hM] at this
    simp [allowsHi, this]
  · obtain ⟨Mc, hMc⟩ : ∃ M, c.max = some M := by
      cases hM : c.max with
      | none => simp [allowedMax_none hM] at hy
      | some M => exact ⟨M, rfl⟩
    obtain ⟨Mu, hMu⟩ : ∃ M, u.max = some M := by
      cases hM : u.max with
      | none => simp [allowedMax_none hM] at hx
      | some M => exact ⟨M, rfl⟩
    rw [allowsHi_final c fc pc p hp] at hc
    rw [allowsHi_final u fu pu p hp]
    have sc := hc Mc y hMc hy
    intro M A hM hA
    rw [hMu] at hM; injection hM with hM; subst hM
    rw [hx] at hA; injection hA with hA; subst hA
    -- the effective ends carry no local label
    have nlA : ∀ (r : VRange) (M A : Version), r.FHi → r.max = some M → r.allowedMax = some A → A.loc = none := by
      intro r M A fr hM hA
      rcases allowedMax_cases hM with h1 | ⟨h1, _, _⟩
      · rw [h1] at hA; injection hA with hA; subst hA; exact (fr M hM).1.loc
      · rw [h1] at hA; injection hA with hA; subst hA; rfl
    have hxl := nlA u Mu x fu hMu hx
    have hyl := nlA c Mc y fc hMc hy
    have inclA : ∀ (r : VRange) (M A : Version), r.max = some M → r.allowedMax = some A → r.imax = true → A = M := by
      intro r M A hM hA hi
      have : r.allowedMax = some M := by simp [allowedMax, hM, hi]
      rw [hA] at this; injection this
    cases hic : c.imax with
    | false =>
      simp [hic] at sc
      -- p < y
      have hpx : vk p < vk x := by
        rcases hxy with hlt | ⟨heq, _⟩
        · exact lt_trans sc hlt
        · rw [heq]; exact sc
      cases hiu : u.imax with
      | false => simpa [hiu] using hpx
      | true =>
        have := inclA u Mu x hMu hx hiu
        subst this
        simp only [if_true]
        exact le_of_lt ((lt_dropLoc_iff hxl hp).2 hpx)
    | true =>
      have hyM := inclA c Mc y hMc hy hic
      subst hyM
      simp [hic] at sc
      cases hiu : u.imax with
      | false =>
        simp only [Bool.false_eq_true, if_false]
        rcases hxy with hlt | ⟨heq, hfl⟩
        · exact (lt_dropLoc_iff hxl hp).1 (lt_of_le_of_lt sc hlt)
        · rcases hfl with h | h
          · rw [hiu] at h; cases h
          · rw [hic] at h; cases h
      | true =>
        have := inclA u Mu x hMu hx hiu
        subst this
        simp only [if_true]
        rcases hxy with hlt | ⟨heq, _⟩
        · exact le_trans sc (le_of_lt hlt)
        · rw [heq]; exact sc

/-- **the three comparisons are sound at every probe, for ranges over final versions** -/
theorem cmpOK_final (a b : VRange) (ha : a.WF) (hb : b.WF) (fa : a.FLo ∧ a.FHi) (fb : b.FLo ∧ b.FHi)
    (p : Version) (hp : p.wf = true) : CmpOK a b p := by
  have slBad : ∀ (u c : VRange), u.FHi → c.FLo → u.Proper → u.isStrictlyLower c = true →
      ¬ (u.allowsHi p = true ∧ c.allowsLo p = true) := by
    intro u c fu fc pu hs ⟨h1, h2⟩
    obtain ⟨A, y, hA, hy, hAy⟩ := strictlyLower_dec hs
    obtain ⟨M, hM⟩ : ∃ M, u.max = some M := by
      cases hM : u.max with
      | none => simp [allowedMax_none hM] at hA
      | some M => exact ⟨M, rfl⟩
    rw [allowsHi_final u fu pu p hp] at h1
    rw [allowsLo_final c fc p hp] at h2
    have s1 := h1 M A hM hA
    have s2 := h2 y hy
    have hyl : y.loc = none := (fc y hy).1.loc
    have hyp : vk y ≤ vk p := by
      cases hi : c.imin <;> simp [hi] at s2
      · exact le_of_lt s2.1
      · exact s2
    cases hiu : u.imax with
    | false =>
      simp [hiu] at s1
      rcases hAy with h | ⟨h, _⟩
      · exact absurd (lt_of_lt_of_le (lt_trans s1 h) hyp) (lt_irrefl _)
      · exact absurd (lt_of_lt_of_le (h ▸ s1) hyp) (lt_irrefl _)
    | true =>
      have hAM : A = M := by
        have : u.allowedMax = some M := by simp [allowedMax, hM, hiu]
        rw [hA] at this; injection this
      subst hAM
      simp [hiu] at s1
      have hyd : vk y ≤ vk (dropLoc p) := (le_dropLoc_iff hyl hp).2 hyp
      rcases hAy with h | ⟨h, hfl⟩
      · exact absurd (lt_of_le_of_lt (le_trans hyd s1) h) (lt_irrefl _)
      · have hci : c.imin = false := by
          rcases hfl with h' | h'
          · rw [hiu] at h'; cases h'
          · exact h'
        simp [hci] at s2
        have hk : vk (dropLoc p) = vk y := le_antisymm (h ▸ s1) hyd
        exact s2.2 ((dropLoc_relKey p).symm.trans (relKey_of_vk_eq hk))
  refine ⟨?_, ?_, ?_, ?_, ?_, ?_⟩
  · intro h
    refine lo_mono a b fa.1 fb.1 p hp ?_
    rcases allowsLower_dec.1 h with h1 | ⟨x, y, hx, hy, h1⟩
    · exact Or.inl h1
    · exact Or.inr ⟨x, y, hx, hy, h1.imp id (fun ⟨e, i, _⟩ => ⟨e, Or.inl i⟩)⟩
  · intro h
    refine lo_mono b a fb.1 fa.1 p hp ?_
    rcases allowsLower_dec.2 h with h1 | ⟨x, y, hx, hy, h1⟩
    · exact Or.inl h1
    · refine Or.inr ⟨y, x, hy, hx, ?_⟩
      rcases h1 with h1 | ⟨e, fl⟩
      · exact Or.inl h1
      · exact Or.inr ⟨e.symm, fl.symm⟩
  · intro h
    refine hi_mono a b fa.2 fb.2 ha.2 hb.2 p hp ?_
    rcases allowsHigher_dec.1 h with h1 | ⟨x, y, hx, hy, h1⟩
    · exact Or.inl h1
    · exact Or.inr ⟨x, y, hx, hy, h1.imp id (fun ⟨e, i, _⟩ => ⟨e, Or.inl i⟩)⟩
  · intro h
    refine hi_mono b a fb.2 fa.2 hb.2 ha.2 p hp ?_
    rcases allowsHigher_dec.2 h with h1 | ⟨x, y, hx, hy, h1⟩
    · exact Or.inl h1
    · refine Or.inr ⟨y, x, hy, hx, ?_⟩
      rcases h1 with h1 | ⟨e, fl⟩
      · exact Or.inl h1
      · exact Or.inr ⟨e.symm, fl.symm⟩
  · exact slBad a b fa.2 fb.1 ha.2
  · exact slBad b a fb.2 fa.1 hb.2

end VRange
/-! ### members over final versions -/

/-- a `Version` member that compares equal to a final version -/
def FVer (x : Version) : Prop := x.wf = true ∧ ∃ F : Version, F.isFinal = true ∧ F.wf = true ∧ vk x = vk F

theorem FVer.notLocal {x : Version} (h : FVer x) : x.isLocal = false := by
  obtain ⟨hx, F, hF, hFw, hk⟩ := h
  rw [isLocal_of_vk_eq hx hFw hk]
  simp [isLocal, (final_parts hF).2.2.2]

theorem FVer.loc {x : Version} (h : FVer x) : x.loc = none := by simpa [isLocal] using h.notLocal

theorem dropLoc_of_notLocal {x : Version} (h : x.isLocal = false) : dropLoc x = x := by simp [dropLoc, h]

/-- such a member admits exactly the versions whose label-free part equals it -/
theorem FVer.allows_iff {x : Version} (h : FVer x) (p : Version) : x.allows p = true ↔ vk (dropLoc p) = vk x := by
  unfold Version.allows
  simp only [h.notLocal, Bool.not_false, Bool.true_and]
  have : (if p.isLocal = true then p.withoutLocal else p) = dropLoc p := rfl
  rw [this, eqv_iff]
  exact ⟨fun e => e.symm, fun e => e.symm⟩

/-- the members `parse_constraint` builds from clauses with final literals -/
def RC.FClass : RC → Prop
  | .ver x => FVer x
  | .rng r => r.WF ∧ r.FLo ∧ r.FHi

namespace VRange

/-- a range of the class cannot tell two probes apart whose label-free parts compare equal -/
theorem class_allows_congr (r : VRange) (hr : r.WF) (fl : r.FLo) (fh : r.FHi) (p q : Version) (hp : p.wf = true)
    (hq : q.wf = true) (hk : vk (dropLoc p) = vk (dropLoc q)) : r.allows p = r.allows q := by
  have hrk : relKey p = relKey q := by
    rw [← dropLoc_relKey p, ← dropLoc_relKey q]; exact relKey_of_vk_eq hk
  have lo : r.allowsLo p = r.allowsLo q := by
    apply bool_eq_of_iff
    rw [allowsLo_final r fl p hp, allowsLo_final r fl q hq]
    have one : ∀ m, r.min = some m →
        ((if r.imin then vk m ≤ vk p else vk m < vk p ∧ relKey p ≠ relKey m) ↔
         (if r.imin then vk m ≤ vk q else vk m < vk q ∧ relKey q ≠ relKey m)) := by
      intro m hm
      have hml := (fl m hm).1.loc
      cases hi : r.imin with
      | true =>
        simp only [if_true]
        rw [← le_dropLoc_iff hml hp, ← le_dropLoc_iff hml hq, hk]
      | false =>
        simp only [Bool.false_eq_true, if_false]
        rw [hrk]
        constructor
        · rintro ⟨h1, h2⟩; exact ⟨(lt_congr_right hrk (hrk ▸ h2)).1 h1, h2⟩
        · rintro ⟨h1, h2⟩; exact ⟨(lt_congr_right hrk (hrk ▸ h2)).2 h1, h2⟩
    exact ⟨fun h m hm => (one m hm).1 (h m hm), fun h m hm => (one m hm).2 (h m hm)⟩
  have hi : r.allowsHi p = r.allowsHi q := by
    apply bool_eq_of_iff
    rw [allowsHi_final r fh hr.2 p hp, allowsHi_final r fh hr.2 q hq]
    have one : ∀ M A, r.max = some M → r.allowedMax = some A →
        ((if r.imax then vk (dropLoc p) ≤ vk M else vk p < vk A) ↔
         (if r.imax then vk (dropLoc q) ≤ vk M else vk q < vk A)) := by
      intro M A hM hA
      have hAl : A.loc = none := by
        rcases allowedMax_cases hM with h1 | ⟨h1, _, _⟩
        · rw [h1] at hA; injection hA with hA; subst hA; exact (fh M hM).1.loc
        · rw [h1] at hA; injection hA with hA; subst hA; rfl
      cases hi : r.imax with
      | true => simp only [if_true]; rw [hk]
      | false =>
        simp only [Bool.false_eq_true, if_false]
        rw [← lt_dropLoc_iff hAl hp, ← lt_dropLoc_iff hAl hq, hk]
    exact ⟨fun h M A hM hA => (one M A hM hA).1 (h M A hM hA), fun h M A hM hA => (one M A hM hA).2 (h M A hM hA)⟩
  simp only [allows, lo, hi]

end VRange

namespace RC

theorem rngIntersectVer_final (r : VRange) (x p : Version) (hr : r.WF) (fl : r.FLo) (fh : r.FHi) (hx : FVer x)
    (hp : p.wf = true) :
    (rngIntersectVer r x).allowsPlain p = (r.allows p && x.allows p) ∧
      (rngIntersectVer r x = .single (.ver x) ∨ rngIntersectVer r x = .empty) := by
  have key : x.allows p = true → r.allows p = r.allows x := fun h2 =>
    VRange.class_allows_congr r hr fl fh p x hp hx.1 (by
      rw [dropLoc_of_notLocal hx.notLocal]; exact (hx.allows_iff p).1 h2)
  have hnl : ∀ m, r.min = some m → m.isLocal = false := fun m hm => (fl m hm).1.notLocal
  have shape : rngIntersectVer r x = .single (.ver x) ∨ rngIntersectVer r x = .empty := by
    unfold rngIntersectVer
    by_cases h1 : r.allows x = true
    · simp [h1]
    · rw [if_neg h1]
      cases hm : r.min with
      | none => simp
      | some m => simp [hnl m hm]
  refine ⟨?_, shape⟩
  by_cases h1 : r.allows x = true
  · have e : rngIntersectVer r x = .single (.ver x) := by simp [rngIntersectVer, h1]
    rw [e]
    simp only [VC.allowsPlain, VC.flatten, List.any_cons, List.any_nil, Bool.or_false, RC.allows]
    cases h2 : x.allows p
    · simp
    · simp [key h2, h1]
  · have e : rngIntersectVer r x = .empty := by
      rcases shape with h | h
      · exfalso
        unfold rngIntersectVer at h
        rw [if_neg h1] at h
        cases hm : r.min with
        | none => simp [hm] at h
        | some m => simp [hm, hnl m hm] at h
      · exact h
    rw [e]
    simp only [VC.allowsPlain, VC.flatten, List.any_nil]
    cases h2 : x.allows p
    · simp
    · simp [key h2, h1]

theorem verIntersectVer_final (x y p : Version) (hx : FVer x) (hy : FVer y) :
    (verIntersectVer x y).allowsPlain p = (x.allows p && y.allows p) ∧
      (verIntersectVer x y = .single (.ver x) ∨ verIntersectVer x y = .single (.ver y) ∨ verIntersectVer x y = .empty) := by
  have ex := hx.allows_iff p
  have ey := hy.allows_iff p
  have exy : x.allows y = true ↔ vk y = vk x := by
    rw [hx.allows_iff y, dropLoc_of_notLocal hy.notLocal]
  have eyx : y.allows x = true ↔ vk x = vk y := by
    rw [hy.allows_iff x, dropLoc_of_notLocal hx.notLocal]
  by_cases h1 : x.allows y = true
  · have e : verIntersectVer x y = .single (.ver y) := by simp [verIntersectVer, h1]
    rw [e]
    refine ⟨?_, Or.inr (Or.inl rfl)⟩
    simp only [VC.allowsPlain, VC.flatten, List.any_cons, List.any_nil, Bool.or_false, RC.allows]
    have hk := exy.1 h1
    have : x.allows p = y.allows p := by
      apply bool_eq_of_iff; rw [ex, ey, hk]
    rw [this]; simp
  · by_cases h2 : y.allows x = true
    · exact absurd (exy.2 (eyx.1 h2).symm) h1
    · have e : verIntersectVer x y = .empty := by simp [verIntersectVer, h1, h2]
      rw [e]
      refine ⟨?_, Or.inr (Or.inr rfl)⟩
      simp only [VC.allowsPlain, VC.flatten, List.any_nil]
      cases h3 : x.allows p <;> cases h4 : y.allows p <;> simp
      exact h1 (exy.2 ((ey.1 h4).symm.trans (ex.1 h3)))

/-- **`a.intersect(b)` for two members over final versions is exact at EVERY probe**, and the result is again over
final versions -/
theorem intersect_final (m n : RC) (hm : m.FClass) (hn : n.FClass) (p : Version) (hp : p.wf = true) :
    ∃ c, RC.intersect m n = .ok c ∧ c.notUnion ∧ (∀ x ∈ c.flatten, x.FClass) ∧
      c.allowsPlain p = (m.allows p && n.allows p) := by
  cases m with
  | ver x =>
    cases n with
    | ver y =>
      obtain ⟨h1, h2⟩ := verIntersectVer_final x y p hm hn
      refine ⟨_, rfl, verIntersectVer_notUnion x y, ?_, h1⟩
      intro z hz
      have hz : z ∈ (verIntersectVer x y).flatten := hz
      rcases h2 with h2 | h2 | h2 <;> rw [h2] at hz <;> simp [VC.flatten] at hz
      · subst hz; exact hm
      · subst hz; exact hn
    | rng r =>
      obtain ⟨h1, h2⟩ := rngIntersectVer_final r x p hn.1 hn.2.1 hn.2.2 hm hp
      refine ⟨_, rfl, rngIntersectVer_notUnion r x, ?_, by rw [h1, Bool.and_comm]; rfl⟩
      intro z hz
      have hz : z ∈ (rngIntersectVer r x).flatten := hz
      rcases h2 with h2 | h2 <;> rw [h2] at hz <;> simp [VC.flatten] at hz
      subst hz; exact hm
  | rng r =>
    cases n with
    | ver y =>
      obtain ⟨h1, h2⟩ := rngIntersectVer_final r y p hm.1 hm.2.1 hm.2.2 hn hp
      refine ⟨_, rfl, rngIntersectVer_notUnion r y, ?_, h1⟩
      intro z hz
      have hz : z ∈ (rngIntersectVer r y).flatten := hz
      rcases h2 with h2 | h2 <;> rw [h2] at hz <;> simp [VC.flatten] at hz
      subst hz; exact hn
    | rng s =>
      obtain ⟨hrw, frl, frh⟩ := hm
      obtain ⟨hsw, fsl, fsh⟩ := hn
      obtain ⟨c, h1, h2, h3, h4⟩ := VRange.intersect_cmp_at r s hrw hsw p
        (VRange.cmpOK_final r s hrw hsw ⟨frl, frh⟩ ⟨fsl, fsh⟩ p hp)
      refine ⟨c, h1, h2, ?_, h3⟩
      have pick : ∀ L : VRange, L = r ∨ L = s → L.WF ∧ L.FLo ∧ L.FHi := by
        intro L hL; rcases hL with rfl | rfl
        · exact ⟨hrw, frl, frh⟩
        · exact ⟨hsw, fsl, fsh⟩
      intro z hz
      rcases h4 with he | ⟨L, H, hL, hH, hany | ⟨mm, M, hmm, hM, hk, hj, hc⟩ | hc⟩
      · rw [he] at hz; simp [VC.flatten] at hz
      · rw [hany] at hz; simp [VC.flatten] at hz; subst hz
        exact ⟨⟨by intro e he; simp [VRange.bounds, VRange.any] at he, by intro a b ha; simp [VRange.any] at ha⟩,
          by intro a ha; simp [VRange.any] at ha, by intro a ha; simp [VRange.any] at ha⟩
      · rw [hc] at hz; simp [VC.flatten] at hz; subst hz
        have hMF := ((pick H hH).2.2 M hM)
        exact ⟨((pick L hL).2.1 mm hmm).1.1, M, hMF.2 hj, hMF.1.1, hk⟩
      · rw [hc] at hz; simp [VC.flatten] at hz; subst hz
        -- well-formedness of the result range comes from the denotational theorem
        have hwf : (⟨L.min, H.max, L.imin, H.imax⟩ : VRange).WF := by
          rcases VRange.intersect_den r s hrw hsw with ⟨h', _⟩ | ⟨x, h', _⟩ | ⟨t, h', ht, _⟩
          · rw [h1, hc] at h'; cases h'
          · rw [h1, hc] at h'; cases h'
          · rw [h1, hc] at h'; injection h' with h'; injection h' with h'; injection h' with h'
            rw [h']; exact ht
        exact ⟨hwf, fun a ha => (pick L hL).2.1 a ha, fun a ha => (pick H hH).2.2 a ha⟩

end RC

/-- the fold over members with final bounds, at any probe -/
theorem foldIntersect_final (p : Version) (hp : p.wf = true) :
    ∀ (rest : List RC) (acc : VC) (b : Bool), acc.notUnion →
      (∀ c ∈ acc.flatten, c.FClass) → acc.allowsPlain p = b → (∀ n ∈ rest, n.FClass) →
      ∃ c, rest.foldlM (fun acc n => VC.intersect acc (.single n)) acc = .ok c ∧ c.notUnion ∧
        c.allowsPlain p = (b && rest.all (fun n => n.allows p))
  | [], acc, b, hnu, _, hb, _ => ⟨acc, rfl, hnu, by simpa using hb⟩
  | n :: ns, acc, b, hnu, hw, hb, hrest => by
    have hn := hrest n (by simp)
    simp only [List.foldlM_cons, bind, Except.bind]
    cases acc with
    | union ds => exact absurd hnu (by simp [VC.notUnion])
    | empty =>
      simp only [VC.intersect]
      have hb' : b = false := by simpa [VC.allowsPlain, VC.flatten] using hb.symm
      obtain ⟨c, hc1, hc2, hc3⟩ := foldIntersect_final p hp ns .empty false trivial (by simp [VC.flatten]) rfl
        (fun x hx => hrest x (by simp [hx]))
      exact ⟨c, hc1, hc2, by rw [hc3, hb']; simp⟩
    | single m =>
      have hmc := hw m (by simp [VC.flatten])
      obtain ⟨i, hi, s1, s2, s3⟩ := RC.intersect_final m n hmc hn p hp
      have hb' : b = m.allows p := by simpa [VC.allowsPlain, VC.flatten] using hb.symm
      simp only [VC.intersect, hi]
      obtain ⟨c, hc1, hc2, hc3⟩ := foldIntersect_final p hp ns i (m.allows p && n.allows p) s1 s2 s3
        (fun x hx => hrest x (by simp [hx]))
      exact ⟨c, hc1, hc2, by rw [hc3, hb']; simp [Bool.and_assoc]⟩

/-- the member of a single-range clause with a final literal is over final versions -/
theorem clauseMember_final (op : SOp) (V : Version) (hok : ClauseOk' op V) (hop : op ≠ .ne ∧ op ≠ .neStar)
    (hfin : V.isFinal = true) :
    clauseVC op V = .ok (.single (clauseMember op V)) ∧ (clauseMember op V).FClass := by
  obtain ⟨s1, s2, _, _⟩ := clauseMember_spec op V hok hop (final_parts hfin).2.2.2
  refine ⟨s1, ?_⟩
  obtain ⟨hV, _, hprec, _⟩ := hok
  have fdV : FD V := ⟨hV, Or.inl hfin⟩
  cases op with
  | eq => exact ⟨hV, V, hfin, hV, rfl⟩
  | ne => exact absurd rfl hop.1
  | lt => exact ⟨s2, by intro m hm; simp [clauseMember] at hm, by
      intro M hM; simp [clauseMember] at hM; subst hM; exact ⟨fdV, fun _ => hfin⟩⟩
  | le => exact ⟨s2, by intro m hm; simp [clauseMember] at hm, by
      intro M hM; simp [clauseMember] at hM; subst hM; exact ⟨fdV, fun _ => hfin⟩⟩
  | gt => exact ⟨s2, by
      intro m hm; simp [clauseMember] at hm; subst hm; exact ⟨fdV, fun _ => hfin⟩, by
      intro M hM; simp [clauseMember] at hM⟩
  | ge => exact ⟨s2, by
      intro m hm; simp [clauseMember] at hm; subst hm; exact ⟨fdV, fun _ => hfin⟩, by
      intro M hM; simp [clauseMember] at hM⟩
  | compat =>
    obtain ⟨hHfin, _, hHwf, _, _, _, _⟩ := compat_facts V hV (hprec rfl)
    exact ⟨s2, by
      intro m hm; simp [clauseMember] at hm; subst hm; exact ⟨fdV, fun _ => hfin⟩, by
      intro M hM; simp [clauseMember] at hM; subst hM; exact ⟨⟨hHwf, Or.inl hHfin⟩, fun _ => hHfin⟩⟩
  | eqStar =>
    have hNfin := (eqStar_range V hfin).2
    have hNwf := final_nextStable_wf V hfin hV
    exact ⟨s2, by
      intro m hm; simp [clauseMember] at hm; subst hm
      exact ⟨⟨wf_firstDev hV, Or.inr ⟨V, hfin, hV, rfl⟩⟩, fun h => by simp [clauseMember] at h⟩, by
      intro M hM; simp [clauseMember] at hM; subst hM
      exact ⟨⟨wf_firstDev hNwf, Or.inr ⟨V.nextStable, hNfin, hNwf, rfl⟩⟩, fun h => by simp [clauseMember] at h⟩⟩
  | neStar => exact absurd rfl hop.2

end Poetry
